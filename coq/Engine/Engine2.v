(* Lock-engine model, part 4: UnLock, cancelWaitLock, wakeUpWaitLocks, doTimeOut, doExpried, DoAckLock, sweeps, run. *)
From Coq Require Import String.
From Slock Require Import Engine.Types Engine.Queues Engine.Timers Engine.Engine.
Open Scope N_scope.

Definition has_udata_flag (c : cmd) : bool := has (c_flag c) UNLOCK_FLAG_CONTAINS_DATA.

(* ---------------------------------------------------------------- cancelWaitLock *)
Fixpoint find_last_waiter (s : db) (items : list ref) (lockid : N) (acc : option ref) : option ref :=
  match items with
  | [] => acc
  | r :: rest =>
      let l := getl s r in
      if negb (l_timeouted l) && (c_lockid (l_cmd l) =? lockid)
      then find_last_waiter s rest lockid (Some r) else find_last_waiter s rest lockid acc
  end.

Definition cancel_wait_lock (s : db) (conn : N) (c : cmd) : db * list event * option wake :=
  let k := c_key c in
  let m := getm s k in
  let w := match m_wait m with Some q => find_last_waiter s (wq_items q) (c_lockid c) None | None => None end in
  match w with
  | None =>
      let s := bump (fun n => n <| n_unlockerr := (n_unlockerr n + 1)%Z |>) s in
      (s, [reply conn c R_UNLOCK_ERROR (m_locked m) 0 (data_of s k)], None)
  | Some r =>
      let l := getl s r in
      let depth := l_locked l in
      let s := updl s r (fun l => l <| l_timeouted := true |>) in
      let s := if l_long l then remove_long_timeout s r else s in
      let wconn := l_conn l in
      let wcmd := l_cmd l in
      let '(s, ev1) :=
        if 0 <? depth then
          let s := updm s k (fun m => m <| m_locked := sub32 (m_locked m) depth |>) in
          let '(s, aev) := if l_isaof (getl s r) then push_unlock_aof s k r wcmd None false 0 else (s, []) in
          (remove_lock s k r, ERelease k r depth :: aev)
        else
          let '(s, w) := get_wait_lock s k in
          let s := match w with None => updm s k (fun m => m <| m_waited := false |>) | Some _ => s end in
          (bump (fun n => n <| n_wait := (n_wait n - 1)%Z |>) s, []) in
      let lrc := l_locked (getl s r) in
      let lcount := m_locked (getm s k) in
      let s := remove_mgr_if_unref s k in
      let s := bump (fun n => n <| n_unlock := (n_unlock n + 1)%Z |>) s in
      let d := data_of s k in
      (s, ev1 ++ [reply conn c R_LOCKED_ERROR lcount lrc d; reply wconn wcmd R_UNLOCK_ERROR lcount lrc d],
       Some (mkWake k None))
  end.

(* ---------------------------------------------------------------- UnLock *)
(* full release of hold r (the `unlocked` part of UnLock, db.go:2422-2461 / 2464-2510) *)
Definition release_hold (s : db) (k conn : N) (c : cmd) (r : ref) (depth : N) : db * list event :=
  let hc := l_cmd (getl s r) in
  let s := updl s r (fun l => l <| l_expried := true |>) in
  let ldata := data_of s k in
  let '(s, pev) := if has_udata_flag c then process_data s k r c false else (s, []) in
  let l := getl s r in
  let '(s, aev) :=
    if l_long l then
      let s := remove_long_expried s r (l_eT l) in
      let '(s, aev) := if l_isaof (getl s r) then push_unlock_aof s k r hc (Some c) false 0 else (s, []) in
      let s := remove_lock s k r in
      let s := if l_refc (getl s r) =? 0 then remove_mgr_if_unref (free_lock s r) k else s in
      (s, aev)
    else
      let '(s, aev) := if l_isaof (getl s r) then push_unlock_aof s k r hc (Some c) false 0 else (s, []) in
      (remove_lock s k r, aev) in
  let s := bump (fun n => n <| n_unlock := (n_unlock n + Z.of_N depth)%Z |> <| n_locked := (n_locked n - Z.of_N depth)%Z |>) s in
  (s, [ERelease k r depth] ++ pev ++ aev ++ [reply conn c R_SUCCED (m_locked (getm s k)) 0 ldata]).

Definition unlock_step (s : db) (conn : N) (c : cmd) : db * list event * option wake :=
  let k := c_key c in
  match aget (mgrs s) k with
  | None =>
      (bump (fun n => n <| n_unlockerr := (n_unlockerr n + 1)%Z |>) s, [reply conn c R_UNLOCK_ERROR 0 0 None], None)
  | Some m =>
  let err (s : db) (c : cmd) (code lrc : N) :=
    let s := bump (fun n => n <| n_unlockerr := (n_unlockerr n + 1)%Z |>) s in
    (s, [reply conn c code (m_locked m) lrc (data_of s k)], None) in
  if negb (leader s) && negb (has (c_flag c) UNLOCK_FLAG_FROM_AOF) then err s c R_STATE_ERROR 0
  else if m_locked m =? 0 then
    if has (c_flag c) UNLOCK_FLAG_CANCEL_WAIT then cancel_wait_lock s conn c
    else err s c R_UNLOCK_ERROR 0
  else
  let target : option (ref * cmd) + (db * list event * option wake) :=
    match get_locked_lock s m (c_lockid c) with
    | Some r =>
        if negb (l_ack (getl s r) =? 255) then inr (err s c R_ACK_WAITING (l_locked (getl s r)))
        else inl (Some (r, c))
    | None =>
        if has (c_flag c) UNLOCK_FLAG_FIRST then
          match m_cur m with
          | None => inr (err s c R_UNOWN_ERROR 0)
          | Some cr =>
              let cc := l_cmd (getl s cr) in
              if negb (l_ack (getl s cr) =? 255) then inr (err s c R_ACK_WAITING (l_locked (getl s cr))) else
              inl (Some (cr, c <| c_lockid := c_lockid cc |> <| c_expried := c_expried cc |> <| c_eflag := c_eflag cc |>
                              <| c_timeout := c_timeout cc |> <| c_tflag := c_tflag cc |> <| c_count := c_count cc |>
                              <| c_rcount := c_rcount cc |>))
          end
        else if has (c_flag c) UNLOCK_FLAG_CANCEL_WAIT then inr (cancel_wait_lock s conn c)
        else inr (err s c R_UNOWN_ERROR 0)
    end in
  match target with
  | inr res => res
  | inl None => (s, [], None)
  | inl (Some (r, c)) =>
      let l := getl s r in
      let depth := l_locked l in
      if 1 <? depth then
        if (0 <? c_rcount c) && negb (has (c_tflag c) TF_PRIORITY) then
          (* one level *)
          let s := updl s r (fun l => l <| l_locked := dec8 (l_locked l) |>) in
          let s := updm s k (fun m => m <| m_locked := sub32 (m_locked m) 1 |>) in
          let ldata := data_of s k in
          let '(s, pev) := if has_udata_flag c then process_data s k r c false else (s, []) in
          let '(s, aev) := if l_isaof (getl s r) then push_unlock_aof s k r (l_cmd (getl s r)) (Some c) true AOF_FLAG_UPDATED else (s, []) in
          let s := bump (fun n => n <| n_unlock := (n_unlock n + 1)%Z |> <| n_locked := (n_locked n - 1)%Z |>) s in
          (s, [ERelease k r 1] ++ pev ++ aev ++ [reply conn c R_SUCCED (m_locked (getm s k)) (l_locked (getl s r)) ldata],
           Some (mkWake k (Some conn)))
        else
          let s := updm s k (fun m => m <| m_locked := sub32 (m_locked m) depth |>) in
          let '(s, ev) := release_hold s k conn c r depth in
          (s, ev, Some (mkWake k (Some conn)))
      else
        let s := updm s k (fun m => m <| m_locked := sub32 (m_locked m) 1 |>) in
        let '(s, ev) := release_hold s k conn c r 1 in
        (s, ev, Some (mkWake k (Some conn)))
  end
  end.

(* ---------------------------------------------------------------- wakeUpWaitLocks: one loop iteration *)
Inductive wake_res := WDone | WMore.

Definition wake_grant (s : db) (k : N) (r : ref) (via : option N) : db * list event :=
  let l := getl s r in
  let c := l_cmd l in
  let before := m_locked (getm s k) in
  let cc := cur_count s k in
  if has (c_tflag c) TF_REQUIRE_ACKED && negb (l_isaof l) && negb (l_aoftime l =? 255) && negb (has (c_flag c) LOCK_FLAG_FROM_AOF) then
    let s := add_lock s k r in
    let s := updm s k (fun m => m <| m_locked := add32 (m_locked m) 1 |>) in
    let s := updl s r (fun l => l <| l_refc := add8 (l_refc l) 1 |>) in
    let '(s, pev) := if has_data_flag c then process_data s k r c true else (s, []) in
    let '(s, aev) := push_lock_aof s k r 0 in
    let s := bump (fun n => n <| n_lock := (n_lock n + 1)%Z |> <| n_locked := (n_locked n + 1)%Z |> <| n_wait := (n_wait n - 1)%Z |>) s in
    (s, [EGrant k r true before cc (c_count c)] ++ pev ++ aev)
  else
    let s := updl s r (fun l => l <| l_timeouted := true |>) in
    let s := if l_long l then remove_long_timeout s r else s in
    if 0 <? c_expried c then
      let s := add_lock s k r in
      let s := updm s k (fun m => m <| m_locked := add32 (m_locked m) 1 |>) in
      let ldata := data_of s k in
      let '(s, pev) := if has_data_flag c then process_data s k r c false else (s, []) in
      if has (c_eflag c) EF_MILLISECOND then (s, [EPanic "millisecond-expiry-not-modelled"%string]) else
      let '(s, aev) := add_expried s k r in
      let s := updl s r (fun l => l <| l_refc := add8 (l_refc l) 1 |>) in
      let s := bump (fun n => n <| n_lock := (n_lock n + 1)%Z |> <| n_locked := (n_locked n + 1)%Z |> <| n_wait := (n_wait n - 1)%Z |>) s in
      (s, [EGrant k r true before cc (c_count c)] ++ pev ++ aev
          ++ [reply (l_conn l) c R_SUCCED (m_locked (getm s k)) (l_locked (getl s r)) ldata])
    else
      let ldata := data_of s k in
      let m := getm s k in
      let '(s, pev, aev) :=
        if has_data_flag c then
          let req_aof := match m_cur m with Some cr => l_isaof (getl s cr) | None => false end
                         || match m_data m with Some d => d_isaof d | None => false end in
          let '(s, pev) := process_data s k r c false in
          let nowaof := match m_data (getm s k) with Some d => negb (d_isaof d) | None => false end in
          if req_aof && nowaof then let '(s, aev) := push_lock_aof s k r 0 in (s, pev, aev) else (s, pev, [])
        else (s, [], []) in
      let s := bump (fun n => n <| n_lock := (n_lock n + 1)%Z |> <| n_wait := (n_wait n - 1)%Z |>) s in
      (s, pev ++ aev ++ [reply (l_conn l) c R_SUCCED (m_locked (getm s k)) (l_locked (getl s r)) ldata]).

Definition wake_iter (s : db) (w : wake) : db * list event * wake_res :=
  let k := w_key w in
  match aget (mgrs s) k with
  | None => (s, [], WDone)
  | Some m =>
      if negb (m_waited m) then (s, [], WDone) else
      let '(s, wl) := get_wait_lock s k in
      match wl with
      | None =>
          let s := updm s k (fun m => m <| m_waited := false |>) in
          (remove_mgr_if_unref s k, [], WDone)
      | Some r =>
          if negb (do_lock s k r) then (s, [], WDone)
          else let '(s, ev) := wake_grant s k r (w_conn w) in (s, ev, WMore)
      end
  end.

Fixpoint run_wake (fuel : nat) (s : db) (w : wake) : db * list event :=
  match fuel with
  | O => (s, [EPanic "wake-out-of-fuel"%string])
  | S f =>
      match wake_iter s w with
      | (s', ev, WDone) => (s', ev)
      | (s', ev, WMore) => let '(s'', ev') := run_wake f s' w in (s'', ev ++ ev')
      end
  end.

Definition wake_fuel (s : db) (k : N) : nat :=
  S (S (match m_wait (getm s k) with Some q => length (wq_items q) | None => 0 end)).

Definition finish (res : db * list event * option wake) : db * list event :=
  let '(s, ev, w) := res in
  match w with
  | None => (s, ev)
  | Some w => let '(s', ev') := run_wake (wake_fuel s (w_key w)) s w in (s', ev ++ ev')
  end.

(* ---------------------------------------------------------------- doTimeOut *)
Definition do_timeout (s : db) (r : ref) : db * list event * option wake :=
  match aget (store s) r with
  | None => (s, [EPanic "uaf:doTimeOut"%string], None)
  | Some l =>
  let k := l_key l in
  if l_timeouted l then
    let s := unref s r in
    ((if match aget (store s) r with None => true | Some _ => false end then remove_mgr_if_unref s k else s), [], None)
  else
    let depth := l_locked l in
    let s := updl s r (fun l => l <| l_timeouted := true |>) in
    let c := l_cmd l in
    let '(s, ev1) :=
      if 0 <? depth then
        let s := updm s k (fun m => m <| m_locked := sub32 (m_locked m) depth |>) in
        let '(s, dev) :=
          if has_data_flag c && negb (l_ack l =? 255) then
            let m := getm s k in
            match process_recover_lock_data (m_data m) (l_data (getl s r)) with
            | Ok (cur', ld') => (updl (updm s k (fun m => m <| m_data := cur' |>)) r (fun l => l <| l_data := ld' |>), [])
            | Panic site => (s, [EPanic site])
            | _ => (s, [EPanic "recover-unsupported"%string])
            end
          else (s, []) in
        let '(s, aev) := if l_isaof (getl s r) then push_unlock_aof s k r c None false AOF_FLAG_TIMEOUTED else (s, []) in
        let s := remove_lock s k r in
        (bump (fun n => n <| n_lock := (n_lock n - 1)%Z |> <| n_locked := (n_locked n - 1)%Z |>) s, ERelease k r depth :: dev ++ aev)
      else
        let '(s, w) := get_wait_lock s k in
        let s := match w with None => updm s k (fun m => m <| m_waited := false |>) | Some _ => s end in
        (bump (fun n => n <| n_wait := (n_wait n - 1)%Z |>) s, []) in
    let lrc := l_locked (getl s r) in
    let s := unref s r in
    let s := if match aget (store s) r with None => true | Some _ => false end then remove_mgr_if_unref s k else s in
    let s := bump (fun n => n <| n_timeouted := (n_timeouted n + 1)%Z |>) s in
    (s, ev1 ++ [reply (l_conn l) c R_TIMEOUT (m_locked (getm s k)) lrc (data_of s k)], Some (mkWake k None))
  end.

(* ---------------------------------------------------------------- doExpried *)
Definition do_expried (s : db) (r : ref) : db * list event * option wake :=
  match aget (store s) r with
  | None => (s, [EPanic "uaf:doExpried"%string], None)
  | Some l =>
  let k := l_key l in
  if l_expried l then
    let s := unref s r in
    ((if match aget (store s) r with None => true | Some _ => false end then remove_mgr_if_unref s k else s), [], None)
  else if negb (leader s) && l_isaof l && ((l_eT l <=? 0)%Z || (now s - l_eT l <? EXPRIED_WAIT_LEADER_MAX_TIME)%Z) then
    let s := updl s r (fun l => l <| l_eT := (now s + 30)%Z |>) in
    let '(s, aev) := add_expried s k r in
    (s, aev, None)
  else
    let depth := l_locked l in
    let c := l_cmd l in
    let s := updl s r (fun l => l <| l_expried := true |>) in
    let s := updm s k (fun m => m <| m_locked := sub32 (m_locked m) depth |>) in
    let '(s, aev) := if l_isaof (getl s r) then push_unlock_aof s k r c None false AOF_FLAG_EXPRIED else (s, []) in
    let s := remove_lock s k r in
    let lrc := l_locked (getl s r) in
    let s := unref s r in
    let s := if match aget (store s) r with None => true | Some _ => false end then remove_mgr_if_unref s k else s in
    let s := bump (fun n => n <| n_locked := (n_locked n - Z.of_N depth)%Z |> <| n_expried := (n_expried n + 1)%Z |>) s in
    (s, [ERelease k r depth] ++ aev ++ [reply (l_conn l) c R_EXPRIED (m_locked (getm s k)) lrc (data_of s k)],
     Some (mkWake k None))
  end.

(* ---------------------------------------------------------------- DoAckLock *)
Definition do_ack (s : db) (r : ref) (ok : bool) : db * list event * option wake :=
  match aget (store s) r with
  | None => (s, [EPanic "uaf:DoAckLock"%string], None)
  | Some l =>
  let k := l_key l in
  let s := if negb (l_timeouted l)
           then let s := updl s r (fun l => l <| l_timeouted := true |>) in
                if l_long l then remove_long_timeout s r else s
           else s in
  let l := getl s r in
  let freed_then_mgr (s : db) := if match aget (store s) r with None => true | Some _ => false end then remove_mgr_if_unref s k else s in
  if l_ack l =? 255 then (freed_then_mgr (unref s r), [], None)
  else
  let c := l_cmd l in
  let ack_data (s : db) : db * option bytes * list event :=
    if has_data_flag c then
      match process_ack_lock_data (m_data (getm s k)) (l_data (getl s r)) with
      | Ok (d, ld') => (updl s r (fun l => l <| l_data := ld' |>), d, [])
      | Panic site => (s, None, [EPanic site])
      | _ => (s, None, [EPanic "ack-unsupported"%string])
      end
    else (s, data_of s k, []) in
  if negb (l_expried l) || (l_locked l =? 0) then
    let s := updl s r (fun l => l <| l_ack := 255 |>) in
    let '(s, d, pev) := ack_data s in
    let lrc := l_locked (getl s r) in
    let s := freed_then_mgr (unref s r) in
    (s, pev ++ [reply (l_conn l) c R_LOCKED_ERROR (m_locked (getm s k)) lrc d], None)
  else if ok then
    let s := updl s r (fun l => l <| l_ack := 255 |> <| l_eT := expiry_deadline c (l_start l) |>) in
    let '(s, d, pev) := ack_data s in
    if has (c_eflag c) EF_MILLISECOND then (s, [EPanic "millisecond-expiry-not-modelled"%string], None) else
    let '(s, aev) := add_expried s k r in
    (s, pev ++ aev ++ [reply (l_conn l) c R_SUCCED (m_locked (getm s k)) (l_locked (getl s r)) d], None)
  else
    let depth := l_locked l in
    let s := updm s k (fun m => m <| m_locked := sub32 (m_locked m) depth |>) in
    let '(s, dev) :=
      if has_data_flag c then
        match process_recover_lock_data (m_data (getm s k)) (l_data (getl s r)) with
        | Ok (cur', ld') => (updl (updm s k (fun m => m <| m_data := cur' |>)) r (fun l => l <| l_data := ld' |>), [])
        | Panic site => (s, [EPanic site])
        | _ => (s, [EPanic "recover-unsupported"%string])
        end
      else (s, []) in
    let '(s, aev) := if l_isaof (getl s r) then push_unlock_aof s k r c None false 0 else (s, []) in
    let s := remove_lock s k r in
    let lrc := l_locked (getl s r) in
    let s := freed_then_mgr (unref s r) in
    let s := bump (fun n => n <| n_lock := (n_lock n - 1)%Z |> <| n_locked := (n_locked n - 1)%Z |>) s in
    (s, [ERelease k r depth] ++ dev ++ aev ++ [reply (l_conn l) c R_ERROR (m_locked (getm s k)) lrc (data_of s k)],
     Some (mkWake k None))
  end.

(* ---------------------------------------------------------------- sweeps *)
(* collecting half of checkTimeTimeOut for one second t (under the shard mutex): returns the due list *)
Fixpoint sweep_t_slot (fuel : nat) (s : db) (slot : N) (nowv : Z) (due : list ref) : db * list ref :=
  match fuel with
  | O => (s, due)
  | S f =>
      match wheel_get (twheel s) slot with
      | [] => (s, due)
      | r :: rest =>
          let s := s <| twheel := aset (twheel s) slot rest |> in
          let l := getl s r in
          if match aget (store s) r with None => true | Some _ => false end then (s, due ++ [r]) (* use after free: fails in doTimeOut *)
          else if negb (l_timeouted l) then
            if (nowv <? l_tT l)%Z then
              let s := updl s r (fun l => l <| l_tcc := (l_tcc l + 1) mod 256 |>) in
              sweep_t_slot f (add_timeout s r) slot nowv due
            else sweep_t_slot f s slot nowv (due ++ [r])
          else
            let k := l_key l in
            let s := unref s r in
            let s := if match aget (store s) r with None => true | Some _ => false end then remove_mgr_if_unref s k else s in
            sweep_t_slot f s slot nowv due
      end
  end.

Fixpoint sweep_long (s : db) (items : list ref) (is_t : bool) (due : list ref) : db * list ref :=
  match items with
  | [] => (s, due)
  | r :: rest =>
      let s := updl s r (fun l => l <| l_long := false |>) in
      let l := getl s r in
      if negb (if is_t then l_timeouted l else l_expried l) then sweep_long s rest is_t (due ++ [r])
      else
        let k := l_key l in
        let s := unref s r in
        let s := if match aget (store s) r with None => true | Some _ => false end then remove_mgr_if_unref s k else s in
        sweep_long s rest is_t due
  end.

Definition collect_timeouts (s : db) (t nowv : Z) : db * list ref :=
  let slot := slot_of t in
  let '(s, due) := sweep_t_slot (10 * length (wheel_get (twheel s) slot) + 10) s slot nowv [] in
  match aget (tlong s) (lkey t) with
  | Some items => let s := s <| tlong := adel (tlong s) (lkey t) |> in sweep_long s items true due
  | None => (s, due)
  end.

Fixpoint sweep_e_slot (fuel : nat) (s : db) (slot : N) (nowv : Z) (due : list ref) (ev : list event)
  : db * list ref * list event :=
  match fuel with
  | O => (s, due, ev)
  | S f =>
      match wheel_get (ewheel s) slot with
      | [] => (s, due, ev)
      | r :: rest =>
          let s := s <| ewheel := aset (ewheel s) slot rest |> in
          let l := getl s r in
          if match aget (store s) r with None => true | Some _ => false end then (s, due ++ [r], ev) (* use after free: fails in doExpried *)
          else if negb (l_expried l) then
            if (nowv <? l_eT l)%Z then
              let s := updl s r (fun l => l <| l_ecc := (l_ecc l + 1) mod 256 |>) in
              let '(s, aev) := add_expried s (l_key l) r in
              sweep_e_slot f s slot nowv due (ev ++ aev)
            else sweep_e_slot f s slot nowv (due ++ [r]) ev
          else
            let k := l_key l in
            let s := unref s r in
            let s := if match aget (store s) r with None => true | Some _ => false end then remove_mgr_if_unref s k else s in
            sweep_e_slot f s slot nowv due ev
      end
  end.

Definition collect_expiries (s : db) (t nowv : Z) : db * list ref * list event :=
  let slot := slot_of t in
  let '(s, due, ev) := sweep_e_slot (10 * length (wheel_get (ewheel s) slot) + 10) s slot nowv [] [] in
  match aget (elong s) (lkey t) with
  | Some items => let s := s <| elong := adel (elong s) (lkey t) |> in
                  let '(s, due) := sweep_long s items false due in (s, due, ev)
  | None => (s, due, ev)
  end.

Fixpoint fire_all (f : db -> ref -> db * list event * option wake) (s : db) (due : list ref) : db * list event :=
  match due with
  | [] => (s, [])
  | r :: rest => let '(s1, e1) := finish (f s r) in
                 let '(s2, e2) := fire_all f s1 rest in (s2, e1 ++ e2)
  end.

(* body of the checkTimeOut loop: every second from checkTimeoutTime up to now (sequentially, shard 0) *)
Fixpoint sweep_t_secs (n : nat) (s : db) (t nowv : Z) : db * list event :=
  match n with
  | O => (s, [])
  | S n' =>
      let '(s1, due) := collect_timeouts s t nowv in
      let '(s2, e2) := fire_all do_timeout s1 due in
      let '(s3, e3) := sweep_t_secs n' s2 (t + 1)%Z nowv in (s3, e2 ++ e3)
  end.

Definition sweep_timeouts (s : db) : db * list event :=
  let t0 := checkT s in
  let nowv := now s in
  let s := s <| checkT := (nowv + 1)%Z |> in
  sweep_t_secs (Z.to_nat (nowv + 1 - t0)) s t0 nowv.

Fixpoint sweep_e_secs (n : nat) (s : db) (t nowv : Z) : db * list event :=
  match n with
  | O => (s, [])
  | S n' =>
      let '(s1, due, e1) := collect_expiries s t nowv in
      let '(s2, e2) := fire_all do_expried s1 due in
      let '(s3, e3) := sweep_e_secs n' s2 (t + 1)%Z nowv in (s3, e1 ++ e2 ++ e3)
  end.

Definition sweep_expiries (s : db) : db * list event :=
  let t0 := checkE s in
  let nowv := now s in
  let s := s <| checkE := (nowv + 1)%Z |> in
  sweep_e_secs (Z.to_nat (nowv + 1 - t0)) s t0 nowv.

(* ---------------------------------------------------------------- actions and runs (sequential granularity:
   a request, a sweep or an acknowledgement runs to completion including its wake-up pass) *)
Inductive action :=
| AReq (conn : N) (c : cmd)
| AAdvance (k : Z)
| ASweepT
| ASweepE
| AAck (r : ref) (ok : bool)
| ARole (leader : bool).

Definition step (s : db) (a : action) : db * list event :=
  match a with
  | AReq conn c => finish (if c_lock c then lock_step s conn c else unlock_step s conn c)
  | AAdvance k => (s <| now := (now s + k)%Z |>, [])
  | ASweepT => sweep_timeouts s
  | ASweepE => sweep_expiries s
  | AAck r ok => finish (do_ack s r ok)
  | ARole b => (s <| leader := b |>, [])
  end.

Fixpoint run (s : db) (acts : list action) : db * list (list event) :=
  match acts with
  | [] => (s, [])
  | a :: rest => let '(s1, e1) := step s a in
                 let '(s2, es) := run s1 rest in (s2, e1 :: es)
  end.

(* constructor wrapper used by the extracted driver (field names may be renamed by extraction) *)
Definition make_cmd (islock : bool) (req flag lockid key tflag timeout eflag expried count rcount : N) (data : option bytes) : cmd :=
  mkCmd islock req flag lockid key tflag timeout eflag expried count rcount data.
