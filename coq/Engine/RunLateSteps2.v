(* Run-level expiry theorems (property C06), UPPER BOUND, part 4: LockDB.UnLock, doTimeOut, doExpried (on a leader) and
   the whole timeout sweep are expiry frames (wfr); EW through the firing loops; the `due` predicate GD through the
   wake-up passes. *)
From Coq Require Import String ZifyN ZifyBool ZifyNat.
From Slock Require Import Engine.Types Engine.Queues Engine.Timers Engine.Engine Engine.Engine2 Engine.InvDef Engine.InvBase
  Engine.InvPrims Engine.InvRec Engine.InvWheel Engine.InvQueue Engine.InvQueue2 Engine.InvSteps Engine.InvLockDefs Engine.InvLock
  Engine.InvUnlock Engine.InvSweep Engine.InvMain Engine.InvProps.
From Slock Require Import Engine.LocalBase Engine.LocalWake Engine.TimeBase Engine.TimeExp Engine.TimeRun Engine.RunExpScal Engine.RunExpK
  Engine.RunExpSteps Engine.RunExpSteps2 Engine.RunExpThm Engine.RunLateFr Engine.RunLateInv Engine.RunLateSteps.
Open Scope N_scope.

Ltac Zify.zify_post_hook ::= Z.div_mod_to_equations.

(* ---------------------------------------------------------------- cancelWaitLock / UnLock *)
Lemma cancel_wait_lock_wfr s conn c : wfr s (fst (fst (cancel_wait_lock s conn c))).
Proof.
  unfold cancel_wait_lock. cbv zeta.
  destruct (match m_wait (getm s (c_key c)) with Some q => find_last_waiter s (wq_items q) (c_lockid c) None | None => None end)
    as [r|] eqn:Ew; [|cbn [fst]; wf].
  change (if l_long (getl s r) then remove_long_timeout (updl s r (fun l0 => l0 <| l_timeouted := true |>)) r
          else updl s r (fun l0 => l0 <| l_timeouted := true |>)) with (kill s r).
  assert (F1 : wfr s (kill s r)) by (apply wfr_kill, wfr_refl). set (s1 := kill s r) in *. clearbody s1.
  destruct (0 <? l_locked (getl s r)).
  - destruct (l_isaof _); [destruct (push_unlock_aof _ _ _ _ _ _ _) as [s2 aev] eqn:E|]; cbn [fst]; wf.
  - destruct (get_wait_lock s1 (c_key c)) as [s2 w] eqn:E. cbn [fst]. wf.
Qed.

Lemma release_hold_wfr s0 s k conn c r depth : c_data c = None -> wfr s0 s -> wfr s0 (fst (release_hold s k conn c r depth)).
Proof.
  intros Hd H. unfold release_hold. cbv zeta.
  set (s1 := updl s r (fun l => l <| l_expried := true |>)).
  assert (F1 : wfr s0 s1) by (unfold s1; wf). clearbody s1.
  assert (E : (if has_udata_flag c then process_data s1 k r c false else (s1, [])) = (s1, [])).
  { destruct (has_udata_flag c); [apply process_data_core; auto|reflexivity]. }
  rewrite E. cbv iota beta.
  destruct (l_long (getl s1 r)).
  - set (s2 := remove_long_expried s1 r (l_eT (getl s1 r))).
    assert (F2 : wfr s0 s2) by (unfold s2; wf). clearbody s2.
    destruct (l_isaof (getl s2 r)); [destruct (push_unlock_aof _ _ _ _ _ _ _) as [s3 aev] eqn:E3|]; cbn [fst]; wf.
  - destruct (l_isaof (getl s1 r)); [destruct (push_unlock_aof _ _ _ _ _ _ _) as [s3 aev] eqn:E3|]; cbn [fst]; wf.
Qed.

Lemma ul_body_wfr s conn c k r : c_data c = None -> wfr s (fst (fst (ul_body s conn c k r))).
Proof.
  intros Hd. unfold ul_body. cbv zeta.
  assert (R : forall d fn, wfr s (fst (release_hold (updm s k fn) k conn c r d))).
  { intros d fn. apply release_hold_wfr; auto. wf. }
  destruct (1 <? l_locked (getl s r)).
  - destruct ((0 <? c_rcount c) && negb (has (c_tflag c) TF_PRIORITY)).
    + assert (E : forall x, (if has_udata_flag c then process_data x k r c false else (x, [])) = (x, [])).
      { intros x. destruct (has_udata_flag c); [apply process_data_core; auto|reflexivity]. }
      rewrite E. cbv iota beta.
      match goal with |- context [if l_isaof ?x then _ else _] => destruct (l_isaof x) end;
        [destruct (push_unlock_aof _ _ _ _ _ _ _) as [s3 aev] eqn:E3|]; cbn [fst]; wf.
    + match goal with |- context [release_hold (updm s k ?fn) k conn c r ?d] =>
        pose proof (R d fn) as A; destruct (release_hold (updm s k fn) k conn c r d) as [s2 ev] end. exact A.
  - match goal with |- context [release_hold (updm s k ?fn) k conn c r ?d] =>
      pose proof (R d fn) as A; destruct (release_hold (updm s k fn) k conn c r d) as [s2 ev] end. exact A.
Qed.

Lemma unlock_step_wfr s conn c : c_data c = None -> wfr s (fst (fst (unlock_step s conn c))).
Proof.
  intros Hd. rewrite unlock_step_eq. cbv zeta. set (k := c_key c) in *.
  destruct (aget (mgrs s) k) as [m|] eqn:Hm; [|cbn [fst]; wf].
  assert (Herr : forall c0 code lrc, wfr s (fst (fst (ul_err conn k m s c0 code lrc)))).
  { intros. unfold ul_err. cbn [fst]. wf. }
  destruct (negb (leader s) && negb (has (c_flag c) UNLOCK_FLAG_FROM_AOF)); [apply Herr|].
  destruct (m_locked m =? 0).
  - destruct (has (c_flag c) UNLOCK_FLAG_CANCEL_WAIT); [apply cancel_wait_lock_wfr|apply Herr].
  - unfold ul_target. cbv zeta.
    destruct (get_locked_lock s m (c_lockid c)) as [r|] eqn:Eg.
    + destruct (negb (l_ack (getl s r) =? 255)); [apply Herr|]. apply ul_body_wfr; auto.
    + destruct (has (c_flag c) UNLOCK_FLAG_FIRST).
      * destruct (m_cur m) as [cr|] eqn:Ec; [|apply Herr].
        destruct (negb (l_ack (getl s cr) =? 255)); [apply Herr|]. apply ul_body_wfr; auto.
      * destruct (has (c_flag c) UNLOCK_FLAG_CANCEL_WAIT); [apply cancel_wait_lock_wfr|apply Herr].
Qed.

(* ---------------------------------------------------------------- doTimeOut / doExpried *)
Lemma do_timeout_wfr s r : wfr s (fst (fst (do_timeout s r))).
Proof.
  unfold do_timeout. destruct (aget (store s) r) as [l|] eqn:Hr; [|apply wfr_refl].
  destruct (l_timeouted l) eqn:Et.
  - cbn [fst]. wf.
  - cbv zeta.
    set (s1 := updl s r (fun l0 => l0 <| l_timeouted := true |>)).
    assert (F1 : wfr s s1) by (unfold s1; wf). clearbody s1.
    destruct (0 <? l_locked l).
    + destruct (has_data_flag (l_cmd l) && negb (l_ack l =? 255)).
      * destruct (process_recover_lock_data _ _) as [[cur' ld']| | |];
          match goal with |- context [if l_isaof ?x then _ else _] => destruct (l_isaof x) end;
          try (destruct (push_unlock_aof _ _ _ _ _ _ _) as [s3 aev] eqn:E3); cbn [fst]; wf.
      * match goal with |- context [if l_isaof ?x then _ else _] => destruct (l_isaof x) end;
          try (destruct (push_unlock_aof _ _ _ _ _ _ _) as [s3 aev] eqn:E3); cbn [fst]; wf.
    + destruct (get_wait_lock _ (l_key l)) as [s2 w] eqn:E. cbn [fst]. wf.
Qed.

Lemma do_expried_wfr s r : leader s = true -> wfr s (fst (fst (do_expried s r))).
Proof.
  intros Ld. unfold do_expried. destruct (aget (store s) r) as [l|] eqn:Hr; [|apply wfr_refl].
  destruct (l_expried l) eqn:Ee.
  - cbn [fst]. wf.
  - rewrite Ld. cbn [negb andb]. cbv zeta.
    set (s1 := updl s r (fun l0 => l0 <| l_expried := true |>)).
    assert (F1 : wfr s s1) by (unfold s1; wf). clearbody s1.
    match goal with |- context [if l_isaof ?x then _ else _] => destruct (l_isaof x) end;
      try (destruct (push_unlock_aof _ _ _ _ _ _ _) as [s3 aev] eqn:E3); cbn [fst]; wf.
Qed.

(* ---------------------------------------------------------------- the collecting half of the timeout sweep *)
Lemma sweep_t_slot_wfr fuel : forall s0 s slot nowv due, wfr s0 s -> wfr s0 (fst (sweep_t_slot fuel s slot nowv due)).
Proof.
  induction fuel as [|fu IH]; intros s0 s slot nowv due H; simpl; [exact H|].
  destruct (wheel_get (twheel s) slot) as [|r rest]; [exact H|].
  set (s1 := s <| twheel := aset (twheel s) slot rest |>).
  assert (F1 : wfr s0 s1) by (unfold s1; wf).
  match goal with |- context [if (match aget ?st r with None => true | Some _ => false end) then (s1, _) else _] =>
    destruct (match aget st r with None => true | Some _ => false end) end; [exact F1|].
  clearbody s1.
  destruct (negb (l_timeouted (getl s1 r))).
  - destruct (nowv <? l_tT (getl s1 r))%Z; [|apply IH; exact F1]. apply IH. wf.
  - apply IH. apply wfr_unref_rm. exact F1.
Qed.

Lemma sweep_long_wfr b items : forall s0 s due, wfr s0 s -> wfr s0 (fst (sweep_long s items b due)).
Proof.
  induction items as [|r rest IH]; intros s0 s due H; cbn [sweep_long]; [exact H|].
  set (s1 := updl s r (fun l => l <| l_long := false |>)).
  assert (F1 : wfr s0 s1) by (unfold s1; wf). clearbody s1.
  destruct (negb (if b then l_timeouted (getl s1 r) else l_expried (getl s1 r))); [apply IH; exact F1|].
  apply IH. apply wfr_unref_rm. exact F1.
Qed.

Lemma collect_timeouts_wfr s t nowv : wfr s (fst (collect_timeouts s t nowv)).
Proof.
  unfold collect_timeouts.
  pose proof (sweep_t_slot_wfr (10 * length (wheel_get (twheel s) (slot_of t)) + 10) s s (slot_of t) nowv [] (wfr_refl s)) as A.
  destruct (sweep_t_slot _ s (slot_of t) nowv []) as [s1 due]. cbn [fst] in *.
  destruct (aget (tlong s1) (lkey t)) as [items|]; [|exact A].
  apply sweep_long_wfr. wf.
Qed.

(* ---------------------------------------------------------------- firing loops *)
Lemma fire_all_t_EW X f due : forall s xe k, GInv s (gk due xe k) -> EWc X f s -> EWc X f (fst (fire_all do_timeout s due)).
Proof.
  induction due as [|r rest IH]; intros s xe k G E; simpl; [exact E|].
  destruct (do_timeout_ginv s xe k r rest G) as [k1 [G1 Hw]].
  pose proof (EWc_wfr _ _ _ _ E (do_timeout_wfr s r)) as E1.
  destruct (do_timeout s r) as [[s1 e1] w] eqn:Ed. cbn [fst snd] in *.
  pose proof (finish_ginv s1 e1 w rest xe k1 G1 Hw) as G2.
  pose proof (finish_EW X f s1 e1 w rest xe k1 G1 Hw E1) as E2.
  destruct (finish (s1, e1, w)) as [s2 e2]. cbn [fst] in *.
  specialize (IH s2 xe k1 G2 E2). destruct (fire_all do_timeout s2 rest) as [s3 e3]. exact IH.
Qed.

Lemma fire_all_e_EW X f due : forall s xt k, GInv s (gk xt due k) -> leader s = true -> EWc X f s ->
  EWc X f (fst (fire_all do_expried s due)).
Proof.
  induction due as [|r rest IH]; intros s xt k G Ld E; simpl; [exact E|].
  destruct (do_expried_ginv s xt k r rest G) as [k1 [G1 Hw]].
  pose proof (EWc_wfr _ _ _ _ E (do_expried_wfr s r Ld)) as E1.
  pose proof (ld_do_expried s r) as L1. pose proof (ld_finish (do_expried s r)) as L2.
  destruct (do_expried s r) as [[s1 e1] w] eqn:Ed. cbn [fst snd] in *.
  pose proof (finish_ginv s1 e1 w xt rest k1 G1 Hw) as G2.
  pose proof (finish_EW X f s1 e1 w xt rest k1 G1 Hw E1) as E2.
  destruct (finish (s1, e1, w)) as [s2 e2]. cbn [fst] in *.
  specialize (IH s2 xt k1 G2 ltac:(congruence) E2). destruct (fire_all do_expried s2 rest) as [s3 e3]. exact IH.
Qed.

Lemma sweep_t_secs_EW X f n : forall s t nowv, Inv s -> EWc X f s -> EWc X f (fst (sweep_t_secs n s t nowv)).
Proof.
  induction n as [|n IH]; intros s t nowv G E; simpl; [exact E|].
  pose proof (collect_timeouts_ginv s [] 0 t nowv (inv_gk s 0 G)) as G1.
  pose proof (EWc_wfr _ _ _ _ E (collect_timeouts_wfr s t nowv)) as E1.
  destruct (collect_timeouts s t nowv) as [s1 due]. cbn [fst snd] in *.
  destruct (fire_all_t_ginv due s1 [] 0 G1) as [k' G2].
  pose proof (fire_all_t_EW X f due s1 [] 0 G1 E1) as E2.
  destruct (fire_all do_timeout s1 due) as [s2 e2]. cbn [fst snd] in *.
  specialize (IH s2 (t + 1)%Z nowv (gk_inv s2 k' G2) E2).
  destruct (sweep_t_secs n s2 (t + 1)%Z nowv) as [s3 e3]. exact IH.
Qed.

(* ---------------------------------------------------------------- the due predicate *)
Definition GD (P : ref -> Z -> Prop) (due : list ref) (s : db) : Prop :=
  forall r l, In r due -> elive s r l -> P r (l_eT l).

Lemma GD_wfr P due s s' : GD P due s -> wfr s s' -> GD P due s'.
Proof.
  intros D F r l' I LV. destruct (elive_wfr _ _ _ _ F LV) as (l & LV0 & (_ & E2 & _)). rewrite E2. apply (D r l); auto.
Qed.
Lemma GD_efrx P due (Y : ref -> Prop) s s' : GD P due s -> efrx Y s s' -> (forall x, In x due -> ~ Y x) -> GD P due s'.
Proof.
  intros D F N x l' I [G L]. destruct (F x l' (N x I) G) as (l & G0 & A & B). rewrite A. apply (D x l I). split; congruence.
Qed.
Lemma GD_incl P d1 d2 s : (forall x, In x d1 -> In x d2) -> GD P d2 s -> GD P d1 s.
Proof. intros I D x l Ix. apply D; auto. Qed.

Lemma wake_iter_GD P s xt xe k w :
  GInv s (gk xt xe k) -> w_key w = k -> GD P xe s -> GD P xe (fst (fst (wake_iter s w))).
Proof.
  intros G Hw D. unfold wake_iter. rewrite Hw. destruct (aget (mgrs s) k) as [m|] eqn:Hm; [|exact D].
  destruct (negb (m_waited m)); [exact D|].
  pose proof (get_wait_lock_ginv s (gk xt xe k) k G) as Pq.
  pose proof (wfr_get_wait_lock s s k (wfr_refl s)) as F.
  destruct (get_wait_lock s k) as [s1 wl]. destruct Pq as [G1 [LF [_ [_ [_ P4]]]]]; auto. cbn [fst] in F.
  pose proof (GD_wfr _ _ _ _ D F) as D1.
  destruct wl as [r|].
  - destruct P4 as [Hin [l [Hr Ht]]].
    destruct (negb (do_lock s1 k r)); [exact D1|].
    pose proof (wake_grant_efrx s1 k r (w_conn w)) as A. rewrite (getl_some _ _ _ Hr) in A.
    specialize (A (ro_cmd _ _ _ _ (gi_rec _ _ G1 r l Hr))).
    destruct (wake_grant s1 k r (w_conn w)) as [s2 ev]. cbn [fst] in *.
    eapply GD_efrx; [exact D1|exact A|].
    intros x I E. subst x. destruct (ro_live _ _ _ _ (gi_rec _ _ G1 r l Hr) Ht) as [_ [Q _]].
    unfold ecount, gk in Q. gs. apply occ_In in I. lia.
  - cbn [fst]. eapply GD_wfr; [exact D1|wf].
Qed.

Lemma run_wake_GD P fuel : forall s xt xe k w,
  GInv s (gk xt xe k) -> w_key w = k -> GD P xe s -> GD P xe (fst (run_wake fuel s w)).
Proof.
  induction fuel as [|fu IH]; intros s xt xe k w G Hw D; simpl; [exact D|].
  pose proof (wake_iter_ginv s xt xe k w G Hw) as G1. pose proof (wake_iter_GD P s xt xe k w G Hw D) as D1.
  destruct (wake_iter s w) as [[s' ev] [|]]; cbn [fst] in *; [exact D1|].
  specialize (IH s' xt xe k w G1 Hw D1). destruct (run_wake fu s' w) as [s'' ev']. exact IH.
Qed.

Lemma finish_GD P s ev w xt xe k :
  GInv s (gk xt xe k) -> (forall w0, w = Some w0 -> w_key w0 = k) -> GD P xe s -> GD P xe (fst (finish (s, ev, w))).
Proof.
  intros G Hw D. unfold finish. destruct w as [w0|]; [|exact D].
  pose proof (run_wake_GD P (wake_fuel s (w_key w0)) s xt xe k w0 G (Hw w0 eq_refl) D) as Q.
  destruct (run_wake (wake_fuel s (w_key w0)) s w0) as [s' ev']. exact Q.
Qed.

Lemma fire_log_GD P : forall due s xt k,
  GInv s (gk xt due k) -> GD P due s ->
  forall s' r, In (s', r) (fire_log do_expried s due) -> GD P [r] s'.
Proof.
  induction due as [|r rest IH]; intros s xt k G D s' r' I; cbn in I; [destruct I|].
  destruct I as [[= <- <-]|I].
  - eapply GD_incl; [|exact D]. intros x [<-|[]]. left; auto.
  - destruct (stored_of_xe s _ r rest G eq_refl) as [l Hr].
    destruct (el_zero_of_xe s _ r rest l G eq_refl Hr) as (_ & _ & Z & _).
    destruct (do_expried_ginv s xt k r rest G) as [k1 [G1 Hw]].
    pose proof (do_expried_efrx s r) as F.
    destruct (do_expried s r) as [[s1 e1] w] eqn:Ed. cbn [fst snd] in *.
    assert (D1 : GD P rest s1).
    { eapply GD_efrx; [eapply GD_incl; [|exact D]; intros x Ix; right; exact Ix|exact F|].
      intros x Ix E. subst x. apply occ_In in Ix. lia. }
    pose proof (finish_ginv s1 e1 w xt rest k1 G1 Hw) as G2.
    pose proof (finish_GD P s1 e1 w xt rest k1 G1 Hw D1) as D2.
    eapply IH; eauto.
Qed.
