(* "Every key manager has a lock record" (J2), part 1: local facts (they hold for every db value).
   J2x K s : every key manager of s, except the one of key K, has refCount <> 0.
   - the primitives that never free a record keep J2x K for every K (hint db j2db, tactic j2)
   - the primitives that free records (unref / FreeLock, the compaction and pop loops of the per-key queues) keep
     J2x (Some k) when the records they may free belong to key k (KHr / KH)
   - `unref r; if freed then RemoveLockManager (key of r)` keeps J2x K in every state (the sweepers' pattern)
   - keys of stored records never change (keyst), which records a queue operation leaves stored, where it puts the
     record it was given.
   The invariant-dependent part (critical sections, runs) is RunDrainSteps.v / RunDrainMain.v. *)
From Coq Require Import String ZifyN ZifyBool ZifyNat.
From Slock Require Import Engine.Types Engine.Queues Engine.Timers Engine.Engine Engine.Engine2 Engine.InvDef Engine.InvBase
  Engine.LocalBase.
Open Scope N_scope.

Definition J2x (K : option N) (s : db) : Prop :=
  forall k m, K <> Some k -> aget (mgrs s) k = Some m -> m_ref m <> 0.
Definition J2 (s : db) : Prop := J2x None s.

Create HintDb j2db.

Lemma J2x_weaken K x : J2x None x -> J2x K x.
Proof. intros H k m _ Hm. apply (H k m); [discriminate|exact Hm]. Qed.

Lemma J2x_mgrs_eq K x x' : mgrs x' = mgrs x -> J2x K x -> J2x K x'.
Proof. intros E H k m HK Hm. rewrite E in Hm. eauto. Qed.

Lemma J2x_updl K x r f : J2x K x -> J2x K (updl x r f).
Proof. apply J2x_mgrs_eq, mgrs_updl. Qed.
Lemma J2x_setl K x r l : J2x K x -> J2x K (setl x r l).
Proof. apply J2x_mgrs_eq. reflexivity. Qed.
Lemma J2x_updc K x f : J2x K x -> J2x K (updc x f).
Proof. apply J2x_mgrs_eq. reflexivity. Qed.
Lemma J2x_bump K x f : J2x K x -> J2x K (bump f x).
Proof. apply J2x_mgrs_eq. reflexivity. Qed.

Lemma J2x_updm K x k f : (forall m, m_ref (f m) = m_ref m) -> J2x K x -> J2x K (updm x k f).
Proof.
  intros Hf H k0 m' HK Hg. rewrite aget_mgrs_updm in Hg. destruct (k =? k0) eqn:E; [|eauto].
  apply N.eqb_eq in E. subst k0. destruct (aget (mgrs x) k) as [m1|] eqn:E1; [|discriminate].
  simpl in Hg. inv Hg. rewrite Hf. eauto.
Qed.
(* the manager of the excluded key may change at will *)
Lemma J2x_updm_K x k f : J2x (Some k) x -> J2x (Some k) (updm x k f).
Proof.
  intros H k0 m' HK Hg. rewrite aget_mgrs_updm in Hg. destruct (k =? k0) eqn:E; [|eauto].
  apply N.eqb_eq in E. subst k0. congruence.
Qed.
Lemma J2x_setm_K x k m : J2x (Some k) x -> J2x (Some k) (setm x k m).
Proof.
  intros H k0 m' HK Hg. rewrite mgrs_setm, aget_aset in Hg. destruct (k =? k0) eqn:E; [|eauto].
  apply N.eqb_eq in E. subst k0. congruence.
Qed.

Lemma J2x_remove_mgr K x k : J2x K x -> J2x K (remove_mgr_if_unref x k).
Proof.
  intros H. unfold remove_mgr_if_unref. destruct (aget (mgrs x) k) as [m|] eqn:E; auto.
  destruct (m_ref m =? 0); auto.
  intros k0 m' HK Hg. cbn in Hg. rewrite aget_adel in Hg. destruct (k =? k0); [discriminate|]. eauto.
Qed.
(* RemoveLockManager on the excluded key closes the exception *)
Lemma J2x_remove_mgr_close x k : J2x (Some k) x -> J2 (remove_mgr_if_unref x k).
Proof.
  intros H k0 m' _ Hg. unfold remove_mgr_if_unref in Hg.
  destruct (N.eq_dec k0 k) as [->|Hne].
  - destruct (aget (mgrs x) k) as [m|] eqn:E; [|congruence].
    destruct (m_ref m =? 0) eqn:E0.
    + cbn in Hg. rewrite aget_adel, N.eqb_refl in Hg. discriminate.
    + rewrite E in Hg. inv Hg. apply N.eqb_neq. exact E0.
  - apply (H k0 m'); [congruence|].
    destruct (aget (mgrs x) k) as [m|] eqn:E; auto. destruct (m_ref m =? 0); auto.
    cbn in Hg. rewrite aget_adel in Hg. destruct (k =? k0) eqn:E1; [discriminate|exact Hg].
Qed.

#[export] Hint Resolve J2x_updl J2x_setl J2x_updc J2x_bump J2x_remove_mgr : j2db.
#[export] Hint Extern 2 (J2x _ (updm _ _ _)) => (apply J2x_updm; [intros [? ? ? ? ? ? ?]; reflexivity|]) : j2db.
#[export] Hint Resolve J2x_updm_K | 3 : j2db.
#[export] Hint Extern 1 (J2x _ (set _ _ ?x)) => (eapply (J2x_mgrs_eq _ x); [reflexivity|]) : j2db.
#[export] Hint Extern 1 (J2x _ (if ?c then _ else _)) => destruct c : j2db.
#[export] Hint Extern 1 (J2x _ (match ?c with _ => _ end)) => destruct c : j2db.
Ltac j2 := eauto 80 with j2db.

(* ---------------------------------------------------------------- primitives that never free a record *)
Lemma J2x_push_lock_aof K x k r fl x' ev : push_lock_aof x k r fl = (x', ev) -> J2x K x -> J2x K x'.
Proof. intros H Hs. unfold push_lock_aof in H. repeat (split_hyp H); inv_tuple H; j2. Qed.
Lemma J2x_push_unlock_aof K x k r lc uc b fl x' ev : push_unlock_aof x k r lc uc b fl = (x', ev) -> J2x K x -> J2x K x'.
Proof. intros H Hs. unfold push_unlock_aof in H. repeat (split_hyp H); inv_tuple H; j2. Qed.
Lemma J2x_repeat_push_lock_aof K n : forall x k r x' ev, repeat_push_lock_aof n x k r = (x', ev) -> J2x K x -> J2x K x'.
Proof.
  induction n as [|n IH]; intros x k r x' ev H Hs; simpl in H.
  - inv_tuple H. auto.
  - destruct (push_lock_aof x k r 0) as [x1 e1] eqn:E1.
    destruct (repeat_push_lock_aof n x1 k r) as [x2 e2] eqn:E2. inv_tuple H.
    eapply IH; [exact E2|]. eapply J2x_push_lock_aof; eauto.
Qed.
Lemma J2x_add_timeout K x r : J2x K x -> J2x K (add_timeout x r).
Proof. intros Hs. unfold add_timeout. cbv zeta. j2. Qed.
Lemma J2x_remove_long_timeout K x r : J2x K x -> J2x K (remove_long_timeout x r).
Proof. intros Hs. unfold remove_long_timeout. cbv zeta. j2. Qed.
Lemma J2x_remove_long_expried K x r eT : J2x K x -> J2x K (remove_long_expried x r eT).
Proof. intros Hs. unfold remove_long_expried. j2. Qed.
Lemma J2x_add_expried K x k r x' ev : add_expried x k r = (x', ev) -> J2x K x -> J2x K x'.
Proof.
  intros H Hs. unfold add_expried in H. cbv zeta in H.
  match type of H with (if ?c then _ else _) = _ => destruct c end.
  - eapply J2x_repeat_push_lock_aof; [exact H|]. j2.
  - inv_tuple H. j2.
Qed.
Lemma J2x_update_locked_lock K x k r c : J2x K x -> J2x K (update_locked_lock x k r c).
Proof. intros Hs. unfold update_locked_lock. j2. Qed.
Lemma J2x_process_data K x k r c b x' ev : process_data x k r c b = (x', ev) -> J2x K x -> J2x K x'.
Proof. intros H Hs. unfold process_data in H. repeat (split_hyp H); inv_tuple H; j2. Qed.
Lemma J2x_update_and_rearm K x k r c x' ev : update_and_rearm x k r c = (x', ev) -> J2x K x -> J2x K x'.
Proof.
  intros H Hs. unfold update_and_rearm in H. cbv zeta in H.
  destruct (l_long (getl x r)); [|inv_tuple H; apply J2x_update_locked_lock; auto].
  destruct (negb (has (c_eflag c) EF_MILLISECOND)); [|inv_tuple H; apply J2x_update_locked_lock; auto].
  match type of H with (if ?c then _ else _) = _ => destruct c end;
    [|inv_tuple H; apply J2x_update_locked_lock; auto].
  destruct (add_expried _ k r) as [x1 e1] eqn:E. inv_tuple H.
  apply J2x_updl. eapply J2x_add_expried; [exact E|].
  apply J2x_remove_long_expried. apply J2x_update_locked_lock; auto.
Qed.

#[export] Hint Resolve J2x_add_timeout J2x_remove_long_timeout J2x_remove_long_expried J2x_update_locked_lock : j2db.
Ltac j2_eq :=
  match goal with
  | E : push_lock_aof _ _ _ _ = (?y, _) |- J2x _ ?y => eapply J2x_push_lock_aof; [exact E|]
  | E : push_unlock_aof _ _ _ _ _ _ _ = (?y, _) |- J2x _ ?y => eapply J2x_push_unlock_aof; [exact E|]
  | E : add_expried _ _ _ = (?y, _) |- J2x _ ?y => eapply J2x_add_expried; [exact E|]
  | E : process_data _ _ _ _ _ = (?y, _) |- J2x _ ?y => eapply J2x_process_data; [exact E|]
  | E : update_and_rearm _ _ _ _ = (?y, _) |- J2x _ ?y => eapply J2x_update_and_rearm; [exact E|]
  end.
#[export] Hint Extern 1 (J2x _ ?y) => is_var y; j2_eq : j2db.

(* forms on projections *)
Lemma J2x_fst_push_lock_aof K x k r fl : J2x K x -> J2x K (fst (push_lock_aof x k r fl)).
Proof. intros H. destruct (push_lock_aof x k r fl) as [x' ev] eqn:E. eapply J2x_push_lock_aof; eauto. Qed.
Lemma J2x_fst_push_unlock_aof K x k r lc uc b fl : J2x K x -> J2x K (fst (push_unlock_aof x k r lc uc b fl)).
Proof. intros H. destruct (push_unlock_aof x k r lc uc b fl) as [x' ev] eqn:E. eapply J2x_push_unlock_aof; eauto. Qed.
Lemma J2x_fst_add_expried K x k r : J2x K x -> J2x K (fst (add_expried x k r)).
Proof. intros H. destruct (add_expried x k r) as [x' ev] eqn:E. eapply J2x_add_expried; eauto. Qed.
Lemma J2x_fst_update_and_rearm K x k r c : J2x K x -> J2x K (fst (update_and_rearm x k r c)).
Proof. intros H. destruct (update_and_rearm x k r c) as [x' ev] eqn:E. eapply J2x_update_and_rearm; eauto. Qed.

(* GetOrNewLockManager / GetOrNewLock of the excluded key *)
Lemma J2x_new_lock x k conn c : J2x (Some k) x -> J2x (Some k) (fst (new_lock x k conn c)).
Proof. intros H. unfold new_lock. cbn [fst]. apply J2x_updm_K. eapply J2x_mgrs_eq; [|exact H]. reflexivity. Qed.

(* ---------------------------------------------------------------- keys of stored records never change *)
Definition keyst (x x' : db) : Prop :=
  forall r l', aget (store x') r = Some l' -> exists l, aget (store x) r = Some l /\ l_key l = l_key l'.

Lemma keyst_refl x : keyst x x.
Proof. intros r l' H. eauto. Qed.
Lemma keyst_trans a b c : keyst a b -> keyst b c -> keyst a c.
Proof. intros H1 H2 r l' H. destruct (H2 r l' H) as (l1 & A & B). destruct (H1 r l1 A) as (l0 & C & D). exists l0. split; congruence. Qed.
Lemma keyst_store_eq x x' : store x' = store x -> keyst x x'.
Proof. intros E r l' H. rewrite E in H. eauto. Qed.
Lemma keyst_updm x k f : keyst x (updm x k f).
Proof. apply keyst_store_eq, store_updm. Qed.
Lemma keyst_updl x r f : (forall l, l_key (f l) = l_key l) -> keyst x (updl x r f).
Proof.
  intros Hf r0 l' H. rewrite aget_store_updl in H. destruct (r =? r0) eqn:E; [|eauto].
  apply N.eqb_eq in E. subst r0. destruct (aget (store x) r) as [l|]; [|discriminate]. simpl in H. inv H.
  exists l. auto.
Qed.
Lemma keyst_free_lock x r : keyst x (free_lock x r).
Proof.
  unfold free_lock. destruct (aget (store x) r) as [l|] eqn:E; [|apply keyst_refl].
  intros r0 l' H. rewrite store_updm in H. cbn in H. rewrite aget_adel in H. destruct (r =? r0); [discriminate|eauto].
Qed.
Lemma keyst_unref x r : keyst x (unref x r).
Proof.
  unfold unref. destruct (aget (store x) r) as [l|] eqn:E; [|apply keyst_refl].
  assert (H1 : keyst x (setl x r (l <| l_refc := dec8 (l_refc l) |>))).
  { intros r0 l' H. rewrite store_setl, aget_aset in H. destruct (r =? r0) eqn:E0; [|eauto].
    apply N.eqb_eq in E0. subst r0. inv H. exists l. auto. }
  destruct (dec8 (l_refc l) =? 0); auto. eapply keyst_trans; [exact H1|apply keyst_free_lock].
Qed.

(* the records a queue operation may free belong to key k *)
Definition KHr (k : N) (x : db) (r : ref) : Prop := forall l, aget (store x) r = Some l -> l_key l = k.
Definition KH (k : N) (x : db) (items : list ref) : Prop := forall r, In r items -> KHr k x r.

Lemma KHr_keyst k x x' r : keyst x x' -> KHr k x r -> KHr k x' r.
Proof. intros S H l' Hl. destruct (S r l' Hl) as (l & A & B). rewrite <- B. auto. Qed.
Lemma KH_keyst k x x' items : keyst x x' -> KH k x items -> KH k x' items.
Proof. intros S H r Hi. eapply KHr_keyst; eauto. Qed.
Lemma KH_incl k x a b : (forall r, In r a -> In r b) -> KH k x b -> KH k x a.
Proof. intros Hi H r Hr. auto. Qed.
Lemma KH_cons k x r t : KH k x (r :: t) -> KHr k x r /\ KH k x t.
Proof. intros H. split; [apply H; simpl; auto|intros y Hy; apply H; simpl; auto]. Qed.

(* ---------------------------------------------------------------- FreeLock / unref of a record of the excluded key *)
Lemma J2x_free_lock x k r : KHr k x r -> J2x (Some k) x -> J2x (Some k) (free_lock x r).
Proof.
  intros Hk H. unfold free_lock. destruct (aget (store x) r) as [l|] eqn:E; auto.
  rewrite (Hk l E). apply J2x_updm_K. eapply J2x_mgrs_eq; [|exact H]. reflexivity.
Qed.
Lemma J2x_unref x k r : KHr k x r -> J2x (Some k) x -> J2x (Some k) (unref x r).
Proof.
  intros Hk H. unfold unref. destruct (aget (store x) r) as [l|] eqn:E; auto.
  set (x1 := setl x r (l <| l_refc := dec8 (l_refc l) |>)).
  assert (H1 : J2x (Some k) x1) by (apply J2x_setl; auto).
  destruct (dec8 (l_refc l) =? 0); auto. apply J2x_free_lock; auto.
  intros l1 Hl1. unfold x1 in Hl1. rewrite store_setl, aget_aset_same in Hl1. inv Hl1. apply (Hk l E).
Qed.

(* the sweepers' pattern: drop a reference; when that freed the record, remove its key manager if unreferenced.
   Holds in every state and for every exception K. *)
Definition unref_rm (x : db) (r : ref) (k : N) : db :=
  let s := unref x r in
  if match aget (store s) r with None => true | Some _ => false end then remove_mgr_if_unref s k else s.

Lemma free_lock_gone x r : aget (store (free_lock x r)) r = None.
Proof.
  unfold free_lock. destruct (aget (store x) r) as [l|] eqn:E; [|exact E].
  rewrite store_updm. change (store (x <| store := adel (store x) r |>)) with (adel (store x) r). apply aget_adel_same.
Qed.

Lemma unref_mgrs_kept x r l : aget (store x) r = Some l -> aget (store (unref x r)) r <> None -> mgrs (unref x r) = mgrs x.
Proof.
  intros E H. unfold unref in *. rewrite E in *. destruct (dec8 (l_refc l) =? 0); [|reflexivity].
  exfalso. apply H. apply free_lock_gone.
Qed.

Lemma J2x_unref_rm K x r l : aget (store x) r = Some l -> J2x K x -> J2x K (unref_rm x r (l_key l)).
Proof.
  intros E H. unfold unref_rm. cbv zeta.
  destruct (aget (store (unref x r)) r) as [l1|] eqn:E1.
  - eapply J2x_mgrs_eq; [|exact H]. apply (unref_mgrs_kept x r l E). congruence.
  - (* freed: the manager of l_key l lost one reference and is removed when that was the last one *)
    intros k0 m' HK Hg.
    assert (Hm : forall k1, k1 <> l_key l -> aget (mgrs (unref x r)) k1 = aget (mgrs x) k1).
    { intros k1 Hne. unfold unref. rewrite E. destruct (dec8 (l_refc l) =? 0); [|reflexivity].
      set (l' := l <| l_refc := dec8 (l_refc l) |>).
      assert (E' : aget (store (setl x r l')) r = Some l') by (rewrite store_setl; apply aget_aset_same).
      unfold free_lock. rewrite E'. rewrite aget_mgrs_updm. change (l_key l') with (l_key l).
      destruct (l_key l =? k1) eqn:E2; [apply N.eqb_eq in E2; congruence|reflexivity]. }
    unfold remove_mgr_if_unref in Hg.
    destruct (N.eq_dec k0 (l_key l)) as [->|Hne].
    + destruct (aget (mgrs (unref x r)) (l_key l)) as [m|] eqn:Em; [|congruence].
      destruct (m_ref m =? 0) eqn:E0.
      * cbn in Hg. rewrite aget_adel, N.eqb_refl in Hg. discriminate.
      * rewrite Em in Hg. inv Hg. apply N.eqb_neq. exact E0.
    + apply (H k0 m' HK). rewrite <- (Hm k0 Hne).
      destruct (aget (mgrs (unref x r)) (l_key l)) as [m|] eqn:Em; auto. destruct (m_ref m =? 0); auto.
      cbn in Hg. rewrite aget_adel in Hg. destruct (l_key l =? k0) eqn:E2; [discriminate|exact Hg].
Qed.

(* ---------------------------------------------------------------- the collecting halves of the sweepers (every state) *)
Lemma getl_stored_key x r l : aget (store x) r = Some l -> l_key (getl x r) = l_key l.
Proof. intros E. unfold getl. rewrite E. reflexivity. Qed.

Lemma J2x_sweep_t_slot K fuel : forall s slot nowv due, J2x K s -> J2x K (fst (sweep_t_slot fuel s slot nowv due)).
Proof.
  induction fuel as [|f IH]; intros s slot nowv due H; simpl; [exact H|].
  destruct (wheel_get (twheel s) slot) as [|r rest]; [exact H|].
  set (s1 := s <| twheel := aset (twheel s) slot rest |>).
  assert (H1 : J2x K s1) by (eapply J2x_mgrs_eq; [|exact H]; reflexivity).
  change (store s1) with (store s). destruct (aget (store s) r) as [l|] eqn:Hr; [|exact H1].
  assert (Hr1 : aget (store s1) r = Some l) by exact Hr.
  destruct (negb (l_timeouted (getl s1 r))).
  - destruct (nowv <? l_tT (getl s1 r))%Z; [|apply IH; exact H1].
    apply IH. apply J2x_add_timeout. apply J2x_updl. exact H1.
  - apply IH. rewrite (getl_stored_key s1 r l Hr1). apply (J2x_unref_rm K s1 r l Hr1 H1).
Qed.

Lemma J2x_sweep_long K items : forall s is_t due, J2x K s -> J2x K (fst (sweep_long s items is_t due)).
Proof.
  induction items as [|r rest IH]; intros s is_t due H; simpl; [exact H|].
  set (s1 := updl s r (fun l => l <| l_long := false |>)).
  assert (H1 : J2x K s1) by (apply J2x_updl; exact H).
  destruct (negb (if is_t then l_timeouted (getl s1 r) else l_expried (getl s1 r))); [apply IH; exact H1|].
  apply IH. destruct (aget (store s1) r) as [l|] eqn:Hr1.
  - rewrite (getl_stored_key s1 r l Hr1). apply (J2x_unref_rm K s1 r l Hr1 H1).
  - (* not stored: unref does nothing, the test sees "freed" *)
    assert (Eu : unref s1 r = s1) by (unfold unref; rewrite Hr1; reflexivity).
    rewrite Eu, Hr1. apply J2x_remove_mgr. exact H1.
Qed.

Lemma J2x_collect_timeouts K s t nowv : J2x K s -> J2x K (fst (collect_timeouts s t nowv)).
Proof.
  intros H. unfold collect_timeouts.
  pose proof (J2x_sweep_t_slot K (10 * length (wheel_get (twheel s) (slot_of t)) + 10) s (slot_of t) nowv [] H) as H1.
  destruct (sweep_t_slot _ s (slot_of t) nowv []) as [s1 due]. cbn [fst] in H1.
  destruct (aget (tlong s1) (lkey t)) as [items|]; [|exact H1].
  apply J2x_sweep_long. eapply J2x_mgrs_eq; [|exact H1]. reflexivity.
Qed.

Lemma J2x_sweep_e_slot K fuel : forall s slot nowv due ev, J2x K s -> J2x K (fst (fst (sweep_e_slot fuel s slot nowv due ev))).
Proof.
  induction fuel as [|f IH]; intros s slot nowv due ev H; simpl; [exact H|].
  destruct (wheel_get (ewheel s) slot) as [|r rest]; [exact H|].
  set (s1 := s <| ewheel := aset (ewheel s) slot rest |>).
  assert (H1 : J2x K s1) by (eapply J2x_mgrs_eq; [|exact H]; reflexivity).
  change (store s1) with (store s). destruct (aget (store s) r) as [l|] eqn:Hr; [|exact H1].
  assert (Hr1 : aget (store s1) r = Some l) by exact Hr.
  destruct (negb (l_expried (getl s1 r))).
  - destruct (nowv <? l_eT (getl s1 r))%Z; [|apply IH; exact H1].
    destruct (add_expried _ (l_key (getl s1 r)) r) as [s3 aev] eqn:E3. apply IH.
    eapply J2x_add_expried; [exact E3|]. apply J2x_updl. exact H1.
  - apply IH. rewrite (getl_stored_key s1 r l Hr1). apply (J2x_unref_rm K s1 r l Hr1 H1).
Qed.

Lemma J2x_collect_expiries K s t nowv : J2x K s -> J2x K (fst (fst (collect_expiries s t nowv))).
Proof.
  intros H. unfold collect_expiries.
  pose proof (J2x_sweep_e_slot K (10 * length (wheel_get (ewheel s) (slot_of t)) + 10) s (slot_of t) nowv [] [] H) as H1.
  destruct (sweep_e_slot _ s (slot_of t) nowv [] []) as [[s1 due] ev]. cbn [fst] in H1.
  destruct (aget (elong s1) (lkey t)) as [items|]; [|exact H1].
  pose proof (J2x_sweep_long K items (s1 <| elong := adel (elong s1) (lkey t) |>) false due) as H2.
  destruct (sweep_long _ items false due) as [s2 due2]. cbn [fst] in *. apply H2.
  eapply J2x_mgrs_eq; [|exact H1]. reflexivity.
Qed.
