(* Run-level expiry theorems (property C06), part 5: core runs from the initial state.
   RX s = heap invariant Inv /\ refcount floor JR /\ long-table invariant KL /\ 0 <= checkE <= now + 1; it holds in
   init_db t0 (t0 >= 0) and is preserved by every core action, hence in every state of a core run.  Composition with
   RunExpThm.sweep_never_early (a) and TimeLocal.do_expried_leader (c). *)
From Coq Require Import String ZifyN ZifyBool ZifyNat.
From Slock Require Import Engine.Types Engine.Queues Engine.Timers Engine.Engine Engine.Engine2 Engine.InvDef Engine.InvBase
  Engine.InvPrims Engine.InvRec Engine.InvWheel Engine.InvQueue Engine.InvQueue2 Engine.InvSteps Engine.InvLockDefs Engine.InvLock
  Engine.InvUnlock Engine.InvSweep Engine.InvMain Engine.InvNext Engine.InvProps.
From Slock Require Import Engine.RunDrainFloor2 Engine.RunDrainFloor5.
From Slock Require Import Engine.LocalBase Engine.TimeBase Engine.TimeExp Engine.TimeRun Engine.TimeEvents Engine.TimeFinal Engine.TimeLocal.
From Slock Require Import Engine.RunExpScal Engine.RunExpK Engine.RunExpSteps Engine.RunExpSteps2 Engine.RunExpThm.
Open Scope N_scope.

Record RX (s : db) : Prop := mkRX {
  rx_inv : Inv s;
  rx_jr : JR s [];
  rx_kl : KL s;
  rx_chk : (0 <= checkE s <= now s + 1)%Z
}.

Lemma XL_of_JR s xe : JR s xe -> XL s.
Proof. intros H r l G. destruct (H r l G) as (_ & _ & C). exact C. Qed.

Lemma RX_init t0 a : (0 <= t0)%Z -> RX (init_db t0 a).
Proof. intros H. constructor; [apply inv_init|apply JR_init|apply KL_init|cbn; lia]. Qed.

Lemma chk_step s a : InvDef.core_action a = true -> (0 <= checkE s <= now s + 1)%Z ->
  (0 <= checkE (fst (step s a)) <= now (fst (step s a)) + 1)%Z.
Proof.
  intros Ha H. destruct a as [conn c|k| | |r ok|b].
  - rewrite ce_req, nw_req. exact H.
  - cbn in *. apply Z.leb_le in Ha. lia.
  - cbn [step]. unfold sweep_timeouts. rewrite ce_sweep_t_secs, nw_sweep_t_secs. cbn. exact H.
  - cbn [step]. unfold sweep_expiries. rewrite ce_sweep_e_secs, nw_sweep_e_secs. cbn. lia.
  - discriminate.
  - cbn. exact H.
Qed.

Theorem RX_step s a : RX s -> InvDef.core_action a = true -> next s < MAXREC -> RX (fst (step s a)).
Proof.
  intros [G HJ K C] Ha Hb. constructor.
  - apply inv_step; auto.
  - apply JR_step; auto.
  - apply step_KL; auto. eapply XL_of_JR; eauto.
  - apply chk_step; auto.
Qed.

Theorem RX_run_bounded acts : forall s, RX s -> Forall (fun a => InvDef.core_action a = true) acts -> bounded_run s acts ->
  RX (fst (run s acts)).
Proof.
  induction acts as [|a rest IH]; intros s R Hc Hb; [exact R|].
  rewrite run_fst_cons. inversion Hc; subst. destruct Hb as [Hb1 Hb2].
  apply IH; auto. apply RX_step; auto.
Qed.

Theorem reach_RX t0 a acts : (0 <= t0)%Z -> core acts -> RX (fst (run (init_db t0 a) acts)).
Proof.
  intros H0 Hc. destruct (core_core_run t0 a acts Hc) as [H1 H2]. apply RX_run_bounded; auto. apply RX_init; auto.
Qed.

Lemma core_prefix' pre suf : core (pre ++ suf) -> core pre.
Proof. intros [H1 H2]. apply Forall_app in H1. split; [tauto|]. rewrite app_length in H2. lia. Qed.

Lemma run_states_RX t0 aoft acts : (0 <= t0)%Z -> core acts ->
  forall s a, In (s, a) (run_states (init_db t0 aoft) acts) -> RX s.
Proof.
  intros H0 Hc s a Hi. destruct (run_states_split acts _ s a Hi) as (pre & suf & E & ES & _).
  subst s. apply reach_RX; auto. rewrite E in Hc. exact (core_prefix' _ _ Hc).
Qed.

(* ---------------------------------------------------------------- (a) NEVER EARLY in core runs *)
Theorem expiry_never_early_core t0 aoft acts :
  (0 <= t0)%Z -> core acts ->
  forall s, In (s, ASweepE) (run_states (init_db t0 aoft) acts) ->
  forall e, In e (snd (step s ASweepE)) -> is_er e = true ->
  exists s' r l lc lrc d, In (s', r) (expiry_calls s) /\ elive s' r l
    /\ e = reply (l_conn l) (l_cmd l) R_EXPRIED lc lrc d /\ (l_eT l <= now s)%Z.
Proof.
  intros H0 Hc s I e Ie Er. destruct (run_states_RX t0 aoft acts H0 Hc s _ I) as [G HJ K C].
  apply sweep_never_early; auto.
Qed.

(* a hold whose deadline is 2^63-1 (the unlimited flag) is never reported EXPRIED while server time is below 2^63-1 *)
Theorem unlimited_never_expires_core t0 aoft acts :
  (0 <= t0)%Z -> core acts ->
  forall s, In (s, ASweepE) (run_states (init_db t0 aoft) acts) -> (now s < MAXT)%Z ->
  forall s' r l, In (s', r) (expiry_calls s) -> elive s' r l -> l_eT l <> MAXT.
Proof.
  intros H0 Hc s I N s' r l Ic LV E. destruct (run_states_RX t0 aoft acts H0 Hc s _ I) as [G HJ K C].
  pose proof (expiry_call_not_early s G K C s' r l Ic LV). lia.
Qed.

(* the long-table invariant itself, in every state of a core run *)
Theorem long_table_integrity_core t0 aoft acts :
  (0 <= t0)%Z -> core acts -> KL (fst (run (init_db t0 aoft) acts)).
Proof. intros H0 Hc. apply (rx_kl _ (reach_RX t0 aoft acts H0 Hc)). Qed.

(* ---------------------------------------------------------------- (c) what the firing does, at run level *)
Lemma fire_log_ok : forall due s xt k, GInv s (gk xt due k) ->
  forall s' r, In (s', r) (fire_log do_expried s due) ->
  leader s' = leader s /\ exists l, aget (store s') r = Some l /\ aget (mgrs s') (l_key l) <> None /\ cmd_core (l_cmd l).
Proof.
  induction due as [|r rest IH]; intros s xt k G s' r' I; cbn in I; [destruct I|].
  destruct I as [[= <- <-]|I].
  - split; [reflexivity|]. destruct (stored_of_xe s _ r rest G eq_refl) as [l Hr]. exists l. split; auto.
    split; [apply (ro_mgr _ _ _ _ (gi_rec _ _ G r l Hr))|apply (ro_cmd _ _ _ _ (gi_rec _ _ G r l Hr))].
  - destruct (do_expried_ginv s xt k r rest G) as [k1 [G1 Hw]].
    pose proof (ld_finish (do_expried s r)) as L1. pose proof (ld_do_expried s r) as L2.
    destruct (do_expried s r) as [[s1 e1] w] eqn:Ed. cbn [fst snd] in *.
    pose proof (finish_ginv s1 e1 w xt rest k1 G1 Hw) as G2.
    destruct (IH _ xt k1 G2 s' r' I) as [A B]. split; [congruence|exact B].
Qed.

Lemma sweep_e_log_ok nowv : forall n s t, Inv s ->
  forall s' r, In (s', r) (sweep_e_log n s t nowv) ->
  leader s' = leader s /\ exists l, aget (store s') r = Some l /\ aget (mgrs s') (l_key l) <> None /\ cmd_core (l_cmd l).
Proof.
  induction n as [|n IH]; intros s t G s' r I; cbn [sweep_e_log] in I; [destruct I|].
  pose proof (collect_expiries_ginv s [] 0 t nowv (inv_gk s 0 G)) as G1.
  pose proof (ld_collect_expiries s t nowv) as L1.
  destruct (collect_expiries s t nowv) as [[s1 due] e1]. cbn [fst snd] in *.
  apply in_app_iff in I. destruct I as [I|I].
  - destruct (fire_log_ok due s1 [] 0 G1 s' r I) as [A B]. split; [congruence|exact B].
  - destruct (fire_all_e_ginv due s1 [] 0 G1) as [k' G2].
    pose proof (ld_fire_all do_expried ld_do_expried due s1) as L2.
    destruct (IH _ (t + 1)%Z (gk_inv _ k' G2) s' r I) as [A B]. split; [congruence|exact B].
Qed.

(* every doExpried call of a sweep on a live hold, on a leader: the hold is released for its full depth, the EXPRIED
   reply goes to the record's connection with the record's command, the key's locked count drops by the depth (or the
   key manager is removed), other keys are untouched, and a wake-up pass for the key is pending (it is run by
   `finish` right after: fire_all) *)
Theorem expiry_effect_core t0 aoft acts :
  (0 <= t0)%Z -> core acts ->
  forall s, In (s, ASweepE) (run_states (init_db t0 aoft) acts) -> leader s = true ->
  forall s' r l, In (s', r) (expiry_calls s) -> elive s' r l ->
  (l_eT l <= now s)%Z
  /\ exists s'' aev lc lrc d,
    do_expried s' r = (s'', [ERelease (l_key l) r (l_locked l)] ++ aev ++ [reply (l_conn l) (l_cmd l) R_EXPRIED lc lrc d],
                       Some (mkWake (l_key l) None))
    /\ Forall is_aof aev
    /\ (mlocked s'' (l_key l) = sub32 (mlocked s' (l_key l)) (l_locked l) \/ aget (mgrs s'') (l_key l) = None)
    /\ (forall k', k' <> l_key l -> mlocked s'' k' = mlocked s' k')
    /\ lc = mlocked s'' (l_key l).
Proof.
  intros H0 Hc s I Ld s' r l Ic LV. destruct (run_states_RX t0 aoft acts H0 Hc s _ I) as [G HJ K C].
  split; [eapply expiry_call_not_early; eauto|].
  unfold expiry_calls in Ic.
  assert (G' : Inv (s <| checkE := (now s + 1)%Z |>)) by (apply (inv_scalar s); auto).
  destruct (sweep_e_log_ok (now s) _ (s <| checkE := (now s + 1)%Z |>) (checkE s) G' s' r Ic) as [L (l0 & G0 & M & _)].
  destruct LV as [Gl Ex]. rewrite Gl in G0. injection G0 as <-.
  destruct (aget (mgrs s') (l_key l)) as [m|] eqn:Em; [|congruence].
  apply (do_expried_leader s' r l m Gl Ex); auto. rewrite L. exact Ld.
Qed.
