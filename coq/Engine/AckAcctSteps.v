(* FORK of the first half of Engine/InvSteps.v on the definitions of AckAcctDef.v: wakeUpWaitLock with its acknowledgement branch, wakeUpWaitLocks, GetLockedLock. *)
(* Invariant proof, part 7: the critical sections (wake-up pass, Lock, UnLock, cancelWaitLock, doTimeOut, doExpried). *)
From Coq Require Import String ZifyN ZifyBool ZifyNat Permutation.
From Slock Require Import Engine.Types Engine.Queues Engine.Timers Engine.Engine Engine.Engine2 Engine.InvDef Engine.InvBase Engine.AckAcctDef
  Engine.AckAcctPrims Engine.AckAcctRec Engine.AckAcctWheel Engine.AckAcctQueue Engine.AckAcctQueue2.
Open Scope N_scope.

(* the ghost of a critical section on key k at rest (sweepers may hold references) *)
Definition gk (xt xe : list ref) (k : N) : ghost := mkGhost xt xe [] [] [] [] k false false 0 0 0.

Lemma gk_rekey s xt xe k k' : GInv s (gk xt xe k) -> GInv s (gk xt xe k').
Proof. intros G. apply (ginv_set_dk s (gk xt xe k) k' G); reflexivity. Qed.
Lemma inv_gk s k : Inv s -> GInv s (gk [] [] k).
Proof. intros G. apply (ginv_set_dk s g0 k G); reflexivity. Qed.
Lemma gk_inv s k : GInv s (gk [] [] k) -> Inv s.
Proof. intros G. apply (ginv_set_dk s (gk [] [] k) 0 G); reflexivity. Qed.

(* a granter / new waiter borrows a sweeper slot for the record it is about to put on a wheel *)
Lemma ginv_borrow_e s g r l : GInv s g -> aget (store s) r = Some l -> ecount s g r = O -> l_timeouted l = true ->
  GInv s (g <| g_xe := r :: g_xe g |> <| g_owe := r :: g_owe g |>).
Proof.
  intros G Hr He Ht.
  eapply (wheels_ginv s s g); eauto; gs; try apply G.
  - intros r0 l0 H0 Ha. rewrite occ_cons. destruct (r =? r0) eqn:E; auto. apply N.eqb_eq in E; subst r0.
    assert (l0 = l) by congruence; subst l0. destruct (ro_ack _ _ _ _ (gi_rec _ _ G r l Hr) Ha) as [_ [_ Q]]. unfold ecount in He. lia.
  - intros r0 l0 H0. destruct (gi_rec _ _ G r0 l0 H0) as [A1 A2 A3 A4 A5 A6 A7 A8 A9 A10 A11].
    unfold tcount, ecount in *. gs. rewrite !occ_cons.
    destruct (r =? r0) eqn:E.
    + apply N.eqb_eq in E; subst r0. assert (l0 = l) by congruence. subst l0.
      repeat split; try lia; auto; try (intros Hd; unfold dead_waiter in Hd; rewrite Ht in Hd; discriminate).
    + repeat split; try lia; auto; try (intros Hti; destruct (A6 Hti) as [_ [Q _]]; lia).
  - intros r0 H0. pose proof (gi_str _ _ G r0 H0) as S. unfold tcount, ecount in *. gs. rewrite occ_cons.
    destruct (r =? r0) eqn:E; [apply N.eqb_eq in E; congruence|lia].
Qed.

Lemma ginv_borrow_t s g r l : GInv s g -> aget (store s) r = Some l -> tcount s g r = O ->
  GInv s (g <| g_xt := r :: g_xt g |> <| g_owe := r :: g_owe g |>).
Proof.
  intros G Hr He.
  eapply (wheels_ginv s s g); eauto; gs; try apply G.
  - intros r0 l0 H0. destruct (gi_rec _ _ G r0 l0 H0) as [A1 A2 A3 A4 A5 A6 A7 A8 A9 A10 A11].
    unfold tcount, ecount in *. gs. rewrite !occ_cons.
    destruct (r =? r0) eqn:E.
    + apply N.eqb_eq in E; subst r0. assert (l0 = l) by congruence. subst l0.
      repeat split; try lia; auto; try (intros Hti; destruct (A6 Hti) as [_ [Q _]]; lia).
    + repeat split; try lia; auto; try (intros Hti; destruct (A6 Hti) as [_ [Q _]]; lia).
  - intros r0 H0. pose proof (gi_str _ _ G r0 H0) as S. unfold tcount, ecount in *. gs. rewrite occ_cons.
    destruct (r =? r0) eqn:E; [apply N.eqb_eq in E; congruence|lia].
Qed.

(* ---------------------------------------------------------------- wakeUpWaitLock (non-ack part) *)
Definition wg_pre (s : db) (r : ref) : db :=
  let l := getl s r in
  let s := updl s r (fun l => l <| l_timeouted := true |>) in
  if l_long l then remove_long_timeout s r else s.

(* marking a live waiter as answered (timeouted := true) and taking it out of the long table *)
Lemma wg_pre_ginv s xt xe k r l :
  GInv s (gk xt xe k) -> aget (store s) r = Some l -> dead_waiter l = false ->
  GInv (wg_pre s r) (gk xt xe k <| g_cw := (-1)%Z |>)
  /\ exists l2, aget (store (wg_pre s r)) r = Some l2 /\ l_key l2 = l_key l /\ l_cmd l2 = l_cmd l /\ l_locked l2 = 0
       /\ l_timeouted l2 = true /\ l_long l2 = false /\ l_conn l2 = l_conn l
       /\ mgrs (wg_pre s r) = mgrs s /\ ewheel (wg_pre s r) = ewheel s /\ elong (wg_pre s r) = elong s
       /\ cnt (wg_pre s r) = cnt s /\ next (wg_pre s r) = next s.
Proof.
  intros G Hr Ht. set (g := gk xt xe k) in *.
  destruct (gi_rec _ _ G r l Hr) as [A1 A2 A3 A4 A5 A6 A7 A8 A9 A10 A11].
  destruct (A6 Ht) as [Q1 [Q2 [Q3 Q4]]].
  destruct (dead_waiter_false l Ht) as [Htf Hak].
  unfold wg_pre. rewrite (getl_some _ _ _ Hr), (updl_some _ _ _ _ Hr). cbv zeta.
  set (l1 := l <| l_timeouted := true |>).
  pose proof (ginv_pend_add s g r G) as G1.
  assert (G2 : GInv (setl s r l1) (g <| g_pend := [r] |> <| g_cw := (-1)%Z |>)).
  { eapply ginv_geq; [apply (setl_flags s _ r l l1 G1 Hr); auto; unfold g, gk; gs|].
    - intros _ Hpe. rewrite occ_cons_eq in Hpe. discriminate.
    - unfold g, gk. gs. unfold liveb. change (dead_waiter l1) with true. rewrite Ht. reflexivity. }
  assert (Hr1 : aget (store (setl s r l1)) r = Some l1) by (rewrite store_setl, aget_aset_same; auto).
  destruct (l_long l) eqn:Elong.
  - assert (Hb : occ r (wheel_get (tlong s) (lkey (l_tT l))) = 1%nat) by (apply A8; auto).
    assert (G3 : GInv (remove_long_timeout (setl s r l1) r) (g <| g_pend := [r] |> <| g_cw := (-1)%Z |>)).
    { apply (remove_long_timeout_ginv _ _ r l1 G2 Hr1); unfold g, gk; gs; auto;
        try (rewrite occ_cons_eq; lia); try (change (l_locked l1) with (l_locked l); lia). }
    assert (Hs3 : exists q, remove_long_timeout (setl s r l1) r =
              setl (setl s r l1 <| tlong := q |>) r (l1 <| l_long := false |> <| l_refc := dec8 (l_refc l1) |>)).
    { unfold remove_long_timeout. rewrite (getl_some _ _ _ Hr1). change (tlong (setl s r l1)) with (tlong s). change (l_tT l1) with (l_tT l).
      destruct (wheel_get_some (tlong s) (lkey (l_tT l)) r) as [q [Hq1 Hq2]]; [lia|]. rewrite Hq1.
      eexists. unfold updl. cbn [store]. change (store (setl s r l1 <| tlong := _ |>)) with (store (setl s r l1)). rewrite Hr1. reflexivity. }
    destruct Hs3 as [q Es3]. rewrite Es3 in *.
    split.
    + eapply ginv_geq; [apply (ginv_pend_drop _ _ r [] G3); gs; auto|].
      * intros l0 H0 Hl0. rewrite store_setl, aget_aset_same in H0. inversion H0; subst l0. discriminate.
      * reflexivity.
    + eexists. split; [rewrite store_setl, aget_aset_same; reflexivity|]. repeat split; auto.
  - split.
    + eapply ginv_geq; [apply (ginv_pend_drop _ _ r [] G2); gs; auto|].
      * intros l0 H0 Hl0. rewrite Hr1 in H0. inversion H0; subst l0. change (l_long l1) with (l_long l) in Hl0. congruence.
      * reflexivity.
    + exists l1. split; [exact Hr1|]. repeat split; auto.
Qed.


(* ---------------------------------------------------------------- granting a hold: AddLock; locked++; AddExpried; refCount++ *)
Definition grant_core (s : db) (k : N) (r : ref) : db :=
  let s := add_lock s k r in
  let s := updm s k (fun m => m <| m_locked := add32 (m_locked m) 1 |>) in
  let s := fst (add_expried s k r) in
  updl s r (fun l => l <| l_refc := add8 (l_refc l) 1 |>).

Lemma grant_core_ginv s g k r l m :
  GInv s g -> g_dk g = k -> g_ph g = [] -> g_pre g = [] -> g_owe g = [] -> g_pend g = [] -> g_pw g = false -> g_lk g = false ->
  g_dl g = 0%Z ->
  aget (store s) r = Some l -> l_key l = k -> aget (mgrs s) k = Some m ->
  l_locked l = 0 -> l_timeouted l = true -> l_long l = false -> occ r (holders m) = O -> ecount s g r = O ->
  m_locked m + 1 < 4294967296 -> akf l = false ->
  GInv (grant_core s k r) (g <| g_cl := (g_cl g + 1)%Z |>).
Proof.
  intros G Hk Hp Hq Ho Hpe Hpw Hlk Hdl Hr Hkey Hm Hd Ht Hlg Hh He Hb Hnak.
  unfold grant_core. cbv zeta.
  destruct (add_lock_ginv s g k r l m G) as [G2 [[l3 [Hr3 [K3 [Cm3 [D3 [T3 [L3 [Cn3 Ak3]]]]]]]] LF3]]; auto.
  set (s2 := add_lock s k r) in *.
  destruct (lf_m _ _ LF3 k) as [Mk [Ml _]].
  change (getm (setl s r (al_rec s k l)) k) with (getm s k) in Ml. rewrite (getm_some _ _ _ Hm) in Ml.
  destruct (aget (mgrs s2) k) as [m2|] eqn:Hm2;
    [|exfalso; pose proof (proj1 Mk eq_refl) as X; change (mgrs (setl s r (al_rec s k l))) with (mgrs s) in X; congruence].
  rewrite (getm_some _ _ _ Hm2) in Ml.
  rewrite (updm_some _ _ _ _ Hm2).
  set (m3 := m2 <| m_locked := add32 (m_locked m2) 1 |>).
  assert (Hl3 : m_locked m3 = m_locked m2 + 1).
  { unfold m3. change (m_locked (m2 <| m_locked := add32 (m_locked m2) 1 |>)) with (add32 (m_locked m2) 1). apply add32_succ. lia. }
  assert (G3 : GInv (setm s2 k m3) (g <| g_cl := (g_cl g + 1)%Z |>)).
  { eapply ginv_geq; [apply (setm_scalar s2 _ k m2 m3 G2 Hm2); try (destruct m2; reflexivity); [lia|right; gs; auto]|].
    rewrite Hl3. gs.
    match goal with |- _ = ?g0 <| g_dl := ?e1 |> <| g_cl := ?e2 |> =>
      replace e1 with 0%Z by lia; replace e2 with (g_cl g + 1)%Z by lia end.
    destruct g; gs; subst; reflexivity. }
  set (s3 := setm s2 k m3) in *.
  assert (Hr3' : aget (store s3) r = Some l3) by exact Hr3.
  assert (He3 : ecount s3 (g <| g_cl := (g_cl g + 1)%Z |>) r = O).
  { unfold ecount in *. gs. change (ewheel s3) with (ewheel s2). change (elong s3) with (elong s2).
    rewrite (lf_ew _ _ LF3), (lf_el _ _ LF3). exact He. }
  pose proof (ginv_borrow_e s3 _ r l3 G3 Hr3' He3 T3) as G4.
  assert (G5 : GInv (fst (add_expried s3 k r)) (g <| g_cl := (g_cl g + 1)%Z |> <| g_owe := [r] |>)).
  { eapply ginv_geq; [eapply (add_expried_ginv s3 _ k r _ l3 G4); gs; auto; reflexivity|].
    gs. rewrite Ho. destruct g; reflexivity. }
  destruct (aget (store (fst (add_expried s3 k r))) r) as [l4|] eqn:Hr4;
    [|apply add_expried_stored in Hr4; congruence].
  eapply ginv_geq; [apply (updl_refc_owe _ _ r [] l4 G5); gs; auto|].
  destruct g; gs; subst; reflexivity.
Qed.

(* ---------------------------------------------------------------- wake_grant on a core command *)
Definition wg_nohold (s : db) (k : N) (r : ref) (c : cmd) : db :=
  if has_data_flag c then
    let m := getm s k in
    let req_aof := match m_cur m with Some cr => l_isaof (getl s cr) | None => false end
                   || match m_data m with Some d => d_isaof d | None => false end in
    let nowaof := match m_data (getm s k) with Some d => negb (d_isaof d) | None => false end in
    if req_aof && nowaof then fst (push_lock_aof s k r 0) else s
  else s.

(* ACK: the branch condition of wakeUpWaitLock *)
Definition wg_ack (l : lockrec) : bool :=
  has (c_tflag (l_cmd l)) TF_REQUIRE_ACKED && negb (l_isaof l) && negb (l_aoftime l =? 255)
  && negb (has (c_flag (l_cmd l)) LOCK_FLAG_FROM_AOF).

Definition grant_ack (s : db) (k : N) (r : ref) : db :=
  let s := add_lock s k r in
  let s := updm s k (fun m => m <| m_locked := add32 (m_locked m) 1 |>) in
  let s := updl s r (fun l => l <| l_refc := add8 (l_refc l) 1 |>) in
  fst (push_lock_aof s k r 0).

Lemma wake_grant_state_ack s k r via : cmd_core (l_cmd (getl s r)) -> wg_ack (getl s r) = true ->
  fst (wake_grant s k r via) =
  bump (fun n => n <| n_lock := (n_lock n + 1)%Z |> <| n_locked := (n_locked n + 1)%Z |> <| n_wait := (n_wait n - 1)%Z |>)
       (grant_ack s k r).
Proof.
  intros [[_ C1] [C2 [C3 C4]]] Hb. unfold wake_grant, grant_ack. cbv zeta. unfold wg_ack in Hb. rewrite Hb.
  apply andb_true_iff in Hb. destruct Hb as [Hb _]. apply andb_true_iff in Hb. destruct Hb as [Hb _].
  apply andb_true_iff in Hb. destruct Hb as [Hb _]. destruct (C1 Hb) as [_ [Cf _]].
  unfold has_data_flag. rewrite Cf. change (has 0 LOCK_FLAG_CONTAINS_DATA) with false. cbv iota.
  destruct (push_lock_aof _ k r 0) as [s4 aev]. reflexivity.
Qed.

Lemma wake_grant_state s k r via : cmd_core (l_cmd (getl s r)) -> wg_ack (getl s r) = false ->
  fst (wake_grant s k r via) =
  let c := l_cmd (getl s r) in
  if 0 <? c_expried c
  then bump (fun n => n <| n_lock := (n_lock n + 1)%Z |> <| n_locked := (n_locked n + 1)%Z |> <| n_wait := (n_wait n - 1)%Z |>)
            (grant_core (wg_pre s r) k r)
  else bump (fun n => n <| n_lock := (n_lock n + 1)%Z |> <| n_wait := (n_wait n - 1)%Z |>) (wg_nohold (wg_pre s r) k r c).
Proof.
  intros [C1 [C2 [C3 C4]]] Hb. unfold wake_grant, grant_core, wg_nohold. cbv zeta. unfold wg_ack in Hb. rewrite Hb.
  change (if l_long (getl s r) then remove_long_timeout (updl s r (fun l0 => l0 <| l_timeouted := true |>)) r
          else updl s r (fun l0 => l0 <| l_timeouted := true |>)) with (wg_pre s r).
  set (s1 := wg_pre s r). set (c := l_cmd (getl s r)) in *.
  destruct (0 <? c_expried c).
  - rewrite C3. destruct (has_data_flag c); rewrite ?(process_data_core _ _ _ _ _ C4);
      destruct (add_expried _ k r) as [s4 aev]; reflexivity.
  - destruct (has_data_flag c); [|reflexivity]. rewrite (process_data_core _ _ _ _ _ C4).
    match goal with |- context [if ?b && ?b2 then _ else _] => destruct (b && b2) end; [|reflexivity].
    destruct (push_lock_aof s1 k r 0); reflexivity.
Qed.

(* ACK: the acknowledgement grant: AddLock (ackCount := 0); locked++; refCount++ (the acknowledgement reference);
   PushLockAof.  The armed timeout entry stays (it is the acknowledgement timeout). *)
Lemma grant_ack_ginv s xt xe k r l m :
  GInv s (gk xt xe k) -> aget (store s) r = Some l -> l_key l = k -> dead_waiter l = false ->
  aget (mgrs s) k = Some m -> m_locked m + 1 < 4294967296 ->
  akf l = true -> l_expried l = true ->
  GInv (grant_ack s k r) (gk xt (r :: xe) k <| g_cl := 1%Z |> <| g_cw := (-1)%Z |>).
Proof.
  intros G Hr Hkey Hdw Hm Hb Hakf Hex. set (g := gk xt xe k) in *.
  destruct (gi_rec _ _ G r l Hr) as [A1 A2 A3 A4 A5 A6 A7 A8 A9 A10 A11].
  destruct (A6 Hdw) as [Q1 [Q2 [Q3 Q4]]]. rewrite Hkey, (getm_some _ _ _ Hm) in Q1, Q4.
  destruct (dead_waiter_false l Hdw) as [Htf Hak].
  unfold grant_ack. cbv zeta.
  assert (Hmode : al_mode s g r l (r :: g_xe g) [r]).
  { right. repeat split; auto. }
  destruct (add_lock_ginv_gen s g k r l m (r :: g_xe g) [r] G eq_refl eq_refl eq_refl eq_refl eq_refl eq_refl Hr Hkey Hm Q3 Q1 Hak Hmode)
    as [G2 [Hr3 LF3]].
  set (l3 := al_rec s k l) in *.
  destruct (al_rec_fields s k l A9) as [F1 [F2 [F3 [F4 [F5 [F6 [F7 [F8 [F9 F10]]]]]]]]]. fold l3 in F1, F2, F3, F4, F5, F6, F7, F8, F9, F10.
  assert (Hlv : (liveb l3 - liveb l = -1)%Z).
  { unfold liveb. rewrite Hdw. unfold dead_waiter. rewrite F8, Hakf. change (negb (0 =? 255)) with true. rewrite orb_true_r. reflexivity. }
  set (s2 := add_lock s k r) in *.
  destruct (lf_m _ _ LF3 k) as [Mk [Ml _]].
  change (getm (setl s r l3) k) with (getm s k) in Ml. rewrite (getm_some _ _ _ Hm) in Ml.
  destruct (aget (mgrs s2) k) as [m2|] eqn:Hm2;
    [|exfalso; pose proof (proj1 Mk eq_refl) as X; change (mgrs (setl s r l3)) with (mgrs s) in X; congruence].
  rewrite (getm_some _ _ _ Hm2) in Ml.
  rewrite (updm_some _ _ _ _ Hm2).
  set (m3 := m2 <| m_locked := add32 (m_locked m2) 1 |>).
  assert (Hl3 : m_locked m3 = m_locked m2 + 1).
  { unfold m3. change (m_locked (m2 <| m_locked := add32 (m_locked m2) 1 |>)) with (add32 (m_locked m2) 1). apply add32_succ. lia. }
  set (g2 := gal g (r :: g_xe g) [r] (g_cw g + liveb l3 - liveb l)%Z <| g_dl := (g_dl g + 1)%Z |>) in *.
  assert (G3 : GInv (setm s2 k m3) (g2 <| g_dl := 0%Z |> <| g_cl := 1%Z |>)).
  { eapply ginv_geq; [apply (setm_scalar s2 _ k m2 m3 G2 Hm2); try (destruct m2; reflexivity); [lia|right; reflexivity]|].
    rewrite Hl3. unfold g2, gal, g, gk. gs.
    match goal with |- _ = ?g0 <| g_dl := ?e1 |> <| g_cl := ?e2 |> =>
      replace e1 with 0%Z by lia; replace e2 with 1%Z by lia end.
    reflexivity. }
  set (s3 := setm s2 k m3) in *.
  assert (Hr3' : aget (store s3) r = Some l3) by exact Hr3.
  assert (G4 : GInv (updl s3 r (fun l => l <| l_refc := add8 (l_refc l) 1 |>)) (g2 <| g_dl := 0%Z |> <| g_cl := 1%Z |> <| g_owe := [] |>)).
  { apply (updl_refc_owe s3 _ r [] l3 G3); [reflexivity|reflexivity|exact Hr3']. }
  pose proof (proj1 (push_lock_aof_ok _ _ k r 0 G4)) as G5.
  eapply ginv_geq; [exact G5|].
  assert (Hlv2 : (0 + liveb l3 - liveb l = -1)%Z) by (clear - Hlv; lia).
  unfold g2, gal, g, gk. gs. rewrite Hlv2. reflexivity.
Qed.

Lemma wake_grant_ginv s xt xe k r via l m :
  GInv s (gk xt xe k) -> aget (store s) r = Some l -> l_key l = k -> dead_waiter l = false ->
  aget (mgrs s) k = Some m -> m_locked m + 1 < 4294967296 ->
  (akf l = true -> wg_ack l = true /\ l_expried l = true) ->
  GInv (fst (wake_grant s k r via)) (gk xt ((if wg_ack l then [r] else []) ++ xe) k).
Proof.
  intros G Hr Hkey Ht Hm Hb Hpi.
  destruct (gi_rec _ _ G r l Hr) as [A1 A2 A3 A4 A5 A6 A7 A8 A9 A10 A11].
  destruct (A6 Ht) as [Q1 [Q2 [Q3 Q4]]]. rewrite Hkey, (getm_some _ _ _ Hm) in Q1, Q4.
  destruct (wg_ack l) eqn:Eb.
  - (* acknowledgement grant *)
    assert (Hakf : akf l = true).
    { unfold wg_ack in Eb. apply andb_true_iff in Eb. destruct Eb as [Eb _]. apply andb_true_iff in Eb. destruct Eb as [Eb _].
      apply andb_true_iff in Eb. destruct Eb as [Eb _]. exact Eb. }
    destruct (Hpi Hakf) as [_ Hex].
    rewrite wake_grant_state_ack by (rewrite (getl_some _ _ _ Hr); auto).
    pose proof (grant_ack_ginv s xt xe k r l m G Hr Hkey Ht Hm Hb Hakf Hex) as G2.
    eapply ginv_geq; [apply (updc_ginv _ _ _ 0%Z 0%Z G2); unfold gk; gs; cbn; lia|]. reflexivity.
  - (* plain grant *)
    assert (Hnak : akf l = false).
    { destruct (akf l) eqn:Ea; auto. destruct (Hpi eq_refl). congruence. }
    destruct (wg_pre_ginv s xt xe k r l G Hr Ht) as [G1 [l2 [Hr2 [K2 [Cm2 [D2 [T2 [L2 [Cn2 [M2 [W2 [W2' [N2 X2]]]]]]]]]]]]].
    rewrite wake_grant_state by (rewrite (getl_some _ _ _ Hr); auto). cbv zeta.
    set (s1 := wg_pre s r) in *. set (g1 := gk xt xe k <| g_cw := (-1)%Z |>) in *.
    assert (Hm1 : aget (mgrs s1) k = Some m) by (rewrite M2; auto).
    assert (He1 : ecount s1 g1 r = O) by (unfold ecount, g1, gk in *; gs; rewrite W2, W2'; exact Q2).
    destruct (0 <? c_expried (l_cmd (getl s r))).
    + assert (G2 : GInv (grant_core s1 k r) (g1 <| g_cl := (g_cl g1 + 1)%Z |>)).
      { apply (grant_core_ginv s1 g1 k r l2 m G1); unfold g1, gk; gs; auto; try congruence.
        unfold akf. rewrite Cm2. exact Hnak. }
      eapply ginv_geq; [apply (updc_ginv _ _ _ 0%Z 0%Z G2); unfold g1, gk; gs; cbn; lia|]. reflexivity.
    + assert (G2 : GInv (wg_nohold s1 k r (l_cmd (getl s r))) g1).
      { unfold wg_nohold. destruct (has_data_flag (l_cmd (getl s r))); auto. cbv zeta. destruct (_ && _); auto.
        apply push_lock_aof_ok; auto. }
      eapply ginv_geq; [apply (updc_ginv _ _ _ 0%Z 0%Z G2); unfold g1, gk; gs; cbn; lia|]. reflexivity.
Qed.

(* ---------------------------------------------------------------- wakeUpWaitLocks *)
Lemma do_lock_rule_bound a b c : do_lock_rule a b c = true -> a < 2147483647.
Proof.
  unfold do_lock_rule. destruct (a =? 0) eqn:E0; [apply N.eqb_eq in E0; lia|].
  destruct (c =? 0); [discriminate|]. destruct (65535 <=? a) eqn:E1.
  - destruct (2147483647 <=? a) eqn:E2; [discriminate|]. apply N.leb_gt in E2. auto.
  - apply N.leb_gt in E1. lia.
Qed.

(* ACK: what the wake-up pass needs to know about the waiters it grants: a live waiter whose command carries the
   require-ack flag takes the acknowledgement branch (never persisted yet, aofTime <> 0xff) and still has its expried
   flag.  This is a record-local fact outside GInv; the lemmas below are parametric in a state predicate W that implies
   it and is preserved by one iteration of wakeUpWaitLocks. *)
Definition wpi (s : db) : Prop :=
  forall r l, aget (store s) r = Some l -> dead_waiter l = false -> akf l = true -> wg_ack l = true /\ l_expried l = true.

Lemma wake_iter_ginv s xt xe k w : GInv s (gk xt xe k) -> w_key w = k -> wpi (fst (get_wait_lock s k)) ->
  exists G, GInv (fst (fst (wake_iter s w))) (gk xt (G ++ xe) k).
Proof.
  intros G Hw Hpi. unfold wake_iter. rewrite Hw. destruct (aget (mgrs s) k) as [m|] eqn:Hm; [|exists []; exact G].
  destruct (negb (m_waited m)); [exists []; exact G|].
  pose proof (get_wait_lock_ginv s (gk xt xe k) k G) as P.
  destruct (get_wait_lock s k) as [s1 wl]. destruct P as [G1 [LF [_ [_ [_ P4]]]]]; auto.
  cbn [fst] in Hpi.
  destruct (lf_m _ _ LF k) as [Mk _].
  destruct (aget (mgrs s1) k) as [m1|] eqn:Hm1; [|exfalso; pose proof (proj1 Mk eq_refl); congruence].
  destruct wl as [r|].
  - destruct P4 as [Hin [l [Hr Ht]]].
    destruct (negb (do_lock s1 k r)) eqn:Ed; [exists []; exact G1|]. apply negb_false_iff in Ed.
    unfold do_lock in Ed. apply do_lock_rule_bound in Ed. rewrite (getm_some _ _ _ Hm1) in *.
    assert (Hkey : l_key l = k).
    { eapply (mo_key _ _ _ _ (gi_mgr _ _ G1 k m1 Hm1)); eauto. apply in_or_app. right. auto. }
    assert (Hb : m_locked m1 + 1 < 4294967296) by (clear - Ed; lia).
    pose proof (wake_grant_ginv s1 xt xe k r (w_conn w) l m1 G1 Hr Hkey Ht Hm1 Hb (Hpi r l Hr Ht)) as GG.
    destruct (wake_grant s1 k r (w_conn w)) as [s2 ev]. cbn [fst] in *. eexists. exact GG.
  - cbn [fst]. exists [].
    apply remove_mgr_ginv; [|intros _; split; reflexivity].
    apply updm_scalar; auto.
Qed.

Section WakeLoop.
  Variable W : db -> Prop.
  Hypothesis W_wpi : forall s k, W s -> wpi (fst (get_wait_lock s k)).
  Hypothesis W_iter : forall s w, W s -> W (fst (fst (wake_iter s w))).

  Lemma run_wake_ginv fuel : forall s xt xe k w, GInv s (gk xt xe k) -> w_key w = k -> W s ->
    exists G, GInv (fst (run_wake fuel s w)) (gk xt (G ++ xe) k) /\ W (fst (run_wake fuel s w)).
  Proof.
    induction fuel as [|f IH]; intros s xt xe k w G Hw HW; simpl; [exists []; split; [exact G|exact HW]|].
    destruct (wake_iter_ginv s xt xe k w G Hw (W_wpi s k HW)) as [G0 G1].
    pose proof (W_iter s w HW) as HW1.
    destruct (wake_iter s w) as [[s' ev] [|]]; cbn [fst] in *; [exists G0; split; [exact G1|exact HW1]|].
    destruct (IH s' xt (G0 ++ xe) k w G1 Hw HW1) as [G2 [G3 HW3]]. destruct (run_wake f s' w) as [s'' ev']. cbn [fst] in *.
    exists (G2 ++ G0). rewrite <- app_assoc. split; [exact G3|exact HW3].
  Qed.

  Lemma finish_ginv s ev w xt xe k : GInv s (gk xt xe k) -> (forall w0, w = Some w0 -> w_key w0 = k) -> W s ->
    exists G, GInv (fst (finish (s, ev, w))) (gk xt (G ++ xe) k) /\ W (fst (finish (s, ev, w))).
  Proof.
    intros G Hw HW. unfold finish. destruct w as [w0|]; [|exists []; split; [exact G|exact HW]].
    destruct (run_wake_ginv (wake_fuel s (w_key w0)) s xt xe k w0 G (Hw w0 eq_refl) HW) as [G0 P].
    destruct (run_wake (wake_fuel s (w_key w0)) s w0) as [s' ev']. exists G0. exact P.
  Qed.
End WakeLoop.

(* ---------------------------------------------------------------- GetLockedLock *)
Lemma find_locked_spec s items id r : find_locked s items id = Some r ->
  In r items /\ 0 < l_locked (getl s r) /\ c_lockid (l_cmd (getl s r)) = id.
Proof.
  induction items as [|x t IH]; simpl; [discriminate|].
  destruct ((0 <? l_locked (getl s x)) && (c_lockid (l_cmd (getl s x)) =? id)) eqn:E.
  - intros H; inversion H; subst. apply andb_true_iff in E. destruct E as [E1 E2].
    apply N.ltb_lt in E1. apply N.eqb_eq in E2. auto.
  - intros H. destruct (IH H) as [A [B C]]. auto.
Qed.

Lemma get_locked_lock_spec s xt xe k m id r :
  GInv s (gk xt xe k) -> aget (mgrs s) k = Some m -> get_locked_lock s m id = Some r ->
  exists l, aget (store s) r = Some l /\ l_key l = k /\ 0 < l_locked l /\ c_lockid (l_cmd l) = id
            /\ dead_waiter l = true /\ occ r (holders m) = 1%nat.
Proof.
  intros G Hm Hg.
  destruct (gi_mgr _ _ G k m Hm) as [B1 B2 B3 B4 B5 B6 B7 B8 B9 Bb B10 Bc].
  assert (Hlkk : lkk (gk xt xe k) k = false) by (unfold lkk, gk; gs; apply andb_false_r).
  specialize (B7 Hlkk). specialize (B10 Hlkk).
  assert (Hgen : In r (holders m) /\ 0 < l_locked (getl s r) /\ c_lockid (l_cmd (getl s r)) = id).
  { unfold get_locked_lock in Hg. destruct (m_cur m) as [c|] eqn:Ec; [|discriminate].
    destruct (c_lockid (l_cmd (getl s c)) =? id) eqn:E.
    - inversion Hg; subst c. apply N.eqb_eq in E. split; [unfold holders, cur_list; rewrite Ec; simpl; auto|]. split; auto.
    - destruct (m_locks m) as [q|] eqn:El; [|discriminate]. unfold hq_getlock in Hg.
      destruct (find_locked s (hq_fast q) id) as [r1|] eqn:Ef.
      + inversion Hg; subst r1. destruct (find_locked_spec _ _ _ _ Ef) as [X1 [X2 X3]]. split; auto.
        unfold holders, m_hq. rewrite El. unfold hq_items. apply in_or_app. right. apply in_or_app. auto.
      + destruct (hq_scale q) as [[items mp]|] eqn:Es; [|discriminate].
        destruct (B10 q eq_refl items mp Es id r Hg) as [X1 [X2 X3]]. split; auto.
        unfold holders, m_hq. rewrite El. unfold hq_items. rewrite Es. apply in_or_app. right. apply in_or_app. auto. }
  destruct Hgen as [Hi [Hl Hid]].
  assert (Hst : aget (store s) r <> None).
  { apply B1. unfold phk, gk. gs. destruct (k =? k); simpl; rewrite occ_app; apply occ_In in Hi; lia. }
  destruct (aget (store s) r) as [l|] eqn:Hr; [|congruence].
  rewrite (getl_some _ _ _ Hr) in *.
  assert (Hi' : In r (holders (getm s k))) by (rewrite (getm_some _ _ _ Hm); auto).
  destruct (holder_timeouted s _ k r l G Hi' Hr) as [T K].
  exists l. repeat split; auto.
  pose proof (proj1 (occ_nodup _) B4 r). apply occ_In in Hi. lia.
Qed.

(* The replay of update_and_rearm_ginv (Engine/InvSteps.v) and of InvLock / InvUnlock / InvSweep is still to be done. *)
