(* Run-level expiry theorems (property C06), UPPER BOUND, part 6: regular schedules.
   eregular ph acts : one-second ticks only; an EXPIRY sweep between any two ticks (ph = true: the current second has
   been swept, a tick may follow); requests (core commands WITHOUT the un-renew flag 0x100 of the timeout flags) and
   timeout sweeps anywhere; the node is leader throughout (only `ARole true` is allowed); no acknowledgements.
   RL X ph s : RX (heap invariant, refcount floor, long-table integrity) /\ leader /\ EW X (checkE s) s /\ the sweeper
   is not behind (ph = true) or at most one second behind (ph = false).
   It holds in init_db t0 and is preserved by every action of a regular history, provided no Lock request addresses
   (for an update / re-entrant re-lock) a record outside X. *)
From Coq Require Import String ZifyN ZifyBool ZifyNat.
From Slock Require Import Engine.Types Engine.Queues Engine.Timers Engine.Engine Engine.Engine2 Engine.InvDef Engine.InvBase
  Engine.InvPrims Engine.InvRec Engine.InvWheel Engine.InvQueue Engine.InvQueue2 Engine.InvSteps Engine.InvLockDefs Engine.InvLock
  Engine.InvUnlock Engine.InvSweep Engine.InvMain Engine.InvNext Engine.InvProps.
From Slock Require Import Engine.RunDrainFloor Engine.RunDrainFloor2 Engine.RunDrainFloor5.
From Slock Require Import Engine.LocalBase Engine.TimeBase Engine.TimeExp Engine.TimeRun Engine.TimeEvents Engine.TimeFinal.
From Slock Require Import Engine.RunExpScal Engine.RunExpK Engine.RunExpSteps Engine.RunExpSteps2 Engine.RunExpThm Engine.RunExpRun.
From Slock Require Import Engine.RunLateFr Engine.RunLateInv Engine.RunLateSteps Engine.RunLateSteps2 Engine.RunLateSweep.
Open Scope N_scope.

Ltac Zify.zify_post_hook ::= Z.div_mod_to_equations.

Fixpoint eregular (swept : bool) (acts : list action) : Prop :=
  match acts with
  | [] => True
  | AReq _ c :: rest => cmd_core_b c = true /\ has (c_tflag c) TF_UNRENEW = false /\ eregular swept rest
  | AAdvance k :: rest => k = 1%Z /\ swept = true /\ eregular false rest
  | ASweepE :: rest => eregular true rest
  | ASweepT :: rest => eregular swept rest
  | ARole b :: rest => b = true /\ eregular swept rest
  | AAck _ _ :: _ => False
  end.

Lemma eregular_core : forall acts ph, eregular ph acts -> Forall (fun a => InvDef.core_action a = true) acts.
Proof.
  induction acts as [|a rest IH]; intros ph R; [constructor|].
  destruct a as [conn c|k| | |r ok|b]; cbn in R.
  - destruct R as (A & _ & R). constructor; eauto.
  - destruct R as (-> & _ & R). constructor; [reflexivity|eauto].
  - constructor; [reflexivity|eauto].
  - constructor; [reflexivity|eauto].
  - destruct R.
  - destruct R as (_ & R). constructor; [reflexivity|eauto].
Qed.

(* no Lock request addresses a record outside X for an update / re-lock that shortens its deadline *)
Definition TG (X : ref -> Prop) (p : db * action) : Prop :=
  match snd p with
  | AReq conn c => c_lock c = true -> forall r, lock_target (fst p) c = Some r ->
                   X r \/ forall l, aget (store (fst p)) r = Some l -> nd_cmd (now (fst p)) c l
  | _ => True
  end.

Record RL (X : ref -> Prop) (ph : bool) (s : db) : Prop := mkRL {
  rl_rx : RX s;
  rl_ld : leader s = true;
  rl_ew : EWc X (checkE s) s;
  rl_ph : if ph then (now s <= checkE s)%Z else (now s <= checkE s + 1)%Z
}.

Lemma RL_init X t0 a : (0 <= t0)%Z -> RL X true (init_db t0 a).
Proof.
  intros H. constructor; [apply RX_init; auto|reflexivity| |cbn; lia].
  split; [apply EW_init|cbn; lia].
Qed.

Lemma RL_step X ph s a rest :
  RL X ph s -> eregular ph (a :: rest) -> next s < MAXREC -> TG X (s, a) ->
  exists ph', RL X ph' (fst (step s a)) /\ eregular ph' rest.
Proof.
  intros [R Ld E P] Rg Hb Tg.
  assert (CA : InvDef.core_action a = true) by (apply eregular_core in Rg; inversion Rg; auto).
  pose proof (RX_step s a R CA Hb) as R'.
  destruct R as [G HJ K C].
  destruct a as [conn c|k| | |x ok|b]; cbn [eregular] in Rg.
  - (* request *)
    destruct Rg as (Cb & Hn & Rg). exists ph. split; [|exact Rg].
    pose proof (ce_req s conn c) as CE. pose proof (nw_req s conn c) as NO. pose proof (ld_req s conn c) as LD.
    constructor; [exact R'|congruence| |rewrite CE, NO; exact P]. rewrite CE.
    apply cmd_core_b_iff in Cb. pose proof (inv_gk s (c_key c) G) as G1. cbn [step]. cbn [TG fst snd] in Tg.
    destruct (c_lock c) eqn:CL.
    + pose proof (lock_step_ginv s [] [] conn c G1 Cb Hb) as RO.
      pose proof (lock_step_EW X (checkE s) s [] [] conn c G1 Cb Hn Hb E K (XL_of_JR _ _ HJ) (Tg eq_refl)) as A.
      destruct (lock_step s conn c) as [[s1 ev] w]. destruct RO as [R1 R2]. cbn [fst snd] in *.
      eapply finish_EW; eauto.
    + pose proof (unlock_step_ginv s [] [] conn c G1 (proj2 (proj2 (proj2 Cb)))) as RO.
      pose proof (EWc_wfr _ _ _ _ E (unlock_step_wfr s conn c (proj2 (proj2 (proj2 Cb))))) as A.
      destruct (unlock_step s conn c) as [[s1 ev] w]. destruct RO as [R1 R2]. cbn [fst snd] in *.
      eapply finish_EW; eauto.
  - (* tick *)
    destruct Rg as (-> & -> & Rg). exists false. split; [|exact Rg]. cbn [step fst] in *.
    constructor; [exact R'|exact Ld| |cbn; lia].
    destruct E as [E1 E2]. split; [apply (EW_view X _ s); auto; cbn; lia|cbn; lia].
  - (* timeout sweep *)
    exists ph. split; [|exact Rg]. cbn [step] in *. unfold sweep_timeouts in *.
    set (s0 := s <| checkT := (now s + 1)%Z |>) in *.
    assert (G0 : Inv s0) by (apply (inv_scalar s); auto).
    assert (E0 : EWc X (checkE s) s0) by (eapply EWc_wfr; [exact E|apply (wfr_view s s); try reflexivity; apply wfr_refl]).
    pose proof (sweep_t_secs_EW X (checkE s) (Z.to_nat (now s + 1 - checkT s)) s0 (checkT s) (now s) G0 E0) as A.
    pose proof (ce_sweep_t_secs (Z.to_nat (now s + 1 - checkT s)) s0 (checkT s) (now s)) as CE.
    pose proof (nw_sweep_t_secs (Z.to_nat (now s + 1 - checkT s)) s0 (checkT s) (now s)) as NO.
    pose proof (ld_sweep_t_secs (Z.to_nat (now s + 1 - checkT s)) s0 (checkT s) (now s)) as LD.
    change (checkE s0) with (checkE s) in CE. change (now s0) with (now s) in NO. change (leader s0) with (leader s) in LD.
    constructor; [exact R'|congruence|rewrite CE; exact A|rewrite CE, NO; exact P].
  - (* expiry sweep *)
    exists true. split; [|exact Rg]. cbn [step] in *.
    assert (LAG : (now s < checkE s + 7)%Z) by (destruct ph; lia).
    destruct (sweep_expiries_late X s G K E ltac:(lia) LAG Ld) as [A _].
    assert (CE : checkE (fst (sweep_expiries s)) = (now s + 1)%Z) by (unfold sweep_expiries; rewrite ce_sweep_e_secs; reflexivity).
    assert (NO : now (fst (sweep_expiries s)) = now s) by (unfold sweep_expiries; rewrite nw_sweep_e_secs; reflexivity).
    assert (LD : leader (fst (sweep_expiries s)) = leader s) by (unfold sweep_expiries; rewrite ld_sweep_e_secs; reflexivity).
    constructor; [exact R'|congruence|rewrite CE; exact A|rewrite CE, NO; lia].
  - destruct Rg.
  - destruct Rg as (-> & Rg). exists ph. split; [|exact Rg]. cbn [step fst] in *.
    constructor; [exact R'|reflexivity| |exact P].
    destruct E as [E1 E2]. split; [apply (EW_view X _ s); auto; cbn; lia|exact E2].
Qed.

Lemma RL_run X : forall acts ph s,
  RL X ph s -> eregular ph acts -> bounded_run s acts -> Forall (TG X) (run_states s acts) ->
  (forall s' a, In (s', a) (run_states s acts) -> exists ph', RL X ph' s')
  /\ exists ph', RL X ph' (fst (run s acts)).
Proof.
  induction acts as [|a rest IH]; intros ph s R Rg Hb Tg; cbn [run_states] in *.
  - split; [intros ? ? []|]. exists ph. exact R.
  - destruct Hb as [Hb1 Hb2]. inversion Tg as [|? ? T1 T2]; subst.
    destruct (RL_step X ph s a rest R Rg Hb1 T1) as (ph' & R1 & Rg1).
    destruct (IH ph' _ R1 Rg1 Hb2 T2) as [A B]. rewrite run_fst_cons. split; [|exact B].
    intros s' a' [[= <- <-]|I]; eauto.
Qed.

Definition late_run (t0 : Z) (aoft : N) (acts : list action) : Prop :=
  (0 <= t0)%Z /\ eregular true acts /\ N.of_nat (length acts) + 1 < MAXREC.

Lemma late_run_core t0 aoft acts : late_run t0 aoft acts -> core acts.
Proof. intros (_ & R & L). split; [eapply eregular_core; eauto|exact L]. Qed.

Lemma late_states X t0 aoft acts :
  late_run t0 aoft acts -> Forall (TG X) (run_states (init_db t0 aoft) acts) ->
  (forall s a, In (s, a) (run_states (init_db t0 aoft) acts) -> exists ph, RL X ph s)
  /\ exists ph, RL X ph (fst (run (init_db t0 aoft) acts)).
Proof.
  intros LR Tg. pose proof (late_run_core _ _ _ LR) as Hc. destruct LR as (H0 & R & L).
  destruct (core_core_run t0 aoft acts Hc) as [_ Hb].
  apply (RL_run X acts true); auto. apply RL_init; auto.
Qed.

Lemma TG_all s acts : Forall (TG (fun _ => True)) (run_states s acts).
Proof. apply Forall_forall. intros [s' a] _. unfold TG. cbn. destruct a; auto. Qed.

(* ---------------------------------------------------------------- (1) placement *)
Theorem late_placement t0 aoft acts :
  late_run t0 aoft acts ->
  forall s, (s = fst (run (init_db t0 aoft) acts) \/ exists a, In (s, a) (run_states (init_db t0 aoft) acts)) ->
  leader s = true /\ (now s <= checkE s + 1)%Z /\ (checkE s <= now s + 1)%Z
  /\ (forall k r l, In r (wheel_get (ewheel s) k) -> elive s r l ->
        exists d, slot_of d = k /\ (checkE s <= d <= now s + 9)%Z /\ ((d <= l_eT l + 8)%Z \/ (MAXT <= l_eT l)%Z))
  /\ (forall kk r l, In r (wheel_get (elong s) kk) -> elive s r l ->
        lkey (l_eT l) = kk /\ ((checkE s <= l_eT l)%Z \/ (MAXT <= l_eT l)%Z)).
Proof.
  intros LR s Hs. destruct (late_states (fun _ => True) t0 aoft acts LR (TG_all _ _)) as [A B].
  assert (exists ph, RL (fun _ => True) ph s) as (ph & [R Ld [E C] P]).
  { destruct Hs as [->|(a & I)]; [exact B|eapply A; eauto]. }
  split; [exact Ld|]. split; [destruct ph; lia|]. split; [lia|]. split.
  - intros k r l I LV. destruct (ew_wh _ _ _ E k r l I LV) as (d & D1 & D2 & D3 & D4).
    exists d. split; auto. split; [lia|]. pose proof (ew_st _ _ _ E r l LV) as [S|S]; [right; exact S|].
    destruct D4 as [D4|[D4|[_ D4]]]; [left; lia|right; exact D4|left; lia].
  - intros kk r l I LV. split; [|apply (ew_lg _ _ _ E kk r l I LV)].
    destruct LV as [G L]. apply (kl_e2 _ (rx_kl _ R) kk r l I G L).
Qed.

(* ---------------------------------------------------------------- (3) the general bound at the doExpried calls *)
Theorem late_after_update t0 aoft acts :
  late_run t0 aoft acts ->
  forall s, In (s, ASweepE) (run_states (init_db t0 aoft) acts) ->
  forall s' r l, In (s', r) (expiry_calls s) -> elive s' r l -> (l_eT l < MAXT)%Z ->
  (l_eT l <= now s)%Z /\ (checkE s <= l_eT l + 8)%Z /\ (now s <= checkE s + 1)%Z.
Proof.
  intros LR s I s' r l Ic LV Fin. destruct (late_states (fun _ => True) t0 aoft acts LR (TG_all _ _)) as [A _].
  destruct (A s _ I) as (ph & [[G HJ K C] Ld E P]).
  assert (LAG : (now s < checkE s + 7)%Z) by (destruct ph; lia).
  destruct (sweep_expiries_late (fun _ => True) s G K E ltac:(lia) LAG Ld) as [_ B].
  destruct (B s' r l Ic LV) as [D1 D2]. split; [exact D1|]. split; [|destruct ph; lia].
  destruct D2 as [D2|[D2|[_ D2]]]; lia.
Qed.

(* ---------------------------------------------------------------- (2) a hold whose deadline was never shortened *)
Definition never_addressed (r0 : ref) (s0 : db) (acts : list action) : Prop :=
  forall s conn c, In (s, AReq conn c) (run_states s0 acts) -> c_lock c = true -> lock_target s c <> Some r0.
(* weaker: every Lock request that addresses r0 (update / re-entrant re-lock) sets a deadline >= the current one *)
Definition never_shortened (r0 : ref) (s0 : db) (acts : list action) : Prop :=
  forall s conn c, In (s, AReq conn c) (run_states s0 acts) -> c_lock c = true -> lock_target s c = Some r0 ->
  forall l, aget (store s) r0 = Some l -> nd_cmd (now s) c l.

Lemma never_addressed_shortened r0 s0 acts : never_addressed r0 s0 acts -> never_shortened r0 s0 acts.
Proof. intros H s conn c I CL T. exfalso. exact (H s conn c I CL T). Qed.

Lemma TG_never r0 s0 acts : never_shortened r0 s0 acts -> Forall (TG (fun r => r <> r0)) (run_states s0 acts).
Proof.
  intros H. apply Forall_forall. intros [s a] I. unfold TG. cbn [fst snd]. destruct a as [conn c| | | | |]; auto.
  intros CL r T. destruct (N.eq_dec r r0) as [->|NE]; [right; exact (H s conn c I CL T)|left; exact NE].
Qed.

Theorem late_not_updated t0 aoft acts r0 :
  late_run t0 aoft acts -> never_shortened r0 (init_db t0 aoft) acts ->
  forall s, In (s, ASweepE) (run_states (init_db t0 aoft) acts) ->
  forall s' l, In (s', r0) (expiry_calls s) -> elive s' r0 l -> (l_eT l < MAXT)%Z ->
  (checkE s <= l_eT l <= now s)%Z /\ (now s <= checkE s + 1)%Z.
Proof.
  intros LR NA s I s' l Ic LV Fin.
  destruct (late_states (fun r => r <> r0) t0 aoft acts LR (TG_never _ _ _ NA)) as [A _].
  destruct (A s _ I) as (ph & [[G HJ K C] Ld E P]).
  assert (LAG : (now s < checkE s + 7)%Z) by (destruct ph; lia).
  destruct (sweep_expiries_late (fun r => r <> r0) s G K E ltac:(lia) LAG Ld) as [_ B].
  destruct (B s' r0 l Ic LV) as [D1 D2]. split; [|destruct ph; lia].
  destruct D2 as [D2|[D2|[D2 _]]]; [lia|lia|congruence].
Qed.

(* ... and such a hold never survives its deadline: while it is held, the sweeper has not passed its deadline *)
Theorem late_not_updated_gone t0 aoft acts r0 :
  late_run t0 aoft acts -> never_shortened r0 (init_db t0 aoft) acts ->
  forall s, (s = fst (run (init_db t0 aoft) acts) \/ exists a, In (s, a) (run_states (init_db t0 aoft) acts)) ->
  forall l, aget (store s) r0 = Some l -> 0 < l_locked l ->
  l_expried l = false /\ ((checkE s <= l_eT l)%Z \/ (MAXT <= l_eT l)%Z).
Proof.
  intros LR NA s Hs l G0 Hd.
  destruct (late_states (fun r => r <> r0) t0 aoft acts LR (TG_never _ _ _ NA)) as [A B].
  assert (exists ph, RL (fun r => r <> r0) ph s) as (ph & [[G HJ K C] Ld [E C2] P]).
  { destruct Hs as [->|(a & I)]; [exact B|eapply A; eauto]. }
  destruct (HJ r0 l G0) as (_ & J2 & J3).
  assert (L : l_expried l = false) by (destruct (l_expried l); auto; specialize (J3 eq_refl); lia).
  split; [exact L|].
  destruct (J2 Hd) as [[k I]|[[kk I]|[]]].
  - destruct (ew_wh _ _ _ E k r0 l I (conj G0 L)) as (d & D1 & D2 & D3 & D4).
    destruct D4 as [D4|[D4|[D4 _]]]; [left; lia|right; exact D4|congruence].
  - apply (ew_lg _ _ _ E kk r0 l I (conj G0 L)).
Qed.

(* ---------------------------------------------------------------- (4) nothing is lost *)
Theorem late_nothing_lost t0 aoft acts :
  late_run t0 aoft acts ->
  forall s, (s = fst (run (init_db t0 aoft) acts) \/ exists a, In (s, a) (run_states (init_db t0 aoft) acts)) ->
  forall r l, aget (store s) r = Some l -> 0 < l_locked l ->
  l_expried l = false /\ ((checkE s <= l_eT l + 8)%Z \/ (MAXT <= l_eT l)%Z) /\ (now s <= checkE s + 1)%Z.
Proof.
  intros LR s Hs r l G0 Hd.
  destruct (late_states (fun _ => True) t0 aoft acts LR (TG_all _ _)) as [A B].
  assert (exists ph, RL (fun _ => True) ph s) as (ph & [[G HJ K C] Ld [E C2] P]).
  { destruct Hs as [->|(a & I)]; [exact B|eapply A; eauto]. }
  destruct (HJ r l G0) as (_ & J2 & J3).
  assert (L : l_expried l = false) by (destruct (l_expried l); auto; specialize (J3 eq_refl); lia).
  split; [exact L|]. split; [|destruct ph; lia].
  pose proof (ew_st _ _ _ E r l (conj G0 L)) as [S|S]; [right; exact S|].
  destruct (J2 Hd) as [[k I]|[[kk I]|[]]].
  - destruct (ew_wh _ _ _ E k r l I (conj G0 L)) as (d & D1 & D2 & D3 & D4).
    destruct D4 as [D4|[D4|[_ D4]]]; [left; lia|right; exact D4|left; lia].
  - destruct (ew_lg _ _ _ E kk r l I (conj G0 L)) as [D|D]; [left; lia|right; exact D].
Qed.

(* ---------------------------------------------------------------- executable hypotheses (for concrete histories) *)
Fixpoint never_addressed_b (r0 : ref) (s : db) (acts : list action) : bool :=
  match acts with
  | [] => true
  | a :: rest =>
      (match a with
       | AReq _ c => if c_lock c then match lock_target s c with Some r => negb (r =? r0) | None => true end else true
       | _ => true
       end) && never_addressed_b r0 (fst (step s a)) rest
  end.

Lemma never_addressed_b_sound r0 : forall acts s, never_addressed_b r0 s acts = true -> never_addressed r0 s acts.
Proof.
  induction acts as [|a rest IH]; intros s H s' conn c I CL; cbn [run_states] in I; [destruct I|].
  cbn [never_addressed_b] in H. apply andb_true_iff in H. destruct H as [H1 H2].
  destruct I as [I|I]; [|eapply IH; eauto].
  injection I as -> ->. rewrite CL in H1. intros T. rewrite T in H1. rewrite N.eqb_refl in H1. discriminate.
Qed.

Definition nd_cmd_b (nowv : Z) (c : cmd) (l : lockrec) : bool :=
  if negb (has (c_eflag c) EF_UNLIMITED) || (c_expried c <? 65535) then (l_eT l <=? expiry_deadline c nowv)%Z else true.

Fixpoint never_shortened_b (r0 : ref) (s : db) (acts : list action) : bool :=
  match acts with
  | [] => true
  | a :: rest =>
      (match a with
       | AReq _ c =>
           if c_lock c then
             match lock_target s c with
             | Some r => if r =? r0 then match aget (store s) r0 with Some l => nd_cmd_b (now s) c l | None => true end else true
             | None => true
             end
           else true
       | _ => true
       end) && never_shortened_b r0 (fst (step s a)) rest
  end.

Lemma never_shortened_b_sound r0 : forall acts s, never_shortened_b r0 s acts = true -> never_shortened r0 s acts.
Proof.
  induction acts as [|a rest IH]; intros s H s' conn c I CL T l G; cbn [run_states] in I; [destruct I|].
  cbn [never_shortened_b] in H. apply andb_true_iff in H. destruct H as [H1 H2].
  destruct I as [I|I]; [|eapply IH; eauto].
  injection I as -> ->. rewrite CL, T, N.eqb_refl, G in H1. unfold nd_cmd_b in H1. intros EB. rewrite EB in H1.
  apply Z.leb_le. exact H1.
Qed.

Fixpoint eregular_b (swept : bool) (acts : list action) : bool :=
  match acts with
  | [] => true
  | AReq _ c :: rest => cmd_core_b c && negb (has (c_tflag c) TF_UNRENEW) && eregular_b swept rest
  | AAdvance k :: rest => (k =? 1)%Z && swept && eregular_b false rest
  | ASweepE :: rest => eregular_b true rest
  | ASweepT :: rest => eregular_b swept rest
  | ARole b :: rest => b && eregular_b swept rest
  | AAck _ _ :: _ => false
  end.

Lemma eregular_b_sound : forall acts ph, eregular_b ph acts = true -> eregular ph acts.
Proof.
  induction acts as [|a rest IH]; intros ph H; [exact I|].
  destruct a as [conn c|k| | |r ok|b]; cbn [eregular_b eregular] in *.
  - apply andb_true_iff in H. destruct H as [H H3]. apply andb_true_iff in H. destruct H as [H1 H2].
    apply negb_true_iff in H2. auto.
  - apply andb_true_iff in H. destruct H as [H H3]. apply andb_true_iff in H. destruct H as [H1 H2].
    apply Z.eqb_eq in H1. auto.
  - auto.
  - auto.
  - discriminate.
  - apply andb_true_iff in H. destruct H as [H1 H2]. auto.
Qed.

Lemma late_run_b t0 aoft acts :
  ((0 <=? t0)%Z && eregular_b true acts && (N.of_nat (length acts) + 1 <? MAXREC)) = true -> late_run t0 aoft acts.
Proof.
  intros H. apply andb_true_iff in H. destruct H as [H H3]. apply andb_true_iff in H. destruct H as [H1 H2].
  split; [apply Z.leb_le; exact H1|]. split; [apply eregular_b_sound; exact H2|apply N.ltb_lt; exact H3].
Qed.

(* ---------------------------------------------------------------- the sweeper never lags after its first sweep *)
(* scalar phases: fs = an expiry sweep has happened *)
Definition lagph (ph fs : bool) (s : db) : Prop :=
  match ph, fs with
  | true, false => (now s <= checkE s)%Z
  | true, true => (now s + 1 <= checkE s)%Z
  | false, false => (now s <= checkE s + 1)%Z
  | false, true => (now s <= checkE s)%Z
  end.

Lemma lagph_step ph fs s a rest :
  lagph ph fs s -> eregular ph (a :: rest) ->
  exists ph', lagph ph' (match a with ASweepE => true | _ => fs end) (fst (step s a)) /\ eregular ph' rest.
Proof.
  intros P Rg. destruct a as [conn c|k| | |x ok|b]; cbn [eregular] in Rg.
  - destruct Rg as (_ & _ & Rg). exists ph. split; [|exact Rg]. unfold lagph. rewrite ce_req, nw_req. exact P.
  - destruct Rg as (-> & -> & Rg). exists false. split; [|exact Rg]. cbn [step fst]. destruct fs; cbn in *; lia.
  - exists ph. split; [|exact Rg]. cbn [step]. unfold sweep_timeouts, lagph. rewrite ce_sweep_t_secs, nw_sweep_t_secs. exact P.
  - exists true. split; [|exact Rg]. cbn [step]. unfold sweep_expiries, lagph. rewrite ce_sweep_e_secs, nw_sweep_e_secs. cbn. lia.
  - destruct Rg.
  - destruct Rg as (_ & Rg). exists ph. split; [|exact Rg]. exact P.
Qed.

Lemma lagph_run : forall pre ph fs s, lagph ph fs s -> forall suf, eregular ph (pre ++ suf) ->
  exists ph', lagph ph' (fs || existsb (fun a => match a with ASweepE => true | _ => false end) pre) (fst (run s pre))
              /\ eregular ph' suf.
Proof.
  induction pre as [|a rest IH]; intros ph fs s P suf Rg.
  - exists ph. cbn. rewrite orb_false_r. auto.
  - cbn [app] in Rg. destruct (lagph_step ph fs s a (rest ++ suf) P Rg) as (ph' & P1 & Rg1).
    destruct (IH ph' _ _ P1 suf Rg1) as (ph'' & P2 & Rg2). exists ph''. rewrite run_fst_cons. split; [|exact Rg2].
    cbn [existsb]. destruct a; cbn [orb] in *; rewrite ?orb_true_r in *; exact P2.
Qed.

(* every state reached by a prefix that contains an expiry sweep: the sweeper is not behind server time *)
Theorem late_no_lag t0 aoft pre suf :
  late_run t0 aoft (pre ++ suf) -> In ASweepE pre ->
  (now (fst (run (init_db t0 aoft) pre)) <= checkE (fst (run (init_db t0 aoft) pre)))%Z.
Proof.
  intros (H0 & Rg & _) I.
  destruct (lagph_run pre true false (init_db t0 aoft) ltac:(cbn; lia) suf Rg) as (ph & P & _).
  assert (E : existsb (fun a => match a with ASweepE => true | _ => false end) pre = true).
  { apply existsb_exists. exists ASweepE. split; auto. }
  rewrite E in P. cbn [orb] in P. destruct ph; cbn in P; lia.
Qed.

Lemma run_states_mid : forall pre s0 a suf, In (fst (run s0 pre), a) (run_states s0 (pre ++ a :: suf)).
Proof.
  induction pre as [|b rest IH]; intros s0 a suf; cbn [app run_states].
  - left. reflexivity.
  - right. rewrite run_fst_cons. apply IH.
Qed.

(* (2), exact form: every expiry sweep that is not the first one of the history hands a never-addressed hold with a
   finite deadline to doExpried at server time = deadline, exactly *)
Theorem late_not_updated_exact t0 aoft pre suf r0 :
  late_run t0 aoft (pre ++ ASweepE :: suf) -> never_shortened r0 (init_db t0 aoft) (pre ++ ASweepE :: suf) ->
  In ASweepE pre ->
  forall s' l, In (s', r0) (expiry_calls (fst (run (init_db t0 aoft) pre))) -> elive s' r0 l -> (l_eT l < MAXT)%Z ->
  now (fst (run (init_db t0 aoft) pre)) = l_eT l.
Proof.
  intros LR NA I s' l Ic LV Fin.
  pose proof (late_no_lag t0 aoft pre (ASweepE :: suf) LR I) as NL.
  destruct (late_not_updated t0 aoft _ r0 LR NA _ (run_states_mid pre _ ASweepE suf) s' l Ic LV Fin) as [A B]. lia.
Qed.

(* (3), sharp form: ... and any hold with a finite deadline no later than 8 seconds after its current deadline *)
Theorem late_after_update_exact t0 aoft pre suf :
  late_run t0 aoft (pre ++ ASweepE :: suf) -> In ASweepE pre ->
  forall s' r l, In (s', r) (expiry_calls (fst (run (init_db t0 aoft) pre))) -> elive s' r l -> (l_eT l < MAXT)%Z ->
  (l_eT l <= now (fst (run (init_db t0 aoft) pre)) <= l_eT l + 8)%Z.
Proof.
  intros LR I s' r l Ic LV Fin.
  pose proof (late_no_lag t0 aoft pre (ASweepE :: suf) LR I) as NL.
  destruct (late_after_update t0 aoft _ LR _ (run_states_mid pre _ ASweepE suf) s' r l Ic LV Fin) as (A & B & C). lia.
Qed.

(* event level: every EXPRIED reply of an expiry sweep of a regular run is the reply of a doExpried call on a live hold
   whose deadline has been reached (RunExpRun.expiry_never_early_core) and, if finite, lies at most 8 seconds before
   the second the sweeper started from *)
Theorem late_expried_reply t0 aoft acts :
  late_run t0 aoft acts ->
  forall s, In (s, ASweepE) (run_states (init_db t0 aoft) acts) ->
  forall e, In e (snd (step s ASweepE)) -> is_er e = true ->
  exists s' r l lc lrc d, In (s', r) (expiry_calls s) /\ elive s' r l
    /\ e = reply (l_conn l) (l_cmd l) R_EXPRIED lc lrc d /\ (l_eT l <= now s)%Z
    /\ ((l_eT l < MAXT)%Z -> (checkE s <= l_eT l + 8)%Z /\ (now s <= checkE s + 1)%Z).
Proof.
  intros LR s I e Ie Er. pose proof LR as (H0 & _ & _).
  destruct (expiry_never_early_core t0 aoft acts H0 (late_run_core _ _ _ LR) s I e Ie Er) as (s' & r & l & lc & lrc & d & Ic & LV & EQ & NE).
  exists s', r, l, lc, lrc, d. split; [exact Ic|]. split; [exact LV|]. split; [exact EQ|]. split; [exact NE|].
  intros Fin. destruct (late_after_update t0 aoft acts LR s I s' r l Ic LV Fin) as (A & B & C). auto.
Qed.
