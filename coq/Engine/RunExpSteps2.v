(* Run-level expiry theorems (property C06), part 3: KL is preserved by LockDB.UnLock, doTimeOut, doExpried, both
   sweepers, hence by every core action and along every core run. *)
From Coq Require Import String ZifyN ZifyBool ZifyNat.
From Slock Require Import Engine.Types Engine.Queues Engine.Timers Engine.Engine Engine.Engine2 Engine.InvDef Engine.InvBase
  Engine.InvPrims Engine.InvRec Engine.InvWheel Engine.InvQueue Engine.InvQueue2 Engine.InvSteps Engine.InvLockDefs Engine.InvLock
  Engine.InvUnlock Engine.InvSweep Engine.InvMain Engine.InvProps.
From Slock Require Import Engine.LocalBase Engine.LocalWake Engine.TimeBase Engine.TimeExp Engine.RunExpK Engine.RunExpSteps.
Open Scope N_scope.

(* ---------------------------------------------------------------- cancelWaitLock *)
Lemma find_last_waiter_live s items id : forall acc r, find_last_waiter s items id acc = Some r ->
  acc = Some r \/ l_timeouted (getl s r) = false.
Proof.
  induction items as [|x t IH]; intros acc r H; simpl in H; [auto|].
  destruct (negb (l_timeouted (getl s x)) && (c_lockid (l_cmd (getl s x)) =? id)) eqn:E.
  - destruct (IH _ _ H) as [X|X]; [|auto]. inversion X; subst. right.
    apply andb_true_iff in E. destruct E as [E _]. apply negb_true_iff in E. exact E.
  - eauto.
Qed.

Lemma live_stored s r : l_timeouted (getl s r) = false -> exists l, aget (store s) r = Some l /\ l_timeouted l = false.
Proof. unfold getl. destruct (aget (store s) r) as [l|]; [eauto|discriminate]. Qed.

Lemma cancel_wait_lock_KL s conn c : KL s -> KL (fst (fst (cancel_wait_lock s conn c))).
Proof.
  intros K. unfold cancel_wait_lock. cbv zeta.
  destruct (match m_wait (getm s (c_key c)) with Some q => find_last_waiter s (wq_items q) (c_lockid c) None | None => None end)
    as [r|] eqn:Ew; [|cbn [fst]; eapply KL_kfr; [exact K|kf]].
  assert (Hl : l_timeouted (getl s r) = false).
  { destruct (m_wait (getm s (c_key c))); [|discriminate]. destruct (find_last_waiter_live _ _ _ _ _ Ew); [discriminate|auto]. }
  destruct (live_stored s r Hl) as (l & G & T).
  change (if l_long (getl s r) then remove_long_timeout (updl s r (fun l0 => l0 <| l_timeouted := true |>)) r
          else updl s r (fun l0 => l0 <| l_timeouted := true |>)) with (kill s r).
  pose proof (KL_kill s r l K G T) as K1. set (s1 := kill s r) in *. clearbody s1.
  destruct (0 <? l_locked (getl s r)).
  - destruct (l_isaof _); [destruct (push_unlock_aof _ _ _ _ _ _ _) as [s2 aev] eqn:E|]; cbn [fst];
      (eapply KL_kfr; [exact K1|kf]).
  - destruct (get_wait_lock s1 (c_key c)) as [s2 w] eqn:E. cbn [fst]. eapply KL_kfr; [exact K1|kf].
Qed.

(* ---------------------------------------------------------------- UnLock *)
Lemma KL_expire s r : KL s -> KL (updl s r (fun l => l <| l_expried := true |>)).
Proof.
  intros K. unfold updl. destruct (aget (store s) r) as [l|] eqn:G; [|exact K].
  pose proof K as [K1 K2 K3]. constructor.
  - intros kk x lx I Gx. change (tlong (setl s r (l <| l_expried := true |>))) with (tlong s) in I. rewrite aget_setl in Gx.
    destruct (r =? x) eqn:E; [apply N.eqb_eq in E; subst x; injection Gx as <-; cbn; eauto|eauto].
  - intros kk x lx I Gx. change (elong (setl s r (l <| l_expried := true |>))) with (elong s) in I. rewrite aget_setl in Gx.
    destruct (r =? x) eqn:E; [apply N.eqb_eq in E; subst x; injection Gx as <-; cbn; eauto|eauto].
  - intros kk x lx I Gx Ex. change (elong (setl s r (l <| l_expried := true |>))) with (elong s) in I. rewrite aget_setl in Gx.
    destruct (r =? x) eqn:E; [apply N.eqb_eq in E; subst x; injection Gx as <-; discriminate Ex|eauto].
Qed.

Lemma release_hold_KL s k conn c r depth :
  KL s -> (forall l, aget (store s) r = Some l -> l_timeouted l = true) -> c_data c = None ->
  KL (fst (release_hold s k conn c r depth)).
Proof.
  intros K T Hd. unfold release_hold. cbv zeta.
  set (s1 := updl s r (fun l => l <| l_expried := true |>)).
  assert (K1 : KL s1) by apply KL_expire, K.
  assert (P1 : forall l, aget (store s1) r = Some l -> l_timeouted l = true /\ (l_expried l = true \/ lkey (l_eT l) = lkey (l_eT (getl s1 r)))).
  { intros l' G'. unfold s1 in G'. rewrite aget_updl, N.eqb_refl in G'. destruct (aget (store s) r) as [l|] eqn:G; [|discriminate].
    cbn in G'. injection G' as <-. cbn. split; [apply (T l eq_refl)|auto]. }
  clearbody s1.
  assert (E : (if has_udata_flag c then process_data s1 k r c false else (s1, [])) = (s1, [])).
  { destruct (has_udata_flag c); [apply process_data_core; auto|reflexivity]. }
  rewrite E. cbv iota beta.
  destruct (l_long (getl s1 r)).
  - destruct (KL_remove_long_expried s1 r (l_eT (getl s1 r)) K1 P1) as [K2 _].
    set (s2 := remove_long_expried s1 r (l_eT (getl s1 r))) in *. clearbody s2.
    destruct (l_isaof (getl s2 r)); [destruct (push_unlock_aof _ _ _ _ _ _ _) as [s3 aev] eqn:E3|]; cbn [fst];
      (eapply KL_kfr; [exact K2|kf]).
  - destruct (l_isaof (getl s1 r)); [destruct (push_unlock_aof _ _ _ _ _ _ _) as [s3 aev] eqn:E3|]; cbn [fst];
      (eapply KL_kfr; [exact K1|kf]).
Qed.

Lemma ul_body_KL s conn c k r :
  KL s -> (forall l, aget (store s) r = Some l -> l_timeouted l = true) -> c_data c = None ->
  KL (fst (fst (ul_body s conn c k r))).
Proof.
  intros K T Hd. unfold ul_body. cbv zeta.
  assert (R : forall d f, KL (fst (release_hold (updm s k f) k conn c r d))).
  { intros d f. apply release_hold_KL; auto.
    - eapply KL_kfr; [exact K|kf].
    - intros l G. rewrite (tview_store _ _ (updm_tview _ _ _)) in G. auto. }
  destruct (1 <? l_locked (getl s r)).
  - destruct ((0 <? c_rcount c) && negb (has (c_tflag c) TF_PRIORITY)).
    + assert (E : forall x, (if has_udata_flag c then process_data x k r c false else (x, [])) = (x, [])).
      { intros x. destruct (has_udata_flag c); [apply process_data_core; auto|reflexivity]. }
      rewrite E. cbv iota beta.
      match goal with |- context [if l_isaof ?x then _ else _] => destruct (l_isaof x) end;
        [destruct (push_unlock_aof _ _ _ _ _ _ _) as [s3 aev] eqn:E3|]; cbn [fst]; (eapply KL_kfr; [exact K|kf]).
    + match goal with |- context [release_hold (updm s k ?f) k conn c r ?d] =>
        pose proof (R d f) as A; destruct (release_hold (updm s k f) k conn c r d) as [s2 ev] end. exact A.
  - match goal with |- context [release_hold (updm s k ?f) k conn c r ?d] =>
      pose proof (R d f) as A; destruct (release_hold (updm s k f) k conn c r d) as [s2 ev] end. exact A.
Qed.

Lemma unlock_step_KL s xt xe conn c :
  GInv s (gk xt xe (c_key c)) -> c_data c = None -> KL s -> KL (fst (fst (unlock_step s conn c))).
Proof.
  intros G Hd K. rewrite unlock_step_eq. cbv zeta. set (k := c_key c) in *.
  destruct (aget (mgrs s) k) as [m|] eqn:Hm; [|cbn [fst]; eapply KL_kfr; [exact K|kf]].
  assert (Herr : forall c0 code lrc, KL (fst (fst (ul_err conn k m s c0 code lrc)))).
  { intros. unfold ul_err. cbn [fst]. eapply KL_kfr; [exact K|kf]. }
  destruct (negb (leader s) && negb (has (c_flag c) UNLOCK_FLAG_FROM_AOF)); [apply Herr|].
  destruct (m_locked m =? 0).
  - destruct (has (c_flag c) UNLOCK_FLAG_CANCEL_WAIT); [apply cancel_wait_lock_KL; auto|apply Herr].
  - unfold ul_target. cbv zeta.
    destruct (get_locked_lock s m (c_lockid c)) as [r|] eqn:Eg.
    + destruct (get_locked_lock_spec s xt xe k m _ r G Hm Eg) as [l [Hr [Hkey [Hdp [Hid [Ht Hh]]]]]].
      destruct (negb (l_ack (getl s r) =? 255)); [apply Herr|].
      apply ul_body_KL; auto. intros l' G'. congruence.
    + destruct (has (c_flag c) UNLOCK_FLAG_FIRST).
      * destruct (m_cur m) as [cr|] eqn:Ec; [|apply Herr].
        destruct (negb (l_ack (getl s cr) =? 255)); [apply Herr|].
        apply ul_body_KL; auto.
        intros l' G'. assert (Hi : In cr (holders (getm s k))).
        { rewrite (getm_some _ _ _ Hm). unfold holders, cur_list. rewrite Ec. simpl. auto. }
        apply (holder_timeouted s _ k cr l' G Hi G').
      * destruct (has (c_flag c) UNLOCK_FLAG_CANCEL_WAIT); [apply cancel_wait_lock_KL; auto|apply Herr].
Qed.

(* ---------------------------------------------------------------- doTimeOut / doExpried on a reference held by a sweeper *)
Lemma do_timeout_KL s xe k0 r rest : GInv s (gk (r :: rest) xe k0) -> KL s -> KL (fst (fst (do_timeout s r))).
Proof.
  intros G K. destruct (stored_of_xt s _ r rest G eq_refl) as [l Hr].
  destruct (tl_zero_of_xt s _ r rest l G eq_refl Hr) as (_ & _ & _ & Z).
  unfold do_timeout. rewrite Hr.
  destruct (l_timeouted l) eqn:Et.
  - cbn [fst]. eapply KL_kfr; [exact K|kf].
  - cbv zeta. rewrite (updl_some _ _ _ _ Hr).
    set (s1 := setl s r (l <| l_timeouted := true |>)).
    assert (K1 : KL s1).
    { apply KL_setl_out; auto.
      - intros kk I. apply occ_In in I. rewrite Z in I. lia.
      - intros kk. eapply KL_live_not_elong; eauto. }
    clearbody s1.
    destruct (0 <? l_locked l).
    + destruct (has_data_flag (l_cmd l) && negb (l_ack l =? 255)).
      * destruct (process_recover_lock_data _ _) as [[cur' ld']| | |];
          match goal with |- context [if l_isaof ?x then _ else _] => destruct (l_isaof x) end;
          try (destruct (push_unlock_aof _ _ _ _ _ _ _) as [s3 aev] eqn:E3); cbn [fst]; (eapply KL_kfr; [exact K1|kf]).
      * match goal with |- context [if l_isaof ?x then _ else _] => destruct (l_isaof x) end;
          try (destruct (push_unlock_aof _ _ _ _ _ _ _) as [s3 aev] eqn:E3); cbn [fst]; (eapply KL_kfr; [exact K1|kf]).
    + destruct (get_wait_lock _ (l_key l)) as [s2 w] eqn:E. cbn [fst]. eapply KL_kfr; [exact K1|kf].
Qed.

Lemma do_expried_KL s xt k0 r rest : GInv s (gk xt (r :: rest) k0) -> KL s -> KL (fst (fst (do_expried s r))).
Proof.
  intros G K. destruct (stored_of_xe s _ r rest G eq_refl) as [l Hr].
  destruct (el_zero_of_xe s _ r rest l G eq_refl Hr) as (_ & _ & _ & Z).
  assert (NE : forall kk, ~ In r (wheel_get (elong s) kk)) by (intros kk I; apply occ_In in I; rewrite Z in I; lia).
  assert (Ht : l_timeouted l = true).
  { destruct (l_timeouted l) eqn:E; auto. destruct (ro_live _ _ _ _ (gi_rec _ _ G r l Hr) E) as [_ [Q _]].
    unfold ecount, gk in Q. gs. rewrite occ_cons_eq in Q. lia. }
  unfold do_expried. rewrite Hr.
  destruct (l_expried l) eqn:Ee.
  - cbn [fst]. eapply KL_kfr; [exact K|kf].
  - destruct (negb (leader s) && l_isaof l && ((l_eT l <=? 0)%Z || (now s - l_eT l <? EXPRIED_WAIT_LEADER_MAX_TIME)%Z)).
    + cbv zeta. rewrite (updl_some _ _ _ _ Hr).
      set (l1 := l <| l_eT := (now s + 30)%Z |>).
      assert (K1 : KL (setl s r l1)) by (apply KL_setl_out; auto; intros kk; eapply KL_dead_not_tlong; eauto).
      pose proof (KL_add_expried (setl s r l1) (l_key l) r K1 NE) as A.
      destruct (add_expried (setl s r l1) (l_key l) r) as [s2 aev]. cbn [fst] in *. apply A.
      intros l' G'. rewrite aget_setl, N.eqb_refl in G'. injection G' as <-. exact Ht.
    + cbv zeta.
      set (s1 := updl s r (fun l0 => l0 <| l_expried := true |>)).
      assert (K1 : KL s1) by apply KL_expire, K. clearbody s1.
      match goal with |- context [if l_isaof ?x then _ else _] => destruct (l_isaof x) end;
        try (destruct (push_unlock_aof _ _ _ _ _ _ _) as [s3 aev] eqn:E3); cbn [fst]; (eapply KL_kfr; [exact K1|kf]).
Qed.

Lemma fire_all_t_KL due : forall s xe k, GInv s (gk due xe k) -> KL s -> KL (fst (fire_all do_timeout s due)).
Proof.
  induction due as [|r rest IH]; intros s xe k G K; simpl; [exact K|].
  destruct (do_timeout_ginv s xe k r rest G) as [k1 [G1 Hw]].
  pose proof (do_timeout_KL s xe k r rest G K) as K1.
  destruct (do_timeout s r) as [[s1 e1] w] eqn:Ed. cbn [fst snd] in *.
  pose proof (finish_ginv s1 e1 w rest xe k1 G1 Hw) as G2.
  pose proof (finish_KL s1 e1 w rest xe k1 G1 Hw K1) as K2.
  destruct (finish (s1, e1, w)) as [s2 e2]. cbn [fst] in *.
  specialize (IH s2 xe k1 G2 K2). destruct (fire_all do_timeout s2 rest) as [s3 e3]. exact IH.
Qed.

Lemma fire_all_e_KL due : forall s xt k, GInv s (gk xt due k) -> KL s -> KL (fst (fire_all do_expried s due)).
Proof.
  induction due as [|r rest IH]; intros s xt k G K; simpl; [exact K|].
  destruct (do_expried_ginv s xt k r rest G) as [k1 [G1 Hw]].
  pose proof (do_expried_KL s xt k r rest G K) as K1.
  destruct (do_expried s r) as [[s1 e1] w] eqn:Ed. cbn [fst snd] in *.
  pose proof (finish_ginv s1 e1 w xt rest k1 G1 Hw) as G2.
  pose proof (finish_KL s1 e1 w xt rest k1 G1 Hw K1) as K2.
  destruct (finish (s1, e1, w)) as [s2 e2]. cbn [fst] in *.
  specialize (IH s2 xt k1 G2 K2). destruct (fire_all do_expried s2 rest) as [s3 e3]. exact IH.
Qed.

(* ---------------------------------------------------------------- the collecting halves of the sweepers *)
Lemma sweep_t_slot_GK fuel : forall s xe k slot nowv due,
  GInv s (gk due xe k) -> KL s -> KL (fst (sweep_t_slot fuel s slot nowv due)).
Proof.
  induction fuel as [|f IH]; intros s xe k slot nowv due G K; simpl; [exact K|].
  destruct (wheel_get (twheel s) slot) as [|r rest] eqn:Ew; [exact K|].
  pose proof (pop_t_ginv s _ slot r rest G Ew) as G1.
  set (s1 := s <| twheel := aset (twheel s) slot rest |>) in *.
  assert (K1 : KL s1) by (eapply KL_kfr; [exact K|kf]).
  assert (G1' : GInv s1 (gk (r :: due) xe k)) by (eapply ginv_geq; [exact G1|reflexivity]).
  assert (Gsn : GInv s1 (gk (due ++ [r]) xe k)).
  { eapply ginv_geq; [apply (ginv_perm_x s1 _ (due ++ [r]) xe G1'); [intros r0; apply occ_snoc|reflexivity]|reflexivity]. }
  destruct (aget (store s) r) as [l|] eqn:Hr0; [|exact K1].
  assert (Hr : aget (store s1) r = Some l) by exact Hr0.
  rewrite (getl_some _ _ _ Hr).
  destruct (l_timeouted l) eqn:Et; cbn [negb].
  - pose proof (unref_t_tail s1 xe k (l_key l) r due G1') as G2. cbv zeta in G2. eapply IH; [exact G2|].
    eapply KL_kfr; [exact K1|]. apply kfr_unref_rm, kfr_refl.
  - destruct (nowv <? l_tT l)%Z.
    + destruct (gi_rec _ _ G1' r l Hr) as [A1 A2 A3 A4 A5 A6 A7 A8 A9 A10 A11].
      destruct (A6 Et) as [Q1 [Q2 [Q3 Q4]]].
      destruct (tl_zero_of_xt s1 _ r due l G1' eq_refl Hr) as (_ & _ & _ & Z).
      assert (Hlong : l_long l = false).
      { destruct (l_long l) eqn:El; auto. exfalso. destruct (A8 eq_refl eq_refl) as [Q _]. specialize (Q Et).
        pose proof (occ_wheel_get_le r (tlong s1) (lkey (l_tT l))). unfold tcount, gk in A4. gs. rewrite occ_cons_eq in A4. lia. }
      rewrite (updl_some _ _ _ _ Hr).
      set (l1 := l <| l_tcc := (l_tcc l + 1) mod 256 |>).
      assert (G2 : GInv (setl s1 r l1) (gk (r :: due) xe k)).
      { apply (setl_irrel s1 _ r l l1 G1' Hr); [unfold same_rel; intuition|intuition]. }
      assert (Hr2 : aget (store (setl s1 r l1)) r = Some l1) by (rewrite store_setl, aget_aset_same; auto).
      assert (K2 : KL (setl s1 r l1)).
      { eapply KL_kfr; [exact K1|]. eapply kfr_setl; [exact Hr| |apply kfr_refl]. unfold ksame; cbn; intuition. }
      eapply IH.
      * eapply ginv_geq; [apply (add_timeout_ginv _ _ r due l1 G2); unfold gk; gs; auto|].
        unfold gk. gs. unfold liveb. change (l_timeouted l1) with (l_timeouted l). rewrite Et. reflexivity.
      * apply KL_add_timeout; auto.
        -- intros kk I. change (tlong (setl s1 r l1)) with (tlong s1) in I. apply occ_In in I. rewrite Z in I. lia.
        -- intros kk I. change (elong (setl s1 r l1)) with (elong s1) in I. eapply (KL_live_not_elong s1 r l); eauto.
    + eapply IH; eauto.
Qed.

Lemma sweep_e_slot_GK fuel : forall s xt k slot nowv due ev,
  GInv s (gk xt due k) -> KL s -> KL (fst (fst (sweep_e_slot fuel s slot nowv due ev))).
Proof.
  induction fuel as [|f IH]; intros s xt k slot nowv due ev G K; simpl; [exact K|].
  destruct (wheel_get (ewheel s) slot) as [|r rest] eqn:Ew; [exact K|].
  pose proof (pop_e_ginv s _ slot r rest G Ew) as G1.
  set (s1 := s <| ewheel := aset (ewheel s) slot rest |>) in *.
  assert (K1 : KL s1) by (eapply KL_kfr; [exact K|kf]).
  assert (G1' : GInv s1 (gk xt (r :: due) k)) by (eapply ginv_geq; [exact G1|reflexivity]).
  assert (Gsn : GInv s1 (gk xt (due ++ [r]) k)).
  { eapply ginv_geq; [apply (ginv_perm_x s1 _ xt (due ++ [r]) G1'); [reflexivity|intros r0; apply occ_snoc]|reflexivity]. }
  destruct (aget (store s) r) as [l|] eqn:Hr0; [|exact K1].
  assert (Hr : aget (store s1) r = Some l) by exact Hr0.
  rewrite (getl_some _ _ _ Hr).
  destruct (l_expried l) eqn:Et; cbn [negb].
  - pose proof (unref_e_tail s1 xt k (l_key l) r due G1') as G2. cbv zeta in G2. eapply IH; [exact G2|].
    eapply KL_kfr; [exact K1|]. apply kfr_unref_rm, kfr_refl.
  - destruct (nowv <? l_eT l)%Z.
    + destruct (gi_rec _ _ G1' r l Hr) as [A1 A2 A3 A4 A5 A6 A7 A8 A9 A10 A11].
      destruct (el_zero_of_xe s1 _ r due l G1' eq_refl Hr) as (_ & _ & _ & Z).
      assert (Ht : l_timeouted l = true).
      { destruct (l_timeouted l) eqn:E; auto. destruct (A6 eq_refl) as [_ [Q _]]. unfold ecount, gk in Q. gs. rewrite occ_cons_eq in Q. lia. }
      assert (Hlong : l_long l = false).
      { destruct (l_long l) eqn:El; auto. exfalso. destruct (A8 eq_refl eq_refl) as [_ Q]. specialize (Q Ht).
        pose proof (occ_wheel_get_le r (elong s1) (lkey (l_eT l))). unfold ecount, gk in A5. gs. rewrite occ_cons_eq in A5. lia. }
      rewrite (updl_some _ _ _ _ Hr).
      set (l1 := l <| l_ecc := (l_ecc l + 1) mod 256 |>).
      assert (G2 : GInv (setl s1 r l1) (gk xt (r :: due) k)).
      { apply (setl_irrel s1 _ r l l1 G1' Hr); [unfold same_rel; intuition|intuition]. }
      assert (Hr2 : aget (store (setl s1 r l1)) r = Some l1) by (rewrite store_setl, aget_aset_same; auto).
      assert (K2 : KL (setl s1 r l1)).
      { eapply KL_kfr; [exact K1|]. eapply kfr_setl; [exact Hr| |apply kfr_refl]. unfold ksame; cbn; intuition. }
      assert (G3 : GInv (fst (add_expried (setl s1 r l1) (l_key l) r)) (gk xt due k)).
      { eapply ginv_geq; [eapply (add_expried_ginv _ _ (l_key l) r due l1 G2); unfold gk; gs; auto|reflexivity]. }
      assert (K3 : KL (fst (add_expried (setl s1 r l1) (l_key l) r))).
      { apply KL_add_expried; auto.
        - intros kk I. change (elong (setl s1 r l1)) with (elong s1) in I. apply occ_In in I. rewrite Z in I. lia.
        - intros l' G'. rewrite aget_setl, N.eqb_refl in G'. injection G' as <-. exact Ht. }
      destruct (add_expried (setl s1 r l1) (l_key l) r) as [s3 aev]. cbn [fst] in *. eapply IH; eauto.
    + eapply IH; eauto.
Qed.

Lemma wheel_get_adel' (w : amap (list ref)) k k' : wheel_get (adel w k) k' = if k =? k' then [] else wheel_get w k'.
Proof. unfold wheel_get. rewrite TimeBase.aget_adel. destruct (k =? k'); reflexivity. Qed.

Lemma collect_timeouts_GK s xe k t nowv :
  GInv s (gk [] xe k) -> KL s -> KL (fst (collect_timeouts s t nowv)).
Proof.
  intros G K. unfold collect_timeouts.
  pose proof (sweep_t_slot_ginv (10 * length (wheel_get (twheel s) (slot_of t)) + 10) s xe k (slot_of t) nowv [] G) as G1.
  pose proof (sweep_t_slot_GK (10 * length (wheel_get (twheel s) (slot_of t)) + 10) s xe k (slot_of t) nowv [] G K) as K1.
  destruct (sweep_t_slot _ s (slot_of t) nowv []) as [s1 due]. cbn [fst snd] in *.
  destruct (aget (tlong s1) (lkey t)) as [items|] eqn:El; [|exact K1].
  pose proof K1 as [A1 A2 A3].
  apply KL_sweep_long.
  - constructor.
    + intros kk x lx I Gx. cbn in I. rewrite wheel_get_adel' in I. destruct (lkey t =? kk); [destruct I|]. eapply A1; eauto.
    + intros kk x lx I Gx. eapply A2; eauto.
    + intros kk x lx I Gx. eapply A3; eauto.
  - intros x lx I Gx. cbn in Gx.
    assert (I0 : In x (wheel_get (tlong s1) (lkey t))) by (unfold wheel_get; rewrite El; exact I).
    destruct (A1 _ x lx I0 Gx) as (T & L & KK). split; [exact T|].
    intros kk I1. cbn in I1. rewrite wheel_get_adel' in I1. destruct (lkey t =? kk) eqn:E; [destruct I1|].
    destruct (A1 _ x lx I1 Gx) as (_ & _ & KK'). apply N.eqb_neq in E. congruence.
Qed.

Lemma collect_expiries_GK s xt k t nowv :
  GInv s (gk xt [] k) -> KL s -> KL (fst (fst (collect_expiries s t nowv))).
Proof.
  intros G K. unfold collect_expiries.
  pose proof (sweep_e_slot_GK (10 * length (wheel_get (ewheel s) (slot_of t)) + 10) s xt k (slot_of t) nowv [] [] G K) as K1.
  destruct (sweep_e_slot _ s (slot_of t) nowv [] []) as [[s1 due] ev]. cbn [fst snd] in *.
  destruct (aget (elong s1) (lkey t)) as [items|] eqn:El; [|exact K1].
  pose proof K1 as [A1 A2 A3].
  assert (K2 : KL (fst (sweep_long (s1 <| elong := adel (elong s1) (lkey t) |>) items false due))).
  { apply KL_sweep_long.
    - constructor.
      + intros kk x lx I Gx. eapply A1; eauto.
      + intros kk x lx I Gx. cbn in I. rewrite wheel_get_adel' in I. destruct (lkey t =? kk); [destruct I|]. eapply A2; eauto.
      + intros kk x lx I Gx. cbn in I. rewrite wheel_get_adel' in I. destruct (lkey t =? kk); [destruct I|]. eapply A3; eauto.
    - intros x lx I Gx. cbn in Gx.
      assert (I0 : In x (wheel_get (elong s1) (lkey t))) by (unfold wheel_get; rewrite El; exact I).
      split; [eapply A2; eauto|]. intros Ex kk I1. cbn in I1. rewrite wheel_get_adel' in I1.
      destruct (lkey t =? kk) eqn:E; [destruct I1|].
      destruct (A3 _ x lx I1 Gx Ex) as (_ & KK'). destruct (A3 _ x lx I0 Gx Ex) as (_ & KK). apply N.eqb_neq in E. congruence. }
  destruct (sweep_long _ items false due) as [s2 due2]. exact K2.
Qed.

(* ---------------------------------------------------------------- the sweeps *)
Lemma sweep_t_secs_KL n : forall s t nowv, Inv s -> KL s -> KL (fst (sweep_t_secs n s t nowv)).
Proof.
  induction n as [|n IH]; intros s t nowv G K; simpl; [exact K|].
  pose proof (collect_timeouts_ginv s [] 0 t nowv (inv_gk s 0 G)) as G1.
  pose proof (collect_timeouts_GK s [] 0 t nowv (inv_gk s 0 G) K) as K1.
  destruct (collect_timeouts s t nowv) as [s1 due]. cbn [fst snd] in *.
  destruct (fire_all_t_ginv due s1 [] 0 G1) as [k' G2].
  pose proof (fire_all_t_KL due s1 [] 0 G1 K1) as K2.
  destruct (fire_all do_timeout s1 due) as [s2 e2]. cbn [fst snd] in *.
  specialize (IH s2 (t + 1)%Z nowv (gk_inv s2 k' G2) K2).
  destruct (sweep_t_secs n s2 (t + 1)%Z nowv) as [s3 e3]. exact IH.
Qed.

Lemma sweep_e_secs_KL n : forall s t nowv, Inv s -> KL s -> KL (fst (sweep_e_secs n s t nowv)).
Proof.
  induction n as [|n IH]; intros s t nowv G K; simpl; [exact K|].
  pose proof (collect_expiries_ginv s [] 0 t nowv (inv_gk s 0 G)) as G1.
  pose proof (collect_expiries_GK s [] 0 t nowv (inv_gk s 0 G) K) as K1.
  destruct (collect_expiries s t nowv) as [[s1 due] e1]. cbn [fst snd] in *.
  destruct (fire_all_e_ginv due s1 [] 0 G1) as [k' G2].
  pose proof (fire_all_e_KL due s1 [] 0 G1 K1) as K2.
  destruct (fire_all do_expried s1 due) as [s2 e2]. cbn [fst snd] in *.
  specialize (IH s2 (t + 1)%Z nowv (gk_inv s2 k' G2) K2).
  destruct (sweep_e_secs n s2 (t + 1)%Z nowv) as [s3 e3]. exact IH.
Qed.

Lemma KL_scalar s s' : KL s -> store s' = store s -> tlong s' = tlong s -> elong s' = elong s -> KL s'.
Proof. intros K E1 E2 E3. eapply KL_kfr; [exact K|]. apply (kfr_view s s s'); auto. apply kfr_refl. Qed.

(* ---------------------------------------------------------------- every core action *)
Theorem step_KL s a : Inv s -> XL s -> KL s -> InvDef.core_action a = true -> next s < MAXREC -> KL (fst (step s a)).
Proof.
  intros G HX K Ha Hb. destruct a as [conn c|k| | |r ok|b]; cbn [step InvDef.core_action] in *.
  - apply cmd_core_b_iff in Ha. pose proof (inv_gk s (c_key c) G) as G1.
    assert (R : res_ok [] [] (c_key c) (if c_lock c then lock_step s conn c else unlock_step s conn c)).
    { destruct (c_lock c); [apply lock_step_ginv; auto|apply unlock_step_ginv; auto; apply Ha]. }
    assert (A : KL (fst (fst (if c_lock c then lock_step s conn c else unlock_step s conn c)))).
    { destruct (c_lock c); [apply (lock_step_KL s [] []); auto|apply (unlock_step_KL s [] []); auto; apply Ha]. }
    destruct (if c_lock c then lock_step s conn c else unlock_step s conn c) as [[s1 ev] w]. destruct R as [R1 R2]. cbn [fst snd] in *.
    eapply finish_KL; eauto.
  - cbn [fst]. apply (KL_scalar s); auto.
  - unfold sweep_timeouts. apply sweep_t_secs_KL; [apply (inv_scalar s); auto|apply (KL_scalar s); auto].
  - unfold sweep_expiries. apply sweep_e_secs_KL; [apply (inv_scalar s); auto|apply (KL_scalar s); auto].
  - discriminate.
  - cbn [fst]. apply (KL_scalar s); auto.
Qed.
