(* Run-level expiry theorems (property C06), UPPER BOUND, part 5: the expiry sweep.
   Scanning second t (t <= now < t + 7, checkExpriedTime already = now + 1) with EW X t: every live entry of slot t was
   placed for second t exactly (the 16-slot window), so it is either handed to doExpried -- then  l_eT <= now  and
   t <= l_eT (or, for records in X only, t <= l_start + 9 <= l_eT + 8) -- or re-armed for a second in now+1 .. now+9 that
   is <= its deadline; the slot is empty afterwards, the long-table bucket t is handed over entirely: EW X (t+1). *)
From Coq Require Import String ZifyN ZifyBool ZifyNat.
From Slock Require Import Engine.Types Engine.Queues Engine.Timers Engine.Engine Engine.Engine2 Engine.InvDef Engine.InvBase
  Engine.InvPrims Engine.InvRec Engine.InvWheel Engine.InvQueue Engine.InvQueue2 Engine.InvSteps Engine.InvLockDefs Engine.InvLock
  Engine.InvUnlock Engine.InvSweep Engine.InvMain Engine.InvProps.
From Slock Require Import Engine.LocalBase Engine.LocalWake Engine.TimeBase Engine.TimeExp Engine.TimeRun Engine.RunExpScal Engine.RunExpK
  Engine.RunExpSteps Engine.RunExpSteps2 Engine.RunExpThm Engine.RunLateFr Engine.RunLateInv Engine.RunLateSteps Engine.RunLateSteps2.
Open Scope N_scope.

Ltac Zify.zify_post_hook ::= Z.div_mod_to_equations.

(* ---------------------------------------------------------------- what leaves the expiry wheel alone *)
Lemma ewh_updm s k f : ewheel (updm s k f) = ewheel s.
Proof. unfold updm, setm. destruct (aget (mgrs s) k); reflexivity. Qed.
Lemma ewh_free_lock s r : ewheel (free_lock s r) = ewheel s.
Proof. unfold free_lock. destruct (aget (store s) r); [rewrite ewh_updm|]; reflexivity. Qed.
Lemma ewh_unref s r : ewheel (unref s r) = ewheel s.
Proof.
  unfold unref. destruct (aget (store s) r); [|reflexivity].
  destruct (dec8 (l_refc l) =? 0); [rewrite ewh_free_lock|]; reflexivity.
Qed.
Lemma ewh_remove_mgr s k : ewheel (remove_mgr_if_unref s k) = ewheel s.
Proof. unfold remove_mgr_if_unref. destruct (aget (mgrs s) k); [destruct (m_ref m =? 0)|]; reflexivity. Qed.
Lemma ewh_unref_rm s r k :
  ewheel (if match aget (store (unref s r)) r with None => true | Some _ => false end
          then remove_mgr_if_unref (unref s r) k else unref s r) = ewheel s.
Proof. destruct (match aget (store (unref s r)) r with None => true | Some _ => false end); rewrite ?ewh_remove_mgr, ewh_unref; reflexivity. Qed.
Lemma ewh_push_lock_aof s k r fl : ewheel (fst (push_lock_aof s k r fl)) = ewheel s.
Proof.
  unfold push_lock_aof. destruct (negb (leader s)); [reflexivity|].
  destruct (has _ _); cbn [fst]; [apply updl_ewheel|].
  destruct (aof_lock_data _ _ _) as [[d cur'] ld']. cbn [fst]. rewrite !updl_ewheel, ewh_updm. reflexivity.
Qed.
Lemma ewh_repeat_push n : forall s k r, ewheel (fst (repeat_push_lock_aof n s k r)) = ewheel s.
Proof.
  induction n as [|n IH]; intros s k r; simpl; [reflexivity|].
  pose proof (ewh_push_lock_aof s k r 0) as A. destruct (push_lock_aof s k r 0) as [s1 e1]. cbn [fst] in A.
  specialize (IH s1 k r). destruct (repeat_push_lock_aof n s1 k r) as [s2 e2]. cbn [fst] in *. congruence.
Qed.
Lemma ewh_add_expried s k r : ewheel (fst (add_expried s k r)) = ewheel (arm s r).
Proof.
  unfold add_expried. fold (arm s r). cbv zeta.
  match goal with |- context [if ?b then _ else _] => destruct b end; [apply ewh_repeat_push|reflexivity].
Qed.

(* ---------------------------------------------------------------- the due predicate of the upper bound *)
Definition Pdue (X : ref -> Prop) (f0 nowv : Z) (r : ref) (e : Z) : Prop :=
  (e <= nowv)%Z /\ ((f0 <= e)%Z \/ (MAXT <= e)%Z \/ (X r /\ (f0 <= e + 8)%Z)).

Lemma Pdue_intro X f0 nowv t r l :
  (f0 <= t)%Z -> stok l -> (l_eT l <= nowv)%Z ->
  ((t <= l_eT l)%Z \/ (MAXT <= l_eT l)%Z \/ (X r /\ (t <= l_start l + 9)%Z)) -> Pdue X f0 nowv r (l_eT l).
Proof.
  intros F S D B. split; auto. destruct B as [B|[B|[Hx B]]]; [left; lia|right; left; auto|].
  destruct S as [S|S]; [right; left; auto|right; right; split; auto; lia].
Qed.

(* ---------------------------------------------------------------- one wheel slot *)
Lemma slot_window t d : (0 <= t)%Z -> (t <= d < t + 16)%Z -> slot_of d = slot_of t -> d = t.
Proof.
  intros H0 R E. destruct (Z.eq_dec d t) as [|NE]; auto. exfalso. apply (slot_of_neq t d H0); [lia|exact E].
Qed.

Lemma sweep_e_slot_EW X f0 nowv t : (0 <= t <= nowv)%Z -> (nowv < t + 7)%Z -> (f0 <= t)%Z ->
  forall fuel s xt k due ev,
  GInv s (gk xt due k) -> KL s -> EW X t s -> checkE s = (nowv + 1)%Z -> now s = nowv ->
  (length (wheel_get (ewheel s) (slot_of t)) < fuel)%nat ->
  GD (Pdue X f0 nowv) due s ->
  EW X t (fst (fst (sweep_e_slot fuel s (slot_of t) nowv due ev)))
  /\ wheel_get (ewheel (fst (fst (sweep_e_slot fuel s (slot_of t) nowv due ev)))) (slot_of t) = []
  /\ GD (Pdue X f0 nowv) (snd (fst (sweep_e_slot fuel s (slot_of t) nowv due ev))) (fst (fst (sweep_e_slot fuel s (slot_of t) nowv due ev))).
Proof.
  intros R0 LAG F0. set (slot := slot_of t).
  induction fuel as [|fu IH]; intros s xt k due ev G K E CK NW LEN D; [lia|]. cbn [sweep_e_slot].
  destruct (wheel_get (ewheel s) slot) as [|r rest] eqn:WG; [cbn [fst snd]; auto|].
  pose proof (pop_e_ginv s _ slot r rest G WG) as G1.
  set (s1 := s <| ewheel := aset (ewheel s) slot rest |>) in *.
  assert (F1 : wfr s s1) by (apply (wfr_pop_e s slot r rest); exact WG).
  assert (K1 : KL s1) by (eapply KL_kfr; [exact K|kf]).
  assert (G1' : GInv s1 (gk xt (r :: due) k)) by (eapply ginv_geq; [exact G1|reflexivity]).
  assert (Gsn : GInv s1 (gk xt (due ++ [r]) k)).
  { eapply ginv_geq; [apply (ginv_perm_x s1 _ xt (due ++ [r]) G1'); [reflexivity|intros r0; apply occ_snoc]|reflexivity]. }
  pose proof (EW_wfr _ _ _ _ E F1) as E1. pose proof (GD_wfr _ _ _ _ D F1) as D1.
  assert (WG1 : wheel_get (ewheel s1) slot = rest) by (unfold s1; cbn; rewrite wheel_get_aset, N.eqb_refl; reflexivity).
  destruct (stored_of_xe s1 _ r due G1' eq_refl) as [l Hr1].
  assert (Hr : aget (store s) r = Some l) by exact Hr1.
  rewrite Hr1. cbv iota. rewrite (getl_some _ _ _ Hr1).
  destruct (l_expried l) eqn:Et; cbn [negb].
  - (* tombstone *)
    pose proof (unref_e_tail s1 xt k (l_key l) r due G1') as G2. cbv zeta in G2.
    pose proof (wfr_unref_rm s1 s1 r (l_key l) (wfr_refl s1)) as F2.
    match type of G2 with GInv ?y _ => specialize (IH y xt k due ev G2) end.
    rewrite ewh_unref_rm, WG1 in IH. apply IH.
    + eapply KL_kfr; [exact K1|]. apply kfr_unref_rm, kfr_refl.
    + eapply EW_wfr; eauto.
    + rewrite (wfr_checkE _ _ F2). exact CK.
    + rewrite (wfr_now _ _ F2). exact NW.
    + cbn in LEN. lia.
    + eapply GD_wfr; eauto.
  - assert (LV : elive s r l) by (split; auto).
    destruct (ew_wh _ _ _ E slot r l ltac:(rewrite WG; left; reflexivity) LV) as (d & DS & DT & DN & DB).
    assert (d = t) as ->. { apply slot_window; [lia| |exact DS]. rewrite NW in DN. lia. }
    pose proof (ew_st _ _ _ E r l LV) as ST.
    destruct (nowv <? l_eT l)%Z eqn:LT.
    + (* not yet: re-armed for a later second *)
      apply Z.ltb_lt in LT.
      destruct (gi_rec _ _ G1' r l Hr1) as [A1 A2 A3 A4 A5 A6 A7 A8 A9 A10 A11].
      destruct (el_zero_of_xe s1 _ r due l G1' eq_refl Hr1) as (ZW & ZL & ZD & Z).
      assert (Ht : l_timeouted l = true).
      { destruct (l_timeouted l) eqn:EE; auto. destruct (A6 eq_refl) as [_ [Q _]]. unfold ecount, gk in Q. gs. rewrite occ_cons_eq in Q. lia. }
      assert (Hlong : l_long l = false).
      { destruct (l_long l) eqn:El; auto. exfalso. destruct (A8 eq_refl eq_refl) as [_ Q]. specialize (Q Ht).
        pose proof (occ_wheel_get_le r (elong s1) (lkey (l_eT l))). unfold ecount, gk in A5. gs. rewrite occ_cons_eq in A5. lia. }
      rewrite (updl_some _ _ _ _ Hr1).
      set (l1 := l <| l_ecc := (l_ecc l + 1) mod 256 |>).
      assert (G2 : GInv (setl s1 r l1) (gk xt (r :: due) k)).
      { apply (setl_irrel s1 _ r l l1 G1' Hr1); [unfold same_rel; intuition|intuition]. }
      assert (Hr2 : aget (store (setl s1 r l1)) r = Some l1) by (rewrite store_setl, aget_aset_same; auto).
      assert (F2 : wfr s1 (setl s1 r l1)).
      { eapply wfr_setl; [exact Hr1| |apply wfr_refl]. unfold wsame; cbn; auto. }
      assert (K2 : KL (setl s1 r l1)).
      { eapply KL_kfr; [exact K1|]. eapply kfr_setl; [exact Hr1| |apply kfr_refl]. unfold ksame; cbn; intuition. }
      set (s2 := setl s1 r l1) in *.
      assert (NW2 : forall k0, ~ In r (wheel_get (ewheel s2) k0)) by (intros k0; apply not_in_wrefs; exact ZW).
      assert (NL2 : forall kk, ~ In r (wheel_get (elong s2) kk)) by (intros kk; apply not_in_wrefs; exact ZL).
      assert (G3 : GInv (fst (add_expried s2 (l_key l) r)) (gk xt due k)).
      { eapply ginv_geq; [eapply (add_expried_ginv _ _ (l_key l) r due l1 G2); unfold gk; gs; auto|reflexivity]. }
      assert (K3 : KL (fst (add_expried s2 (l_key l) r))).
      { apply KL_add_expried; auto. intros l' G'. unfold s2 in G'. rewrite aget_setl, N.eqb_refl in G'. injection G' as <-. exact Ht. }
      assert (E3 : EW X t (fst (add_expried s2 (l_key l) r))).
      { apply (EW_add_expried X t s2 (l_key l) r l1); [eapply EW_wfr; eauto|exact Hr2|exact NW2|exact NL2|exact ST| |].
        - change (checkE s2) with (checkE s). change (now s2) with (now s). lia.
        - left. change (checkE s2) with (checkE s). change (l_eT l1) with (l_eT l). lia. }
      assert (D3 : GD (Pdue X f0 nowv) due (fst (add_expried s2 (l_key l) r))).
      { assert (NI : ~ In r due) by (intros I; apply occ_In in I; lia).
        intros x lx I LVx. pose proof (add_expried_arm s2 (l_key l) r x) as EA. destruct LVx as [Gx Lx]. rewrite Gx in EA.
        destruct EA as (l0 & G0 & ET). unfold eterms in ET. injection ET as Q1 Q2 _ _ _ _ _.
        rewrite (arm_store s2 r l1 Hr2) in G0. destruct (r =? x) eqn:EQ; [apply N.eqb_eq in EQ; subst x; contradiction|].
        rewrite Q1. apply (D1 x l0 I). unfold s2 in G0. rewrite aget_setl, EQ in G0. split; [exact G0|congruence]. }
      assert (W3 : wheel_get (ewheel (fst (add_expried s2 (l_key l) r))) slot = rest).
      { rewrite ewh_add_expried. destruct (arm_shape s2 r l1 Hr2) as (_ & SH).
        destruct (QUEUE_MAX_WAIT <? l_ecc l1) eqn:EC; destruct SH as [SW _]; rewrite SW; [exact WG1|].
        rewrite wheel_get_push. destruct (eslot_time_range (checkE s2) l1 EC) as [R1 R2].
        change (checkE s2) with (checkE s) in *. rewrite CK in *.
        destruct (_ =? slot) eqn:EQ; [|exact WG1]. apply N.eqb_eq in EQ. exfalso.
        apply (slot_of_neq t (eslot_time (nowv + 1) l1)); [lia|lia|exact EQ]. }
      pose proof (ce_add_expried s2 (l_key l) r) as C3. pose proof (nw_add_expried s2 (l_key l) r) as N3.
      destruct (add_expried s2 (l_key l) r) as [s3 aev]. cbn [fst] in *.
      specialize (IH s3 xt k due (ev ++ aev) G3 K3 E3). rewrite W3 in IH. apply IH; auto.
      * rewrite C3. exact CK.
      * rewrite N3. exact NW.
      * cbn in LEN. lia.
    + (* due *)
      apply Z.ltb_ge in LT.
      specialize (IH s1 xt k (due ++ [r]) ev Gsn K1 E1 CK NW). rewrite WG1 in IH. apply IH; [cbn in LEN; lia|].
      intros x lx I LVx. apply in_app_iff in I. destruct I as [I|[<-|[]]]; [apply (D1 x lx I LVx)|].
      destruct LVx as [Gx _]. rewrite Hr1 in Gx. injection Gx as <-.
      apply (Pdue_intro X f0 nowv t r l); auto.
Qed.

(* ---------------------------------------------------------------- second t is done *)
Lemma EW_bump X t s s' : (0 <= t)%Z ->
  EW X t s -> KL s -> wheel_get (ewheel s) (slot_of t) = [] ->
  store s' = store s -> ewheel s' = ewheel s -> now s' = now s ->
  (forall kk r, In r (wheel_get (elong s') kk) -> In r (wheel_get (elong s) kk) /\ kk <> lkey t) ->
  EW X (t + 1) s'.
Proof.
  intros T0 [A1 A2 A3 A4] K WE E1 E2 E3 HL. constructor; unfold elive; rewrite ?E1, ?E2, ?E3.
  - exact A1.
  - exact A2.
  - intros k r l I LV. destruct (A3 k r l I LV) as (d & D1 & D2 & D3). exists d. split; auto. split; auto.
    destruct (Z.eq_dec d t) as [->|NE]; [|lia]. subst k. rewrite WE in I. destruct I.
  - intros kk r l I LV. destruct (HL kk r I) as [I0 NK]. destruct (A4 kk r l I0 LV) as [B|B]; [|right; exact B].
    left. destruct (Z.eq_dec (l_eT l) t) as [EQ|NE]; [|lia].
    exfalso. apply NK. destruct LV as [G L]. destruct (kl_e2 _ K kk r l I0 G L) as [_ KK]. rewrite <- KK, EQ. reflexivity.
Qed.

Lemma collect_expiries_EW X f0 s xt k t nowv :
  (0 <= t <= nowv)%Z -> (nowv < t + 7)%Z -> (f0 <= t)%Z ->
  GInv s (gk xt [] k) -> KL s -> EW X t s -> checkE s = (nowv + 1)%Z -> now s = nowv ->
  EW X (t + 1) (fst (fst (collect_expiries s t nowv)))
  /\ GD (Pdue X f0 nowv) (snd (fst (collect_expiries s t nowv))) (fst (fst (collect_expiries s t nowv))).
Proof.
  intros R LAG F0 G K E CK NW. unfold collect_expiries.
  set (fuel := (10 * length (wheel_get (ewheel s) (slot_of t)) + 10)%nat).
  pose proof (sweep_e_slot_EW X f0 nowv t R LAG F0 fuel s xt k [] [] G K E CK NW ltac:(unfold fuel; lia)) as A.
  pose proof (sweep_e_slot_GK fuel s xt k (slot_of t) nowv [] [] G K) as K1.
  pose proof (nw_sweep_e_slot fuel s (slot_of t) nowv [] []) as N1.
  destruct (sweep_e_slot fuel s (slot_of t) nowv [] []) as [[s1 due] ev]. cbn [fst snd] in *.
  destruct A as (E1 & WE & D1). { intros r l []. }
  destruct (aget (elong s1) (lkey t)) as [items|] eqn:El.
  - set (s2 := s1 <| elong := adel (elong s1) (lkey t) |>).
    assert (E2 : EW X (t + 1) s2).
    { apply (EW_bump X t s1 s2); auto; try reflexivity; [lia|]. intros kk r I. unfold s2 in I. cbn in I.
      rewrite wheel_get_adel' in I. destruct (lkey t =? kk) eqn:EQ; [destruct I|]. apply N.eqb_neq in EQ. split; auto. }
    assert (DI : GD (Pdue X f0 nowv) items s2).
    { intros r l I [Gr L]. change (store s2) with (store s1) in Gr.
      assert (I0 : In r (wheel_get (elong s1) (lkey t))) by (unfold wheel_get; rewrite El; exact I).
      destruct (kl_e2 _ K1 _ r l I0 Gr L) as [_ KK]. pose proof (lkey_le t (l_eT l) ltac:(lia) KK) as LE.
      apply (Pdue_intro X f0 nowv t r l); auto.
      - apply (ew_st _ _ _ E1 r l). split; auto.
      - lia.
      - destruct (ew_lg _ _ _ E1 _ r l I0 (conj Gr L)) as [B|B]; [left; exact B|right; left; exact B]. }
    assert (D2 : GD (Pdue X f0 nowv) due s2) by (intros r l I LV; apply (D1 r l I LV)).
    pose proof (sweep_long_wfr false items s2 s2 due (wfr_refl s2)) as F3.
    destruct (sweep_long_efr false items s2 due) as [_ B].
    destruct (sweep_long s2 items false due) as [s3 due3]. cbn [fst snd] in *.
    split; [eapply EW_wfr; eauto|].
    eapply GD_wfr; [|exact F3]. intros x l I LV. destruct (B x I); [apply (D2 x l); auto|apply (DI x l); auto].
  - cbn [fst snd]. split; [|exact D1].
    apply (EW_bump X t s1 s1); auto; [lia|]. intros kk r I. split; auto. intros ->. unfold wheel_get in I. rewrite El in I. destruct I.
Qed.

(* ---------------------------------------------------------------- the loop over the elapsed seconds *)
Lemma sweep_e_secs_late X f0 nowv : forall n s t,
  Inv s -> KL s -> EW X t s -> checkE s = (nowv + 1)%Z -> now s = nowv -> leader s = true ->
  (0 <= t)%Z -> (t + Z.of_nat n = nowv + 1)%Z -> (nowv < t + 7)%Z -> (f0 <= t)%Z ->
  EW X (nowv + 1) (fst (sweep_e_secs n s t nowv))
  /\ forall s' r l, In (s', r) (sweep_e_log n s t nowv) -> elive s' r l -> Pdue X f0 nowv r (l_eT l).
Proof.
  induction n as [|n IH]; intros s t G K E CK NW Ld T0 TN LAG F0; cbn [sweep_e_secs sweep_e_log].
  - split; [|intros ? ? ? []]. cbn [fst]. replace (nowv + 1)%Z with t by lia. exact E.
  - pose proof (collect_expiries_ginv s [] 0 t nowv (inv_gk s 0 G)) as G1.
    pose proof (collect_expiries_GK s [] 0 t nowv (inv_gk s 0 G) K) as K1.
    destruct (collect_expiries_EW X f0 s [] 0 t nowv ltac:(lia) LAG F0 (inv_gk s 0 G) K E CK NW) as [E1 D1].
    pose proof (ce_collect_expiries s t nowv) as C1. pose proof (nw_collect_expiries s t nowv) as N1.
    pose proof (ld_collect_expiries s t nowv) as L1.
    destruct (collect_expiries s t nowv) as [[s1 due] e1]. cbn [fst snd] in *.
    destruct (fire_all_e_ginv due s1 [] 0 G1) as [k' G2].
    pose proof (fire_all_e_KL due s1 [] 0 G1 K1) as K2.
    assert (EC1 : EWc X (t + 1) s1) by (split; [exact E1|rewrite C1, N1, CK, NW; lia]).
    pose proof (fire_all_e_EW X (t + 1) due s1 [] 0 G1 ltac:(congruence) EC1) as [E2 _].
    pose proof (ce_fire_all do_expried ce_do_expried due s1) as C2.
    pose proof (nw_fire_all do_expried nw_do_expried due s1) as N2.
    pose proof (ld_fire_all do_expried ld_do_expried due s1) as L2.
    pose proof (fire_log_GD (Pdue X f0 nowv) due s1 [] 0 G1 D1) as FL.
    destruct (fire_all do_expried s1 due) as [s2 e2] eqn:EF. cbn [fst snd] in *.
    destruct (IH s2 (t + 1)%Z (gk_inv s2 k' G2) K2 E2 ltac:(congruence) ltac:(congruence) ltac:(congruence)
                ltac:(lia) ltac:(lia) ltac:(lia) ltac:(lia)) as [E3 D3].
    destruct (sweep_e_secs n s2 (t + 1) nowv) as [s3 e3]. cbn [fst] in *.
    split; [exact E3|].
    intros s' r l I LV. apply in_app_iff in I. destruct I as [I|I].
    + apply (FL s' r I r l); [left; reflexivity|exact LV].
    + eapply D3; eauto.
Qed.

(* the expiry sweep as a whole, started with the sweeper at most 6 seconds behind *)
Theorem sweep_expiries_late X s :
  Inv s -> KL s -> EWc X (checkE s) s -> (0 <= checkE s)%Z -> (now s < checkE s + 7)%Z -> leader s = true ->
  EWc X (now s + 1) (fst (sweep_expiries s))
  /\ forall s' r l, In (s', r) (expiry_calls s) -> elive s' r l -> Pdue X (checkE s) (now s) r (l_eT l).
Proof.
  intros G K [E C] C0 LAG Ld. unfold sweep_expiries, expiry_calls.
  set (s0 := s <| checkE := (now s + 1)%Z |>).
  assert (G0 : Inv s0) by (apply (inv_scalar s); auto).
  assert (K0 : KL s0) by (apply (KL_scalar s); auto).
  assert (E0 : EW X (checkE s) s0) by (apply (EW_view X _ s); auto; cbn; lia).
  destruct (sweep_e_secs_late X (checkE s) (now s) (Z.to_nat (now s + 1 - checkE s)) s0 (checkE s) G0 K0 E0) as [A B];
    try reflexivity; auto; try lia.
  split; [|exact B]. split; [exact A|].
  rewrite ce_sweep_e_secs, nw_sweep_e_secs. cbn. lia.
Qed.
