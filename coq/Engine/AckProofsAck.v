(* C11, DoAckLock (A2, A3) and the ack timeout (A5): what `do_ack` / `do_timeout` answer, for every state. *)
From Coq Require Import String ZifyN ZifyBool ZifyNat.
From Slock Require Import Engine.Types Engine.Queues Engine.Timers Engine.Engine Engine.Engine2.
From Slock Require Import Engine.AckProofsBase.
Open Scope N_scope.

(* ------------------------------------------------------------------ event shapes *)
Definition is_succed (e : event) : bool :=
  match e with EReply _ _ res _ _ _ _ _ _ => res =? R_SUCCED | _ => false end.
Definition reply_to (e : event) (conn req res : N) : Prop :=
  match e with EReply c q x _ _ _ _ _ _ => c = conn /\ q = req /\ x = res | _ => False end.

Lemma quiet_not_succed ev : Forall quiet ev -> Forall (fun e => is_succed e = false) ev.
Proof. intros H. eapply Forall_impl; [|exact H]. intros [] Hq; simpl in *; auto; contradiction. Qed.
Lemma quiet_not_reply ev : Forall quiet ev -> Forall (fun e => ~ is_reply e) ev.
Proof. intros H. eapply Forall_impl; [|exact H]. intros [] Hq; simpl in *; auto. Qed.

(* ------------------------------------------------------------------ the timeout is stopped first *)
Definition stop_timeout (s : db) (r : ref) (l : lockrec) : db :=
  if negb (l_timeouted l)
  then let s := updl s r (fun l => l <| l_timeouted := true |>) in if l_long l then remove_long_timeout s r else s
  else s.

(* fields of a record that neither stopping the timeout nor re-arming it touches *)
Definition same_core (l l' : lockrec) : Prop :=
  l_key l' = l_key l /\ l_cmd l' = l_cmd l /\ l_conn l' = l_conn l /\ l_data l' = l_data l /\ l_locked l' = l_locked l
  /\ l_ack l' = l_ack l /\ l_expried l' = l_expried l /\ l_isaof l' = l_isaof l /\ l_aoftime l' = l_aoftime l
  /\ l_start l' = l_start l /\ l_eT l' = l_eT l.

Lemma same_core_refl l : same_core l l. Proof. repeat split. Qed.

Lemma remove_long_timeout_core s r l : aget (store s) r = Some l ->
  exists l', aget (store (remove_long_timeout s r)) r = Some l' /\ same_core l l' /\ l_timeouted l' = l_timeouted l.
Proof.
  intros H. unfold remove_long_timeout. brk.
  - rewrite aget_store_updl, N.eqb_refl. cbn. rewrite H. cbn. eexists. split; [reflexivity|]. repeat split.
  - rewrite aget_store_updl, N.eqb_refl. cbn. rewrite H. cbn. eexists. split; [reflexivity|]. repeat split.
  - rewrite aget_store_updl, N.eqb_refl. rewrite H. cbn. eexists. split; [reflexivity|]. repeat split.
Qed.

Lemma stop_timeout_core s r l : aget (store s) r = Some l ->
  exists l', aget (store (stop_timeout s r l)) r = Some l' /\ same_core l l' /\ l_timeouted l' = true.
Proof.
  intros H. unfold stop_timeout. destruct (l_timeouted l) eqn:T; cbn.
  - exists l. split; [exact H|]. split; [apply same_core_refl|exact T].
  - assert (H1 : aget (store (updl s r (fun l => l <| l_timeouted := true |>))) r = Some (l <| l_timeouted := true |>)).
    { rewrite aget_store_updl, N.eqb_refl, H. reflexivity. }
    destruct (l_long l).
    + destruct (remove_long_timeout_core _ _ _ H1) as (l' & E & C & T'). exists l'. auto.
    + eexists. split; [exact H1|]. repeat split.
Qed.

Lemma stop_timeout_mgrs s r l : mgrs (stop_timeout s r l) = mgrs s.
Proof.
  unfold stop_timeout. destruct (negb (l_timeouted l)); auto. cbv zeta. destruct (l_long l).
  - unfold remove_long_timeout. brk; rewrite ?mgrs_updl; cbn; rewrite ?mgrs_updl; reflexivity.
  - apply mgrs_updl.
Qed.

Lemma stop_timeout_fr s0 s r l : fr s0 s -> fr s0 (stop_timeout s r l).
Proof. intros F. unfold stop_timeout. cbv zeta. frs. Qed.
#[export] Hint Resolve stop_timeout_fr : fr.

Lemma do_ack_unfold s r ok l : aget (store s) r = Some l ->
  do_ack s r ok =
  (let k := l_key l in
   let s := stop_timeout s r l in
   let l := getl s r in
   let freed_then_mgr (s : db) := if match aget (store s) r with None => true | Some _ => false end then remove_mgr_if_unref s k else s in
   if l_ack l =? 255 then (freed_then_mgr (unref s r), [], None)
   else
   let c := l_cmd l in
   let ack_data (s : db) : db * option bytes * list event :=
     if has_data_flag c then
       match process_ack_lock_data (m_data (getm s k)) (l_data (getl s r)) with
       | Ok (d, ld') => (updl s r (fun l => l <| l_data := ld' |>), d, [])
       | Panic site => (s, None, [EPanic site])
       | _ => (s, None, [EPanic "ack-unsupported"%string])
       end
     else (s, data_of s k, []) in
   if negb (l_expried l) || (l_locked l =? 0) then
     let s := updl s r (fun l => l <| l_ack := 255 |>) in
     let '(s, d, pev) := ack_data s in
     let lrc := l_locked (getl s r) in
     let s := freed_then_mgr (unref s r) in
     (s, pev ++ [reply (l_conn l) c R_LOCKED_ERROR (m_locked (getm s k)) lrc d], None)
   else if ok then
     let s := updl s r (fun l => l <| l_ack := 255 |> <| l_eT := expiry_deadline c (l_start l) |>) in
     let '(s, d, pev) := ack_data s in
     if has (c_eflag c) EF_MILLISECOND then (s, [EPanic "millisecond-expiry-not-modelled"%string], None) else
     let '(s, aev) := add_expried s k r in
     (s, pev ++ aev ++ [reply (l_conn l) c R_SUCCED (m_locked (getm s k)) (l_locked (getl s r)) d], None)
   else
     let depth := l_locked l in
     let s := updm s k (fun m => m <| m_locked := sub32 (m_locked m) depth |>) in
     let '(s, dev) :=
       if has_data_flag c then
         match process_recover_lock_data (m_data (getm s k)) (l_data (getl s r)) with
         | Ok (cur', ld') => (updl (updm s k (fun m => m <| m_data := cur' |>)) r (fun l => l <| l_data := ld' |>), [])
         | Panic site => (s, [EPanic site])
         | _ => (s, [EPanic "recover-unsupported"%string])
         end
       else (s, []) in
     let '(s, aev) := if l_isaof (getl s r) then push_unlock_aof s k r c None false 0 else (s, []) in
     let s := remove_lock s k r in
     let lrc := l_locked (getl s r) in
     let s := freed_then_mgr (unref s r) in
     let s := bump (fun n => n <| n_lock := (n_lock n - 1)%Z |> <| n_locked := (n_locked n - 1)%Z |>) s in
     (s, [ERelease k r depth] ++ dev ++ aev ++ [reply (l_conn l) c R_ERROR (m_locked (getm s k)) lrc (data_of s k)],
      Some (mkWake k None))).
Proof.
  intros H. unfold do_ack. rewrite H. unfold stop_timeout. reflexivity.
Qed.

(* ------------------------------------------------------------------ small state facts *)
Lemma fr_ack_255 s s' r : fr s s' -> l_ack (getl s r) = 255 -> l_ack (getl s' r) = 255.
Proof. intros (A & _) H. destruct (A r) as [[E|E] _]; congruence. Qed.
Lemma fr_locked_0 s s' r : fr s s' -> l_locked (getl s r) = 0 -> l_locked (getl s' r) = 0.
Proof. intros (A & _) H. destruct (A r) as [_ [E|E]]; congruence. Qed.
Lemma fr_leader s s' : fr s s' -> leader s' = leader s.
Proof. intros (_ & _ & L). exact L. Qed.
Lemma fr_mview s s' k m' : fr s s' -> aget (mgrs s') k = Some m' -> exists m, aget (mgrs s) k = Some m /\ mview m' = mview m.
Proof. intros (_ & M & _) H. eauto. Qed.

Lemma getl_of s r l : aget (store s) r = Some l -> getl s r = l.
Proof. unfold getl. intros ->. reflexivity. Qed.

Definition freed_then_mgr (r : ref) (k : N) (s : db) : db :=
  if match aget (store s) r with None => true | Some _ => false end then remove_mgr_if_unref s k else s.
Lemma freed_then_mgr_fr s0 s r k : fr s0 s -> fr s0 (freed_then_mgr r k s).
Proof. intros F. unfold freed_then_mgr. frs. Qed.
#[export] Hint Resolve freed_then_mgr_fr : fr.

Lemma remove_lock_done s k r : l_ack (getl (remove_lock s k r) r) = 255 /\ l_locked (getl (remove_lock s k r) r) = 0.
Proof.
  unfold remove_lock.
  set (s1 := updl s r (fun l => l <| l_locked := 0 |> <| l_ack := 255 |>)).
  assert (H1 : l_ack (getl s1 r) = 255 /\ l_locked (getl s1 r) = 0).
  { unfold s1. rewrite getl_updl, N.eqb_refl. destruct (aget (store s) r); split; reflexivity. }
  cbv zeta.
  match goal with |- l_ack (getl ?X r) = _ /\ _ => assert (F : fr s1 X) end.
  { frs. }
  destruct H1. split; [eapply fr_ack_255|eapply fr_locked_0]; eauto.
Qed.

(* ------------------------------------------------------------------ A3: single shot *)
(* nothing pending: no reply, no event, no wake-up; the only effect is the stopped timeout and one dropped reference
   (and the manager goes when that was the last one) *)
Theorem do_ack_none_pending : forall s r ok l,
  aget (store s) r = Some l -> l_ack l = 255 ->
  do_ack s r ok = (freed_then_mgr r (l_key l) (unref (stop_timeout s r l) r), [], None).
Proof.
  intros s r ok l H A. rewrite (do_ack_unfold _ _ _ _ H). cbv zeta.
  destruct (stop_timeout_core _ _ _ H) as (l1 & E1 & C & T). rewrite (getl_of _ _ _ E1).
  destruct C as (_ & _ & _ & _ & _ & Ca & _). rewrite Ca, A. reflexivity.
Qed.

(* whatever do_ack did, afterwards the record has no acknowledgement pending (or is gone) *)
Theorem do_ack_done : forall s r ok s' ev w, do_ack s r ok = (s', ev, w) -> l_ack (getl s' r) = 255.
Proof.
  intros s r ok s' ev w H. destruct (aget (store s) r) as [l|] eqn:E.
  2:{ unfold do_ack in H. rewrite E in H. inv H. unfold getl. rewrite E. reflexivity. }
  rewrite (do_ack_unfold _ _ _ _ E) in H. cbv zeta in H.
  set (s1 := stop_timeout s r l) in *.
  destruct (l_ack (getl s1 r) =? 255) eqn:A.
  { inv H. apply N.eqb_eq in A. eapply fr_ack_255; [|exact A]. frs. }
  assert (U : forall s0 f, (forall l, l_ack (f l) = 255) -> l_ack (getl (updl s0 r f) r) = 255).
  { intros s0 f Hf. rewrite getl_updl, N.eqb_refl. destruct (aget (store s0) r); [apply Hf|reflexivity]. }
  match type of H with (if ?c then _ else _) = _ => destruct c end.
  - match type of H with context [updl s1 r ?f] => set (s2 := updl s1 r f) in *; assert (A2 : l_ack (getl s2 r) = 255) by (apply U; reflexivity) end.
    repeat (split_hyp H); inv H; (eapply fr_ack_255; [|exact A2]); frs.
  - destruct ok.
    + match type of H with context [updl s1 r ?f] => set (s2 := updl s1 r f) in *; assert (A2 : l_ack (getl s2 r) = 255) by (apply U; reflexivity) end.
      repeat (split_hyp H); inv H; (eapply fr_ack_255; [|exact A2]); frs.
    + repeat (split_hyp H); inv H;
      match goal with |- context [remove_lock ?s0 ?k r] =>
        (eapply fr_ack_255; [|exact (proj1 (remove_lock_done s0 k r))]); frs end.
Qed.

(* ------------------------------------------------------------------ A2: who answers SUCCED *)
Definition ack_reply (l : lockrec) (res lc lrc : N) (d : option bytes) : event :=
  EReply (l_conn l) (c_req (l_cmd l)) res (lc mod 65536) lrc (c_lockid (l_cmd l)) (c_count (l_cmd l)) (c_rcount (l_cmd l)) d.

(* the event list is non-reply events (log records, ghost grant / release marks, model-panic markers) followed by
   exactly one reply, x *)
Definition noreply (e : event) : Prop := match e with EReply _ _ _ _ _ _ _ _ _ => False | _ => True end.
Definition ends_with (ev : list event) (x : event) : Prop := exists pev, ev = pev ++ [x] /\ Forall noreply pev.
Lemma quiet_noreply ev : Forall quiet ev -> Forall noreply ev.
Proof. intros H. eapply Forall_impl; [|exact H]. intros [] Hq; simpl in *; auto. Qed.
Lemma ew_one x : ends_with [x] x. Proof. exists []. split; [reflexivity|constructor]. Qed.
Lemma ew_cons e ev x : noreply e -> ends_with ev x -> ends_with (e :: ev) x.
Proof. intros Q (p & -> & F). exists (e :: p). split; [reflexivity|constructor; auto]. Qed.
Lemma ew_app a ev x : Forall quiet a -> ends_with ev x -> ends_with (a ++ ev) x.
Proof.
  intros Q (p & -> & F). exists (a ++ p). split; [rewrite app_assoc; reflexivity|apply Forall_app; split; auto].
  apply quiet_noreply; auto.
Qed.
Ltac quiet_side :=
  first [ assumption | apply Forall_nil
        | apply only_aof_quiet; assumption
        | apply only_aof_quiet; first [ eapply add_expried_only_aof; eassumption
                                      | eapply push_unlock_aof_only_aof; eassumption
                                      | eapply push_lock_aof_only_aof; eassumption ]
        | eapply process_data_quiet; eassumption
        | apply Forall_app; split; quiet_side
        | apply Forall_cons; [exact I|quiet_side] ].
Ltac ew :=
  repeat first [ apply ew_one | apply ew_cons; [exact I|] | apply ew_app; [quiet_side|] ].

(* pending, but the record is an ordinary holder (update with require-ack) or no holder any more: LOCKED_ERROR *)
Theorem do_ack_stale : forall s r ok l s' ev w,
  aget (store s) r = Some l -> l_ack l <> 255 -> (l_expried l = false \/ l_locked l = 0) ->
  do_ack s r ok = (s', ev, w) ->
  w = None /\ fr s s' /\ exists lc lrc d, ends_with ev (ack_reply l R_LOCKED_ERROR lc lrc d).
Proof.
  intros s r ok l s' ev w H A B D. rewrite (do_ack_unfold _ _ _ _ H) in D. cbv zeta in D.
  destruct (stop_timeout_core _ _ _ H) as (l1 & E1 & C & T).
  assert (F1 : fr s (stop_timeout s r l)) by auto with fr.
  set (s1 := stop_timeout s r l) in *. rewrite (getl_of _ _ _ E1) in D.
  destruct C as (Ck & Cc & Cn & Cd & Cl & Ca & Ce & _). rewrite ?Ca, ?Ce, ?Cl, ?Cc, ?Cn, ?Ck in D.
  apply N.eqb_neq in A. rewrite A in D.
  assert (X : negb (l_expried l) || (l_locked l =? 0) = true).
  { destruct B as [B|B]; rewrite B; [reflexivity|apply orb_true_r]. }
  rewrite X in D.
  repeat (split_hyp D); inv D; (split; [reflexivity|]); (split; [frs|]); do 3 eexists; unfold ack_reply; ew.
Qed.

(* pending hold, positive acknowledgement: SUCCED to the connection the record points at; the hold stays (it is armed
   for expiry); no manager's hold counter or value changes *)
Theorem do_ack_succed : forall s r l s' ev w,
  aget (store s) r = Some l -> l_ack l <> 255 -> l_expried l = true -> l_locked l <> 0 ->
  has (c_eflag (l_cmd l)) EF_MILLISECOND = false ->
  do_ack s r true = (s', ev, w) ->
  w = None /\ fr s s' /\ exists lc lrc d, ends_with ev (ack_reply l R_SUCCED lc lrc d).
Proof.
  intros s r l s' ev w H A B L M D. rewrite (do_ack_unfold _ _ _ _ H) in D. cbv zeta in D.
  destruct (stop_timeout_core _ _ _ H) as (l1 & E1 & C & T).
  assert (F1 : fr s (stop_timeout s r l)) by auto with fr.
  set (s1 := stop_timeout s r l) in *. rewrite (getl_of _ _ _ E1) in D.
  destruct C as (Ck & Cc & Cn & Cd & Cl & Ca & Ce & _). rewrite ?Ca, ?Ce, ?Cl, ?Cc, ?Cn, ?Ck in D.
  apply N.eqb_neq in A, L. rewrite A, B, L, M in D. cbn [negb orb] in D.
  repeat (split_hyp D); inv D; (split; [reflexivity|]); (split; [frs|]); do 3 eexists; unfold ack_reply; ew.
Qed.

(* the value roll-back of a failed / timed-out ack-lock, as do_ack and do_timeout perform it: the value the key has
   afterwards (a failing ProcessRecoverLockData leaves it alone and is reported as a panic event) *)
Definition rb_value (c : cmd) (before : option mdata) (ld : option lockdata) : option mdata :=
  if has_data_flag c then
    match process_recover_lock_data before ld with Ok (cur', _) => cur' | _ => before end
  else before.

Definition rollback_step (s : db) (k : N) (r : ref) (c : cmd) : db * list event :=
  if has_data_flag c then
    match process_recover_lock_data (m_data (getm s k)) (l_data (getl s r)) with
    | Ok (cur', ld') => (updl (updm s k (fun m => m <| m_data := cur' |>)) r (fun l => l <| l_data := ld' |>), [])
    | Panic site => (s, [EPanic site])
    | _ => (s, [EPanic "recover-unsupported"%string])
    end
  else (s, []).

Lemma rollback_step_spec s k r c s3 dev : rollback_step s k r c = (s3, dev) ->
  Forall quiet dev /\ ack_le s s3
  /\ forall k', aget (mgrs s3) k' =
                aget (mgrs (updm s k (fun m => m <| m_data := rb_value c (m_data (getm s k)) (l_data (getl s r)) |>))) k'.
Proof.
  unfold rollback_step, rb_value. intros H.
  assert (ID : forall k', aget (mgrs s) k' = aget (mgrs (updm s k (fun m => m <| m_data := m_data (getm s k) |>))) k').
  { intros k'. rewrite aget_mgrs_updm. destruct (k =? k') eqn:E; [|reflexivity]. apply N.eqb_eq in E. subst k'.
    unfold getm. destruct (aget (mgrs s) k) as [m|]; [|reflexivity]. destruct m; reflexivity. }
  destruct (has_data_flag c).
  - destruct (process_recover_lock_data _ _) as [[cur' ld']| | |]; inv H.
    + split; [constructor|]. split.
      * intros r0. rewrite getl_updl, getl_updm. destruct (r =? r0) eqn:E; [|apply lrec_le_refl].
        apply N.eqb_eq in E. subst r0. rewrite store_updm. unfold getl. destruct (aget (store s) r); [|apply lrec_le_refl].
        split; left; reflexivity.
      * intros k'. rewrite mgrs_updl. reflexivity.
    + split; [repeat constructor|]. split; [intros r0; apply lrec_le_refl|exact ID].
    + split; [repeat constructor|]. split; [intros r0; apply lrec_le_refl|exact ID].
    + split; [repeat constructor|]. split; [intros r0; apply lrec_le_refl|exact ID].
  - inv H. split; [constructor|]. split; [intros r0; apply lrec_le_refl|exact ID].
Qed.

(* pending hold, negative acknowledgement: ERROR to the requester, the hold is removed (the key's hold counter drops by
   the depth, the record has depth 0 and nothing pending), the value is rolled back when the command carried one, and a
   wake-up pass for the key is pending *)
Theorem do_ack_failed : forall s r l s' ev w,
  aget (store s) r = Some l -> l_ack l <> 255 -> l_expried l = true -> l_locked l <> 0 ->
  do_ack s r false = (s', ev, w) ->
  let k := l_key l in
  w = Some (mkWake k None)
  /\ (exists lc lrc d, ends_with ev (ack_reply l R_ERROR lc lrc d))
  /\ (exists rest, ev = ERelease k r (l_locked l) :: rest)
  /\ l_locked (getl s' r) = 0 /\ l_ack (getl s' r) = 255
  /\ (forall m', aget (mgrs s') k = Some m' ->
        exists m, aget (mgrs s) k = Some m /\ m_locked m' = sub32 (m_locked m) (l_locked l)
                  /\ dval (m_data m') = dval (rb_value (l_cmd l) (m_data m) (l_data l)))
  /\ (forall k' m', k' <> k -> aget (mgrs s') k' = Some m' -> exists m, aget (mgrs s) k' = Some m /\ mview m' = mview m).
Proof.
  intros s r l s' ev w H A B L D k. rewrite (do_ack_unfold _ _ _ _ H) in D. cbv zeta in D.
  destruct (stop_timeout_core _ _ _ H) as (l1 & E1 & C & T).
  pose proof (stop_timeout_mgrs s r l) as M1.
  set (s1 := stop_timeout s r l) in *. rewrite (getl_of _ _ _ E1) in D.
  destruct C as (Ck & Cc & Cn & Cd & Cl & Ca & Ce & _). rewrite ?Ca, ?Ce, ?Cl, ?Cc, ?Cn, ?Ck in D.
  apply N.eqb_neq in A, L. rewrite A, B, L in D. cbn [negb orb] in D. fold k in D.
  set (s2 := updm s1 k (fun m => m <| m_locked := sub32 (m_locked m) (l_locked l) |>)) in *.
  match type of D with (let '(_, _) := ?X in _) = _ => change X with (rollback_step s2 k r (l_cmd l)) in D end.
  destruct (rollback_step s2 k r (l_cmd l)) as [s3 dev] eqn:E3.
  match type of D with (let '(_, _) := ?X in _) = _ => destruct X as [s4 aev] eqn:E4 end.
  destruct (rollback_step_spec _ _ _ _ _ _ E3) as (Qd & Qa & Qm).
  assert (Q4 : fr s3 s4 /\ only_aof aev).
  { destruct (l_isaof (getl s3 r)); [|inv E4; split; [apply fr_refl|constructor]].
    split; [eapply push_unlock_aof_fr; eauto with fr|eapply push_unlock_aof_only_aof; eauto]. }
  destruct Q4 as (F4 & Qe).
  inv D.
  set (s5 := remove_lock s4 k r).
  match goal with |- context [bump ?f ?X] => set (s6 := X) end.
  split; [reflexivity|]. split; [do 3 eexists; unfold ack_reply; simpl app; apply ew_cons; [exact I|]; ew|].
  split; [eexists; reflexivity|].
  destruct (remove_lock_done s4 k r) as (R1 & R2). fold s5 in R1, R2.
  assert (F56 : fr s5 s6) by (unfold s6; frs).
  assert (F45 : fr s4 s5) by (unfold s5; auto with fr).
  split; [change (l_locked (getl s6 r) = 0); eapply fr_locked_0; eauto|].
  split; [change (l_ack (getl s6 r) = 255); eapply fr_ack_255; eauto|].
  assert (F36 : fr s3 s6) by (eapply fr_trans; [exact F4|eapply fr_trans; eauto]).
  assert (L2 : getl s2 r = l1). { unfold s2. rewrite getl_updm. apply getl_of; auto. }
  split.
  - intros m' Hm'. change (aget (mgrs s6) k = Some m') in Hm'.
    destruct (fr_mview _ _ _ _ F36 Hm') as (m3 & H3 & V3).
    assert (N2 : aget (mgrs s2) k = option_map (fun m => m <| m_locked := sub32 (m_locked m) (l_locked l) |>) (aget (mgrs s) k)).
    { unfold s2. rewrite aget_mgrs_updm, N.eqb_refl, M1. reflexivity. }
    rewrite Qm, aget_mgrs_updm, N.eqb_refl, N2 in H3.
    destruct (aget (mgrs s) k) as [m|] eqn:Em; [|discriminate].
    exists m. split; [reflexivity|]. cbn [option_map] in H3. injection H3 as H3. subst m3.
    unfold mview in V3. cbn in V3. injection V3 as Va Vb.
    split; [exact Va|]. rewrite Vb.
    replace (getm s2 k) with (m <| m_locked := sub32 (m_locked m) (l_locked l) |>).
    2:{ unfold getm, s2. rewrite aget_mgrs_updm, N.eqb_refl, M1, Em. reflexivity. }
    rewrite L2, Cd. reflexivity.
  - intros k' m' Hk Hm'. change (aget (mgrs s6) k' = Some m') in Hm'.
    destruct (fr_mview _ _ _ _ F36 Hm') as (m3 & H3 & V3). exists m3. split; auto.
    rewrite Qm, aget_mgrs_updm in H3. destruct (k =? k') eqn:E; [apply N.eqb_eq in E; congruence|].
    unfold s2 in H3. rewrite aget_mgrs_updm, E, M1 in H3. exact H3.
Qed.

(* the millisecond expiry unit is outside the model: marked, never answered *)
Lemma do_ack_msec : forall s r l s' ev w,
  aget (store s) r = Some l -> l_ack l <> 255 -> l_expried l = true -> l_locked l <> 0 ->
  has (c_eflag (l_cmd l)) EF_MILLISECOND = true ->
  do_ack s r true = (s', ev, w) -> ev = [EPanic "millisecond-expiry-not-modelled"%string] /\ w = None.
Proof.
  intros s r l s' ev w H A B L M D. rewrite (do_ack_unfold _ _ _ _ H) in D. cbv zeta in D.
  destruct (stop_timeout_core _ _ _ H) as (l1 & E1 & C & T).
  set (s1 := stop_timeout s r l) in *. rewrite (getl_of _ _ _ E1) in D.
  destruct C as (Ck & Cc & Cn & Cd & Cl & Ca & Ce & _). rewrite ?Ca, ?Ce, ?Cl, ?Cc, ?Cn, ?Ck in D.
  apply N.eqb_neq in A, L. rewrite A, B, L, M in D. cbn [negb orb] in D.
  repeat (split_hyp D); inv D; auto.
Qed.

Lemma ends_with_only ev x e : ends_with ev x -> In e ev -> ~ noreply e -> e = x.
Proof.
  intros (p & -> & F) Hin Hn. apply in_app_or in Hin. destruct Hin as [Hin|[Hin|[]]]; auto.
  exfalso. apply Hn. rewrite Forall_forall in F. auto.
Qed.
Lemma succed_not_noreply e : is_succed e = true -> ~ noreply e.
Proof. destruct e; simpl; auto; discriminate. Qed.

(* A2: DoAckLock answers SUCCED exactly for a positive acknowledgement of a pending hold *)
Theorem do_ack_succed_iff : forall s r ok s' ev w,
  do_ack s r ok = (s', ev, w) ->
  ((exists e, In e ev /\ is_succed e = true) <->
   (ok = true /\ exists l, aget (store s) r = Some l /\ l_ack l <> 255 /\ l_expried l = true /\ l_locked l <> 0
                           /\ has (c_eflag (l_cmd l)) EF_MILLISECOND = false)).
Proof.
  intros s r ok s' ev w D. split.
  - intros (e & Hin & Hs). pose proof (succed_not_noreply _ Hs) as Hn.
    destruct (aget (store s) r) as [l|] eqn:E.
    2:{ unfold do_ack in D. rewrite E in D. inv D. destruct Hin as [<-|[]]. discriminate. }
    destruct (N.eq_dec (l_ack l) 255) as [A|A].
    { rewrite (do_ack_none_pending _ _ _ _ E A) in D. inv D. destruct Hin. }
    destruct (l_expried l) eqn:B.
    2:{ destruct (do_ack_stale _ _ _ _ _ _ _ E A (or_introl B) D) as (_ & _ & lc & lrc & d & W).
        rewrite (ends_with_only _ _ _ W Hin Hn) in Hs. discriminate. }
    destruct (N.eq_dec (l_locked l) 0) as [L|L].
    { destruct (do_ack_stale _ _ _ _ _ _ _ E A (or_intror L) D) as (_ & _ & lc & lrc & d & W).
      rewrite (ends_with_only _ _ _ W Hin Hn) in Hs. discriminate. }
    destruct ok.
    2:{ destruct (do_ack_failed _ _ _ _ _ _ E A B L D) as (_ & (lc & lrc & d & W) & _).
        rewrite (ends_with_only _ _ _ W Hin Hn) in Hs. discriminate. }
    destruct (has (c_eflag (l_cmd l)) EF_MILLISECOND) eqn:M.
    { destruct (do_ack_msec _ _ _ _ _ _ E A B L M D) as (-> & _). destruct Hin as [<-|[]]. discriminate. }
    split; [reflexivity|]. exists l. auto.
  - intros (-> & l & E & A & B & L & M).
    destruct (do_ack_succed _ _ _ _ _ _ E A B L M D) as (_ & _ & lc & lrc & d & p & -> & _).
    eexists. split; [apply in_or_app; right; left; reflexivity|reflexivity].
Qed.
