(* Step-granular schedules (DESIGN.md section 3): a request is a thread that runs between yield points
   (the verifPoint hooks in server/db.go): [manager lookup | park 9/10] [critical section of Lock/UnLock + reply |
   park before the wake-up pass] [one wakeUpWaitLocks iteration | park 7] ...  A schedule is any list of
   start / resume actions.  A sweep either runs to completion ([SSweepT] / [SSweepE]) or is a thread too
   ([SStartSweep]): [collection of the due locks of the elapsed seconds up to the first second that has any, under
   the shard mutex | park 14/15] [critical section of doTimeOut / doExpried of ONE collected lock + reply | park 3/4
   before its wake-up pass] [one wakeUpWaitLocks iteration | park 7] ... [next collected lock | park 14/15] ...
   All functions are those of Engine.v / Engine2.v; SchedSweep.v proves that a sweep thread that is never
   interleaved with anything computes sweep_timeouts / sweep_expiries. *)
From Coq Require Import String.
From Slock Require Import Engine.Types Engine.Queues Engine.Timers Engine.Engine Engine.Engine2.
Open Scope N_scope.

Inductive thread :=
| TReq (conn : N) (c : cmd)     (* parked between the key-manager lookup and the shard mutex *)
| TWake (w : wake) (epoch : N)  (* parked before a wake-up pass / between two of its iterations; it holds a pointer to
                                   the manager object of that moment: if the manager was removed meanwhile the pass
                                   reads `waited = false` on the dead object and ends *)
| TSweep (is_t : bool)           (* true: checkTimeTimeOut, false: checkTimeExpried *)
         (todo : list ref)       (* collected (popped from the wheel slot / long table, reference kept), not yet fired *)
         (w : option (wake * N)) (* Some: parked before / inside the wake-up pass of the lock fired last (pass, epoch) *)
         (t : Z) (secs : nat)    (* next second to collect, number of seconds left (t + secs = now-at-start + 1) *)
         (nowv : Z).             (* `now` as read by the driver loop when the sweep started *)

Record sstate := mkS { s_db : db; s_threads : list thread; s_epochs : amap N (* key -> number of removals so far *) }.

Definition init_sstate (t0 : Z) (aoft : N) : sstate := mkS (init_db t0 aoft) [] [].

Definition epoch_of (e : amap N) (k : N) : N := match aget e k with Some n => n | None => 0 end.

(* every key whose manager existed before the step and does not exist after it was removed once *)
Fixpoint bump_epochs (old : amap mgr) (s' : db) (e : amap N) : amap N :=
  match old with
  | [] => e
  | (k, _) :: rest =>
      let e := bump_epochs rest s' e in
      match aget (mgrs s') k with
      | Some _ => e
      | None => aset e k (epoch_of e k + 1)
      end
  end.

(* the part of Lock that runs before the shard mutex: concurrent-check probes, then GetOrNewLockManager *)
Definition lock_prefix (s : db) (conn : N) (c : cmd) : db * list event * bool (* parks? *) :=
  let k := c_key c in
  let pre :=
    if has (c_flag c) LOCK_FLAG_CONCURRENT_CHECK && (c_timeout c =? 0) then
      match aget (mgrs s) k with
      | Some m =>
          if (c_count c <? 65535) && (c_count c <? m_locked m)
          then Some [reply conn c R_TIMEOUT (m_locked m) 0 (data_of s k)]
          else if (m_locked m =? 0) && has (c_tflag c) TF_WAIT_WHEN_UNLOCK
               then Some [reply conn c R_TIMEOUT 0 0 None] else None
      | None => if has (c_tflag c) TF_WAIT_WHEN_UNLOCK then Some [reply conn c R_TIMEOUT 0 0 None] else None
      end
    else None in
  match pre with
  | Some ev => (s, ev, false)
  | None =>
      let s := match aget (mgrs s) k with
               | Some _ => s
               | None => bump (fun n => n <| n_key := (n_key n + 1)%Z |>) (setm s k new_mgr)
               end in
      (s, [], true)
  end.

(* the critical section: lock_step without its pre-checks (they ran in the prefix) *)
Definition lock_body (s : db) (conn : N) (c : cmd) : db * list event * option wake :=
  let '(s', ev, w) := lock_step s conn (c <| c_flag := N.land (c_flag c) 247 (* clear 0x08 *) |>) in
  (s', ev, w).

Definition after_body (e : amap N) (th : list thread) (res : db * list event * option wake) : sstate * list event :=
  let '(s, ev, w) := res in
  (* the pass keeps the pointer to the manager object the critical section worked on: if that object was removed
     inside the critical section (or later) the key's epoch has moved on when the pass runs *)
  (mkS s (match w with Some w => th ++ [TWake w (epoch_of e (w_key w))] | None => th end) e, ev).

Fixpoint remove_nth {A} (n : nat) (l : list A) : list A :=
  match n, l with
  | _, [] => []
  | O, _ :: r => r
  | S n', x :: r => x :: remove_nth n' r
  end.

Fixpoint set_nth {A} (n : nat) (l : list A) (x : A) : list A :=
  match n, l with
  | _, [] => []
  | O, _ :: r => x :: r
  | S n', y :: r => y :: set_nth n' r x
  end.

(* ---------------------------------------------------------------- a sweep as a thread *)
Definition collect_gen (is_t : bool) (s : db) (t nowv : Z) : db * list ref * list event :=
  if is_t then let '(s', due) := collect_timeouts s t nowv in (s', due, []) else collect_expiries s t nowv.

Definition fire_gen (is_t : bool) : db -> ref -> db * list event * option wake :=
  if is_t then do_timeout else do_expried.

(* the collecting halves of the seconds t, t+1, ... (at most n of them) up to and including the first one that
   collects anything: the goroutine does not reach a yield point in a second without due locks *)
Fixpoint sweep_advance (n : nat) (is_t : bool) (s : db) (t nowv : Z) : db * list event * option (list ref * Z * nat) :=
  match n with
  | O => (s, [], None)
  | S n' =>
      let '(s1, due, e1) := collect_gen is_t s t nowv in
      match due with
      | [] => let '(s2, e2, r) := sweep_advance n' is_t s1 (t + 1)%Z nowv in (s2, e1 ++ e2, r)
      | _ :: _ => (s1, e1, Some (due, (t + 1)%Z, n'))
      end
  end.

(* where the sweep goes after a per-lock call (or its wake-up pass) has ended: the next collected lock (parks in
   front of it), else the following seconds; None = the sweep has finished *)
Definition sweep_next (is_t : bool) (s : db) (todo : list ref) (t : Z) (n : nat) (nowv : Z)
  : db * list event * option thread :=
  match todo with
  | _ :: _ => (s, [], Some (TSweep is_t todo None t n nowv))
  | [] =>
      let '(s', ev, r) := sweep_advance n is_t s t nowv in
      (s', ev, match r with
               | Some (due, t', n') => Some (TSweep is_t due None t' n' nowv)
               | None => None
               end)
  end.

(* the head of the driver loop (checkTimeOut / checkExpried) + the first collection(s) *)
Definition sweep_start (is_t : bool) (s : db) : db * list event * option thread :=
  let nowv := now s in
  let t0 := if is_t then checkT s else checkE s in
  let s := if is_t then s <| checkT := (nowv + 1)%Z |> else s <| checkE := (nowv + 1)%Z |> in
  sweep_next is_t s [] t0 (Z.to_nat (nowv + 1 - t0)) nowv.

(* one step of a parked sweep: one wake-up iteration of the lock fired last, or the critical section of the next lock *)
Definition sweep_resume (s : db) (ep : amap N) (is_t : bool) (todo : list ref) (w : option (wake * N))
           (t : Z) (n : nat) (nowv : Z) : db * list event * option thread :=
  match w with
  | Some (wk, e0) =>
      if negb (epoch_of ep (w_key wk) =? e0) then sweep_next is_t s todo t n nowv    (* dead manager object *)
      else
        let '(s', ev, r) := wake_iter s wk in
        match r with
        | WMore => (s', ev, Some (TSweep is_t todo w t n nowv))
        | WDone => let '(s'', ev', th) := sweep_next is_t s' todo t n nowv in (s'', ev ++ ev', th)
        end
  | None =>
      match todo with
      | [] => (s, [], None)
      | r :: rest =>
          let '(s', ev, wo) := fire_gen is_t s r in
          match wo with
          | Some wk => (s', ev, Some (TSweep is_t rest (Some (wk, epoch_of ep (w_key wk))) t n nowv))
          | None => let '(s'', ev', th) := sweep_next is_t s' rest t n nowv in (s'', ev ++ ev', th)
          end
      end
  end.

Inductive saction :=
| SStart (conn : N) (c : cmd)
| SResume (j : N)                 (* the (j mod #parked)-th parked thread, in creation order *)
| SAdvance (k : Z) | SSweepT | SSweepE
| SStartSweep (is_t : bool)       (* the sweep as a thread: runs up to its first yield point (14 / 15) *)
| SAtomic (a : action).            (* any engine action run to completion (no yield) *)

Definition sstep_raw (st : sstate) (a : saction) : sstate * list event :=
  let s := s_db st in
  let th := s_threads st in
  let ep := s_epochs st in
  match a with
  | SStart conn c =>
      if c_lock c then
        let '(s', ev, parks) := lock_prefix s conn c in
        (mkS s' (if parks then th ++ [TReq conn c] else th) ep, ev)
      else
        match aget (mgrs s) (c_key c) with
        | None => let '(s', ev, _) := unlock_step s conn c in (mkS s' th ep, ev)
        | Some _ => (mkS s (th ++ [TReq conn c]) ep, [])
        end
  | SResume j =>
      match th with
      | [] => (st, [])
      | _ =>
          let i := N.to_nat (j mod N.of_nat (length th)) in
          match nth_error th i with
          | None => (st, [])
          | Some (TReq conn c) =>
              let th' := remove_nth i th in
              if c_lock c then
                match aget (mgrs s) (c_key c) with
                | None =>      (* the manager was removed meanwhile: lockKey mismatch, Lock starts over; the
                                  harness resumes a thread that parks again at the same point at once *)
                    let '(s', ev, parks) := lock_prefix s conn c in
                    if parks then let '(st2, ev2) := after_body ep th' (lock_body s' conn c) in (st2, ev ++ ev2)
                    else (mkS s' th' ep, ev)
                | Some _ => after_body ep th' (lock_body s conn c)
                end
              else after_body ep th' (unlock_step s conn c)
          | Some (TWake w e0) =>
              if negb (epoch_of ep (w_key w) =? e0) then (mkS s (remove_nth i th) ep, [])   (* dead manager object *)
              else
              let '(s', ev, r) := wake_iter s w in
              match r with
              | WDone => (mkS s' (remove_nth i th) ep, ev)
              | WMore => (mkS s' th ep, ev)
              end
          | Some (TSweep is_t todo w t n nowv) =>
              let '(s', ev, r) := sweep_resume s ep is_t todo w t n nowv in
              (mkS s' (match r with Some x => set_nth i th x | None => remove_nth i th end) ep, ev)
          end
      end
  | SStartSweep is_t =>
      let '(s', ev, r) := sweep_start is_t s in
      (mkS s' (match r with Some x => th ++ [x] | None => th end) ep, ev)
  | SAdvance k => (mkS (s <| now := (now s + k)%Z |>) th ep, [])
  | SSweepT => let '(s', ev) := sweep_timeouts s in (mkS s' th ep, ev)
  | SSweepE => let '(s', ev) := sweep_expiries s in (mkS s' th ep, ev)
  | SAtomic a => let '(s', ev) := step s a in (mkS s' th ep, ev)
  end.

Definition sstep (st : sstate) (a : saction) : sstate * list event :=
  let '(st', ev) := sstep_raw st a in
  (mkS (s_db st') (s_threads st') (bump_epochs (mgrs (s_db st)) (s_db st') (s_epochs st')), ev).

Fixpoint srun (st : sstate) (acts : list saction) : sstate * list (list event) :=
  match acts with
  | [] => (st, [])
  | a :: rest => let '(st1, e1) := sstep st a in
                 let '(st2, es) := srun st1 rest in (st2, e1 :: es)
  end.
