(* FORK of Engine/InvQueue.v replayed on the definitions of AckAcctDef.v (require-ack locks, run class ack_core); changes are marked ACK or concern dead_waiter / the acknowledgement reference in g_xe. *)
(* Invariant proof, part 5: holder queue and wait queue of a key (AddLock, RemoveLock, AddWaitLock, GetWaitLock). *)
From Coq Require Import String ZifyN ZifyBool ZifyNat Permutation.
From Slock Require Import Engine.Types Engine.Queues Engine.Timers Engine.Engine Engine.Engine2 Engine.InvDef Engine.InvBase Engine.AckAcctDef
  Engine.AckAcctPrims Engine.AckAcctRec Engine.AckAcctWheel.
Open Scope N_scope.

(* ---------------------------------------------------------------- storing a rebuilt holder list *)
Lemma install_h s g k m m' :
  GInv s g -> aget (mgrs s) k = Some m -> k = g_dk g -> g_pw g = false ->
  m_ref m' = m_ref m -> m_locked m' = m_locked m -> m_wait m' = m_wait m ->
  (forall r0, (occ r0 (holders m') + occ r0 (g_ph g) = occ r0 (holders m) + occ r0 (g_pre g))%nat) ->
  (forall r0, In r0 (g_pre g) ->
     occ r0 (g_pre g) = 1%nat /\ occ r0 (holders m) = O /\
     exists l0, aget (store s) r0 = Some l0 /\ l_key l0 = k /\ dead_waiter l0 = true) ->
  (forall c, m_cur m' = Some c -> 0 < l_locked (getl s c)) ->
  (m_cur m' = None -> m_hq m' = []) ->
  (forall q, m_locks m' = Some q -> map_ok s q) ->
  (forall q, m_locks m' = Some q -> hq_cap q = 0 -> hq_fast q = []) ->
  GInv (setm s k m')
       (g <| g_ph := [] |> <| g_pre := [] |> <| g_lk := false |> <| g_dl := (g_dl g + Z.of_N (sumdepth s (g_pre g)))%Z |>).
Proof.
  intros G Hm Hk Hpw E1 E2 E3 Hrel Hpre Hcur Hnocur Hmap Hcap.
  assert (Hple : forall r0, (occ r0 (g_ph g) <= occ r0 (holders m))%nat).
  { intros r0. pose proof (gi_phle _ _ G r0) as P. unfold phl in P. rewrite Hpw, <- Hk, (getm_some _ _ _ Hm) in P. auto. }
  pose proof (m_wq_eq m m' E3) as Hw.
  destruct (gi_mgr _ _ G k m Hm) as [B1 B2 B3 B4 B5 B6 B7 B8 B9 Bb B10 Bc].
  assert (Hphk : phk g k = g_ph g) by (unfold phk; rewrite Hk, N.eqb_refl; auto).
  assert (Hdlk : dlk g k = g_dl g) by (unfold dlk; rewrite Hk, N.eqb_refl; auto).
  rewrite Hphk in B1. rewrite Hdlk in B6.
  assert (Hin : forall r0, In r0 (holders m') -> In r0 (holders m) /\ (occ r0 (g_ph g) < occ r0 (holders m))%nat \/ In r0 (g_pre g)).
  { intros r0 Hi. apply occ_In in Hi. specialize (Hrel r0). destruct (occ r0 (g_pre g)) eqn:E.
    - left. split; [apply occ_In|]; lia.
    - right. apply occ_In. lia. }
  assert (Hnd : NoDup (holders m')).
  { apply occ_nodup. intros r0. specialize (Hrel r0). pose proof (proj1 (occ_nodup _) B4 r0) as N0.
    destruct (occ r0 (g_pre g)) eqn:E; [lia|].
    assert (Hi : In r0 (g_pre g)) by (apply occ_In; lia). destruct (Hpre r0 Hi) as [P1 [P2 _]]. lia. }
  eapply setm_ginv; eauto; gs.
  - intros Hne. congruence.
  - constructor; gs; rewrite ?Hw; auto.
    + (* refs stored *)
      unfold phk. gs. rewrite <- Hk, N.eqb_refl. simpl occ. intros r0 Hlt. change (store (setm s k m')) with (store s).
      rewrite occ_app in Hlt. destruct (occ r0 (holders m')) eqn:E.
      * apply B1. rewrite occ_app. specialize (Hple r0). lia.
      * assert (Hi : In r0 (holders m')) by (apply occ_In; lia). destruct (Hin r0 Hi) as [[_ Hl]|Hp].
        -- apply B1. rewrite occ_app. lia.
        -- destruct (Hpre r0 Hp) as [_ [_ [l0 [H0 _]]]]. congruence.
    + intros r0 l0 Hi H0. change (store (setm s k m')) with (store s) in H0. apply in_app_or in Hi. destruct Hi as [Hi|Hi].
      * destruct (Hin r0 Hi) as [[Hi' _]|Hp]; [eapply B2; eauto; apply in_or_app; auto|].
        destruct (Hpre r0 Hp) as [_ [_ [l1 [H1 [K1 _]]]]]. congruence.
      * eapply B2; eauto. apply in_or_app; auto.
    + intros r0 Hi. change (next (setm s k m')) with (next s). apply in_app_or in Hi. destruct Hi as [Hi|Hi].
      * destruct (Hin r0 Hi) as [[Hi' _]|Hp]; [apply B3; apply in_or_app; auto|].
        destruct (Hpre r0 Hp) as [_ [_ [l1 [H1 _]]]]. apply (ro_lt _ _ _ _ (gi_rec _ _ G r0 l1 H1)).
      * apply B3. apply in_or_app; auto.
    + (* sum *)
      unfold dlk. gs. rewrite <- Hk, N.eqb_refl. change (sumdepth (setm s k m') (holders m')) with (sumdepth s (holders m')).
      assert (P : Permutation (holders m' ++ g_ph g) (holders m ++ g_pre g)).
      { apply occ_perm. intros r0. rewrite !occ_app. apply Hrel. }
      pose proof (sumdepth_perm s _ _ P) as SP. rewrite !sumdepth_app in SP.
      rewrite (sumdepth_zero s (g_ph g)) in SP by (intros r0 Hi; apply (gi_ph _ _ G r0 Hi); auto).
      rewrite E2. lia.
    + rewrite E1. auto.
    + rewrite E1, E2. auto.
    + split; [exact Hcap|rewrite E3; apply Bc].
  - intros r0 l0 H0 K0. rewrite Hw. specialize (Hrel r0). split; [simpl occ; lia|].
    destruct (gi_rec _ _ G r0 l0 H0) as [A1 A2 A3 A4 A5 A6 A7 A8 A9 A10 A11].
    rewrite K0, (getm_some _ _ _ Hm) in *. split.
    + intros Ht. destruct (A6 Ht) as [Q1 [Q2 [Q3 Q4]]]. split; auto.
      destruct (occ r0 (g_pre g)) eqn:E; [specialize (Hple r0); lia|].
      assert (Hi : In r0 (g_pre g)) by (apply occ_In; lia). destruct (Hpre r0 Hi) as [_ [_ [l1 [H1 [_ T1]]]]]. congruence.
    + intros Hl _. destruct (occ r0 (g_pre g)) eqn:E.
      * assert (Hp0 : occ r0 (g_ph g) = O).
        { destruct (occ r0 (g_ph g)) eqn:E2'; auto. assert (Hi : In r0 (g_ph g)) by (apply occ_In; lia).
          destruct (gi_ph _ _ G r0 Hi) as [Z _]. specialize (Z Hpw). rewrite (getl_some _ _ _ H0) in Z. lia. }
        specialize (A7 Hl eq_refl). lia.
      * assert (Hi : In r0 (g_pre g)) by (apply occ_In; lia). destruct (Hpre r0 Hi) as [P1 [P2 _]]. specialize (Hple r0). lia.
  - intros r0 l0 H0 K0. simpl occ.
    assert (Z1 : occ r0 (g_pre g) = O).
    { destruct (occ r0 (g_pre g)) eqn:E; auto. assert (Hi : In r0 (g_pre g)) by (apply occ_In; lia).
      destruct (Hpre r0 Hi) as [_ [_ [l1 [H1 [K1 _]]]]]. congruence. }
    assert (Z2 : occ r0 (g_ph g) = O).
    { pose proof (Hple r0) as P. destruct (holders_key_h s g k m r0 l0 G Hm H0 K0). lia. }
    split; lia.
  - rewrite E2. lia.
  - simpl. tauto.
  - intros _ r0. simpl. lia.
Qed.

(* ---------------------------------------------------------------- storing a rebuilt wait list *)
Lemma install_w s g k m m' :
  GInv s g -> aget (mgrs s) k = Some m -> k = g_dk g -> g_pw g = true ->
  m_ref m' = m_ref m -> m_locked m' = m_locked m -> m_cur m' = m_cur m -> m_locks m' = m_locks m ->
  (forall r0, (occ r0 (m_wq m') + occ r0 (g_ph g) = occ r0 (m_wq m) + occ r0 (g_pre g))%nat) ->
  (forall r0, In r0 (g_pre g) ->
     occ r0 (g_pre g) = 1%nat /\ occ r0 (m_wq m) = O /\
     exists l0, aget (store s) r0 = Some l0 /\ l_key l0 = k /\ dead_waiter l0 = true /\ l_locked l0 = 0) ->
  (forall q, m_wait m' = Some q -> (wq_cap q = 0 -> wq_fast q = []) /\ (wq_mode q = WFast -> wq_ring q = [])) ->
  GInv (setm s k m') (g <| g_ph := [] |> <| g_pre := [] |> <| g_pw := false |>).
Proof.
  intros G Hm Hk Hpw E1 E2 E3 E4 Hrel Hpre Hcap.
  assert (Hple : forall r0, (occ r0 (g_ph g) <= occ r0 (m_wq m))%nat).
  { intros r0. pose proof (gi_phle _ _ G r0) as P. unfold phl in P. rewrite Hpw, <- Hk, (getm_some _ _ _ Hm) in P. auto. }
  destruct (holders_eq m m' E3 E4) as [Hh Hq].
  destruct (gi_mgr _ _ G k m Hm) as [B1 B2 B3 B4 B5 B6 B7 B8 B9 Bb B10 Bc].
  assert (Hphk : phk g k = g_ph g) by (unfold phk; rewrite Hk, N.eqb_refl; auto).
  rewrite Hphk in B1.
  assert (Hin : forall r0, In r0 (m_wq m') -> In r0 (m_wq m) /\ (occ r0 (g_ph g) < occ r0 (m_wq m))%nat \/ In r0 (g_pre g)).
  { intros r0 Hi. apply occ_In in Hi. specialize (Hrel r0). destruct (occ r0 (g_pre g)) eqn:E.
    - left. split; [apply occ_In|]; lia.
    - right. apply occ_In. lia. }
  assert (Hnd : NoDup (m_wq m')).
  { apply occ_nodup. intros r0. specialize (Hrel r0). pose proof (proj1 (occ_nodup _) B5 r0) as N0.
    destruct (occ r0 (g_pre g)) eqn:E; [lia|].
    assert (Hi : In r0 (g_pre g)) by (apply occ_In; lia). destruct (Hpre r0 Hi) as [P1 [P2 _]]. lia. }
  eapply setm_ginv; eauto; gs.
  - intros Hne. congruence.
  - constructor; gs; rewrite ?Hh, ?Hq, ?E1, ?E2, ?E3, ?E4; auto.
    + unfold phk. gs. rewrite <- Hk, N.eqb_refl. simpl occ. intros r0 Hlt. change (store (setm s k m')) with (store s).
      rewrite occ_app in Hlt. destruct (occ r0 (m_wq m')) eqn:E.
      * apply B1. rewrite occ_app. specialize (Hple r0). specialize (Hrel r0). lia.
      * assert (Hi : In r0 (m_wq m')) by (apply occ_In; lia). destruct (Hin r0 Hi) as [[_ Hl]|Hp].
        -- apply B1. rewrite occ_app. lia.
        -- destruct (Hpre r0 Hp) as [_ [_ [l0 [H0 _]]]]. congruence.
    + intros r0 l0 Hi H0. change (store (setm s k m')) with (store s) in H0. apply in_app_or in Hi. destruct Hi as [Hi|Hi].
      * eapply B2; eauto. apply in_or_app; auto.
      * destruct (Hin r0 Hi) as [[Hi' _]|Hp]; [eapply B2; eauto; apply in_or_app; auto|].
        destruct (Hpre r0 Hp) as [_ [_ [l1 [H1 [K1 _]]]]]. congruence.
    + intros r0 Hi. change (next (setm s k m')) with (next s). apply in_app_or in Hi. destruct Hi as [Hi|Hi].
      * apply B3. apply in_or_app; auto.
      * destruct (Hin r0 Hi) as [[Hi' _]|Hp]; [apply B3; apply in_or_app; auto|].
        destruct (Hpre r0 Hp) as [_ [_ [l1 [H1 _]]]]. apply (ro_lt _ _ _ _ (gi_rec _ _ G r0 l1 H1)).
    + split; [apply Bc|exact Hcap].
  - intros r0 l0 H0 K0. rewrite Hh. specialize (Hrel r0). split; [simpl occ; lia|].
    destruct (gi_rec _ _ G r0 l0 H0) as [A1 A2 A3 A4 A5 A6 A7 A8 A9 A10 A11].
    rewrite K0, (getm_some _ _ _ Hm) in *. split.
    + intros Ht. destruct (A6 Ht) as [Q1 [Q2 [Q3 Q4]]]. split; auto.
      assert (Hp0 : occ r0 (g_ph g) = O).
      { destruct (occ r0 (g_ph g)) eqn:E2'; auto. assert (Hi : In r0 (g_ph g)) by (apply occ_In; lia).
        destruct (gi_ph _ _ G r0 Hi) as [_ Z]. rewrite (getl_some _ _ _ H0) in Z. congruence. }
      destruct (occ r0 (g_pre g)) eqn:E; [lia|].
      assert (Hi : In r0 (g_pre g)) by (apply occ_In; lia). destruct (Hpre r0 Hi) as [_ [_ [l1 [H1 [_ [T1 _]]]]]]. congruence.
    + intros Hl _. destruct (occ r0 (g_pre g)) eqn:E; [apply (A7 Hl eq_refl)|].
      assert (Hi : In r0 (g_pre g)) by (apply occ_In; lia). destruct (Hpre r0 Hi) as [_ [_ [l1 [H1 [_ [_ D1]]]]]].
      assert (l1 = l0) by congruence. subst. lia.
  - intros r0 l0 H0 K0. simpl occ.
    assert (Z1 : occ r0 (g_pre g) = O).
    { destruct (occ r0 (g_pre g)) eqn:E; auto. assert (Hi : In r0 (g_pre g)) by (apply occ_In; lia).
      destruct (Hpre r0 Hi) as [_ [_ [l1 [H1 [K1 _]]]]]. congruence. }
    assert (Z2 : occ r0 (g_ph g) = O).
    { pose proof (Hple r0) as P. destruct (holders_key_h s g k m r0 l0 G Hm H0 K0). lia. }
    split; lia.
  - rewrite E2. lia.
  - simpl. tauto.
  - intros _ r0. simpl. lia.
Qed.

(* ---------------------------------------------------------------- what the pop-and-unref loops leave unchanged *)
Record qframe (s s' : db) : Prop := mkQf {
  qf_l : forall r, match aget (store s) r with
                   | None => aget (store s') r = None
                   | Some l => aget (store s') r = None \/ exists n, aget (store s') r = Some (l <| l_refc := n |>)
                   end;
  qf_m : forall k, match aget (mgrs s) k with
                   | None => aget (mgrs s') k = None
                   | Some m => exists n, aget (mgrs s') k = Some (m <| m_ref := n |>)
                   end;
  qf_tw : twheel s' = twheel s; qf_tl : tlong s' = tlong s; qf_ew : ewheel s' = ewheel s; qf_el : elong s' = elong s;
  qf_next : next s' = next s; qf_cnt : cnt s' = cnt s; qf_now : now s' = now s; qf_leader : leader s' = leader s;
  qf_ct : checkT s' = checkT s; qf_ce : checkE s' = checkE s; qf_cfg : cfg_aoftime s' = cfg_aoftime s
}.

Lemma lrefc_id l : l <| l_refc := l_refc l |> = l.  Proof. destruct l; reflexivity. Qed.
Lemma lrefc_twice l a b : l <| l_refc := a |> <| l_refc := b |> = l <| l_refc := b |>.  Proof. destruct l; reflexivity. Qed.
Lemma mref_id m : m <| m_ref := m_ref m |> = m.  Proof. destruct m; reflexivity. Qed.
Lemma mref_twice m a b : m <| m_ref := a |> <| m_ref := b |> = m <| m_ref := b |>.  Proof. destruct m; reflexivity. Qed.

Lemma qframe_refl s : qframe s s.
Proof.
  constructor; auto.
  - intros r. destruct (aget (store s) r) as [l|]; auto. right. exists (l_refc l). rewrite lrefc_id. auto.
  - intros k. destruct (aget (mgrs s) k) as [m|]; auto. exists (m_ref m). rewrite mref_id. auto.
Qed.
Lemma qframe_trans a b c : qframe a b -> qframe b c -> qframe a c.
Proof.
  intros [L1 M1 A1 A2 A3 A4 A5 A6 A7 A8 A9 A10 A11] [L2 M2 B1 B2 B3 B4 B5 B6 B7 B8 B9 B10 B11].
  constructor; try congruence.
  - intros r. specialize (L1 r). specialize (L2 r). destruct (aget (store a) r) as [l|].
    + destruct L1 as [L1|[n L1]]; rewrite L1 in L2.
      * left. exact L2.
      * destruct L2 as [L2|[n' L2]]; [left; exact L2|].
        right. exists n'. rewrite L2. rewrite lrefc_twice. reflexivity.
    + rewrite L1 in L2. auto.
  - intros k. specialize (M1 k). specialize (M2 k). destruct (aget (mgrs a) k) as [m|].
    + destruct M1 as [n M1]. rewrite M1 in M2. destruct M2 as [n' M2]. exists n'. rewrite M2, mref_twice. auto.
    + rewrite M1 in M2. auto.
Qed.

Lemma free_lock_qframe s r : qframe s (free_lock s r).
Proof.
  unfold free_lock. destruct (aget (store s) r) as [l|] eqn:Hr; [|apply qframe_refl].
  set (s1 := s <| store := adel (store s) r |>).
  assert (Hst : store (updm s1 (l_key l) (fun m => m <| m_ref := dec32 (m_ref m) |>)) = adel (store s) r).
  { unfold updm. destruct (aget (mgrs s1) (l_key l)); reflexivity. }
  constructor; try (unfold updm; destruct (aget (mgrs s1) (l_key l)); reflexivity).
  - intros r0. rewrite Hst, aget_adel. destruct (r =? r0) eqn:E.
    + apply N.eqb_eq in E; subst. rewrite Hr. auto.
    + destruct (aget (store s) r0) as [l0|]; auto. right. exists (l_refc l0). rewrite lrefc_id. auto.
  - intros k. unfold updm. change (mgrs s1) with (mgrs s). destruct (aget (mgrs s) (l_key l)) as [m|] eqn:Hm.
    + rewrite mgrs_setm, aget_aset. change (mgrs s1) with (mgrs s). destruct (l_key l =? k) eqn:E.
      * apply N.eqb_eq in E; subst. rewrite Hm. eauto.
      * destruct (aget (mgrs s) k) as [m0|]; auto. exists (m_ref m0). rewrite mref_id. auto.
    + change (mgrs s1) with (mgrs s). destruct (aget (mgrs s) k) as [m0|]; auto. exists (m_ref m0). rewrite mref_id. auto.
Qed.

Lemma setl_refc_qframe s r l n : aget (store s) r = Some l -> qframe s (setl s r (l <| l_refc := n |>)).
Proof.
  intros Hr. constructor; auto.
  - intros r0. rewrite store_setl, aget_aset. destruct (r =? r0) eqn:E.
    + apply N.eqb_eq in E; subst. rewrite Hr. eauto.
    + destruct (aget (store s) r0) as [l0|]; auto. right. exists (l_refc l0). rewrite lrefc_id. auto.
  - intros k. change (mgrs (setl s r (l <| l_refc := n |>))) with (mgrs s).
    destruct (aget (mgrs s) k) as [m0|]; auto. exists (m_ref m0). rewrite mref_id. auto.
Qed.

Lemma unref_qframe s r : qframe s (unref s r).
Proof.
  unfold unref. destruct (aget (store s) r) as [l|] eqn:Hr; [|apply qframe_refl].
  destruct (dec8 (l_refc l) =? 0).
  - eapply qframe_trans; [apply setl_refc_qframe; eauto|apply free_lock_qframe].
  - apply setl_refc_qframe; auto.
Qed.

(* consequences *)
Lemma qframe_getl s s' r : qframe s s' -> aget (store s') r <> None ->
  exists l n, aget (store s) r = Some l /\ aget (store s') r = Some (l <| l_refc := n |>).
Proof.
  intros Q H. pose proof (qf_l _ _ Q r) as P. destruct (aget (store s) r) as [l|]; [|congruence].
  destruct P as [P|[n P]]; [congruence|eauto].
Qed.
Lemma qframe_getm s s' k : qframe s s' -> exists n, getm s' k = (getm s k) <| m_ref := n |>.
Proof.
  intros Q. pose proof (qf_m _ _ Q k) as P. unfold getm. destruct (aget (mgrs s) k) as [m|].
  - destruct P as [n P]. rewrite P. eauto.
  - rewrite P. exists 0. reflexivity.
Qed.
Lemma qframe_lists s s' k : qframe s s' ->
  holders (getm s' k) = holders (getm s k) /\ m_wq (getm s' k) = m_wq (getm s k) /\ m_locked (getm s' k) = m_locked (getm s k)
  /\ m_cur (getm s' k) = m_cur (getm s k) /\ m_locks (getm s' k) = m_locks (getm s k) /\ m_wait (getm s' k) = m_wait (getm s k)
  /\ m_waited (getm s' k) = m_waited (getm s k) /\ m_data (getm s' k) = m_data (getm s k).
Proof. intros Q. destruct (qframe_getm s s' k Q) as [n ->]. destruct (getm s k); cbn. repeat split. Qed.
Lemma qframe_mgr_some s s' k m : qframe s s' -> aget (mgrs s) k = Some m -> exists n, aget (mgrs s') k = Some (m <| m_ref := n |>).
Proof. intros Q H. pose proof (qf_m _ _ Q k) as P. rewrite H in P. auto. Qed.

Definition hq_capok (q : hqueue) : Prop := hq_cap q = 0 -> hq_fast q = [].
Definition wq_capok (q : wqueue) : Prop := (wq_cap q = 0 -> wq_fast q = []) /\ (wq_mode q = WFast -> wq_ring q = []).
Lemma wq_pop_capok q : wq_capok q -> wq_capok (wq_pop q).
Proof.
  unfold wq_capok, wq_pop. intros [H H2]. destruct (wq_fast q) as [|x t] eqn:Ef.
  - destruct (wq_ring q) eqn:Er; cbn; auto. rewrite Ef. split; auto. intros E. specialize (H2 E). discriminate.
  - cbn. split; auto. intros E. specialize (H E). discriminate.
Qed.
Lemma hq_pop_capok q q' o : hq_capok q -> hq_pop q = (o, q') -> hq_capok q'.
Proof.
  unfold hq_capok, hq_pop. intros H. destruct (hq_fast q) as [|x t] eqn:Ef.
  - destruct (hq_scale q) as [[[|y u] mp]|]; intros E; inversion E; subst; cbn; auto.
  - intros E; inversion E; subst. cbn. intros E0. specialize (H E0). discriminate.
Qed.
Lemma hq_removelock_capok q id : hq_capok q -> hq_capok (hq_removelock q id).
Proof. unfold hq_capok, hq_removelock. destruct (hq_scale q) as [[l mp]|]; cbn; auto. Qed.

(* ---------------------------------------------------------------- one step of a pop-and-unref loop *)
Lemma drop_step s g k r L :
  GInv s g -> g_dk g = k -> occ r (g_owe g) = O (* ACK: was g_owe g = [] *) -> occ r (g_pre g) = O ->
  (forall r0, (occ r0 (r :: L) + occ r0 (g_ph g) = occ r0 (phl s g))%nat) ->
  (aget (store s) r = None \/ dead_waiter (getl s r) = true) ->
  (g_pw g = false -> l_locked (getl s r) = 0) ->
  GInv (unref s r) (g <| g_ph := r :: g_ph g |>)
  /\ (forall r0, (occ r0 L + occ r0 (r :: g_ph g) = occ r0 (phl (unref s r) (g <| g_ph := r :: g_ph g |>)))%nat).
Proof.
  intros G Hk Ho Hq Hrel Hdead Hdep.
  assert (Hlt : (occ r (g_ph g) < occ r (phl s g))%nat) by (specialize (Hrel r); rewrite occ_cons_eq in Hrel; lia).
  assert (Hmg : exists m, aget (mgrs s) k = Some m).
  { destruct (aget (mgrs s) k) as [m|] eqn:E; eauto. unfold phl in Hlt. rewrite Hk in Hlt. unfold getm in Hlt. rewrite E in Hlt.
    destruct (g_pw g); simpl in Hlt; lia. }
  destruct Hmg as [m Hm].
  assert (Hin : (occ r (phk g k) < occ r (holders m ++ m_wq m))%nat).
  { unfold phk. rewrite Hk, N.eqb_refl. unfold phl in Hlt. rewrite Hk, (getm_some _ _ _ Hm) in Hlt. rewrite occ_app.
    destruct (g_pw g); lia. }
  pose proof (mo_refs _ _ _ _ (gi_mgr _ _ G k m Hm) r Hin) as Hst.
  destruct (aget (store s) r) as [l|] eqn:Hr; [|congruence].
  assert (Hkey : l_key l = k).
  { eapply (mo_key _ _ _ _ (gi_mgr _ _ G k m Hm)); eauto. apply occ_In. lia. }
  rewrite (getl_some _ _ _ Hr) in *.
  destruct Hdead as [Hd|Hd]; [discriminate|].
  assert (G' : GInv (unref s r) (g <| g_ph := r :: g_ph g |>)).
  { eapply unref_ph; eauto; try congruence. }
  split; auto.
  intros r0. unfold phl. gs. rewrite Hk.
  destruct (qframe_lists s (unref s r) k (unref_qframe s r)) as [Q1 [Q2 _]]. rewrite Q1, Q2.
  specialize (Hrel r0). unfold phl in Hrel. rewrite Hk in Hrel. rewrite !occ_cons in *. lia.
Qed.

(* ---------------------------------------------------------------- GetWaitLock *)
Lemma wq_pop_items q r : wq_head q = Some r -> wq_items q = r :: wq_items (wq_pop q).
Proof.
  unfold wq_head, wq_pop, wq_items. destruct (wq_fast q) as [|x t] eqn:Ef.
  - destruct (wq_ring q) as [|y u] eqn:Er; [discriminate|]. intros E; inversion E; subst.
    destruct q; cbn in *. subst. reflexivity.
  - intros E; inversion E; subst. destruct q; cbn in *. subst. reflexivity.
Qed.
Lemma wq_head_none q : wq_head q = None -> wq_items q = [].
Proof.
  unfold wq_head, wq_items. destruct (wq_fast q); [|discriminate]. destruct (wq_ring q); [auto|discriminate].
Qed.

(* ACK: a live waiter in the sense of the Go code *)
Lemma dead_waiter_false l : dead_waiter l = false -> l_timeouted l = false /\ l_ack l = 255.
Proof. unfold dead_waiter. intros H. apply orb_false_iff in H. destruct H as [H1 H2]. apply negb_false_iff, N.eqb_eq in H2. auto. Qed.
Lemma timeouted_dead l : l_timeouted l = true -> dead_waiter l = true.
Proof. unfold dead_waiter. intros ->. reflexivity. Qed.

Lemma get_wait_loop_ginv fuel : forall s g k q,
  GInv s g -> g_dk g = k -> g_pw g = true -> g_owe g = [] -> g_pre g = [] ->
  (forall r0, (occ r0 (wq_items q) + occ r0 (g_ph g) = occ r0 (phl s g))%nat) ->
  (length (wq_items q) < fuel)%nat -> wq_capok q ->
  exists ph', let '(s', q', w) := get_wait_loop fuel s q in
    GInv s' (g <| g_ph := ph' |>) /\ qframe s s' /\ wq_capok q'
    /\ (forall r0, (occ r0 (wq_items q') + occ r0 ph' = occ r0 (phl s' (g <| g_ph := ph' |>)))%nat)
    /\ match w with
       | Some r => wq_head q' = Some r /\ exists l, aget (store s') r = Some l /\ dead_waiter l = false
       | None => wq_items q' = []
       end.
Proof.
  induction fuel as [|f IH]; intros s g k q G Hk Hpw Ho Hq Hrel Hf Hc; [simpl in Hf; lia|].
  simpl. destruct (wq_head q) as [r|] eqn:Eh.
  - pose proof (wq_pop_items q r Eh) as Hit.
    destruct (dead_waiter (getl s r)) eqn:Ed.
    + (* dead head *)
      rewrite Hit in Hrel.
      assert (Hdead : aget (store s) r = None \/ dead_waiter (getl s r) = true).
      { destruct (aget (store s) r) as [l|] eqn:Hr; auto. }
      destruct (drop_step s g k r (wq_items (wq_pop q)) G Hk ltac:(rewrite Ho; reflexivity) ltac:(rewrite Hq; reflexivity) Hrel Hdead) as [G1 R1]; [rewrite Hpw; discriminate|].
      assert (Hf' : (length (wq_items (wq_pop q)) < f)%nat) by (rewrite Hit in Hf; simpl in Hf; lia).
      destruct (IH (unref s r) (g <| g_ph := r :: g_ph g |>) k (wq_pop q) G1 Hk Hpw Ho Hq R1 Hf' (wq_pop_capok q Hc)) as [ph' P].
      exists ph'. destruct (get_wait_loop f (unref s r) (wq_pop q)) as [[s' q'] w].
      assert (Eg : g <| g_ph := r :: g_ph g |> <| g_ph := ph' |> = g <| g_ph := ph' |>) by (destruct g; reflexivity).
      rewrite Eg in P. destruct P as [P1 [P2 [Pc [P3 P4]]]].
      split; [exact P1|]. split; [eapply qframe_trans; [apply unref_qframe|exact P2]|]. split; [exact Pc|]. split; [exact P3|exact P4].
    + exists (g_ph g). assert (Eg : g <| g_ph := g_ph g |> = g) by (destruct g; reflexivity). rewrite Eg.
      split; [exact G|]. split; [apply qframe_refl|]. split; [exact Hc|]. split; [exact Hrel|]. split; [exact Eh|].
      destruct (aget (store s) r) as [l|] eqn:Hr.
      * exists l. split; auto. rewrite (getl_some _ _ _ Hr) in Ed. auto.
      * rewrite (getl_none _ _ Hr) in Ed. discriminate.
  - exists (g_ph g). assert (Eg : g <| g_ph := g_ph g |> = g) by (destruct g; reflexivity). rewrite Eg.
    split; [exact G|]. split; [apply qframe_refl|]. split; [exact Hc|]. split; [exact Hrel|]. apply wq_head_none; auto.
Qed.

Lemma ginv_set_pw s g b : GInv s g -> g_ph g = [] -> GInv s (g <| g_pw := b |>).
Proof.
  intros G Hp. destruct G as [W1 W2 W3 W4 W5 W6 L R M S P PL N1 N2 N3].
  constructor; auto.
  - intros r0 l0 H. destruct (R r0 l0 H) as [A1 A2 A3 A4 A5 A6 A7 A8 A9 A10 A11]. constructor; auto.
  - intros k0 m0 H. apply (mgr_ok_geq s g); auto.
  - gs. rewrite Hp. simpl. tauto.
  - intros r. gs. rewrite Hp. simpl. lia.
Qed.

(* frame of a whole queue operation (loop + storing the new queue) *)
Record lframe (s s' : db) : Prop := mkLf {
  lf_l : forall r, match aget (store s) r with
                   | None => aget (store s') r = None
                   | Some l => aget (store s') r = None \/ exists n, aget (store s') r = Some (l <| l_refc := n |>)
                   end;
  lf_m : forall k, (aget (mgrs s') k = None <-> aget (mgrs s) k = None)
                   /\ m_locked (getm s' k) = m_locked (getm s k)
                   /\ m_data (getm s' k) = m_data (getm s k);
  lf_tw : twheel s' = twheel s; lf_tl : tlong s' = tlong s; lf_ew : ewheel s' = ewheel s; lf_el : elong s' = elong s;
  lf_next : next s' = next s; lf_cnt : cnt s' = cnt s; lf_now : now s' = now s; lf_leader : leader s' = leader s;
  lf_ct : checkT s' = checkT s; lf_ce : checkE s' = checkE s; lf_cfg : cfg_aoftime s' = cfg_aoftime s
}.

Lemma qframe_lframe s s' : qframe s s' -> lframe s s'.
Proof.
  intros Q. destruct Q as [L1 M1 A1 A2 A3 A4 A5 A6 A7 A8 A9 A10 A11]. constructor; auto.
  intros k. specialize (M1 k). unfold getm. destruct (aget (mgrs s) k) as [m|].
  - destruct M1 as [n ->]. destruct m; cbn. repeat split; intros; discriminate.
  - rewrite M1. repeat split; auto.
Qed.
Lemma lframe_refl s : lframe s s.
Proof. apply qframe_lframe, qframe_refl. Qed.
Lemma lframe_trans a b c : lframe a b -> lframe b c -> lframe a c.
Proof.
  intros [L1 M1 A1 A2 A3 A4 A5 A6 A7 A8 A9 A10 A11] [L2 M2 B1 B2 B3 B4 B5 B6 B7 B8 B9 B10 B11].
  constructor; try congruence.
  - intros r. specialize (L1 r). specialize (L2 r). destruct (aget (store a) r) as [l|].
    + destruct L1 as [L1|[n L1]]; rewrite L1 in L2.
      * left. exact L2.
      * destruct L2 as [L2|[n' L2]]; [left; exact L2|].
        right. exists n'. rewrite L2. rewrite lrefc_twice. reflexivity.
    + rewrite L1 in L2. auto.
  - intros k. destruct (M1 k) as [X1 [X2 X4]]. destruct (M2 k) as [Y1 [Y2 Y4]].
    repeat split; try congruence; tauto.
Qed.
(* storing new lists in a manager *)
Lemma lframe_updm_lists s k f :
  (forall m, m_locked (f m) = m_locked m /\ m_data (f m) = m_data m) ->
  lframe s (updm s k f).
Proof.
  intros H. unfold updm. destruct (aget (mgrs s) k) as [m|] eqn:Hm; [|apply lframe_refl].
  constructor; auto.
  - intros r. change (store (setm s k (f m))) with (store s). destruct (aget (store s) r) as [l|]; auto.
    right. exists (l_refc l). rewrite lrefc_id. auto.
  - intros k0. rewrite getm_setm, mgrs_setm, aget_aset. destruct (k =? k0) eqn:E.
    + apply N.eqb_eq in E; subst. rewrite (getm_some _ _ _ Hm), Hm. destruct (H m) as [H1 H3].
      repeat split; auto; intros; discriminate.
    + repeat split; auto.
Qed.

Lemma get_wait_lock_ginv s g k :
  GInv s g -> g_dk g = k -> g_ph g = [] -> g_pw g = false -> g_owe g = [] -> g_pre g = [] ->
  let '(s', w) := get_wait_lock s k in
  GInv s' g /\ lframe s s'
  /\ holders (getm s' k) = holders (getm s k) /\ m_cur (getm s' k) = m_cur (getm s k) /\ m_locks (getm s' k) = m_locks (getm s k)
  /\ match w with
     | Some r => In r (m_wq (getm s' k)) /\ exists l, aget (store s') r = Some l /\ dead_waiter l = false
     | None => m_wq (getm s' k) = []
     end.
Proof.
  intros G Hk Hp Hpw Ho Hq. unfold get_wait_lock.
  destruct (m_wait (getm s k)) as [q|] eqn:Ew.
  - assert (Hwq : m_wq (getm s k) = wq_items q) by (unfold m_wq; rewrite Ew; auto).
    pose proof (ginv_set_pw s g true G Hp) as G1.
    assert (Hrel : forall r0, (occ r0 (wq_items q) + occ r0 (g_ph (g <| g_pw := true |>)) = occ r0 (phl s (g <| g_pw := true |>)))%nat).
    { intros r0. unfold phl. gs. rewrite Hp, Hk, Hwq. simpl. lia. }
    assert (Hc0 : wq_capok q).
    { unfold getm in Ew. destruct (aget (mgrs s) k) as [m0|] eqn:Hm0; [|discriminate].
      exact (proj2 (mo_cap _ _ _ _ (gi_mgr _ _ G k m0 Hm0)) q Ew). }
    destruct (get_wait_loop_ginv (S (length (wq_items q))) s (g <| g_pw := true |>) k q G1 Hk eq_refl Ho Hq Hrel (Nat.lt_succ_diag_r _) Hc0) as [ph' P].
    destruct (get_wait_loop (S (length (wq_items q))) s q) as [[s' q'] w].
    destruct P as [P1 [P2 [Pc [P3 P4]]]].
    destruct (qframe_lists s s' k P2) as [Q1 [Q2 [Q3 [Q4 [Q5 [Q6 [Q7 Q8]]]]]]].
    (* the manager still exists *)
    destruct (aget (mgrs s) k) as [m|] eqn:Hm.
    + destruct (qframe_mgr_some s s' k m P2 Hm) as [n Hm'].
      set (mo := m <| m_ref := n |>) in *.
      rewrite (updm_some _ _ _ _ Hm').
      set (m' := mo <| m_wait := Some q' |>).
      assert (Hgm' : getm s' k = mo) by (apply getm_some; auto).
      assert (G2 : GInv (setm s' k m') (g <| g_pw := true |> <| g_ph := ph' |> <| g_ph := [] |> <| g_pre := [] |> <| g_pw := false |>)).
      { apply (install_w s' _ k mo m' P1 Hm'); gs; auto.
        - intros r0. specialize (P3 r0). unfold phl in P3. gs. rewrite Hk, Hgm' in P3. rewrite Hq. simpl. rewrite <- P3.
          unfold m', m_wq. destruct mo; cbn. lia.
        - rewrite Hq. simpl. tauto.
        - intros q0 Hq0. assert (q0 = q') by (destruct mo; cbn in Hq0; congruence). subst q0. exact Pc. }
      split; [eapply ginv_geq; [exact G2|]; destruct g; gs; subst; reflexivity|].
      assert (Hgm2 : getm (setm s' k m') k = m') by apply getm_setm_same.
      split; [|rewrite Hgm2; unfold m'; split; [|split; [|split]]].
      * eapply lframe_trans; [apply qframe_lframe; exact P2|].
        pose proof (lframe_updm_lists s' k (fun m => m <| m_wait := Some q' |>)) as LF. rewrite (updm_some _ _ _ _ Hm') in LF.
        apply LF. intros m0. destruct m0; cbn. auto.
      * rewrite <- Q1, Hgm'. destruct mo; reflexivity.
      * rewrite <- Q4, Hgm'. destruct mo; reflexivity.
      * rewrite <- Q5, Hgm'. destruct mo; reflexivity.
      * assert (Hw' : m_wq (mo <| m_wait := Some q' |>) = wq_items q') by (destruct mo; reflexivity). rewrite Hw'.
        destruct w as [r|]; [|exact P4]. destruct P4 as [P4 P5]. split; auto.
        unfold wq_head in P4. unfold wq_items. destruct (wq_fast q') as [|x t]; [|inversion P4; subst; simpl; auto].
        destruct (wq_ring q') as [|y u]; [discriminate|inversion P4; subst; simpl; auto].
    + exfalso. unfold getm in Ew. rewrite Hm in Ew. discriminate.
  - split; [exact G|]. split; [apply lframe_refl|]. repeat split; auto. unfold m_wq. rewrite Ew. reflexivity.
Qed.

Lemma unref_other s r r1 : r1 <> r -> aget (store (unref s r)) r1 = aget (store s) r1.
Proof.
  intros H. unfold unref. destruct (aget (store s) r) as [l|] eqn:Hr; auto.
  assert (E1 : aget (store (setl s r (l <| l_refc := dec8 (l_refc l) |>))) r1 = aget (store s) r1).
  { rewrite store_setl, aget_aset. destruct (r =? r1) eqn:E; auto. apply N.eqb_eq in E. congruence. }
  destruct (dec8 (l_refc l) =? 0); auto.
  unfold free_lock. destruct (aget (store (setl s r (l <| l_refc := dec8 (l_refc l) |>))) r) as [l2|]; auto.
  assert (E2 : forall s0 k f, store (updm s0 k f) = store s0) by (intros; unfold updm; destruct (aget (mgrs s0) k); reflexivity).
  rewrite E2. cbn [store]. 
  change (store (setl s r (l <| l_refc := dec8 (l_refc l) |>) <| store := adel (store (setl s r (l <| l_refc := dec8 (l_refc l) |>))) r |>))
    with (adel (store (setl s r (l <| l_refc := dec8 (l_refc l) |>))) r).
  rewrite aget_adel. destruct (r =? r1) eqn:E; [apply N.eqb_eq in E; congruence|auto].
Qed.
Lemma unref_other_getl s r r1 : r1 <> r -> getl (unref s r) r1 = getl s r1.
Proof. intros H. unfold getl. rewrite unref_other; auto. Qed.


(* ---------------------------------------------------------------- holder queue: compaction *)
Lemma holder_timeouted s g k r l : GInv s g -> In r (holders (getm s k)) -> aget (store s) r = Some l ->
  dead_waiter l = true /\ l_key l = k.
Proof.
  intros G Hi Hr. unfold getm in Hi. destruct (aget (mgrs s) k) as [m|] eqn:Hm; [|simpl in Hi; tauto].
  assert (Hk : l_key l = k) by (eapply (mo_key _ _ _ _ (gi_mgr _ _ G k m Hm)); eauto; apply in_or_app; auto).
  split; auto. destruct (dead_waiter l) eqn:E; auto.
  destruct (ro_live _ _ _ _ (gi_rec _ _ G r l Hr) E) as [Q _]. rewrite Hk, (getm_some _ _ _ Hm) in Q.
  apply occ_In in Hi. lia.
Qed.

Lemma gph_twice g a b : g <| g_ph := a |> <| g_ph := b |> = g <| g_ph := b |>.  Proof. destruct g; reflexivity. Qed.
Lemma gph_id g : g <| g_ph := g_ph g |> = g.  Proof. destruct g; reflexivity. Qed.

Lemma hq_compact_ginv items : forall s g k A,
  GInv s g -> g_dk g = k -> g_pw g = false -> (forall x, In x items -> occ x (g_owe g) = O) (* ACK: was g_owe g = [] *) ->
  (forall x, In x items -> occ x (g_pre g) = O) ->
  (forall r0, (occ r0 (A ++ items) + occ r0 (g_ph g) = occ r0 (phl s g))%nat) ->
  exists ph', let '(s', kept) := hq_compact s items in
    GInv s' (g <| g_ph := ph' |>) /\ qframe s s'
    /\ (forall r0, (occ r0 (A ++ kept) + occ r0 ph' = occ r0 (phl s' (g <| g_ph := ph' |>)))%nat)
    /\ (length ph' + length kept = length (g_ph g) + length items)%nat
    /\ (forall x, ~ In x items -> aget (store s') x = aget (store s) x).
Proof.
  induction items as [|r rest IH]; intros s g k A G Hk Hpw Ho Hq Hrel.
  - exists (g_ph g). simpl. rewrite gph_id. split; [exact G|]. split; [apply qframe_refl|]. split; [exact Hrel|]. split; [lia|auto].
  - simpl. destruct (0 <? l_locked (getl s r)) eqn:El.
    + assert (Hrel' : forall r0, (occ r0 ((A ++ [r]) ++ rest) + occ r0 (g_ph g) = occ r0 (phl s g))%nat).
      { intros r0. rewrite <- app_assoc. apply Hrel. }
      destruct (IH s g k (A ++ [r]) G Hk Hpw (fun x Hx => Ho x (or_intror Hx)) (fun x Hx => Hq x (or_intror Hx)) Hrel') as [ph' P]. exists ph'.
      destruct (hq_compact s rest) as [s' kept]. destruct P as [P1 [P2 [P3 [P4 P5]]]].
      split; [exact P1|]. split; [exact P2|]. split; [|split; [simpl; lia|]].
      * intros r0. specialize (P3 r0). rewrite <- app_assoc in P3. exact P3.
      * intros x Hx. apply P5. intros Hi. apply Hx. right. auto.
    + apply N.ltb_ge in El.
      assert (Hrel' : forall r0, (occ r0 (r :: A ++ rest) + occ r0 (g_ph g) = occ r0 (phl s g))%nat).
      { intros r0. specialize (Hrel r0). rewrite occ_app, occ_cons in Hrel. rewrite occ_cons, occ_app. lia. }
      assert (Hinh : In r (holders (getm s k))).
      { apply occ_In. specialize (Hrel' r). unfold phl in Hrel'. rewrite Hpw, Hk, occ_cons_eq in Hrel'. lia. }
      assert (Hdead : aget (store s) r = None \/ dead_waiter (getl s r) = true).
      { destruct (aget (store s) r) as [l|] eqn:Hr; auto. right. rewrite (getl_some _ _ _ Hr).
        apply (holder_timeouted s g k r l G Hinh Hr). }
      destruct (drop_step s g k r (A ++ rest) G Hk (Ho r (or_introl eq_refl)) (Hq r (or_introl eq_refl)) Hrel' Hdead) as [G1 R1]; [intros; lia|].
      destruct (IH (unref s r) (g <| g_ph := r :: g_ph g |>) k A G1 Hk Hpw (fun x Hx => Ho x (or_intror Hx)) (fun x Hx => Hq x (or_intror Hx)) R1) as [ph' P]. exists ph'.
      destruct (hq_compact (unref s r) rest) as [s' kept]. rewrite gph_twice in P. destruct P as [P1 [P2 [P3 [P4 P5]]]].
      split; [exact P1|]. split; [eapply qframe_trans; [apply unref_qframe|exact P2]|]. split; [exact P3|]. split; [gs; simpl in *; lia|].
      intros x Hx. rewrite P5 by (intros Hi; apply Hx; right; auto). apply unref_other. intros ->. apply Hx. left. auto.
Qed.

(* ---------------------------------------------------------------- holder queue: pops *)
Lemma hq_size_items q : hq_size q = length (hq_items q).
Proof. unfold hq_size, hq_items. rewrite app_length. destruct (hq_scale q) as [[l mp]|]; auto. Qed.

Lemma hq_pop_some q r q' : hq_pop q = (Some r, q') ->
  hq_items q = r :: hq_items q'
  /\ (forall items mp, hq_scale q' = Some (items, mp) ->
        exists items0, hq_scale q = Some (items0, mp) /\ (items0 = items \/ items0 = r :: items)).
Proof.
  unfold hq_pop, hq_items. destruct (hq_fast q) as [|x t] eqn:Ef.
  - destruct (hq_scale q) as [[[|y u] mp]|] eqn:Es; try discriminate. intros E; inversion E; subst. cbn. rewrite Ef. split; auto.
    intros items mp0 H. inversion H; subst. eauto.
  - intros E; inversion E; subst. cbn. split; auto. intros items mp0 H. rewrite H. eauto.
Qed.
Lemma hq_pop_none q q' : hq_pop q = (None, q') -> hq_items q = [] /\ q' = q.
Proof.
  unfold hq_pop, hq_items. destruct (hq_fast q) as [|x t] eqn:Ef; [|discriminate].
  destruct (hq_scale q) as [[[|y u] mp]|] eqn:Es; try discriminate; intros E; inversion E; subst; auto.
Qed.
Lemma hq_head_pop q : hq_head q = fst (hq_pop q).
Proof.
  unfold hq_head, hq_pop. destruct (hq_fast q); auto. destruct (hq_scale q) as [[[|y u] mp]|]; auto.
Qed.
Lemma hq_items_removelock q id : hq_items (hq_removelock q id) = hq_items q.
Proof. unfold hq_removelock, hq_items. destruct (hq_scale q) as [[l mp]|] eqn:E; cbn; rewrite ?E; auto. Qed.

Lemma map_ok_pop_dead s q r q' : map_ok s q -> hq_pop q = (Some r, q') -> l_locked (getl s r) = 0 -> map_ok (unref s r) q'.
Proof.
  intros M Hp Hd items mp Hs id r1 H1. destruct (hq_pop_some q r q' Hp) as [_ Hsc].
  destruct (Hsc items mp Hs) as [items0 [Hs0 Hi0]].
  destruct (M items0 mp Hs0 id r1 H1) as [C1 [C2 C3]].
  assert (Hne : r1 <> r) by (intros ->; lia).
  rewrite unref_other_getl by auto. split; auto.
  destruct Hi0 as [->| ->]; auto. destruct C1 as [C1|C1]; [congruence|auto].
Qed.
Lemma map_ok_pop_live s q r q' : map_ok s q -> hq_pop q = (Some r, q') ->
  map_ok s (hq_removelock q' (c_lockid (l_cmd (getl s r)))).
Proof.
  intros M Hp items mp Hs id r1 H1. destruct (hq_pop_some q r q' Hp) as [_ Hsc].
  unfold hq_removelock in Hs. destruct (hq_scale q') as [[it0 mp0]|] eqn:Es; [|rewrite Es in Hs; discriminate].
  cbn in Hs. inversion Hs; subst. destruct (Hsc items mp0 eq_refl) as [items0 [Hs0 Hi0]].
  rewrite aget_adel in H1. destruct (c_lockid (l_cmd (getl s r)) =? id) eqn:E; [discriminate|].
  destruct (M items0 mp0 Hs0 id r1 H1) as [C1 [C2 C3]]. split; auto.
  destruct Hi0 as [->| ->]; auto. destruct C1 as [C1|C1]; auto. subst r1. apply N.eqb_neq in E. congruence.
Qed.

Lemma promote_ginv fuel : forall s g k q,
  GInv s g -> g_dk g = k -> g_pw g = false -> g_owe g = [] -> g_pre g = [] ->
  (forall r0, (occ r0 (hq_items q) + occ r0 (g_ph g) = occ r0 (phl s g))%nat) ->
  map_ok s q -> (length (hq_items q) < fuel)%nat -> hq_capok q ->
  exists ph', let '(s', q', nc) := promote fuel s q in
    GInv s' (g <| g_ph := ph' |>) /\ qframe s s' /\ hq_capok q'
    /\ (forall r0, (occ r0 (match nc with Some c => [c] | None => [] end ++ hq_items q') + occ r0 ph'
                    = occ r0 (phl s' (g <| g_ph := ph' |>)))%nat)
    /\ map_ok s' q'
    /\ match nc with Some c => 0 < l_locked (getl s' c) | None => hq_items q' = [] end.
Proof.
  induction fuel as [|f IH]; intros s g k q G Hk Hpw Ho Hq Hrel Hmap Hf Hc; [simpl in Hf; lia|].
  simpl. destruct (hq_pop q) as [[r|] q'] eqn:Ep.
  - destruct (hq_pop_some q r q' Ep) as [Hit _].
    destruct (0 <? l_locked (getl s r)) eqn:El.
    + exists (g_ph g). rewrite gph_id. split; [exact G|]. split; [apply qframe_refl|].
      split; [apply hq_removelock_capok; eapply hq_pop_capok; eauto|].
      split; [|split; [eapply map_ok_pop_live; eauto|apply N.ltb_lt; auto]].
      intros r0. rewrite hq_items_removelock. specialize (Hrel r0). rewrite Hit in Hrel. exact Hrel.
    + apply N.ltb_ge in El. assert (El0 : l_locked (getl s r) = 0) by lia.
      rewrite Hit in Hrel.
      assert (Hinh : In r (holders (getm s k))).
      { apply occ_In. specialize (Hrel r). unfold phl in Hrel. rewrite Hpw, Hk, occ_cons_eq in Hrel. lia. }
      assert (Hdead : aget (store s) r = None \/ dead_waiter (getl s r) = true).
      { destruct (aget (store s) r) as [l|] eqn:Hr; auto. right. rewrite (getl_some _ _ _ Hr).
        apply (holder_timeouted s g k r l G Hinh Hr). }
      destruct (drop_step s g k r (hq_items q') G Hk ltac:(rewrite Ho; reflexivity) ltac:(rewrite Hq; reflexivity) Hrel Hdead) as [G1 R1]; [auto|].
      assert (Hf' : (length (hq_items q') < f)%nat) by (rewrite Hit in Hf; simpl in Hf; lia).
      pose proof (map_ok_pop_dead s q r q' Hmap Ep El0) as Hmap'.
      destruct (IH (unref s r) (g <| g_ph := r :: g_ph g |>) k q' G1 Hk Hpw Ho Hq R1 Hmap' Hf' (hq_pop_capok q q' _ Hc Ep)) as [ph' P]. exists ph'.
      destruct (promote f (unref s r) q') as [[s' q''] nc]. rewrite gph_twice in P. destruct P as [P1 [P2 [Pc [P3 [P4 P5]]]]].
      split; [exact P1|]. split; [eapply qframe_trans; [apply unref_qframe|exact P2]|]. split; [exact Pc|]. split; [exact P3|]. split; [exact P4|exact P5].
  - destruct (hq_pop_none q q' Ep) as [Hit ->].
    exists (g_ph g). rewrite gph_id. split; [exact G|]. split; [apply qframe_refl|]. split; [exact Hc|].
    split; [|split; [exact Hmap|exact Hit]]. intros r0. simpl. apply Hrel.
Qed.

Lemma drop_dead_heads_ginv fuel : forall s g k q A,
  GInv s g -> g_dk g = k -> g_pw g = false -> g_owe g = [] -> g_pre g = [] ->
  (forall r0, (occ r0 (A ++ hq_items q) + occ r0 (g_ph g) = occ r0 (phl s g))%nat) ->
  map_ok s q -> hq_capok q ->
  exists ph', let '(s', q') := drop_dead_heads fuel s q in
    GInv s' (g <| g_ph := ph' |>) /\ qframe s s' /\ hq_capok q'
    /\ (forall r0, (occ r0 (A ++ hq_items q') + occ r0 ph' = occ r0 (phl s' (g <| g_ph := ph' |>)))%nat)
    /\ map_ok s' q'.
Proof.
  induction fuel as [|f IH]; intros s g k q A G Hk Hpw Ho Hq Hrel Hmap Hc.
  - exists (g_ph g). simpl. rewrite gph_id. split; [exact G|]. split; [apply qframe_refl|]. split; [exact Hc|]. split; [exact Hrel|exact Hmap].
  - simpl. rewrite hq_head_pop. destruct (hq_pop q) as [[r|] q'] eqn:Ep; cbn [fst].
    + destruct (hq_pop_some q r q' Ep) as [Hit _].
      destruct (0 <? l_locked (getl s r)) eqn:El.
      * exists (g_ph g). rewrite gph_id. split; [exact G|]. split; [apply qframe_refl|]. split; [exact Hc|]. split; [exact Hrel|exact Hmap].
      * apply N.ltb_ge in El. assert (El0 : l_locked (getl s r) = 0) by lia.
        assert (Hrel' : forall r0, (occ r0 (r :: A ++ hq_items q') + occ r0 (g_ph g) = occ r0 (phl s g))%nat).
        { intros r0. specialize (Hrel r0). rewrite Hit, occ_app, occ_cons in Hrel. rewrite occ_cons, occ_app. lia. }
        assert (Hinh : In r (holders (getm s k))).
        { apply occ_In. specialize (Hrel' r). unfold phl in Hrel'. rewrite Hpw, Hk, occ_cons_eq in Hrel'. lia. }
        assert (Hdead : aget (store s) r = None \/ dead_waiter (getl s r) = true).
        { destruct (aget (store s) r) as [l|] eqn:Hr; auto. right. rewrite (getl_some _ _ _ Hr).
          apply (holder_timeouted s g k r l G Hinh Hr). }
        destruct (drop_step s g k r (A ++ hq_items q') G Hk ltac:(rewrite Ho; reflexivity) ltac:(rewrite Hq; reflexivity) Hrel' Hdead) as [G1 R1]; [auto|].
        pose proof (map_ok_pop_dead s q r q' Hmap Ep El0) as Hmap'.
        destruct (IH (unref s r) (g <| g_ph := r :: g_ph g |>) k q' A G1 Hk Hpw Ho Hq R1 Hmap' (hq_pop_capok q q' _ Hc Ep)) as [ph' P]. exists ph'.
        destruct (drop_dead_heads f (unref s r) q') as [s' q'']. rewrite gph_twice in P. destruct P as [P1 [P2 [Pc [P3 P4]]]].
        split; [exact P1|]. split; [eapply qframe_trans; [apply unref_qframe|exact P2]|]. split; [exact Pc|]. split; [exact P3|exact P4].
    + exists (g_ph g). rewrite gph_id. split; [exact G|]. split; [apply qframe_refl|]. split; [exact Hc|]. split; [exact Hrel|exact Hmap].
Qed.

(* ---------------------------------------------------------------- RemoveLock *)
Lemma ginv_set_lk_true s g : GInv s g -> GInv s (g <| g_lk := true |>).
Proof.
  intros G. destruct G as [W1 W2 W3 W4 W5 W6 L R M S P PL N1 N2 N3].
  constructor; auto.
  - intros r0 l0 H. destruct (R r0 l0 H) as [A1 A2 A3 A4 A5 A6 A7 A8 A9 A10 A11]. constructor; auto.
  - intros k0 m0 H. destruct (M k0 m0 H) as [B1 B2 B3 B4 B5 B6 B7 B8 B9 Bb B10 Bc].
    constructor; auto; unfold lkk in *; gs; intros Hl; destruct (k0 =? g_dk g); simpl in *; try discriminate;
      [apply B7|apply B8|apply B10]; destruct (g_lk g); auto.
Qed.

Lemma map_ok_setl s q r l' : map_ok s q ->
  (forall items mp, hq_scale q = Some (items, mp) -> forall id, aget mp id <> Some r) ->
  map_ok (setl s r l') q.
Proof.
  intros M Hn items mp Hs id r1 H1. destruct (M items mp Hs id r1 H1) as [C1 [C2 C3]].
  assert (r1 <> r) by (intros ->; eapply Hn; eauto).
  rewrite getl_setl. destruct (r =? r1) eqn:E; [apply N.eqb_eq in E; congruence|auto].
Qed.

Lemma qframe_locked s s' c : qframe s s' -> aget (store s') c <> None -> l_locked (getl s' c) = l_locked (getl s c).
Proof.
  intros Q H. destruct (qframe_getl s s' c Q H) as [l [n [H1 H2]]].
  rewrite (getl_some _ _ _ H1), (getl_some _ _ _ H2). destruct l; reflexivity.
Qed.
Lemma map_ok_obs s s' q : (forall r, getl s' r = getl s r) -> map_ok s q -> map_ok s' q.
Proof. intros H M items mp Hs id r1 H1. rewrite H. eapply M; eauto. Qed.

Lemma remove_lock_ginv s g k r l :
  GInv s g -> g_dk g = k -> g_ph g = [] -> g_pre g = [] -> g_owe g = [] -> g_pw g = false -> g_lk g = false ->
  aget (store s) r = Some l -> l_key l = k -> 0 < l_locked l ->
  (l_ack l <> 255 -> l_timeouted l = true) ->  (* ACK: a pending hold is rolled back after its timeouted flag is set *)
  GInv (remove_lock s k r) (g <| g_dl := (g_dl g - Z.of_N (l_locked l))%Z |>).
Proof.
  intros G Hk Hp Hq Ho Hpw Hlk Hr Hkey Hd Hpt.
  destruct (rec_counts s g r l G Hr) as [[C1 [C2 [C3 C4]]] [m [Hm Hgm]]].
  destruct (gi_rec _ _ G r l Hr) as [A1 A2 A3 A4 A5 A6 A7 A8 A9 A10 A11].
  rewrite Hkey in *. rewrite Hgm in *.
  assert (Hh : occ r (holders m) = 1%nat) by (apply A7; auto; rewrite Hq; reflexivity).
  assert (Hdw : dead_waiter l = true) by (destruct (dead_waiter l) eqn:E; auto; destruct (A6 eq_refl); lia).
  assert (Ht : l_timeouted l = true).
  { destruct (N.eq_dec (l_ack l) 255) as [Ea|Ea]; [|auto]. unfold dead_waiter in Hdw. rewrite Ea in Hdw. simpl in Hdw.
    rewrite orb_false_r in Hdw. exact Hdw. }
  destruct (gi_mgr _ _ G k m Hm) as [B1 B2 B3 B4 B5 B6 B7 B8 B9 Bb B10 Bc].
  assert (Hlkk : lkk g k = false) by (unfold lkk; rewrite Hlk; apply andb_false_r).
  specialize (B7 Hlkk). specialize (B8 Hlkk). specialize (B10 Hlkk).
  pose proof (ginv_set_lk_true s g G) as G1.
  set (l1 := l <| l_locked := 0 |> <| l_ack := 255 |>).
  assert (Hd1 : dead_waiter l1 = true) by (unfold dead_waiter; change (l_timeouted l1) with (l_timeouted l); rewrite Ht; reflexivity).
  assert (G2 : GInv (setl s r l1) (g <| g_lk := true |> <| g_dl := (g_dl g - Z.of_N (l_locked l))%Z |>)).
  { eapply ginv_geq; [apply (setl_depth s _ r l l1 G1 Hr); gs; auto; try (simpl; lia)|].
    rewrite Hkey, Hgm, Hh.
    match goal with |- _ = ?g0 <| g_dl := ?e |> => replace e with (g_dl g - Z.of_N (l_locked l))%Z; [reflexivity|] end.
    change (l_locked l1) with 0. gs. lia. }
  unfold remove_lock. rewrite (updl_some _ _ _ _ Hr). fold l1. cbv zeta.
  change (getm (setl s r l1) k) with (getm s k). rewrite (getm_some _ _ _ Hm).
  assert (Hg1 : getl (setl s r l1) r = l1) by (rewrite getl_setl, N.eqb_refl; auto). rewrite Hg1.
  set (s1 := setl s r l1) in *.
  assert (Hr1 : aget (store s1) r = Some l1) by (unfold s1; rewrite store_setl, aget_aset_same; auto).
  assert (Hm1 : aget (mgrs s1) k = Some m) by exact Hm.
  assert (Hgl1 : forall x, x <> r -> getl s1 x = getl s x).
  { intros x Hx. unfold s1. rewrite getl_setl. destruct (r =? x) eqn:E; auto. apply N.eqb_eq in E. congruence. }
  assert (Hphl1 : forall g', g_pw g' = false -> g_dk g' = k -> phl s1 g' = holders m).
  { intros g' E1 E2. unfold phl. rewrite E1, E2. change (getm s1 k) with (getm s k). rewrite (getm_some _ _ _ Hm). auto. }
  destruct (match m_cur m with Some c => c =? r | None => false end) eqn:Ecur.
  - (* r is the current lock *)
    destruct (m_cur m) as [c|] eqn:Ec; [|discriminate]. apply N.eqb_eq in Ecur. subst c.
    assert (Hhol : holders m = r :: m_hq m) by (unfold holders, cur_list; rewrite Ec; reflexivity).
    rewrite (updl_some _ _ _ _ Hr1).
    set (l2 := l1 <| l_refc := dec8 (l_refc l1) |>).
    set (g2 := g <| g_lk := true |> <| g_dl := (g_dl g - Z.of_N (l_locked l))%Z |>) in *.
    assert (Hrefc : 0 < l_refc l /\ l_refc l < 256) by (rewrite Ho, Hp, Hq in A3; simpl in A3; lia).
    assert (G3 : GInv (setl s1 r l2) (g2 <| g_ph := [r] |>)).
    { unfold l2. change (l_refc l1) with (l_refc l). rewrite dec8_pred by lia.
      eapply (setl_refc s1 g2 _ r l1 _ G2 Hr1); unfold g2; gs; auto;
        change (tcount s1 (g <| g_lk := true |> <| g_dl := (g_dl g - Z.of_N (l_locked l))%Z |> <| g_ph := [r] |>) r) with (tcount s g r);
        change (ecount s1 (g <| g_lk := true |> <| g_dl := (g_dl g - Z.of_N (l_locked l))%Z |> <| g_ph := [r] |>) r) with (ecount s g r);
        change (l_key l1) with (l_key l); rewrite ?Hkey; change (getm s1 k) with (getm s k); rewrite ?Hgm, ?Ho, ?Hp, ?Hq in *;
        simpl occ in *; rewrite ?N.eqb_refl; try lia.
      - occ_others.
      - rewrite (Hphl1 (g <| g_lk := true |> <| g_dl := (g_dl g - Z.of_N (l_locked l))%Z |>)); auto. lia.
      - intros Ha. exfalso. apply Ha. reflexivity. }
    set (s2 := setl s1 r l2) in *.
    assert (Hm2 : aget (mgrs s2) k = Some m) by exact Hm.
    destruct (m_locks m) as [q|] eqn:El.
    + (* promote *)
      assert (Hhq : m_hq m = hq_items q) by (unfold m_hq; rewrite El; auto).
      assert (Hmap2 : map_ok s2 q).
      { unfold s2, s1. apply map_ok_setl; [apply map_ok_setl; [apply B10; auto|]|];
          intros items mp Hs id E; destruct (B10 q eq_refl items mp Hs id r E) as [Ci _];
          assert (Hi : In r (m_hq m)) by (rewrite Hhq; unfold hq_items; rewrite Hs; apply in_or_app; auto);
          rewrite Hhol in B4; inversion B4; contradiction. }
      assert (Hrel : forall r0, (occ r0 (hq_items q) + occ r0 (g_ph (g2 <| g_ph := [r] |>)) = occ r0 (phl s2 (g2 <| g_ph := [r] |>)))%nat).
      { intros r0. unfold phl, g2. gs. rewrite Hpw, Hk. change (getm s2 k) with (getm s k). rewrite (getm_some _ _ _ Hm), Hhol, Hhq.
        rewrite occ_cons. simpl occ. lia. }
      rewrite hq_size_items.
      destruct (promote_ginv (S (length (hq_items q))) s2 (g2 <| g_ph := [r] |>) k q G3) as [ph' P]; unfold g2; gs; auto.
      { exact (proj1 Bc q eq_refl). }
      destruct (promote (S (length (hq_items q))) s2 q) as [[s' q'] nc]. fold g2 in P. rewrite gph_twice in P.
      destruct P as [P1 [P2 [Pc [P3 [P4 P5]]]]].
      destruct (qframe_mgr_some s2 s' k m P2 Hm2) as [n Hm'].
      set (mo := m <| m_ref := n |>) in *. rewrite (updm_some _ _ _ _ Hm').
      set (m' := mo <| m_cur := nc |> <| m_locks := Some q' |>).
      assert (Hhm' : holders m' = match nc with Some c => [c] | None => [] end ++ hq_items q') by (destruct mo; reflexivity).
      assert (Hhmo : holders mo = holders m) by (destruct m; reflexivity).
      assert (Hgmo : getm s' k = mo) by (apply getm_some; auto).
      eapply ginv_geq; [apply (install_h s' _ k mo m' P1 Hm'); unfold g2; gs; auto|].
      * intros r0. specialize (P3 r0). unfold phl, g2 in P3. gs. rewrite Hpw, Hk, Hgmo in P3. rewrite Hhm', Hq. simpl occ. lia.
      * rewrite Hq. simpl. tauto.
      * intros c Hc. assert (nc = Some c) by (destruct mo; exact Hc). subst nc. exact P5.
      * intros Hc. assert (nc = None) by (destruct mo; exact Hc). subst nc. unfold m_hq, m'. destruct mo; cbn. exact P5.
      * intros q0 Hq0. assert (q0 = q') by (destruct mo; cbn in Hq0; congruence). subst q0. exact P4.
      * intros q0 Hq0. assert (q0 = q') by (destruct mo; cbn in Hq0; congruence). subst q0. exact Pc.
      * match goal with |- _ = _ <| g_dl := ?e |> => replace e with (g_dl g - Z.of_N (l_locked l))%Z; [destruct g; gs; subst; reflexivity|] end.
        unfold g2; gs; rewrite Hq; simpl; lia.
    + (* no holder queue: the key becomes idle *)
      assert (Hhq : m_hq m = []) by (unfold m_hq; rewrite El; auto).
      rewrite (updm_some _ _ _ _ Hm2).
      set (m' := m <| m_cur := None |>).
      eapply ginv_geq; [apply (install_h s2 _ k m m' G3 Hm2); unfold g2; gs; auto|].
      * intros r0. assert (Hhm' : holders m' = []) by (unfold holders, cur_list, m_hq, m'; destruct m; cbn in *; rewrite El; reflexivity).
        rewrite Hhm', Hhol, Hhq, Hq. simpl occ. lia.
      * rewrite Hq. simpl. tauto.
      * intros c Hc. destruct m; discriminate.
      * intros q0 Hq0. destruct m; cbn in *. congruence.
      * intros q0 Hq0. destruct m; cbn in *. congruence.
      * match goal with |- _ = _ <| g_dl := ?e |> => replace e with (g_dl g - Z.of_N (l_locked l))%Z; [destruct g; gs; subst; reflexivity|] end.
        unfold g2; gs; rewrite Hq; simpl; lia.
  - (* another holder *)
    assert (Hcr : forall c, m_cur m = Some c -> c <> r).
    { intros c Hc ->. rewrite Hc, N.eqb_refl in Ecur. discriminate. }
    destruct (m_locks m) as [q|] eqn:El.
    + assert (Hhq : m_hq m = hq_items q) by (unfold m_hq; rewrite El; auto).
      set (q1 := hq_removelock q (c_lockid (l_cmd l1))).
      set (g2 := g <| g_lk := true |> <| g_dl := (g_dl g - Z.of_N (l_locked l))%Z |>) in *.
      assert (Hmap1 : map_ok s1 q1).
      { intros items mp Hs id r1 H1. unfold q1, hq_removelock in Hs. destruct (hq_scale q) as [[it0 mp0]|] eqn:Es; [|congruence].
        cbn in Hs. injection Hs as Hi Hmp. rewrite <- Hmp, <- Hi in *. rewrite aget_adel in H1.
        destruct (c_lockid (l_cmd l) =? id) eqn:E; [discriminate|].
        destruct (B10 q eq_refl it0 mp0 Es id r1 H1) as [D1 [D2 D3]].
        assert (r1 <> r). { intros ->. rewrite (getl_some _ _ _ Hr) in D3. apply N.eqb_neq in E. apply E. exact D3. }
        rewrite Hgl1 by auto. auto. }
      assert (Hrel : forall r0, (occ r0 (cur_list m ++ hq_items q1) + occ r0 (g_ph g2) = occ r0 (phl s1 g2))%nat).
      { intros r0. unfold phl, g2. gs. rewrite Hpw, Hk, Hp. change (getm s1 k) with (getm s k). rewrite (getm_some _ _ _ Hm).
        unfold q1. rewrite hq_items_removelock. unfold holders. rewrite Hhq. simpl occ. lia. }
      rewrite hq_size_items.
      destruct (drop_dead_heads_ginv (S (length (hq_items q1))) s1 g2 k q1 (cur_list m) G2) as [ph' P]; unfold g2; gs; auto.
      { apply hq_removelock_capok. exact (proj1 Bc q eq_refl). }
      fold q1. destruct (drop_dead_heads (S (length (hq_items q1))) s1 q1) as [s' q']. fold g2 in P.
      destruct P as [P1 [P2 [Pc [P3 P4]]]].
      destruct (qframe_mgr_some s1 s' k m P2 Hm1) as [n Hm'].
      set (mo := m <| m_ref := n |>) in *. rewrite (updm_some _ _ _ _ Hm').
      set (m' := mo <| m_locks := Some q' |>).
      assert (Hhm' : holders m' = cur_list m ++ hq_items q') by (destruct m; reflexivity).
      assert (Hgmo : getm s' k = mo) by (apply getm_some; auto).
      assert (Hrel' : forall r0, (occ r0 (holders m') + occ r0 ph' = occ r0 (holders mo))%nat).
      { intros r0. specialize (P3 r0). unfold phl, g2 in P3. gs. rewrite Hpw, Hk, Hgmo in P3. rewrite Hhm'. exact P3. }
      eapply ginv_geq; [apply (install_h s' _ k mo m' P1 Hm'); unfold g2; gs; auto|].
      * intros r0. rewrite Hq. simpl occ. specialize (Hrel' r0). lia.
      * rewrite Hq. simpl. tauto.
      * intros c Hc. assert (Hc0 : m_cur m = Some c) by (destruct m; exact Hc).
        assert (Hst : aget (store s') c <> None).
        { apply (mo_refs _ _ _ _ (gi_mgr _ _ P1 k mo Hm')). unfold phk, g2. gs. rewrite <- Hk, N.eqb_refl. rewrite occ_app.
          assert (Hhmo : holders mo = holders m) by (destruct m; reflexivity).
          specialize (Hrel' c). rewrite Hhm', occ_app in Hrel'. unfold cur_list in Hrel'. rewrite Hc0 in Hrel'. simpl occ in Hrel'. rewrite N.eqb_refl in Hrel'.
          pose proof (proj1 (occ_nodup _) B4 c) as N0. rewrite Hhmo in *. lia. }
        rewrite (qframe_locked s1 s' c P2 Hst). rewrite Hgl1 by (apply Hcr; auto). apply B7; auto.
      * intros Hc. assert (Hc0 : m_cur m = None) by (destruct m; exact Hc). exfalso.
        specialize (B8 Hc0). unfold holders, cur_list in Hh. rewrite Hc0, B8 in Hh. simpl in Hh. lia.
      * intros q0 Hq0. assert (q0 = q') by (destruct mo; cbn in Hq0; congruence). subst q0. exact P4.
      * intros q0 Hq0. assert (q0 = q') by (destruct mo; cbn in Hq0; congruence). subst q0. exact Pc.
      * match goal with |- _ = _ <| g_dl := ?e |> => replace e with (g_dl g - Z.of_N (l_locked l))%Z; [destruct g; gs; subst; reflexivity|] end.
        unfold g2; gs; rewrite Hq; simpl; lia.
    + exfalso. unfold holders, cur_list, m_hq in Hh. rewrite El in Hh. destruct (m_cur m) as [c|] eqn:Ec; simpl in Hh; [|lia].
      destruct (c =? r) eqn:E; [apply N.eqb_eq in E; apply (Hcr c eq_refl E)|lia].
Qed.
