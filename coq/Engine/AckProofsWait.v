(* C11 (A4): while an acknowledgement is pending, every request naming that LockId is answered LOCK_ACK_WAITING and
   changes nothing (an unlock only counts an unlock error).  Every state. *)
From Coq Require Import String ZifyN ZifyBool ZifyNat.
From Slock Require Import Engine.Types Engine.Queues Engine.Timers Engine.Engine Engine.Engine2.
From Slock Require Import Engine.AckProofsBase.
Open Scope N_scope.

(* the concurrent-check pre-check at the top of Lock (no mutex, no manager): Some = answered TIMEOUT there *)
Definition lock_precheck (s : db) (conn : N) (c : cmd) : option (list event) :=
  let k := c_key c in
  if has (c_flag c) LOCK_FLAG_CONCURRENT_CHECK && (c_timeout c =? 0) then
    match aget (mgrs s) k with
    | Some m =>
        if (c_count c <? 65535) && (c_count c <? m_locked m)
        then Some [reply conn c R_TIMEOUT (m_locked m) 0 (data_of s k)]
        else if (m_locked m =? 0) && has (c_tflag c) TF_WAIT_WHEN_UNLOCK
             then Some [reply conn c R_TIMEOUT 0 0 None] else None
    | None => if has (c_tflag c) TF_WAIT_WHEN_UNLOCK then Some [reply conn c R_TIMEOUT 0 0 None] else None
    end
  else None.

(* the LockId a LOCK request names: with the show flag it is re-targeted to the key's oldest holder *)
Definition lock_target (s : db) (m : mgr) (c : cmd) : cmd :=
  if has (c_flag c) LOCK_FLAG_SHOW
  then c <| c_lockid := c_lockid (l_cmd (getl s (match m_cur m with Some cr => cr | None => 0 end))) |>
  else c.

Theorem lock_ack_waiting : forall s conn c m r,
  let k := c_key c in
  let c1 := lock_target s m c in
  lock_precheck s conn c = None ->
  aget (mgrs s) k = Some m ->
  (leader s = true \/ has (c_flag c) LOCK_FLAG_FROM_AOF = true) ->
  m_locked m <> 0 ->
  (has (c_flag c) LOCK_FLAG_SHOW = false \/ has (c_flag c) LOCK_FLAG_UPDATE = true) ->
  get_locked_lock s m (c_lockid c1) = Some r ->
  l_ack (getl s r) <> 255 ->
  lock_step s conn c =
    (s, [reply conn c1 R_ACK_WAITING (m_locked m) (l_locked (getl s r)) (data_of s k)], None).
Proof.
  intros s conn c m r k c1 Hpre Hm Hrole Hl Hshow Hg Ha.
  unfold lock_step. cbv zeta. fold (lock_precheck s conn c). rewrite Hpre. fold k. rewrite Hm.
  assert (G : getm s k = m) by (unfold getm; rewrite Hm; reflexivity). rewrite G.
  assert (R : negb (leader s) && negb (has (c_flag c) LOCK_FLAG_FROM_AOF) = false).
  { destruct Hrole as [->| ->]; [reflexivity|apply andb_false_r]. }
  rewrite R.
  assert (L : (0 <? m_locked m) = true) by (apply N.ltb_lt; lia). rewrite L.
  assert (S : has (c_flag c) LOCK_FLAG_SHOW && negb (has (c_flag c) LOCK_FLAG_UPDATE) = false).
  { destruct Hshow as [->| ->]; [reflexivity|apply andb_false_r]. }
  rewrite S.
  fold (lock_target s m c). fold c1. rewrite Hg.
  apply N.eqb_neq in Ha. rewrite Ha. reflexivity.
Qed.

Definition count_unlock_error (s : db) : db := bump (fun n => n <| n_unlockerr := (n_unlockerr n + 1)%Z |>) s.

Theorem unlock_ack_waiting : forall s conn c m r,
  let k := c_key c in
  aget (mgrs s) k = Some m ->
  (leader s = true \/ has (c_flag c) UNLOCK_FLAG_FROM_AOF = true) ->
  m_locked m <> 0 ->
  get_locked_lock s m (c_lockid c) = Some r ->
  l_ack (getl s r) <> 255 ->
  unlock_step s conn c =
    (count_unlock_error s, [reply conn c R_ACK_WAITING (m_locked m) (l_locked (getl s r)) (data_of s k)], None).
Proof.
  intros s conn c m r k Hm Hrole Hl Hg Ha.
  unfold unlock_step. cbv zeta. fold k. rewrite Hm.
  assert (R : negb (leader s) && negb (has (c_flag c) UNLOCK_FLAG_FROM_AOF) = false).
  { destruct Hrole as [->| ->]; [reflexivity|apply andb_false_r]. }
  rewrite R. apply N.eqb_neq in Hl, Ha. rewrite Hl, Hg, Ha. reflexivity.
Qed.

(* unlock-first (flag 0x01) with a LockId that holds nothing: the target is the key's oldest holder *)
Theorem unlock_first_ack_waiting : forall s conn c m cr,
  let k := c_key c in
  aget (mgrs s) k = Some m ->
  (leader s = true \/ has (c_flag c) UNLOCK_FLAG_FROM_AOF = true) ->
  m_locked m <> 0 ->
  get_locked_lock s m (c_lockid c) = None ->
  has (c_flag c) UNLOCK_FLAG_FIRST = true ->
  m_cur m = Some cr ->
  l_ack (getl s cr) <> 255 ->
  unlock_step s conn c =
    (count_unlock_error s, [reply conn c R_ACK_WAITING (m_locked m) (l_locked (getl s cr)) (data_of s k)], None).
Proof.
  intros s conn c m cr k Hm Hrole Hl Hg Hf Hc Ha.
  unfold unlock_step. cbv zeta. fold k. rewrite Hm.
  assert (R : negb (leader s) && negb (has (c_flag c) UNLOCK_FLAG_FROM_AOF) = false).
  { destruct Hrole as [->| ->]; [reflexivity|apply andb_false_r]. }
  rewrite R. apply N.eqb_neq in Hl, Ha. rewrite Hl, Hg, Hf, Hc, Ha. reflexivity.
Qed.
