(* Invariant proof, part 9: cancelWaitLock, LockDB.UnLock, doTimeOut, doExpried. *)
From Coq Require Import String ZifyN ZifyBool ZifyNat Permutation.
From Slock Require Import Engine.Types Engine.Queues Engine.Timers Engine.Engine Engine.Engine2 Engine.InvDef Engine.InvBase
  Engine.InvPrims Engine.InvRec Engine.InvWheel Engine.InvQueue Engine.InvQueue2 Engine.InvSteps Engine.InvLockDefs Engine.InvLock.
Open Scope N_scope.

Lemma find_last_waiter_spec s items id : forall acc r, find_last_waiter s items id acc = Some r ->
  acc = Some r \/ (In r items /\ l_timeouted (getl s r) = false).
Proof.
  induction items as [|x t IH]; intros acc r H; simpl in H; [auto|].
  destruct (negb (l_timeouted (getl s x)) && (c_lockid (l_cmd (getl s x)) =? id)) eqn:E.
  - destruct (IH _ _ H) as [H1|[H1 H2]]; [|right; simpl; auto].
    inversion H1; subst. right. apply andb_true_iff in E. destruct E as [E _]. apply negb_true_iff in E. simpl. auto.
  - destruct (IH _ _ H) as [H1|[H1 H2]]; [auto|right; simpl; auto].
Qed.

(* the live-waiter part shared by cancelWaitLock and doTimeOut: the waiter is marked answered (wg_pre), dead heads are
   dropped, `waited` is cleared when nobody is left, WaitCount-- *)
Definition waiter_gone (s : db) (k : N) : db :=
  let '(s, w) := get_wait_lock s k in
  let s := match w with None => updm s k (fun m => m <| m_waited := false |>) | Some _ => s end in
  bump (fun n => n <| n_wait := (n_wait n - 1)%Z |>) s.

Lemma waiter_gone_ginv s xt xe k : GInv s (gk xt xe k <| g_cw := (-1)%Z |>) -> GInv (waiter_gone s k) (gk xt xe k).
Proof.
  intros G. unfold waiter_gone.
  pose proof (get_wait_lock_ginv s _ k G) as P. destruct (get_wait_lock s k) as [s1 w].
  destruct P as [G1 _]; auto.
  assert (G2 : GInv (match w with None => updm s1 k (fun m => m <| m_waited := false |>) | Some _ => s1 end) (gk xt xe k <| g_cw := (-1)%Z |>)).
  { destruct w; auto. apply updm_scalar; auto. }
  eapply ginv_geq; [eapply updc_ginv with (cl' := 0%Z) (cw' := 0%Z); [exact G2|..]; unfold gk; gs; cbn; lia|reflexivity].
Qed.

Lemma cancel_wait_lock_ginv s xt xe conn c :
  GInv s (gk xt xe (c_key c)) -> res_ok xt xe (c_key c) (cancel_wait_lock s conn c).
Proof.
  intros G. unfold cancel_wait_lock. cbv zeta. set (k := c_key c) in *.
  destruct (match m_wait (getm s k) with Some q => find_last_waiter s (wq_items q) (c_lockid c) None | None => None end) as [r|] eqn:Ew.
  - assert (Hlive : l_timeouted (getl s r) = false).
    { destruct (m_wait (getm s k)) as [q|]; [|discriminate]. destruct (find_last_waiter_spec _ _ _ _ _ Ew) as [H|[_ H]]; [discriminate|auto]. }
    destruct (aget (store s) r) as [l|] eqn:Hr; [|rewrite (getl_none _ _ Hr) in Hlive; discriminate].
    rewrite (getl_some _ _ _ Hr) in *.
    destruct (ro_live _ _ _ _ (gi_rec _ _ G r l Hr) Hlive) as [_ [_ [Hd _]]].
    rewrite Hd. change (0 <? 0) with false. cbv iota.
    assert (Ewg : wg_pre s r = if l_long l then remove_long_timeout (updl s r (fun l0 => l0 <| l_timeouted := true |>)) r
                               else updl s r (fun l0 => l0 <| l_timeouted := true |>)).
    { unfold wg_pre. rewrite (getl_some _ _ _ Hr). reflexivity. }
    rewrite <- Ewg.
    destruct (wg_pre_ginv s xt xe k r l G Hr Hlive) as [G1 _].
    pose proof (waiter_gone_ginv (wg_pre s r) xt xe k G1) as G2. unfold waiter_gone in G2.
    destruct (get_wait_lock (wg_pre s r) k) as [s1 w].
    split; [|intros w0 H; inversion H; reflexivity]. cbn [fst].
    eapply ginv_geq; [eapply updc_ginv with (cl' := 0%Z) (cw' := 0%Z); [apply remove_mgr_ginv; [exact G2|intros _; split; reflexivity]|..]; unfold gk; gs; cbn; lia|reflexivity].
  - split; [|intros w0 H; discriminate]. cbn [fst].
    eapply ginv_geq; [eapply updc_ginv with (cl' := 0%Z) (cw' := 0%Z); [exact G|..]; unfold gk; gs; cbn; lia|reflexivity].
Qed.

(* ---------------------------------------------------------------- releasing a hold *)
Definition gkd (xt xe : list ref) (k : N) (d a b : Z) : ghost := mkGhost xt xe [] [] [] [] k false false d a b.

Lemma holder_facts s g k m r : GInv s g -> g_dk g = k -> g_ph g = [] -> g_pre g = [] ->
  aget (mgrs s) k = Some m -> In r (holders m) -> 0 < l_locked (getl s r) ->
  exists l, aget (store s) r = Some l /\ l_key l = k /\ l_timeouted l = true /\ occ r (holders m) = 1%nat.
Proof.
  intros G Hk Hp Hq Hm Hi Hl.
  destruct (gi_mgr _ _ G k m Hm) as [B1 B2 B3 B4 B5 B6 B7 B8 B9 Bb B10 Bc].
  assert (Hst : aget (store s) r <> None).
  { apply B1. unfold phk. rewrite Hp. destruct (k =? g_dk g); simpl; rewrite occ_app; apply occ_In in Hi; lia. }
  destruct (aget (store s) r) as [l|] eqn:Hr; [|congruence].
  assert (Hi' : In r (holders (getm s k))) by (rewrite (getm_some _ _ _ Hm); auto).
  destruct (holder_timeouted s _ k r l G Hi' Hr) as [T K].
  exists l. repeat split; auto.
  pose proof (proj1 (occ_nodup _) B4 r). apply occ_In in Hi. lia.
Qed.

Lemma sumdepth_ge s r L : In r L -> l_locked (getl s r) <= sumdepth s L.
Proof.
  induction L as [|x t IH]; simpl; [tauto|]. intros [->|H]; [lia|]. specialize (IH H). lia.
Qed.

Lemma sub32_sub x y : y <= x -> x < 4294967296 -> sub32 x y = x - y.
Proof.
  intros H1 H2. unfold sub32. rewrite (N.mod_small y) by lia.
  replace (x + 4294967296 - y) with (x - y + 1 * 4294967296) by lia. rewrite N.mod_add by lia. apply N.mod_small. lia.
Qed.

(* the tail of release_hold once the expiry entry is dealt with *)
Lemma release_tail_ginv s xt xe k r l d :
  GInv s (gkd xt xe k (Z.of_N d) (- Z.of_N d) 0) -> aget (store s) r = Some l -> l_key l = k -> l_locked l = d -> 0 < d ->
  forall lc uc,
  GInv (remove_lock (if l_isaof (getl s r) then fst (push_unlock_aof s k r lc uc false 0) else s) k r) (gkd xt xe k 0 (- Z.of_N d) 0).
Proof.
  intros G Hr Hkey Hd Hpos lc uc.
  assert (P : exists s1 l1, s1 = (if l_isaof (getl s r) then fst (push_unlock_aof s k r lc uc false 0) else s)
              /\ GInv s1 (gkd xt xe k (Z.of_N d) (- Z.of_N d) 0) /\ aget (store s1) r = Some l1 /\ lsame l l1).
  { destruct (l_isaof (getl s r)).
    - destruct (push_unlock_aof_ok s _ k r lc uc false 0 G) as [G1 S1].
      destruct (sim_stored _ _ r l S1 Hr) as [l1 [H1 H2]]. eauto 6.
    - exists s, l. split; [reflexivity|]. split; [exact G|]. split; [exact Hr|apply lsame_refl]. }
  destruct P as [s1 [l1 [E [G1 [Hr1 Hs1]]]]]. rewrite <- E.
  assert (K1 : l_key l1 = k) by (rewrite Hs1; exact Hkey).
  assert (D1 : l_locked l1 = d) by (rewrite Hs1; exact Hd).
  eapply ginv_geq; [apply (remove_lock_ginv s1 _ k r l1 G1); unfold gkd; gs; auto; lia|].
  rewrite D1. unfold gkd. gs. match goal with |- _ = ?g0 <| g_dl := ?e1 |> => replace e1 with 0%Z by lia end. reflexivity.
Qed.

Lemma free_if_unref_ginv s g k r : GInv s g -> g_owe g = [] -> g_ph g = [] -> (k = g_dk g -> g_dl g = 0%Z) ->
  GInv (if l_refc (getl s r) =? 0 then remove_mgr_if_unref (free_lock s r) k else s) g.
Proof.
  intros G Ho Hp Hk. destruct (l_refc (getl s r) =? 0) eqn:E; auto. apply N.eqb_eq in E.
  apply remove_mgr_ginv; [|intros Ek; split; auto].
  destruct (aget (store s) r) as [l|] eqn:Hr.
  - rewrite (getl_some _ _ _ Hr) in E.
    assert (Ht : l_timeouted l = true).
    { destruct (l_timeouted l) eqn:Et; auto. exfalso.
      destruct (ro_live _ _ _ _ (gi_rec _ _ G r l Hr) Et) as [_ [_ [_ Q]]].
      destruct (free_facts s g r l G Hr E) as [_ [_ [_ [_ [Z2 _]]]]]; [rewrite Ho; reflexivity|].
      rewrite Hp in Z2. simpl in Z2. lia. }
    pose proof (free_lock_ginv s g r l G Hr E) as F. rewrite Ho in F. specialize (F eq_refl).
    unfold liveb in F. rewrite Ht in F. eapply ginv_geq; [exact F|]. destruct g; gs. rewrite Z.sub_0_r. reflexivity.
  - unfold free_lock. rewrite Hr. exact G.
Qed.

Lemma release_tail2 s xt xe k r l d lc uc :
  GInv s (gkd xt xe k (Z.of_N d) (- Z.of_N d) 0) -> aget (store s) r = Some l -> l_key l = k -> l_locked l = d -> 0 < d ->
  GInv (fst (let '(s0, aev) := if l_isaof (getl s r) then push_unlock_aof s k r lc uc false 0 else (s, []) in (remove_lock s0 k r, aev)))
       (gkd xt xe k 0 (- Z.of_N d) 0)
  /\ GInv (fst (let '(s0, aev) := if l_isaof (getl s r) then push_unlock_aof s k r lc uc false 0 else (s, []) in
                let s0 := remove_lock s0 k r in
                let s0 := if l_refc (getl s0 r) =? 0 then remove_mgr_if_unref (free_lock s0 r) k else s0 in (s0, aev)))
       (gkd xt xe k 0 (- Z.of_N d) 0).
Proof.
  intros G Hr Hkey Hd Hpos.
  pose proof (release_tail_ginv s xt xe k r l d G Hr Hkey Hd Hpos lc uc) as GT.
  destruct (l_isaof (getl s r)); [destruct (push_unlock_aof s k r lc uc false 0) as [s2 aev]|]; cbn [fst] in *;
    (split; [exact GT|apply free_if_unref_ginv; auto]).
Qed.

Lemma release_hold_ginv s xt xe k conn c r l d m :
  GInv s (gkd xt xe k (Z.of_N d) (- Z.of_N d) 0) -> aget (store s) r = Some l -> l_key l = k -> l_locked l = d -> 0 < d ->
  l_timeouted l = true -> aget (mgrs s) k = Some m -> occ r (holders m) = 1%nat -> c_data c = None ->
  GInv (fst (release_hold s k conn c r d)) (gk xt xe k).
Proof.
  intros G Hr Hkey Hd Hpos Ht Hm Hh Hc. set (g := gkd xt xe k (Z.of_N d) (- Z.of_N d) 0) in *.
  destruct (gi_rec _ _ G r l Hr) as [A1 A2 A3 A4 A5 A6 A7 A8 A9 A10 A11].
  unfold release_hold. cbv zeta. rewrite (updl_some _ _ _ _ Hr), (getl_some _ _ _ Hr).
  set (l1 := l <| l_expried := true |>).
  assert (G1 : GInv (setl s r l1) g).
  { apply (setl_irrel s g r l l1 G Hr); [unfold same_rel; intuition|intuition]. }
  set (s1 := setl s r l1) in *.
  assert (Hr1 : aget (store s1) r = Some l1) by (unfold s1; rewrite store_setl, aget_aset_same; auto).
  assert (Hfin : forall s3, GInv s3 (gkd xt xe k 0 (- Z.of_N d) 0) ->
            GInv (bump (fun n => n <| n_unlock := (n_unlock n + Z.of_N d)%Z |> <| n_locked := (n_locked n - Z.of_N d)%Z |>) s3) (gk xt xe k)).
  { intros s3 G3. eapply ginv_geq; [eapply updc_ginv with (cl' := 0%Z) (cw' := 0%Z); [exact G3|..]; unfold gkd; gs; cbn; lia|reflexivity]. }
  assert (Hmain : GInv (fst (let '(s0, aev) :=
             if l_long l1 then
               let s0 := remove_long_expried s1 r (l_eT l1) in
               let '(s0, aev) := if l_isaof (getl s0 r) then push_unlock_aof s0 k r (l_cmd l) (Some c) false 0 else (s0, []) in
               let s0 := remove_lock s0 k r in
               let s0 := if l_refc (getl s0 r) =? 0 then remove_mgr_if_unref (free_lock s0 r) k else s0 in (s0, aev)
             else
               let '(s0, aev) := if l_isaof (getl s1 r) then push_unlock_aof s1 k r (l_cmd l) (Some c) false 0 else (s1, []) in
               (remove_lock s0 k r, aev) in
            (bump (fun n => n <| n_unlock := (n_unlock n + Z.of_N d)%Z |> <| n_locked := (n_locked n - Z.of_N d)%Z |>) s0, aev))) (gk xt xe k)).
  { change (l_long l1) with (l_long l). change (l_eT l1) with (l_eT l). destruct (l_long l) eqn:Elong.
    - assert (Hbk : occ r (wheel_get (elong s1) (lkey (l_eT l))) = 1%nat) by (change (elong s1) with (elong s); apply A8; auto).
      pose proof (ginv_pend_add s1 g r G1) as Ga.
      assert (Gb : GInv (remove_long_expried s1 r (l_eT l)) (g <| g_pend := [r] |>)).
      { apply (remove_long_expried_ginv s1 _ r l1 (l_eT l) Ga Hr1); unfold g, gkd; gs; auto;
          try (rewrite occ_cons_eq; lia);
          try (intros _; change (l_key l1) with (l_key l); rewrite Hkey; change (getm s1 k) with (getm s k); rewrite (getm_some _ _ _ Hm); exact Hh). }
      destruct (remove_long_expried_frame s1 r (l_eT l) l1 Hr1) as [Fr _].
      destruct (wheel_get_some (elong s1) (lkey (l_eT l)) r) as [q [Hq1 Hq2]]; [lia|]. rewrite Hq1 in Fr.
      set (s2 := remove_long_expried s1 r (l_eT l)) in *.
      set (l2 := l1 <| l_long := false |> <| l_refc := dec8 (l_refc l1) |>) in *.
      assert (Gc : GInv s2 g).
      { eapply ginv_geq; [apply (ginv_pend_drop _ _ r [] Gb); gs; auto|reflexivity].
        intros l0 H0 Hl0. rewrite Fr in H0. inversion H0; subst l0. discriminate. }
      destruct (release_tail2 s2 xt xe k r l2 d (l_cmd l) (Some c) Gc Fr Hkey Hd Hpos) as [_ GT].
      cbv zeta in GT. cbv zeta.
      destruct (if l_isaof (getl s2 r) then push_unlock_aof s2 k r (l_cmd l) (Some c) false 0 else (s2, [])) as [s3 aev].
      cbn [fst] in *. apply Hfin. exact GT.
    - destruct (release_tail2 s1 xt xe k r l1 d (l_cmd l) (Some c) G1 Hr1 Hkey Hd Hpos) as [GT _].
      destruct (if l_isaof (getl s1 r) then push_unlock_aof s1 k r (l_cmd l) (Some c) false 0 else (s1, [])) as [s3 aev].
      cbn [fst] in *. apply Hfin. exact GT. }
  cbv zeta in Hmain. rewrite (getl_some _ _ _ Hr1) in Hmain.
  destruct (has_udata_flag c); rewrite ?(process_data_core _ _ _ _ _ Hc); cbv iota beta; rewrite (getl_some _ _ _ Hr1);
    destruct (if l_long l1 then _ else _) as [s4 aev4]; exact Hmain.
Qed.

(* ---------------------------------------------------------------- LockDB.UnLock *)
Lemma ul_err_ok xt xe conn k m s c code lrc : GInv s (gk xt xe k) -> res_ok xt xe k (ul_err conn k m s c code lrc).
Proof.
  intros G. unfold ul_err. split; [|intros w H; discriminate]. cbn [fst].
  eapply ginv_geq; [eapply updc_ginv with (cl' := 0%Z) (cw' := 0%Z); [exact G|..]; unfold gk; gs; cbn; lia|reflexivity].
Qed.

Lemma ul_body_ok s xt xe conn c k r l m :
  GInv s (gk xt xe k) -> aget (mgrs s) k = Some m -> aget (store s) r = Some l -> l_key l = k -> 0 < l_locked l ->
  l_timeouted l = true -> occ r (holders m) = 1%nat -> c_data c = None ->
  res_ok xt xe k (ul_body s conn c k r).
Proof.
  intros G Hm Hr Hkey Hd Ht Hh Hc. set (g := gk xt xe k) in *.
  destruct (gi_rec _ _ G r l Hr) as [A1 A2 A3 A4 A5 A6 A7 A8 A9 A10 A11].
  destruct (gi_mgr _ _ G k m Hm) as [B1 B2 B3 B4 B5 B6 B7 B8 B9 Bb B10 Bc].
  assert (Hin : In r (holders m)) by (apply occ_In; lia).
  assert (Hsum : l_locked l <= m_locked m).
  { pose proof (sumdepth_ge s r (holders m) Hin) as S. rewrite (getl_some _ _ _ Hr) in S.
    unfold dlk, g, gk in B6. gs. destruct (k =? k) in B6; lia. }
  destruct Bb as [_ Bl].
  (* full release: locked -= depth, then release_hold *)
  assert (Hfull : forall d, d = l_locked l ->
     res_ok xt xe k (let s0 := updm s k (fun m => m <| m_locked := sub32 (m_locked m) d |>) in
                     let '(s1, ev) := release_hold s0 k conn c r d in (s1, ev, Some (mkWake k (Some conn))))).
  { intros d Ed. cbv zeta. rewrite (updm_some _ _ _ _ Hm).
    set (m1 := m <| m_locked := sub32 (m_locked m) d |>).
    assert (Hl1 : m_locked m1 = m_locked m - d) by (unfold m1; cbn; apply sub32_sub; lia).
    assert (G1 : GInv (setm s k m1) (gkd xt xe k (Z.of_N d) (- Z.of_N d) 0)).
    { eapply ginv_geq; [apply (setm_scalar s g k m m1 G Hm); try (destruct m; reflexivity); [lia|right; reflexivity]|].
      rewrite Hl1. unfold g, gk, gkd. gs.
      match goal with |- _ = ?g0 <| g_dl := ?e1 |> <| g_cl := ?e2 |> =>
        replace e1 with (Z.of_N d) by lia; replace e2 with (- Z.of_N d)%Z by lia end. reflexivity. }
    assert (Hm1 : aget (mgrs (setm s k m1)) k = Some m1) by (rewrite mgrs_setm, aget_aset_same; auto).
    assert (Hh1 : occ r (holders m1) = 1%nat) by (destruct m; exact Hh).
    pose proof (release_hold_ginv (setm s k m1) xt xe k conn c r l d m1 G1 Hr Hkey (eq_sym Ed)) as GR.
    destruct (release_hold (setm s k m1) k conn c r d) as [s2 ev]. cbn [fst] in GR.
    split; [apply GR; auto; lia|intros w H; inversion H; reflexivity]. }
  unfold ul_body. cbv zeta. rewrite (getl_some _ _ _ Hr).
  destruct (1 <? l_locked l) eqn:E1.
  - destruct ((0 <? c_rcount c) && negb (has (c_tflag c) TF_PRIORITY)).
    + (* one level *)
      apply N.ltb_lt in E1.
      rewrite (updl_some _ _ _ _ Hr).
      set (l1 := l <| l_locked := dec8 (l_locked l) |>).
      assert (Hd1 : l_locked l1 = l_locked l - 1) by (unfold l1; cbn; apply dec8_pred; lia).
      assert (G1 : GInv (setl s r l1) (g <| g_dl := (-1)%Z |>)).
      { eapply ginv_geq; [apply (setl_depth s g r l l1 G Hr); unfold g, gk; gs; auto; try lia;
                            try (intros; rewrite Hkey, (getm_some _ _ _ Hm); exact Hh); try (simpl; tauto)|].
        rewrite Hkey, (getm_some _ _ _ Hm), Hh, Hd1. unfold g, gk. gs.
          match goal with |- _ = ?g0 <| g_dl := ?e1 |> => replace e1 with (-1)%Z by lia end. reflexivity. }
      set (s1 := setl s r l1) in *.
      assert (Hm1 : aget (mgrs s1) k = Some m) by exact Hm.
      rewrite (updm_some _ _ _ _ Hm1).
      set (m1 := m <| m_locked := sub32 (m_locked m) 1 |>).
      assert (Hl1 : m_locked m1 = m_locked m - 1) by (unfold m1; cbn; apply sub32_sub; lia).
      assert (G2 : GInv (setm s1 k m1) (gkc xt xe k (-1) 0)).
      { eapply ginv_geq; [apply (setm_scalar s1 _ k m m1 G1 Hm1); try (destruct m; reflexivity); [lia|right; reflexivity]|].
        rewrite Hl1. unfold g, gk, gkc. gs.
        match goal with |- _ = ?g0 <| g_dl := ?e1 |> <| g_cl := ?e2 |> => replace e1 with 0%Z by lia; replace e2 with (-1)%Z by lia end. reflexivity. }
      set (s2 := setm s1 k m1) in *.
      assert (Hfin : forall s3, GInv s3 (gkc xt xe k (-1) 0) ->
                GInv (bump (fun n => n <| n_unlock := (n_unlock n + 1)%Z |> <| n_locked := (n_locked n - 1)%Z |>) s3) (gk xt xe k)).
      { intros s3 G3. eapply ginv_geq; [eapply updc_ginv with (cl' := 0%Z) (cw' := 0%Z); [exact G3|..]; unfold gkc; gs; cbn; lia|reflexivity]. }
      destruct (has_udata_flag c); rewrite ?(process_data_core _ _ _ _ _ Hc); cbv iota beta;
        (destruct (l_isaof (getl s2 r));
         [destruct (push_unlock_aof_ok s2 _ k r (l_cmd (getl s2 r)) (Some c) true AOF_FLAG_UPDATED G2) as [G3 _];
          destruct (push_unlock_aof s2 k r (l_cmd (getl s2 r)) (Some c) true AOF_FLAG_UPDATED) as [s3 aev]; cbn [fst] in G3|]);
        (split; [cbn [fst]; apply Hfin; auto|intros w H; inversion H; reflexivity]).
    + apply (Hfull (l_locked l) eq_refl).
  - apply N.ltb_ge in E1. assert (E : 1 = l_locked l) by lia. apply (Hfull 1 E).
Qed.

Lemma unlock_step_ginv s xt xe conn c :
  GInv s (gk xt xe (c_key c)) -> c_data c = None -> res_ok xt xe (c_key c) (unlock_step s conn c).
Proof.
  intros G Hc. rewrite unlock_step_eq. cbv zeta. set (k := c_key c) in *.
  destruct (aget (mgrs s) k) as [m|] eqn:Hm.
  2:{ split; [|intros w H; discriminate]. cbn [fst].
      eapply ginv_geq; [eapply updc_ginv with (cl' := 0%Z) (cw' := 0%Z); [exact G|..]; unfold gk; gs; cbn; lia|reflexivity]. }
  destruct (negb (leader s) && negb (has (c_flag c) UNLOCK_FLAG_FROM_AOF)); [apply ul_err_ok; auto|].
  destruct (m_locked m =? 0).
  { destruct (has (c_flag c) UNLOCK_FLAG_CANCEL_WAIT); [apply cancel_wait_lock_ginv; auto|apply ul_err_ok; auto]. }
  unfold ul_target. cbv zeta.
  destruct (get_locked_lock s m (c_lockid c)) as [r|] eqn:Eg.
  - destruct (get_locked_lock_spec s xt xe k m _ r G Hm Eg) as [l [Hr [Hkey [Hd [Hid [Ht Hh]]]]]].
    destruct (negb (l_ack (getl s r) =? 255)); [apply ul_err_ok; auto|].
    apply (ul_body_ok s xt xe conn c k r l m); auto.
  - destruct (has (c_flag c) UNLOCK_FLAG_FIRST).
    + destruct (m_cur m) as [cr|] eqn:Ec; [|apply ul_err_ok; auto].
      destruct (negb (l_ack (getl s cr) =? 255)); [apply ul_err_ok; auto|].
      assert (Hlkk : lkk (gk xt xe k) k = false) by (unfold lkk, gk; gs; apply andb_false_r).
      pose proof (mo_cur _ _ _ _ (gi_mgr _ _ G k m Hm) Hlkk cr Ec) as Hl.
      assert (Hin : In cr (holders m)) by (unfold holders, cur_list; rewrite Ec; simpl; auto).
      destruct (holder_facts s _ k m cr G eq_refl eq_refl eq_refl Hm Hin Hl) as [l [Hr [Hkey [Ht Hh]]]].
      rewrite (getl_some _ _ _ Hr) in Hl.
      apply (ul_body_ok s xt xe conn _ k cr l m); auto.
    + destruct (has (c_flag c) UNLOCK_FLAG_CANCEL_WAIT); [apply cancel_wait_lock_ginv; auto|apply ul_err_ok; auto].
Qed.

(* ---------------------------------------------------------------- doTimeOut / doExpried *)
Lemma unref_t_tail s xe k k' r rest :
  GInv s (gk (r :: rest) xe k) ->
  GInv (let s1 := unref s r in
        if match aget (store s1) r with None => true | Some _ => false end then remove_mgr_if_unref s1 k' else s1)
       (gk rest xe k).
Proof.
  intros G. destruct (stored_of_xt s _ r rest G eq_refl) as [l Hr].
  assert (G1 : GInv (unref s r) (gk rest xe k)).
  { eapply ginv_geq; [apply (unref_xt s _ r rest l G); auto|reflexivity]. }
  cbv zeta. destruct (aget (store (unref s r)) r); auto. apply remove_mgr_ginv; auto.
Qed.
Lemma unref_e_tail s xt k k' r rest :
  GInv s (gk xt (r :: rest) k) ->
  GInv (let s1 := unref s r in
        if match aget (store s1) r with None => true | Some _ => false end then remove_mgr_if_unref s1 k' else s1)
       (gk xt rest k).
Proof.
  intros G. destruct (stored_of_xe s _ r rest G eq_refl) as [l Hr].
  assert (G1 : GInv (unref s r) (gk xt rest k)).
  { eapply ginv_geq; [apply (unref_xe s _ r rest l G); auto|reflexivity]. }
  cbv zeta. destruct (aget (store (unref s r)) r); auto. apply remove_mgr_ginv; auto.
Qed.

Lemma do_timeout_ginv s xe k0 r rest :
  GInv s (gk (r :: rest) xe k0) ->
  exists k, res_ok rest xe k (do_timeout s r).
Proof.
  intros G0. destruct (stored_of_xt s _ r rest G0 eq_refl) as [l Hr].
  unfold do_timeout. rewrite Hr. set (k := l_key l). exists k.
  pose proof (gk_rekey s (r :: rest) xe k0 k G0) as G.
  destruct (l_timeouted l) eqn:Et.
  - split; [|intros w H; discriminate]. cbn [fst]. apply (unref_t_tail s xe k k r rest G).
  - destruct (gi_rec _ _ G r l Hr) as [A1 A2 A3 A4 A5 A6 A7 A8 A9 A10 A11].
    destruct (A6 Et) as [Q1 [Q2 [Q3 Q4]]].
    cbv zeta. rewrite Q3. change (0 <? 0) with false. cbv iota.
    assert (Hlong : l_long l = false).
    { destruct (l_long l) eqn:El; auto. exfalso. destruct (A8 eq_refl eq_refl) as [Q _]. specialize (Q Et).
      pose proof (occ_wheel_get_le r (tlong s) (lkey (l_tT l))). unfold tcount, gk in A4. gs. rewrite occ_cons_eq in A4. lia. }
    rewrite (updl_some _ _ _ _ Hr).
    set (l1 := l <| l_timeouted := true |>).
    assert (G1 : GInv (setl s r l1) (gk (r :: rest) xe k <| g_cw := (-1)%Z |>)).
    { eapply ginv_geq; [apply (setl_flags s _ r l l1 G Hr); auto; unfold gk; gs|].
      - change (l_long l1) with (l_long l). rewrite Hlong. discriminate.
      - unfold gk. gs. unfold liveb. change (l_timeouted l1) with true. rewrite Et. reflexivity. }
    pose proof (waiter_gone_ginv (setl s r l1) (r :: rest) xe k G1) as G2. unfold waiter_gone in G2.
    destruct (get_wait_lock (setl s r l1) k) as [s2 w].
    set (s3 := bump (fun n => n <| n_wait := (n_wait n - 1)%Z |>) (match w with None => updm s2 k (fun m => m <| m_waited := false |>) | Some _ => s2 end)) in *.
    pose proof (unref_t_tail s3 xe k k r rest G2) as G3. cbv zeta in G3.
    split; [|intros w0 H; inversion H; reflexivity]. cbn [fst].
    eapply ginv_geq; [eapply updc_ginv with (cl' := 0%Z) (cw' := 0%Z); [exact G3|..]; unfold gk; gs; cbn; lia|reflexivity].
Qed.

Lemma do_expried_ginv s xt k0 r rest :
  GInv s (gk xt (r :: rest) k0) ->
  exists k, res_ok xt rest k (do_expried s r).
Proof.
  intros G0. destruct (stored_of_xe s _ r rest G0 eq_refl) as [l Hr].
  unfold do_expried. rewrite Hr. set (k := l_key l). exists k.
  pose proof (gk_rekey s xt (r :: rest) k0 k G0) as G. set (g := gk xt (r :: rest) k) in *.
  destruct (l_expried l) eqn:Ee.
  - split; [|intros w H; discriminate]. cbn [fst]. apply (unref_e_tail s xt k k r rest G).
  - destruct (gi_rec _ _ G r l Hr) as [A1 A2 A3 A4 A5 A6 A7 A8 A9 A10 A11].
    destruct (rec_counts s g r l G Hr) as [[C1 [C2 [C3 C4]]] [m [Hm Hgm]]]. fold k in Hm, Hgm.
    assert (Ht : l_timeouted l = true).
    { destruct (l_timeouted l) eqn:E; auto. destruct (A6 eq_refl) as [_ [Q _]]. unfold ecount, g, gk in Q. gs. rewrite occ_cons_eq in Q. lia. }
    assert (Hlong : l_long l = false).
    { destruct (l_long l) eqn:El; auto. exfalso. destruct (A8 eq_refl eq_refl) as [_ Q]. specialize (Q Ht).
      pose proof (occ_wheel_get_le r (elong s) (lkey (l_eT l))). unfold ecount, g, gk in A5. gs. rewrite occ_cons_eq in A5. lia. }
    destruct (negb (leader s) && l_isaof l && ((l_eT l <=? 0)%Z || (now s - l_eT l <? EXPRIED_WAIT_LEADER_MAX_TIME)%Z)).
    + (* not the leader: re-arm *)
      cbv zeta. rewrite (updl_some _ _ _ _ Hr).
      set (l1 := l <| l_eT := (now s + 30)%Z |>).
      assert (G1 : GInv (setl s r l1) g).
      { apply (setl_irrel s g r l l1 G Hr); [unfold same_rel; destruct l; cbn; intuition|intros E; congruence]. }
      assert (Hr1 : aget (store (setl s r l1)) r = Some l1) by (rewrite store_setl, aget_aset_same; auto).
      assert (G2 : GInv (fst (add_expried (setl s r l1) k r)) (gk xt rest k)).
      { eapply ginv_geq; [eapply (add_expried_ginv _ _ k r rest l1 G1); unfold g, gk; gs; auto|reflexivity]. }
      destruct (add_expried (setl s r l1) k r) as [s2 aev]. split; [exact G2|intros w H; discriminate].
    + (* the hold expires *)
      cbv zeta. rewrite (updl_some _ _ _ _ Hr).
      set (l1 := l <| l_expried := true |>).
      assert (G1 : GInv (setl s r l1) g).
      { apply (setl_irrel s g r l l1 G Hr); [unfold same_rel; intuition|intuition]. }
      set (s1 := setl s r l1) in *.
      assert (Hr1 : aget (store s1) r = Some l1) by (unfold s1; rewrite store_setl, aget_aset_same; auto).
      assert (Hm1 : aget (mgrs s1) k = Some m) by exact Hm.
      destruct (gi_mgr _ _ G k m Hm) as [B1 B2 B3 B4 B5 B6 B7 B8 B9 Bb B10 Bc].
      set (d := l_locked l) in *.
      assert (Hsum : d <= m_locked m).
      { destruct (N.eq_dec d 0) as [E|E]; [lia|].
        assert (Hh : occ r (holders m) = 1%nat) by (rewrite <- Hgm; apply A7; [lia|reflexivity]).
        assert (Hin : In r (holders m)) by (apply occ_In; lia).
        pose proof (sumdepth_ge s r (holders m) Hin) as S. rewrite (getl_some _ _ _ Hr) in S.
        unfold dlk, g, gk in B6. gs. destruct (k =? k) in B6; fold d in S; lia. }
      destruct Bb as [_ Bl].
      rewrite (updm_some _ _ _ _ Hm1).
      set (m1 := m <| m_locked := sub32 (m_locked m) d |>).
      assert (Hl1 : m_locked m1 = m_locked m - d) by (unfold m1; cbn; apply sub32_sub; lia).
      assert (G2 : GInv (setm s1 k m1) (gkd xt (r :: rest) k (Z.of_N d) (- Z.of_N d) 0)).
      { eapply ginv_geq; [apply (setm_scalar s1 g k m m1 G1 Hm1); try (destruct m; reflexivity); [lia|right; reflexivity]|].
        rewrite Hl1. unfold g, gk, gkd. gs.
        match goal with |- _ = ?g0 <| g_dl := ?e1 |> <| g_cl := ?e2 |> =>
          replace e1 with (Z.of_N d) by lia; replace e2 with (- Z.of_N d)%Z by lia end. reflexivity. }
      set (s2 := setm s1 k m1) in *.
      assert (Hr2 : aget (store s2) r = Some l1) by exact Hr1.
      assert (G3 : GInv (remove_lock (if l_isaof (getl s2 r) then fst (push_unlock_aof s2 k r (l_cmd l) None false AOF_FLAG_EXPRIED) else s2) k r)
                        (gkd xt (r :: rest) k 0 (- Z.of_N d) 0)).
      { assert (P : exists s3 l3, s3 = (if l_isaof (getl s2 r) then fst (push_unlock_aof s2 k r (l_cmd l) None false AOF_FLAG_EXPRIED) else s2)
              /\ GInv s3 (gkd xt (r :: rest) k (Z.of_N d) (- Z.of_N d) 0) /\ aget (store s3) r = Some l3 /\ lsame l1 l3).
        { destruct (l_isaof (getl s2 r)).
          - destruct (push_unlock_aof_ok s2 _ k r (l_cmd l) None false AOF_FLAG_EXPRIED G2) as [Ga Sa].
            destruct (sim_stored _ _ r l1 Sa Hr2) as [l3 [H1 H2]]. eauto 6.
          - exists s2, l1. split; [reflexivity|]. split; [exact G2|]. split; [exact Hr2|apply lsame_refl]. }
        destruct P as [s3 [l3 [E [Ga [Hr3 Hs3]]]]]. rewrite <- E.
        assert (K3 : l_key l3 = k) by (rewrite Hs3; reflexivity).
        assert (D3 : l_locked l3 = d) by (rewrite Hs3; reflexivity).
        destruct (N.eq_dec d 0) as [E0|E0].
        - rewrite E0 in *. apply (remove_lock_dead_ginv s3 _ k r l3 Ga); unfold gkd; gs; auto.
        - eapply ginv_geq; [apply (remove_lock_ginv s3 _ k r l3 Ga); unfold gkd; gs; auto; lia|].
          rewrite D3. unfold gkd. gs. match goal with |- _ = ?g0 <| g_dl := ?e1 |> => replace e1 with 0%Z by lia end. reflexivity. }
      destruct (l_isaof (getl s2 r)); [destruct (push_unlock_aof s2 k r (l_cmd l) None false AOF_FLAG_EXPRIED) as [s3 aev]|]; cbn [fst] in G3.
      all: match type of G3 with GInv ?S _ => set (s4 := S) in * end.
      all: assert (G4 : GInv s4 (gk xt (r :: rest) k <| g_cl := (- Z.of_N d)%Z |>)) by (eapply ginv_geq; [exact G3|reflexivity]).
      all: destruct (stored_of_xe s4 _ r rest G4 eq_refl) as [l4 Hr4].
      all: assert (G5 : GInv (unref s4 r) (gk xt rest k <| g_cl := (- Z.of_N d)%Z |>)) by
             (eapply ginv_geq; [apply (unref_xe s4 _ r rest l4 G4); auto|reflexivity]).
      all: assert (G6 : GInv (if match aget (store (unref s4 r)) r with None => true | Some _ => false end
                              then remove_mgr_if_unref (unref s4 r) k else unref s4 r) (gk xt rest k <| g_cl := (- Z.of_N d)%Z |>)) by
             (destruct (aget (store (unref s4 r)) r); auto; apply remove_mgr_ginv; auto).
      all: split; [|intros w0 H; inversion H; reflexivity]; cbn [fst].
      all: eapply ginv_geq; [eapply updc_ginv with (cl' := 0%Z) (cw' := 0%Z); [exact G6|..]; unfold gk; gs; cbn; lia|reflexivity].
Qed.
