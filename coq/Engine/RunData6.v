(* Value operations attached to Lock / UnLock (property C15), part 6: an observation about Expried = 0.
   A Lock with Expried = 0 creates a record, applies its frame to the key's value and frees the record at once;
   when no other record references the key the manager is removed together with the value just written:
   on a key without manager the written value is never observable afterwards. *)
From Coq Require Import String ZifyN ZifyBool.
From Slock Require Import Engine.Types Engine.Queues Engine.Timers Engine.Engine Engine.Engine2 Engine.LocalBase
  Engine.InvLockDefs Engine.RunData Engine.RunData2 Engine.RunData3.
Open Scope N_scope.

(* record r belongs to key k and is the only reference of k's manager *)
Definition zref (x : db) (k : N) (r : ref) : Prop :=
  (exists l, aget (store x) r = Some l /\ l_key l = k)
  /\ (exists mx, aget (mgrs x) k = Some mx /\ m_ref mx = 1).

Lemma zref_updl x k r r0 f : (forall l, l_key (f l) = l_key l) -> zref x k r -> zref (updl x r0 f) k r.
Proof.
  intros Hf ((l & Hl & Hk) & Hm). split; [|rewrite mgrs_updl; exact Hm].
  rewrite aget_store_updl. destruct (r0 =? r) eqn:E.
  - apply N.eqb_eq in E. subst r0. rewrite Hl. cbn. exists (f l). split; [reflexivity|]. rewrite Hf. exact Hk.
  - exists l. auto.
Qed.
Lemma zref_updm x k r k0 f : (forall m, m_ref (f m) = m_ref m) -> zref x k r -> zref (updm x k0 f) k r.
Proof.
  intros Hf (Hl & (mx & Hm & Hr)). split; [rewrite store_updm; exact Hl|].
  rewrite aget_mgrs_updm. destruct (k0 =? k) eqn:E.
  - apply N.eqb_eq in E. subst k0. rewrite Hm. cbn. exists (f mx). split; [reflexivity|]. rewrite Hf. exact Hr.
  - exists mx. auto.
Qed.

Lemma zref_process_data x k r k0 r0 c b x' ev : process_data x k0 r0 c b = (x', ev) -> zref x k r -> zref x' k r.
Proof.
  intros H Hz. unfold process_data in H. repeat (split_hyp H); inv_tuple H; auto.
  apply zref_updl; [reflexivity|]. apply zref_updm; [reflexivity|]. exact Hz.
Qed.
Lemma zref_push_lock_aof x k r k0 r0 fl x' ev : push_lock_aof x k0 r0 fl = (x', ev) -> zref x k r -> zref x' k r.
Proof.
  intros H Hz. unfold push_lock_aof in H. repeat (split_hyp H); inv_tuple H; auto.
  all: repeat first [apply zref_updl; [reflexivity|] | apply zref_updm; [reflexivity|]]; exact Hz.
Qed.

Lemma zref_new_lock s k conn c m s0 r :
  new_lock s k conn c = (s0, r) -> aget (mgrs s) k = Some m -> m_ref m = 0 -> zref s0 k r.
Proof.
  intros H Hm Hr. unfold new_lock in H. inv_tuple H. split.
  - rewrite store_updm. cbn [store set]. rewrite aget_aset_same. eexists. split; reflexivity.
  - rewrite aget_mgrs_updm, N.eqb_refl. cbn [mgrs set]. rewrite Hm. cbn.
    eexists. split; [reflexivity|]. cbn. rewrite Hr. reflexivity.
Qed.

Lemma zref_freed x k r : zref x k r -> aget (mgrs (remove_mgr_if_unref (free_lock x r) k)) k = None.
Proof.
  intros ((l & Hl & Hk) & (mx & Hm & Hr)).
  unfold free_lock. rewrite Hl. rewrite Hk.
  unfold remove_mgr_if_unref.
  rewrite aget_mgrs_updm, N.eqb_refl. cbn [mgrs set]. rewrite Hm. cbn [option_map].
  cbn [m_ref set]. rewrite Hr. cbn [dec32 sub32].
  change ((1 + 4294967296 - 1 mod 4294967296) mod 4294967296 =? 0) with true. cbv iota.
  cbn [mgrs updc set]. apply aget_adel_same.
Qed.

(* the new-record phase: a request with Expried = 0 that is answered leaves no manager when it held the only
   reference *)
Lemma ls_tail_zero_removed s conn c k waited m s' ev w e code :
  ls_tail s conn c k waited = (s', ev, w) -> aget (mgrs s) k = Some m -> m_ref m = 0 ->
  (0 <? c_expried c) = false -> In e ev -> reply_code e = Some code ->
  aget (mgrs s') k = None.
Proof.
  intros H Hm Hr Hz Hin Hcode. unfold ls_tail in H.
  destruct (new_lock s k conn c) as [s0 r] eqn:En.
  pose proof (zref_new_lock _ _ _ _ _ _ _ En Hm Hr) as Hz0.
  cbv beta iota zeta in H. rewrite Hz in H.
  repeat (split_hyp H); inv_tuple H.
  all: try (destruct Hin as [<-|[]]; discriminate Hcode).
  all: try (destruct Hin; fail).
  all: cbn [mgrs bump updc set].
  all: apply zref_freed.
  all: repeat match goal with
       | E : push_lock_aof _ _ _ _ = (?y, _) |- zref ?y _ _ => eapply zref_push_lock_aof; [exact E|]
       | E : process_data _ _ _ _ _ = (?y, _) |- zref ?y _ _ => eapply zref_process_data; [exact E|]
       end.
  all: exact Hz0.
Qed.

Lemma lock_fresh_zero_expiry_lost s conn c s' ev w e code :
  lock_step s conn c = (s', ev, w) -> aget (mgrs s) (c_key c) = None -> c_expried c = 0 ->
  In e ev -> reply_code e = Some code ->
  aget (mgrs s') (c_key c) = None /\ data_of s' (c_key c) = None.
Proof.
  intros H Hn Hz Hin Hcode.
  cut (aget (mgrs s') (c_key c) = None); [intros Hx; split; [exact Hx|apply data_of_absent, Hx]|].
  rewrite lock_step_eq in H. cbv zeta in H.
  set (k := c_key c) in *.
  destruct (ls_pre s conn c k); [inv_tuple H; exact Hn|].
  assert (Hm : aget (mgrs (ls_mgr s k)) k = Some new_mgr).
  { rewrite ls_mgr_aget. unfold getm. rewrite Hn. reflexivity. }
  assert (Hg : getm (ls_mgr s k) k = new_mgr) by (apply getm_some, Hm).
  rewrite Hg in H.
  destruct (negb (leader (ls_mgr s k)) && negb (has (c_flag c) LOCK_FLAG_FROM_AOF)).
  { inv_tuple H. unfold remove_mgr_if_unref. rewrite Hm. cbn [m_ref new_mgr N.eqb].
    cbn [mgrs updc set]. apply aget_adel_same. }
  destruct (ls_held (ls_mgr s k) conn c k new_mgr) as [[res c1] wt] eqn:Eh.
  pose proof (ls_held_new _ _ _ _ _ _ _ Eh) as ->.
  destruct (ls_held_cases _ _ _ _ _ _ _ _ Eh Hm) as (Hrt & _).
  destruct (retarget_fields _ _ Hrt) as (_ & _ & _ & _ & He & _).
  eapply ls_tail_zero_removed; [exact H|exact Hm|reflexivity| |exact Hin|exact Hcode].
  rewrite He, Hz. reflexivity.
Qed.

(* ------------------------------------------------------------------ the named exceptions of the reply statement *)
(* TIMEOUT / STATE_ERROR replies of Lock are built from the state AFTER the request (post-removal); the only other
   case is the concurrent-check refusal on an unheld key, which reports nothing *)
Lemma lock_refusal_reply_post_state s conn c s' ev w cn rq code lc lrc lid cnt rc d :
  lock_step s conn c = (s', ev, w) -> In (EReply cn rq code lc lrc lid cnt rc d) ev ->
  code = R_TIMEOUT \/ code = R_STATE_ERROR ->
  d = data_of s' (c_key c)
  \/ (d = None /\ code = R_TIMEOUT /\ s' = s /\ m_locked (getm s (c_key c)) = 0
      /\ has (c_tflag c) TF_WAIT_WHEN_UNLOCK = true).
Proof.
  intros H Hin Hcode. apply lock_step_cases in H. unfold lock_cases in H. cbv zeta in H.
  assert (Hmid : forall mid, Forall quiet mid -> ~ In (EReply cn rq code lc lrc lid cnt rc d) mid).
  { intros mid Hq. apply quiet_no_reply, Hq. }
  assert (Hne : forall (P : Prop), code = R_SUCCED \/ code = R_LOCKED_ERROR -> P).
  { intros P [->| ->]; destruct Hcode as [Hx|Hx]; discriminate Hx. }
  destruct H as [H|[H|[H|[H|[H|H]]]]].
  - destruct H as (-> & _ & lc0 & d0 & -> & Hd). destruct Hin as [Hx|[]]. inv Hx.
    destruct Hd as [->|(-> & Hl & Hf)]; [left; reflexivity|right; auto].
  - destruct H as (_ & _ & -> & _). destruct Hin as [Hx|[]]. inv Hx. left. reflexivity.
  - destruct H as (-> & _ & c2 & code0 & lc0 & lrc0 & -> & _). destruct Hin as [Hx|[]]. inv Hx. left. reflexivity.
  - destruct H as (_ & c1 & r & _ & _ & (mid & Hsh & Hq) & _).
    destruct Hsh as [(-> & _)|(lc0 & lrc0 & ->)]; [exfalso; exact (Hmid _ Hq Hin)|].
    apply in_app_single in Hin. destruct Hin as [Hin|Hx]; [exfalso; exact (Hmid _ Hq Hin)|].
    inv Hx. apply Hne. right. reflexivity.
  - destruct H as (_ & _ & c1 & r & _ & _ & (cc0 & mid & lc0 & lrc0 & -> & Hq) & _).
    destruct Hin as [Hx|Hin]; [discriminate Hx|].
    apply in_app_single in Hin. destruct Hin as [Hin|Hx]; [exfalso; exact (Hmid _ Hq Hin)|].
    inv Hx. apply Hne. left. reflexivity.
  - destruct H as (c1 & Hrt & H). unfold tail_cases in H. cbv zeta in H.
    destruct H as [H|[H|[H|[H|[H|H]]]]].
    + destruct H as (_ & _ & (b0 & cc0 & mid & -> & Hq) & _).
      destruct Hin as [Hx|Hin]; [discriminate Hx|exfalso; exact (Hmid _ Hq Hin)].
    + destruct H as (_ & (b0 & cc0 & mid & lc0 & lrc0 & -> & Hq) & _).
      destruct Hin as [Hx|Hin]; [discriminate Hx|].
      apply in_app_single in Hin. destruct Hin as [Hin|Hx]; [exfalso; exact (Hmid _ Hq Hin)|].
      inv Hx. apply Hne. left. reflexivity.
    + destruct H as (_ & (mid & lc0 & lrc0 & -> & Hq) & _).
      apply in_app_single in Hin. destruct Hin as [Hin|Hx]; [exfalso; exact (Hmid _ Hq Hin)|].
      inv Hx. apply Hne. left. reflexivity.
    + destruct H as (-> & _). destruct Hin.
    + destruct H as (_ & _ & lc0 & lrc0 & -> & _). destruct Hin as [Hx|[]]. inv Hx. left. reflexivity.
    + destruct H as (_ & (site & ->) & _). destruct Hin as [Hx|[]]. discriminate Hx.
Qed.

(* both exceptions are real.  (1) REACHABLE: Lock (SET "a") then UnLock leaves key 5 unheld with value "a" (the
   record still sits in the expiry wheel, so the manager survives); a concurrent-check Lock with Timeout 0 and
   TIMEOUT_FLAG_LOCK_WAIT_WHEN_UNLOCK is answered TIMEOUT with NO value although the key has one.
   (2) any-state only: a manager without references that carries a value, not the leader: STATE_ERROR is built after
   the manager was removed and reports nothing *)
Lemma lock_reply_exceptions_real :
  (let s := fst (run (init_db 0 255)
                     [AReq 1 (mkCmd true 1 32 7 5 0 0 0 10 5 0 (Some [3;0;0;0;0;0;97]));
                      AReq 1 (mkCmd false 2 0 7 5 0 0 0 0 0 0 None)]) in
   data_of s 5 = Some [3;0;0;0;0;0;97]
   /\ lock_step s 2 (mkCmd true 3 8 9 5 512 0 0 10 5 0 None) = (s, [EReply 2 3 R_TIMEOUT 0 0 9 5 0 None], None))
  /\ (let s := (setm (init_db 0 255) 5 (new_mgr <| m_data := Some (mk_mdata [3;0;0;0;0;0;97] 0 false) |>))
                 <| leader := false |> in
      data_of s 5 = Some [3;0;0;0;0;0;97]
      /\ exists s', lock_step s 1 (mkCmd true 1 0 7 5 0 0 0 10 5 0 None)
                    = (s', [EReply 1 1 R_STATE_ERROR 0 0 7 5 0 None], None)).
Proof.
  split; cbv zeta.
  - split; vm_compute; reflexivity.
  - split; [vm_compute; reflexivity|]. eexists. vm_compute. reflexivity.
Qed.
