(* Groundwork for bounding the allocation counter `next` (it only moves in GetOrNewLock): the primitives of
   Queues.v / Timers.v leave it unchanged.  The critical sections are covered by nx_step_le (next grows by at most one
   per core action); InvProps.v derives bounded_run from the length bound of `core` (bounded_of_length, inv_core). *)
From Coq Require Import String ZifyN ZifyBool ZifyNat.
From Slock Require Import Engine.Types Engine.Queues Engine.Timers Engine.Engine Engine.Engine2 Engine.InvDef Engine.InvLockDefs.
Open Scope N_scope.

Ltac dm := match goal with
  | |- context [match ?x with _ => _ end] => destruct x eqn:?
  | |- context [if ?x then _ else _] => destruct x eqn:?
  | |- context [let '(_, _) := ?x in _] => destruct x eqn:?
  end.

Lemma nx_tw s x : next (s <| twheel := x |>) = next s.  Proof. reflexivity. Qed.
Lemma nx_tl s x : next (s <| tlong := x |>) = next s.  Proof. reflexivity. Qed.
Lemma nx_ew s x : next (s <| ewheel := x |>) = next s.  Proof. reflexivity. Qed.
Lemma nx_el s x : next (s <| elong := x |>) = next s.  Proof. reflexivity. Qed.
Lemma nx_updc s f : next (updc s f) = next s.  Proof. reflexivity. Qed.
Lemma nx_bump s f : next (bump f s) = next s.  Proof. reflexivity. Qed.
Lemma nx_setl s r l : next (setl s r l) = next s.  Proof. reflexivity. Qed.
#[export] Hint Rewrite nx_tw nx_tl nx_ew nx_el nx_updc nx_bump nx_setl : nx.
Lemma nx_updl s r f : next (updl s r f) = next s.
Proof. unfold updl. dm; reflexivity. Qed.
Lemma nx_updm s k f : next (updm s k f) = next s.
Proof. unfold updm. dm; reflexivity. Qed.
Lemma nx_free_lock s r : next (free_lock s r) = next s.
Proof. unfold free_lock. dm; [rewrite nx_updm|]; reflexivity. Qed.
Lemma nx_unref s r : next (unref s r) = next s.
Proof. unfold unref. repeat dm; rewrite ?nx_free_lock; reflexivity. Qed.
Lemma nx_remove_mgr s k : next (remove_mgr_if_unref s k) = next s.
Proof. unfold remove_mgr_if_unref. repeat dm; reflexivity. Qed.
#[export] Hint Rewrite nx_updl nx_updm nx_free_lock nx_unref nx_remove_mgr : nx.

Lemma nx_hq_compact items : forall s, next (fst (hq_compact s items)) = next s.
Proof. induction items as [|r t IH]; intros s; simpl; [reflexivity|]. dm.
  - specialize (IH s). destruct (hq_compact s t). exact IH.
  - rewrite IH. autorewrite with nx. reflexivity. Qed.
Lemma nx_wq_compact items : forall s, next (fst (wq_compact s items)) = next s.
Proof. induction items as [|r t IH]; intros s; simpl; [reflexivity|]. dm.
  - rewrite IH. autorewrite with nx. reflexivity.
  - specialize (IH s). destruct (wq_compact s t). exact IH. Qed.
Lemma nx_hq_push s q r : next (fst (hq_push s q r)) = next s.
Proof. unfold hq_push. repeat dm; try reflexivity; cbn [fst];
  match goal with H : hq_compact ?s0 ?it = (?s', _) |- _ => pose proof (nx_hq_compact it s0) as X; rewrite H in X; exact X end. Qed.
Lemma nx_wq_push s q r : next (fst (wq_push s q r)) = next s.
Proof. unfold wq_push. repeat dm; try reflexivity; cbn [fst];
  match goal with H : wq_compact ?s0 ?it = (?s', _) |- _ => pose proof (nx_wq_compact it s0) as X; rewrite H in X; exact X end. Qed.
Lemma nx_promote fuel : forall s q, next (fst (fst (promote fuel s q))) = next s.
Proof. induction fuel as [|f IH]; intros s q; simpl; [reflexivity|]. repeat dm; try reflexivity. rewrite IH. autorewrite with nx. reflexivity. Qed.
Lemma nx_drop_dead fuel : forall s q, next (fst (drop_dead_heads fuel s q)) = next s.
Proof. induction fuel as [|f IH]; intros s q; simpl; [reflexivity|]. repeat dm; try reflexivity. rewrite IH. autorewrite with nx. reflexivity. Qed.
Lemma nx_remove_lock s k r : next (remove_lock s k r) = next s.
Proof. unfold remove_lock. repeat dm; autorewrite with nx; try reflexivity.
  - match goal with H : promote ?f ?s0 ?q = _ |- _ => pose proof (nx_promote f s0 q) as X; rewrite H in X; cbn [fst] in X; rewrite X end. autorewrite with nx. reflexivity.
  - match goal with H : drop_dead_heads ?f ?s0 ?q = _ |- _ => pose proof (nx_drop_dead f s0 q) as X; rewrite H in X; cbn [fst] in X; rewrite X end. autorewrite with nx. reflexivity.
Qed.
Lemma nx_add_wait_lock s k r : next (add_wait_lock s k r) = next s.
Proof. unfold add_wait_lock. cbv zeta. match goal with |- context [wq_push ?s0 ?q r] => pose proof (nx_wq_push s0 q r) as X; destruct (wq_push s0 q r) end.
  cbn [fst] in X. autorewrite with nx. exact X. Qed.
Lemma nx_get_wait_loop fuel : forall s q, next (fst (fst (get_wait_loop fuel s q))) = next s.
Proof. induction fuel as [|f IH]; intros s q; simpl; [reflexivity|]. repeat dm; try reflexivity. rewrite IH. autorewrite with nx. reflexivity. Qed.
Lemma nx_get_wait_lock s k : next (fst (get_wait_lock s k)) = next s.
Proof. unfold get_wait_lock. dm; [|reflexivity]. match goal with |- context [get_wait_loop ?f ?s0 ?q] => pose proof (nx_get_wait_loop f s0 q) as X; destruct (get_wait_loop f s0 q) as [[? ?] ?] end.
  cbn [fst] in *. autorewrite with nx. exact X. Qed.
#[export] Hint Rewrite nx_remove_lock nx_add_wait_lock nx_get_wait_lock : nx.

Lemma nx_push_lock_aof s k r f : next (fst (push_lock_aof s k r f)) = next s.
Proof. unfold push_lock_aof. repeat dm; cbn [fst]; autorewrite with nx; reflexivity. Qed.
Lemma nx_push_unlock_aof s k r lc uc b f : next (fst (push_unlock_aof s k r lc uc b f)) = next s.
Proof. unfold push_unlock_aof. repeat dm; cbn [fst]; autorewrite with nx; reflexivity. Qed.
Lemma nx_repeat_push n : forall s k r, next (fst (repeat_push_lock_aof n s k r)) = next s.
Proof. induction n as [|n IH]; intros s k r; simpl; [reflexivity|].
  pose proof (nx_push_lock_aof s k r 0) as X. destruct (push_lock_aof s k r 0) as [s1 e1]. cbn [fst] in X.
  specialize (IH s1 k r). destruct (repeat_push_lock_aof n s1 k r). cbn [fst] in *. congruence. Qed.
Lemma nx_add_timeout s r : next (add_timeout s r) = next s.
Proof. unfold add_timeout. cbv zeta. dm; autorewrite with nx; cbn [next]; autorewrite with nx; reflexivity. Qed.
Lemma nx_add_expried s k r : next (fst (add_expried s k r)) = next s.
Proof. unfold add_expried. cbv zeta. 
  match goal with |- next (fst (if ?c then repeat_push_lock_aof ?n ?s0 k r else _)) = _ =>
    assert (X : next s0 = next s); [|destruct c; [rewrite nx_repeat_push|cbn [fst]]; exact X] end.
  dm; autorewrite with nx; cbn [next]; autorewrite with nx; reflexivity. Qed.
Lemma nx_remove_long_timeout s r : next (remove_long_timeout s r) = next s.
Proof. unfold remove_long_timeout. repeat dm; autorewrite with nx; reflexivity. Qed.
Lemma nx_remove_long_expried s r t : next (remove_long_expried s r t) = next s.
Proof. unfold remove_long_expried. repeat dm; autorewrite with nx; reflexivity. Qed.
#[export] Hint Rewrite nx_add_timeout nx_remove_long_timeout nx_remove_long_expried : nx.

Lemma nx_add_lock s k r : next (add_lock s k r) = next s.
Proof. unfold add_lock. cbv zeta. dm; autorewrite with nx; try reflexivity.
  match goal with |- context [hq_push ?s0 ?q r] => pose proof (nx_hq_push s0 q r) as X; destruct (hq_push s0 q r) end.
  cbn [fst] in X. autorewrite with nx. rewrite X. autorewrite with nx. reflexivity. Qed.
Lemma nx_process_data s k r c b : next (fst (process_data s k r c b)) = next s.
Proof. unfold process_data. repeat dm; cbn [fst]; autorewrite with nx; reflexivity. Qed.
Lemma nx_update_locked_lock s k r c : next (update_locked_lock s k r c) = next s.
Proof. reflexivity. Qed.
Lemma nx_update_and_rearm s k r c : next (fst (update_and_rearm s k r c)) = next s.
Proof. unfold update_and_rearm. cbv zeta. repeat dm; cbn [fst]; autorewrite with nx; try reflexivity.
  match goal with H : add_expried ?s0 k r = (?s1, _) |- _ => pose proof (nx_add_expried s0 k r) as X; rewrite H in X; cbn [fst] in X; rewrite X end.
  autorewrite with nx. reflexivity. Qed.
#[export] Hint Rewrite nx_add_lock nx_update_locked_lock : nx.


(* ---------------------------------------------------------------- critical sections *)
Ltac nx_pair f lem :=
  let X := fresh "X" in pose proof lem as X; destruct f; cbn [fst] in X.
Ltac nx_step :=
  match goal with
  | |- context [let '(_, _) := (if ?b then _ else _) in _] => destruct b
  | |- context [let '(_, _) := (_, _) in _] => cbv iota beta
  | |- context [let '(_, _) := push_lock_aof ?s ?k ?r ?f in _] => nx_pair (push_lock_aof s k r f) (nx_push_lock_aof s k r f)
  | |- context [let '(_, _) := push_unlock_aof ?s ?k ?r ?a ?b ?c ?d in _] => nx_pair (push_unlock_aof s k r a b c d) (nx_push_unlock_aof s k r a b c d)
  | |- context [let '(_, _) := add_expried ?s ?k ?r in _] => nx_pair (add_expried s k r) (nx_add_expried s k r)
  | |- context [let '(_, _) := process_data ?s ?k ?r ?c ?b in _] => nx_pair (process_data s k r c b) (nx_process_data s k r c b)
  | |- context [let '(_, _) := update_and_rearm ?s ?k ?r ?c in _] => nx_pair (update_and_rearm s k r c) (nx_update_and_rearm s k r c)
  | |- context [let '(_, _) := get_wait_lock ?s ?k in _] => nx_pair (get_wait_lock s k) (nx_get_wait_lock s k)
  | |- context [let '(_, _) := (match process_recover_lock_data ?a ?b with _ => _ end) in _] => destruct (process_recover_lock_data a b)
  | |- context [let '(_, _) := (let '(_, _) := ?a in _) in _] => is_var a; destruct a
  | |- context [if ?b then _ else _] => destruct b
  | |- context [match ?x with _ => _ end] => destruct x
  end.
Ltac nx_fin :=
  cbn [fst snd]; autorewrite with nx;
  repeat (match goal with X : next ?a = _ |- context [next ?a] => rewrite X; clear X end; autorewrite with nx);
  try reflexivity.
Ltac nx_all := repeat (repeat nx_step; nx_fin).

Lemma nx_wake_grant s k r via : next (fst (wake_grant s k r via)) = next s.
Proof. unfold wake_grant. cbv zeta. nx_all. Qed.
Ltac nx_step2 :=
  match goal with
  | |- context [let '(_, _) := wake_grant ?s ?k ?r ?v in _] => nx_pair (wake_grant s k r v) (nx_wake_grant s k r v)
  | _ => nx_step
  end.
Lemma nx_wake_iter s w : next (fst (fst (wake_iter s w))) = next s.
Proof. unfold wake_iter. cbv zeta. repeat (repeat nx_step2; nx_fin). Qed.
Lemma nx_run_wake fuel : forall s w, next (fst (run_wake fuel s w)) = next s.
Proof. induction fuel as [|f IH]; intros s w; simpl; [reflexivity|].
  pose proof (nx_wake_iter s w) as X. destruct (wake_iter s w) as [[s1 e1] [|]]; cbn [fst] in *; [exact X|].
  specialize (IH s1 w). destruct (run_wake f s1 w). cbn [fst] in *. congruence. Qed.
Lemma nx_finish res : next (fst (finish res)) = next (fst (fst res)).
Proof. destruct res as [[s ev] [w|]]; unfold finish; [|reflexivity].
  pose proof (nx_run_wake (wake_fuel s (w_key w)) s w) as X. destruct (run_wake (wake_fuel s (w_key w)) s w). exact X. Qed.
Lemma nx_cancel_wait_lock s conn c : next (fst (fst (cancel_wait_lock s conn c))) = next s.
Proof. unfold cancel_wait_lock. cbv zeta. nx_all. Qed.
Lemma nx_release_hold s k conn c r d : next (fst (release_hold s k conn c r d)) = next s.
Proof. unfold release_hold. cbv zeta. nx_all. Qed.
Ltac nx_step3 :=
  match goal with
  | |- context [let '(_, _) := release_hold ?s ?k ?cn ?c ?r ?d in _] => nx_pair (release_hold s k cn c r d) (nx_release_hold s k cn c r d)
  | _ => nx_step
  end.
Lemma nx_ul_body s conn c k r : next (fst (fst (ul_body s conn c k r))) = next s.
Proof. unfold ul_body. cbv zeta. repeat (repeat nx_step3; nx_fin). Qed.
Lemma nx_unlock_step s conn c : next (fst (fst (unlock_step s conn c))) = next s.
Proof. rewrite unlock_step_eq. cbv zeta.
  destruct (aget (mgrs s) (c_key c)) as [m|]; [|reflexivity].
  destruct (negb (leader s) && negb (has (c_flag c) UNLOCK_FLAG_FROM_AOF)); [reflexivity|].
  destruct (m_locked m =? 0); [destruct (has (c_flag c) UNLOCK_FLAG_CANCEL_WAIT); [apply nx_cancel_wait_lock|reflexivity]|].
  unfold ul_target. cbv zeta.
  destruct (get_locked_lock s m (c_lockid c)) as [r|].
  - destruct (negb (l_ack (getl s r) =? 255)); [reflexivity|apply nx_ul_body].
  - destruct (has (c_flag c) UNLOCK_FLAG_FIRST).
    + destruct (m_cur m) as [cr|]; [|reflexivity]. destruct (negb (l_ack (getl s cr) =? 255)); [reflexivity|apply nx_ul_body].
    + destruct (has (c_flag c) UNLOCK_FLAG_CANCEL_WAIT); [apply nx_cancel_wait_lock|reflexivity].
Qed.
Lemma nx_do_timeout s r : next (fst (fst (do_timeout s r))) = next s.
Proof. unfold do_timeout. cbv zeta. nx_all. Qed.
Lemma nx_do_expried s r : next (fst (fst (do_expried s r))) = next s.
Proof. unfold do_expried. cbv zeta. nx_all. Qed.

Lemma nx_sweep_t_slot fuel : forall s slot nowv due, next (fst (sweep_t_slot fuel s slot nowv due)) = next s.
Proof. induction fuel as [|f IH]; intros s slot nowv due; simpl; [reflexivity|].
  repeat nx_step; cbn [fst]; rewrite ?IH; autorewrite with nx; reflexivity. Qed.
Lemma nx_sweep_long items : forall s b due, next (fst (sweep_long s items b due)) = next s.
Proof. induction items as [|r t IH]; intros s b due; simpl; [reflexivity|].
  repeat nx_step; rewrite ?IH; autorewrite with nx; reflexivity. Qed.
Lemma nx_collect_timeouts s t nowv : next (fst (collect_timeouts s t nowv)) = next s.
Proof. unfold collect_timeouts.
  match goal with |- context [sweep_t_slot ?f s ?sl nowv []] => pose proof (nx_sweep_t_slot f s sl nowv []) as X; destruct (sweep_t_slot f s sl nowv []) as [s1 due] end.
  cbn [fst] in X. destruct (aget (tlong s1) (lkey t)); [rewrite nx_sweep_long; autorewrite with nx|]; exact X. Qed.
Lemma nx_sweep_e_slot fuel : forall s slot nowv due ev, next (fst (fst (sweep_e_slot fuel s slot nowv due ev))) = next s.
Proof. induction fuel as [|f IH]; intros s slot nowv due ev; simpl; [reflexivity|].
  repeat nx_step; cbn [fst]; rewrite ?IH; nx_fin. Qed.
Lemma nx_collect_expiries s t nowv : next (fst (fst (collect_expiries s t nowv))) = next s.
Proof. unfold collect_expiries.
  match goal with |- context [sweep_e_slot ?f s ?sl nowv [] []] => pose proof (nx_sweep_e_slot f s sl nowv [] []) as X; destruct (sweep_e_slot f s sl nowv [] []) as [[s1 due] ev] end.
  cbn [fst] in X. destruct (aget (elong s1) (lkey t)); [|exact X].
  match goal with |- context [sweep_long ?s0 ?it false due] => pose proof (nx_sweep_long it s0 false due) as Y; destruct (sweep_long s0 it false due) end.
  cbn [fst] in *. rewrite Y. autorewrite with nx. exact X. Qed.
Lemma nx_fire_all f (Hf : forall s r, next (fst (fst (f s r))) = next s) due : forall s, next (fst (fire_all f s due)) = next s.
Proof. induction due as [|r t IH]; intros s; simpl; [reflexivity|].
  pose proof (nx_finish (f s r)) as X. destruct (finish (f s r)) as [s1 e1]. cbn [fst] in X.
  specialize (IH s1). destruct (fire_all f s1 t). cbn [fst] in *. rewrite IH, X. apply Hf. Qed.
Lemma nx_sweep_t_secs n : forall s t nowv, next (fst (sweep_t_secs n s t nowv)) = next s.
Proof. induction n as [|n IH]; intros s t nowv; simpl; [reflexivity|].
  pose proof (nx_collect_timeouts s t nowv) as X. destruct (collect_timeouts s t nowv) as [s1 due]. cbn [fst] in X.
  pose proof (nx_fire_all do_timeout nx_do_timeout due s1) as Y. destruct (fire_all do_timeout s1 due) as [s2 e2]. cbn [fst] in Y.
  specialize (IH s2 (t + 1)%Z nowv). destruct (sweep_t_secs n s2 (t + 1)%Z nowv). cbn [fst] in *. congruence. Qed.
Lemma nx_sweep_e_secs n : forall s t nowv, next (fst (sweep_e_secs n s t nowv)) = next s.
Proof. induction n as [|n IH]; intros s t nowv; simpl; [reflexivity|].
  pose proof (nx_collect_expiries s t nowv) as X. destruct (collect_expiries s t nowv) as [[s1 due] e1]. cbn [fst] in X.
  pose proof (nx_fire_all do_expried nx_do_expried due s1) as Y. destruct (fire_all do_expried s1 due) as [s2 e2]. cbn [fst] in Y.
  specialize (IH s2 (t + 1)%Z nowv). destruct (sweep_e_secs n s2 (t + 1)%Z nowv). cbn [fst] in *. congruence. Qed.

Lemma nx_new_lock s k conn c : next (fst (new_lock s k conn c)) = next s + 1.
Proof. unfold new_lock. cbn [fst]. autorewrite with nx. reflexivity. Qed.

Ltac nx_step4 :=
  match goal with
  | |- context [let '(_, _) := new_lock ?s ?k ?cn ?c in _] => nx_pair (new_lock s k cn c) (nx_new_lock s k cn c)
  | _ => nx_step
  end.
Lemma nx_ls_tail s conn c k w : next (fst (fst (ls_tail s conn c k w))) = next s + 1.
Proof. unfold ls_tail. cbv zeta. repeat (repeat nx_step4; nx_fin). Qed.
Lemma nx_ls_update s conn c1 k m r l ld res c' w :
  ls_update s conn c1 k m r l ld = (Some res, c', w) -> next (fst (fst res)) = next s.
Proof. unfold ls_update. cbv zeta. repeat nx_step; intros E; inversion E; subst; nx_fin. Qed.
Lemma nx_ls_relock s conn c1 k m r l ld res c' w :
  ls_relock s conn c1 k m r l ld = (Some res, c', w) -> next (fst (fst res)) = next s.
Proof. unfold ls_relock. cbv zeta. repeat nx_step; intros E; inversion E; subst; nx_fin. Qed.
Lemma nx_ls_held s conn c k m res c' w : ls_held s conn c k m = (Some res, c', w) -> next (fst (fst res)) = next s.
Proof. rewrite ls_held_eq. cbv zeta.
  repeat match goal with
  | |- (if ?b then _ else _) = _ -> _ => destruct b
  | |- (match ?x with _ => _ end) = _ -> _ => destruct x
  end; try (intros E; inversion E; subst; reflexivity); try apply nx_ls_update; try apply nx_ls_relock.
Qed.
Lemma nx_lock_step s conn c : next (fst (fst (lock_step s conn c))) <= next s + 1.
Proof. rewrite lock_step_eq. cbv zeta.
  destruct (ls_pre s conn c (c_key c)); [cbn [fst]; lia|].
  assert (E0 : next (ls_mgr s (c_key c)) = next s) by (unfold ls_mgr; destruct (aget (mgrs s) (c_key c)); reflexivity).
  destruct (negb (leader (ls_mgr s (c_key c))) && negb (has (c_flag c) LOCK_FLAG_FROM_AOF)).
  - cbn [fst]. autorewrite with nx. lia.
  - destruct (ls_held (ls_mgr s (c_key c)) conn c (c_key c) (getm (ls_mgr s (c_key c)) (c_key c))) as [[[res|] c'] w] eqn:E.
    + rewrite (nx_ls_held _ _ _ _ _ _ _ _ E). lia.
    + rewrite nx_ls_tail. lia.
Qed.

Theorem nx_step_le s a : core_action a = true -> next (fst (step s a)) <= next s + 1.
Proof.
  intros Hc. destruct a as [conn c|k| | |r ok|b]; cbn [step core_action] in *.
  - rewrite nx_finish. destruct (c_lock c); [apply nx_lock_step|rewrite nx_unlock_step; lia].
  - cbn [fst]. change (next (s <| now := (now s + k)%Z |>)) with (next s). lia.
  - unfold sweep_timeouts. rewrite nx_sweep_t_secs. change (next (s <| checkT := (now s + 1)%Z |>)) with (next s). lia.
  - unfold sweep_expiries. rewrite nx_sweep_e_secs. change (next (s <| checkE := (now s + 1)%Z |>)) with (next s). lia.
  - discriminate.
  - cbn [fst]. change (next (s <| leader := b |>)) with (next s). lia.
Qed.
