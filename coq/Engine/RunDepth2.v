(* Depth arithmetic of re-entrant holds (property C02), part 2: the three operations on a hold that the lookup finds.
   (i)   UnLock, one level         (depth d > 1, Rcount > 0, no priority flag)
   (ii)  UnLock, the hold ends     (depth 1, or Rcount = 0, or priority flag)
   (iii) Lock by the holder        (new level / probe with Expried = 0 / LOCKED_ERROR)
   Every state; the facts a reachable state provides (depth <= 255, depth <= locked < 2^32, ack = 255) are explicit
   hypotheses, discharged from the invariant in RunDepth4.v. *)
From Coq Require Import String ZifyN ZifyBool ZifyNat.
From Slock Require Import Engine.Types Engine.Queues Engine.Timers Engine.Engine Engine.Engine2 Engine.LocalBase
  Engine.LocalFrames Engine.LocalC04 Engine.InvDef Engine.InvBase Engine.InvPrims Engine.InvRec Engine.InvSteps
  Engine.InvLockDefs Engine.InvUnlock Engine.RunDepth.
Open Scope N_scope.

(* ------------------------------------------------------------------ small facts *)
Lemma data_of_mdata s s' k : m_data (getm s' k) = m_data (getm s k) -> data_of s' k = data_of s k.
Proof. unfold data_of. intros ->. reflexivity. Qed.

Lemma qs_getm r k s s' m : qs r k s s' -> aget (mgrs s) k = Some m -> mq m (getm s' k).
Proof. intros Q H. destruct (qs_mgr _ _ _ _ _ Q H) as (m' & H1 & H2). rewrite (getm_some _ _ _ H1). exact H2. Qed.
Lemma qs_getl r k s s' l : qs r k s s' -> aget (store s) r = Some l -> deq l (getl s' r).
Proof. intros Q H. destruct (qs_rec _ _ _ _ _ Q H) as (l' & H1 & H2). rewrite (getl_some _ _ _ H1). exact H2. Qed.
Lemma qs_getl_other r k s s' r' : qs r k s s' -> r' <> r -> getl s' r' = getl s r'.
Proof. intros Q H. unfold getl. rewrite (qs_o _ _ _ _ Q r' H). reflexivity. Qed.

Lemma aget_setl_same s r l : aget (store (setl s r l)) r = Some l.
Proof. rewrite store_setl. apply aget_aset_same. Qed.
Lemma aget_setl_other s r l r' : r' <> r -> aget (store (setl s r l)) r' = aget (store s) r'.
Proof. intros H. rewrite store_setl. apply aget_aset_other. congruence. Qed.
Lemma aget_setm_same s k m : aget (mgrs (setm s k m)) k = Some m.
Proof. rewrite mgrs_setm. apply aget_aset_same. Qed.
Lemma aget_setm_other s k m k' : k' <> k -> aget (mgrs (setm s k m)) k' = aget (mgrs s) k'.
Proof. intros H. rewrite mgrs_setm. apply aget_aset_other. congruence. Qed.

Lemma reply_eq conn c res lc lrc d :
  reply conn c res lc lrc d = EReply conn (c_req c) res (u16 lc) lrc (c_lockid c) (c_count c) (c_rcount c) d.
Proof. reflexivity. Qed.

(* ------------------------------------------------------------------ UnLock reaches the body with the hold found *)
Lemma unlock_step_found s conn c m r :
  aget (mgrs s) (c_key c) = Some m ->
  negb (leader s) && negb (has (c_flag c) UNLOCK_FLAG_FROM_AOF) = false ->
  0 < m_locked m ->
  get_locked_lock s m (c_lockid c) = Some r -> l_ack (getl s r) = 255 ->
  unlock_step s conn c = ul_body s conn c (c_key c) r.
Proof.
  intros Hm Hl Hpos Hg Hack. rewrite unlock_step_eq. cbv zeta. rewrite Hm, Hl.
  destruct (m_locked m =? 0) eqn:E; [apply N.eqb_eq in E; lia|].
  unfold ul_target. cbv zeta. rewrite Hg, Hack. reflexivity.
Qed.

(* ------------------------------------------------------------------ (i) one level *)
Lemma ul_body_one_level s conn c k r l m :
  aget (store s) r = Some l -> aget (mgrs s) k = Some m ->
  1 < l_locked l -> l_locked l <= 255 -> 0 < m_locked m -> m_locked m < 4294967296 ->
  0 < c_rcount c -> has (c_tflag c) TF_PRIORITY = false -> c_data c = None ->
  exists s' aev,
    ul_body s conn c k r
    = (s', [ERelease k r 1] ++ aev ++ [reply conn c R_SUCCED (m_locked m - 1) (l_locked l - 1) (data_of s k)],
       Some (mkWake k (Some conn)))
    /\ only_aof aev
    /\ qs r k (setm (setl s r (l <| l_locked := l_locked l - 1 |>)) k (m <| m_locked := m_locked m - 1 |>)) s'.
Proof.
  intros Hr Hm Hd Hd2 Hp Hb Hrc Hpr Hdat.
  unfold ul_body. cbv zeta. rewrite (getl_some _ _ _ Hr).
  assert (E1 : (1 <? l_locked l) = true) by (apply N.ltb_lt; auto). rewrite E1.
  assert (E2 : (0 <? c_rcount c) && negb (has (c_tflag c) TF_PRIORITY) = true).
  { rewrite Hpr. apply andb_true_iff. split; auto. apply N.ltb_lt; auto. }
  rewrite E2. rewrite (updl_some _ _ _ _ Hr).
  rewrite (dec8_pred (l_locked l)) by lia.
  set (l1 := l <| l_locked := l_locked l - 1 |>).
  assert (Hm1 : aget (mgrs (setl s r l1)) k = Some m) by exact Hm.
  rewrite (updm_some _ _ _ _ Hm1).
  rewrite (sub32_sub (m_locked m) 1) by lia.
  set (m1 := m <| m_locked := m_locked m - 1 |>).
  set (s2 := setm (setl s r l1) k m1).
  assert (Hd0 : data_of s2 k = data_of s k).
  { apply data_of_mdata. unfold s2. rewrite getm_setm_same. rewrite (getm_some _ _ _ Hm). reflexivity. }
  rewrite Hd0.
  assert (Hpd : (if has_udata_flag c then process_data s2 k r c false else (s2, [])) = (s2, [])).
  { destruct (has_udata_flag c); auto. apply process_data_core; auto. }
  rewrite Hpd. cbv iota beta.
  assert (Hr2 : aget (store s2) r = Some l1) by (unfold s2; apply aget_setl_same).
  assert (Hm2 : aget (mgrs s2) k = Some m1) by (unfold s2; apply aget_setm_same).
  assert (Hfin : forall s3, qs r k s2 s3 ->
            m_locked (getm (bump (fun n => n <| n_unlock := (n_unlock n + 1)%Z |> <| n_locked := (n_locked n - 1)%Z |>) s3) k) = m_locked m - 1
            /\ l_locked (getl (bump (fun n => n <| n_unlock := (n_unlock n + 1)%Z |> <| n_locked := (n_locked n - 1)%Z |>) s3) r) = l_locked l - 1).
  { intros s3 Q. change (getm (bump _ s3) k) with (getm s3 k). change (getl (bump _ s3) r) with (getl s3 r).
    destruct (qs_getm _ _ _ _ _ Q Hm2) as (A & _). destruct (qs_getl _ _ _ _ _ Q Hr2) as (B & _).
    rewrite A, B. split; reflexivity. }
  destruct (l_isaof (getl s2 r)).
  - destruct (push_unlock_aof s2 k r (l_cmd (getl s2 r)) (Some c) true AOF_FLAG_UPDATED) as [s3 aev] eqn:E.
    assert (Q : qs r k s2 s3) by (eapply push_unlock_aof_qs; [exact E|apply qs_refl]).
    destruct (Hfin s3 Q) as (F1 & F2). rewrite F1, F2.
    eexists. exists aev. split; [reflexivity|]. split; [eapply push_unlock_aof_only_aof; eauto|].
    apply qsr_bump. exact Q.
  - destruct (Hfin s2 (qs_refl _ _ _)) as (F1 & F2). rewrite F1, F2.
    eexists. exists []. split; [reflexivity|]. split; [constructor|]. apply qsr_bump, qs_refl.
Qed.

Theorem unlock_one_level s conn c m r l s' ev w :
  unlock_step s conn c = (s', ev, w) ->
  aget (mgrs s) (c_key c) = Some m ->
  negb (leader s) && negb (has (c_flag c) UNLOCK_FLAG_FROM_AOF) = false ->
  get_locked_lock s m (c_lockid c) = Some r ->
  aget (store s) r = Some l -> l_ack l = 255 ->
  1 < l_locked l -> l_locked l <= 255 -> l_locked l <= m_locked m -> m_locked m < 4294967296 ->
  0 < c_rcount c -> has (c_tflag c) TF_PRIORITY = false -> c_data c = None ->
  (exists l', aget (store s') r = Some l' /\ l_locked l' = l_locked l - 1 /\ l_key l' = l_key l
              /\ l_cmd l' = l_cmd l /\ l_ack l' = 255)
  /\ (forall r', r' <> r -> aget (store s') r' = aget (store s) r')
  /\ (exists m', aget (mgrs s') (c_key c) = Some m' /\ m_locked m' = m_locked m - 1
                 /\ m_cur m' = m_cur m /\ m_locks m' = m_locks m /\ m_wait m' = m_wait m /\ m_waited m' = m_waited m
                 /\ (forall id, get_locked_lock s' m' id = get_locked_lock s m id))
  /\ (forall k', k' <> c_key c -> aget (mgrs s') k' = aget (mgrs s) k')
  /\ (exists aev, only_aof aev
        /\ ev = [ERelease (c_key c) r 1] ++ aev
                ++ [EReply conn (c_req c) R_SUCCED (u16 (m_locked m - 1)) (l_locked l - 1) (c_lockid c) (c_count c)
                           (c_rcount c) (data_of s (c_key c))])
  /\ w = Some (mkWake (c_key c) (Some conn)).
Proof.
  intros H Hm Hl Hg Hr Hack Hd Hd2 Hle Hb Hrc Hpr Hdat. set (k := c_key c) in *.
  rewrite (unlock_step_found s conn c m r Hm Hl) in H; [|lia|exact Hg|rewrite (getl_some _ _ _ Hr); exact Hack].
  destruct (ul_body_one_level s conn c k r l m Hr Hm Hd Hd2) as (s1 & aev & E & Haev & Q); auto; try lia.
  fold k in H. rewrite E in H. inv_tuple H.
  set (l1 := l <| l_locked := l_locked l - 1 |>) in *. set (m1 := m <| m_locked := m_locked m - 1 |>) in *.
  set (s2 := setm (setl s r l1) k m1) in *.
  assert (Hr2 : aget (store s2) r = Some l1) by (unfold s2; apply aget_setl_same).
  assert (Hm2 : aget (mgrs s2) k = Some m1) by (unfold s2; apply aget_setm_same).
  destruct (qs_rec _ _ _ _ _ Q Hr2) as (l' & Hr' & D1 & D2 & D3 & D4).
  destruct (qs_mgr _ _ _ _ _ Q Hm2) as (m' & Hm' & M1 & M2 & M3 & M4 & M5 & M6).
  unfold l1 in D1, D2, D3, D4. cbn in D1, D2, D3, D4. unfold m1 in M1, M2, M3, M4, M5, M6. cbn in M1, M2, M3, M4, M5, M6.
  assert (Hoth : forall r', r' <> r -> aget (store s1) r' = aget (store s) r').
  { intros r' Hne. rewrite (qs_o _ _ _ _ Q r' Hne). unfold s2. apply aget_setl_other; auto. }
  split; [|split; [exact Hoth|split; [|split; [|split]]]].
  - exists l'. repeat split; auto; try congruence.
  - exists m'. repeat split; auto.
    intros id. apply get_locked_lock_ext; auto.
    intros r'. destruct (N.eq_dec r' r) as [->|Hne].
    + rewrite (getl_some _ _ _ Hr'), (getl_some _ _ _ Hr). split; [|congruence].
      rewrite D1. assert (A1 : (0 <? l_locked l - 1) = true) by (apply N.ltb_lt; lia).
      assert (A2 : (0 <? l_locked l) = true) by (apply N.ltb_lt; lia). congruence.
    + unfold getl. rewrite (Hoth r' Hne). split; reflexivity.
  - intros k' Hne. rewrite (qs_ok _ _ _ _ Q k' Hne). unfold s2. rewrite aget_setm_other by auto. reflexivity.
  - exists aev. split; auto.
  - reflexivity.
Qed.

(* ------------------------------------------------------------------ (ii) the hold ends *)
(* RemoveLock = tombstone the record, then the queue work *)
Definition remove_tail (s : db) (k : N) (r : ref) : db :=
  let m := getm s k in
  let lockid := c_lockid (l_cmd (getl s r)) in
  if match m_cur m with Some c => c =? r | None => false end then
    let s := updl s r (fun l => l <| l_refc := dec8 (l_refc l) |>) in
    match m_locks m with
    | None => updm s k (fun m => m <| m_cur := None |>)
    | Some q =>
        let '(s', q', nc) := promote (S (hq_size q)) s q in
        updm s' k (fun m => m <| m_cur := nc |> <| m_locks := Some q' |>)
    end
  else
    match m_locks m with
    | None => s
    | Some q =>
        let q := hq_removelock q lockid in
        let '(s', q') := drop_dead_heads (S (hq_size q)) s q in
        updm s' k (fun m => m <| m_locks := Some q' |>)
    end.
Lemma remove_lock_eq s k r :
  remove_lock s k r = remove_tail (updl s r (fun l => l <| l_locked := 0 |> <| l_ack := 255 |>)) k r.
Proof. reflexivity. Qed.

Lemma remove_tail_dk X s0 s k r : dk X s0 s -> dk X s0 (remove_tail s k r).
Proof.
  intros F. unfold remove_tail. cbv zeta.
  match goal with |- dk _ _ (if ?c then _ else _) => destruct c end.
  - destruct (m_locks (getm _ k)) as [q|]; [|dks].
    destruct (promote _ _ q) as [[x1 q1] nc] eqn:E.
    apply dkr_updm. eapply promote_dk; [exact E|]. dks.
  - destruct (m_locks (getm _ k)) as [q|]; [|dks].
    destruct (drop_dead_heads _ _ _) as [x1 q1] eqn:E.
    apply dkr_updm. eapply drop_dead_heads_dk; [exact E|]. dks.
Qed.

Lemma tomb_dk r s s' : tomb r s -> dk (fun _ => False) s s' -> tomb r s'.
Proof.
  intros T D l' H. destruct (D r l' H) as [[]|(l & H1 & E & _)]. rewrite E. apply T; auto.
Qed.

Lemma remove_lock_tomb s k r s' : dk (fun _ => False) (remove_lock s k r) s' -> tomb r s'.
Proof.
  intros D. apply (tomb_dk r (updl s r (fun l => l <| l_locked := 0 |> <| l_ack := 255 |>))).
  - intros l H. rewrite aget_store_updl, N.eqb_refl in H. destruct (aget (store s) r); simpl in H; [|discriminate].
    inv H. reflexivity.
  - eapply dk_trans; [|exact D]. rewrite remove_lock_eq. apply remove_tail_dk, dk_refl.
Qed.

Lemma release_hold_tomb s k conn c r d s' ev : release_hold s k conn c r d = (s', ev) -> tomb r s'.
Proof.
  intros H. unfold release_hold in H. cbv zeta in H.
  repeat (split_hyp H); inv_tuple H.
  all: eapply remove_lock_tomb; dks.
Qed.

Lemma release_hold_shape s k conn c r d s' ev :
  c_data c = None -> release_hold s k conn c r d = (s', ev) ->
  exists aev, only_aof aev /\ ev = [ERelease k r d] ++ aev ++ [reply conn c R_SUCCED (m_locked (getm s' k)) 0 (data_of s k)].
Proof.
  intros Hdat H. unfold release_hold in H. cbv zeta in H.
  assert (Hd0 : data_of (updl s r (fun l => l <| l_expried := true |>)) k = data_of s k).
  { apply data_of_mdata. rewrite getm_updl. reflexivity. }
  rewrite Hd0 in H.
  assert (Hpd : (if has_udata_flag c then process_data (updl s r (fun l => l <| l_expried := true |>)) k r c false
                 else (updl s r (fun l => l <| l_expried := true |>), []))
                = (updl s r (fun l => l <| l_expried := true |>), [])).
  { destruct (has_udata_flag c); auto. apply process_data_core; auto. }
  rewrite Hpd in H. cbv iota beta in H.
  repeat (split_hyp H); inv_tuple H.
  all: eexists; (split; [|reflexivity]).
  all: try solve [constructor].
  all: eapply push_unlock_aof_only_aof; eassumption.
Qed.

Lemma ul_body_full s conn c k r l :
  aget (store s) r = Some l -> 0 < l_locked l ->
  (l_locked l = 1 \/ c_rcount c = 0 \/ has (c_tflag c) TF_PRIORITY = true) ->
  ul_body s conn c k r =
    let '(s2, ev) := release_hold (updm s k (fun m => m <| m_locked := sub32 (m_locked m) (l_locked l) |>)) k conn c r (l_locked l) in
    (s2, ev, Some (mkWake k (Some conn))).
Proof.
  intros Hr Hd Hc. unfold ul_body. cbv zeta. rewrite (getl_some _ _ _ Hr).
  destruct (1 <? l_locked l) eqn:E1.
  - apply N.ltb_lt in E1.
    assert (E2 : (0 <? c_rcount c) && negb (has (c_tflag c) TF_PRIORITY) = false).
    { destruct Hc as [Hc|[Hc|Hc]]; [lia|rewrite Hc; reflexivity|rewrite Hc; apply andb_false_r]. }
    rewrite E2. reflexivity.
  - apply N.ltb_ge in E1. assert (E : l_locked l = 1) by lia. rewrite E. reflexivity.
Qed.

Theorem unlock_full_release s conn c m r l s' ev w :
  unlock_step s conn c = (s', ev, w) ->
  aget (mgrs s) (c_key c) = Some m ->
  negb (leader s) && negb (has (c_flag c) UNLOCK_FLAG_FROM_AOF) = false ->
  get_locked_lock s m (c_lockid c) = Some r ->
  aget (store s) r = Some l -> l_ack l = 255 ->
  0 < l_locked l -> (l_locked l = 1 \/ c_rcount c = 0 \/ has (c_tflag c) TF_PRIORITY = true) ->
  l_locked l <= m_locked m -> m_locked m < 4294967296 -> c_data c = None ->
  (forall l', aget (store s') r = Some l' -> l_locked l' = 0)
  /\ (forall r' l', r' <> r -> aget (store s') r' = Some l' ->
        exists l0, aget (store s) r' = Some l0 /\ l_locked l' = l_locked l0 /\ l_key l' = l_key l0
                   /\ l_cmd l' = l_cmd l0 /\ l_ack l' = l_ack l0)
  /\ (forall m', aget (mgrs s') (c_key c) = Some m' -> m_locked m' = m_locked m - l_locked l)
  /\ (forall k' m', k' <> c_key c -> aget (mgrs s') k' = Some m' ->
        exists m0, aget (mgrs s) k' = Some m0 /\ m_locked m' = m_locked m0)
  /\ (exists aev, only_aof aev
        /\ ev = [ERelease (c_key c) r (l_locked l)] ++ aev
                ++ [EReply conn (c_req c) R_SUCCED (u16 (m_locked (getm s' (c_key c)))) 0 (c_lockid c) (c_count c)
                           (c_rcount c) (data_of s (c_key c))])
  /\ w = Some (mkWake (c_key c) (Some conn)).
Proof.
  intros H Hm Hl Hg Hr Hack Hd Hc Hle Hb Hdat. set (k := c_key c) in *.
  rewrite (unlock_step_found s conn c m r Hm Hl) in H; [|lia|exact Hg|rewrite (getl_some _ _ _ Hr); exact Hack].
  fold k in H. rewrite (ul_body_full s conn c k r l Hr Hd Hc) in H.
  rewrite (updm_some _ _ _ _ Hm) in H. rewrite (sub32_sub (m_locked m) (l_locked l)) in H by lia.
  set (m1 := m <| m_locked := m_locked m - l_locked l |>) in *. set (s1 := setm s k m1) in *.
  destruct (release_hold s1 k conn c r (l_locked l)) as [s2 ev2] eqn:E. inv_tuple H.
  assert (D : dk (eq r) s s2).
  { eapply release_hold_dk; [reflexivity|exact E|]. unfold s1. apply dkr_setm, dk_refl. }
  assert (MS : msub None eq_locked s1 s2).
  { eapply msub_release_hold; [apply lecond_eq_locked|exact E|apply msub_refl, lecond_eq_locked]. }
  split; [exact (release_hold_tomb _ _ _ _ _ _ _ _ E)|].
  split; [|split; [|split; [|split]]].
  - intros r' l' Hne Hg'. destruct (D r' l' Hg') as [HX|(l0 & H0 & E1 & E2 & E3 & E4)]; [congruence|].
    exists l0. repeat split; auto.
  - intros m' Hm'. destruct (MS k m') as (m0 & H0 & Hle0); [discriminate|exact Hm'|].
    unfold s1 in H0. rewrite aget_setm_same in H0. inv H0. unfold Lrel, eq_locked in Hle0. rewrite Hle0. reflexivity.
  - intros k' m' Hne Hm'. destruct (MS k' m') as (m0 & H0 & Hle0); [discriminate|exact Hm'|].
    unfold s1 in H0. rewrite aget_setm_other in H0 by auto. exists m0. split; auto.
  - destruct (release_hold_shape _ _ _ _ _ _ _ _ Hdat E) as (aev & A1 & A2). exists aev. split; auto.
    rewrite A2. rewrite reply_eq. do 4 f_equal.
    apply data_of_mdata. unfold s1. rewrite getm_setm_same, (getm_some _ _ _ Hm). reflexivity.
  - reflexivity.
Qed.

(* ------------------------------------------------------------------ (iii) Lock by the holder *)
Definition relock_ok (l : lockrec) (c : cmd) : bool :=
  (l_locked l <? 255) && (l_locked l <=? c_rcount c) && negb (has (c_tflag c) TF_PRIORITY).

Lemma lock_step_found s conn c m r l :
  has (c_flag c) LOCK_FLAG_CONCURRENT_CHECK = false ->
  aget (mgrs s) (c_key c) = Some m ->
  negb (leader s) && negb (has (c_flag c) LOCK_FLAG_FROM_AOF) = false ->
  0 < m_locked m ->
  has (c_flag c) LOCK_FLAG_SHOW = false -> has (c_flag c) LOCK_FLAG_UPDATE = false ->
  get_locked_lock s m (c_lockid c) = Some r -> aget (store s) r = Some l -> l_ack l = 255 ->
  lock_step s conn c =
    match (if relock_ok l c then ls_relock s conn c (c_key c) m r l (data_of s (c_key c))
           else (Some (s, [reply conn c R_LOCKED_ERROR (m_locked m) (l_locked l) (data_of s (c_key c))], None), c, m_waited m)) with
    | (Some res, _, _) => res
    | (None, c', waited) => ls_tail s conn c' (c_key c) waited
    end.
Proof.
  intros Hcc Hm Hl Hpos Hshow Hupd Hg Hr Hack.
  rewrite lock_step_eq. cbv zeta. unfold ls_pre. rewrite Hcc. cbn [andb].
  unfold ls_mgr. rewrite Hm. rewrite (getm_some _ _ _ Hm). rewrite Hl.
  rewrite ls_held_eq. cbv zeta.
  assert (E : (0 <? m_locked m) = true) by (apply N.ltb_lt; auto). rewrite E.
  rewrite Hshow. cbn [andb]. rewrite Hg. rewrite (getl_some _ _ _ Hr). rewrite Hack. cbn [N.eqb Pos.eqb negb].
  rewrite Hupd. unfold relock_ok. reflexivity.
Qed.

Theorem relock_refused s conn c m r l :
  has (c_flag c) LOCK_FLAG_CONCURRENT_CHECK = false ->
  aget (mgrs s) (c_key c) = Some m ->
  negb (leader s) && negb (has (c_flag c) LOCK_FLAG_FROM_AOF) = false ->
  0 < m_locked m ->
  has (c_flag c) LOCK_FLAG_SHOW = false -> has (c_flag c) LOCK_FLAG_UPDATE = false ->
  get_locked_lock s m (c_lockid c) = Some r -> aget (store s) r = Some l -> l_ack l = 255 ->
  (255 <= l_locked l \/ c_rcount c < l_locked l \/ has (c_tflag c) TF_PRIORITY = true) ->
  lock_step s conn c =
    (s, [EReply conn (c_req c) R_LOCKED_ERROR (u16 (m_locked m)) (l_locked l) (c_lockid c) (c_count c) (c_rcount c)
                (data_of s (c_key c))], None).
Proof.
  intros Hcc Hm Hl Hpos Hshow Hupd Hg Hr Hack Hc.
  rewrite (lock_step_found s conn c m r l); auto.
  assert (E : relock_ok l c = false).
  { unfold relock_ok. destruct Hc as [Hc|[Hc|Hc]].
    - assert (E1 : (l_locked l <? 255) = false) by (apply N.ltb_ge; auto). rewrite E1. reflexivity.
    - assert (E1 : (l_locked l <=? c_rcount c) = false) by (apply N.leb_gt; auto). rewrite E1. apply andb_false_iff. left. apply andb_false_r.
    - rewrite Hc. apply andb_false_r. }
  rewrite E. reflexivity.
Qed.

Theorem relock_probe s conn c m r l :
  has (c_flag c) LOCK_FLAG_CONCURRENT_CHECK = false ->
  aget (mgrs s) (c_key c) = Some m ->
  negb (leader s) && negb (has (c_flag c) LOCK_FLAG_FROM_AOF) = false ->
  0 < m_locked m ->
  has (c_flag c) LOCK_FLAG_SHOW = false -> has (c_flag c) LOCK_FLAG_UPDATE = false ->
  get_locked_lock s m (c_lockid c) = Some r -> aget (store s) r = Some l -> l_ack l = 255 ->
  l_locked l < 255 -> l_locked l <= c_rcount c -> has (c_tflag c) TF_PRIORITY = false ->
  c_expried c = 0 ->
  lock_step s conn c =
    (s, [EReply conn (c_req c) R_SUCCED (u16 (m_locked m)) (l_locked l) (c_lockid c) (c_count c) (c_rcount c)
                (data_of s (c_key c))], None).
Proof.
  intros Hcc Hm Hl Hpos Hshow Hupd Hg Hr Hack H1 H2 H3 He.
  rewrite (lock_step_found s conn c m r l); auto.
  assert (E : relock_ok l c = true).
  { unfold relock_ok. rewrite H3. apply andb_true_iff. split; [|reflexivity]. apply andb_true_iff.
    split; [apply N.ltb_lt|apply N.leb_le]; auto. }
  rewrite E. unfold ls_relock. rewrite He. reflexivity.
Qed.

Lemma ls_relock_new_level s conn c k m r l ld :
  aget (store s) r = Some l -> aget (mgrs s) k = Some m ->
  l_locked l < 255 -> m_locked m + 1 < 4294967296 -> c_expried c <> 0 -> c_data c = None ->
  exists s' aev l3,
    ls_relock s conn c k m r l ld
    = (Some (s', [EGrant k r false (m_locked m) (cur_count s k) (c_count c)] ++ aev
                 ++ [reply conn c R_SUCCED (m_locked m + 1) (l_locked l + 1) ld], Some (mkWake k (Some conn))),
       c, m_waited m)
    /\ Forall quiet aev
    /\ l_locked l3 = l_locked l + 1 /\ l_key l3 = l_key l /\ l_cmd l3 = c /\ l_ack l3 = l_ack l
    /\ exists sB, aget (store sB) r = Some l3 /\ (forall r', r' <> r -> aget (store sB) r' = aget (store s) r')
         /\ aget (mgrs sB) k = Some (m <| m_locked := m_locked m + 1 |>)
         /\ (forall k', k' <> k -> aget (mgrs sB) k' = aget (mgrs s) k')
         /\ qs r k sB s'.
Proof.
  intros Hr Hm Hd Hb He Hdat. unfold ls_relock.
  destruct (c_expried c =? 0) eqn:E0; [apply N.eqb_eq in E0; congruence|]. cbv zeta.
  rewrite (updm_some _ _ _ _ Hm). rewrite (add32_succ (m_locked m)) by auto.
  set (m1 := m <| m_locked := m_locked m + 1 |>). set (s1 := setm s k m1).
  assert (Hr1 : aget (store s1) r = Some l) by exact Hr.
  rewrite (updl_some _ _ _ _ Hr1). rewrite (add8_succ (l_locked l)) by lia.
  set (l2 := l <| l_locked := l_locked l + 1 |>). set (s2 := setl s1 r l2).
  assert (Hpd : (if has_data_flag c then process_data s2 k r c false else (s2, [])) = (s2, [])).
  { destruct (has_data_flag c); auto. apply process_data_core; auto. }
  rewrite Hpd. cbv iota beta.
  assert (Hr2 : aget (store s2) r = Some l2) by (unfold s2; apply aget_setl_same).
  pose proof (ull_rec_fields s2 k r c l2) as F. cbv zeta in F. destruct F as (F1 & F2 & F3 & F4 & F5 & F6 & F7).
  set (l3 := ull_rec s2 k r c l2) in *.
  assert (EU : update_locked_lock s2 k r c = setl s2 r l3).
  { rewrite update_locked_lock_eq. rewrite (getl_some _ _ _ Hr2). reflexivity. }
  destruct (update_and_rearm s2 k r c) as [s3 aev] eqn:EA.
  pose proof (update_and_rearm_qs r k s2 c s3 aev EA) as Q3. rewrite EU in Q3.
  set (sB := setl s2 r l3) in *.
  assert (Hr3 : aget (store sB) r = Some l3) by apply aget_setl_same.
  assert (Hm3 : aget (mgrs sB) k = Some m1) by (unfold sB, s2, s1; apply aget_setm_same).
  assert (HB : aget (store sB) r = Some l3 /\ (forall r', r' <> r -> aget (store sB) r' = aget (store s) r')
         /\ aget (mgrs sB) k = Some m1 /\ (forall k', k' <> k -> aget (mgrs sB) k' = aget (mgrs s) k')).
  { split; [exact Hr3|]. split; [|split; [exact Hm3|]].
    - intros r' Hne. unfold sB, s2. rewrite !aget_setl_other by auto. reflexivity.
    - intros k' Hne. unfold sB, s2, s1. change (mgrs (setl (setl (setm s k m1) r l2) r l3)) with (mgrs (setm s k m1)).
      apply aget_setm_other; auto. }
  assert (Hfin : forall s5, qs r k sB s5 ->
            m_locked (getm (bump (fun n => n <| n_lock := (n_lock n + 1)%Z |> <| n_locked := (n_locked n + 1)%Z |>) s5) k) = m_locked m + 1
            /\ l_locked (getl (bump (fun n => n <| n_lock := (n_lock n + 1)%Z |> <| n_locked := (n_locked n + 1)%Z |>) s5) r) = l_locked l + 1).
  { intros s5 Q. change (getm (bump _ s5) k) with (getm s5 k). change (getl (bump _ s5) r) with (getl s5 r).
    destruct (qs_getm _ _ _ _ _ Q Hm3) as (A & _). destruct (qs_getl _ _ _ _ _ Q Hr3) as (B & _).
    rewrite A, B, F3. split; reflexivity. }
  assert (Q4 : qs r k sB (updl s3 r (fun l0 => l0 <| l_conn := conn |>))) by (apply qsr_updl; [deq_side|exact Q3]).
  set (s4 := updl s3 r (fun l0 => l0 <| l_conn := conn |>)) in *.
  destruct (l_isaof (getl s4 r)).
  - destruct (push_lock_aof s4 k r AOF_FLAG_UPDATED) as [s5 e5] eqn:E5.
    assert (Q5 : qs r k sB s5) by (eapply push_lock_aof_qs; [exact E5|exact Q4]).
    destruct (Hfin s5 Q5) as (G1 & G2). rewrite G1, G2.
    eexists. exists (aev ++ e5). exists l3. split; [rewrite <- app_assoc; reflexivity|].
    split; [apply Forall_app; split; [eapply update_and_rearm_quiet; eauto|apply only_aof_quiet; eapply push_lock_aof_only_aof; eauto]|].
    do 4 (split; [assumption|]). exists sB. destruct HB as (B1 & B2 & B3 & B4). do 4 (split; [assumption|]). apply qsr_bump. exact Q5.
  - destruct (Hfin s4 Q4) as (G1 & G2). rewrite G1, G2.
    eexists. exists aev. exists l3. split; [rewrite app_nil_l; reflexivity|].
    split; [eapply update_and_rearm_quiet; eauto|].
    do 4 (split; [assumption|]). exists sB. destruct HB as (B1 & B2 & B3 & B4). do 4 (split; [assumption|]). apply qsr_bump. exact Q4.
Qed.

Theorem relock_new_level s conn c m r l s' ev w :
  lock_step s conn c = (s', ev, w) ->
  has (c_flag c) LOCK_FLAG_CONCURRENT_CHECK = false ->
  aget (mgrs s) (c_key c) = Some m ->
  negb (leader s) && negb (has (c_flag c) LOCK_FLAG_FROM_AOF) = false ->
  0 < m_locked m ->
  has (c_flag c) LOCK_FLAG_SHOW = false -> has (c_flag c) LOCK_FLAG_UPDATE = false ->
  get_locked_lock s m (c_lockid c) = Some r -> aget (store s) r = Some l -> l_ack l = 255 ->
  l_locked l < 255 -> l_locked l <= c_rcount c -> has (c_tflag c) TF_PRIORITY = false ->
  c_expried c <> 0 -> c_data c = None -> m_locked m + 1 < 4294967296 ->
  (exists l', aget (store s') r = Some l' /\ l_locked l' = l_locked l + 1 /\ l_key l' = l_key l
              /\ l_cmd l' = c /\ l_ack l' = 255)
  /\ (forall r', r' <> r -> aget (store s') r' = aget (store s) r')
  /\ (exists m', aget (mgrs s') (c_key c) = Some m' /\ m_locked m' = m_locked m + 1
                 /\ m_cur m' = m_cur m /\ m_locks m' = m_locks m /\ m_wait m' = m_wait m /\ m_waited m' = m_waited m)
  /\ (forall k', k' <> c_key c -> aget (mgrs s') k' = aget (mgrs s) k')
  /\ (exists aev, Forall quiet aev
        /\ ev = [EGrant (c_key c) r false (m_locked m) (cur_count s (c_key c)) (c_count c)] ++ aev
                ++ [EReply conn (c_req c) R_SUCCED (u16 (m_locked m + 1)) (l_locked l + 1) (c_lockid c) (c_count c)
                           (c_rcount c) (data_of s (c_key c))])
  /\ w = Some (mkWake (c_key c) (Some conn)).
Proof.
  intros H Hcc Hm Hl Hpos Hshow Hupd Hg Hr Hack H1 H2 H3 He Hdat Hb. set (k := c_key c) in *.
  rewrite (lock_step_found s conn c m r l) in H; auto.
  assert (E : relock_ok l c = true).
  { unfold relock_ok. rewrite H3. apply andb_true_iff. split; [|reflexivity]. apply andb_true_iff.
    split; [apply N.ltb_lt|apply N.leb_le]; auto. }
  rewrite E in H. fold k in H.
  destruct (ls_relock_new_level s conn c k m r l (data_of s k) Hr Hm H1 Hb He Hdat)
    as (s1 & aev & l3 & EQ & Haev & F1 & F2 & F3 & F4 & sB & Hr3 & Ho3 & Hm3 & Hk3 & Q).
  rewrite EQ in H. inv_tuple H.
  destruct (qs_rec _ _ _ _ _ Q Hr3) as (l' & Hr' & D1 & D2 & D3 & D4).
  destruct (qs_mgr _ _ _ _ _ Q Hm3) as (m' & Hm' & M1 & M2 & M3 & M4 & M5 & M6).
  cbn in M1, M2, M3, M4, M5, M6.
  split; [|split; [|split; [|split; [|split]]]].
  - exists l'. repeat split; auto; congruence.
  - intros r' Hne. rewrite (qs_o _ _ _ _ Q r' Hne). apply Ho3; auto.
  - exists m'. repeat split; auto.
  - intros k' Hne. rewrite (qs_ok _ _ _ _ Q k' Hne). apply Hk3; auto.
  - exists aev. split; auto.
  - reflexivity.
Qed.

(* a new level is taken exactly when the four conditions hold *)
Theorem relock_new_level_iff s conn c m r l s' ev w :
  lock_step s conn c = (s', ev, w) ->
  has (c_flag c) LOCK_FLAG_CONCURRENT_CHECK = false ->
  aget (mgrs s) (c_key c) = Some m ->
  negb (leader s) && negb (has (c_flag c) LOCK_FLAG_FROM_AOF) = false ->
  0 < m_locked m ->
  has (c_flag c) LOCK_FLAG_SHOW = false -> has (c_flag c) LOCK_FLAG_UPDATE = false ->
  get_locked_lock s m (c_lockid c) = Some r -> aget (store s) r = Some l -> l_ack l = 255 ->
  c_data c = None -> m_locked m + 1 < 4294967296 ->
  ((exists l', aget (store s') r = Some l' /\ l_locked l' = l_locked l + 1)
   <-> (l_locked l < 255 /\ l_locked l <= c_rcount c /\ has (c_tflag c) TF_PRIORITY = false /\ c_expried c <> 0)).
Proof.
  intros H Hcc Hm Hl Hpos Hshow Hupd Hg Hr Hack Hdat Hb. split.
  - intros (l' & Hr' & Hd').
    assert (Hsame : s' = s -> False).
    { intros ->. rewrite Hr in Hr'. inv Hr'. lia. }
    destruct (N.lt_ge_cases (l_locked l) 255) as [A1|A1].
    2:{ exfalso. apply Hsame. rewrite (relock_refused s conn c m r l) in H; auto. inv_tuple H. reflexivity. }
    destruct (N.le_gt_cases (l_locked l) (c_rcount c)) as [A2|A2].
    2:{ exfalso. apply Hsame. rewrite (relock_refused s conn c m r l) in H; auto. inv_tuple H. reflexivity. }
    destruct (has (c_tflag c) TF_PRIORITY) eqn:A3.
    { exfalso. apply Hsame. rewrite (relock_refused s conn c m r l) in H; auto. inv_tuple H. reflexivity. }
    destruct (N.eq_dec (c_expried c) 0) as [A4|A4].
    { exfalso. apply Hsame. rewrite (relock_probe s conn c m r l) in H; auto. inv_tuple H. reflexivity. }
    auto.
  - intros (A1 & A2 & A3 & A4).
    destruct (relock_new_level s conn c m r l s' ev w H) as ((l' & B1 & B2 & _) & _); auto.
    eauto.
Qed.
