(* Local facts, part 5 (property C04): the wake-up pass.
   - wake_iter returns WDone only if there is no manager, or it is not `waited`, or the wait queue is empty after the
     dead heads were discarded (then `waited` is cleared), or the first live waiter is not admissible;
   - every WMore iteration tombstones the waiter it served, which the next GetWaitLock pops: the number of queue
     entries strictly decreases, so run_wake never exhausts the fuel `finish` gives it.  Every state. *)
From Coq Require Import String ZifyN ZifyBool ZifyNat.
From Slock Require Import Engine.Types Engine.Queues Engine.Timers Engine.Engine Engine.Engine2 Engine.LocalBase
  Engine.LocalFrames Engine.LocalC01 Engine.LocalC04.
Open Scope N_scope.

(* ------------------------------------------------------------------ dead waiters stay dead *)
Definition deadp (s : db) (r : ref) : Prop := dead_waiter (getl s r) = true.
Definition dm (s s' : db) : Prop := forall r, deadp s r -> deadp s' r.

Create HintDb dmdb.

Lemma dm_refl s : dm s s. Proof. intros r H. exact H. Qed.
Lemma dm_store_eq s x x' : store x' = store x -> dm s x -> dm s x'.
Proof. intros E H r Hr. unfold deadp. rewrite (getl_store _ _ r E). apply H. exact Hr. Qed.
Lemma dm_updm s x k f : dm s x -> dm s (updm x k f).
Proof. apply dm_store_eq, store_updm. Qed.
Lemma dm_updc s x f : dm s x -> dm s (updc x f).
Proof. apply dm_store_eq. reflexivity. Qed.
Lemma dm_bump s x f : dm s x -> dm s (bump f x).
Proof. apply dm_store_eq. reflexivity. Qed.

Lemma dead_dummy : dead_waiter dummy_lock = true. Proof. reflexivity. Qed.

Lemma dm_updl s x r f :
  (forall l, dead_waiter l = true -> dead_waiter (f l) = true) -> dm s x -> dm s (updl x r f).
Proof.
  intros Hf H r0 Hr. apply H in Hr. unfold deadp in *. rewrite getl_updl.
  destruct (r =? r0) eqn:E; auto. apply N.eqb_eq in E. subst r0.
  unfold getl in Hr. destruct (aget (store x) r); auto.
Qed.

Lemma dm_setl s x r l : (deadp x r -> dead_waiter l = true) -> dm s x -> dm s (setl x r l).
Proof.
  intros Hl H r0 Hr. apply H in Hr. unfold deadp in *. unfold getl.
  change (store (setl x r l)) with (aset (store x) r l). rewrite aget_aset.
  destruct (r =? r0) eqn:E; auto. apply N.eqb_eq in E. subst r0. auto.
Qed.

Lemma dm_free_lock s x r : dm s x -> dm s (free_lock x r).
Proof.
  intros H r0 Hr. apply H in Hr. unfold deadp in *. unfold free_lock.
  destruct (aget (store x) r) as [l|] eqn:E; auto.
  rewrite getl_updm. unfold getl. cbn [store set]. rewrite aget_adel.
  destruct (r =? r0); auto.
Qed.

#[export] Hint Resolve dm_refl dm_updm dm_updc dm_bump dm_free_lock : dmdb.
#[export] Hint Extern 1 (dm _ (set _ _ ?x)) => (eapply (dm_store_eq _ x); [reflexivity|]) : dmdb.
#[export] Hint Extern 1 (dm _ (if ?c then _ else _)) => destruct c : dmdb.
#[export] Hint Extern 1 (dm _ (match ?c with _ => _ end)) => destruct c : dmdb.
(* updl with a function that does not touch timeouted / ackCount *)
#[export] Hint Extern 2 (dm _ (updl _ _ _)) =>
  (apply dm_updl; [let l := fresh in let H := fresh in intros l H; exact H|]) : dmdb.

Ltac dms := eauto 60 with dmdb.

Lemma dm_unref s x r : dm s x -> dm s (unref x r).
Proof.
  intros H. unfold unref. destruct (aget (store x) r) as [l|] eqn:E; auto. cbv zeta.
  assert (H1 : dm s (setl x r (l <| l_refc := dec8 (l_refc l) |>))).
  { apply dm_setl; auto. unfold deadp, getl. rewrite E. intros Hd. exact Hd. }
  destruct (dec8 (l_refc l) =? 0); dms.
Qed.
#[export] Hint Resolve dm_unref : dmdb.

Lemma dm_hq_compact items : forall s x x' kept, hq_compact x items = (x', kept) -> dm s x -> dm s x'.
Proof.
  induction items as [|r rest IH]; intros s x x' kept H Hs; simpl in H.
  - inv_tuple H. auto.
  - destruct (0 <? l_locked (getl x r)).
    + destruct (hq_compact x rest) as [x1 k1] eqn:E. inv_tuple H. eauto.
    + eapply IH; [exact H|]. dms.
Qed.

Lemma dm_hq_push s x q r x' q' : hq_push x q r = (x', q') -> dm s x -> dm s x'.
Proof.
  intros H Hs. unfold hq_push in H. repeat (split_hyp H); inv_tuple H; auto.
  all: eapply dm_hq_compact; eauto.
Qed.

Lemma dm_push_lock_aof s x k r fl x' ev : push_lock_aof x k r fl = (x', ev) -> dm s x -> dm s x'.
Proof. intros H Hs. unfold push_lock_aof in H. repeat (split_hyp H); inv_tuple H; dms. Qed.

Lemma dm_repeat_push_lock_aof n : forall s x k r x' ev, repeat_push_lock_aof n x k r = (x', ev) -> dm s x -> dm s x'.
Proof.
  induction n as [|n IH]; intros s x k r x' ev H Hs; simpl in H.
  - inv_tuple H. auto.
  - destruct (push_lock_aof x k r 0) as [x1 e1] eqn:E1.
    destruct (repeat_push_lock_aof n x1 k r) as [x2 e2] eqn:E2. inv_tuple H.
    eapply IH; [exact E2|]. eapply dm_push_lock_aof; eauto.
Qed.

Lemma dm_add_expried s x k r x' ev : add_expried x k r = (x', ev) -> dm s x -> dm s x'.
Proof.
  intros H Hs. unfold add_expried in H. cbv zeta in H.
  match type of H with (if ?c then _ else _) = _ => destruct c end.
  - eapply dm_repeat_push_lock_aof; [exact H|]. dms.
  - inv_tuple H. dms.
Qed.

Lemma dm_remove_long_timeout s x r : dm s x -> dm s (remove_long_timeout x r).
Proof. intros Hs. unfold remove_long_timeout. cbv zeta. dms. Qed.
#[export] Hint Resolve dm_remove_long_timeout : dmdb.

Lemma dm_process_data s x k r c b x' ev : process_data x k r c b = (x', ev) -> dm s x -> dm s x'.
Proof. intros H Hs. unfold process_data in H. repeat (split_hyp H); inv_tuple H; dms. Qed.

(* AddLock: the record keeps `timeouted`; ackCount either stays or becomes 0 (pending) *)
Definition add_lock_rec (s : db) (k : N) (r : ref) : lockrec :=
  let l := getl s r in
  let c := l_cmd l in
  let l := if has (c_tflag c) TF_UNRENEW then l
           else let eT := expiry_deadline c (now s) in
                l <| l_start := now s |> <| l_eT := eT |> <| l_ecc := initial_ecc c eT (now s) |> in
  let m := getm s k in
  let aoft := match m_cur m with None => aoftime_of s c | Some cr => l_aoftime (getl s cr) end in
  let l := l <| l_aoftime := aoft |> <| l_locked := 1 |> <| l_refc := add8 (l_refc l) 1 |> in
  if has (c_flag c) LOCK_FLAG_FROM_AOF then l <| l_isaof := true |>
  else if has (c_tflag c) TF_REQUIRE_ACKED then l <| l_ack := 0 |> else l.

Lemma add_lock_rec_dead s k r : deadp s r -> dead_waiter (add_lock_rec s k r) = true.
Proof.
  unfold deadp, add_lock_rec. cbv zeta. intros H.
  destruct (has (c_flag (l_cmd (getl s r))) LOCK_FLAG_FROM_AOF);
  destruct (has (c_tflag (l_cmd (getl s r))) TF_REQUIRE_ACKED);
  destruct (has (c_tflag (l_cmd (getl s r))) TF_UNRENEW); unfold dead_waiter in *; cbn in *;
  try exact H; apply orb_true_r.
Qed.

Lemma add_lock_rec_ack s k r :
  has (c_flag (l_cmd (getl s r))) LOCK_FLAG_FROM_AOF = false ->
  has (c_tflag (l_cmd (getl s r))) TF_REQUIRE_ACKED = true ->
  dead_waiter (add_lock_rec s k r) = true.
Proof.
  unfold add_lock_rec. cbv zeta. intros H1 H2. rewrite H1, H2.
  destruct (has (c_tflag (l_cmd (getl s r))) TF_UNRENEW); unfold dead_waiter; cbn; apply orb_true_r.
Qed.

Lemma add_lock_unfold s k r :
  add_lock s k r =
  let s1 := setl s r (add_lock_rec s k r) in
  match m_cur (getm s k) with
  | None => updm s1 k (fun m => m <| m_cur := Some r |>)
  | Some _ =>
      let q := match m_locks (getm s k) with Some q => q | None => hq_empty end in
      let '(s', q') := hq_push s1 q r in
      updm s' k (fun m => m <| m_locks := Some q' |>)
  end.
Proof. reflexivity. Qed.

Lemma dm_add_lock s x k r : dm s x -> dm s (add_lock x k r).
Proof.
  intros Hs. rewrite add_lock_unfold. cbv zeta.
  assert (H1 : dm s (setl x r (add_lock_rec x k r))).
  { apply dm_setl; auto. apply add_lock_rec_dead. }
  destruct (m_cur (getm x k)); [|dms].
  destruct (hq_push _ _ r) as [x1 q1] eqn:E. apply dm_updm. eapply dm_hq_push; eauto.
Qed.
#[export] Hint Resolve dm_add_lock : dmdb.

(* after AddLock of a require-ack request the record is dead as a waiter (ack pending) *)
Lemma add_lock_makes_dead x k r :
  has (c_flag (l_cmd (getl x r))) LOCK_FLAG_FROM_AOF = false ->
  has (c_tflag (l_cmd (getl x r))) TF_REQUIRE_ACKED = true ->
  deadp (add_lock x k r) r.
Proof.
  intros H1 H2. rewrite add_lock_unfold. cbv zeta.
  assert (H0 : deadp (setl x r (add_lock_rec x k r)) r).
  { unfold deadp, getl. change (store (setl x r (add_lock_rec x k r))) with (aset (store x) r (add_lock_rec x k r)).
    rewrite aget_aset_same. apply add_lock_rec_ack; auto. }
  destruct (m_cur (getm x k)).
  - destruct (hq_push _ _ r) as [x1 q1] eqn:E.
    assert (Hd : dm (setl x r (add_lock_rec x k r)) (updm x1 k (fun m => m <| m_locks := Some q1 |>))).
    { apply dm_updm. eapply dm_hq_push; [exact E|]. apply dm_refl. }
    apply Hd. exact H0.
  - assert (Hd : dm (setl x r (add_lock_rec x k r)) (updm (setl x r (add_lock_rec x k r)) k (fun m => m <| m_cur := Some r |>))) by dms.
    apply Hd. exact H0.
Qed.

Ltac dm_eq :=
  match goal with
  | E : hq_push _ _ _ = (?y, _) |- dm _ ?y => eapply dm_hq_push; [exact E|]
  | E : push_lock_aof _ _ _ _ = (?y, _) |- dm _ ?y => eapply dm_push_lock_aof; [exact E|]
  | E : add_expried _ _ _ = (?y, _) |- dm _ ?y => eapply dm_add_expried; [exact E|]
  | E : process_data _ _ _ _ _ = (?y, _) |- dm _ ?y => eapply dm_process_data; [exact E|]
  end.
#[export] Hint Extern 1 (dm _ ?y) => is_var y; dm_eq : dmdb.

(* ------------------------------------------------------------------ GetWaitLock *)
Lemma wq_head_none q : wq_head q = None -> wq_items q = [].
Proof. unfold wq_head, wq_items. destruct (wq_fast q); [destruct (wq_ring q)|]; try discriminate; reflexivity. Qed.

Lemma wq_pop_len q r : wq_head q = Some r -> S (length (wq_items (wq_pop q))) = length (wq_items q).
Proof.
  unfold wq_head, wq_pop, wq_items. destruct (wq_fast q) as [|a rest] eqn:Ef.
  - destruct (wq_ring q) as [|b rest] eqn:Er; [discriminate|]. intros _. cbn. rewrite Ef. reflexivity.
  - intros _. cbn. reflexivity.
Qed.

Lemma get_wait_loop_spec fuel : forall s q s' q' res,
  get_wait_loop fuel s q = (s', q', res) ->
  (length (wq_items q') <= length (wq_items q))%nat
  /\ dm s s'
  /\ (forall r, res = Some r -> wq_head q' = Some r /\ dead_waiter (getl s' r) = false)
  /\ (res = None -> (length (wq_items q) < fuel)%nat -> wq_items q' = [])
  /\ (forall r0, wq_head q = Some r0 -> deadp s r0 -> (0 < fuel)%nat ->
                 (length (wq_items q') < length (wq_items q))%nat).
Proof.
  induction fuel as [|f IH]; intros s q s' q' res H; simpl in H.
  - inv_tuple H. repeat split; auto using dm_refl; try discriminate; lia.
  - destruct (wq_head q) as [r|] eqn:Eh.
    + destruct (dead_waiter (getl s r)) eqn:Ed.
      * apply IH in H. destruct H as (H1 & H2 & H3 & H4 & H5).
        pose proof (wq_pop_len q r Eh) as Hl.
        split; [lia|]. split; [intros r1 Hr1; apply H2; apply dm_unref with (s := s); auto using dm_refl|].
        split; [exact H3|]. split; [intros Hn Hf; apply H4; auto; lia|].
        intros r0 _ _ _. lia.
      * inv_tuple H. split; [lia|]. split; [apply dm_refl|].
        split; [intros r1 Hr1; inv Hr1; auto|]. split; [discriminate|].
        intros r0 Hr0 Hd _. inv Hr0. unfold deadp in Hd. congruence.
    + inv_tuple H. split; [lia|]. split; [apply dm_refl|]. split; [discriminate|].
      split; [intros _ _; apply wq_head_none; auto|]. discriminate.
Qed.

(* number of entries in the key's wait queue *)
Definition wlen (s : db) (k : N) : nat :=
  match aget (mgrs s) k with
  | Some m => match m_wait m with Some q => length (wq_items q) | None => O end
  | None => O
  end.

Lemma wake_fuel_wlen s k : wake_fuel s k = S (S (wlen s k)).
Proof. unfold wake_fuel, wlen, getm. destruct (aget (mgrs s) k); reflexivity. Qed.

(* if the key has a manager, its wait queue starts with a dead entry *)
Definition hd_dead (s : db) (k : N) : Prop :=
  forall m, aget (mgrs s) k = Some m -> exists q r, m_wait m = Some q /\ wq_head q = Some r /\ deadp s r.

Lemma get_wait_lock_spec s k m s1 res :
  aget (mgrs s) k = Some m -> get_wait_lock s k = (s1, res) ->
  (wlen s1 k <= wlen s k)%nat
  /\ dm s s1
  /\ (forall r, res = Some r ->
        dead_waiter (getl s1 r) = false
        /\ forall m1, aget (mgrs s1) k = Some m1 -> exists q1, m_wait m1 = Some q1 /\ wq_head q1 = Some r)
  /\ (res = None -> forall m1, aget (mgrs s1) k = Some m1 ->
                    m_wait m1 = None \/ exists q1, m_wait m1 = Some q1 /\ wq_items q1 = [])
  /\ (hd_dead s k -> (wlen s1 k < wlen s k)%nat).
Proof.
  intros Hm H. unfold get_wait_lock in H. unfold getm in H. rewrite Hm in H.
  destruct (m_wait m) as [q|] eqn:Ew.
  - destruct (get_wait_loop (S (length (wq_items q))) s q) as [[s' q'] r'] eqn:E. inv_tuple H.
    apply get_wait_loop_spec in E. destruct E as (H1 & H2 & H3 & H4 & H5).
    assert (Hw : forall m1, aget (mgrs (updm s' k (fun m0 => m0 <| m_wait := Some q' |>))) k = Some m1 -> m_wait m1 = Some q').
    { intros m1 Hm1. rewrite aget_mgrs_updm, N.eqb_refl in Hm1.
      destruct (aget (mgrs s') k); [|discriminate]. simpl in Hm1. inv Hm1. reflexivity. }
    assert (Hlen : wlen (updm s' k (fun m0 => m0 <| m_wait := Some q' |>)) k = length (wq_items q')
                   \/ wlen (updm s' k (fun m0 => m0 <| m_wait := Some q' |>)) k = O).
    { unfold wlen. destruct (aget (mgrs (updm s' k _)) k) as [m1|]; auto. rewrite (Hw m1 eq_refl). auto. }
    assert (Hl0 : wlen s k = length (wq_items q)) by (unfold wlen; rewrite Hm, Ew; reflexivity).
    split; [destruct Hlen; lia|]. split; [apply dm_updm; exact H2|].
    split.
    { intros r Hr. destruct (H3 r Hr) as (Hh & Hd). split.
      - rewrite getl_updm. exact Hd.
      - intros m1 Hm1. exists q'. split; [apply Hw; auto|exact Hh]. }
    split.
    { intros Hn m1 Hm1. right. exists q'. split; [apply Hw; auto|]. apply H4; auto. }
    intros Hhd. destruct (Hhd m Hm) as (q0 & r0 & Hq0 & Hr0 & Hd0). rewrite Ew in Hq0. inv Hq0.
    specialize (H5 r0 Hr0 Hd0). destruct Hlen; lia.
  - inv_tuple H. split; [lia|]. split; [apply dm_refl|]. split; [discriminate|].
    split; [intros _ m1 Hm1; rewrite Hm in Hm1; inv Hm1; auto|].
    intros Hhd. destruct (Hhd m Hm) as (q0 & r0 & Hq0 & _). congruence.
Qed.

(* ------------------------------------------------------------------ wakeUpWaitLock: the served waiter is tombstoned,
   the wait queue is not touched, no manager appears *)
Lemma wake_grant_spec s k r via s' ev :
  wake_grant s k r via = (s', ev) -> dead_waiter (getl s r) = false ->
  msub None eq_wait s s' /\ deadp s' r.
Proof.
  intros H Hlive.
  assert (Hin : exists l, aget (store s) r = Some l).
  { unfold getl in Hlive. destruct (aget (store s) r); eauto. discriminate. }
  destruct Hin as (l0 & Hl0).
  unfold wake_grant in H. cbv zeta in H.
  match type of H with (if ?c then _ else _) = _ => destruct c eqn:Ec end.
  - (* ack grant *)
    apply andb_prop in Ec. destruct Ec as [Ec Hf]. apply andb_prop in Ec. destruct Ec as [Ec _].
    apply andb_prop in Ec. destruct Ec as [Hr _]. apply negb_true_iff in Hf.
    pose proof (add_lock_makes_dead s k r Hf Hr) as Hd.
    repeat (split_hyp H); inv_tuple H.
    all: split; [ms|].
    all: match goal with |- deadp ?x ?r0 => assert (Hdm : dm (add_lock s k r0) x) by dms; exact (Hdm r0 Hd) end.
  - set (s0 := updl s r (fun l => l <| l_timeouted := true |>)) in *.
    assert (Hd : deadp s0 r).
    { unfold deadp, s0. rewrite getl_updl, N.eqb_refl, Hl0. reflexivity. }
    repeat (split_hyp H); inv_tuple H.
    all: split; [unfold s0; ms|].
    all: match goal with |- deadp ?x ?r0 => assert (Hdm : dm s0 x) by dms; exact (Hdm r0 Hd) end.
Qed.

(* ------------------------------------------------------------------ one iteration *)
Lemma wlen_msub_eq_wait s s' k : msub None eq_wait s s' -> (wlen s' k <= wlen s k)%nat.
Proof.
  intros H. unfold wlen at 1. destruct (aget (mgrs s') k) as [m'|] eqn:E; [|lia].
  destruct (H k m') as (m & Hm & Hle); [discriminate|exact E|].
  unfold wlen. rewrite Hm. unfold Lrel, eq_wait in Hle. rewrite Hle. lia.
Qed.

Lemma wake_iter_more s w s' ev :
  wake_iter s w = (s', ev, WMore) ->
  (wlen s' (w_key w) <= wlen s (w_key w))%nat
  /\ hd_dead s' (w_key w)
  /\ (hd_dead s (w_key w) -> (wlen s' (w_key w) < wlen s (w_key w))%nat).
Proof.
  unfold wake_iter. intros H.
  destruct (aget (mgrs s) (w_key w)) as [m|] eqn:Hm; [|inv_tuple H; discriminate].
  destruct (negb (m_waited m)); [inv_tuple H; discriminate|].
  destruct (get_wait_lock s (w_key w)) as [s1 wl] eqn:E1.
  destruct wl as [r|]; [|inv_tuple H; discriminate].
  destruct (negb (do_lock s1 (w_key w) r)); [inv_tuple H; discriminate|].
  destruct (wake_grant s1 (w_key w) r (w_conn w)) as [s2 ev2] eqn:E2.
  apply tuple3_inv in H. destruct H as (<- & _ & _).
  destruct (get_wait_lock_spec s (w_key w) m s1 (Some r) Hm E1) as (G1 & G2 & G3 & _ & G5).
  destruct (G3 r eq_refl) as (Hlive & Hq).
  destruct (wake_grant_spec _ _ _ _ _ _ E2 Hlive) as (Hms & Hd).
  pose proof (wlen_msub_eq_wait s1 s2 (w_key w) Hms) as Hle.
  split; [lia|]. split.
  - intros m2 Hm2. destruct (Hms (w_key w) m2) as (m1 & Hm1 & Hw); [discriminate|exact Hm2|].
    destruct (Hq m1 Hm1) as (q1 & Hq1 & Hh1). exists q1, r. unfold Lrel, eq_wait in Hw.
    split; [congruence|]. split; auto.
  - intros Hhd. specialize (G5 Hhd). lia.
Qed.

(* ------------------------------------------------------------------ the pass terminates within its fuel *)
Fixpoint wake_done_within (fuel : nat) (s : db) (w : wake) : bool :=
  match fuel with
  | O => false
  | S f => match wake_iter s w with
           | (_, _, WDone) => true
           | (s', _, WMore) => wake_done_within f s' w
           end
  end.

Lemma wake_done_within_hd n : forall s w,
  hd_dead s (w_key w) -> (wlen s (w_key w) <= n)%nat -> wake_done_within (S n) s w = true.
Proof.
  induction n as [|n IH]; intros s w Hhd Hn; simpl.
  - destruct (wake_iter s w) as [[s' ev] res] eqn:E. destruct res; auto.
    apply wake_iter_more in E. destruct E as (_ & _ & H3). specialize (H3 Hhd). lia.
  - destruct (wake_iter s w) as [[s' ev] res] eqn:E. destruct res; auto.
    apply wake_iter_more in E. destruct E as (_ & H2 & H3). specialize (H3 Hhd).
    apply IH; auto. lia.
Qed.

Lemma wake_done_within_fuel s w : wake_done_within (wake_fuel s (w_key w)) s w = true.
Proof.
  rewrite wake_fuel_wlen. cbn [wake_done_within].
  destruct (wake_iter s w) as [[s' ev] res] eqn:E. destruct res; auto.
  apply wake_iter_more in E. destruct E as (H1 & H2 & _).
  apply wake_done_within_hd; auto.
Qed.

(* what "done within the fuel" means for run_wake: the result does not depend on the fuel any more, and the events
   are exactly those of the iterations (no out-of-fuel panic is appended) *)
Lemma run_wake_fuel_indep n : forall s w m,
  wake_done_within n s w = true -> (n <= m)%nat -> run_wake m s w = run_wake n s w.
Proof.
  induction n as [|n IH]; intros s w m H Hm; simpl in H; [discriminate|].
  destruct m as [|m]; [lia|]. simpl.
  destruct (wake_iter s w) as [[s' ev] res] eqn:E. destruct res; auto.
  rewrite (IH s' w m H) by lia. reflexivity.
Qed.

Inductive wake_trace : db -> wake -> db -> list event -> Prop :=
| wt_done s w s' ev : wake_iter s w = (s', ev, WDone) -> wake_trace s w s' ev
| wt_more s w s1 ev1 s' ev' : wake_iter s w = (s1, ev1, WMore) -> wake_trace s1 w s' ev' -> wake_trace s w s' (ev1 ++ ev').

Lemma run_wake_trace n : forall s w, wake_done_within n s w = true ->
  wake_trace s w (fst (run_wake n s w)) (snd (run_wake n s w)).
Proof.
  induction n as [|n IH]; intros s w H; simpl in H; [discriminate|]. simpl.
  destruct (wake_iter s w) as [[s' ev] res] eqn:E. destruct res.
  - apply wt_done. exact E.
  - specialize (IH s' w H). destruct (run_wake n s' w) as [s2 e2]. simpl in *.
    eapply wt_more; eauto.
Qed.

Lemma finish_wake_trace s ev w :
  wake_trace s w (fst (finish (s, ev, Some w))) (skipn (length ev) (snd (finish (s, ev, Some w))))
  /\ firstn (length ev) (snd (finish (s, ev, Some w))) = ev.
Proof.
  unfold finish.
  pose proof (run_wake_trace _ s w (wake_done_within_fuel s w)) as H.
  destruct (run_wake (wake_fuel s (w_key w)) s w) as [s' ev']. simpl in *.
  rewrite skipn_app, Nat.sub_diag, skipn_all. simpl.
  rewrite firstn_app, Nat.sub_diag, firstn_all. simpl. rewrite app_nil_r. auto.
Qed.

(* ------------------------------------------------------------------ what a finished pass guarantees *)
Lemma wake_iter_done s w s' ev :
  wake_iter s w = (s', ev, WDone) ->
  ev = [] /\
  (aget (mgrs s) (w_key w) = None /\ s' = s
   \/ (exists m, aget (mgrs s) (w_key w) = Some m /\ m_waited m = false /\ s' = s)
   \/ (exists m, aget (mgrs s) (w_key w) = Some m /\ m_waited m = true
         /\ snd (get_wait_lock s (w_key w)) = None
         /\ s' = remove_mgr_if_unref (updm (fst (get_wait_lock s (w_key w))) (w_key w)
                                       (fun m => m <| m_waited := false |>)) (w_key w))
   \/ (exists m r, aget (mgrs s) (w_key w) = Some m /\ m_waited m = true
         /\ snd (get_wait_lock s (w_key w)) = Some r
         /\ do_lock (fst (get_wait_lock s (w_key w))) (w_key w) r = false
         /\ s' = fst (get_wait_lock s (w_key w)))).
Proof.
  unfold wake_iter. intros H.
  destruct (aget (mgrs s) (w_key w)) as [m|] eqn:Hm; [|inv_tuple H; auto].
  destruct (m_waited m) eqn:Hw; cbn [negb] in H; [|inv_tuple H; split; auto; right; left; eauto].
  destruct (get_wait_lock s (w_key w)) as [s1 wl] eqn:E1. cbn [fst snd].
  destruct wl as [r|].
  - destruct (do_lock s1 (w_key w) r) eqn:Hd; cbn [negb] in H.
    + destruct (wake_grant s1 (w_key w) r (w_conn w)). inv_tuple H. discriminate.
    + inv_tuple H. split; auto. right. right. right. exists m, r. auto.
  - inv_tuple H. split; auto. right. right. left. exists m. auto.
Qed.

(* the stopping waiter is live and is the head of the queue; an empty result means the queue is empty *)
Lemma get_wait_lock_result s k m :
  aget (mgrs s) k = Some m ->
  match snd (get_wait_lock s k) with
  | Some r =>
      dead_waiter (getl (fst (get_wait_lock s k)) r) = false
      /\ forall m1, aget (mgrs (fst (get_wait_lock s k))) k = Some m1 ->
                    exists q1, m_wait m1 = Some q1 /\ wq_head q1 = Some r
  | None =>
      forall m1, aget (mgrs (fst (get_wait_lock s k))) k = Some m1 ->
                 m_wait m1 = None \/ exists q1, m_wait m1 = Some q1 /\ wq_items q1 = []
  end.
Proof.
  intros Hm. destruct (get_wait_lock s k) as [s1 res] eqn:E.
  destruct (get_wait_lock_spec s k m s1 res Hm E) as (_ & _ & H3 & H4 & _). cbn [fst snd].
  destruct res as [r|]; auto.
Qed.

Lemma finish_some_trace s ev w :
  exists s' ev', finish (s, ev, Some w) = (s', ev ++ ev') /\ wake_trace s w s' ev'
                 /\ wake_done_within (wake_fuel s (w_key w)) s w = true.
Proof.
  unfold finish.
  pose proof (run_wake_trace _ s w (wake_done_within_fuel s w)) as H.
  destruct (run_wake (wake_fuel s (w_key w)) s w) as [s' ev']. simpl in H.
  exists s', ev'. split; auto. split; auto. apply wake_done_within_fuel.
Qed.

(* a trace ends with a WDone iteration *)
Lemma wake_trace_ends s w s' ev :
  wake_trace s w s' ev -> exists s0, wake_iter s0 w = (s', [], WDone).
Proof.
  induction 1 as [s w s' ev H | s w s1 ev1 s' ev' H _ IH]; auto.
  pose proof (wake_iter_done _ _ _ _ H) as (-> & _). eauto.
Qed.
