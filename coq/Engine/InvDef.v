(* Global reachability invariant of the lock-engine model: definitions.
   Views of the state (holder list, wait list, wheel contents), ghost parameters for the transient states inside a
   critical section, and the invariant itself.  Proofs: InvBase.v (library), InvPrims.v (one lemma per primitive),
   InvSteps.v (Lock/UnLock/wake/sweeps), InvMain.v (runs). *)
From Coq Require Import String.
From Slock Require Import Engine.Types Engine.Queues Engine.Timers Engine.Engine Engine.Engine2.
Open Scope N_scope.

(* ---------------------------------------------------------------- views *)
Fixpoint occ (r : ref) (l : list ref) : nat :=
  match l with
  | [] => O
  | x :: t => Nat.add (if N.eqb x r then 1%nat else O) (occ r t)
  end.

Definition hq_items (q : hqueue) : list ref :=
  hq_fast q ++ match hq_scale q with Some (l, _) => l | None => [] end.
Definition m_hq (m : mgr) : list ref := match m_locks m with Some q => hq_items q | None => [] end.
Definition cur_list (m : mgr) : list ref := match m_cur m with Some c => [c] | None => [] end.
(* all holder references of a key: currentLock, then the holder queue (tombstones included until popped) *)
Definition holders (m : mgr) : list ref := cur_list m ++ m_hq m.
Definition m_wq (m : mgr) : list ref := match m_wait m with Some q => wq_items q | None => [] end.

Definition wrefs (w : amap (list ref)) : list ref := flat_map snd w.
Definition awf {V} (m : amap V) : Prop := NoDup (map fst m).

Definition sumdepth (s : db) (l : list ref) : N := fold_right (fun r a => l_locked (getl s r) + a) 0 l.
Definition asum {V} (f : V -> nat) (m : amap V) : nat := fold_right (fun kv a => Nat.add (f (snd kv)) a) O m.
Definition asumN {V} (f : V -> N) (m : amap V) : N := fold_right (fun kv a => f (snd kv) + a) 0 m.
Definition sum_locked (ms : amap mgr) : N := asumN m_locked ms.
Definition live_cnt (st : amap lockrec) : nat := asum (fun l => if l_timeouted l then O else 1%nat) st.
Definition key_cnt (k : N) (st : amap lockrec) : nat := asum (fun l => if N.eqb (l_key l) k then 1%nat else O) st.

(* ---------------------------------------------------------------- the core command subset (first stage) *)
Definition cmd_core (c : cmd) : Prop :=
  has (c_tflag c) TF_REQUIRE_ACKED = false /\ has (c_tflag c) TF_MILLISECOND = false
  /\ has (c_eflag c) EF_MILLISECOND = false /\ c_data c = None.
Definition cmd_core_b (c : cmd) : bool :=
  negb (has (c_tflag c) TF_REQUIRE_ACKED) && negb (has (c_tflag c) TF_MILLISECOND)
  && negb (has (c_eflag c) EF_MILLISECOND) && match c_data c with None => true | Some _ => false end.

Definition core_action (a : action) : bool :=
  match a with
  | AReq _ c => cmd_core_b c
  | AAdvance k => (0 <=? k)%Z
  | ASweepT | ASweepE | ARole _ => true
  | AAck _ _ => false
  end.

(* run-length bound: below it neither LockManager.locked (uint32) nor LockManager.refCount (uint32) can wrap *)
Definition MAXREC : N := 16777216.   (* 2^24 *)
Definition core (acts : list action) : Prop :=
  Forall (fun a => core_action a = true) acts /\ N.of_nat (length acts) + 1 < MAXREC.

(* ---------------------------------------------------------------- ghost parameters of a transient state
   (all empty / zero at the boundaries of an action: Inv s := GInv s g0) *)
Record ghost := mkGhost {
  g_xt : list ref;     (* references held by the timeout sweeper: popped long-table bucket + due list *)
  g_xe : list ref;     (* references held by the expiry sweeper *)
  g_pend : list ref;   (* the part of g_xt / g_xe that is a popped long-table bucket still being walked *)
  g_owe : list ref;    (* records already pushed on a wheel whose refCount++ is the next statement *)
  g_ph : list ref;     (* entries of key g_dk's holder / wait list already popped (and unreferenced) by a loop whose
                          resulting queue is not yet stored in the manager *)
  g_pre : list ref;    (* records whose refCount++ is done but which are not yet stored in key g_dk's list *)
  g_dk : N;            (* the key this critical section works on *)
  g_lk : bool;         (* key g_dk's currentLock / holder queue are being rebuilt *)
  g_pw : bool;         (* g_ph lists wait-queue entries (else holder-queue entries) *)
  g_dl : Z;            (* sum of holder depths of g_dk minus its `locked` *)
  g_cl : Z; g_cw : Z   (* LockedCount / WaitCount updates still to come in this critical section *)
}.
#[export] Instance eta_ghost : Settable _ := settable! mkGhost
  <g_xt; g_xe; g_pend; g_owe; g_ph; g_pre; g_dk; g_lk; g_pw; g_dl; g_cl; g_cw>.
Definition g0 : ghost := mkGhost [] [] [] [] [] [] 0 false false 0 0 0.

Definition tcount (s : db) (g : ghost) (r : ref) : nat :=
  (occ r (wrefs (twheel s)) + occ r (wrefs (tlong s)) + occ r (g_xt g))%nat.
Definition ecount (s : db) (g : ghost) (r : ref) : nat :=
  (occ r (wrefs (ewheel s)) + occ r (wrefs (elong s)) + occ r (g_xe g))%nat.
Definition phk (g : ghost) (k : N) : list ref := if N.eqb k (g_dk g) then g_ph g else [].
Definition dlk (g : ghost) (k : N) : Z := if N.eqb k (g_dk g) then g_dl g else 0%Z.
Definition lkk (g : ghost) (k : N) : bool := N.eqb k (g_dk g) && g_lk g.
Definition phl (s : db) (g : ghost) : list ref :=
  if g_pw g then m_wq (getm s (g_dk g)) else holders (getm s (g_dk g)).

(* per-record clauses *)
Record rec_ok (s : db) (g : ghost) (r : ref) (l : lockrec) : Prop := mkRecOk {
  ro_mgr : aget (mgrs s) (l_key l) <> None;
  ro_lt : r < next s;
  ro_refc : (N.to_nat (l_refc l) + occ r (g_owe g) + occ r (g_ph g) =
             occ r (holders (getm s (l_key l))) + occ r (m_wq (getm s (l_key l))) + tcount s g r + ecount s g r
             + occ r (g_pre g))%nat;
  ro_tc : (tcount s g r <= 1)%nat;
  ro_ec : (ecount s g r <= 1)%nat;
  ro_live : l_timeouted l = false ->
            occ r (holders (getm s (l_key l))) = O /\ ecount s g r = O /\ l_locked l = 0
            /\ occ r (m_wq (getm s (l_key l))) = 1%nat;
  ro_held : 0 < l_locked l -> occ r (g_pre g) = O -> occ r (holders (getm s (l_key l))) = 1%nat;
  ro_long : l_long l = true -> occ r (g_pend g) = O ->
            (l_timeouted l = false -> occ r (wheel_get (tlong s) (lkey (l_tT l))) = 1%nat)
            /\ (l_timeouted l = true -> occ r (wheel_get (elong s) (lkey (l_eT l))) = 1%nat);
  ro_cmd : cmd_core (l_cmd l);
  ro_ack : l_ack l = 255;
  ro_depth : l_locked l <= 255
}.

Definition map_ok (s : db) (q : hqueue) : Prop :=
  forall items mp, hq_scale q = Some (items, mp) ->
  forall id r, aget mp id = Some r -> In r items /\ 0 < l_locked (getl s r) /\ c_lockid (l_cmd (getl s r)) = id.

(* per-key clauses *)
Record mgr_ok (s : db) (g : ghost) (k : N) (m : mgr) : Prop := mkMgrOk {
  mo_refs : forall r, (occ r (phk g k) < occ r (holders m ++ m_wq m))%nat -> aget (store s) r <> None;
  mo_key : forall r l, In r (holders m ++ m_wq m) -> aget (store s) r = Some l -> l_key l = k;
  mo_lt : forall r, In r (holders m ++ m_wq m) -> r < next s;
  mo_nd : NoDup (holders m);
  mo_ndw : NoDup (m_wq m);
  mo_sum : (Z.of_N (m_locked m) + dlk g k = Z.of_N (sumdepth s (holders m)))%Z;
  mo_cur : lkk g k = false -> forall c, m_cur m = Some c -> 0 < l_locked (getl s c);
  mo_nocur : lkk g k = false -> m_cur m = None -> m_hq m = [];
  mo_ref : N.to_nat (m_ref m) = key_cnt k (store s);
  mo_bnd : m_ref m < 4294967296 /\ m_locked m < 4294967296;
  mo_map : lkk g k = false -> forall q, m_locks m = Some q -> map_ok s q;
  mo_cap : (forall q, m_locks m = Some q -> hq_cap q = 0 -> hq_fast q = [])
           /\ (forall q, m_wait m = Some q -> (wq_cap q = 0 -> wq_fast q = []) /\ (wq_mode q = WFast -> wq_ring q = []))
}.

Record GInv (s : db) (g : ghost) : Prop := mkGInv {
  gi_wf_m : awf (mgrs s); gi_wf_s : awf (store s);
  gi_wf_tw : awf (twheel s); gi_wf_tl : awf (tlong s); gi_wf_ew : awf (ewheel s); gi_wf_el : awf (elong s);
  gi_len : N.of_nat (length (store s)) < next s;
  gi_rec : forall r l, aget (store s) r = Some l -> rec_ok s g r l;
  gi_mgr : forall k m, aget (mgrs s) k = Some m -> mgr_ok s g k m;
  gi_str : forall r, aget (store s) r = None -> (tcount s g r + ecount s g r)%nat = O;
  gi_ph : forall r, In r (g_ph g) -> (g_pw g = false -> l_locked (getl s r) = 0) /\ l_timeouted (getl s r) = true;
  gi_phle : forall r, (occ r (g_ph g) <= occ r (phl s g))%nat;
  gi_nlocked : (n_locked (cnt s) + g_cl g = Z.of_N (sum_locked (mgrs s)))%Z;
  gi_nwait : (n_wait (cnt s) + g_cw g = Z.of_nat (live_cnt (store s)))%Z;
  gi_nkey : n_key (cnt s) = Z.of_nat (length (mgrs s))
}.

Definition Inv (s : db) : Prop := GInv s g0.
