(* Local facts, part 2 (property C10): what a non-leader database does with a client request and with a due expiry.
   Every state, no reachability assumption. *)
From Coq Require Import String ZifyN ZifyBool.
From Slock Require Import Engine.Types Engine.Queues Engine.Timers Engine.Engine Engine.Engine2 Engine.LocalBase
  Engine.LocalC01.
Open Scope N_scope.

(* ------------------------------------------------------------------ the concurrent-check pre-check of Lock *)
Definition lock_pre (s : db) (conn : N) (c : cmd) : option (list event) :=
  let k := c_key c in
  if has (c_flag c) LOCK_FLAG_CONCURRENT_CHECK && (c_timeout c =? 0) then
    match aget (mgrs s) k with
    | Some m =>
        if (c_count c <? 65535) && (c_count c <? m_locked m)
        then Some [reply conn c R_TIMEOUT (m_locked m) 0 (data_of s k)]
        else if (m_locked m =? 0) && has (c_tflag c) TF_WAIT_WHEN_UNLOCK
             then Some [reply conn c R_TIMEOUT 0 0 None] else None
    | None => if has (c_tflag c) TF_WAIT_WHEN_UNLOCK then Some [reply conn c R_TIMEOUT 0 0 None] else None
    end
  else None.

(* the pre-check answers TIMEOUT and touches nothing, whatever the role *)
Lemma lock_pre_some s conn c ev :
  lock_pre s conn c = Some ev ->
  lock_step s conn c = (s, ev, None)
  /\ has (c_flag c) LOCK_FLAG_CONCURRENT_CHECK = true /\ c_timeout c = 0
  /\ exists lc d, ev = [reply conn c R_TIMEOUT lc 0 d].
Proof.
  intros H. split.
  - unfold lock_step. cbv zeta. fold (lock_pre s conn c). rewrite H. reflexivity.
  - unfold lock_pre in H. cbv zeta in H.
    destruct (has (c_flag c) LOCK_FLAG_CONCURRENT_CHECK); [|discriminate].
    destruct (c_timeout c =? 0) eqn:E; [|discriminate]. apply N.eqb_eq in E.
    split; [reflexivity|]. split; [exact E|].
    cbn [andb] in H. repeat (split_hyp H); inv H; eauto.
Qed.

Lemma lock_pre_step s conn c ev :
  c_lock c = true -> lock_pre s conn c = Some ev -> step s (AReq conn c) = (s, ev).
Proof.
  intros Hl H. apply lock_pre_some in H. destruct H as (H & _). simpl. rewrite Hl, H. reflexivity.
Qed.

Lemma lock_pre_step_full s conn c ev :
  c_lock c = true -> lock_pre s conn c = Some ev ->
  step s (AReq conn c) = (s, ev)
  /\ has (c_flag c) LOCK_FLAG_CONCURRENT_CHECK = true /\ c_timeout c = 0
  /\ exists lc d, ev = [EReply conn (c_req c) R_TIMEOUT (lc mod 65536) 0 (c_lockid c) (c_count c) (c_rcount c) d].
Proof.
  intros Hl H. split; [apply lock_pre_step; auto|]. exact (proj2 (lock_pre_some s conn c ev H)).
Qed.

(* ------------------------------------------------------------------ LOCK on a non-leader *)
Lemma remove_fresh_mgr s k :
  aget (mgrs s) k = None ->
  remove_mgr_if_unref (bump (fun n => n <| n_key := (n_key n + 1)%Z |>) (setm s k new_mgr)) k = s.
Proof.
  intros H. unfold remove_mgr_if_unref.
  change (mgrs (bump (fun n => n <| n_key := (n_key n + 1)%Z |>) (setm s k new_mgr))) with (aset (mgrs s) k new_mgr).
  rewrite aget_aset_same. change (m_ref new_mgr =? 0) with true. cbv iota.
  unfold aset. simpl adel. rewrite N.eqb_refl. rewrite !(adel_absent _ _ H).
  destruct s as [nw cT cE ld ca mg st nx tw tl ew el [c1 c2 c3 c4 c5 c6 c7 c8]].
  unfold updc, bump, updc, setm. cbn.
  replace (c5 + 1 - 1)%Z with c5 by lia. reflexivity.
Qed.

(* a key manager that is referenced (refCount <> 0), or no manager at all: nothing to garbage-collect *)
Definition mgr_pinned (s : db) (k : N) : Prop :=
  match aget (mgrs s) k with Some m => m_ref m <> 0 | None => True end.

Lemma remove_mgr_pinned s k : mgr_pinned s k -> remove_mgr_if_unref s k = s.
Proof.
  unfold mgr_pinned, remove_mgr_if_unref. destruct (aget (mgrs s) k) as [m|]; auto.
  intros H. destruct (m_ref m =? 0) eqn:E; auto. apply N.eqb_eq in E. contradiction.
Qed.

(* exact result, no side condition: the only possible state change is the removal of an unreferenced manager
   that existed before the request *)
Lemma lock_nonleader s conn c :
  leader s = false -> has (c_flag c) LOCK_FLAG_FROM_AOF = false -> lock_pre s conn c = None ->
  lock_step s conn c =
    (remove_mgr_if_unref s (c_key c),
     [reply conn c R_STATE_ERROR (m_locked (getm s (c_key c))) 0 (data_of (remove_mgr_if_unref s (c_key c)) (c_key c))],
     None).
Proof.
  intros Hl Hf Hp. unfold lock_step. cbv zeta. fold (lock_pre s conn c). rewrite Hp. cbv iota.
  rewrite Hf. destruct (aget (mgrs s) (c_key c)) as [m|] eqn:Hm.
  - rewrite Hl. reflexivity.
  - change (leader (bump (fun n => n <| n_key := (n_key n + 1)%Z |>) (setm s (c_key c) new_mgr))) with (leader s).
    rewrite Hl. cbn [negb andb]. rewrite (remove_fresh_mgr _ _ Hm).
    rewrite (remove_mgr_pinned s (c_key c)) by (unfold mgr_pinned; rewrite Hm; exact I).
    unfold getm at 2. rewrite Hm.
    unfold getm. change (mgrs (bump (fun n => n <| n_key := (n_key n + 1)%Z |>) (setm s (c_key c) new_mgr)))
      with (aset (mgrs s) (c_key c) new_mgr). rewrite aget_aset_same. reflexivity.
Qed.

Lemma lock_nonleader_step s conn c :
  c_lock c = true ->
  leader s = false -> has (c_flag c) LOCK_FLAG_FROM_AOF = false -> lock_pre s conn c = None ->
  step s (AReq conn c) =
    (remove_mgr_if_unref s (c_key c),
     [EReply conn (c_req c) R_STATE_ERROR (m_locked (getm s (c_key c)) mod 65536) 0 (c_lockid c) (c_count c) (c_rcount c)
        (data_of (remove_mgr_if_unref s (c_key c)) (c_key c))]).
Proof.
  intros Hc Hl Hf Hp. simpl. rewrite Hc, (lock_nonleader s conn c Hl Hf Hp). reflexivity.
Qed.

Lemma lock_nonleader_unchanged s conn c :
  c_lock c = true ->
  leader s = false -> has (c_flag c) LOCK_FLAG_FROM_AOF = false -> lock_pre s conn c = None ->
  mgr_pinned s (c_key c) ->
  step s (AReq conn c) =
    (s, [EReply conn (c_req c) R_STATE_ERROR (m_locked (getm s (c_key c)) mod 65536) 0 (c_lockid c) (c_count c) (c_rcount c)
           (data_of s (c_key c))]).
Proof.
  intros Hc Hl Hf Hp Hpin. rewrite (lock_nonleader_step s conn c Hc Hl Hf Hp).
  rewrite (remove_mgr_pinned _ _ Hpin). reflexivity.
Qed.

(* without the side condition: every other key is untouched, the key of the request either keeps its manager or
   loses an unreferenced one; everything else is unchanged except KeyCount in the second case *)
Lemma remove_mgr_if_unref_frame s k :
  let s' := remove_mgr_if_unref s k in
  (forall k', k' <> k -> aget (mgrs s') k' = aget (mgrs s) k')
  /\ (aget (mgrs s') k = aget (mgrs s) k
      \/ (exists m, aget (mgrs s) k = Some m /\ m_ref m = 0 /\ aget (mgrs s') k = None))
  /\ store s' = store s /\ next s' = next s /\ twheel s' = twheel s /\ tlong s' = tlong s
  /\ ewheel s' = ewheel s /\ elong s' = elong s /\ now s' = now s /\ checkT s' = checkT s /\ checkE s' = checkE s
  /\ leader s' = leader s /\ cfg_aoftime s' = cfg_aoftime s.
Proof.
  unfold remove_mgr_if_unref. destruct (aget (mgrs s) k) as [m|] eqn:Hm.
  - destruct (m_ref m =? 0) eqn:E.
    + cbn. split; [intros k' Hk; apply aget_adel_other; auto|].
      split; [right; exists m; split; [auto|]; split; [apply N.eqb_eq; auto | apply aget_adel_same]|].
      repeat split.
    + cbn. rewrite Hm. split; auto. split; auto. repeat split.
  - cbn. rewrite Hm. split; auto. split; auto. repeat split.
Qed.

(* ------------------------------------------------------------------ UNLOCK on a non-leader *)
Definition bump_unlockerr (s : db) : db := bump (fun n => n <| n_unlockerr := (n_unlockerr n + 1)%Z |>) s.

Lemma unlock_nonleader s conn c m :
  leader s = false -> has (c_flag c) UNLOCK_FLAG_FROM_AOF = false -> aget (mgrs s) (c_key c) = Some m ->
  unlock_step s conn c =
    (bump_unlockerr s, [reply conn c R_STATE_ERROR (m_locked m) 0 (data_of s (c_key c))], None).
Proof.
  intros Hl Hf Hm. unfold unlock_step. rewrite Hm, Hl, Hf. reflexivity.
Qed.

(* UnLock looks the key up before it looks at the role: unknown key -> UNLOCK_ERROR, also on a non-leader *)
Lemma unlock_nomgr s conn c :
  aget (mgrs s) (c_key c) = None ->
  unlock_step s conn c = (bump_unlockerr s, [reply conn c R_UNLOCK_ERROR 0 0 None], None).
Proof. intros Hm. unfold unlock_step. rewrite Hm. reflexivity. Qed.

Lemma unlock_nonleader_step s conn c :
  c_lock c = false -> leader s = false -> has (c_flag c) UNLOCK_FLAG_FROM_AOF = false ->
  step s (AReq conn c) =
    (s <| cnt := cnt s <| n_unlockerr := (n_unlockerr (cnt s) + 1)%Z |> |>,
     [match aget (mgrs s) (c_key c) with
      | Some m => EReply conn (c_req c) R_STATE_ERROR (m_locked m mod 65536) 0 (c_lockid c) (c_count c) (c_rcount c)
                    (data_of s (c_key c))
      | None => EReply conn (c_req c) R_UNLOCK_ERROR 0 0 (c_lockid c) (c_count c) (c_rcount c) None
      end]).
Proof.
  intros Hc Hl Hf. simpl. rewrite Hc.
  destruct (aget (mgrs s) (c_key c)) as [m|] eqn:Hm.
  - rewrite (unlock_nonleader s conn c m Hl Hf Hm). reflexivity.
  - rewrite (unlock_nomgr s conn c Hm). reflexivity.
Qed.

(* ------------------------------------------------------------------ doExpried on a non-leader: persisted holds are
   re-armed, never ended *)
Lemma repeat_push_lock_aof_nonleader n : forall s k r, leader s = false -> repeat_push_lock_aof n s k r = (s, []).
Proof.
  induction n as [|n IH]; intros s k r Hl; simpl; auto.
  unfold push_lock_aof. rewrite Hl. cbn [negb]. rewrite (IH s k r Hl). reflexivity.
Qed.

Lemma In_wheel_push w k r : In r (wheel_get (wheel_push w k r) k).
Proof. unfold wheel_push, wheel_get. rewrite aget_aset_same. apply in_or_app. right. left. reflexivity. Qed.

Lemma follower_does_not_expire s r l :
  aget (store s) r = Some l -> l_expried l = false -> leader s = false -> l_isaof l = true ->
  ((l_eT l <= 0)%Z \/ (now s - l_eT l < EXPRIED_WAIT_LEADER_MAX_TIME)%Z) ->
  exists s',
    do_expried s r = (s', [], None)
    /\ mgrs s' = mgrs s /\ cnt s' = cnt s /\ leader s' = false /\ now s' = now s
    /\ twheel s' = twheel s /\ tlong s' = tlong s /\ next s' = next s
    /\ (forall r', r' <> r -> aget (store s') r' = aget (store s) r')
    /\ exists l',
         aget (store s') r = Some l'
         /\ l_expried l' = false /\ l_locked l' = l_locked l /\ l_isaof l' = true /\ l_cmd l' = l_cmd l
         /\ l_conn l' = l_conn l /\ l_ack l' = l_ack l /\ l_timeouted l' = l_timeouted l /\ l_refc l' = l_refc l
         /\ (l_eT l' = (now s + 30)%Z \/ (8 < l_ecc l /\ (now s + 30 < checkE s)%Z /\ l_eT l' = checkE s))
         /\ (now s' - l_eT l' < EXPRIED_WAIT_LEADER_MAX_TIME)%Z
         /\ (if l_long l' then In r (wheel_get (elong s') (lkey (l_eT l')))
             else exists slot, In r (wheel_get (ewheel s') slot)).
Proof.
  intros Hs He Hl Ha Hg.
  unfold do_expried. rewrite Hs, He, Hl, Ha. cbn [negb andb].
  assert (Hc : ((l_eT l <=? 0)%Z || (now s - l_eT l <? EXPRIED_WAIT_LEADER_MAX_TIME)%Z) = true).
  { apply orb_true_iff. destruct Hg; [left; apply Z.leb_le | right; apply Z.ltb_lt]; auto. }
  rewrite Hc.
  set (s1 := updl s r (fun l0 => l0 <| l_eT := (now s + 30)%Z |>)).
  assert (H1 : aget (store s1) r = Some (l <| l_eT := (now s + 30)%Z |>)).
  { unfold s1. rewrite aget_store_updl, N.eqb_refl, Hs. reflexivity. }
  unfold add_expried.
  set (s2 := updl s1 r (fun l0 => l0 <| l_expried := false |>)).
  assert (H2 : aget (store s2) r = Some (l <| l_eT := (now s + 30)%Z |> <| l_expried := false |>)).
  { unfold s2. rewrite aget_store_updl, N.eqb_refl, H1. reflexivity. }
  assert (G2 : getl s2 r = l <| l_eT := (now s + 30)%Z |> <| l_expried := false |>).
  { unfold getl. rewrite H2. reflexivity. }
  cbv zeta. rewrite G2.
  change (l_ecc (l <| l_eT := (now s + 30)%Z |> <| l_expried := false |>)) with (l_ecc l).
  change (l_eT (l <| l_eT := (now s + 30)%Z |> <| l_expried := false |>)) with (now s + 30)%Z.
  assert (Hck : checkE s2 = checkE s).
  { unfold s2, s1, updl. rewrite Hs. cbn [store setl set].
    match goal with |- checkE (match ?x with _ => _ end) = _ => destruct x end; reflexivity. }
  rewrite Hck.
  assert (Hother : forall r', r' <> r -> aget (store s2) r' = aget (store s) r').
  { intros r' Hr. unfold s2, s1. rewrite !aget_store_updl.
    destruct (r =? r') eqn:E; [apply N.eqb_eq in E; congruence|reflexivity]. }
  assert (Hm2 : mgrs s2 = mgrs s) by (unfold s2, s1; rewrite !mgrs_updl; reflexivity).
  assert (Hfr : cnt s2 = cnt s /\ leader s2 = leader s /\ now s2 = now s /\ twheel s2 = twheel s /\ tlong s2 = tlong s
                /\ next s2 = next s /\ elong s2 = elong s /\ ewheel s2 = ewheel s).
  { unfold s2, s1, updl. rewrite Hs. cbn [store setl set].
    match goal with |- context [match ?x with _ => _ end] => destruct x end; repeat split. }
  destruct Hfr as (Hc2 & Hl2 & Hn2 & Htw2 & Htl2 & Hnx2 & Hel2 & Hew2).
  destruct (QUEUE_MAX_WAIT <? l_ecc l) eqn:Hq.
  - (* long table *)
    set (eT := if (now s + 30 <? checkE s)%Z then checkE s else (now s + 30)%Z).
    set (s3 := updl s2 r (fun l0 => l0 <| l_eT := eT |> <| l_long := true |>)).
    set (s4 := s3 <| elong := wheel_push (elong s3) (lkey eT) r |>).
    assert (H4 : aget (store s4) r
                 = Some (l <| l_eT := (now s + 30)%Z |> <| l_expried := false |> <| l_eT := eT |> <| l_long := true |>)).
    { change (store s4) with (store s3). unfold s3. rewrite aget_store_updl, N.eqb_refl, H2. reflexivity. }
    assert (G4 : getl s4 r = l <| l_eT := (now s + 30)%Z |> <| l_expried := false |> <| l_eT := eT |> <| l_long := true |>).
    { unfold getl. rewrite H4. reflexivity. }
    rewrite G4.
    change (l_isaof (l <| l_eT := (now s + 30)%Z |> <| l_expried := false |> <| l_eT := eT |> <| l_long := true |>))
      with (l_isaof l). rewrite Ha. cbn [negb andb].
    exists s4. split; [reflexivity|].
    assert (Hfr3 : mgrs s3 = mgrs s2 /\ cnt s3 = cnt s2 /\ leader s3 = leader s2 /\ now s3 = now s2 /\ twheel s3 = twheel s2
                   /\ tlong s3 = tlong s2 /\ next s3 = next s2 /\ elong s3 = elong s2).
    { unfold s3, updl. rewrite H2. repeat split. }
    destruct Hfr3 as (Hm3 & Hc3 & Hl3 & Hn3 & Htw3 & Htl3 & Hnx3 & Hel3).
    change (mgrs s4) with (mgrs s3). change (cnt s4) with (cnt s3). change (leader s4) with (leader s3).
    change (now s4) with (now s3). change (twheel s4) with (twheel s3). change (tlong s4) with (tlong s3).
    change (next s4) with (next s3).
    rewrite Hm3, Hm2, Hc3, Hc2, Hl3, Hl2, Hl, Hn3, Hn2, Htw3, Htw2, Htl3, Htl2, Hnx3, Hnx2.
    repeat (split; [reflexivity|]).
    split.
    { intros r' Hr. change (store s4) with (store s3). unfold s3. rewrite aget_store_updl.
      destruct (r =? r') eqn:E; [apply N.eqb_eq in E; congruence|]. apply Hother; auto. }
    eexists. split; [exact H4|]. cbn [l_expried l_locked l_isaof l_cmd l_conn l_ack l_timeouted l_refc l_eT l_long set].
    repeat (split; [first [reflexivity | assumption]|]).
    assert (Hq' : 8 < l_ecc l) by (apply N.ltb_lt in Hq; exact Hq).
    unfold eT. destruct (now s + 30 <? checkE s)%Z eqn:Hlt.
    + apply Z.ltb_lt in Hlt. split; [right; auto|]. split; [unfold EXPRIED_WAIT_LEADER_MAX_TIME; lia|].
      unfold s4. cbn [elong set]. apply In_wheel_push.
    + split; [left; reflexivity|]. split; [unfold EXPRIED_WAIT_LEADER_MAX_TIME; lia|].
      unfold s4. cbn [elong set]. apply In_wheel_push.
  - (* wheel *)
    set (d := if (now s + 30 <? checkE s + Z.of_N (l_ecc l))%Z
              then if (now s + 30 <? checkE s)%Z then checkE s else (now s + 30)%Z
              else (checkE s + Z.of_N (l_ecc l))%Z).
    set (s3 := s2 <| ewheel := wheel_push (ewheel s2) (slot_of d) r |>).
    set (s4 := updl s3 r (fun l0 => l0 <| l_long := false |>)).
    assert (H4 : aget (store s4) r
                 = Some (l <| l_eT := (now s + 30)%Z |> <| l_expried := false |> <| l_long := false |>)).
    { unfold s4. rewrite aget_store_updl, N.eqb_refl. change (store s3) with (store s2). rewrite H2. reflexivity. }
    assert (G4 : getl s4 r = l <| l_eT := (now s + 30)%Z |> <| l_expried := false |> <| l_long := false |>).
    { unfold getl. rewrite H4. reflexivity. }
    rewrite G4.
    change (l_isaof (l <| l_eT := (now s + 30)%Z |> <| l_expried := false |> <| l_long := false |>)) with (l_isaof l).
    rewrite Ha. cbn [negb andb].
    exists s4. split; [reflexivity|].
    assert (Hfr4 : mgrs s4 = mgrs s2 /\ cnt s4 = cnt s2 /\ leader s4 = leader s2 /\ now s4 = now s2 /\ twheel s4 = twheel s2
                   /\ tlong s4 = tlong s2 /\ next s4 = next s2 /\ ewheel s4 = ewheel s3).
    { unfold s4, updl. change (store s3) with (store s2). rewrite H2. repeat split. }
    destruct Hfr4 as (Hm4 & Hc4 & Hl4 & Hn4 & Htw4 & Htl4 & Hnx4 & Hew4).
    rewrite Hm4, Hm2, Hc4, Hc2, Hl4, Hl2, Hl, Hn4, Hn2, Htw4, Htw2, Htl4, Htl2, Hnx4, Hnx2.
    repeat (split; [reflexivity|]).
    split.
    { intros r' Hr. unfold s4. rewrite aget_store_updl.
      destruct (r =? r') eqn:E; [apply N.eqb_eq in E; congruence|]. change (store s3) with (store s2). apply Hother; auto. }
    eexists. split; [exact H4|]. cbn [l_expried l_locked l_isaof l_cmd l_conn l_ack l_timeouted l_refc l_eT l_long set].
    repeat (split; [first [reflexivity | assumption]|]).
    split; [left; reflexivity|]. split; [unfold EXPRIED_WAIT_LEADER_MAX_TIME; lia|].
    exists (slot_of d). rewrite Hew4. unfold s3. cbn [ewheel set]. apply In_wheel_push.
Qed.

(* ------------------------------------------------------------------ any sequence of client requests at a non-leader *)
(* what may differ between two states of a non-leader that only answered client requests: the clock, the
   UnlockErrorCount / KeyCount counters, and unreferenced key managers that were dropped *)
Definition follower_rel (s s' : db) : Prop :=
  leader s' = leader s /\ store s' = store s /\ next s' = next s
  /\ twheel s' = twheel s /\ tlong s' = tlong s /\ ewheel s' = ewheel s /\ elong s' = elong s
  /\ checkT s' = checkT s /\ checkE s' = checkE s /\ cfg_aoftime s' = cfg_aoftime s
  /\ forall k, aget (mgrs s') k = aget (mgrs s) k
               \/ (aget (mgrs s') k = None /\ exists m, aget (mgrs s) k = Some m /\ m_ref m = 0).

Lemma follower_rel_refl s : follower_rel s s.
Proof. unfold follower_rel. repeat split; auto. Qed.

Lemma follower_rel_trans a b c : follower_rel a b -> follower_rel b c -> follower_rel a c.
Proof.
  unfold follower_rel.
  intros (A1 & A2 & A3 & A4 & A5 & A6 & A7 & A8 & A9 & A10 & A11) (B1 & B2 & B3 & B4 & B5 & B6 & B7 & B8 & B9 & B10 & B11).
  repeat (split; [congruence|]).
  intros k. destruct (B11 k) as [E|(E & m & Em & Er)].
  - rewrite E. apply A11.
  - destruct (A11 k) as [E2|(E2 & _)]; [|congruence].
    right. split; auto. exists m. split; [congruence|auto].
Qed.

Definition refusal_events (ev : list event) : Prop :=
  ev = [] \/
  exists conn req res lc lrc lid cnt rc d,
    ev = [EReply conn req res lc lrc lid cnt rc d]
    /\ (res = R_STATE_ERROR \/ res = R_UNLOCK_ERROR \/ res = R_TIMEOUT).

(* client actions: requests that do not claim to come from the replicated log, and the passing of time *)
Definition client_action (a : action) : Prop :=
  match a with
  | AReq _ c => (if c_lock c then has (c_flag c) LOCK_FLAG_FROM_AOF else has (c_flag c) UNLOCK_FLAG_FROM_AOF) = false
  | AAdvance _ => True
  | _ => False
  end.

Lemma follower_step s a :
  leader s = false -> client_action a ->
  follower_rel s (fst (step s a)) /\ refusal_events (snd (step s a)).
Proof.
  intros Hl Ha. destruct a as [conn c|k| | |r ok|b]; simpl in Ha; try contradiction.
  - destruct (c_lock c) eqn:Hc.
    + destruct (lock_pre s conn c) as [ev|] eqn:Hp.
      * destruct (lock_pre_step_full s conn c ev Hc Hp) as (E & _ & _ & lc & d & Eev). rewrite E. cbn [fst snd].
        split; [apply follower_rel_refl|]. right. subst ev. do 9 eexists. split; [reflexivity|]. auto.
      * rewrite (lock_nonleader_step s conn c Hc Hl Ha Hp). cbn [fst snd]. split.
        -- pose proof (remove_mgr_if_unref_frame s (c_key c)) as F. cbv zeta in F.
           destruct F as (F1 & F2 & F3 & F4 & F5 & F6 & F7 & F8 & F9 & F10 & F11 & F12 & F13).
           unfold follower_rel. repeat (split; [assumption|]).
           intros k. destruct (N.eq_dec k (c_key c)) as [->|Hk]; [|left; apply F1; auto].
           destruct F2 as [E|(m & Em & Er & En)]; [left; auto|right; eauto].
        -- right. do 9 eexists. split; [reflexivity|]. auto.
    + rewrite (unlock_nonleader_step s conn c Hc Hl Ha). cbn [fst snd]. split.
      * unfold follower_rel. cbn. repeat split; auto.
      * right. destruct (aget (mgrs s) (c_key c)); do 9 eexists; (split; [reflexivity|]); auto.
  - simpl. split; [|left; reflexivity]. unfold follower_rel. cbn. repeat split; auto.
Qed.

Lemma follower_run acts : forall s,
  leader s = false -> Forall client_action acts ->
  follower_rel s (fst (run s acts)) /\ Forall refusal_events (snd (run s acts)).
Proof.
  induction acts as [|a rest IH]; intros s Hl Ha; simpl.
  - split; [apply follower_rel_refl|constructor].
  - inv Ha. destruct (follower_step s a Hl) as (R1 & E1); auto.
    destruct (step s a) as [s1 e1]. cbn [fst snd] in *.
    assert (Hl1 : leader s1 = false) by (destruct R1 as (R & _); congruence).
    destruct (IH s1 Hl1) as (R2 & E2); auto.
    destruct (run s1 rest) as [s2 es]. cbn [fst snd] in *.
    split; [eapply follower_rel_trans; eauto|constructor; auto].
Qed.

(* ------------------------------------------------------------------ the 300 s are counted from the last re-arm, not from
   the hold's deadline: a follower whose expiry sweep runs regularly keeps a persisted hold indefinitely.
   Witness: hold with deadline 11 s; follower; sweeps every 100 s; at time 1000 s (989 s past the deadline) the hold is
   still outstanding (deadline now 1030) and nothing was emitted -- whereas one single sweep at time 1000 ends it. *)
Definition rearm_s0 : db := fst (run (init_db 0 0) [AReq 1 (mkCmd true 1 0 7 5 0 0 0 10 0 0 None); ARole false]).

Lemma follower_wait_exceeds_300_witness :
  (let '(s', evs) := run rearm_s0 (concat (repeat [AAdvance 100; ASweepE] 10)) in
   now s' = 1000%Z /\ concat evs = [] /\ m_locked (getm s' 5) = 1
   /\ exists l, aget (store s') 1 = Some l /\ l_expried l = false /\ l_locked l = 1 /\ l_eT l = 1030%Z)
  /\ (let '(s', evs) := run rearm_s0 [AAdvance 1000; ASweepE] in
      concat evs = [ERelease 5 1 1; EReply 1 1 R_EXPRIED 0 0 7 0 0 None] /\ aget (store s') 1 = None).
Proof. vm_compute. repeat split; try reflexivity. eexists. repeat split; reflexivity. Qed.
