(* Run-level expiry theorems (property C06), part 2: the long-table integrity invariant KL (RunExpK.v) is preserved by
   the wake-up pass and by LockDB.Lock, under the heap invariant GInv of Engine/Inv*.v (which supplies: a fresh
   reference is in no table; what GetLockedLock returns is a stored holder that is no live waiter). *)
From Coq Require Import String ZifyN ZifyBool ZifyNat.
From Slock Require Import Engine.Types Engine.Queues Engine.Timers Engine.Engine Engine.Engine2 Engine.InvDef Engine.InvBase
  Engine.InvPrims Engine.InvRec Engine.InvWheel Engine.InvQueue Engine.InvQueue2 Engine.InvSteps Engine.InvLockDefs Engine.InvLock
  Engine.InvUnlock Engine.InvSweep Engine.InvMain Engine.InvProps.
From Slock Require Import Engine.LocalBase Engine.LocalWake Engine.TimeBase Engine.TimeExp Engine.RunExpK.
Open Scope N_scope.

Lemma kfr_push_lock_aof_eq s x k r fl x' ev : push_lock_aof x k r fl = (x', ev) -> kfr s x -> kfr s x'.
Proof. intros E H. pose proof (kfr_push_lock_aof s x k r fl H) as A. rewrite E in A. exact A. Qed.
Lemma kfr_push_unlock_aof_eq s x k r lc uc b fl x' ev : push_unlock_aof x k r lc uc b fl = (x', ev) -> kfr s x -> kfr s x'.
Proof. intros E H. pose proof (kfr_push_unlock_aof s x k r lc uc b fl H) as A. rewrite E in A. exact A. Qed.
Lemma kfr_process_data_eq s x k r c b x' ev : process_data x k r c b = (x', ev) -> kfr s x -> kfr s x'.
Proof. intros E H. pose proof (kfr_process_data s x k r c b H) as A. rewrite E in A. exact A. Qed.
Lemma kfr_get_wait_lock_eq s x k x' w : get_wait_lock x k = (x', w) -> kfr s x -> kfr s x'.
Proof. intros E H. pose proof (kfr_get_wait_lock s x k H) as A. rewrite E in A. exact A. Qed.
Ltac kf_eq :=
  match goal with
  | E : push_lock_aof _ _ _ _ = (?y, _) |- kfr _ ?y => eapply kfr_push_lock_aof_eq; [exact E|]
  | E : push_unlock_aof _ _ _ _ _ _ _ = (?y, _) |- kfr _ ?y => eapply kfr_push_unlock_aof_eq; [exact E|]
  | E : process_data _ _ _ _ _ = (?y, _) |- kfr _ ?y => eapply kfr_process_data_eq; [exact E|]
  | E : get_wait_lock _ _ = (?y, _) |- kfr _ ?y => eapply kfr_get_wait_lock_eq; [exact E|]
  end.
#[export] Hint Extern 1 (kfr _ ?y) => is_var y; kf_eq : kdb.
#[export] Hint Resolve kfr_refl : kdb.

Lemma updm_elong s k f : elong (updm s k f) = elong s.
Proof. unfold updm, setm; destruct (aget (mgrs s) k); reflexivity. Qed.
Lemma updm_tlong s k f : tlong (updm s k f) = tlong s.
Proof. unfold updm, setm; destruct (aget (mgrs s) k); reflexivity. Qed.

Lemma not_in_wrefs r w kk : occ r (wrefs w) = O -> ~ In r (wheel_get w kk).
Proof. intros H I. apply occ_In in I. pose proof (occ_wheel_get_le r w kk). lia. Qed.

(* ---------------------------------------------------------------- AddLock *)
Lemma add_lock_rec_fields s k r :
  l_timeouted (add_lock_rec s k r) = l_timeouted (getl s r) /\ l_expried (add_lock_rec s k r) = l_expried (getl s r)
  /\ l_long (add_lock_rec s k r) = l_long (getl s r) /\ l_tT (add_lock_rec s k r) = l_tT (getl s r)
  /\ l_cmd (add_lock_rec s k r) = l_cmd (getl s r).
Proof.
  unfold add_lock_rec. cbv zeta.
  destruct (has (c_flag (l_cmd (getl s r))) LOCK_FLAG_FROM_AOF);
  destruct (has (c_tflag (l_cmd (getl s r))) TF_REQUIRE_ACKED);
  destruct (has (c_tflag (l_cmd (getl s r))) TF_UNRENEW); cbn; auto.
Qed.

Lemma kfr_add_lock_after s k r : kfr (setl s r (add_lock_rec s k r)) (add_lock s k r).
Proof.
  rewrite add_lock_unfold. cbv zeta. destruct (m_cur (getm s k)); [|apply kfr_updm, kfr_refl].
  match goal with |- context [hq_push ?a ?q r] =>
    pose proof (kfr_hq_push a a q r (kfr_refl a)) as A; destruct (hq_push a q r) as [s' q'] end.
  cbn [fst] in A. apply kfr_updm. exact A.
Qed.

Lemma KL_add_lock s k r l :
  KL s -> aget (store s) r = Some l -> l_timeouted l = true -> (forall kk, ~ In r (wheel_get (elong s) kk)) ->
  KL (add_lock s k r) /\ elong (add_lock s k r) = elong s
  /\ (forall l', aget (store (add_lock s k r)) r = Some l' -> l_timeouted l' = true).
Proof.
  intros K G T NE. pose proof (kfr_add_lock_after s k r) as (F1 & F2 & F3).
  destruct (add_lock_rec_fields s k r) as (R1 & _). rewrite (getl_some _ _ _ G) in R1.
  split; [|split].
  - eapply KL_kfr; [|apply kfr_add_lock_after]. apply KL_setl_out; auto. intros kk. eapply KL_dead_not_tlong; eauto.
  - exact F2.
  - intros l' G'. destruct (F3 r l' G') as (l0 & G0 & (_ & S2 & _)). rewrite aget_setl, N.eqb_refl in G0. injection G0 as <-.
    congruence.
Qed.

(* AddLock; locked++; AddExpried (the grant of a hold) *)
Lemma KL_grant s k r l f s4 aev :
  KL s -> aget (store s) r = Some l -> l_timeouted l = true -> (forall kk, ~ In r (wheel_get (elong s) kk)) ->
  add_expried (updm (add_lock s k r) k f) k r = (s4, aev) -> KL s4.
Proof.
  intros K G T NE E. destruct (KL_add_lock s k r l K G T NE) as (K1 & E1 & T1).
  pose proof (KL_add_expried (updm (add_lock s k r) k f) k r) as A. rewrite E in A. apply A.
  - eapply KL_kfr; [exact K1|apply kfr_updm, kfr_refl].
  - intros kk. rewrite updm_elong, E1. apply NE.
  - intros l' G'. rewrite (tview_store _ _ (updm_tview _ _ _)) in G'. auto.
Qed.

(* ---------------------------------------------------------------- wakeUpWaitLocks *)
Lemma wg_pre_kill s r : wg_pre s r = kill s r.
Proof. reflexivity. Qed.

Lemma kill_elong s r : elong (kill s r) = elong s.
Proof.
  unfold kill. cbv zeta. destruct (l_long (getl s r)); [|apply updl_elong].
  unfold remove_long_timeout. cbv zeta. destruct (aget (tlong _) _); rewrite updl_elong; cbn; apply updl_elong.
Qed.

Lemma kill_store s r l : aget (store s) r = Some l ->
  exists l', aget (store (kill s r)) r = Some l' /\ l_timeouted l' = true.
Proof.
  intros G. unfold kill. cbv zeta.
  assert (G1 : aget (store (updl s r (fun l0 => l0 <| l_timeouted := true |>))) r = Some (l <| l_timeouted := true |>)).
  { rewrite aget_updl, N.eqb_refl, G. reflexivity. }
  destruct (l_long (getl s r)); [|eauto].
  unfold remove_long_timeout. cbv zeta. destruct (aget (tlong _) _).
  - match goal with |- context [updl ?X r ?f] => assert (GX : aget (store X) r = Some (l <| l_timeouted := true |>)) by exact G1 end.
    eexists. split; [rewrite aget_updl, N.eqb_refl, GX; reflexivity|reflexivity].
  - eexists. split; [rewrite aget_updl, N.eqb_refl, G1; reflexivity|reflexivity].
Qed.

Lemma wake_grant_KL s k r via l :
  KL s -> aget (store s) r = Some l -> l_timeouted l = false -> cmd_core (l_cmd l) ->
  KL (fst (wake_grant s k r via)).
Proof.
  intros K G T Hc. rewrite wake_grant_state by (rewrite (getl_some _ _ _ G); exact Hc). cbv zeta.
  rewrite wg_pre_kill.
  pose proof (KL_kill s r l K G T) as K1.
  destruct (kill_store s r l G) as (l1 & G1 & T1).
  assert (NE : forall kk, ~ In r (wheel_get (elong (kill s r)) kk)).
  { intros kk. rewrite kill_elong. eapply KL_live_not_elong; eauto. }
  destruct (0 <? c_expried (l_cmd (getl s r))).
  - eapply KL_kfr; [|apply kfr_bump, kfr_refl]. unfold grant_core. cbv zeta.
    destruct (add_expried _ k r) as [s4 aev] eqn:E. cbn [fst].
    eapply KL_kfr; [eapply (KL_grant (kill s r) k r l1); eauto|kf].
  - eapply KL_kfr; [exact K1|]. apply kfr_bump. unfold wg_nohold.
    destruct (has_data_flag _); [|kf]. cbv zeta. destruct (_ && _); [apply kfr_push_lock_aof|]; kf.
Qed.

Lemma wake_iter_KL s xt xe k w : GInv s (gk xt xe k) -> w_key w = k -> KL s -> KL (fst (fst (wake_iter s w))).
Proof.
  intros G Hw K. unfold wake_iter. rewrite Hw. destruct (aget (mgrs s) k) as [m|] eqn:Hm; [|exact K].
  destruct (negb (m_waited m)); [exact K|].
  pose proof (get_wait_lock_ginv s (gk xt xe k) k G) as P.
  pose proof (kfr_get_wait_lock s s k (kfr_refl s)) as F.
  destruct (get_wait_lock s k) as [s1 wl]. destruct P as [G1 [LF [_ [_ [_ P4]]]]]; auto. cbn [fst] in F.
  pose proof (KL_kfr _ _ K F) as K1.
  destruct wl as [r|].
  - destruct P4 as [Hin [l [Hr Ht]]].
    destruct (negb (do_lock s1 k r)); [exact K1|].
    pose proof (wake_grant_KL s1 k r (w_conn w) l K1 Hr Ht (ro_cmd _ _ _ _ (gi_rec _ _ G1 r l Hr))) as A.
    destruct (wake_grant s1 k r (w_conn w)) as [s2 ev]. exact A.
  - cbn [fst]. eapply KL_kfr; [exact K1|kf].
Qed.

Lemma run_wake_KL fuel : forall s xt xe k w, GInv s (gk xt xe k) -> w_key w = k -> KL s -> KL (fst (run_wake fuel s w)).
Proof.
  induction fuel as [|f IH]; intros s xt xe k w G Hw K; simpl; [exact K|].
  pose proof (wake_iter_ginv s xt xe k w G Hw) as G1. pose proof (wake_iter_KL s xt xe k w G Hw K) as K1.
  destruct (wake_iter s w) as [[s' ev] [|]]; cbn [fst] in *; [exact K1|].
  specialize (IH s' xt xe k w G1 Hw K1). destruct (run_wake f s' w) as [s'' ev']. exact IH.
Qed.

Lemma finish_KL s ev w xt xe k : GInv s (gk xt xe k) -> (forall w0, w = Some w0 -> w_key w0 = k) -> KL s ->
  KL (fst (finish (s, ev, w))).
Proof.
  intros G Hw K. unfold finish. destruct w as [w0|]; [|exact K].
  pose proof (run_wake_KL (wake_fuel s (w_key w0)) s xt xe k w0 G (Hw w0 eq_refl) K) as P.
  destruct (run_wake (wake_fuel s (w_key w0)) s w0) as [s' ev']. exact P.
Qed.

(* ---------------------------------------------------------------- update / re-lock: UpdateLockedLock and re-arming *)
Lemma update_and_rearm_KL s k r c l :
  KL s -> aget (store s) r = Some l -> l_timeouted l = true -> l_expried l = false ->
  has (c_eflag c) EF_MILLISECOND = false ->
  KL (fst (update_and_rearm s k r c)).
Proof.
  intros K G T X Hms. unfold update_and_rearm. rewrite (getl_some _ _ _ G). cbv zeta.
  rewrite update_locked_lock_eq, (getl_some _ _ _ G).
  set (l1 := ull_rec s k r c l).
  destruct (ull_rec_fields s k r c l) as [F1 [F2 [F3 [F4 [F5 [F6 F7]]]]]]. fold l1 in F1, F2, F3, F4, F5, F6, F7.
  assert (X1 : l_expried l1 = false).
  { unfold l1, ull_rec. cbv zeta. repeat match goal with |- context [if ?b then _ else _] => destruct b end; cbn; exact X. }
  assert (G1 : aget (store (setl s r l1)) r = Some l1) by (rewrite aget_setl, N.eqb_refl; reflexivity).
  pose proof K as [K1 K2 K3].
  destruct (l_long l) eqn:L.
  - rewrite Hms. cbn [negb]. rewrite (getl_some _ _ _ G1).
    destruct (negb (l_eT l =? l_eT l1)%Z) eqn:Ene.
    + (* the entry moves: first out of its bucket ... *)
      set (s2 := remove_long_expried (setl s r l1) r (l_eT l)).
      assert (NT : forall kk, ~ In r (wheel_get (tlong s) kk)) by (intros kk; eapply KL_dead_not_tlong; eauto).
      assert (EL2 : forall kk x, In x (wheel_get (elong s2) kk) -> In x (wheel_get (elong s) kk) /\ (kk = lkey (l_eT l) -> x <> r)).
      { intros kk x I. apply remove_long_expried_elong in I. exact I. }
      assert (ST2 : forall x, x <> r -> aget (store s2) x = aget (store s) x).
      { intros x N. unfold s2. rewrite remove_long_expried_store. destruct (r =? x) eqn:E; [apply N.eqb_eq in E; congruence|].
        rewrite aget_setl, E. reflexivity. }
      assert (NE2 : forall kk, ~ In r (wheel_get (elong s2) kk)).
      { intros kk I. destruct (EL2 kk r I) as [I0 N]. destruct (K3 kk r l I0 G X) as [_ KK]. apply N; auto. }
      assert (K2' : KL s2).
      { constructor.
        - intros kk x lx I Gx. unfold s2 in I. rewrite remove_long_expried_tlong in I. change (tlong (setl s r l1)) with (tlong s) in I.
          destruct (N.eq_dec x r) as [->|N]; [exfalso; eapply NT; eauto|]. rewrite ST2 in Gx by auto. eauto.
        - intros kk x lx I Gx. destruct (N.eq_dec x r) as [->|N]; [exfalso; eapply NE2; eauto|].
          rewrite ST2 in Gx by auto. destruct (EL2 kk x I). eauto.
        - intros kk x lx I Gx. destruct (N.eq_dec x r) as [->|N]; [exfalso; eapply NE2; eauto|].
          rewrite ST2 in Gx by auto. destruct (EL2 kk x I). eauto. }
      assert (T2 : forall l', aget (store s2) r = Some l' -> l_timeouted l' = true).
      { intros l' G'. unfold s2 in G'. rewrite remove_long_expried_store, N.eqb_refl, G1 in G'. cbn in G'. injection G' as <-.
        destruct (aget (elong s) (lkey (l_eT l))); change (l_timeouted l1 = true); congruence. }
      pose proof (KL_add_expried s2 k r K2' NE2 T2) as A.
      destruct (add_expried s2 k r) as [s3 ev]. cbn [fst] in *. eapply KL_kfr; [exact A|kf].
    + cbn [fst]. apply negb_false_iff, Z.eqb_eq in Ene.
      apply (KL_setl_dead s r l l1 K G T); [congruence|]. right. repeat split; congruence.
  - cbn [fst].
    assert (NE : forall kk, ~ In r (wheel_get (elong s) kk)).
    { intros kk I. destruct (K3 kk r l I G X) as [KK _]. congruence. }
    apply KL_setl_out; auto. intros kk. eapply KL_dead_not_tlong; eauto.
Qed.

Lemma update_and_rearm_KL_eq s k r c l s2 aev :
  update_and_rearm s k r c = (s2, aev) ->
  KL s -> aget (store s) r = Some l -> l_timeouted l = true -> l_expried l = false ->
  has (c_eflag c) EF_MILLISECOND = false -> KL s2.
Proof. intros E K G T X Hms. pose proof (update_and_rearm_KL s k r c l K G T X Hms) as A. rewrite E in A. exact A. Qed.

(* ---------------------------------------------------------------- LockDB.Lock: the held phase *)
Definition XL (s : db) : Prop := forall r l, aget (store s) r = Some l -> l_expried l = true -> l_locked l = 0.

Lemma some_inj {A} (a b : A) : Some a = Some b -> a = b.
Proof. intros H. inversion H. reflexivity. Qed.
Ltac some_subst := repeat match goal with H : Some _ = Some ?v |- _ => is_var v; apply some_inj in H; subst v end.

Lemma ls_update_KL s conn c1 k m r l ld res c' w :
  ls_update s conn c1 k m r l ld = (Some res, c', w) ->
  KL s -> aget (store s) r = Some l -> l_timeouted l = true -> l_expried l = false -> cmd_core c1 ->
  KL (fst (fst res)).
Proof.
  intros H K G T X (C1 & C2 & C3 & C4). unfold ls_update in H. cbv zeta in H.
  rewrite (process_data_core _ _ _ _ _ C4) in H.
  repeat (split_hyp H); inv_tuple H; some_subst; cbn [fst]; try exact K.
  all: match goal with E : update_and_rearm _ _ _ _ = (?y, _) |- _ =>
         pose proof (update_and_rearm_KL_eq _ _ _ _ _ _ _ E K G T X C3) as KY end.
  all: eapply KL_kfr; [exact KY|kf].
Qed.

Lemma ls_relock_KL s conn c1 k m r l ld res c' w :
  ls_relock s conn c1 k m r l ld = (Some res, c', w) ->
  KL s -> aget (store s) r = Some l -> l_timeouted l = true -> l_expried l = false -> cmd_core c1 ->
  KL (fst (fst res)).
Proof.
  intros H K G T X (C1 & C2 & C3 & C4). unfold ls_relock in H. cbv zeta in H.
  rewrite ?(process_data_core _ _ _ _ _ C4) in H.
  set (s1 := updl (updm s k (fun m0 => m0 <| m_locked := add32 (m_locked m0) 1 |>)) r (fun l0 => l0 <| l_locked := add8 (l_locked l0) 1 |>)) in *.
  assert (K1 : KL s1) by (eapply KL_kfr; [exact K|unfold s1; kf]).
  assert (G1 : aget (store s1) r = Some (l <| l_locked := add8 (l_locked l) 1 |>)).
  { unfold s1. rewrite aget_updl, N.eqb_refl, (tview_store _ _ (updm_tview _ _ _)), G. reflexivity. }
  clearbody s1.
  repeat (split_hyp H); inv_tuple H; some_subst; cbn [fst]; try exact K.
  all: match goal with E : update_and_rearm _ _ _ _ = (?y, _) |- _ =>
         pose proof (update_and_rearm_KL_eq _ _ _ _ _ _ _ E K1 G1 T X C3) as KY end.
  all: eapply KL_kfr; [exact KY|kf].
Qed.

Lemma ls_held_KL s xt xe conn c k m res c' w :
  GInv s (gk xt xe k) -> aget (mgrs s) k = Some m -> cmd_core c -> KL s -> XL s ->
  ls_held s conn c k m = (Some res, c', w) -> KL (fst (fst res)).
Proof.
  intros G Hm Hc K HX H. rewrite ls_held_eq in H.
  destruct (0 <? m_locked m).
  - cbv zeta in H.
    set (curl := getl s match m_cur m with Some cr => cr | None => 0 end) in *.
    set (c1 := if has (c_flag c) LOCK_FLAG_SHOW then c <| c_lockid := c_lockid (l_cmd curl) |> else c) in *.
    assert (Hc1 : cmd_core c1) by (unfold c1; destruct (has (c_flag c) LOCK_FLAG_SHOW); [apply cmd_core_lockid|]; auto).
    clearbody c1.
    destruct (has (c_flag c) LOCK_FLAG_SHOW && negb (has (c_flag c) LOCK_FLAG_UPDATE)); [inv_tuple H; some_subst; exact K|].
    destruct (get_locked_lock s m (c_lockid c1)) as [r|] eqn:Eg; [|discriminate].
    destruct (get_locked_lock_spec s xt xe k m _ r G Hm Eg) as [l [Hr [Hkey [Hd [Hid [Ht Hh]]]]]].
    rewrite (getl_some _ _ _ Hr) in H.
    assert (X : l_expried l = false).
    { destruct (l_expried l) eqn:E; auto. pose proof (HX r l Hr E). lia. }
    destruct (negb (l_ack l =? 255)); [inv_tuple H; some_subst; exact K|].
    destruct (has (c_flag c1) LOCK_FLAG_UPDATE); [eapply ls_update_KL; eauto|].
    destruct ((l_locked l <? 255) && (l_locked l <=? c_rcount c1) && negb (has (c_tflag c1) TF_PRIORITY));
      [eapply ls_relock_KL; eauto|inv_tuple H; some_subst; exact K].
  - destruct (has (c_tflag c) TF_WAIT_WHEN_UNLOCK); [destruct (m_waited m && (c_count c =? 0))|];
      try discriminate; inv_tuple H; some_subst; exact K.
Qed.

(* ---------------------------------------------------------------- LockDB.Lock: the new record *)
Lemma ls_tail_KL s xt xe conn c k waited m :
  GInv s (gk xt xe k) -> cmd_core c -> aget (mgrs s) k = Some m -> next s < MAXREC -> KL s ->
  KL (fst (fst (ls_tail s conn c k waited))).
Proof.
  intros G Hc Hm Hb K. set (g := gk xt xe k) in *.
  destruct (new_lock_ginv s g k conn c m G Hm eq_refl eq_refl Hb Hc) as [Enl G1].
  destruct (fresh_zero s g (next s) G (N.le_refl _)) as [Fn [Fte [Fph Fl]]].
  assert (NT : forall kk, ~ In (next s) (wheel_get (tlong s) kk)).
  { intros kk. apply not_in_wrefs. unfold tcount in Fte. lia. }
  assert (NE : forall kk, ~ In (next s) (wheel_get (elong s) kk)).
  { intros kk. apply not_in_wrefs. unfold ecount in Fte. lia. }
  pose proof (KL_new_lock s k conn c K NT NE) as K1.
  unfold ls_tail. rewrite Enl in *. cbn [fst] in G1, K1.
  set (r := next s) in *. set (l0 := fresh_rec s k conn c) in *.
  match goal with |- context [updm ?S k ?f] => set (s1 := updm S k f) in * end.
  assert (Hr1 : aget (store s1) r = Some l0).
  { unfold s1. rewrite (tview_store _ _ (updm_tview _ _ _)). cbn. apply aget_aset_same. }
  assert (T0 : l_timeouted l0 = true) by reflexivity.
  assert (ET1 : tlong s1 = tlong s /\ elong s1 = elong s).
  { unfold s1. rewrite updm_tlong, updm_elong. split; reflexivity. }
  destruct ET1 as [ET1 EE1].
  assert (NT1 : forall kk, ~ In r (wheel_get (tlong s1) kk)) by (rewrite ET1; exact NT).
  assert (NE1 : forall kk, ~ In r (wheel_get (elong s1) kk)) by (rewrite EE1; exact NE).
  clearbody s1. cbv zeta.
  destruct Hc as [C1 [C2 [C3 C4]]].
  destruct ((negb waited || has (c_tflag c) TF_PRIORITY && check_wait_priority s1 k c) && do_lock s1 k r).
  - destruct (0 <? c_expried c).
    + rewrite C1. cbn [andb]. rewrite C3.
      destruct (has_data_flag c); rewrite ?(process_data_core _ _ _ _ _ C4); cbv iota beta;
        destruct (add_expried _ k r) as [s4 aev] eqn:E; cbn [fst];
        (eapply KL_kfr; [eapply (KL_grant s1 k r l0); eauto|kf]).
    + destruct (has_data_flag c).
      * rewrite (process_data_core _ _ _ _ _ C4). cbv iota beta.
        destruct (_ && _).
        -- destruct (push_lock_aof s1 k r 0) as [s2 aev] eqn:E2. cbn [fst]. eapply KL_kfr; [exact K1|kf].
        -- cbn [fst]. eapply KL_kfr; [exact K1|kf].
      * cbn [fst]. eapply KL_kfr; [exact K1|kf].
  - destruct ((0 <? c_timeout c) && (negb (has (c_tflag c) TF_TIMEOUT_WHEN_DATA) || match data_of s1 k with None => true | Some _ => false end)).
    + rewrite C2. cbn [fst].
      pose proof (kfr_add_wait_lock s1 s1 k r (kfr_refl s1)) as (F1 & F2 & F3).
      eapply KL_kfr; [apply KL_add_timeout|kf].
      * eapply KL_kfr; [exact K1|apply kfr_add_wait_lock, kfr_refl].
      * rewrite F1. exact NT1.
      * rewrite F2. exact NE1.
    + cbn [fst]. eapply KL_kfr; [exact K1|kf].
Qed.

Lemma ls_held_new_mgr s conn c k res c' w : ls_held s conn c k new_mgr = (Some res, c', w) -> False.
Proof.
  rewrite ls_held_eq. change (0 <? m_locked new_mgr) with false. cbv iota. change (m_waited new_mgr) with false. cbn [andb].
  destruct (has (c_tflag c) TF_WAIT_WHEN_UNLOCK); intros H; inversion H.
Qed.

Lemma XL_kfr_mgr s k : XL s -> XL (ls_mgr s k).
Proof. intros H. unfold ls_mgr. destruct (aget (mgrs s) k); auto. Qed.

Lemma lock_step_KL s xt xe conn c :
  GInv s (gk xt xe (c_key c)) -> cmd_core c -> next s < MAXREC -> KL s -> XL s -> KL (fst (fst (lock_step s conn c))).
Proof.
  intros G Hc Hb K HX. rewrite lock_step_eq. cbv zeta. set (k := c_key c) in *.
  destruct (ls_pre s conn c k); [exact K|].
  assert (Hmgr : GInv (ls_mgr s k) (gk xt xe k) /\ next (ls_mgr s k) = next s /\ KL (ls_mgr s k)
                 /\ exists m, aget (mgrs (ls_mgr s k)) k = Some m).
  { unfold ls_mgr. destruct (aget (mgrs s) k) as [m|] eqn:Hm.
    - split; [auto|]. split; [auto|]. split; [auto|]. eauto.
    - split; [apply new_mgr_ginv; auto|]. split; [reflexivity|]. split; [eapply KL_kfr; [exact K|kf]|].
      exists new_mgr. change (mgrs (bump _ (setm s k new_mgr))) with (aset (mgrs s) k new_mgr). apply aget_aset_same. }
  destruct Hmgr as [G1 [N1 [K1 [m Hm]]]]. pose proof (XL_kfr_mgr s k HX) as HX1. set (s1 := ls_mgr s k) in *.
  destruct (negb (leader s1) && negb (has (c_flag c) LOCK_FLAG_FROM_AOF)).
  - cbn [fst]. eapply KL_kfr; [exact K1|kf].
  - rewrite (getm_some _ _ _ Hm).
    assert (Hb1 : next s1 < MAXREC) by (rewrite N1; auto).
    pose proof (ls_held_ginv s1 xt xe conn c k m G1 Hm Hc Hb1) as P.
    destruct (ls_held s1 conn c k m) as [[[res|] c'] w] eqn:Eh.
    + eapply ls_held_KL; eauto.
    + apply (ls_tail_KL s1 xt xe conn c' k w m G1 P Hm Hb1 K1).
Qed.
