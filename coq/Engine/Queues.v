(* Lock-engine model, part 1: store access, FreeLock, per-key holder / wait queues (server/lock.go:198-534, 564-870). *)
From Coq Require Import String.
From Slock Require Import Engine.Types.
Open Scope N_scope.

(* ---------------------------------------------------------------- store *)
Definition getl (s : db) (r : ref) : lockrec :=
  match aget (store s) r with Some l => l | None => dummy_lock end.
Definition setl (s : db) (r : ref) (l : lockrec) : db := s <| store := aset (store s) r l |>.
Definition updl (s : db) (r : ref) (f : lockrec -> lockrec) : db :=
  match aget (store s) r with Some l => setl s r (f l) | None => s end.

Definition getm (s : db) (k : N) : mgr :=
  match aget (mgrs s) k with Some m => m | None => new_mgr end.
Definition setm (s : db) (k : N) (m : mgr) : db := s <| mgrs := aset (mgrs s) k m |>.
Definition updm (s : db) (k : N) (f : mgr -> mgr) : db :=
  match aget (mgrs s) k with Some m => setm s k (f m) | None => s end.

Definition updc (s : db) (f : counters -> counters) : db := s <| cnt := f (cnt s) |>.

(* LockManager.FreeLock: the record leaves the store, the manager loses one reference.
   (Go pushes the object on the free list and GetOrNewLock re-initialises every field: recycling is modelled
   as fresh allocation.) *)
Definition free_lock (s : db) (r : ref) : db :=
  match aget (store s) r with
  | None => s
  | Some l =>
      let s := s <| store := adel (store s) r |> in
      updm s (l_key l) (fun m => m <| m_ref := dec32 (m_ref m) |>)
  end.

(* refCount--; if 0 FreeLock *)
Definition unref (s : db) (r : ref) : db :=
  match aget (store s) r with
  | None => s
  | Some l =>
      let c := dec8 (l_refc l) in
      let s := setl s r (l <| l_refc := c |>) in
      if c =? 0 then free_lock s r else s
  end.

(* LockDB.RemoveLockManager when refCount = 0: key leaves the table, value and queues are reset, KeyCount-- *)
Definition remove_mgr_if_unref (s : db) (k : N) : db :=
  match aget (mgrs s) k with
  | None => s
  | Some m => if m_ref m =? 0
              then updc (s <| mgrs := adel (mgrs s) k |>) (fun c => c <| n_key := (n_key c - 1)%Z |>)
              else s
  end.

(* Capacity after `append` on a full pointer slice, as the Go runtime of this toolchain (go1.26, 64-bit) computes
   it: doubling below 256 elements, then rounded to the allocator's size class; allocations above 512 bytes that
   contain pointers carry an 8-byte malloc header (96 -> 111, 128 -> 143, 222 -> 223). Trusted modelling
   assumption about the runtime; the correspondence check observes cap() after every step. *)
Definition grow_cap (c : N) : N :=
  if c =? 48 then 111 else if c =? 111 then 223 else if c =? 64 then 143 else 2 * c.

(* ---------------------------------------------------------------- holder queue: LockManagerLockQueue *)
Definition hq_len (q : hqueue) : N := hq_fidx q + N.of_nat (length (hq_fast q)).

(* compaction loop of Push: entries with locked > 0 are kept, others lose their queue reference *)
Fixpoint hq_compact (s : db) (items : list ref) : db * list ref :=
  match items with
  | [] => (s, [])
  | r :: rest =>
      if 0 <? l_locked (getl s r)
      then let '(s', kept) := hq_compact s rest in (s', r :: kept)
      else hq_compact (unref s r) rest
  end.

Definition hq_push (s : db) (q : hqueue) (r : ref) : db * hqueue :=
  match hq_scale q with
  | Some (items, mp) =>
      (s, q <| hq_scale := Some (items ++ [r], aset mp (c_lockid (l_cmd (getl s r))) r) |>)
  | None =>
      if hq_cap q =? 0 then (s, q <| hq_cap := 6 |> <| hq_fast := [r] |> <| hq_fidx := 0 |>)
      else if hq_len q <? hq_cap q then (s, q <| hq_fast := hq_fast q ++ [r] |>)
      else match hq_fast q with
           | [] => (s, q <| hq_fast := [r] |> <| hq_fidx := 0 |>)
           | _ =>
               let '(s', kept) := hq_compact s (hq_fast q) in
               if N.of_nat (length kept) <? hq_len q
               then (s', q <| hq_fast := kept ++ [r] |> <| hq_fidx := 0 |>)
               else if hq_cap q <=? 128
                    then (s', q <| hq_fast := kept ++ [r] |> <| hq_cap := grow_cap (hq_cap q) |>)
                    else (s', q <| hq_scale := Some ([r], aset [] (c_lockid (l_cmd (getl s r))) r) |>)
           end
  end.

Definition hq_head (q : hqueue) : option ref :=
  match hq_fast q with
  | r :: _ => Some r
  | [] => match hq_scale q with Some (r :: _, _) => Some r | _ => None end
  end.

Definition hq_pop (q : hqueue) : option ref * hqueue :=
  match hq_fast q with
  | r :: rest => (Some r, q <| hq_fast := rest |> <| hq_fidx := hq_fidx q + 1 |>)
  | [] => match hq_scale q with
          | Some (r :: rest, mp) => (Some r, q <| hq_scale := Some (rest, mp) |>)
          | _ => (None, q)
          end
  end.

Fixpoint find_locked (s : db) (items : list ref) (lockid : N) : option ref :=
  match items with
  | [] => None
  | r :: rest => let l := getl s r in
                 if (0 <? l_locked l) && (c_lockid (l_cmd l) =? lockid) then Some r else find_locked s rest lockid
  end.

Definition hq_getlock (s : db) (q : hqueue) (lockid : N) : option ref :=
  match find_locked s (hq_fast q) lockid with
  | Some r => Some r
  | None => match hq_scale q with Some (_, mp) => aget mp lockid | None => None end
  end.

Definition hq_removelock (q : hqueue) (lockid : N) : hqueue :=
  match hq_scale q with
  | Some (items, mp) => q <| hq_scale := Some (items, adel mp lockid) |>
  | None => q
  end.

(* LockManager.GetLockedLock *)
Definition get_locked_lock (s : db) (m : mgr) (lockid : N) : option ref :=
  match m_cur m with
  | None => None          (* Go would dereference nil; unreachable while locked > 0 (invariant) *)
  | Some c =>
      if c_lockid (l_cmd (getl s c)) =? lockid then Some c
      else match m_locks m with
           | None => None
           | Some q => hq_getlock s q lockid
           end
  end.

(* pop loop of RemoveLock when the current lock was removed: promote the first live holder *)
Fixpoint promote (fuel : nat) (s : db) (q : hqueue) : db * hqueue * option ref :=
  match fuel with
  | O => (s, q, None)
  | S f =>
      match hq_pop q with
      | (None, q') => (s, q', None)
      | (Some r, q') =>
          if 0 <? l_locked (getl s r)
          then (s, hq_removelock q' (c_lockid (l_cmd (getl s r))), Some r)
          else promote f (unref s r) q'
      end
  end.

(* Head/Pop loop of RemoveLock when another holder was removed: drop leading tombstones *)
Fixpoint drop_dead_heads (fuel : nat) (s : db) (q : hqueue) : db * hqueue :=
  match fuel with
  | O => (s, q)
  | S f =>
      match hq_head q with
      | None => (s, q)
      | Some r =>
          if 0 <? l_locked (getl s r) then (s, q)
          else let '(_, q') := hq_pop q in drop_dead_heads f (unref s r) q'
      end
  end.

Definition hq_size (q : hqueue) : nat :=
  length (hq_fast q) + match hq_scale q with Some (l, _) => length l | None => 0 end.

(* LockManager.RemoveLock *)
Definition remove_lock (s : db) (k : N) (r : ref) : db :=
  let s := updl s r (fun l => l <| l_locked := 0 |> <| l_ack := 255 |>) in
  let m := getm s k in
  let lockid := c_lockid (l_cmd (getl s r)) in
  if match m_cur m with Some c => c =? r | None => false end then
    let s := updl s r (fun l => l <| l_refc := dec8 (l_refc l) |>) in
    match m_locks m with
    | None => updm s k (fun m => m <| m_cur := None |>)
    | Some q =>
        let '(s', q', nc) := promote (S (hq_size q)) s q in
        updm s' k (fun m => m <| m_cur := nc |> <| m_locks := Some q' |>)
    end
  else
    match m_locks m with
    | None => s
    | Some q =>
        let q := hq_removelock q lockid in
        let '(s', q') := drop_dead_heads (S (hq_size q)) s q in
        updm s' k (fun m => m <| m_locks := Some q' |>)
    end.

(* ---------------------------------------------------------------- wait queue: LockManagerWaitQueue *)
Definition prio_of (c : cmd) : N := if has (c_tflag c) TF_PRIORITY then c_rcount c else 0.
Definition wq_len (q : wqueue) : N := wq_fidx q + N.of_nat (length (wq_fast q)).
Definition wq_items (q : wqueue) : list ref := wq_fast q ++ wq_ring q.

Definition dead_waiter (l : lockrec) : bool := l_timeouted l || negb (l_ack l =? 255).

Fixpoint wq_compact (s : db) (items : list ref) : db * list ref :=
  match items with
  | [] => (s, [])
  | r :: rest =>
      if dead_waiter (getl s r)
      then wq_compact (unref s r) rest
      else let '(s', kept) := wq_compact s rest in (s', r :: kept)
  end.

(* stable insertion: after every element of priority >= p *)
Fixpoint prio_insert (s : db) (items : list ref) (r : ref) (p : N) : list ref :=
  match items with
  | [] => [r]
  | x :: rest => if prio_of (l_cmd (getl s x)) <? p then r :: items else x :: prio_insert s rest r p
  end.

Definition wq_push (s : db) (q : wqueue) (r : ref) : db * wqueue :=
  match wq_mode q with
  | WRing => (s, q <| wq_ring := wq_ring q ++ [r] |>)
  | WPrio => (s, q <| wq_ring := prio_insert s (wq_ring q) r (prio_of (l_cmd (getl s r))) |>)
  | WFast =>
      if wq_cap q =? 0 then (s, q <| wq_cap := 8 |> <| wq_fast := [r] |> <| wq_fidx := 0 |>)
      else if wq_len q <? wq_cap q then (s, q <| wq_fast := wq_fast q ++ [r] |>)
      else match wq_fast q with
           | [] => (s, q <| wq_fast := [r] |> <| wq_fidx := 0 |>)
           | _ =>
               let '(s', kept) := wq_compact s (wq_fast q) in
               if N.of_nat (length kept) <? wq_len q
               then (s', q <| wq_fast := kept ++ [r] |> <| wq_fidx := 0 |>)
               else if wq_cap q <=? 128
                    then (s', q <| wq_fast := kept ++ [r] |> <| wq_cap := grow_cap (wq_cap q) |>)
                    else (s', q <| wq_mode := WRing |> <| wq_ring := [r] |>)
           end
  end.

Definition wq_head (q : wqueue) : option ref :=
  match wq_fast q with
  | r :: _ => Some r
  | [] => match wq_ring q with r :: _ => Some r | [] => None end
  end.

Definition wq_pop (q : wqueue) : wqueue :=
  match wq_fast q with
  | _ :: rest => q <| wq_fast := rest |> <| wq_fidx := wq_fidx q + 1 |>
  | [] => match wq_ring q with _ :: rest => q <| wq_ring := rest |> | [] => q end
  end.

Definition wq_maxprio (s : db) (q : wqueue) : N :=
  match wq_head q with Some r => prio_of (l_cmd (getl s r)) | None => 0 end.

(* RePushPriorityRingQueue *)
Definition wq_repush (s : db) (q : wqueue) : wqueue :=
  match wq_mode q with
  | WPrio => q
  | _ =>
      let ring := fold_left (fun acc r => prio_insert s acc r (prio_of (l_cmd (getl s r)))) (wq_items q) [] in
      q <| wq_fast := [] |> <| wq_fidx := 0 |> <| wq_ring := ring |> <| wq_mode := WPrio |>
  end.

(* LockManager.AddWaitLock *)
Definition add_wait_lock (s : db) (k : N) (r : ref) : db :=
  let m := getm s k in
  let q := match m_wait m with
           | None => wq_empty
           | Some q =>
               if m_waited m && negb (match wq_mode q with WPrio => true | _ => false end)
               then match wq_head q with
                    | Some _ => if prio_of (l_cmd (getl s r)) =? wq_maxprio s q then q else wq_repush s q
                    | None => q
                    end
               else q
           end in
  let '(s, q) := wq_push s q r in
  let s := updl s r (fun l => l <| l_refc := add8 (l_refc l) 1 |>) in
  updm s k (fun m => m <| m_wait := Some q |> <| m_waited := true |>).

(* LockManager.GetWaitLock: pop dead heads, return the first live waiter *)
Fixpoint get_wait_loop (fuel : nat) (s : db) (q : wqueue) : db * wqueue * option ref :=
  match fuel with
  | O => (s, q, None)
  | S f =>
      match wq_head q with
      | None => (s, q, None)
      | Some r =>
          if dead_waiter (getl s r) then get_wait_loop f (unref s r) (wq_pop q) else (s, q, Some r)
      end
  end.

Definition get_wait_lock (s : db) (k : N) : db * option ref :=
  match m_wait (getm s k) with
  | None => (s, None)
  | Some q =>
      let '(s', q', r) := get_wait_loop (S (length (wq_items q))) s q in
      (updm s' k (fun m => m <| m_wait := Some q' |>), r)
  end.
