(* Reply exactness, part 1: LockDB.Lock (lock_step).  Which state the counters of each reply are read from.
   Every db value, every request; no reachability invariant. *)
From Coq Require Import String ZifyN ZifyBool.
From Slock Require Import Engine.Types Engine.Queues Engine.Timers Engine.Engine Engine.Engine2 Engine.LocalBase
  Engine.InvLockDefs Engine.RunReplyBase.
Open Scope N_scope.

(* a SUCCED reply to a request with Expried > 0 is a grant (new hold or one more level of an existing hold) *)
Definition granted (res ex : N) : bool := (res =? R_SUCCED) && (0 <? ex).

(* the hold a Lock request addresses when the key is held: the holder with the request's LockId; with the show flag
   the current (oldest) holder *)
Definition lock_addr (s : db) (c : cmd) : option ref :=
  let m := getm s (c_key c) in
  if 0 <? m_locked m then
    let cur := match m_cur m with Some cr => cr | None => 0 end in
    if has (c_flag c) LOCK_FLAG_SHOW then
      if has (c_flag c) LOCK_FLAG_UPDATE then get_locked_lock s m (c_lockid (l_cmd (getl s cur))) else Some cur
    else get_locked_lock s m (c_lockid c)
  else None.

(* the statement about one reply of Lock: s = state before, s' = state returned by the critical section,
   k = key, ex = Expried of the request, addr = the addressed hold *)
Definition lro (s : db) (k ex : N) (addr : option ref) (s' : db) (e : event) : Prop :=
  match e with
  | EReply _ _ res lc lrc _ _ _ _ =>
      (* LCount from the pre-state: `locked` of the key, plus one if this reply is a grant *)
      lc = u16 (if granted res ex then add32 (mlk s k) 1 else mlk s k)
      (* LCount from the post-state: `locked` of the key, unless this call removed the key's manager *)
      /\ (lc = u16 (mlk s' k)
          \/ (aget (mgrs s') k = None /\ (res = R_STATE_ERROR \/ res = R_TIMEOUT \/ (res = R_SUCCED /\ (0 <? ex) = false))))
      (* LRCount *)
      /\ (if (res =? R_TIMEOUT) || (res =? R_STATE_ERROR) then lrc = 0
          else match addr with
               | Some r => lrc = dep s' r
                           /\ dep s' r = (if granted res ex then (if pres s r then add8 (dep s r) 1 else 0) else dep s r)
               | None => lrc = (if granted res ex then 1 else 0) /\ (res = R_SUCCED -> lrc = dep s' (next s))
               end)
  | _ => True
  end.

Definition lock_reply_ok (s : db) (c : cmd) (s' : db) (e : event) : Prop :=
  lro s (c_key c) (c_expried c) (lock_addr s c) s' e.

Lemma lro_norep s k ex addr s' e : norep e -> lro s k ex addr s' e.
Proof. destruct e; simpl; auto; contradiction. Qed.

Lemma lro_intro s k ex addr s' conn c res X Y d :
  X = (if granted res ex then add32 (mlk s k) 1 else mlk s k) ->
  (X = mlk s' k \/ (aget (mgrs s') k = None /\ (res = R_STATE_ERROR \/ res = R_TIMEOUT \/ (res = R_SUCCED /\ (0 <? ex) = false)))) ->
  (if (res =? R_TIMEOUT) || (res =? R_STATE_ERROR) then Y = 0
   else match addr with
        | Some r => Y = dep s' r
                    /\ dep s' r = (if granted res ex then (if pres s r then add8 (dep s r) 1 else 0) else dep s r)
        | None => Y = (if granted res ex then 1 else 0) /\ (res = R_SUCCED -> Y = dep s' (next s))
        end) ->
  lro s k ex addr s' (reply conn c res X Y d).
Proof.
  intros H1 H2 H3. unfold lro, reply. split; [rewrite H1; reflexivity|]. split; [|exact H3].
  destruct H2 as [H2|H2]; [left; rewrite H2; reflexivity|right; exact H2].
Qed.

(* evaluate the tests on a literal result code *)
Ltac resc :=
  repeat match goal with
  | |- context [(?a =? R_TIMEOUT) || (?a =? R_STATE_ERROR)] =>
      let b := eval vm_compute in ((a =? R_TIMEOUT) || (a =? R_STATE_ERROR)) in
      change ((a =? R_TIMEOUT) || (a =? R_STATE_ERROR)) with b
  | |- context [granted ?a ?ex] =>
      let b := eval vm_compute in (a =? R_SUCCED) in
      match b with
      | true => change (granted a ex) with (0 <? ex)
      | false => change (granted a ex) with false
      end
  end; cbv iota.

Lemma eqb0_ltb a : (a =? 0) = false -> (0 <? a) = true.
Proof. intros H. apply N.eqb_neq in H. apply N.ltb_lt. lia. Qed.
Lemma eqb0_ltb' a : (a =? 0) = true -> (0 <? a) = false.
Proof. intros H. apply N.eqb_eq in H. subst. reflexivity. Qed.

(* chains *)
Lemma mlk_chain_inc s U S k :
  mfr (updm U k (fun m => m <| m_locked := add32 (m_locked m) 1 |>)) S -> mfr s U -> aget (mgrs s) k <> None ->
  mlk S k = add32 (mlk s k) 1.
Proof.
  intros H1 H2 Hk. rewrite (mfr_mlk _ _ k H1).
  rewrite (mlk_updm_locked U k (fun x => add32 x 1)); [|eapply mfr_has; eauto].
  rewrite (mfr_mlk _ _ k H2). reflexivity.
Qed.

Lemma dep_chain_add x k r g S : deq (updm (add_lock x k r) k g) S -> dep S r = 1.
Proof.
  intros H. rewrite (H r). unfold dep. rewrite getl_updm. fold (dep (add_lock x k r) r).
  rewrite dep_add_lock, N.eqb_refl. reflexivity.
Qed.

(* ------------------------------------------------------------------ the tail: a new record *)
Lemma ls_tail_counts s conn c k waited s' ev w :
  ls_tail s conn c k waited = (s', ev, w) -> aget (mgrs s) k <> None ->
  Forall (lro s k (c_expried c) None s') ev.
Proof.
  intros H Hk. unfold ls_tail in H.
  destruct (new_lock s k conn c) as [s1 r] eqn:En.
  destruct (new_lock_facts _ _ _ _ _ _ En) as (Hr & Hd0 & Hp & Hc & Hm & Hoth).
  cbv beta iota zeta in H.
  assert (HN : forall e, norep e -> lro s k (c_expried c) None s' e) by (intros e; apply lro_norep).
  Time repeat (split_hyp H); inv_tuple H; nr_solve HN.
  all: fold_counts; apply lro_intro; resc;
    match goal with A : (0 <? c_expried _) = _ |- _ => rewrite ?A | _ => idtac end.
  (* new hold: both counters are those of the post-state *)
  all: try solve [eapply mlk_chain_inc; [mf|mf|exact Hk]].
  all: try solve [left; reflexivity].
  all: try solve [match goal with |- ?Y = 1 /\ _ => assert (D : Y = 1) by (eapply dep_chain_add; dq) end;
                  (split; [exact D|intros _; rewrite <- Hr; reflexivity])].
  (* Expried = 0 and TIMEOUT: the record is freed, the manager possibly removed *)
  all: try solve [apply mfr_mlk; mf].
  all: try match goal with |- mlk ?F ?kk = _ \/ _ =>
         destruct (mlk_remove_mgr F kk) as [E|E]; [left; symmetry; exact E|right; split; [exact E|]] end.
  all: try solve [right; right; split; reflexivity | right; left; reflexivity].
  all: try exact Hd0.
  all: match goal with |- dep ?S ?rr = 0 /\ _ => assert (D : dep S rr = 0) by (rewrite <- Hd0; apply deq_at; dq) end.
  all: split; [exact D|intros _; rewrite D, <- Hr; strip_bump; symmetry; apply dep_freed].
Qed.

(* ------------------------------------------------------------------ the key is held: the addressed hold was found *)
Definition ls_found (s : db) (conn : N) (c1 : cmd) (k : N) (m : mgr) (r : ref)
  : option (db * list event * option wake) * cmd * bool :=
  let l := getl s r in
  if negb (l_ack l =? 255) then
    (Some (s, [reply conn c1 R_ACK_WAITING (m_locked m) (l_locked l) (data_of s k)], None), c1, m_waited m)
  else
  let ldata := data_of s k in
  if has (c_flag c1) LOCK_FLAG_UPDATE then ls_update s conn c1 k m r l ldata
  else if (l_locked l <? 255) && (l_locked l <=? c_rcount c1) && negb (has (c_tflag c1) TF_PRIORITY) then
    ls_relock s conn c1 k m r l ldata
  else (Some (s, [reply conn c1 R_LOCKED_ERROR (m_locked m) (l_locked l) ldata], None), c1, m_waited m).

Lemma ls_held_eq2 s conn c k m :
  ls_held s conn c k m =
    if 0 <? m_locked m then
      let cur := match m_cur m with Some cr => cr | None => 0 end in
      let curl := getl s cur in
      let show := has (c_flag c) LOCK_FLAG_SHOW in
      let c1 := if show then c <| c_lockid := c_lockid (l_cmd curl) |> else c in
      if show && negb (has (c_flag c) LOCK_FLAG_UPDATE) then
        let cc := l_cmd curl in
        let c2 := c1 <| c_timeout := c_timeout cc |> <| c_tflag := c_tflag cc |> <| c_expried := c_expried cc |>
                     <| c_eflag := c_eflag cc |> <| c_count := c_count cc |> <| c_rcount := c_rcount cc |> in
        (Some (s, [reply conn c2 R_UNOWN_ERROR (m_locked m) (l_locked curl) (data_of s k)], None), c1, m_waited m)
      else
      match get_locked_lock s m (c_lockid c1) with
      | Some r => ls_found s conn c1 k m r
      | None => (None, c1, m_waited m)
      end
    else
      if has (c_tflag c) TF_WAIT_WHEN_UNLOCK then
        if m_waited m && (c_count c =? 0)
        then (Some (s, [reply conn c R_UNOWN_ERROR (m_locked m) 0 (data_of s k)], None), c, true)
        else (None, c, true)
      else (None, c, false).
Proof. reflexivity. Qed.

Lemma ls_found_counts s conn c1 k m r o c' wd :
  ls_found s conn c1 k m r = (o, c', wd) -> m = getm s k -> aget (mgrs s) k <> None ->
  c' = c1 /\ exists s' ev w, o = Some (s', ev, w) /\ Forall (lro s k (c_expried c1) (Some r) s') ev.
Proof.
  intros H Hm Hk. subst m. unfold ls_found, ls_update, ls_relock in H. cbv beta iota zeta in H.
  Time repeat (split_hyp H); inv_tuple H.
  all: split; [reflexivity|]; do 3 eexists; (split; [reflexivity|]).
  all: match goal with |- Forall (lro ?s0 ?k0 ?ex ?a ?s1) _ =>
         assert (HN : forall e, norep e -> lro s0 k0 ex a s1 e) by (intros e; apply lro_norep) end.
  all: nr_solve HN.
  all: fold_counts; apply lro_intro; resc;
    try match goal with A : (c_expried _ =? 0) = true |- _ => rewrite ?(eqb0_ltb' _ A) end;
    try match goal with A : (c_expried _ =? 0) = false |- _ => rewrite ?(eqb0_ltb _ A) end.
  (* LCount, pre-state form *)
  all: try solve [reflexivity | apply mfr_mlk; mf | eapply mlk_chain_inc; [mf|mf|exact Hk]].
  (* LCount, post-state form *)
  all: try solve [left; reflexivity].
  (* LRCount *)
  all: split; [reflexivity|].
  all: try solve [reflexivity | apply deq_at; dq].
  all: match goal with |- dep ?S ?rr = _ =>
         assert (D : deq (updl (updm s k (fun m => m <| m_locked := add32 (m_locked m) 1 |>)) rr
                             (fun l => l <| l_locked := add8 (l_locked l) 1 |>)) S) by dq;
         rewrite (D rr), dep_updl_inc, pres_updm, dep_updm; reflexivity end.
Qed.

(* ------------------------------------------------------------------ the key is held *)
Lemma ls_held_counts s conn c m :
  m = getm s (c_key c) -> aget (mgrs s) (c_key c) <> None ->
  match ls_held s conn c (c_key c) m with
  | (Some (s', ev, w), _, _) => Forall (lock_reply_ok s c s') ev
  | (None, c1, _) => lock_addr s c = None /\ c_expried c1 = c_expried c
  end.
Proof.
  intros Hm Hk. rewrite ls_held_eq2. unfold lock_reply_ok, lock_addr. cbv zeta. rewrite <- Hm.
  assert (HX : forall r c1 (P : cmd -> Prop), c_expried c1 = c_expried c ->
           match ls_found s conn c1 (c_key c) m r with
           | (Some (s', ev, _), _, _) => Forall (lro s (c_key c) (c_expried c) (Some r) s') ev
           | (None, c', _) => P c'
           end).
  { intros r c1 P Hex. destruct (ls_found s conn c1 (c_key c) m r) as [[o c'] wd] eqn:E.
    destruct (ls_found_counts _ _ _ _ _ _ _ _ _ E Hm Hk) as (_ & s' & ev & w & -> & HF).
    rewrite <- Hex. exact HF. }
  destruct (0 <? m_locked m) eqn:Hlk.
  - destruct (has (c_flag c) LOCK_FLAG_SHOW) eqn:Hshow; destruct (has (c_flag c) LOCK_FLAG_UPDATE) eqn:Hupd;
      cbn [andb negb].
    + change (c_lockid (c <| c_lockid := c_lockid (l_cmd (getl s (match m_cur m with Some cr => cr | None => 0 end))) |>))
        with (c_lockid (l_cmd (getl s (match m_cur m with Some cr => cr | None => 0 end)))).
      destruct (get_locked_lock s m _) as [r|]; [|split; reflexivity].
      apply (HX r _ (fun c' => Some r = None /\ c_expried c' = c_expried c)). reflexivity.
    + constructor; [|constructor]. fold_counts. apply lro_intro; resc.
      * subst m. reflexivity.
      * left. subst m. reflexivity.
      * split; reflexivity.
    + destruct (get_locked_lock s m _) as [r|]; [|split; reflexivity].
      apply (HX r _ (fun c' => Some r = None /\ c_expried c' = c_expried c)). reflexivity.
    + destruct (get_locked_lock s m _) as [r|]; [|split; reflexivity].
      apply (HX r _ (fun c' => Some r = None /\ c_expried c' = c_expried c)). reflexivity.
  - destruct (has (c_tflag c) TF_WAIT_WHEN_UNLOCK); [|split; reflexivity].
    destruct (m_waited m && (c_count c =? 0)); [|split; reflexivity].
    constructor; [|constructor]. fold_counts. apply lro_intro; resc.
    + subst m. reflexivity.
    + left. subst m. reflexivity.
    + split; [reflexivity|]. intros X. vm_compute in X. discriminate X.
Qed.

(* ------------------------------------------------------------------ LockDB.Lock *)
Lemma ls_mgr_facts s k :
  getm (ls_mgr s k) k = getm s k /\ store (ls_mgr s k) = store s /\ next (ls_mgr s k) = next s
  /\ aget (mgrs (ls_mgr s k)) k <> None.
Proof.
  unfold ls_mgr. destruct (aget (mgrs s) k) as [m|] eqn:E.
  - repeat split; auto. congruence.
  - split; [|split; [|split]]; try reflexivity.
    + unfold getm at 1. change (mgrs (bump _ (setm s k new_mgr))) with (aset (mgrs s) k new_mgr).
      rewrite aget_aset_same. symmetry. apply getm_none. exact E.
    + change (mgrs (bump _ (setm s k new_mgr))) with (aset (mgrs s) k new_mgr).
      rewrite aget_aset_same. discriminate.
Qed.

Lemma lock_addr_ls_mgr s c : lock_addr (ls_mgr s (c_key c)) c = lock_addr s c.
Proof.
  destruct (ls_mgr_facts s (c_key c)) as (Hg & Hs & _ & _).
  unfold lock_addr. cbv zeta. rewrite Hg, !(get_locked_lock_store _ _ _ _ Hs).
  rewrite (getl_store _ _ _ Hs). reflexivity.
Qed.

Lemma lro_pre_eq s0 s k ex addr s' e :
  mlk s0 k = mlk s k -> (forall r, dep s0 r = dep s r) -> (forall r, pres s0 r = pres s r) -> next s0 = next s ->
  lro s0 k ex addr s' e -> lro s k ex addr s' e.
Proof.
  intros H1 H2 H3 H4. unfold lro. destruct e; auto. rewrite H1, H4.
  destruct addr as [r|]; [rewrite H2, H3|]; auto.
Qed.

Theorem lock_step_counts s conn c s' ev w :
  lock_step s conn c = (s', ev, w) -> Forall (lock_reply_ok s c s') ev.
Proof.
  rewrite lock_step_eq. cbv zeta. set (k := c_key c).
  destruct (ls_pre s conn c k) as [pev|] eqn:Epre.
  - (* concurrency pre-check: the state is not touched *)
    intros H. inv_tuple H. unfold ls_pre in Epre. unfold lock_reply_ok. fold k.
    repeat (split_hyp Epre); try discriminate Epre.
    all: apply (f_equal (fun o => match o with Some x => x | None => [] end)) in Epre; cbv iota beta in Epre; subst pev.
    all: constructor; [|constructor].
    all: match goal with |- lro _ _ _ _ _ (reply _ _ _ ?X _ _) =>
           assert (E : X = mlk s k);
           [|apply lro_intro; resc; [exact E|left; exact E|reflexivity]] end.
    + unfold mlk. match goal with A : aget (mgrs s) k = Some _ |- _ => rewrite (getm_some _ _ _ A) end. reflexivity.
    + unfold mlk. match goal with A : aget (mgrs s) k = Some _ |- _ => rewrite (getm_some _ _ _ A) end.
      match goal with A : (_ && _) = true |- _ => apply andb_prop in A; destruct A as [A _]; apply N.eqb_eq in A; rewrite A end.
      reflexivity.
    + symmetry. apply mlk_none. assumption.
  - destruct (ls_mgr_facts s k) as (Hg & Hs & Hn & Hk).
    assert (T : forall s' e, lro (ls_mgr s k) k (c_expried c) (lock_addr s c) s' e -> lock_reply_ok s c s' e).
    { intros s0 e. unfold lock_reply_ok. fold k. apply lro_pre_eq.
      - unfold mlk. rewrite Hg. reflexivity.
      - intros r. apply dep_store. exact Hs.
      - intros r. unfold pres. rewrite Hs. reflexivity.
      - exact Hn. }
    destruct (negb (leader (ls_mgr s k)) && negb (has (c_flag c) LOCK_FLAG_FROM_AOF)).
    + (* STATE_ERROR *)
      intros H. inv_tuple H. constructor; [|constructor]. apply T. fold_counts. apply lro_intro; resc.
      * reflexivity.
      * destruct (mlk_remove_mgr (ls_mgr s k) k) as [E|E]; [left; symmetry; exact E|right; split; [exact E|left; reflexivity]].
      * reflexivity.
    + pose proof (ls_held_counts (ls_mgr s k) conn c (getm (ls_mgr s k) k) eq_refl Hk) as HH. fold k in HH.
      pose proof (lock_addr_ls_mgr s c) as La. fold k in La.
      destruct (ls_held (ls_mgr s k) conn c k (getm (ls_mgr s k) k)) as [[[[[s1 e1] w1]|] c1] wd].
      * intros H. inv_tuple H. eapply Forall_impl; [|exact HH]. intros e He. apply T.
        unfold lock_reply_ok in He. fold k in He. rewrite La in He. exact He.
      * intros H. destruct HH as [Ha Hex]. apply ls_tail_counts in H; [|exact Hk].
        eapply Forall_impl; [|exact H]. intros e He. apply T.
        rewrite <- La, Ha, <- Hex. exact He.
Qed.
