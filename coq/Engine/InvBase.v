(* Library for the invariant proof: association maps, occurrence counts, sums over maps, store/manager access. *)
From Coq Require Import String ZifyN ZifyBool ZifyNat.
From Slock Require Import Engine.Types Engine.Queues Engine.Timers Engine.Engine Engine.Engine2 Engine.InvDef.
Open Scope N_scope.

(* ---------------------------------------------------------------- occ *)
Lemma occ_app r l1 l2 : occ r (l1 ++ l2) = (occ r l1 + occ r l2)%nat.
Proof. induction l1 as [|x t IH]; simpl; auto. rewrite IH. lia. Qed.
Lemma occ_cons_eq r t : occ r (r :: t) = S (occ r t).
Proof. simpl. rewrite N.eqb_refl. reflexivity. Qed.
Lemma occ_cons_ne r x t : x <> r -> occ r (x :: t) = occ r t.
Proof. intros H. simpl. destruct (x =? r) eqn:E; auto. apply N.eqb_eq in E. congruence. Qed.
Lemma occ_In r l : In r l <-> (0 < occ r l)%nat.
Proof.
  induction l as [|x t IH]; simpl; [split; [tauto|lia]|].
  destruct (x =? r) eqn:E.
  - apply N.eqb_eq in E. split; [lia|auto].
  - apply N.eqb_neq in E. rewrite <- IH. split; [intros [?|?]; [congruence|auto]|auto].
Qed.
Lemma occ_notin r l : ~ In r l <-> occ r l = O.
Proof. rewrite occ_In. lia. Qed.
Lemma occ_nodup l : NoDup l <-> forall r, (occ r l <= 1)%nat.
Proof.
  induction l as [|x t IH]; simpl.
  - split; [intros; lia|constructor].
  - split.
    + intros H r. inversion H; subst. destruct (x =? r) eqn:E.
      * apply N.eqb_eq in E; subst. apply occ_notin in H2. lia.
      * apply IH; auto.
    + intros H. constructor.
      * apply occ_notin. specialize (H x). rewrite N.eqb_refl in H. lia.
      * apply IH. intros r. specialize (H r). lia.
Qed.
Lemma occ_remove_same r l : occ r (remove_ref l r) = O.
Proof.
  unfold remove_ref. induction l as [|x t IH]; simpl; auto.
  destruct (x =? r) eqn:E; simpl; auto. rewrite E. auto.
Qed.
Lemma occ_remove_other r r' l : r <> r' -> occ r' (remove_ref l r) = occ r' l.
Proof.
  intros H. unfold remove_ref. induction l as [|x t IH]; simpl; auto.
  destruct (x =? r) eqn:E; simpl.
  - apply N.eqb_eq in E; subst. destruct (r =? r') eqn:E2; [apply N.eqb_eq in E2; congruence|auto].
  - rewrite IH. reflexivity.
Qed.

(* ---------------------------------------------------------------- association maps *)
Section AM.
  Context {V : Type}.
  Implicit Types m : amap V.

  Lemma in_fst_adel m k k' : In k' (map fst (adel m k)) <-> In k' (map fst m) /\ k' <> k.
  Proof.
    induction m as [|[k0 v] t IH]; simpl; [tauto|].
    destruct (k0 =? k) eqn:E.
    - apply N.eqb_eq in E; subst. rewrite IH. split; [tauto|intros [[?|?] ?]; [congruence|tauto]].
    - apply N.eqb_neq in E. simpl. rewrite IH. split; [intros [?|?]; [subst; tauto|tauto]|tauto].
  Qed.
  Lemma awf_adel m k : awf m -> awf (adel m k).
  Proof.
    unfold awf. induction m as [|[k0 v] t IH]; simpl; auto. intros H. inversion H; subst.
    destruct (k0 =? k); simpl; auto. constructor; auto. rewrite in_fst_adel. tauto.
  Qed.
  Lemma awf_aset m k v : awf m -> awf (aset m k v).
  Proof.
    intros H. unfold aset, awf. simpl. constructor; [rewrite in_fst_adel; tauto|apply awf_adel; auto].
  Qed.
  Lemma aget_none_iff m k : aget m k = None <-> ~ In k (map fst m).
  Proof.
    induction m as [|[k0 v] t IH]; simpl; [tauto|].
    destruct (k0 =? k) eqn:E.
    - apply N.eqb_eq in E. split; [discriminate|tauto].
    - apply N.eqb_neq in E. rewrite IH. tauto.
  Qed.
  Lemma aget_in m k v : aget m k = Some v -> In (k, v) m.
  Proof.
    induction m as [|[k0 v0] t IH]; simpl; [discriminate|].
    destruct (k0 =? k) eqn:E; [apply N.eqb_eq in E; intros; left; congruence|auto].
  Qed.
  Lemma in_aget m k v : awf m -> In (k, v) m -> aget m k = Some v.
  Proof.
    unfold awf. induction m as [|[k0 v0] t IH]; simpl; [tauto|]. intros H [Hi|Hi]; inversion H; subst.
    - inversion Hi; subst. rewrite N.eqb_refl. reflexivity.
    - destruct (k0 =? k) eqn:E; auto. apply N.eqb_eq in E; subst. exfalso. apply H2.
      change k with (fst (k, v)). apply in_map. auto.
  Qed.
  Lemma adel_none m k : aget m k = None -> adel m k = m.
  Proof.
    induction m as [|[k0 v0] t IH]; simpl; auto. destruct (k0 =? k); [discriminate|]. intros; f_equal; auto.
  Qed.
  Lemma length_adel m k v : awf m -> aget m k = Some v -> S (length (adel m k)) = length m.
  Proof.
    unfold awf. induction m as [|[k0 v0] t IH]; simpl; [discriminate|]. intros H; inversion H; subst.
    destruct (k0 =? k) eqn:E.
    - apply N.eqb_eq in E; subst. intros _. rewrite adel_none; auto. apply aget_none_iff; auto.
    - simpl. intros. f_equal. auto.
  Qed.
  Lemma length_aset_in m k v v' : awf m -> aget m k = Some v -> length (aset m k v') = length m.
  Proof. intros. unfold aset. simpl. eapply length_adel; eauto. Qed.
  Lemma length_aset_new m k v' : aget m k = None -> length (aset m k v') = S (length m).
  Proof. intros. unfold aset. simpl. rewrite adel_none; auto. Qed.

  Lemma aget_aset m k k' v : aget (aset m k v) k' = if k =? k' then Some v else aget m k'.
  Proof.
    destruct (k =? k') eqn:E.
    - apply N.eqb_eq in E; subst. apply aget_aset_same.
    - apply N.eqb_neq in E. apply aget_aset_other; auto.
  Qed.
  Lemma aget_adel m k k' : aget (adel m k) k' = if k =? k' then None else aget m k'.
  Proof.
    destruct (k =? k') eqn:E.
    - apply N.eqb_eq in E; subst. apply aget_adel_same.
    - apply N.eqb_neq in E. apply aget_adel_other; auto.
  Qed.

  (* sums over a map *)
  Definition oget (f : V -> nat) (o : option V) : nat := match o with Some v => f v | None => O end.
  Definition ogetN (f : V -> N) (o : option V) : N := match o with Some v => f v | None => 0 end.

  Lemma asum_adel f m k : awf m -> (asum f (adel m k) + oget f (aget m k) = asum f m)%nat.
  Proof.
    unfold awf. induction m as [|[k0 v0] t IH]; simpl; auto. intros H; inversion H; subst.
    destruct (k0 =? k) eqn:E.
    - apply N.eqb_eq in E; subst. rewrite adel_none by (apply aget_none_iff; auto). simpl. lia.
    - simpl. rewrite <- IH; auto. lia.
  Qed.
  Lemma asum_aset f m k v : awf m -> (asum f (aset m k v) + oget f (aget m k) = f v + asum f m)%nat.
  Proof. intros H. unfold aset. simpl. pose proof (asum_adel f m k H). lia. Qed.
  Lemma asumN_adel f m k : awf m -> asumN f (adel m k) + ogetN f (aget m k) = asumN f m.
  Proof.
    unfold awf. induction m as [|[k0 v0] t IH]; simpl; auto. intros H; inversion H; subst.
    destruct (k0 =? k) eqn:E.
    - apply N.eqb_eq in E; subst. rewrite adel_none by (apply aget_none_iff; auto). simpl. lia.
    - simpl. rewrite <- IH; auto. lia.
  Qed.
  Lemma asumN_aset f m k v : awf m -> asumN f (aset m k v) + ogetN f (aget m k) = f v + asumN f m.
  Proof. intros H. unfold aset. simpl. pose proof (asumN_adel f m k H). lia. Qed.
  Lemma asum_ge f m k v : aget m k = Some v -> (f v <= asum f m)%nat.
  Proof.
    induction m as [|[k0 v0] t IH]; simpl; [discriminate|]. destruct (k0 =? k).
    - intros E; inversion E; subst. lia.
    - intros E. specialize (IH E). lia.
  Qed.
  Lemma asum_zero f m : (forall k v, aget m k = Some v -> f v = O) -> awf m -> asum f m = O.
  Proof.
    intros H W. induction m as [|[k0 v0] t IH]; simpl; auto.
    rewrite (H k0 v0) by (simpl; rewrite N.eqb_refl; auto). simpl. apply IH.
    - intros k v Hg. apply (H k v). apply in_aget; auto. right. apply aget_in; auto.
    - inversion W; auto.
  Qed.
End AM.

Lemma occ_wrefs r (w : amap (list ref)) : occ r (wrefs w) = asum (occ r) w.
Proof. unfold wrefs. induction w as [|[k v] t IH]; simpl; auto. rewrite occ_app, IH. reflexivity. Qed.

Lemma wheel_get_oget r (w : amap (list ref)) k : occ r (wheel_get w k) = oget (occ r) (aget w k).
Proof. unfold wheel_get. destruct (aget w k); reflexivity. Qed.

Lemma occ_wrefs_aset r w k v : awf w ->
  (occ r (wrefs (aset w k v)) + occ r (wheel_get w k) = occ r v + occ r (wrefs w))%nat.
Proof. intros H. rewrite !occ_wrefs, wheel_get_oget. apply asum_aset; auto. Qed.
Lemma occ_wrefs_adel r w k : awf w ->
  (occ r (wrefs (adel w k)) + occ r (wheel_get w k) = occ r (wrefs w))%nat.
Proof. intros H. rewrite !occ_wrefs, wheel_get_oget. apply asum_adel; auto. Qed.
Lemma occ_wrefs_push r w k x : awf w ->
  occ r (wrefs (wheel_push w k x)) = (occ r (wrefs w) + occ r [x])%nat.
Proof.
  intros H. unfold wheel_push. pose proof (occ_wrefs_aset r w k (wheel_get w k ++ [x]) H) as E.
  rewrite occ_app in E. lia.
Qed.
Lemma occ_wheel_get_le r w k : (occ r (wheel_get w k) <= occ r (wrefs w))%nat.
Proof.
  rewrite occ_wrefs. unfold wheel_get. destruct (aget w k) eqn:E; simpl; [|lia].
  apply (asum_ge (occ r) w k l E).
Qed.
Lemma in_wheel_get_wrefs r w k : In r (wheel_get w k) -> In r (wrefs w).
Proof. intros H. apply occ_In. apply occ_In in H. pose proof (occ_wheel_get_le r w k). lia. Qed.

(* ---------------------------------------------------------------- permutations from occurrence counts *)
From Coq Require Import Permutation.
Lemma occ_count r l : occ r l = count_occ N.eq_dec l r.
Proof.
  induction l as [|x t IH]; simpl; auto. destruct (N.eq_dec x r) as [E|E].
  - subst. rewrite N.eqb_refl, IH. reflexivity.
  - apply N.eqb_neq in E. rewrite E, IH. reflexivity.
Qed.
Lemma occ_perm l1 l2 : (forall r, occ r l1 = occ r l2) <-> Permutation l1 l2.
Proof.
  rewrite (Permutation_count_occ N.eq_dec). split; intros H r; specialize (H r); rewrite ?occ_count in *; auto.
Qed.

(* ---------------------------------------------------------------- store / manager access *)
Lemma store_setl s r l : store (setl s r l) = aset (store s) r l.  Proof. reflexivity. Qed.
Lemma mgrs_setl s r l : mgrs (setl s r l) = mgrs s.  Proof. reflexivity. Qed.
Lemma mgrs_setm s k m : mgrs (setm s k m) = aset (mgrs s) k m.  Proof. reflexivity. Qed.
Lemma store_setm s k m : store (setm s k m) = store s.  Proof. reflexivity. Qed.

Lemma getl_setl s r l r' : getl (setl s r l) r' = if r =? r' then l else getl s r'.
Proof. unfold getl. rewrite store_setl, aget_aset. destruct (r =? r'); reflexivity. Qed.
Lemma getm_setm s k m k' : getm (setm s k m) k' = if k =? k' then m else getm s k'.
Proof. unfold getm. rewrite mgrs_setm, aget_aset. destruct (k =? k'); reflexivity. Qed.
Lemma getm_setl s r l k : getm (setl s r l) k = getm s k.  Proof. reflexivity. Qed.
Lemma getl_setm s k m r : getl (setm s k m) r = getl s r.  Proof. reflexivity. Qed.

Lemma updl_some s r f l : aget (store s) r = Some l -> updl s r f = setl s r (f l).
Proof. intros H. unfold updl. rewrite H. reflexivity. Qed.
Lemma updl_none s r f : aget (store s) r = None -> updl s r f = s.
Proof. intros H. unfold updl. rewrite H. reflexivity. Qed.
Lemma updm_some s k f m : aget (mgrs s) k = Some m -> updm s k f = setm s k (f m).
Proof. intros H. unfold updm. rewrite H. reflexivity. Qed.
Lemma updm_none s k f : aget (mgrs s) k = None -> updm s k f = s.
Proof. intros H. unfold updm. rewrite H. reflexivity. Qed.
Lemma getl_some s r l : aget (store s) r = Some l -> getl s r = l.
Proof. intros H. unfold getl. rewrite H. reflexivity. Qed.
Lemma getm_some s k m : aget (mgrs s) k = Some m -> getm s k = m.
Proof. intros H. unfold getm. rewrite H. reflexivity. Qed.
Lemma getl_none s r : aget (store s) r = None -> getl s r = dummy_lock.
Proof. intros H. unfold getl. rewrite H. reflexivity. Qed.

(* ---------------------------------------------------------------- sumdepth *)
Lemma sumdepth_app s l1 l2 : sumdepth s (l1 ++ l2) = sumdepth s l1 + sumdepth s l2.
Proof. induction l1 as [|x t IH]; simpl; auto. rewrite IH. lia. Qed.
Lemma sumdepth_perm s l1 l2 : Permutation l1 l2 -> sumdepth s l1 = sumdepth s l2.
Proof. induction 1; simpl; lia. Qed.
Lemma sumdepth_ext s s' l : (forall r, In r l -> l_locked (getl s' r) = l_locked (getl s r)) -> sumdepth s' l = sumdepth s l.
Proof.
  induction l as [|x t IH]; simpl; auto. intros H. rewrite H by auto. rewrite IH; auto.
Qed.
(* changing the depth of one record *)
Lemma sumdepth_upd s s' r l :
  (forall x, x <> r -> l_locked (getl s' x) = l_locked (getl s x)) ->
  (Z.of_N (sumdepth s' l) = Z.of_N (sumdepth s l)
     + Z.of_nat (occ r l) * (Z.of_N (l_locked (getl s' r)) - Z.of_N (l_locked (getl s r))))%Z.
Proof.
  intros H. induction l as [|x t IH]; simpl; [lia|].
  destruct (x =? r) eqn:E.
  - apply N.eqb_eq in E; subst. lia.
  - apply N.eqb_neq in E. rewrite H by auto. lia.
Qed.
Lemma sumdepth_zero s l : (forall r, In r l -> l_locked (getl s r) = 0) -> sumdepth s l = 0.
Proof. induction l as [|x t IH]; simpl; auto. intros H. rewrite H by auto. rewrite IH; auto. Qed.
Lemma sumdepth_bound s l : (forall r, l_locked (getl s r) <= 255) -> sumdepth s l <= 255 * N.of_nat (length l).
Proof. intros H. induction l as [|x t IH]; simpl length; simpl sumdepth; [lia|]. specialize (H x). lia. Qed.

(* a duplicate-free list of stored references is no longer than the store *)
Lemma nodup_stored_length {V} (st : amap V) l :
  awf st -> NoDup l -> (forall r, In r l -> aget st r <> None) -> (length l <= length st)%nat.
Proof.
  intros W N. revert st W. induction N as [|x t Hx N IH]; intros st W H; simpl; [lia|].
  destruct (aget st x) as [v|] eqn:E; [|exfalso; apply (H x); simpl; auto].
  pose proof (length_adel st x v W E) as L.
  assert (length t <= length (adel st x))%nat; [|lia].
  apply IH; [apply awf_adel; auto|].
  intros r Hr. rewrite aget_adel. destruct (x =? r) eqn:E2.
  - apply N.eqb_eq in E2; subst. contradiction.
  - apply H; simpl; auto.
Qed.

Lemma dummy_locked : l_locked dummy_lock = 0.  Proof. reflexivity. Qed.
