(* Timer theorems, part 14: regular schedules (unit ticks, a timeout sweep after every tick).  Then no waiter is ever
   overdue when a sweep starts, the lag condition of C05 (b) holds by construction, and every TIMEOUT reply of a sweep
   is emitted at server time exactly queue time + Timeout*unit + 1. *)
From Coq Require Import String ZifyN ZifyBool ZifyNat.
From Slock Require Import Engine.Types Engine.Queues Engine.Timers Engine.Engine Engine.Engine2.
From Slock Require Import Engine.TimeBase Engine.TimeFrame Engine.TimeStep Engine.TimeWheel Engine.TimeInv Engine.TimeRun.
From Slock Require Import Engine.TimeEvents Engine.TimeWhere Engine.TimeThm Engine.TimeMono Engine.TimeEvLock Engine.TimeFinal.
Open Scope N_scope.

Ltac Zify.zify_post_hook ::= Z.div_mod_to_equations.

(* phases: `true` = the current second has been swept (a tick may follow), `false` = ticked, sweep outstanding *)
Fixpoint regular (swept : bool) (acts : list action) : Prop :=
  match acts with
  | [] => True
  | AReq _ c :: rest => core_cmd c /\ regular swept rest
  | AAdvance k :: rest => k = 1%Z /\ swept = true /\ regular false rest
  | ASweepT :: rest => regular true rest
  | ASweepE :: rest => regular swept rest
  | ARole _ :: rest => regular swept rest
  | AAck _ _ :: _ => False
  end.

Lemma regular_core : forall acts ph, regular ph acts -> Forall core_action acts.
Proof.
  induction acts as [|a rest IH]; intros ph R; [constructor|].
  destruct a as [conn c|k| | |r ok|b]; cbn in R.
  - destruct R. constructor; eauto.
  - destruct R as (-> & _ & R). constructor; [cbn; lia|eauto].
  - constructor; [exact I|eauto].
  - constructor; [exact I|eauto].
  - destruct R.
  - constructor; [exact I|eauto].
Qed.

(* slack d: every live waiter's deadline is at least now + d; the sweep is at most 1 - d seconds behind *)
Definition RI (swept : bool) (s : db) : Prop :=
  TA s /\ TW [] (checkT s) s /\
  (if swept then (now s <= checkT s)%Z /\ (forall r l, tlive s r l -> (now s < l_tT l)%Z)
   else (now s <= checkT s + 1)%Z /\ (forall r l, tlive s r l -> (now s <= l_tT l)%Z)).

Definition no_sweep_panic (p : db * action) : Prop :=
  match snd p with ASweepT => ~ has_panic (snd (sweep_timeouts (fst p))) | _ => True end.

Lemma born_deadline s a r l' : TA (fst (step s a)) -> core_action a -> tlive (fst (step s a)) r l' -> born s a r l' ->
  (now s + 2 <= l_tT l')%Z.
Proof.
  intros T' CA LV (conn & c & -> & CL & RN & ST & CN & CM & TO). cbn in CA.
  rewrite (ta_dl _ T' _ l' LV). unfold qdl. rewrite ST.
  destruct CM as [->|[x ->]]; apply timeout_deadline_core; auto.
Qed.

Lemma RI_step ph s a rest :
  RI ph s -> regular ph (a :: rest) -> no_sweep_panic (s, a) ->
  exists ph', RI ph' (fst (step s a)) /\ regular ph' rest /\ sweep_ok (s, a).
Proof.
  intros (T & W & P) R NP.
  assert (core_action a) as CA by (apply regular_core in R; inversion R; auto).
  pose proof (step_TA s a T CA) as T'.
  destruct (step_mono s a T CA) as [NX M].
  assert (forall d, (forall r l, tlive s r l -> (now s + d <= l_tT l)%Z) -> (d <= 2)%Z ->
          now (fst (step s a)) = now s ->
          forall r l', tlive (fst (step s a)) r l' -> (now (fst (step s a)) + d <= l_tT l')%Z) as KEEP.
  { intros d H D2 N r l' LV. rewrite N. destruct (M r l' LV) as [(l & L & (S1 & _))|B].
    - rewrite S1. apply (H r l); auto.
    - pose proof (born_deadline s a r l' T' CA LV B). lia. }
  destruct a as [conn c|k| | |x ok|b]; cbn [regular] in R.
  - (* request *)
    destruct R as [Cc R]. exists ph. split; [|split; [exact R|exact I]].
    assert (sweep_ok (s, AReq conn c)) as OK by exact I.
    pose proof (step_TW s (AReq conn c) T W CA OK) as W'.
    assert (now (fst (step s (AReq conn c))) = now s /\ checkT (fst (step s (AReq conn c))) = checkT s) as [N C].
    { cbn [step]. destruct (c_lock c).
      - destruct (lock_TW s conn c T W Cc) as [_ C]. split; auto.
        destruct (lock_step_shape core_cmd core_dummy (fun c H => H) s conn c (ta_hd _ T) (ta_hf _ T) Cc (fun x => core_lockid c x Cc))
          as [F|(s0 & c1 & F0 & NX' & NW & CK & C1 & HS & E1 & E2 & E3 & TO & MS)].
        + apply (tf_now _ _ _ (core_finish_frame s _ (ta_core _ T) (ta_sk _ T) F)).
        + destruct (lock_step s conn c) as [[s' ev] w]. cbn [fst snd] in *. subst w ev. rewrite finish_none. cbn [fst]. subst s'.
          unfold queue_tail. change (now (bump ?f ?y)) with (now y). rewrite updl_now.
          rewrite (sb_now _ _ (add_timeout_same _ _)).
          rewrite (tf_now _ _ _ (add_wait_lock_frame core_cmd _ _ _)).
          rewrite (tf_now _ _ _ (tframe_new_lock core_cmd s0 (c_key c) conn c1 ltac:(destruct C1 as [->|[x ->]]; auto))). exact NW.
      - pose proof (core_finish_frame s (unlock_step s conn c) (ta_core _ T) (ta_sk _ T) (unlock_step_frame core_cmd s conn c)) as F.
        split; [apply (tf_now _ _ _ F)|apply (tf_checkT _ _ _ F)]. }
    split; [exact T'|split; [exact W'|]]. rewrite N, C.
    destruct ph; destruct P as [P1 P2]; split; auto; intros r l' LV.
    + pose proof (KEEP 1%Z ltac:(intros; specialize (P2 _ _ H); lia) ltac:(lia) N r l' LV). lia.
    + pose proof (KEEP 0%Z ltac:(intros; specialize (P2 _ _ H); lia) ltac:(lia) N r l' LV). lia.
  - (* tick *)
    destruct R as (-> & -> & R). exists false. split; [|split; [exact R|exact I]].
    destruct P as [P1 P2].
    split; [exact T'|split; [apply (step_TW s (AAdvance 1) T W CA I)|]].
    cbn [step fst]. cbn. split; [lia|]. intros r l LV. specialize (P2 r l LV). lia.
  - (* timeout sweep *)
    exists true.
    assert ((now s < checkT s + 7)%Z) as LAG by (destruct ph; destruct P; lia).
    assert (sweep_ok (s, ASweepT)) as OK by (split; auto).
    split; [|split; [exact R|exact OK]].
    cbn [step]. destruct (sweep_timeouts_no_loss s T W LAG NP) as [W' B].
    destruct (sweep_timeouts_TA s T) as (_ & N & C).
    split; [exact T'|split; [rewrite C; exact W'|]]. rewrite N, C. split; [lia|exact B].
  - (* expiry sweep *)
    exists ph. split; [|split; [exact R|exact I]].
    pose proof (sweep_expiries_frame s (TA_PK _ T)) as F.
    split; [exact T'|split; [apply (step_TW s ASweepE T W CA I)|]].
    cbn [step]. rewrite (tf_now _ _ _ F), (tf_checkT _ _ _ F).
    destruct ph; destruct P as [P1 P2]; split; auto; intros r l' LV.
    + pose proof (KEEP 1%Z ltac:(intros; specialize (P2 _ _ H); lia) ltac:(lia) (tf_now _ _ _ F) r l' LV).
      cbn [step] in H. rewrite (tf_now _ _ _ F) in H. lia.
    + pose proof (KEEP 0%Z ltac:(intros; specialize (P2 _ _ H); lia) ltac:(lia) (tf_now _ _ _ F) r l' LV).
      cbn [step] in H. rewrite (tf_now _ _ _ F) in H. lia.
  - destruct R.
  - exists ph. split; [|split; [exact R|exact I]].
    split; [exact T'|split; [apply (step_TW s (ARole b) T W CA I)|]].
    cbn [step fst]. cbn.
    destruct ph; destruct P as [P1 P2]; split; auto.
Qed.

Lemma regular_run : forall acts ph s,
  RI ph s -> regular ph acts -> Forall no_sweep_panic (run_states s acts) ->
  Forall sweep_ok (run_states s acts)
  /\ forall s' a, In (s', a) (run_states s acts) -> exists ph', RI ph' s'.
Proof.
  induction acts as [|a rest IH]; intros ph s RI0 R NP; cbn [run_states] in *; [split; [constructor|intros ? ? []]|].
  inversion NP as [|? ? NP1 NP2]; subst.
  destruct (RI_step ph s a rest RI0 R NP1) as (ph' & RI1 & R1 & OK).
  destruct (IH ph' _ RI1 R1 NP2) as [A B]. split; [constructor; auto|].
  intros s' a' [[= <- <-]|I]; eauto.
Qed.

Lemma RI_init t0 aoft : (0 <= t0)%Z -> RI true (init_db t0 aoft).
Proof.
  intros H. split; [apply TA_init; auto|]. split; [apply TW_init|]. cbn. split; [lia|].
  intros r l [G _]. discriminate.
Qed.

(* C05 (b) for regular schedules: the hypotheses of the no-loss theorem hold by construction (apart from the absence
   of use-after-free crashes), and at the start of every timeout sweep no waiter is overdue *)
Theorem regular_no_loss t0 aoft acts :
  (0 <= t0)%Z -> regular true acts -> Forall no_sweep_panic (run_states (init_db t0 aoft) acts) ->
  Forall sweep_ok (run_states (init_db t0 aoft) acts)
  /\ forall s, In (s, ASweepT) (run_states (init_db t0 aoft) acts) ->
       (forall r l, tlive s r l -> (now s <= l_tT l)%Z)
       /\ (forall r l, tlive s r l -> l_tT l = now s -> tdead (fst (sweep_timeouts s)) r)
       /\ (forall r l, tlive (fst (sweep_timeouts s)) r l -> (now s < timeout_deadline (l_cmd l) (l_start l))%Z).
Proof.
  intros H R NP. destruct (regular_run acts true _ (RI_init t0 aoft H) R NP) as [OK RIs]. split; auto.
  intros s I. destruct (RIs s ASweepT I) as (ph & T & W & P).
  assert (sweep_ok (s, ASweepT)) as [LAG NPs] by (rewrite Forall_forall in OK; apply OK; auto).
  lsplit.
  - destruct ph; destruct P as [_ P2]; intros r l LV; specialize (P2 r l LV); lia.
  - intros r l LV E. apply (sweep_answers_overdue s r l T W LAG NPs LV). lia.
  - apply (timeout_no_loss_run (init_db t0 aoft) acts); auto.
    + apply TA_init; auto. + apply TW_init. + eapply regular_core; eauto.
Qed.

(* the exact firing time under a regular schedule: a TIMEOUT reply of a sweep is emitted at server time
   queue time + Timeout*unit + 1, exactly *)
Theorem regular_timeout_exact t0 aoft acts :
  (0 <= t0)%Z -> regular true acts -> Forall no_sweep_panic (run_states (init_db t0 aoft) acts) ->
  forall s, In (s, ASweepT) (run_states (init_db t0 aoft) acts) ->
  forall e, In e (snd (step s ASweepT)) -> is_tr e = true ->
  exists sq conn c lockid lc lrc d,
    In (sq, AReq conn c) (run_states (init_db t0 aoft) acts) /\ c_lock c = true
    /\ e = reply conn (c <| c_lockid := lockid |>) R_TIMEOUT lc lrc d
    /\ now s = (now sq + Z.of_N (c_timeout c) * tunit c + 1)%Z.
Proof.
  intros H R NP s I e IE TR.
  pose proof (regular_core _ _ R) as FA.
  assert (TA (init_db t0 aoft)) as T0 by (apply TA_init; auto).
  assert (forall r l, ~ tlive (init_db t0 aoft) r l) as NL by (intros r l [G _]; discriminate).
  destruct (regular_run acts true _ (RI_init t0 aoft H) R NP) as [OK RIs].
  destruct (RIs s ASweepT I) as (ph & T & W & P).
  (* redo the history argument, keeping the record *)
  destruct (sweep_timeout_reply_not_early s T e IE TR) as (s' & r & l & lc & lrc & d & IL & LV & N & EQ & DL).
  destruct (proj2 (timeout_calls_lmono s T s' r IL) r l LV) as (l0 & L0 & S0).
  assert ((now s <= l_tT l0)%Z) as LOW by (destruct ph; destruct P as [_ P2]; specialize (P2 r l0 L0); lia).
  destruct (run_states_split acts _ s ASweepT I) as (pre & suf & EA & ES & INC).
  assert (Forall core_action pre) as FP by (rewrite EA in FA; apply Forall_app in FA; tauto).
  subst s. destruct (live_waiter_history pre _ T0 NL FP r l0 L0) as (sq & a & IQ & B).
  destruct (born_tsame _ _ _ _ _ B S0) as (conn & c & -> & CL & RN & ST & CN & CM & TO).
  assert (core_action (AReq conn c)) as CC by (eapply (run_states_TA pre _ T0 FP sq); eauto).
  cbn in CC.
  assert (exists lockid, l_cmd l = c <| c_lockid := lockid |>) as (lockid & CM').
  { destruct CM as [->|[x ->]]; [exists (c_lockid c); destruct c; reflexivity|exists x; reflexivity]. }
  exists sq, conn, c, lockid, lc, lrc, d. lsplit; auto.
  - rewrite EQ, CN, CM'. reflexivity.
  - rewrite CM', ST in DL. rewrite timeout_deadline_core_eq in DL by exact CC.
    destruct S0 as (S1 & S2 & S3 & _).
    pose proof (ta_dl _ T r l0 L0) as D0. unfold qdl in D0. rewrite <- S2, <- S3, CM', ST in D0.
    rewrite timeout_deadline_core_eq in D0 by exact CC.
    change (c_timeout (c <| c_lockid := lockid |>)) with (c_timeout c) in *.
    change (tunit (c <| c_lockid := lockid |>)) with (tunit c) in *. lia.
Qed.
