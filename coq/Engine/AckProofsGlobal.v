(* C11, the acknowledgement layer (A6): how ProcessLeaderAofed / ProcessLeaderAcked count, and the run theorem:
   when an acknowledgement event completes a pending lock (DoAckLock(true) runs), exactly a_cfg positive events and no
   negative one have been seen for that registration -- for every run in which every registration is made for a
   record that was just granted (l_ack = 0) and is not already registered.  Registrations dropped by an UNLOCK record
   (ProcessLeaderPushUnLock, `unregister`) need no hypothesis. *)
From Coq Require Import String ZifyN ZifyBool ZifyNat.
From Slock Require Import Engine.Types Engine.Queues Engine.Timers Engine.Engine Engine.Engine2 Engine.Ack.
From Slock Require Import Engine.AckProofsBase Engine.AckProofsAck Engine.AckProofsRel.
Open Scope N_scope.

(* ------------------------------------------------------------------ local: the four cases of one event *)
Definition set_ack (st : astate) (r : ref) (c : N) : astate :=
  mkA (updl (a_db st) r (fun l => l <| l_ack := c |>)) (a_cfg st) (a_reg st) (a_next st).
Definition drop_reg (st : astate) (i : N) : astate := mkA (a_db st) (a_cfg st) (reg_del (a_reg st) i) (a_next st).

Theorem ack_event_unknown : forall st i ok, reg_find (a_reg st) i = None -> ack_event st i ok = (st, []).
Proof. intros st i ok H. unfold ack_event. rewrite H. reflexivity. Qed.

Theorem ack_event_counts : forall st i q r,
  reg_find (a_reg st) i = Some (q, r) ->
  let a := l_ack (getl (a_db st) r) in
  a <> 255 -> 0 < dec8 a ->
  ack_event st i true = (set_ack st r (dec8 a), []).
Proof.
  intros st i q r H a A C. unfold ack_event. rewrite H. cbv zeta. fold a.
  apply N.eqb_neq in A. rewrite A. cbn [negb orb]. apply N.ltb_lt in C. rewrite C. reflexivity.
Qed.

Theorem ack_event_completes : forall st i q r,
  reg_find (a_reg st) i = Some (q, r) ->
  let a := l_ack (getl (a_db st) r) in
  a <> 255 -> dec8 a = 0 ->
  ack_event st i true =
    with_post (drop_reg (set_ack st r 0) i) (finish (do_ack (a_db (set_ack st r 0)) r true)).
Proof.
  intros st i q r H a A C. unfold ack_event. rewrite H. cbv zeta. fold a.
  apply N.eqb_neq in A. rewrite A. cbn [negb orb]. rewrite C. reflexivity.
Qed.

Theorem ack_event_fails : forall st i ok q r,
  reg_find (a_reg st) i = Some (q, r) ->
  (ok = false \/ l_ack (getl (a_db st) r) = 255) ->
  ack_event st i ok = with_post (drop_reg st i) (finish (do_ack (a_db st) r false)).
Proof.
  intros st i ok q r H C. unfold ack_event. rewrite H. cbv zeta.
  assert (X : negb ok || (l_ack (getl (a_db st) r) =? 255) = true).
  { destruct C as [->|C]; [reflexivity|]. rewrite C. apply orb_true_r. }
  rewrite X. reflexivity.
Qed.

(* ------------------------------------------------------------------ the run hypothesis *)
Definition registered (reg : list (N * (N * ref))) (r : ref) : bool := existsb (fun x => snd (snd x) =? r) reg.
(* a registration is made for a record that AddLock just left pending and that has no registration yet *)
Definition reg_fresh (st : astate) (r : ref) : bool :=
  (l_ack (getl (a_db st) r) =? 0) && negb (registered (a_reg st) r).

Fixpoint post_ok (fuel : nat) (st : astate) (todo : list event) : bool :=
  match fuel with
  | O => true
  | S f =>
      match todo with
      | [] => true
      | EAof a :: rest =>
          match a_ref a with
          | Some r =>
              if leader (a_db st) then
                if a_lock a then reg_fresh st r && (let '(st1, e1) := register st r in post_ok f st1 (rest ++ e1))
                else (let '(st1, e1) := unregister st r in post_ok f st1 (rest ++ e1))
              else post_ok f st rest
          | None => post_ok f st rest
          end
      | _ :: rest => post_ok f st rest
      end
  end.

Definition with_post_ok (st : astate) (res : db * list event) : bool :=
  let '(s, ev) := res in post_ok (4 * length ev + 64)%nat (mkA s (a_cfg st) (a_reg st) (a_next st)) ev.

Definition ack_event_ok (st : astate) (i : N) (ok : bool) : bool :=
  (i <? a_next st) &&
  match reg_find (a_reg st) i with
  | None => true
  | Some (_, r) =>
      let s := a_db st in
      let l := getl s r in
      if negb ok || (l_ack l =? 255) then
        with_post_ok (mkA s (a_cfg st) (reg_del (a_reg st) i) (a_next st)) (finish (do_ack s r false))
      else
        let c := dec8 (l_ack l) in
        let s := updl s r (fun l => l <| l_ack := c |>) in
        if 0 <? c then true
        else with_post_ok (mkA s (a_cfg st) (reg_del (a_reg st) i) (a_next st)) (finish (do_ack s r true))
  end.

Definition astep_ok (st : astate) (a : aaction) : bool :=
  match a with
  | AAct (AAck _ _) => false                 (* DoAckLock is driven by the acknowledgement layer only *)
  | AAct a => with_post_ok st (step (a_db st) a)
  | AAckEvt i ok => ack_event_ok st i ok
  end.

Fixpoint arun_ok (st : astate) (acts : list aaction) : bool :=
  match acts with
  | [] => true
  | a :: rest => astep_ok st a && arun_ok (fst (astep st a)) rest
  end.

(* ------------------------------------------------------------------ counting events *)
Definition is_evt (i : N) (ok : bool) (a : aaction) : bool :=
  match a with AAckEvt j b => (j =? i) && Bool.eqb b ok | _ => false end.
Definition count_evt (acts : list aaction) (i : N) (ok : bool) : nat := length (filter (is_evt i ok) acts).

Lemma count_evt_app acts a i ok : count_evt (acts ++ [a]) i ok = (count_evt acts i ok + (if is_evt i ok a then 1 else 0))%nat.
Proof. unfold count_evt. rewrite filter_app, app_length. simpl. destruct (is_evt i ok a); reflexivity. Qed.

(* ------------------------------------------------------------------ the invariant *)
Definition entry_ok (cfg : N) (hist : list aaction) (s : db) (e : N * (N * ref)) : Prop :=
  let i := fst e in let r := snd (snd e) in
  let a := l_ack (getl s r) in
  a = 255 \/ a = 0
  \/ (1 <= a /\ (N.to_nat a + count_evt hist i true = N.to_nat cfg)%nat /\ count_evt hist i false = 0%nat).

Record ainv (cfg : N) (hist : list aaction) (st : astate) : Prop := {
  iv_cfg : a_cfg st = cfg;
  iv_lt : forall e, In e (a_reg st) -> fst e < a_next st;
  iv_nd : NoDup (map fst (a_reg st));
  iv_ndr : NoDup (map (fun e => snd (snd e)) (a_reg st));
  iv_ent : forall e, In e (a_reg st) -> entry_ok cfg hist (a_db st) e;
  iv_new : forall i ok, a_next st <= i -> count_evt hist i ok = 0%nat
}.

Lemma entry_ok_arel cfg hist s s' e : arel s s' -> entry_ok cfg hist s e -> entry_ok cfg hist s' e.
Proof.
  unfold entry_ok. cbv zeta. intros A H. destruct (A (snd (snd e))) as [E|[E|E]]; rewrite E; auto.
Qed.

Lemma ainv_db cfg hist st s' :
  ainv cfg hist st -> arel (a_db st) s' -> ainv cfg hist (mkA s' (a_cfg st) (a_reg st) (a_next st)).
Proof.
  intros [I1 I2 I3 I4 I5 I6] A. constructor; cbn [a_db a_cfg a_reg a_next]; auto.
  intros e He. eapply entry_ok_arel; eauto.
Qed.

Lemma NoDup_app_one {A} (l : list A) (x : A) : NoDup l -> ~ In x l -> NoDup (l ++ [x]).
Proof.
  induction l as [|y l IH]; simpl; intros N H.
  - constructor; [intros []|constructor].
  - inversion N; subst. constructor.
    + intros Hin. apply in_app_or in Hin. destruct Hin as [Hin|[->|[]]]; auto.
    + apply IH; auto.
Qed.

Lemma registered_false reg r : registered reg r = false -> ~ In r (map (fun e => snd (snd e)) reg).
Proof.
  unfold registered. intros H Hin. apply in_map_iff in Hin. destruct Hin as (e & <- & He).
  assert (existsb (fun x => snd (snd x) =? snd (snd e)) reg = true).
  { apply existsb_exists. exists e. split; auto. apply N.eqb_refl. }
  congruence.
Qed.

Lemma finish_do_ack_arel s r ok s' ev : finish (do_ack s r ok) = (s', ev) -> arel s s'.
Proof. intros H. eapply (finish_f_ar (fun s r => do_ack s r ok)); [|exact H|apply arel_refl]. intros. eapply do_ack_ar; eauto. Qed.

(* one registration *)
Lemma register_inv cfg hist st r st' ev :
  ainv cfg hist st -> reg_fresh st r = true -> register st r = (st', ev) -> ainv cfg hist st'.
Proof.
  intros I F H. unfold register in H. cbv zeta in H. cbn [a_db a_cfg a_reg a_next] in H.
  apply andb_prop in F. destruct F as [F0 Fr]. apply N.eqb_eq in F0. apply negb_true_iff in Fr.
  pose proof I as [I1 I2 I3 I4 I5 I6].
  match type of H with (match ?x with Some _ => _ | None => _ end) = _ => destruct x eqn:Eg end.
  2: { inv H. constructor; cbn [a_db a_cfg a_reg a_next]; auto.
       - intros e He. specialize (I2 e He). lia.
       - intros i ok Hi. apply I6. lia. }
  match type of H with (if ?c then _ else _) = _ => destruct c end.
  - destruct (finish (do_ack (a_db st) r false)) as [s1 e1] eqn:E. inv H.
    apply finish_do_ack_arel in E.
    constructor; cbn [a_db a_cfg a_reg a_next]; auto.
    + intros e He. specialize (I2 e He). lia.
    + intros e He. eapply entry_ok_arel; eauto.
    + intros i ok Hi. apply I6. lia.
  - inv H. constructor; cbn [a_db a_cfg a_reg a_next]; auto.
    + intros e He. apply in_app_or in He. destruct He as [He|[<-|[]]]; [specialize (I2 e He); lia|cbn; lia].
    + rewrite map_app. cbn. apply NoDup_app_one; auto. intros Hin. apply in_map_iff in Hin. destruct Hin as (e & E1 & E2).
      specialize (I2 e E2). lia.
    + rewrite map_app. cbn. apply NoDup_app_one; auto. apply registered_false; auto.
    + intros e He. apply in_app_or in He. destruct He as [He|[<-|[]]].
      * assert (Hn : snd (snd e) <> r).
        { intros Heq. apply (registered_false _ _ Fr). apply in_map_iff. exists e. auto. }
        specialize (I5 e He). unfold entry_ok in *. cbv zeta in *. rewrite getl_updl.
        destruct (r =? snd (snd e)) eqn:Eq; [apply N.eqb_eq in Eq; congruence|]. exact I5.
      * unfold entry_ok. cbv zeta. cbn [fst snd]. rewrite getl_updl, N.eqb_refl.
        destruct (aget (store (a_db st)) r) eqn:Es; [|left; reflexivity]. cbn.
        destruct (N.eq_dec (a_cfg st) 0) as [Z|Z]; [right; left; exact Z|]. right. right.
        rewrite (I6 (a_next st) true), (I6 (a_next st) false) by lia. repeat split; lia.
    + intros i ok Hi. apply I6. lia.
Qed.

(* one dropped registration (ProcessLeaderPushUnLock): no hypothesis needed *)
Lemma ainv_drop cfg hist st i s' :
  ainv cfg hist st -> arel (a_db st) s' -> ainv cfg hist (mkA s' (a_cfg st) (reg_del (a_reg st) i) (a_next st)).
Proof.
  intros [I1 I2 I3 I4 I5 I6] A. constructor; cbn [a_db a_cfg a_reg a_next]; auto.
  - intros e He. unfold reg_del in He. apply filter_In in He. apply I2. tauto.
  - unfold reg_del. clear -I3. induction (a_reg st) as [|x l IH]; simpl; auto. inversion I3; subst.
    destruct (negb (fst x =? i)); simpl; auto. constructor; auto. intros Hin. apply in_map_iff in Hin.
    destruct Hin as (y & E & Hy). apply filter_In in Hy. apply H1. rewrite <- E. apply in_map. tauto.
  - unfold reg_del. clear -I4. induction (a_reg st) as [|x l IH]; simpl; auto. inversion I4; subst.
    destruct (negb (fst x =? i)); simpl; auto. constructor; auto. intros Hin. apply in_map_iff in Hin.
    destruct Hin as (y & E & Hy). apply filter_In in Hy. apply H1. rewrite <- E. apply (in_map (fun e => snd (snd e))). tauto.
  - intros e He. unfold reg_del in He. apply filter_In in He. eapply entry_ok_arel; eauto. apply I5. tauto.
Qed.

Lemma unregister_inv cfg hist st r st' ev : ainv cfg hist st -> unregister st r = (st', ev) -> ainv cfg hist st'.
Proof.
  intros I H. unfold unregister in H. cbv zeta in H.
  destruct (aget (store (a_db st)) r) as [l|]; [|inv H; auto].
  destruct (reg_find_req (a_reg st) (c_req (l_cmd l))) as [[i r0]|]; [|inv H; auto].
  destruct (finish (do_ack (a_db st) r false)) as [s1 e1] eqn:E. inv H.
  apply ainv_drop; auto. eapply finish_do_ack_arel; eauto.
Qed.

Lemma post_go_inv cfg hist fuel : forall st todo acc st' ev,
  ainv cfg hist st -> post_ok fuel st todo = true -> post_go fuel st todo acc = (st', ev) -> ainv cfg hist st'.
Proof.
  induction fuel as [|f IH]; simpl; intros st todo acc st' ev I OK H.
  - inv H. auto.
  - destruct todo as [|e rest]; [inv H; auto|].
    destruct e; eauto.
    destruct (a_ref r) as [x|] eqn:Ar; eauto. destruct (leader (a_db st)) eqn:Ld; eauto.
    destruct (a_lock r) eqn:Al.
    + apply andb_prop in OK. destruct OK as [Fr OK].
      destruct (register st x) as [st1 e1] eqn:E. eapply IH; [|exact OK|exact H]. eapply register_inv; eauto.
    + destruct (unregister st x) as [st1 e1] eqn:E. eapply IH; [|exact OK|exact H]. eapply unregister_inv; eauto.
Qed.

Lemma with_post_inv cfg hist st s ev st' ev' :
  ainv cfg hist (mkA s (a_cfg st) (a_reg st) (a_next st)) ->
  with_post_ok st (s, ev) = true -> with_post st (s, ev) = (st', ev') -> ainv cfg hist st'.
Proof. unfold with_post, with_post_ok. intros I OK H. eapply post_go_inv; eauto. Qed.

(* counts after one more action *)
Lemma count_other hist a i ok : is_evt i ok a = false -> count_evt (hist ++ [a]) i ok = count_evt hist i ok.
Proof. intros H. rewrite count_evt_app, H. lia. Qed.

Lemma ainv_hist_act cfg hist st a : ainv cfg hist st -> ainv cfg (hist ++ [AAct a]) st.
Proof.
  intros [I1 I2 I3 I4 I5 I6]. constructor; auto.
  - intros e He. specialize (I5 e He). unfold entry_ok in *. cbv zeta in *. rewrite !count_other by reflexivity. exact I5.
  - intros i ok Hi. rewrite count_other by reflexivity. auto.
Qed.

Lemma reg_find_in reg i v : reg_find reg i = Some v -> In (i, v) reg.
Proof.
  induction reg as [|[j w] rest IH]; simpl; [discriminate|]. destruct (j =? i) eqn:E.
  - intros H. inv H. apply N.eqb_eq in E. subst. left. reflexivity.
  - intros H. right. auto.
Qed.
Lemma reg_find_none reg i : reg_find reg i = None -> forall e, In e reg -> fst e <> i.
Proof.
  induction reg as [|[j w] rest IH]; simpl; [intros _ e []|]. destruct (j =? i) eqn:E; [discriminate|].
  intros H e [<-|He]; [apply N.eqb_neq in E; exact E|auto].
Qed.
Lemma reg_del_in reg i e : In e (reg_del reg i) -> In e reg /\ fst e <> i.
Proof.
  unfold reg_del. intros H. apply filter_In in H. destruct H as [H1 H2]. split; auto.
  apply negb_true_iff, N.eqb_neq in H2. exact H2.
Qed.
Lemma NoDup_map_filter {A B} (f : A -> B) p (l : list A) : NoDup (map f l) -> NoDup (map f (filter p l)).
Proof.
  induction l as [|x l IH]; simpl; auto. intros N. inversion N; subst. destruct (p x); simpl; auto.
  constructor; auto. intros Hin. apply in_map_iff in Hin. destruct Hin as (y & E & Hy). apply filter_In in Hy.
  apply H1. rewrite <- E. apply in_map. tauto.
Qed.
Lemma NoDup_fst_unique (reg : list (N * (N * ref))) e1 e2 :
  NoDup (map fst reg) -> In e1 reg -> In e2 reg -> fst e1 = fst e2 -> e1 = e2.
Proof.
  induction reg as [|x rest IH]; simpl; [intros _ []|]. intros N H1 H2 E. inversion N; subst.
  destruct H1 as [<-|H1], H2 as [<-|H2]; auto.
  - exfalso. apply H3. rewrite E. apply in_map; auto.
  - exfalso. apply H3. rewrite <- E. apply in_map; auto.
Qed.
Lemma NoDup_ref_unique (reg : list (N * (N * ref))) e1 e2 :
  NoDup (map (fun e => snd (snd e)) reg) -> In e1 reg -> In e2 reg -> snd (snd e1) = snd (snd e2) -> e1 = e2.
Proof.
  induction reg as [|x rest IH]; simpl; [intros _ []|]. intros N H1 H2 E. inversion N; subst.
  destruct H1 as [<-|H1], H2 as [<-|H2]; auto.
  - exfalso. apply H3. rewrite E. apply (in_map (fun e => snd (snd e))); auto.
  - exfalso. apply H3. rewrite <- E. apply (in_map (fun e => snd (snd e))); auto.
Qed.

(* the invariant for the entries other than i, after an event for i, whatever arel-change the database made *)
Lemma ainv_after_evt cfg hist st i ok s' :
  ainv cfg hist st -> i < a_next st ->
  (forall e, In e (a_reg st) -> fst e <> i -> ack_step (l_ack (getl (a_db st) (snd (snd e)))) (l_ack (getl s' (snd (snd e))))) ->
  ainv cfg (hist ++ [AAckEvt i ok]) (mkA s' (a_cfg st) (reg_del (a_reg st) i) (a_next st)).
Proof.
  intros [I1 I2 I3 I4 I5 I6] Hi A. constructor; cbn [a_db a_cfg a_reg a_next]; auto.
  - intros e He. apply reg_del_in in He. apply I2. tauto.
  - apply NoDup_map_filter; auto.
  - apply NoDup_map_filter; auto.
  - intros e He. apply reg_del_in in He. destruct He as [He Hn].
    specialize (I5 e He). specialize (A e He Hn). unfold entry_ok in *. cbv zeta in *.
    assert (X : forall b, is_evt (fst e) b (AAckEvt i ok) = false).
    { intros b. cbn. destruct (i =? fst e) eqn:E; [apply N.eqb_eq in E; congruence|reflexivity]. }
    rewrite !count_other by apply X.
    destruct A as [E|[E|E]]; rewrite E; auto.
  - intros j b Hj. rewrite count_other; [apply I6; auto|]. cbn. destruct (i =? j) eqn:E; [apply N.eqb_eq in E; lia|reflexivity].
Qed.

Lemma ack_event_inv cfg hist st i ok st' ev :
  cfg < 256 -> ainv cfg hist st -> ack_event_ok st i ok = true -> ack_event st i ok = (st', ev) ->
  ainv cfg (hist ++ [AAckEvt i ok]) st'.
Proof.
  intros Hc I OK H. unfold ack_event_ok in OK. apply andb_prop in OK. destruct OK as [Hi OK]. apply N.ltb_lt in Hi.
  unfold ack_event in H. pose proof I as [I1 I2 I3 I4 I5 I6].
  destruct (reg_find (a_reg st) i) as [[q r]|] eqn:F.
  2:{ inv H. constructor; auto.
      - intros e He. specialize (I5 e He). pose proof (reg_find_none _ _ F e He) as Hn. unfold entry_ok in *. cbv zeta in *.
        assert (X : forall b, is_evt (fst e) b (AAckEvt i ok) = false).
        { intros b. cbn. destruct (i =? fst e) eqn:E; [apply N.eqb_eq in E; congruence|reflexivity]. }
        rewrite !count_other by apply X. exact I5.
      - intros j b Hj. rewrite count_other; [apply I6; auto|]. cbn. destruct (i =? j) eqn:E; [apply N.eqb_eq in E; lia|reflexivity]. }
  pose proof (reg_find_in _ _ _ F) as Hin.
  assert (OTH : forall e, In e (a_reg st) -> fst e <> i -> snd (snd e) <> r).
  { intros e He Hn Heq. apply Hn. change i with (fst (i, (q, r))). f_equal. eapply NoDup_ref_unique; eauto. }
  cbv zeta in H, OK.
  destruct (negb ok || (l_ack (getl (a_db st) r) =? 255)) eqn:C.
  - destruct (finish (do_ack (a_db st) r false)) as [s1 e1] eqn:E.
    eapply with_post_inv; [|exact OK|exact H]. cbn [a_cfg a_reg a_next].
    pose proof (finish_do_ack_arel _ _ _ _ _ E) as A.
    apply (ainv_after_evt cfg hist st i ok s1 I Hi). intros e He Hn. apply A.
  - apply orb_false_iff in C. destruct C as [Cok Ca]. apply negb_false_iff in Cok. subst ok. apply N.eqb_neq in Ca.
    set (a := l_ack (getl (a_db st) r)) in *.
    set (s1 := updl (a_db st) r (fun l => l <| l_ack := dec8 a |>)) in *.
    assert (S1 : forall e, In e (a_reg st) -> fst e <> i -> getl s1 (snd (snd e)) = getl (a_db st) (snd (snd e))).
    { intros e He Hn. unfold s1. rewrite getl_updl. destruct (r =? snd (snd e)) eqn:Eq; [|reflexivity].
      apply N.eqb_eq in Eq. exfalso. eapply OTH; eauto. }
    destruct (0 <? dec8 a) eqn:C0.
    + inv H. pose proof (I5 _ Hin) as En. unfold entry_ok in En. cbv zeta in En. cbn [fst snd] in En. fold a in En.
      constructor; cbn [a_db a_cfg a_reg a_next]; auto.
      * intros e He. destruct (N.eq_dec (fst e) i) as [Ei|Ei].
        -- assert (e = (i, (q, r))) by (eapply NoDup_fst_unique; eauto). subst e.
           unfold entry_ok. cbv zeta. cbn [fst snd]. fold s1.
           assert (G : l_ack (getl s1 r) = dec8 a).
           { unfold s1. rewrite getl_updl, N.eqb_refl. destruct (aget (store (a_db st)) r) eqn:Es; [reflexivity|].
             exfalso. apply Ca. unfold a, getl. rewrite Es. reflexivity. }
           rewrite G. apply N.ltb_lt in C0.
           destruct En as [En|[En|(E1 & E2 & E3)]]; [congruence| |].
           ++ left. rewrite En. reflexivity.
           ++ right. right. rewrite !count_evt_app. cbn [is_evt]. rewrite N.eqb_refl. cbn [Bool.eqb andb].
              assert (a < 256) by lia. unfold dec8 in *. 
              assert (Hd : (a + 255) mod 256 = a - 1).
              { replace (a + 255) with ((a - 1) + 1 * 256) by lia. rewrite N.mod_add by lia. apply N.mod_small. lia. }
              rewrite Hd in *. repeat split; lia.
        -- specialize (I5 e He). unfold entry_ok in *. cbv zeta in *. fold s1. rewrite (S1 e He Ei).
           assert (X : forall b, is_evt (fst e) b (AAckEvt i true) = false).
           { intros b. cbn. destruct (i =? fst e) eqn:E; [apply N.eqb_eq in E; congruence|reflexivity]. }
           rewrite !count_other by apply X. exact I5.
      * intros j b Hj. rewrite count_other; [apply I6; auto|]. cbn. destruct (i =? j) eqn:E; [apply N.eqb_eq in E; lia|reflexivity].
    + destruct (finish (do_ack s1 r true)) as [s2 e2] eqn:E.
      eapply with_post_inv; [|exact OK|exact H]. cbn [a_cfg a_reg a_next].
      pose proof (finish_do_ack_arel _ _ _ _ _ E) as A.
      apply (ainv_after_evt cfg hist st i true s2 I Hi). intros e He Hn. rewrite <- (S1 e He Hn). apply A.
Qed.

Lemma astep_inv cfg hist st a st' ev :
  cfg < 256 -> ainv cfg hist st -> astep_ok st a = true -> astep st a = (st', ev) -> ainv cfg (hist ++ [a]) st'.
Proof.
  intros Hc I OK H. destruct a as [a|i ok].
  - assert (OK' : with_post_ok st (step (a_db st) a) = true) by (destruct a; auto; discriminate).
    cbn [astep] in H. destruct (step (a_db st) a) as [s1 e1] eqn:E.
    eapply with_post_inv; [|exact OK'|exact H].
    apply ainv_hist_act. apply ainv_db; auto. eapply step_arel; eauto.
  - eapply ack_event_inv; eauto.
Qed.

Lemma ainv_init t0 aoft cfg : ainv cfg [] (init_astate t0 aoft cfg).
Proof.
  constructor; cbn [init_astate a_db a_cfg a_reg a_next map].
  - reflexivity.
  - intros e [].
  - constructor.
  - constructor.
  - intros e [].
  - intros i ok _. reflexivity.
Qed.

Lemma arun_inv cfg : cfg < 256 -> forall acts hist st,
  ainv cfg hist st -> arun_ok st acts = true -> ainv cfg (hist ++ acts) (fst (arun st acts)).
Proof.
  intros Hc. induction acts as [|a rest IH]; simpl; intros hist st I OK.
  - rewrite app_nil_r. exact I.
  - apply andb_prop in OK. destruct OK as [O1 O2].
    destruct (astep st a) as [st1 e1] eqn:E. cbn [fst] in O2.
    destruct (arun st1 rest) as [st2 es] eqn:E2. cbn [fst].
    replace (hist ++ a :: rest) with ((hist ++ [a]) ++ rest) by (rewrite <- app_assoc; reflexivity).
    specialize (IH (hist ++ [a]) st1 (astep_inv _ _ _ _ _ _ Hc I O1 E) O2). rewrite E2 in IH. exact IH.
Qed.

Lemma arun_ok_app st a1 a2 : arun_ok st (a1 ++ a2) = arun_ok st a1 && arun_ok (fst (arun st a1)) a2.
Proof.
  revert st. induction a1 as [|a rest IH]; simpl; intros st; [reflexivity|].
  destruct (astep st a) as [st1 e1] eqn:E. cbn [fst]. destruct (arun st1 rest) as [st2 es] eqn:E2. cbn [fst].
  rewrite IH, E2. cbn [fst]. rewrite andb_assoc. reflexivity.
Qed.

(* ------------------------------------------------------------------ the run theorem *)
(* For every run from the initial state in which registrations are fresh: whenever an acknowledgement event for
   registration i makes the layer act on a still-pending record (any event at all comes out: it ran DoAckLock(true)),
   this was the a_cfg-th positive event for i and there was no negative one. *)
Theorem ack_completion_needs_quorum : forall cfg t0 aoft pre i q r,
  cfg < 256 ->
  arun_ok (init_astate t0 aoft cfg) pre = true ->
  let st := fst (arun (init_astate t0 aoft cfg) pre) in
  reg_find (a_reg st) i = Some (q, r) ->
  l_ack (getl (a_db st) r) <> 255 ->
  snd (ack_event st i true) <> [] ->
  (count_evt pre i true + 1 = N.to_nat cfg)%nat /\ count_evt pre i false = 0%nat
  /\ ack_event st i true = with_post (drop_reg (set_ack st r 0) i) (finish (do_ack (a_db (set_ack st r 0)) r true)).
Proof.
  intros cfg t0 aoft pre i q r Hc OK st F A Ev.
  pose proof (arun_inv cfg Hc pre [] _ (ainv_init t0 aoft cfg) OK) as I. cbn [app] in I. fold st in I.
  destruct I as [I1 I2 I3 I4 I5 I6].
  pose proof (I5 _ (reg_find_in _ _ _ F)) as En. unfold entry_ok in En. cbv zeta in En. cbn [fst snd] in En.
  set (a := l_ack (getl (a_db st) r)) in *.
  destruct (0 <? dec8 a) eqn:C0.
  - exfalso. apply Ev. apply N.ltb_lt in C0. rewrite (ack_event_counts st i q r F A C0). reflexivity.
  - apply N.ltb_ge in C0. assert (D0 : dec8 a = 0) by lia.
    destruct En as [En|[En|(E1 & E2 & E3)]]; [congruence| |].
    + rewrite En in D0. vm_compute in D0. discriminate.
    + assert (a < 256) by lia. unfold dec8 in D0.
      assert (a = 1).
      { replace (a + 255) with ((a - 1) + 1 * 256) in D0 by lia. rewrite N.mod_add in D0 by lia.
        rewrite N.mod_small in D0 by lia. lia. }
      split; [lia|]. split; [exact E3|]. apply (ack_event_completes st i q r F A). unfold dec8. fold a. rewrite H0. reflexivity.
Qed.
