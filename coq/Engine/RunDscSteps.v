(* Run-level theorems, part 4 (property C01): where a lock record can START to hold, in every state.
   Only two places: the grant of one wake-up iteration (wake_grant, the waiter it serves) and Lock (the new record
   `next s`, or the hold found by the lookup when it is re-entered / updated).  Everything else satisfies the descent
   frame fr0 of RunDsc.v. *)
From Coq Require Import String ZifyN ZifyBool ZifyNat.
From Slock Require Import Engine.Types Engine.Queues Engine.Timers Engine.Engine Engine.Engine2 Engine.LocalBase
  Engine.InvLockDefs Engine.RunDsc.
Open Scope N_scope.

(* like fr0, except that record r may start to hold: at depth 1 *)
Definition frx (r : ref) (s s' : db) : Prop :=
  forall r0 l', aget (store s') r0 = Some l' ->
    exists l, aget (store s) r0 = Some l /\ l_key l' = l_key l /\ l_cmd l' = l_cmd l
              /\ (l_locked l' <= l_locked l \/ (r0 = r /\ l_locked l' <= 1)).

Lemma fr0_frx r s s' : fr0 s s' -> frx r s s'.
Proof. intros H r0 l' G. destruct (H _ _ G) as (l & G1 & A & B & C). exists l. auto. Qed.

Lemma frx_fr0 r s x x' : frx r s x -> fr0 x x' -> frx r s x'.
Proof.
  intros H1 H2 r0 l3 G3. destruct (H2 _ _ G3) as (l2 & G2 & A2 & B2 & C2). destruct (H1 _ _ G2) as (l1 & G1 & A1 & B1 & C1).
  exists l1. repeat split; try congruence. destruct C1 as [C1|[C1 C1']]; [left; lia|right; split; auto; lia].
Qed.

Lemma fr0_frx_l r s x x' : fr0 s x -> frx r x x' -> frx r s x'.
Proof.
  intros H1 H2 r0 l3 G3. destruct (H2 _ _ G3) as (l2 & G2 & A2 & B2 & C2). destruct (H1 _ _ G2) as (l1 & G1 & A1 & B1 & C1).
  exists l1. repeat split; try congruence. destruct C2 as [C2|[C2 C2']]; [left; lia|right; split; auto].
Qed.

(* ---------------------------------------------------------------- AddLock *)
Lemma frx_add_lock x k r : aget (store x) r <> None -> frx r x (add_lock x k r).
Proof.
  intros Hp. destruct (aget (store x) r) as [l0|] eqn:E0; [|congruence]. clear Hp.
  unfold add_lock. cbv zeta.
  assert (Hg : getl x r = l0) by (unfold getl; rewrite E0; reflexivity). rewrite Hg. clear Hg.
  match goal with |- context [setl x r ?lx] => set (l1 := lx) end.
  assert (K1 : l_key l1 = l_key l0 /\ l_cmd l1 = l_cmd l0 /\ l_locked l1 = 1).
  { subst l1. repeat match goal with |- context [if ?b then _ else _] => destruct b end; cbn; auto. }
  assert (F1 : frx r x (setl x r l1)).
  { intros r0 l' G. change (store (setl x r l1)) with (aset (store x) r l1) in G. rewrite aget_aset in G.
    destruct (r =? r0) eqn:E.
    - apply N.eqb_eq in E. subst r0. inv G. exists l0. destruct K1 as (K1 & K2 & K3). repeat split; auto. right. split; auto. lia.
    - exists l'. repeat split; auto. left. lia. }
  clearbody l1.
  destruct (m_cur (getm x k)).
  - destruct (hq_push (setl x r l1) _ r) as [x2 q2] eqn:E2.
    eapply frx_fr0; [exact F1|]. apply fr0_updm. eapply fr0_hq_push; [exact E2|apply fr0_refl].
  - eapply frx_fr0; [exact F1|]. apply fr0_updm, fr0_refl.
Qed.

(* ---------------------------------------------------------------- wake_grant *)
Lemma present_updl s r f r' : aget (store s) r' <> None -> aget (store (updl s r f)) r' <> None.
Proof. rewrite aget_store_updl. destruct (r =? r') eqn:E; auto. apply N.eqb_eq in E. subst. destruct (aget (store s) r'); cbn; congruence. Qed.
Lemma present_updm s k f r' : aget (store s) r' <> None -> aget (store (updm s k f)) r' <> None.
Proof. rewrite store_updm. auto. Qed.
Lemma present_remove_long_timeout s r r' : aget (store s) r' <> None -> aget (store (remove_long_timeout s r)) r' <> None.
Proof.
  unfold remove_long_timeout. destruct (aget (tlong s) _); intros H; apply present_updl; auto.
Qed.

Lemma frx_wake_grant s k r via : aget (store s) r <> None -> frx r s (fst (wake_grant s k r via)).
Proof.
  intros Hp. destruct (wake_grant s k r via) as [s' ev] eqn:H. cbn [fst]. unfold wake_grant in H. cbv zeta in H.
  match type of H with (if ?c then _ else _) = _ => destruct c end.
  - pose proof (frx_add_lock s k r Hp) as F.
    repeat (split_hyp H); inv_tuple H.
    all: solve [eapply frx_fr0; [exact F|]; frs].
  - set (x1 := if l_long (getl s r) then remove_long_timeout (updl s r (fun l => l <| l_timeouted := true |>)) r
               else updl s r (fun l => l <| l_timeouted := true |>)) in *.
    assert (F1 : fr0 s x1) by (subst x1; frs).
    assert (P1 : aget (store x1) r <> None).
    { subst x1. destruct (l_long (getl s r)); [apply present_remove_long_timeout|]; apply present_updl; auto. }
    clearbody x1.
    pose proof (frx_add_lock x1 k r P1) as F.
    repeat (split_hyp H); inv_tuple H.
    all: try solve [eapply fr0_frx_l; [exact F1|]; eapply frx_fr0; [exact F|]; frs].
    all: apply fr0_frx; eapply fr0_trans; [exact F1|]; frs.
Qed.

(* one iteration of the pass: either nothing starts to hold, or it is the grant of the first live waiter r of the
   state s1 after GetWaitLock, and doLock held there *)
Lemma wake_iter_dsc s w s' ev res : wake_iter s w = (s', ev, res) ->
  fr0 s s'
  \/ exists s1 r, get_wait_lock s (w_key w) = (s1, Some r) /\ do_lock s1 (w_key w) r = true
                  /\ s' = fst (wake_grant s1 (w_key w) r (w_conn w)) /\ fr0 s s1.
Proof.
  unfold wake_iter. intros H.
  destruct (aget (mgrs s) (w_key w)) as [m|]; [|inv_tuple H; left; apply fr0_refl].
  destruct (negb (m_waited m)); [inv_tuple H; left; apply fr0_refl|].
  destruct (get_wait_lock s (w_key w)) as [s1 wl] eqn:E1.
  assert (F1 : fr0 s s1) by (eapply fr0_get_wait_lock; [exact E1|apply fr0_refl]).
  destruct wl as [r|]; [|inv_tuple H; left; frs].
  destruct (do_lock s1 (w_key w) r) eqn:Hdo; cbn [negb] in H; [|inv_tuple H; left; exact F1].
  destruct (wake_grant s1 (w_key w) r (w_conn w)) as [s2 ev2] eqn:E2. inv_tuple H.
  right. exists s1, r. rewrite E2. auto.
Qed.

(* ---------------------------------------------------------------- GetOrNewLock *)
Lemma new_lock_store s k conn c x r : new_lock s k conn c = (x, r) ->
  r = next s /\ l_key (getl x r) = k /\ l_cmd (getl x r) = c /\ l_locked (getl x r) = 0 /\ aget (store x) r <> None
  /\ (forall r0, r0 <> r -> aget (store x) r0 = aget (store s) r0)
  /\ m_locked (getm x k) = m_locked (getm s k).
Proof.
  unfold new_lock. cbv zeta. intros H. apply tuple2_inv in H. destruct H as [Hx Hr]. subst r.
  match type of Hx with updm (?s0 <| store := aset _ _ ?l0 |> <| next := _ |>) _ _ = _ => set (l := l0) in * end.
  assert (Hs : forall r0, aget (store x) r0 = if next s =? r0 then Some l else aget (store s) r0).
  { intros r0. rewrite <- Hx. rewrite store_updm. cbn [store set]. apply aget_aset. }
  split; [reflexivity|]. unfold getl. rewrite !Hs, N.eqb_refl.
  split; [reflexivity|]. split; [reflexivity|]. split; [reflexivity|]. split; [discriminate|]. split.
  - intros r0 Hn. rewrite Hs. destruct (next s =? r0) eqn:E; auto. apply N.eqb_eq in E. congruence.
  - rewrite <- Hx. unfold getm. rewrite aget_mgrs_updm, N.eqb_refl. cbn [mgrs set]. destruct (aget (mgrs s) k); reflexivity.
Qed.

(* ---------------------------------------------------------------- Lock, the new-record tail *)
Definition tail_dsc (s : db) (k : N) (c : cmd) (s' : db) : Prop :=
  forall r0 l', aget (store s') r0 = Some l' ->
    (r0 = next s /\ l_key l' = k /\ l_cmd l' = c /\ l_locked l' <= 1
     /\ (0 < l_locked l' -> exists cc, do_lock_rule (m_locked (getm s k)) cc (c_count c) = true))
    \/ (r0 <> next s /\ exists l, aget (store s) r0 = Some l /\ same3 l l').

Lemma tail_of_frx s k c x r s' :
  r = next s -> l_key (getl x r) = k -> l_cmd (getl x r) = c -> l_locked (getl x r) = 0 -> aget (store x) r <> None ->
  (forall r0, r0 <> r -> aget (store x) r0 = aget (store s) r0) ->
  (exists cc, do_lock_rule (m_locked (getm s k)) cc (c_count c) = true) ->
  frx r x s' -> tail_dsc s k c s'.
Proof.
  intros Hr Hk Hc Hd Hp Ho Hrule F r0 l' G. destruct (F _ _ G) as (l & G1 & A & B & C).
  destruct (N.eq_dec r0 r) as [E|E].
  - left. subst r0. unfold getl in Hk, Hc, Hd. rewrite G1 in Hk, Hc, Hd. subst r. repeat split; try congruence; auto.
    destruct C as [C|[_ C]]; lia.
  - right. rewrite Hr in E. split; auto. exists l. rewrite <- Ho by (rewrite Hr; auto). split; auto.
    unfold same3. repeat split; auto. destruct C as [C|[C _]]; [auto|]. rewrite Hr in C. congruence.
Qed.

Lemma tail_of_fr0 s k c x r s' :
  r = next s -> l_key (getl x r) = k -> l_cmd (getl x r) = c -> l_locked (getl x r) = 0 ->
  (forall r0, r0 <> r -> aget (store x) r0 = aget (store s) r0) ->
  fr0 x s' -> tail_dsc s k c s'.
Proof.
  intros Hr Hk Hc Hd Ho F r0 l' G. destruct (F _ _ G) as (l & G1 & A & B & C).
  destruct (N.eq_dec r0 r) as [E|E].
  - left. subst r0. unfold getl in Hk, Hc, Hd. rewrite G1 in Hk, Hc, Hd. subst r. repeat split; try congruence; try lia.
  - right. rewrite Hr in E. split; auto. exists l. rewrite <- Ho by (rewrite Hr; auto). split; auto.
    unfold same3. auto.
Qed.

Lemma ls_tail_dsc s conn c k waited s' ev w : ls_tail s conn c k waited = (s', ev, w) -> tail_dsc s k c s'.
Proof.
  unfold ls_tail. intros H. destruct (new_lock s k conn c) as [x r] eqn:En.
  destruct (new_lock_store _ _ _ _ _ _ En) as (Hr & Hk & Hc & Hd & Hp & Ho & Hm).
  cbv zeta in H.
  match type of H with (if ?g && do_lock x k r then _ else _) = _ => destruct (g && do_lock x k r) eqn:Eg end.
  - apply andb_prop in Eg. destruct Eg as [_ Eg]. unfold do_lock in Eg. rewrite Hm, Hc in Eg.
    assert (Hrule : exists cc, do_lock_rule (m_locked (getm s k)) cc (c_count c) = true) by eauto.
    pose proof (frx_add_lock x k r Hp) as FA.
    eapply tail_of_frx; eauto.
    repeat (split_hyp H); inv_tuple H.
    all: try solve [eapply frx_fr0; [exact FA|]; frs].
    all: apply fr0_frx; frs.
  - eapply tail_of_fr0; eauto.
    repeat (split_hyp H); inv_tuple H.
    all: frs.
Qed.

(* ---------------------------------------------------------------- Lock on a hold found by the lookup *)
(* like fr0, except that the command of record r may be replaced by one with Count n *)
Definition fcm (r : ref) (n : N) (s s' : db) : Prop :=
  forall r0 l', aget (store s') r0 = Some l' ->
    exists l, aget (store s) r0 = Some l /\ l_key l' = l_key l /\ l_locked l' <= l_locked l
              /\ (l_cmd l' = l_cmd l \/ (r0 = r /\ c_count (l_cmd l') = n)).

(* ... and it may gain one level if its depth was at most p (and below 255) *)
Definition frc (r : ref) (n p : N) (s s' : db) : Prop :=
  forall r0 l', aget (store s') r0 = Some l' ->
    exists l, aget (store s) r0 = Some l /\ l_key l' = l_key l
              /\ (l_cmd l' = l_cmd l \/ (r0 = r /\ c_count (l_cmd l') = n))
              /\ (l_locked l' <= l_locked l \/ (r0 = r /\ l_locked l' <= l_locked l + 1 /\ l_locked l <= p)).

Lemma fr0_fcm r n s s' : fr0 s s' -> fcm r n s s'.
Proof. intros H r0 l' G. destruct (H _ _ G) as (l & G1 & A & B & C). exists l. auto. Qed.

Lemma fcm_trans r n a b c : fcm r n a b -> fcm r n b c -> fcm r n a c.
Proof.
  intros H1 H2 r0 l3 G3. destruct (H2 _ _ G3) as (l2 & G2 & A2 & B2 & C2). destruct (H1 _ _ G2) as (l1 & G1 & A1 & B1 & C1).
  exists l1. repeat split; try congruence; try lia.
  destruct C2 as [C2|C2]; auto. destruct C1 as [C1|[C1 C1']]; [left; congruence|right; split; auto; congruence].
Qed.

Lemma fcm_fr0 r n s x x' : fcm r n s x -> fr0 x x' -> fcm r n s x'.
Proof. intros H1 H2. eapply fcm_trans; [exact H1|apply fr0_fcm; exact H2]. Qed.

Lemma fcm_frc r n p s s' : fcm r n s s' -> frc r n p s s'.
Proof. intros H r0 l' G. destruct (H _ _ G) as (l & G1 & A & B & C). exists l. auto. Qed.

(* one level gained, then command changes *)
Lemma frc_of_inc r n p s x s' :
  (forall r0 l', aget (store x) r0 = Some l' ->
     exists l, aget (store s) r0 = Some l /\ l_key l' = l_key l /\ l_cmd l' = l_cmd l
               /\ (l_locked l' <= l_locked l \/ (r0 = r /\ l_locked l' <= l_locked l + 1 /\ l_locked l <= p))) ->
  fcm r n x s' -> frc r n p s s'.
Proof.
  intros H1 H2 r0 l3 G3. destruct (H2 _ _ G3) as (l2 & G2 & A2 & B2 & C2). destruct (H1 _ _ G2) as (l1 & G1 & A1 & B1 & C1).
  exists l1. split; [exact G1|]. split; [congruence|]. split.
  - destruct C2 as [C2|C2]; [left; congruence|right; auto].
  - destruct C1 as [C1|(C1 & C1' & C1'')]; [left; lia|right; repeat split; auto; lia].
Qed.

Lemma fcm_update_locked_lock x k r c : aget (store x) r <> None -> fcm r (c_count c) x (update_locked_lock x k r c).
Proof.
  intros Hp. destruct (aget (store x) r) as [l0|] eqn:E0; [|congruence]. clear Hp.
  unfold update_locked_lock. cbv zeta.
  assert (Hg : getl x r = l0) by (unfold getl; rewrite E0; reflexivity). rewrite Hg. clear Hg.
  match goal with |- fcm _ _ _ (setl x r ?lx) => set (l1 := lx) end.
  assert (K1 : l_key l1 = l_key l0 /\ l_cmd l1 = c /\ l_locked l1 = l_locked l0).
  { subst l1. repeat match goal with |- context [if ?b then _ else _] => destruct b end; cbn; auto. }
  clearbody l1. intros r0 l' G. change (store (setl x r l1)) with (aset (store x) r l1) in G. rewrite aget_aset in G.
  destruct (r =? r0) eqn:E.
  - apply N.eqb_eq in E. subst r0. inv G. exists l0. destruct K1 as (K1 & K2 & K3). repeat split; auto; [lia|].
    right. rewrite K2. auto.
  - exists l'. repeat split; auto. lia.
Qed.

Lemma present_update_locked_lock x k r c r' : aget (store x) r' <> None -> aget (store (update_locked_lock x k r c)) r' <> None.
Proof.
  unfold update_locked_lock. cbv zeta. intros H.
  match goal with |- aget (store (setl x r ?lx)) r' <> None => change (store (setl x r lx)) with (aset (store x) r lx) end.
  rewrite aget_aset. destruct (r =? r'); [discriminate|auto].
Qed.

Lemma fcm_update_and_rearm x k r c x' ev :
  aget (store x) r <> None -> update_and_rearm x k r c = (x', ev) -> fcm r (c_count c) x x'.
Proof.
  intros Hp H. pose proof (fcm_update_locked_lock x k r c Hp) as F. unfold update_and_rearm in H. cbv zeta in H.
  repeat (split_hyp H); inv_tuple H; auto.
  eapply fcm_fr0; [exact F|]. frs.
Qed.

Lemma present_process_data x k r c b x' ev r' : process_data x k r c b = (x', ev) -> aget (store x) r' <> None -> aget (store x') r' <> None.
Proof.
  unfold process_data. intros H Hp. repeat (split_hyp H); inv_tuple H; auto.
  apply present_updl, present_updm. auto.
Qed.

Lemma some_inj {A} (a b : A) : Some a = Some b -> a = b.
Proof. intros H. inversion H. reflexivity. Qed.

Lemma add8_le d : add8 d 1 <= d + 1.
Proof. unfold add8. apply N.mod_le. lia. Qed.

Lemma ls_relock_dsc s conn c1 k m r l ld s' ev w c' wt p :
  aget (store s) r <> None -> l_locked (getl s r) <= p ->
  ls_relock s conn c1 k m r l ld = (Some (s', ev, w), c', wt) -> s' = s \/ frc r (c_count c1) p s s'.
Proof.
  intros Hp Hg H. unfold ls_relock in H.
  destruct (c_expried c1 =? 0); [apply tuple3_inv in H; destruct H as (H & _ & _); inv H; auto|].
  right. cbv zeta in H.
  set (x1 := updl (updm s k (fun m => m <| m_locked := add32 (m_locked m) 1 |>)) r (fun l => l <| l_locked := add8 (l_locked l) 1 |>)) in *.
  assert (F1 : forall r0 l', aget (store x1) r0 = Some l' ->
     exists l, aget (store s) r0 = Some l /\ l_key l' = l_key l /\ l_cmd l' = l_cmd l
               /\ (l_locked l' <= l_locked l \/ (r0 = r /\ l_locked l' <= l_locked l + 1 /\ l_locked l <= p))).
  { subst x1. intros r0 l' G. rewrite aget_store_updl, store_updm in G. destruct (r =? r0) eqn:E.
    - apply N.eqb_eq in E. subst r0. destruct (aget (store s) r) as [l0|] eqn:E0; [|discriminate]. cbn in G. inv G.
      exists l0. cbn. repeat split; auto. right. unfold getl in Hg. rewrite E0 in Hg. repeat split; auto. apply add8_le.
    - exists l'. repeat split; auto. left. lia. }
  assert (P1 : aget (store x1) r <> None) by (subst x1; apply present_updl, present_updm; auto).
  clearbody x1.
  destruct (if has_data_flag c1 then process_data x1 k r c1 false else (x1, [])) as [x2 pev] eqn:E2.
  assert (F2 : fr0 x1 x2 /\ aget (store x2) r <> None).
  { destruct (has_data_flag c1); [|inv_tuple E2; split; [apply fr0_refl|auto]].
    split; [eapply fr0_process_data; [exact E2|apply fr0_refl]|eapply present_process_data; eauto]. }
  destruct F2 as [F2 P2].
  destruct (update_and_rearm x2 k r c1) as [x3 aev] eqn:E3.
  pose proof (fcm_update_and_rearm _ _ _ _ _ _ P2 E3) as F3.
  assert (F : fcm r (c_count c1) x1 x3) by (eapply fcm_trans; [apply fr0_fcm; exact F2|exact F3]).
  eapply frc_of_inc; [exact F1|].
  repeat (split_hyp H); apply tuple3_inv in H; destruct H as (H & _ & _); apply some_inj in H; inv_tuple H.
  all: eapply fcm_fr0; [exact F|]; frs.
Qed.

Lemma ls_update_dsc s conn c1 k m r l ld s' ev w c' wt :
  aget (store s) r <> None -> ls_update s conn c1 k m r l ld = (Some (s', ev, w), c', wt) -> fcm r (c_count c1) s s'.
Proof.
  intros Hp H. unfold ls_update in H.
  assert (TAIL : forall x1 pev eqx,
    fr0 s x1 -> aget (store x1) r <> None ->
    (if eqx : bool then
       (Some (x1, pev ++ [reply conn c1 R_LOCKED_ERROR (m_locked (getm x1 k)) (l_locked (getl x1 r)) ld], None), c1, m_waited m)
     else
       let '(s2, aev) := update_and_rearm x1 k r c1 in
       let s2 := updl s2 r (fun l => l <| l_conn := conn |>) in
       let from_aof := has (c_flag c1) LOCK_FLAG_FROM_AOF in
       if negb from_aof && has (c_tflag c1) TF_REQUIRE_ACKED && negb (l_aoftime (getl s2 r) =? 255) then
         let '(s3, e3) := push_lock_aof s2 k r AOF_FLAG_UPDATED in
         let s3 := updl s3 r (fun l => l <| l_refc := add8 (l_refc l) 1 |>) in
         (Some (s3, pev ++ aev ++ e3, None), c1, m_waited m)
       else
         let '(s3, e3) := if negb from_aof && l_isaof (getl s2 r) then push_lock_aof s2 k r AOF_FLAG_UPDATED else (s2, []) in
         (Some (s3, pev ++ aev ++ e3 ++ [reply conn c1 R_LOCKED_ERROR (m_locked (getm s3 k)) (l_locked (getl s3 r)) ld],
                Some (mkWake k (Some conn))), c1, m_waited m)) = (Some (s', ev, w), c', wt) ->
    fcm r (c_count c1) s s').
  { intros x1 pev eqx F1 P1 H1. destruct eqx.
    - apply tuple3_inv in H1. destruct H1 as (H1 & _ & _). apply some_inj in H1. inv_tuple H1. apply fr0_fcm. exact F1.
    - destruct (update_and_rearm x1 k r c1) as [x3 aev] eqn:E3.
      pose proof (fcm_update_and_rearm _ _ _ _ _ _ P1 E3) as F3.
      assert (F : fcm r (c_count c1) s x3) by (eapply fcm_trans; [apply fr0_fcm; exact F1|exact F3]).
      cbv zeta in H1.
      repeat (split_hyp H1); apply tuple3_inv in H1; destruct H1 as (H1 & _ & _); apply some_inj in H1; inv_tuple H1.
      all: eapply fcm_fr0; [exact F|]; frs. }
  destruct (has_data_flag c1).
  - destruct (process_data s k r c1 false) as [y pv] eqn:Ep. cbv beta iota zeta in H.
    eapply TAIL; [| |exact H].
    + eapply fr0_process_data; [exact Ep|apply fr0_refl].
    + eapply present_process_data; eauto.
  - cbv beta iota zeta in H. eapply TAIL; [| |exact H]; [apply fr0_refl|auto].
Qed.

(* the held phase *)
Lemma ls_held_dsc s conn c k m s' ev w c' wt :
  ((0 <? m_locked m) = true -> forall id r, get_locked_lock s m id = Some r -> aget (store s) r <> None) ->
  ls_held s conn c k m = (Some (s', ev, w), c', wt) ->
  s' = s \/ ((0 <? m_locked m) = true /\ exists id r, get_locked_lock s m id = Some r /\ frc r (c_count c) (c_rcount c) s s').
Proof.
  intros Hlk H. rewrite ls_held_eq in H.
  destruct (0 <? m_locked m) eqn:E0.
  2:{ repeat (split_hyp H); apply tuple3_inv in H; destruct H as (H & _ & _); try discriminate H.
      apply some_inj in H. inv_tuple H. auto. }
  specialize (Hlk eq_refl). cbv zeta in H.
  match type of H with context [if has (c_flag c) LOCK_FLAG_SHOW then ?a else c] =>
    set (c1 := if has (c_flag c) LOCK_FLAG_SHOW then a else c) in H end.
  assert (Hc1 : c_count c1 = c_count c /\ c_rcount c1 = c_rcount c) by (subst c1; destruct (has (c_flag c) LOCK_FLAG_SHOW); split; reflexivity).
  clearbody c1. destruct Hc1 as [Hc1 Hrc1].
  destruct (has (c_flag c) LOCK_FLAG_SHOW && negb (has (c_flag c) LOCK_FLAG_UPDATE)).
  { apply tuple3_inv in H. destruct H as (H & _ & _). apply some_inj in H. inv_tuple H. auto. }
  destruct (get_locked_lock s m (c_lockid c1)) as [r|] eqn:Eg; [|apply tuple3_inv in H; destruct H as (H & _ & _); discriminate H].
  pose proof (Hlk _ _ Eg) as Hp.
  destruct (negb (l_ack (getl s r) =? 255)).
  { apply tuple3_inv in H. destruct H as (H & _ & _). apply some_inj in H. inv_tuple H. auto. }
  destruct (has (c_flag c1) LOCK_FLAG_UPDATE).
  - right. split; auto. exists (c_lockid c1), r. split; auto. rewrite <- Hc1. apply fcm_frc. eapply ls_update_dsc; eauto.
  - match type of H with (if ?g then _ else _) = _ => destruct g eqn:Eg2 end.
    + apply andb_prop in Eg2. destruct Eg2 as [Eg2 _]. apply andb_prop in Eg2. destruct Eg2 as [_ Eg2]. apply N.leb_le in Eg2.
      destruct (ls_relock_dsc _ _ _ _ _ _ _ _ _ _ _ _ _ (c_rcount c1) Hp Eg2 H) as [->|F]; auto.
      right. split; auto. exists (c_lockid c1), r. split; auto. rewrite <- Hc1, <- Hrc1. exact F.
    + apply tuple3_inv in H. destruct H as (H & _ & _). apply some_inj in H. inv_tuple H. auto.
Qed.

(* ---------------------------------------------------------------- Lock *)
Lemma ls_mgr_facts s k :
  store (ls_mgr s k) = store s /\ next (ls_mgr s k) = next s /\ m_locked (getm (ls_mgr s k) k) = m_locked (getm s k).
Proof.
  unfold ls_mgr. destruct (aget (mgrs s) k) as [m|] eqn:E; auto. repeat split.
  unfold getm. change (mgrs (bump (fun n => n <| n_key := (n_key n + 1)%Z |>) (setm s k new_mgr))) with (aset (mgrs s) k new_mgr).
  rewrite aget_aset_same, E. reflexivity.
Qed.

Lemma ls_mgr_held s k : (0 <? m_locked (getm (ls_mgr s k) k)) = true -> ls_mgr s k = s /\ aget (mgrs s) k = Some (getm s k).
Proof.
  unfold ls_mgr, getm. destruct (aget (mgrs s) k) as [m|] eqn:E; [rewrite E; auto|].
  change (mgrs (bump (fun n => n <| n_key := (n_key n + 1)%Z |>) (setm s k new_mgr))) with (aset (mgrs s) k new_mgr).
  rewrite aget_aset_same. discriminate.
Qed.

(* what Lock does to the lock records: (1) nothing starts to hold and no command changes; or (2) the hold r found by the
   lookup on the request's key is re-entered / updated: its command may be replaced by one with the request's Count,
   it may gain one level if its depth was at most the request's Rcount;
   or (3) the new record `next s` is created for the request's key with the request's Count, and it holds something
   afterwards only if doLock accepted it against the key's `locked` counter of the pre-state *)
Definition lock_dsc (s : db) (c : cmd) (s' : db) : Prop :=
  fr0 s s'
  \/ (exists m id r, aget (mgrs s) (c_key c) = Some m /\ get_locked_lock s m id = Some r /\ frc r (c_count c) (c_rcount c) s s')
  \/ (exists c1, c_count c1 = c_count c /\ tail_dsc s (c_key c) c1 s').

Lemma lock_step_dsc s conn c s' ev w :
  (forall m id r, aget (mgrs s) (c_key c) = Some m -> get_locked_lock s m id = Some r -> aget (store s) r <> None) ->
  lock_step s conn c = (s', ev, w) -> lock_dsc s c s'.
Proof.
  intros Hlk H. rewrite lock_step_eq in H. cbv zeta in H.
  destruct (ls_pre s conn c (c_key c)); [inv_tuple H; left; apply fr0_refl|].
  destruct (ls_mgr_facts s (c_key c)) as (Ms & Mn & Ml).
  destruct (negb (leader (ls_mgr s (c_key c))) && negb (has (c_flag c) LOCK_FLAG_FROM_AOF)).
  { inv_tuple H. left. apply fr0_remove_mgr. eapply fr0_store_eq; [exact Ms|apply fr0_refl]. }
  destruct (ls_held (ls_mgr s (c_key c)) conn c (c_key c) (getm (ls_mgr s (c_key c)) (c_key c))) as [[[res|] c'] wt] eqn:Eh.
  - destruct res as [[s1 e1] w1]. inv_tuple H.
    destruct (0 <? m_locked (getm (ls_mgr s (c_key c)) (c_key c))) eqn:E0.
    + destruct (ls_mgr_held _ _ E0) as [Hs Hm]. rewrite Hs in *.
      apply ls_held_dsc in Eh; [|intros _ id r; apply Hlk; exact Hm].
      destruct Eh as [->|(_ & id & r & Hg & F)]; [left; apply fr0_refl|].
      right. left. exists (getm s (c_key c)), id, r. auto.
    + apply ls_held_dsc in Eh.
      * destruct Eh as [->|(E1 & _)]; [|congruence]. left. eapply fr0_store_eq; [exact Ms|apply fr0_refl].
      * intros Habs. rewrite E0 in Habs. discriminate Habs.
  - right. right.
    assert (Hc' : c_count c' = c_count c).
    { rewrite ls_held_eq in Eh. cbv zeta in Eh. unfold ls_update, ls_relock in Eh.
      repeat (split_hyp Eh); apply tuple3_inv in Eh; destruct Eh as (Eh & Eh2 & _); try discriminate Eh; subst c'; auto.
      all: destruct (has (c_flag c) LOCK_FLAG_SHOW); reflexivity. }
    exists c'. split; auto.
    apply ls_tail_dsc in H. intros r0 l' G. specialize (H r0 l' G). rewrite Mn, Ml, Ms in H. exact H.
Qed.
