(* Invariant proof, part 10: the timeout / expiry sweepers. *)
From Coq Require Import String ZifyN ZifyBool ZifyNat Permutation.
From Slock Require Import Engine.Types Engine.Queues Engine.Timers Engine.Engine Engine.Engine2 Engine.InvDef Engine.InvBase
  Engine.InvPrims Engine.InvRec Engine.InvWheel Engine.InvQueue Engine.InvQueue2 Engine.InvSteps Engine.InvLockDefs Engine.InvLock
  Engine.InvUnlock.
Open Scope N_scope.

(* the sweepers' reference lists matter only as multisets *)
Lemma ginv_perm_x s g xt' xe' :
  GInv s g -> (forall r0, occ r0 xt' = occ r0 (g_xt g)) -> (forall r0, occ r0 xe' = occ r0 (g_xe g)) ->
  GInv s (g <| g_xt := xt' |> <| g_xe := xe' |>).
Proof.
  intros G H1 H2.
  eapply (wheels_ginv s s g); eauto; gs; try apply G.
  - intros r0 l0 H0. destruct (gi_rec _ _ G r0 l0 H0) as [A1 A2 A3 A4 A5 A6 A7 A8 A9 A10 A11].
    unfold tcount, ecount in *. gs. rewrite H1, H2. repeat split; auto; try lia.
  - intros r0 H0. pose proof (gi_str _ _ G r0 H0) as S. unfold tcount, ecount in *. gs. rewrite H1, H2. auto.
Qed.

Definition gkp (xt xe pend : list ref) (k : N) : ghost := mkGhost xt xe pend [] [] [] k false false 0 0 0.

Lemma occ_snoc r0 l x : occ r0 (l ++ [x]) = occ r0 (x :: l).
Proof. rewrite occ_app, occ_cons. simpl. lia. Qed.

(* ---------------------------------------------------------------- timeout wheel slot *)
Lemma sweep_t_slot_ginv fuel : forall s xe k slot nowv due,
  GInv s (gk due xe k) ->
  GInv (fst (sweep_t_slot fuel s slot nowv due)) (gk (snd (sweep_t_slot fuel s slot nowv due)) xe k).
Proof.
  induction fuel as [|f IH]; intros s xe k slot nowv due G; simpl; [exact G|].
  destruct (wheel_get (twheel s) slot) as [|r rest] eqn:Ew; [exact G|].
  pose proof (pop_t_ginv s _ slot r rest G Ew) as G1.
  set (s1 := s <| twheel := aset (twheel s) slot rest |>) in *.
  assert (G1' : GInv s1 (gk (r :: due) xe k)) by (eapply ginv_geq; [exact G1|reflexivity]).
  assert (Gsn : GInv s1 (gk (due ++ [r]) xe k)).
  { eapply ginv_geq; [apply (ginv_perm_x s1 _ (due ++ [r]) xe G1'); [intros r0; apply occ_snoc|reflexivity]|reflexivity]. }
  destruct (aget (store s) r) as [l|] eqn:Hr0; [|exact Gsn].
  assert (Hr : aget (store s1) r = Some l) by exact Hr0.
  rewrite (getl_some _ _ _ Hr).
  destruct (l_timeouted l) eqn:Et; cbn [negb].
  - (* answered meanwhile: drop the reference *)
    pose proof (unref_t_tail s1 xe k (l_key l) r due G1') as G2. cbv zeta in G2. apply IH. exact G2.
  - destruct (nowv <? l_tT l)%Z.
    + (* not yet due: re-arm *)
      destruct (gi_rec _ _ G1' r l Hr) as [A1 A2 A3 A4 A5 A6 A7 A8 A9 A10 A11].
      destruct (A6 Et) as [Q1 [Q2 [Q3 Q4]]].
      assert (Hlong : l_long l = false).
      { destruct (l_long l) eqn:El; auto. exfalso. destruct (A8 eq_refl eq_refl) as [Q _]. specialize (Q Et).
        pose proof (occ_wheel_get_le r (tlong s1) (lkey (l_tT l))). unfold tcount, gk in A4. gs. rewrite occ_cons_eq in A4. lia. }
      rewrite (updl_some _ _ _ _ Hr).
      set (l1 := l <| l_tcc := (l_tcc l + 1) mod 256 |>).
      assert (G2 : GInv (setl s1 r l1) (gk (r :: due) xe k)).
      { apply (setl_irrel s1 _ r l l1 G1' Hr); [unfold same_rel; intuition|intuition]. }
      assert (Hr2 : aget (store (setl s1 r l1)) r = Some l1) by (rewrite store_setl, aget_aset_same; auto).
      apply IH.
      eapply ginv_geq; [apply (add_timeout_ginv _ _ r due l1 G2); unfold gk; gs; auto|].
      unfold gk. gs. unfold liveb. change (l_timeouted l1) with (l_timeouted l). rewrite Et. reflexivity.
    + apply IH. exact Gsn.
Qed.

(* ---------------------------------------------------------------- long-table bucket *)
Lemma sweep_long_t_ginv items : forall s xe k due,
  GInv s (gkp (items ++ due) xe items k) ->
  GInv (fst (sweep_long s items true due)) (gk (snd (sweep_long s items true due)) xe k).
Proof.
  induction items as [|r rest IH]; intros s xe k due G; simpl; [exact G|].
  destruct (stored_of_xt s _ r (rest ++ due) G eq_refl) as [l Hr].
  rewrite (updl_some _ _ _ _ Hr).
  set (l1 := l <| l_long := false |>).
  assert (G1 : GInv (setl s r l1) (gkp (r :: rest ++ due) xe (r :: rest) k)).
  { eapply ginv_geq; [apply (setl_flags s _ r l l1 G Hr); auto|].
    - apply (ro_cmd _ _ _ _ (gi_rec _ _ G r l Hr)).
    - change (l_timeouted l1) with (l_timeouted l). change (ecount s (gkp ((r :: rest) ++ due) xe (r :: rest) k) r) with (ecount s (gkp (r :: rest ++ due) xe (r :: rest) k) r).
      apply (ro_live _ _ _ _ (gi_rec _ _ G r l Hr)).
    - simpl. discriminate.
    - unfold gkp. gs. unfold liveb. change (l_timeouted l1) with (l_timeouted l). rewrite Z.add_simpl_r. reflexivity. }
  assert (Hr1 : aget (store (setl s r l1)) r = Some l1) by (rewrite store_setl, aget_aset_same; auto).
  assert (G2 : GInv (setl s r l1) (gkp (r :: rest ++ due) xe rest k)).
  { eapply ginv_geq; [apply (ginv_pend_drop _ _ r rest G1); [reflexivity|]|reflexivity].
    intros l0 H0 Hl0. rewrite Hr1 in H0. inversion H0; subst l0. discriminate. }
  rewrite (getl_some _ _ _ Hr1). change (l_timeouted l1) with (l_timeouted l). change (l_key l1) with (l_key l).
  destruct (l_timeouted l) eqn:Et; cbn [negb].
  - (* answered meanwhile *)
    assert (G3 : GInv (unref (setl s r l1) r) (gkp (rest ++ due) xe rest k)).
    { eapply ginv_geq; [apply (unref_xt _ _ r (rest ++ due) l1 G2); auto|reflexivity]. }
    apply IH. destruct (aget (store (unref (setl s r l1) r)) r); auto. apply remove_mgr_ginv; auto.
  - apply IH.
    eapply ginv_geq; [apply (ginv_perm_x _ _ (rest ++ due ++ [r]) xe G2); [|reflexivity]|reflexivity].
    intros r0. unfold gkp. gs. rewrite !occ_cons, !occ_app, !occ_cons. simpl. lia.
Qed.

Lemma sweep_long_e_ginv items : forall s xt k due,
  GInv s (gkp xt (items ++ due) items k) ->
  GInv (fst (sweep_long s items false due)) (gk xt (snd (sweep_long s items false due)) k).
Proof.
  induction items as [|r rest IH]; intros s xt k due G; simpl; [exact G|].
  destruct (stored_of_xe s _ r (rest ++ due) G eq_refl) as [l Hr].
  rewrite (updl_some _ _ _ _ Hr).
  set (l1 := l <| l_long := false |>).
  assert (G1 : GInv (setl s r l1) (gkp xt (r :: rest ++ due) (r :: rest) k)).
  { eapply ginv_geq; [apply (setl_flags s _ r l l1 G Hr); auto|].
    - apply (ro_cmd _ _ _ _ (gi_rec _ _ G r l Hr)).
    - change (l_timeouted l1) with (l_timeouted l). change (ecount s (gkp xt ((r :: rest) ++ due) (r :: rest) k) r) with (ecount s (gkp xt (r :: rest ++ due) (r :: rest) k) r).
      apply (ro_live _ _ _ _ (gi_rec _ _ G r l Hr)).
    - simpl. discriminate.
    - unfold gkp. gs. unfold liveb. change (l_timeouted l1) with (l_timeouted l). rewrite Z.add_simpl_r. reflexivity. }
  assert (Hr1 : aget (store (setl s r l1)) r = Some l1) by (rewrite store_setl, aget_aset_same; auto).
  assert (G2 : GInv (setl s r l1) (gkp xt (r :: rest ++ due) rest k)).
  { eapply ginv_geq; [apply (ginv_pend_drop _ _ r rest G1); [reflexivity|]|reflexivity].
    intros l0 H0 Hl0. rewrite Hr1 in H0. inversion H0; subst l0. discriminate. }
  rewrite (getl_some _ _ _ Hr1). change (l_expried l1) with (l_expried l). change (l_key l1) with (l_key l).
  destruct (l_expried l) eqn:Et; cbn [negb].
  - assert (G3 : GInv (unref (setl s r l1) r) (gkp xt (rest ++ due) rest k)).
    { eapply ginv_geq; [apply (unref_xe _ _ r (rest ++ due) l1 G2); auto|reflexivity]. }
    apply IH. destruct (aget (store (unref (setl s r l1) r)) r); auto. apply remove_mgr_ginv; auto.
  - apply IH.
    eapply ginv_geq; [apply (ginv_perm_x _ _ xt (rest ++ due ++ [r]) G2); [reflexivity|]|reflexivity].
    intros r0. unfold gkp. gs. rewrite !occ_cons, !occ_app, !occ_cons. simpl. lia.
Qed.

(* ---------------------------------------------------------------- expiry wheel slot *)
Lemma sweep_e_slot_ginv fuel : forall s xt k slot nowv due ev,
  GInv s (gk xt due k) ->
  GInv (fst (fst (sweep_e_slot fuel s slot nowv due ev))) (gk xt (snd (fst (sweep_e_slot fuel s slot nowv due ev))) k).
Proof.
  induction fuel as [|f IH]; intros s xt k slot nowv due ev G; simpl; [exact G|].
  destruct (wheel_get (ewheel s) slot) as [|r rest] eqn:Ew; [exact G|].
  pose proof (pop_e_ginv s _ slot r rest G Ew) as G1.
  set (s1 := s <| ewheel := aset (ewheel s) slot rest |>) in *.
  assert (G1' : GInv s1 (gk xt (r :: due) k)) by (eapply ginv_geq; [exact G1|reflexivity]).
  assert (Gsn : GInv s1 (gk xt (due ++ [r]) k)).
  { eapply ginv_geq; [apply (ginv_perm_x s1 _ xt (due ++ [r]) G1'); [reflexivity|intros r0; apply occ_snoc]|reflexivity]. }
  destruct (aget (store s) r) as [l|] eqn:Hr0; [|exact Gsn].
  assert (Hr : aget (store s1) r = Some l) by exact Hr0.
  rewrite (getl_some _ _ _ Hr).
  destruct (l_expried l) eqn:Et; cbn [negb].
  - pose proof (unref_e_tail s1 xt k (l_key l) r due G1') as G2. cbv zeta in G2. apply IH. exact G2.
  - destruct (nowv <? l_eT l)%Z.
    + destruct (gi_rec _ _ G1' r l Hr) as [A1 A2 A3 A4 A5 A6 A7 A8 A9 A10 A11].
      assert (Ht : l_timeouted l = true).
      { destruct (l_timeouted l) eqn:E; auto. destruct (A6 eq_refl) as [_ [Q _]]. unfold ecount, gk in Q. gs. rewrite occ_cons_eq in Q. lia. }
      assert (Hlong : l_long l = false).
      { destruct (l_long l) eqn:El; auto. exfalso. destruct (A8 eq_refl eq_refl) as [_ Q]. specialize (Q Ht).
        pose proof (occ_wheel_get_le r (elong s1) (lkey (l_eT l))). unfold ecount, gk in A5. gs. rewrite occ_cons_eq in A5. lia. }
      rewrite (updl_some _ _ _ _ Hr).
      set (l1 := l <| l_ecc := (l_ecc l + 1) mod 256 |>).
      assert (G2 : GInv (setl s1 r l1) (gk xt (r :: due) k)).
      { apply (setl_irrel s1 _ r l l1 G1' Hr); [unfold same_rel; intuition|intuition]. }
      assert (Hr2 : aget (store (setl s1 r l1)) r = Some l1) by (rewrite store_setl, aget_aset_same; auto).
      assert (G3 : GInv (fst (add_expried (setl s1 r l1) (l_key l) r)) (gk xt due k)).
      { eapply ginv_geq; [eapply (add_expried_ginv _ _ (l_key l) r due l1 G2); unfold gk; gs; auto|reflexivity]. }
      destruct (add_expried (setl s1 r l1) (l_key l) r) as [s3 aev]. cbn [fst] in G3. apply IH. exact G3.
    + apply IH. exact Gsn.
Qed.

(* ---------------------------------------------------------------- one second of a sweeper *)
Lemma collect_timeouts_ginv s xe k t nowv :
  GInv s (gk [] xe k) ->
  GInv (fst (collect_timeouts s t nowv)) (gk (snd (collect_timeouts s t nowv)) xe k).
Proof.
  intros G. unfold collect_timeouts.
  pose proof (sweep_t_slot_ginv (10 * length (wheel_get (twheel s) (slot_of t)) + 10) s xe k (slot_of t) nowv [] G) as G1.
  destruct (sweep_t_slot _ s (slot_of t) nowv []) as [s1 due]. cbn [fst snd] in G1.
  destruct (aget (tlong s1) (lkey t)) as [items|] eqn:El; [|exact G1].
  apply sweep_long_t_ginv.
  eapply ginv_geq; [apply (bucket_t_ginv s1 _ (lkey t) items G1 El)|]. unfold gk, gkp. gs. rewrite app_nil_r. reflexivity.
Qed.

Lemma collect_expiries_ginv s xt k t nowv :
  GInv s (gk xt [] k) ->
  GInv (fst (fst (collect_expiries s t nowv))) (gk xt (snd (fst (collect_expiries s t nowv))) k).
Proof.
  intros G. unfold collect_expiries.
  pose proof (sweep_e_slot_ginv (10 * length (wheel_get (ewheel s) (slot_of t)) + 10) s xt k (slot_of t) nowv [] [] G) as G1.
  destruct (sweep_e_slot _ s (slot_of t) nowv [] []) as [[s1 due] ev]. cbn [fst snd] in G1.
  destruct (aget (elong s1) (lkey t)) as [items|] eqn:El; [|exact G1].
  assert (G2 : GInv (s1 <| elong := adel (elong s1) (lkey t) |>) (gkp xt (items ++ due) items k)).
  { eapply ginv_geq; [apply (bucket_e_ginv s1 _ (lkey t) items G1 El)|]. unfold gk, gkp. gs. rewrite app_nil_r. reflexivity. }
  pose proof (sweep_long_e_ginv items _ xt k due G2) as G3.
  destruct (sweep_long (s1 <| elong := adel (elong s1) (lkey t) |>) items false due) as [s2 due2]. exact G3.
Qed.

Lemma fire_all_t_ginv due : forall s xe k, GInv s (gk due xe k) ->
  exists k', GInv (fst (fire_all do_timeout s due)) (gk [] xe k').
Proof.
  induction due as [|r rest IH]; intros s xe k G; simpl; [eauto|].
  destruct (do_timeout_ginv s xe k r rest G) as [k1 [G1 Hw]].
  destruct (do_timeout s r) as [[s1 e1] w] eqn:Ed. cbn [fst snd] in *.
  pose proof (finish_ginv s1 e1 w rest xe k1 G1 Hw) as G2.
  destruct (finish (s1, e1, w)) as [s2 e2]. cbn [fst] in G2.
  destruct (IH s2 xe k1 G2) as [k' G3]. destruct (fire_all do_timeout s2 rest) as [s3 e3]. eauto.
Qed.

Lemma fire_all_e_ginv due : forall s xt k, GInv s (gk xt due k) ->
  exists k', GInv (fst (fire_all do_expried s due)) (gk xt [] k').
Proof.
  induction due as [|r rest IH]; intros s xt k G; simpl; [eauto|].
  destruct (do_expried_ginv s xt k r rest G) as [k1 [G1 Hw]].
  destruct (do_expried s r) as [[s1 e1] w] eqn:Ed. cbn [fst snd] in *.
  pose proof (finish_ginv s1 e1 w xt rest k1 G1 Hw) as G2.
  destruct (finish (s1, e1, w)) as [s2 e2]. cbn [fst] in G2.
  destruct (IH s2 xt k1 G2) as [k' G3]. destruct (fire_all do_expried s2 rest) as [s3 e3]. eauto.
Qed.

Lemma sweep_t_secs_inv n : forall s t nowv, Inv s -> Inv (fst (sweep_t_secs n s t nowv)).
Proof.
  induction n as [|n IH]; intros s t nowv G; simpl; [exact G|].
  pose proof (collect_timeouts_ginv s [] 0 t nowv (inv_gk s 0 G)) as G1.
  destruct (collect_timeouts s t nowv) as [s1 due]. cbn [fst snd] in G1.
  destruct (fire_all_t_ginv due s1 [] 0 G1) as [k' G2].
  destruct (fire_all do_timeout s1 due) as [s2 e2]. cbn [fst] in G2.
  pose proof (IH s2 (t + 1)%Z nowv (gk_inv s2 k' G2)) as G3.
  destruct (sweep_t_secs n s2 (t + 1)%Z nowv) as [s3 e3]. exact G3.
Qed.

Lemma sweep_e_secs_inv n : forall s t nowv, Inv s -> Inv (fst (sweep_e_secs n s t nowv)).
Proof.
  induction n as [|n IH]; intros s t nowv G; simpl; [exact G|].
  pose proof (collect_expiries_ginv s [] 0 t nowv (inv_gk s 0 G)) as G1.
  destruct (collect_expiries s t nowv) as [[s1 due] e1]. cbn [fst snd] in G1.
  destruct (fire_all_e_ginv due s1 [] 0 G1) as [k' G2].
  destruct (fire_all do_expried s1 due) as [s2 e2]. cbn [fst] in G2.
  pose proof (IH s2 (t + 1)%Z nowv (gk_inv s2 k' G2)) as G3.
  destruct (sweep_e_secs n s2 (t + 1)%Z nowv) as [s3 e3]. exact G3.
Qed.

Lemma inv_scalar s s' : Inv s -> mgrs s' = mgrs s -> store s' = store s -> next s' = next s ->
  twheel s' = twheel s -> tlong s' = tlong s -> ewheel s' = ewheel s -> elong s' = elong s -> cnt s' = cnt s -> Inv s'.
Proof. intros G E1 E2 E3 E4 E5 E6 E7 E8. eapply ginv_obs; eauto; rewrite E8; reflexivity. Qed.

Lemma sweep_timeouts_inv s : Inv s -> Inv (fst (sweep_timeouts s)).
Proof. intros G. unfold sweep_timeouts. apply sweep_t_secs_inv. apply (inv_scalar s); auto. Qed.
Lemma sweep_expiries_inv s : Inv s -> Inv (fst (sweep_expiries s)).
Proof. intros G. unfold sweep_expiries. apply sweep_e_secs_inv. apply (inv_scalar s); auto. Qed.
