(* Invariant proof, part 10: the timeout / expiry sweepers. *)
From Coq Require Import String ZifyN ZifyBool ZifyNat Permutation.
From Slock Require Import Engine.Types Engine.Queues Engine.Timers Engine.Engine Engine.Engine2 Engine.InvDef Engine.InvBase
  Engine.InvPrims Engine.InvRec Engine.InvWheel Engine.InvQueue Engine.InvQueue2 Engine.InvSteps Engine.InvLockDefs Engine.InvLock
  Engine.InvUnlock.
Open Scope N_scope.

(* the sweepers' reference lists matter only as multisets *)
Lemma ginv_perm_x s g xt' xe' :
  GInv s g -> (forall r0, occ r0 xt' = occ r0 (g_xt g)) -> (forall r0, occ r0 xe' = occ r0 (g_xe g)) ->
  GInv s (g <| g_xt := xt' |> <| g_xe := xe' |>).
Proof.
  intros G H1 H2.
  eapply (wheels_ginv s s g); eauto; gs; try apply G.
  - intros r0 l0 H0. destruct (gi_rec _ _ G r0 l0 H0) as [A1 A2 A3 A4 A5 A6 A7 A8 A9 A10 A11].
    unfold tcount, ecount in *. gs. rewrite H1, H2. repeat split; auto; try lia.
  - intros r0 H0. pose proof (gi_str _ _ G r0 H0) as S. unfold tcount, ecount in *. gs. rewrite H1, H2. auto.
Qed.

Definition gkp (xt xe pend : list ref) (k : N) : ghost := mkGhost xt xe pend [] [] [] k false false 0 0 0.

Lemma occ_snoc r0 l x : occ r0 (l ++ [x]) = occ r0 (x :: l).
Proof. rewrite occ_app, occ_cons. simpl. lia. Qed.

(* ---------------------------------------------------------------- timeout wheel slot *)
Lemma sweep_t_slot_ginv fuel : forall s xe k slot nowv due,
  GInv s (gk due xe k) ->
  GInv (fst (sweep_t_slot fuel s slot nowv due)) (gk (snd (sweep_t_slot fuel s slot nowv due)) xe k).
Proof.
  induction fuel as [|f IH]; intros s xe k slot nowv due G; simpl; [exact G|].
  destruct (wheel_get (twheel s) slot) as [|r rest] eqn:Ew; [exact G|].
  pose proof (pop_t_ginv s _ slot r rest G Ew) as G1.
  set (s1 := s <| twheel := aset (twheel s) slot rest |>) in *.
  assert (G1' : GInv s1 (gk (r :: due) xe k)) by (eapply ginv_geq; [exact G1|reflexivity]).
  assert (Gsn : GInv s1 (gk (due ++ [r]) xe k)).
  { eapply ginv_geq; [apply (ginv_perm_x s1 _ (due ++ [r]) xe G1'); [intros r0; apply occ_snoc|reflexivity]|reflexivity]. }
  destruct (aget (store s) r) as [l|] eqn:Hr0; [|exact Gsn].
  assert (Hr : aget (store s1) r = Some l) by exact Hr0.
  rewrite (getl_some _ _ _ Hr).
  destruct (l_timeouted l) eqn:Et; cbn [negb].
  - (* answered meanwhile: drop the reference *)
    pose proof (unref_t_tail s1 xe k (l_key l) r due G1') as G2. cbv zeta in G2. apply IH. exact G2.
  - destruct (nowv <? l_tT l)%Z.
    + (* not yet due: re-arm *)
      destruct (gi_rec _ _ G1' r l Hr) as [A1 A2 A3 A4 A5 A6 A7 A8 A9 A10 A11].
      destruct (A6 Et) as [Q1 [Q2 [Q3 Q4]]].
      assert (Hlong : l_long l = false).
      { destruct (l_long l) eqn:El; auto. exfalso. destruct (A8 eq_refl eq_refl) as [Q _]. specialize (Q Et).
        pose proof (occ_wheel_get_le r (tlong s1) (lkey (l_tT l))). unfold tcount, gk in A4. gs. rewrite occ_cons_eq in A4. lia. }
      rewrite (updl_some _ _ _ _ Hr).
      set (l1 := l <| l_tcc := (l_tcc l + 1) mod 256 |>).
      assert (G2 : GInv (setl s1 r l1) (gk (r :: due) xe k)).
      { apply (setl_irrel s1 _ r l l1 G1' Hr); [unfold same_rel; intuition|intuition]. }
      assert (Hr2 : aget (store (setl s1 r l1)) r = Some l1) by (rewrite store_setl, aget_aset_same; auto).
      apply IH.
      eapply ginv_geq; [apply (add_timeout_ginv _ _ r due l1 G2); unfold gk; gs; auto|].
      unfold gk. gs. unfold liveb. change (l_timeouted l1) with (l_timeouted l). rewrite Et. reflexivity.
    + apply IH. exact Gsn.
Qed.

(* ---------------------------------------------------------------- long-table bucket *)
Lemma sweep_long_t_ginv items : forall s xe k due,
  GInv s (gkp (items ++ due) xe items k) ->
  GInv (fst (sweep_long s items true due)) (gk (snd (sweep_long s items true due)) xe k).
Proof.
  induction items as [|r rest IH]; intros s xe k due G; simpl; [exact G|].
  destruct (stored_of_xt s _ r (rest ++ due) G eq_refl) as [l Hr].
  rewrite (updl_some _ _ _ _ Hr).
  set (l1 := l <| l_long := false |>).
  assert (G1 : GInv (setl s r l1) (gkp (r :: rest ++ due) xe (r :: rest) k)).
  { eapply ginv_geq; [apply (setl_flags s _ r l l1 G Hr); auto|].
    - apply (ro_cmd _ _ _ _ (gi_rec _ _ G r l Hr)).
    - change (l_timeouted l1) with (l_timeouted l). change (ecount s (gkp ((r :: rest) ++ due) xe (r :: rest) k) r) with (ecount s (gkp (r :: rest ++ due) xe (r :: rest) k) r).
      apply (ro_live _ _ _ _ (gi_rec _ _ G r l Hr)).
    - simpl. discriminate.
    - simpl. tauto.
    - unfold gkp. gs. unfold liveb. change (l_timeouted l1) with (l_timeouted l). rewrite Z.add_simpl_r. reflexivity. }
  assert (Hr1 : aget (store (setl s r l1)) r = Some l1) by (rewrite store_setl, aget_aset_same; auto).
  assert (G2 : GInv (setl s r l1) (gkp (r :: rest ++ due) xe rest k)).
  { eapply ginv_geq; [apply (ginv_pend_drop _ _ r rest G1); [reflexivity|]|reflexivity].
    intros l0 H0 Hl0. rewrite Hr1 in H0. inversion H0; subst l0. discriminate. }
  rewrite (getl_some _ _ _ Hr1). change (l_timeouted l1) with (l_timeouted l). change (l_key l1) with (l_key l).
  destruct (l_timeouted l) eqn:Et; cbn [negb].
  - (* answered meanwhile *)
    assert (G3 : GInv (unref (setl s r l1) r) (gkp (rest ++ due) xe rest k)).
    { eapply ginv_geq; [apply (unref_xt _ _ r (rest ++ due) l1 G2); auto|reflexivity]. }
    apply IH. destruct (aget (store (unref (setl s r l1) r)) r); auto. apply remove_mgr_ginv; auto. intros _; split; reflexivity.
  - apply IH.
    eapply ginv_geq; [apply (ginv_perm_x _ _ (rest ++ due ++ [r]) xe G2); [|reflexivity]|reflexivity].
    intros r0. unfold gkp. gs. rewrite !occ_app, !occ_cons. simpl. lia.
Qed.

Lemma sweep_long_e_ginv items : forall s xt k due,
  GInv s (gkp xt (items ++ due) items k) ->
  GInv (fst (sweep_long s items false due)) (gk xt (snd (sweep_long s items false due)) k).
Proof.
  induction items as [|r rest IH]; intros s xt k due G; simpl; [exact G|].
  destruct (stored_of_xe s _ r (rest ++ due) G eq_refl) as [l Hr].
  rewrite (updl_some _ _ _ _ Hr).
  set (l1 := l <| l_long := false |>).
  assert (G1 : GInv (setl s r l1) (gkp xt (r :: rest ++ due) (r :: rest) k)).
  { eapply ginv_geq; [apply (setl_flags s _ r l l1 G Hr); auto|].
    - apply (ro_cmd _ _ _ _ (gi_rec _ _ G r l Hr)).
    - change (l_timeouted l1) with (l_timeouted l). change (ecount s (gkp xt ((r :: rest) ++ due) (r :: rest) k) r) with (ecount s (gkp xt (r :: rest ++ due) (r :: rest) k) r).
      apply (ro_live _ _ _ _ (gi_rec _ _ G r l Hr)).
    - simpl. discriminate.
    - simpl. tauto.
    - unfold gkp. gs. unfold liveb. change (l_timeouted l1) with (l_timeouted l). rewrite Z.add_simpl_r. reflexivity. }
  assert (Hr1 : aget (store (setl s r l1)) r = Some l1) by (rewrite store_setl, aget_aset_same; auto).
  assert (G2 : GInv (setl s r l1) (gkp xt (r :: rest ++ due) rest k)).
  { eapply ginv_geq; [apply (ginv_pend_drop _ _ r rest G1); [reflexivity|]|reflexivity].
    intros l0 H0 Hl0. rewrite Hr1 in H0. inversion H0; subst l0. discriminate. }
  rewrite (getl_some _ _ _ Hr1). change (l_expried l1) with (l_expried l). change (l_key l1) with (l_key l).
  destruct (l_expried l) eqn:Et; cbn [negb].
  - assert (G3 : GInv (unref (setl s r l1) r) (gkp xt (rest ++ due) rest k)).
    { eapply ginv_geq; [apply (unref_xe _ _ r (rest ++ due) l1 G2); auto|reflexivity]. }
    apply IH. destruct (aget (store (unref (setl s r l1) r)) r); auto. apply remove_mgr_ginv; auto. intros _; split; reflexivity.
  - apply IH.
    eapply ginv_geq; [apply (ginv_perm_x _ _ xt (rest ++ due ++ [r]) G2); [reflexivity|]|reflexivity].
    intros r0. unfold gkp. gs. rewrite !occ_app, !occ_cons. simpl. lia.
Qed.
