(* Local facts, part 1 (property C01): every event "new holder granted" carries counters that satisfy the admission
   rule doLock, and these counters are the ones of the state in which doLock was evaluated.  Every state, every
   action, every sequence of actions. *)
From Coq Require Import String ZifyN ZifyBool.
From Slock Require Import Engine.Types Engine.Queues Engine.Timers Engine.Engine Engine.Engine2 Engine.LocalBase.
Open Scope N_scope.

(* ------------------------------------------------------------------ event predicates closed under the helpers *)
Record base_ok (P : event -> Prop) : Prop := {
  bo_quiet : quiet_ok P;
  bo_reply : forall e, is_reply e -> P e;
  bo_release : forall k r d, P (ERelease k r d);
  bo_regrant : forall k r b cc rc, P (EGrant k r false b cc rc) }.

Lemma base_ok_nng : base_ok nng.
Proof.
  split; try (intros; exact I). exact quiet_ok_nng.
  intros [] H; simpl in *; auto; contradiction.
Qed.

Ltac ev_solve2 HB :=
  ev_solve (bo_quiet _ HB);
  try solve [ apply (bo_reply _ HB); exact I | apply (bo_release _ HB) | apply (bo_regrant _ HB) ].

Ltac crunch H HB := repeat (split_hyp H); inv_tuple H; ev_solve2 HB.

(* ------------------------------------------------------------------ functions that never add a holder *)
Section NoNewHolder.
  Variable P : event -> Prop.
  Hypothesis HB : base_ok P.

  Lemma cancel_wait_lock_P s conn c s' ev w : cancel_wait_lock s conn c = (s', ev, w) -> Forall P ev.
  Proof. unfold cancel_wait_lock. intros H. Time crunch H HB. Qed.

  Lemma release_hold_P s k conn c r d s' ev : release_hold s k conn c r d = (s', ev) -> Forall P ev.
  Proof. unfold release_hold. intros H. Time crunch H HB. Qed.

  Lemma unlock_step_P s conn c s' ev w : unlock_step s conn c = (s', ev, w) -> Forall P ev.
  Proof.
    unfold unlock_step. intros H. crunch H HB.
    all: try (eapply cancel_wait_lock_P; eassumption).
    all: try (eapply release_hold_P; eassumption).
  Qed.

  Lemma do_timeout_P s r s' ev w : do_timeout s r = (s', ev, w) -> Forall P ev.
  Proof. unfold do_timeout. intros H. Time crunch H HB. Qed.

  Lemma do_expried_P s r s' ev w : do_expried s r = (s', ev, w) -> Forall P ev.
  Proof. unfold do_expried. intros H. Time crunch H HB. Qed.

  Lemma do_ack_P s r ok s' ev w : do_ack s r ok = (s', ev, w) -> Forall P ev.
  Proof. unfold do_ack. intros H. Time crunch H HB. Qed.

  Lemma sweep_e_slot_P fuel : forall s slot nowv due ev0 s' due' ev,
    sweep_e_slot fuel s slot nowv due ev0 = (s', due', ev) -> Forall P ev0 -> Forall P ev.
  Proof.
    induction fuel as [|f IH]; intros s slot nowv due ev0 s' due' ev H H0; simpl in H.
    - inv_tuple H. exact H0.
    - repeat (split_hyp H); inv_tuple H; auto.
      all: try (eapply IH; [eassumption|]; try assumption).
      all: apply Forall_app; split; auto; ev_solve2 HB.
  Qed.

  Lemma collect_expiries_P s t nowv s' due ev : collect_expiries s t nowv = (s', due, ev) -> Forall P ev.
  Proof.
    unfold collect_expiries. intros H.
    destruct (sweep_e_slot _ _ _ _ _ _) as [[s1 d1] e1] eqn:E1.
    apply sweep_e_slot_P in E1; [|constructor].
    repeat (split_hyp H); inv_tuple H; auto.
  Qed.
End NoNewHolder.

(* ------------------------------------------------------------------ the two places that add a holder *)
(* the counters recorded in a new-holder event are those of state s0, and doLock held in s0 *)
Definition grant_at (s0 : db) (e : event) : Prop :=
  match e with
  | EGrant k r true b cc rc =>
      b = m_locked (getm s0 k) /\ cc = cur_count s0 k /\ rc = c_count (l_cmd (getl s0 r)) /\ do_lock s0 k r = true
  | _ => True
  end.

(* GetOrNewLockManager *)
Definition get_or_new_mgr (s : db) (k : N) : db :=
  match aget (mgrs s) k with
  | Some _ => s
  | None => bump (fun n => n <| n_key := (n_key n + 1)%Z |>) (setm s k new_mgr)
  end.

(* a new-holder event of Lock: the record was created by new_lock in the state after GetOrNewLockManager, for the
   command c1 = the request (LockId possibly replaced by the show+update re-targeting) *)
Definition lock_grant_at (s : db) (conn : N) (c : cmd) (e : event) : Prop :=
  match e with
  | EGrant k r true _ _ _ =>
      k = c_key c /\
      exists c1 s0, new_lock (get_or_new_mgr s k) k conn c1 = (s0, r)
                    /\ c1 = c <| c_lockid := c_lockid c1 |> /\ grant_at s0 e
  | _ => True
  end.

Lemma new_lock_getl s k conn c s0 r : new_lock s k conn c = (s0, r) -> l_cmd (getl s0 r) = c.
Proof.
  unfold new_lock. intros H. inv_tuple H.
  rewrite getl_updm. unfold getl. cbn [store set].
  rewrite aget_aset_same. reflexivity.
Qed.

Lemma cmd_eta_lockid c : c = c <| c_lockid := c_lockid c |>.
Proof. destruct c; reflexivity. Qed.

Lemma cmd_eta_lockid2 c x : c <| c_lockid := x |> = c <| c_lockid := c_lockid (c <| c_lockid := x |>) |>.
Proof. destruct c; reflexivity. Qed.

Lemma lock_step_grants s conn c s' ev w :
  lock_step s conn c = (s', ev, w) -> Forall (lock_grant_at s conn c) ev.
Proof.
  assert (HB : base_ok (lock_grant_at s conn c)).
  { split; try (intros; exact I). intros [] H; simpl in *; auto; contradiction.
    intros [] H; simpl in *; auto; contradiction. }
  unfold lock_step. intros H. cbv zeta in H.
  change (match aget (mgrs s) (c_key c) with
          | Some _ => s
          | None => bump (fun n => n <| n_key := (n_key n + 1)%Z |>) (setm s (c_key c) new_mgr)
          end) with (get_or_new_mgr s (c_key c)) in H.
  set (sm := get_or_new_mgr s (c_key c)) in *.
  repeat (split_hyp H); inv_tuple H; ev_solve2 HB.
  all: match goal with E : new_lock _ _ _ ?c1 = (?s0, ?r) |- _ =>
         split; [reflexivity|]; exists c1, s0; split; [exact E|]; split;
         [ first [apply cmd_eta_lockid
                 | destruct (has (c_flag c) LOCK_FLAG_SHOW); first [apply cmd_eta_lockid | apply cmd_eta_lockid2]]
         | unfold grant_at; rewrite (new_lock_getl _ _ _ _ _ _ E);
           repeat split; try reflexivity;
           match goal with A : (_ && do_lock _ _ _) = true |- _ => apply andb_prop in A; exact (proj2 A) end ]
       end.
Qed.

(* the same, written out *)
Lemma lock_step_grants_explicit s conn c s' ev w :
  lock_step s conn c = (s', ev, w) ->
  Forall (fun e => match e with
                   | EGrant k r true b cc rc =>
                       k = c_key c /\
                       exists c1 s0,
                         new_lock (get_or_new_mgr s k) k conn c1 = (s0, r)
                         /\ c1 = c <| c_lockid := c_lockid c1 |>
                         /\ b = m_locked (getm s0 k) /\ cc = cur_count s0 k
                         /\ rc = c_count (l_cmd (getl s0 r)) /\ do_lock s0 k r = true
                   | _ => True end) ev.
Proof.
  intros H. apply lock_step_grants in H. eapply Forall_impl; [|exact H].
  intros [| |k r nh b cc rc| |]; auto. destruct nh; auto.
Qed.

Lemma wake_grant_grants s k r via s' ev :
  wake_grant s k r via = (s', ev) ->
  Forall (fun e => match e with
                   | EGrant k' r' true b cc rc =>
                       k' = k /\ r' = r /\ b = m_locked (getm s k) /\ cc = cur_count s k
                       /\ rc = c_count (l_cmd (getl s r))
                   | _ => True end) ev.
Proof.
  match goal with |- _ -> Forall ?P _ => assert (HB : base_ok P) end.
  { split; try (intros; exact I). intros [] H; simpl in *; auto; contradiction.
    intros [] H; simpl in *; auto; contradiction. }
  unfold wake_grant. intros H. crunch H HB.
  all: repeat split; reflexivity.
Qed.

(* one iteration of wakeUpWaitLocks: a new holder is recorded with the counters of the state right after GetWaitLock *)
Lemma wake_iter_grants s w s' ev res :
  wake_iter s w = (s', ev, res) -> Forall (grant_at (fst (get_wait_lock s (w_key w)))) ev.
Proof.
  unfold wake_iter. intros H.
  destruct (aget (mgrs s) (w_key w)) as [m|]; [|inv_tuple H; constructor].
  destruct (negb (m_waited m)); [inv_tuple H; constructor|].
  destruct (get_wait_lock s (w_key w)) as [s1 wl] eqn:E1. cbn [fst].
  destruct wl as [r|]; [|inv_tuple H; constructor].
  destruct (do_lock s1 (w_key w) r) eqn:Hdo; cbn [negb] in H; [|inv_tuple H; constructor].
  destruct (wake_grant s1 (w_key w) r (w_conn w)) as [s2 ev2] eqn:E2. inv_tuple H.
  apply wake_grant_grants in E2. eapply Forall_impl; [|exact E2].
  intros [| |k' r' nh b cc rc| |] He; simpl in *; auto. destruct nh; auto.
  destruct He as (-> & -> & -> & -> & ->). repeat split; auto.
Qed.

(* ------------------------------------------------------------------ lifting to steps and runs *)
Definition ok_grant (e : event) : Prop :=
  match e with EGrant _ _ true before cc rc => do_lock_rule before cc rc = true | _ => True end.

Lemma grant_at_ok s0 e : grant_at s0 e -> ok_grant e.
Proof.
  destruct e as [| |k r nh b cc rc| |]; simpl; auto. destruct nh; auto.
  intros (-> & -> & -> & H). exact H.
Qed.

Lemma lock_grant_at_ok s conn c e : lock_grant_at s conn c e -> ok_grant e.
Proof.
  destruct e as [| |k r nh b cc rc| |]; try exact (fun _ => I). destruct nh; [|exact (fun _ => I)].
  intros (_ & c1 & s0 & _ & _ & H). exact (grant_at_ok s0 (EGrant k r true b cc rc) H).
Qed.

Lemma base_ok_ok_grant : base_ok ok_grant.
Proof.
  split; try (intros; exact I). intros [] H; simpl in *; auto; contradiction.
  intros [] H; simpl in *; auto; contradiction.
Qed.

Section Lift.
  (* any event predicate that accepts replies, releases, re-entrant grants, log records, panics, and the new-holder
     events justified by some state *)
  Variable P : event -> Prop.
  Hypothesis HB : base_ok P.
  Hypothesis HG : forall s0 e, grant_at s0 e -> P e.

  Lemma lock_step_P s conn c s' ev w : lock_step s conn c = (s', ev, w) -> Forall P ev.
  Proof.
    intros H. apply lock_step_grants in H. eapply Forall_impl; [|exact H].
    intros e He. destruct e as [| |k r nh b cc rc| |]; try (apply (bo_quiet _ HB); exact I);
      try (apply (bo_reply _ HB); exact I); try apply (bo_release _ HB).
    destruct nh; [|apply (bo_regrant _ HB)].
    destruct He as (_ & c1 & s0 & _ & _ & Hg). exact (HG s0 (EGrant k r true b cc rc) Hg).
  Qed.

  Lemma wake_iter_P s w s' ev res : wake_iter s w = (s', ev, res) -> Forall P ev.
  Proof. intros H. apply wake_iter_grants in H. eapply Forall_impl; [|exact H]. intros e. apply HG. Qed.

  Lemma run_wake_P fuel : forall s w s' ev, run_wake fuel s w = (s', ev) -> Forall P ev.
  Proof.
    induction fuel as [|f IH]; intros s w s' ev H; simpl in H.
    - inv_tuple H. repeat constructor. apply (bo_quiet _ HB). exact I.
    - destruct (wake_iter s w) as [[s1 e1] res] eqn:E1. apply wake_iter_P in E1.
      destruct res.
      + inv_tuple H. exact E1.
      + destruct (run_wake f s1 w) as [s2 e2] eqn:E2. inv_tuple H.
        apply Forall_app. split; [exact E1 | eapply IH; eassumption].
  Qed.

  Lemma finish_P s ev w s' ev' : Forall P ev -> finish (s, ev, w) = (s', ev') -> Forall P ev'.
  Proof.
    intros H0 H. unfold finish in H. destruct w as [w|].
    - destruct (run_wake _ s w) as [s1 e1] eqn:E1. inv_tuple H.
      apply Forall_app. split; [exact H0 | eapply run_wake_P; eassumption].
    - inv_tuple H. exact H0.
  Qed.

  Lemma fire_all_P (f : db -> ref -> db * list event * option wake) :
    (forall s r s' ev w, f s r = (s', ev, w) -> Forall P ev) ->
    forall due s s' ev, fire_all f s due = (s', ev) -> Forall P ev.
  Proof.
    intros Hf. induction due as [|r rest IH]; intros s s' ev H; simpl in H.
    - inv_tuple H. constructor.
    - destruct (f s r) as [[s0 e0] w0] eqn:E0.
      destruct (finish (s0, e0, w0)) as [s1 e1] eqn:E1.
      destruct (fire_all f s1 rest) as [s2 e2] eqn:E2. inv_tuple H.
      apply Forall_app. split; [|eapply IH; eassumption].
      eapply finish_P; [|eassumption]. eapply Hf; eassumption.
  Qed.

  Lemma sweep_t_secs_P n : forall s t nowv s' ev, sweep_t_secs n s t nowv = (s', ev) -> Forall P ev.
  Proof.
    induction n as [|n IH]; intros s t nowv s' ev H; simpl in H.
    - inv_tuple H. constructor.
    - destruct (collect_timeouts s t nowv) as [s1 due] eqn:E1.
      destruct (fire_all do_timeout s1 due) as [s2 e2] eqn:E2.
      destruct (sweep_t_secs n s2 (t + 1)%Z nowv) as [s3 e3] eqn:E3. inv_tuple H.
      apply Forall_app. split; [|eapply IH; eassumption].
      eapply fire_all_P; [|eassumption]. intros. eapply do_timeout_P; eassumption.
  Qed.

  Lemma sweep_e_secs_P n : forall s t nowv s' ev, sweep_e_secs n s t nowv = (s', ev) -> Forall P ev.
  Proof.
    induction n as [|n IH]; intros s t nowv s' ev H; simpl in H.
    - inv_tuple H. constructor.
    - destruct (collect_expiries s t nowv) as [[s1 due] e1] eqn:E1.
      destruct (fire_all do_expried s1 due) as [s2 e2] eqn:E2.
      destruct (sweep_e_secs n s2 (t + 1)%Z nowv) as [s3 e3] eqn:E3. inv_tuple H.
      apply Forall_app. split; [eapply collect_expiries_P; eassumption|].
      apply Forall_app. split; [|eapply IH; eassumption].
      eapply fire_all_P; [|eassumption]. intros. eapply do_expried_P; eassumption.
  Qed.

  Lemma step_P s a : Forall P (snd (step s a)).
  Proof.
    destruct a as [conn c|k| | |r ok|b]; simpl.
    - destruct (c_lock c).
      + destruct (lock_step s conn c) as [[s1 e1] w1] eqn:E1.
        destruct (finish (s1, e1, w1)) as [s2 e2] eqn:E2. simpl.
        eapply finish_P; [|eassumption]. eapply lock_step_P; eassumption.
      + destruct (unlock_step s conn c) as [[s1 e1] w1] eqn:E1.
        destruct (finish (s1, e1, w1)) as [s2 e2] eqn:E2. simpl.
        eapply finish_P; [|eassumption]. eapply unlock_step_P; eassumption.
    - constructor.
    - unfold sweep_timeouts. destruct (sweep_t_secs _ _ _ _) as [s1 e1] eqn:E1. simpl.
      eapply sweep_t_secs_P; eassumption.
    - unfold sweep_expiries. destruct (sweep_e_secs _ _ _ _) as [s1 e1] eqn:E1. simpl.
      eapply sweep_e_secs_P; eassumption.
    - destruct (do_ack s r ok) as [[s1 e1] w1] eqn:E1.
      destruct (finish (s1, e1, w1)) as [s2 e2] eqn:E2. simpl.
      eapply finish_P; [|eassumption]. eapply do_ack_P; eassumption.
    - constructor.
  Qed.

  Lemma run_P acts : forall s, Forall (Forall P) (snd (run s acts)).
  Proof.
    induction acts as [|a rest IH]; intros s; simpl.
    - constructor.
    - pose proof (step_P s a) as Hs. destruct (step s a) as [s1 e1]. simpl in Hs.
      specialize (IH s1). destruct (run s1 rest) as [s2 es]. simpl in *. constructor; assumption.
  Qed.
End Lift.

Lemma C01_grant_rule_step : forall s a, Forall ok_grant (snd (step s a)).
Proof. apply step_P. exact base_ok_ok_grant. exact grant_at_ok. Qed.

Lemma C01_grant_rule_run : forall s acts, Forall (Forall ok_grant) (snd (run s acts)).
Proof. intros s acts. apply run_P. exact base_ok_ok_grant. exact grant_at_ok. Qed.

(* ------------------------------------------------------------------ what the rule says *)
Lemma do_lock_rule_meaning b cc rc :
  do_lock_rule b cc rc = true ->
  b = 0 \/ (b <= cc /\ b <= rc /\ b < 65535) \/ (65535 <= b < 2147483647 /\ cc = 65535 /\ rc = 65535).
Proof.
  unfold do_lock_rule.
  destruct (b =? 0) eqn:E0; [lia|].
  destruct (rc =? 0) eqn:E1; [discriminate|].
  destruct (65535 <=? b) eqn:E2.
  - destruct (2147483647 <=? b) eqn:E3; [discriminate|]. lia.
  - lia.
Qed.

(* Count 0 = mutex: granted as a new holder only on an idle key *)
Lemma do_lock_rule_count0 b cc : do_lock_rule b cc 0 = true -> b = 0.
Proof. intros H. apply do_lock_rule_meaning in H. lia. Qed.

(* every user passes the same Count c < 0xffff: at most c holds before the grant (c + 1 after) *)
Lemma do_lock_rule_same_count b c : c < 65535 -> do_lock_rule b c c = true -> b <= c.
Proof. intros Hc H. apply do_lock_rule_meaning in H. lia. Qed.

Lemma ok_grant_count0 k r b cc : ok_grant (EGrant k r true b cc 0) -> b = 0.
Proof. exact (do_lock_rule_count0 b cc). Qed.
