(* C03, part 2: the history invariant "every lock record is awaiting its reply or answered", its preservation by
   every action of the core subset, and the global theorems (at most one terminal reply, at most one EXPRIED notice
   preceded by the grant, replies go to the connection that issued the RequestId). *)
From Coq Require Import String ZifyN ZifyBool ZifyNat.
From Slock Require Import Engine.Types Engine.Queues Engine.Timers Engine.Engine Engine.Engine2
  Engine.ReplyBase Engine.ReplyLocal.
Open Scope N_scope.

Definition i_conn (i : rinfo) : N := fst (fst i).
Definition i_req (i : rinfo) : N := snd (fst i).
Definition i_res (i : rinfo) : N := snd i.

Definition granted (i : rinfo) : Prop := i_res i = R_SUCCED \/ i_res i = R_LOCKED_ERROR.

(* well-formed reply history: a terminal reply is the first reply of its RequestId that is terminal; an EXPRIED notice is
   the first EXPRIED of its RequestId and comes after a SUCCED / LOCKED_ERROR reply for the same RequestId *)
Definition noterm (q : N) (H : list rinfo) : Prop := forall i, In i H -> i_req i = q -> i_res i = R_EXPRIED.
Definition noexp (q : N) (H : list rinfo) : Prop := forall i, In i H -> i_req i = q -> i_res i <> R_EXPRIED.
Definition noreply (q : N) (H : list rinfo) : Prop := forall i, In i H -> i_req i <> q.
Definition has_grant (q : N) (H : list rinfo) : Prop := exists j, In j H /\ i_req j = q /\ granted j.

Definition hist_ok (H : list rinfo) : Prop :=
  forall H1 i H2, H = H1 ++ i :: H2 ->
    (i_res i <> R_EXPRIED -> noterm (i_req i) H1)
    /\ (i_res i = R_EXPRIED -> noexp (i_req i) H1 /\ has_grant (i_req i) H1).

Lemma hist_ok_nil : hist_ok [].
Proof. intros H1 i H2 E. destruct H1; discriminate. Qed.

Lemma hist_ok_snoc H i :
  hist_ok H ->
  (i_res i <> R_EXPRIED -> noterm (i_req i) H) ->
  (i_res i = R_EXPRIED -> noexp (i_req i) H /\ has_grant (i_req i) H) ->
  hist_ok (H ++ [i]).
Proof.
  intros Hok Ht He H1 j H2 E.
  destruct H2 as [|x H2] using rev_ind.
  - apply app_inj_tail in E. destruct E as [-> ->]. split; auto.
  - clear IHH2. rewrite app_comm_cons, app_assoc in E. apply app_inj_tail in E. destruct E as [-> ->].
    apply (Hok H1 j H2). reflexivity.
Qed.

Lemma noreply_noterm q H : noreply q H -> noterm q H.
Proof. intros N i Hi Hq. exfalso. eapply N; eauto. Qed.
Lemma noreply_noexp q H : noreply q H -> noexp q H.
Proof. intros N i Hi Hq. exfalso. eapply N; eauto. Qed.

Record Inv (I : N -> N -> Prop) (H : list rinfo) (s : db) : Prop := mkInv {
  inv_rec : forall r l, aget (store s) r = Some l -> I (l_conn l) (c_req (l_cmd l)) /\ core_flags (l_cmd l);
  inv_dom : forall r l, aget (store s) r = Some l -> r < next s;
  inv_hist : forall i, In i H -> I (i_conn i) (i_req i);
  inv_dist : forall r r' l l', aget (store s) r = Some l -> aget (store s) r' = Some l' ->
             c_req (l_cmd l) = c_req (l_cmd l') -> r = r';
  inv_wait : forall r l, aget (store s) r = Some l -> l_timeouted l = false -> noreply (c_req (l_cmd l)) H;
  inv_exp : forall r l, aget (store s) r = Some l -> l_expried l = false ->
            noexp (c_req (l_cmd l)) H /\ has_grant (c_req (l_cmd l)) H;
  inv_href : forall r, href s r -> r < next s /\ l_timeouted (getl s r) = true;
  inv_ok : hist_ok H
}.

Lemma inv_init I t0 a : Inv I [] (init_db t0 a).
Proof.
  split; cbn; try discriminate; try contradiction; try apply hist_ok_nil.
  intros r (k & m & Hm & _). discriminate.
Qed.

(* a live waiter is not a holder of anything: awaiting reply excludes an armed expiry *)
Lemma inv_wait_exp I H s r l : Inv I H s -> aget (store s) r = Some l -> l_timeouted l = false -> l_expried l = true.
Proof.
  intros V Hl Ht. destruct (l_expried l) eqn:E; auto. exfalso.
  destruct (inv_exp _ _ _ V _ _ Hl E) as [_ (j & Hj & Hq & _)].
  exact (inv_wait _ _ _ V _ _ Hl Ht j Hj Hq).
Qed.

Lemma getl_timeouted_of s r : (forall l, aget (store s) r = Some l -> l_timeouted l = true) -> l_timeouted (getl s r) = true.
Proof. unfold getl. destruct (aget (store s) r); auto. Qed.

(* ------------------------------------------------------------------ preservation: frame steps *)
Lemma inv_keepx I H s s' : Inv I H s -> keepx s s' -> Inv I H s'.
Proof.
  intros V [kv kh kn]. split.
  - intros r l' Hl. destruct (kv _ _ Hl) as (l & Hl0 & (E1 & E2 & _)). unfold view_of, v_cmd, v_conn in *. cbn in *.
    rewrite E1, E2. eapply inv_rec; eauto.
  - intros r l' Hl. destruct (kv _ _ Hl) as (l & Hl0 & _). apply (inv_dom _ _ _ V) in Hl0. lia.
  - apply (inv_hist _ _ _ V).
  - intros r r' l1 l2 H1 H2 E. destruct (kv _ _ H1) as (l1' & H1' & (E1 & _)). destruct (kv _ _ H2) as (l2' & H2' & (E2 & _)).
    unfold view_of, v_cmd in *. cbn in *. eapply (inv_dist _ _ _ V); eauto; congruence.
  - intros r l' Hl Ht. destruct (kv _ _ Hl) as (l & Hl0 & (E1 & _ & E3 & _)). unfold view_of, v_cmd, v_to in *. cbn in *.
    rewrite E1. eapply (inv_wait _ _ _ V); eauto; congruence.
  - intros r l' Hl Hx. destruct (kv _ _ Hl) as (l & Hl0 & (E1 & _ & _ & E4)). unfold view_of, v_cmd, v_ex in *. cbn in *.
    rewrite E1. eapply (inv_exp _ _ _ V); eauto. destruct E4; congruence.
  - intros r Hr. apply kh in Hr. destruct (inv_href _ _ _ V _ Hr) as [Hn Ht]. split; [lia|].
    apply getl_timeouted_of. intros l' Hl. destruct (kv _ _ Hl) as (l & Hl0 & (_ & _ & E3 & _)).
    unfold view_of, v_to in *. cbn in *. rewrite (getl_some _ _ _ Hl0) in Ht. congruence.
  - apply (inv_ok _ _ _ V).
Qed.

Lemma inv_keep I H s s' : Inv I H s -> keep s s' -> Inv I H s'.
Proof. intros V K. eapply inv_keepx; eauto. apply keep_keepx; auto. Qed.

Lemma inv_mono (I I' : N -> N -> Prop) H s : (forall a b, I a b -> I' a b) -> Inv I H s -> Inv I' H s.
Proof.
  intros M V. destruct V. split; auto.
  - intros r l Hl. destruct (inv_rec0 _ _ Hl). auto.
Qed.

(* ------------------------------------------------------------------ preservation: the request's own reply *)
Definition fresh (I : N -> N -> Prop) (q : N) : Prop := forall a, ~ I a q.
Definition issue (I : N -> N -> Prop) (conn q : N) : N -> N -> Prop := fun a b => I a b \/ (a = conn /\ b = q).

Lemma fresh_noreply I H s q : Inv I H s -> fresh I q -> noreply q H.
Proof. intros V F i Hi Hq. apply (F (i_conn i)). rewrite <- Hq. eapply inv_hist; eauto. Qed.

Lemma fresh_norec I H s q r l : Inv I H s -> fresh I q -> aget (store s) r = Some l -> c_req (l_cmd l) <> q.
Proof. intros V F Hl Hq. apply (F (l_conn l)). rewrite <- Hq. eapply inv_rec; eauto. Qed.

Lemma In_snoc {A} (x y : A) l : In x (l ++ [y]) <-> In x l \/ x = y.
Proof. rewrite in_app_iff. cbn. intuition. Qed.

Lemma inv_own_reply I H s conn q res :
  Inv I H s -> fresh I q -> res <> R_EXPRIED -> Inv (issue I conn q) (H ++ [(conn, q, res)]) s.
Proof.
  intros V F Hres. assert (NR := fresh_noreply _ _ _ _ V F). split.
  - intros r l Hl. destruct (inv_rec _ _ _ V _ _ Hl). split; auto. left; auto.
  - apply (inv_dom _ _ _ V).
  - intros i Hi. apply In_snoc in Hi. destruct Hi as [Hi| ->]; [left; eapply inv_hist; eauto|right; auto].
  - apply (inv_dist _ _ _ V).
  - intros r l Hl Ht i Hi. apply In_snoc in Hi. destruct Hi as [Hi| ->]; [eapply inv_wait; eauto|].
    cbn. intros E. eapply fresh_norec; eauto.
  - intros r l Hl Hx. destruct (inv_exp _ _ _ V _ _ Hl Hx) as [N1 (j & Hj & G)]. split.
    + intros i Hi Hq. apply In_snoc in Hi. destruct Hi as [Hi| ->]; [eapply N1; eauto|exact Hres].
    + exists j. split; auto. apply In_snoc; auto.
  - apply (inv_href _ _ _ V).
  - apply hist_ok_snoc; [apply (inv_ok _ _ _ V)|intros _; apply noreply_noterm; exact NR|intros E; contradiction].
Qed.

(* ------------------------------------------------------------------ preservation: one record changes, one reply *)
Lemma chg_cases s s' r V r' l' : chg1 s s' r V -> aget (store s') r' = Some l' ->
  (r' = r /\ V (view_of l')) \/ (r' <> r /\ exists l, aget (store s) r' = Some l /\ view_of l' = view_of l).
Proof.
  intros C Hl. assert (X := chg_v _ _ _ _ C _ _ Hl). destruct (r' =? r) eqn:E.
  - apply N.eqb_eq in E. auto.
  - apply N.eqb_neq in E. auto.
Qed.

Ltac vw := unfold view_of, v_cmd, v_conn, v_to, v_ex in *; cbn [fst snd] in *.

Lemma view_eq_inv l l' : view_of l' = view_of l ->
  l_cmd l' = l_cmd l /\ l_conn l' = l_conn l /\ l_timeouted l' = l_timeouted l /\ l_expried l' = l_expried l.
Proof. unfold view_of. intros E. inv E. auto. Qed.

(* a waiting record is answered: granted, timed out or cancelled *)
Lemma inv_answer I H s s' r l V res :
  Inv I H s -> aget (store s) r = Some l -> l_timeouted l = false -> chg1 s s' r V ->
  (forall v, V v -> v_cmd v = l_cmd l /\ v_conn v = l_conn l /\ v_to v = true
                    /\ (v_ex v = false -> res = R_SUCCED \/ res = R_LOCKED_ERROR)) ->
  res <> R_EXPRIED ->
  Inv I (H ++ [(l_conn l, c_req (l_cmd l), res)]) s'.
Proof.
  intros W Hl Ht C HV Hres. set (q := c_req (l_cmd l)).
  assert (NR : noreply q H) by (eapply inv_wait; eauto).
  split.
  - intros r' l' Hl'. destruct (chg_cases _ _ _ _ _ _ C Hl') as [[-> Vv]|[Hne (l0 & Hl0 & E)]].
    + destruct (HV _ Vv) as (E1 & E2 & _). vw. rewrite E1, E2. eapply inv_rec; eauto.
    + apply view_eq_inv in E. destruct E as (E1 & E2 & _). rewrite E1, E2. eapply inv_rec; eauto.
  - intros r' l' Hl'. assert (Hn := chg_n _ _ _ _ C).
    destruct (chg_cases _ _ _ _ _ _ C Hl') as [[-> Vv]|[Hne (l0 & Hl0 & E)]].
    + apply (inv_dom _ _ _ W) in Hl. lia.
    + apply (inv_dom _ _ _ W) in Hl0. lia.
  - intros i Hi. apply In_snoc in Hi. destruct Hi as [Hi| ->]; [eapply inv_hist; eauto|].
    cbn. eapply inv_rec; eauto.
  - intros r1 r2 l1 l2 H1 H2 E.
    assert (X1 : exists l1', aget (store s) r1 = Some l1' /\ l_cmd l1 = l_cmd l1').
    { destruct (chg_cases _ _ _ _ _ _ C H1) as [[-> Vv]|[Hne (l0 & Hl0 & E0)]].
      - exists l. split; auto. destruct (HV _ Vv) as (E1 & _). vw. auto.
      - exists l0. split; auto. apply view_eq_inv in E0. tauto. }
    assert (X2 : exists l2', aget (store s) r2 = Some l2' /\ l_cmd l2 = l_cmd l2').
    { destruct (chg_cases _ _ _ _ _ _ C H2) as [[-> Vv]|[Hne (l0 & Hl0 & E0)]].
      - exists l. split; auto. destruct (HV _ Vv) as (E1 & _). vw. auto.
      - exists l0. split; auto. apply view_eq_inv in E0. tauto. }
    destruct X1 as (l1' & G1 & E1). destruct X2 as (l2' & G2 & E2).
    eapply (inv_dist _ _ _ W); eauto; congruence.
  - intros r' l' Hl' Ht' i Hi.
    destruct (chg_cases _ _ _ _ _ _ C Hl') as [[-> Vv]|[Hne (l0 & Hl0 & E)]].
    + destruct (HV _ Vv) as (_ & _ & E3 & _). vw. congruence.
    + apply view_eq_inv in E. destruct E as (E1 & _ & E3 & _). rewrite E1.
      apply In_snoc in Hi. destruct Hi as [Hi| ->].
      * eapply (inv_wait _ _ _ W); eauto; congruence.
      * cbn. intros E. apply Hne. symmetry. eapply (inv_dist _ _ _ W); eauto.
  - intros r' l' Hl' Hx'.
    destruct (chg_cases _ _ _ _ _ _ C Hl') as [[-> Vv]|[Hne (l0 & Hl0 & E)]].
    + destruct (HV _ Vv) as (E1 & _ & _ & E4). vw. rewrite E1. split.
      * intros i Hi Hq. apply In_snoc in Hi. destruct Hi as [Hi| ->]; [exfalso; eapply NR; eauto|exact Hres].
      * exists (l_conn l, q, res). split; [apply In_snoc; auto|split; [reflexivity|apply E4; auto]].
    + apply view_eq_inv in E. destruct E as (E1 & _ & _ & E4). rewrite E1.
      destruct (inv_exp _ _ _ W _ _ Hl0 ltac:(congruence)) as [N1 (j & Hj & G)]. split.
      * intros i Hi Hq. apply In_snoc in Hi. destruct Hi as [Hi| ->]; [eapply N1; eauto|exact Hres].
      * exists j. split; auto. apply In_snoc; auto.
  - intros x Hx. assert (Hn := chg_n _ _ _ _ C). destruct (chg_h _ _ _ _ C _ Hx) as [->|Hx0].
    + split; [apply (inv_dom _ _ _ W) in Hl; lia|]. apply getl_timeouted_of. intros l' Hl'.
      destruct (chg_cases _ _ _ _ _ _ C Hl') as [[_ Vv]|[Hne _]]; [|congruence].
      destruct (HV _ Vv) as (_ & _ & E3 & _). vw. auto.
    + destruct (inv_href _ _ _ W _ Hx0) as [Hlt Hto]. split; [lia|]. apply getl_timeouted_of. intros l' Hl'.
      destruct (chg_cases _ _ _ _ _ _ C Hl') as [[_ Vv]|[Hne (l0 & Hl0 & E)]].
      * destruct (HV _ Vv) as (_ & _ & E3 & _). vw. auto.
      * apply view_eq_inv in E. rewrite (getl_some _ _ _ Hl0) in Hto. destruct E as (_ & _ & E3 & _). congruence.
  - apply hist_ok_snoc; [apply (inv_ok _ _ _ W)|intros _; apply noreply_noterm; exact NR|intros E; contradiction].
Qed.

(* a hold expires: EXPRIED notice *)
Lemma inv_expire I H s s' r l V :
  Inv I H s -> aget (store s) r = Some l -> l_expried l = false -> chg1 s s' r V ->
  (forall v, V v -> v_cmd v = l_cmd l /\ v_conn v = l_conn l /\ v_to v = l_timeouted l /\ v_ex v = true) ->
  Inv I (H ++ [(l_conn l, c_req (l_cmd l), R_EXPRIED)]) s'.
Proof.
  intros W Hl Hx C HV. set (q := c_req (l_cmd l)).
  assert (Hto : l_timeouted l = true).
  { destruct (l_timeouted l) eqn:E; auto. rewrite (inv_wait_exp _ _ _ _ _ W Hl E) in Hx. discriminate. }
  destruct (inv_exp _ _ _ W _ _ Hl Hx) as [NX HG]. fold q in NX, HG.
  split.
  - intros r' l' Hl'. destruct (chg_cases _ _ _ _ _ _ C Hl') as [[-> Vv]|[Hne (l0 & Hl0 & E)]].
    + destruct (HV _ Vv) as (E1 & E2 & _). vw. rewrite E1, E2. eapply inv_rec; eauto.
    + apply view_eq_inv in E. destruct E as (E1 & E2 & _). rewrite E1, E2. eapply inv_rec; eauto.
  - intros r' l' Hl'. assert (Hn := chg_n _ _ _ _ C).
    destruct (chg_cases _ _ _ _ _ _ C Hl') as [[-> Vv]|[Hne (l0 & Hl0 & E)]].
    + apply (inv_dom _ _ _ W) in Hl. lia.
    + apply (inv_dom _ _ _ W) in Hl0. lia.
  - intros i Hi. apply In_snoc in Hi. destruct Hi as [Hi| ->]; [eapply inv_hist; eauto|].
    cbn. eapply inv_rec; eauto.
  - intros r1 r2 l1 l2 H1 H2 E.
    assert (X1 : exists l1', aget (store s) r1 = Some l1' /\ l_cmd l1 = l_cmd l1').
    { destruct (chg_cases _ _ _ _ _ _ C H1) as [[-> Vv]|[Hne (l0 & Hl0 & E0)]].
      - exists l. split; auto. destruct (HV _ Vv) as (E1 & _). vw. auto.
      - exists l0. split; auto. apply view_eq_inv in E0. tauto. }
    assert (X2 : exists l2', aget (store s) r2 = Some l2' /\ l_cmd l2 = l_cmd l2').
    { destruct (chg_cases _ _ _ _ _ _ C H2) as [[-> Vv]|[Hne (l0 & Hl0 & E0)]].
      - exists l. split; auto. destruct (HV _ Vv) as (E1 & _). vw. auto.
      - exists l0. split; auto. apply view_eq_inv in E0. tauto. }
    destruct X1 as (l1' & G1 & E1). destruct X2 as (l2' & G2 & E2).
    eapply (inv_dist _ _ _ W); eauto; congruence.
  - intros r' l' Hl' Ht' i Hi.
    destruct (chg_cases _ _ _ _ _ _ C Hl') as [[-> Vv]|[Hne (l0 & Hl0 & E)]].
    + destruct (HV _ Vv) as (_ & _ & E3 & _). vw. congruence.
    + apply view_eq_inv in E. destruct E as (E1 & _ & E3 & _). rewrite E1.
      apply In_snoc in Hi. destruct Hi as [Hi| ->].
      * eapply (inv_wait _ _ _ W); eauto; congruence.
      * cbn. intros E. apply Hne. symmetry. eapply (inv_dist _ _ _ W); eauto.
  - intros r' l' Hl' Hx'.
    destruct (chg_cases _ _ _ _ _ _ C Hl') as [[-> Vv]|[Hne (l0 & Hl0 & E)]].
    + destruct (HV _ Vv) as (_ & _ & _ & E4). vw. congruence.
    + apply view_eq_inv in E. destruct E as (E1 & _ & _ & E4). rewrite E1.
      destruct (inv_exp _ _ _ W _ _ Hl0 ltac:(congruence)) as [N1 (j & Hj & G)]. split.
      * intros i Hi Hq. apply In_snoc in Hi. destruct Hi as [Hi| ->]; [eapply N1; eauto|].
        exfalso. apply Hne. cbn in Hq. eapply (inv_dist _ _ _ W); eauto.
      * exists j. split; auto. apply In_snoc; auto.
  - intros x Hx0. assert (Hn := chg_n _ _ _ _ C). destruct (chg_h _ _ _ _ C _ Hx0) as [->|Hx1].
    + split; [apply (inv_dom _ _ _ W) in Hl; lia|]. apply getl_timeouted_of. intros l' Hl'.
      destruct (chg_cases _ _ _ _ _ _ C Hl') as [[_ Vv]|[Hne _]]; [|congruence].
      destruct (HV _ Vv) as (_ & _ & E3 & _). vw. congruence.
    + destruct (inv_href _ _ _ W _ Hx1) as [Hlt Hto1]. split; [lia|]. apply getl_timeouted_of. intros l' Hl'.
      destruct (chg_cases _ _ _ _ _ _ C Hl') as [[_ Vv]|[Hne (l0 & Hl0 & E)]].
      * destruct (HV _ Vv) as (_ & _ & E3 & _). vw. congruence.
      * apply view_eq_inv in E. rewrite (getl_some _ _ _ Hl0) in Hto1. destruct E as (_ & _ & E3 & _). congruence.
  - apply hist_ok_snoc; [apply (inv_ok _ _ _ W)|intros E; exfalso; apply E; reflexivity|intros _; split; auto].
Qed.

(* ------------------------------------------------------------------ preservation: Lock installs the request's command *)
Lemma inv_install_reply I H s s' r V conn q res :
  Inv I H s -> fresh I q -> chg1 s s' r V -> r < next s' ->
  (forall v, V v -> c_req (v_cmd v) = q /\ core_flags (v_cmd v) /\ v_conn v = conn /\ v_to v = true) ->
  res = R_SUCCED \/ res = R_LOCKED_ERROR ->
  Inv (issue I conn q) (H ++ [(conn, q, res)]) s'.
Proof.
  intros W F C Hlt HV Hres.
  assert (NR := fresh_noreply _ _ _ _ W F).
  assert (Hne : res <> R_EXPRIED) by (destruct Hres as [-> | ->]; intro X; vm_compute in X; discriminate X).
  assert (Hn := chg_n _ _ _ _ C).
  split.
  - intros r' l' Hl'. destruct (chg_cases _ _ _ _ _ _ C Hl') as [[-> Vv]|[Hr (l0 & Hl0 & E)]].
    + destruct (HV _ Vv) as (E1 & E2 & E3 & _). vw. split; auto. right. auto.
    + apply view_eq_inv in E. destruct E as (E1 & E2 & _). rewrite E1, E2.
      destruct (inv_rec _ _ _ W _ _ Hl0). split; auto. left; auto.
  - intros r' l' Hl'. destruct (chg_cases _ _ _ _ _ _ C Hl') as [[-> Vv]|[Hr (l0 & Hl0 & E)]]; auto.
    apply (inv_dom _ _ _ W) in Hl0. lia.
  - intros i Hi. apply In_snoc in Hi. destruct Hi as [Hi| ->]; [left; eapply inv_hist; eauto|right; auto].
  - intros r1 r2 l1 l2 H1 H2 E.
    destruct (chg_cases _ _ _ _ _ _ C H1) as [[-> V1]|[Hr1 (l1' & G1 & E1)]];
    destruct (chg_cases _ _ _ _ _ _ C H2) as [[-> V2]|[Hr2 (l2' & G2 & E2)]]; auto.
    + exfalso. destruct (HV _ V1) as (Q1 & _). apply view_eq_inv in E2. destruct E2 as (E2 & _). vw.
      eapply (fresh_norec _ _ _ _ _ _ W F G2). congruence.
    + exfalso. destruct (HV _ V2) as (Q2 & _). apply view_eq_inv in E1. destruct E1 as (E1 & _). vw.
      eapply (fresh_norec _ _ _ _ _ _ W F G1). congruence.
    + apply view_eq_inv in E1. apply view_eq_inv in E2. eapply (inv_dist _ _ _ W); eauto. destruct E1, E2. congruence.
  - intros r' l' Hl' Ht' i Hi.
    destruct (chg_cases _ _ _ _ _ _ C Hl') as [[-> Vv]|[Hr (l0 & Hl0 & E)]].
    + destruct (HV _ Vv) as (_ & _ & _ & E4). vw. congruence.
    + apply view_eq_inv in E. destruct E as (E1 & _ & E3 & _). rewrite E1.
      apply In_snoc in Hi. destruct Hi as [Hi| ->].
      * eapply (inv_wait _ _ _ W); eauto; congruence.
      * cbn. intros E. eapply (fresh_norec _ _ _ _ _ _ W F Hl0). auto.
  - intros r' l' Hl' Hx'.
    destruct (chg_cases _ _ _ _ _ _ C Hl') as [[-> Vv]|[Hr (l0 & Hl0 & E)]].
    + destruct (HV _ Vv) as (E1 & _). vw. rewrite E1. split.
      * intros i Hi Hq. apply In_snoc in Hi. destruct Hi as [Hi| ->]; [exfalso; eapply NR; eauto|exact Hne].
      * exists (conn, q, res). split; [apply In_snoc; auto|split; [reflexivity|exact Hres]].
    + apply view_eq_inv in E. destruct E as (E1 & _ & _ & E4). rewrite E1.
      destruct (inv_exp _ _ _ W _ _ Hl0 ltac:(congruence)) as [N1 (j & Hj & G)]. split.
      * intros i Hi Hq. apply In_snoc in Hi. destruct Hi as [Hi| ->]; [eapply N1; eauto|exact Hne].
      * exists j. split; auto. apply In_snoc; auto.
  - intros x Hx. destruct (chg_h _ _ _ _ C _ Hx) as [->|Hx0].
    + split; auto. apply getl_timeouted_of. intros l' Hl'.
      destruct (chg_cases _ _ _ _ _ _ C Hl') as [[_ Vv]|[Hr _]]; [|congruence].
      destruct (HV _ Vv) as (_ & _ & _ & E4). vw. auto.
    + destruct (inv_href _ _ _ W _ Hx0) as [Hlt0 Hto]. split; [lia|]. apply getl_timeouted_of. intros l' Hl'.
      destruct (chg_cases _ _ _ _ _ _ C Hl') as [[_ Vv]|[Hr (l0 & Hl0 & E)]].
      * destruct (HV _ Vv) as (_ & _ & _ & E4). vw. auto.
      * apply view_eq_inv in E. rewrite (getl_some _ _ _ Hl0) in Hto. destruct E as (_ & _ & E3 & _). congruence.
  - apply hist_ok_snoc; [apply (inv_ok _ _ _ W)|intros _; apply noreply_noterm; exact NR|intros E; contradiction].
Qed.

Lemma inv_install_wait I H s s' r V conn q :
  Inv I H s -> fresh I q -> chg1 s s' r V -> r < next s' ->
  (forall x, href s' x -> href s x) -> ~ href s r ->
  (forall v, V v -> c_req (v_cmd v) = q /\ core_flags (v_cmd v) /\ v_conn v = conn /\ v_ex v = true) ->
  Inv (issue I conn q) H s'.
Proof.
  intros W F C Hlt Hh Hnr HV.
  assert (NR := fresh_noreply _ _ _ _ W F).
  assert (Hn := chg_n _ _ _ _ C).
  split.
  - intros r' l' Hl'. destruct (chg_cases _ _ _ _ _ _ C Hl') as [[-> Vv]|[Hr (l0 & Hl0 & E)]].
    + destruct (HV _ Vv) as (E1 & E2 & E3 & _). vw. split; auto. right. auto.
    + apply view_eq_inv in E. destruct E as (E1 & E2 & _). rewrite E1, E2.
      destruct (inv_rec _ _ _ W _ _ Hl0). split; auto. left; auto.
  - intros r' l' Hl'. destruct (chg_cases _ _ _ _ _ _ C Hl') as [[-> Vv]|[Hr (l0 & Hl0 & E)]]; auto.
    apply (inv_dom _ _ _ W) in Hl0. lia.
  - intros i Hi. left; eapply inv_hist; eauto.
  - intros r1 r2 l1 l2 H1 H2 E.
    destruct (chg_cases _ _ _ _ _ _ C H1) as [[-> V1]|[Hr1 (l1' & G1 & E1)]];
    destruct (chg_cases _ _ _ _ _ _ C H2) as [[-> V2]|[Hr2 (l2' & G2 & E2)]]; auto.
    + exfalso. destruct (HV _ V1) as (Q1 & _). apply view_eq_inv in E2. destruct E2 as (E2 & _). vw.
      eapply (fresh_norec _ _ _ _ _ _ W F G2). congruence.
    + exfalso. destruct (HV _ V2) as (Q2 & _). apply view_eq_inv in E1. destruct E1 as (E1 & _). vw.
      eapply (fresh_norec _ _ _ _ _ _ W F G1). congruence.
    + apply view_eq_inv in E1. apply view_eq_inv in E2. eapply (inv_dist _ _ _ W); eauto. destruct E1, E2. congruence.
  - intros r' l' Hl' Ht'.
    destruct (chg_cases _ _ _ _ _ _ C Hl') as [[-> Vv]|[Hr (l0 & Hl0 & E)]].
    + destruct (HV _ Vv) as (E1 & _). vw. rewrite E1. exact NR.
    + apply view_eq_inv in E. destruct E as (E1 & _ & E3 & _). rewrite E1.
      eapply (inv_wait _ _ _ W); eauto; congruence.
  - intros r' l' Hl' Hx'.
    destruct (chg_cases _ _ _ _ _ _ C Hl') as [[-> Vv]|[Hr (l0 & Hl0 & E)]].
    + destruct (HV _ Vv) as (_ & _ & _ & E4). vw. congruence.
    + apply view_eq_inv in E. destruct E as (E1 & _ & _ & E4). rewrite E1.
      eapply (inv_exp _ _ _ W); eauto; congruence.
  - intros x Hx. apply Hh in Hx. destruct (inv_href _ _ _ W _ Hx) as [Hlt0 Hto]. split; [lia|].
    apply getl_timeouted_of. intros l' Hl'.
    destruct (chg_cases _ _ _ _ _ _ C Hl') as [[-> Vv]|[Hr (l0 & Hl0 & E)]]; [contradiction|].
    apply view_eq_inv in E. rewrite (getl_some _ _ _ Hl0) in Hto. destruct E as (_ & _ & E3 & _). congruence.
  - apply (inv_ok _ _ _ W).
Qed.

(* ------------------------------------------------------------------ wake-up pass *)
Lemma get_wait_loop_live fuel : forall s q s' q' r,
  get_wait_loop fuel s q = (s', q', Some r) -> dead_waiter (getl s' r) = false.
Proof.
  induction fuel as [|f IH]; cbn; intros s q s' q' r H; [discriminate|].
  destruct (wq_head q) as [x|]; [|discriminate].
  destruct (dead_waiter (getl s x)) eqn:D; [eauto|]. inv H. exact D.
Qed.

Lemma get_wait_lock_live s k s' r : get_wait_lock s k = (s', Some r) -> l_timeouted (getl s' r) = false.
Proof.
  unfold get_wait_lock. destruct (m_wait (getm s k)) as [q|]; [|discriminate].
  destruct (get_wait_loop _ s q) as [[s1 q1] o] eqn:E. intros H. inv H.
  apply get_wait_loop_live in E. rewrite getl_updm. unfold dead_waiter in E. apply orb_false_iff in E. tauto.
Qed.

Lemma wake_iter_inv I H s w s' ev res :
  Inv I H s -> wake_iter s w = (s', ev, res) -> Inv I (H ++ rinfos ev) s'.
Proof.
  unfold wake_iter. intros W E.
  destruct (aget (mgrs s) (w_key w)) as [m|]; [|inv E; cbn; rewrite app_nil_r; auto].
  destruct (negb (m_waited m)); [inv E; cbn; rewrite app_nil_r; auto|].
  destruct (get_wait_lock s (w_key w)) as [s1 [r|]] eqn:G.
  - assert (W1 : Inv I H s1) by (eapply inv_keep; [exact W|eapply get_wait_lock_keep; eauto]).
    destruct (negb (do_lock s1 (w_key w) r)); [inv E; cbn; rewrite app_nil_r; auto|].
    destruct (wake_grant s1 (w_key w) r (w_conn w)) as [s2 ev2] eqn:G2. inv E.
    assert (L := get_wait_lock_live _ _ _ _ G). assert (Hin := getl_live_in_store _ _ L).
    destruct (inv_rec _ _ _ W1 _ _ Hin) as [_ CF].
    destruct (wake_grant_sum _ _ _ _ _ _ G2 L CF) as [C R]. rewrite R.
    eapply inv_answer; eauto.
    + intros v (E1 & E2 & E3). repeat split; auto.
    + intro X; vm_compute in X; discriminate X.
  - inv E. cbn. rewrite app_nil_r. eapply inv_keep; [exact W|].
    eapply keep_trans; [eapply get_wait_lock_keep; eauto|]. keep_x.
Qed.

Lemma run_wake_inv fuel : forall I H s w s' ev,
  Inv I H s -> run_wake fuel s w = (s', ev) -> Inv I (H ++ rinfos ev) s'.
Proof.
  induction fuel as [|f IH]; cbn; intros I H s w s' ev W E.
  - inv E. cbn. rewrite app_nil_r. auto.
  - destruct (wake_iter s w) as [[s1 ev1] res] eqn:E1. assert (W1 := wake_iter_inv _ _ _ _ _ _ _ W E1).
    destruct res; [inv E; auto|].
    destruct (run_wake f s1 w) as [s2 ev2] eqn:E2. inv E. rewrite rinfos_app, app_assoc. eauto.
Qed.

Lemma finish_inv I H s1 ev1 w s' ev :
  finish (s1, ev1, w) = (s', ev) -> exists ev2, ev = ev1 ++ ev2 /\ (Inv I H s1 -> Inv I (H ++ rinfos ev2) s').
Proof.
  unfold finish. destruct w as [w|].
  - destruct (run_wake _ s1 w) as [s2 ev2] eqn:E. intros X. inv X. exists ev2. split; auto.
    intros W. eapply run_wake_inv; eauto.
  - intros X. inv X. exists []. rewrite !app_nil_r. split; auto.
Qed.

(* ------------------------------------------------------------------ requests *)
Lemma issue_mono (I : N -> N -> Prop) conn q a b : I a b -> issue I conn q a b.
Proof. left; auto. Qed.

Lemma lock_step_inv I H s conn c s1 ev1 w :
  Inv I H s -> fresh I (c_req c) -> core_cmd c -> lock_step s conn c = (s1, ev1, w) ->
  Inv (issue I conn (c_req c)) (H ++ rinfos ev1) s1.
Proof.
  intros W F CC E. apply lock_step_sum in E; auto.
  destruct E as [(res & K & R & Hres)|[(r & c' & (Hr & Hlt) & Hq & Hc & C & R)|[(r & c' & (Hr & Hlt) & Hq & Hc & C & Hh & R & _)|(r & c' & res & Hr & Hq & Hc & C & R & Hres)]]]; rewrite R.
  - eapply inv_keep; [|exact K]. apply inv_own_reply; auto.
  - eapply inv_install_reply; eauto.
    intros v ->. cbn. repeat split; auto. apply core_cmd_flags; auto. apply core_cmd_flags; auto.
  - rewrite app_nil_r. eapply inv_install_wait; eauto.
    + intros Hx. apply (inv_href _ _ _ W) in Hx. lia.
    + intros v ->. cbn. repeat split; auto; apply core_cmd_flags; auto.
  - destruct (inv_href _ _ _ W _ Hr) as [Hlt Hto]. eapply inv_install_reply; eauto.
    + assert (Hn := chg_n _ _ _ _ C). lia.
    + intros v (E1 & E2 & E3). rewrite E1. repeat split; auto; try apply core_cmd_flags; auto. congruence.
Qed.

Lemma unlock_step_inv I H s conn c s1 ev1 w :
  Inv I H s -> fresh I (c_req c) -> unlock_step s conn c = (s1, ev1, w) ->
  Inv (issue I conn (c_req c)) (H ++ rinfos ev1) s1.
Proof.
  intros W F E. apply unlock_step_sum in E.
  destruct E as [(res & K & R & Hres)|(r & l & Hl & Ht & _ & _ & C & R)]; rewrite R.
  - eapply inv_keepx; [|exact K]. apply inv_own_reply; auto.
  - change [(conn, c_req c, R_LOCKED_ERROR); (l_conn l, c_req (l_cmd l), R_UNLOCK_ERROR)]
      with ([(conn, c_req c, R_LOCKED_ERROR)] ++ [(l_conn l, c_req (l_cmd l), R_UNLOCK_ERROR)]).
    rewrite app_assoc. eapply inv_answer; eauto.
    + apply inv_own_reply; auto. intro X; vm_compute in X; discriminate X.
    + intros v ->. cbn. repeat split; auto. intros X. rewrite (inv_wait_exp _ _ _ _ _ W Hl Ht) in X. discriminate.
    + intro X; vm_compute in X; discriminate X.
Qed.

(* ------------------------------------------------------------------ sweeps: the collecting halves change no view *)
Lemma getl_updl_same s r f : getl (updl s r f) r = match aget (store s) r with Some l => f l | None => dummy_lock end.
Proof. unfold getl. rewrite aget_store_updl, N.eqb_refl. destruct (aget (store s) r); reflexivity. Qed.

Lemma sweep_t_slot_keep fuel : forall s slot nowv due s' due',
  sweep_t_slot fuel s slot nowv due = (s', due') -> keep s s'.
Proof.
  induction fuel as [|f IH]; cbn; intros s slot nowv due s' due' H; [inv H; apply keep_refl|].
  destruct (wheel_get (twheel s) slot) as [|r rest]; [inv H; apply keep_refl|].
  set (s1 := s <| twheel := aset (twheel s) slot rest |>) in *.
  assert (K1 : keep s s1) by (subst s1; keep_x).
  assert (S1 : store s1 = store s) by reflexivity.
  destruct (aget (store s) r) as [l|] eqn:El; [|inv H; auto].
  assert (El1 : aget (store s1) r = Some l) by (rewrite S1; auto).
  assert (G : getl s1 r = l) by (apply getl_some; auto). rewrite ?G in H.
  destruct (negb (l_timeouted l)) eqn:Ht.
  - destruct (nowv <? l_tT l)%Z.
    + apply IH in H. eapply keep_trans; [|exact H]. eapply keep_trans; [exact K1|].
      eapply keep_trans; [|apply add_timeout_keep].
      * keep_x.
      * rewrite getl_updl_same, El1. cbn. apply negb_true_iff in Ht. exact Ht.
    + apply IH in H. eapply keep_trans; eauto.
  - apply IH in H. eapply keep_trans; [|exact H]. eapply keep_trans; [exact K1|]. keep_x.
Qed.

Lemma sweep_long_keep items : forall s is_t due s' due', sweep_long s items is_t due = (s', due') -> keep s s'.
Proof.
  induction items as [|r rest IH]; cbn; intros s is_t due s' due' H; [inv H; apply keep_refl|].
  destruct (negb _).
  - apply IH in H. eapply keep_trans; [|exact H]. keep_x.
  - apply IH in H. eapply keep_trans; [|exact H]. keep_x.
Qed.

Lemma collect_timeouts_keep s t nowv s' due : collect_timeouts s t nowv = (s', due) -> keep s s'.
Proof.
  unfold collect_timeouts. intros H.
  destruct (sweep_t_slot _ s (slot_of t) nowv []) as [s1 d1] eqn:E1. apply sweep_t_slot_keep in E1.
  destruct (aget (tlong s1) (lkey t)) as [items|]; [|inv H; auto].
  apply sweep_long_keep in H. eapply keep_trans; [exact E1|]. eapply keep_trans; [|exact H]. keep_x.
Qed.

Lemma sweep_e_slot_keep fuel : forall s slot nowv due ev s' due' ev',
  sweep_e_slot fuel s slot nowv due ev = (s', due', ev') -> keep s s' /\ (rinfos ev = [] -> rinfos ev' = []).
Proof.
  induction fuel as [|f IH]; cbn; intros s slot nowv due ev s' due' ev' H; [inv H; split; [apply keep_refl|auto]|].
  destruct (wheel_get (ewheel s) slot) as [|r rest]; [inv H; split; [apply keep_refl|auto]|].
  set (s1 := s <| ewheel := aset (ewheel s) slot rest |>) in *.
  assert (K1 : keep s s1) by (subst s1; keep_x).
  assert (S1 : store s1 = store s) by reflexivity.
  destruct (aget (store s) r) as [l|] eqn:El; [|inv H; auto].
  assert (El1 : aget (store s1) r = Some l) by (rewrite S1; auto).
  assert (G : getl s1 r = l) by (apply getl_some; auto). rewrite ?G in H.
  destruct (negb (l_expried l)) eqn:Ht.
  - destruct (nowv <? l_eT l)%Z.
    + destruct (add_expried _ (l_key l) r) as [s2 aev] eqn:Ea. apply add_expried_keep in Ea.
      * destruct Ea as [K2 R2]. apply IH in H. destruct H as [K3 R3]. split.
        -- eapply keep_trans; [|exact K3]. eapply keep_trans; [exact K1|]. eapply keep_trans; [|exact K2]. keep_x.
        -- intros R. apply R3. rewrite rinfos_app, R. apply rinfos_noreply. auto.
      * rewrite getl_updl_same, El1. cbn. apply negb_true_iff in Ht. exact Ht.
    + apply IH in H. destruct H as [K3 R3]. split; auto. eapply keep_trans; eauto.
  - apply IH in H. destruct H as [K3 R3]. split; auto.
    eapply keep_trans; [|exact K3]. eapply keep_trans; [exact K1|]. keep_x.
Qed.

Lemma collect_expiries_keep s t nowv s' due ev :
  collect_expiries s t nowv = (s', due, ev) -> keep s s' /\ rinfos ev = [].
Proof.
  unfold collect_expiries. intros H.
  destruct (sweep_e_slot _ s (slot_of t) nowv [] []) as [[s1 d1] e1] eqn:E1. apply sweep_e_slot_keep in E1.
  destruct E1 as [K1 R1]. specialize (R1 eq_refl).
  destruct (aget (elong s1) (lkey t)) as [items|]; [|inv H; auto].
  destruct (sweep_long _ items false d1) as [s2 d2] eqn:E2. inv H. split; auto.
  apply sweep_long_keep in E2. eapply keep_trans; [exact K1|]. eapply keep_trans; [|exact E2]. keep_x.
Qed.

(* ------------------------------------------------------------------ firing *)
Lemma do_timeout_inv I H s r s1 ev1 w :
  Inv I H s -> do_timeout s r = (s1, ev1, w) -> Inv I (H ++ rinfos ev1) s1.
Proof.
  intros W E. apply do_timeout_sum in E.
  destruct E as [[K R]|(l & Hl & Ht & C & R)]; rewrite R.
  - rewrite app_nil_r. eapply inv_keep; eauto.
  - eapply inv_answer; eauto.
    + intros v ->. cbn. repeat split; auto. intros X. rewrite (inv_wait_exp _ _ _ _ _ W Hl Ht) in X. discriminate.
    + intro X; vm_compute in X; discriminate X.
Qed.

Lemma do_expried_inv I H s r s1 ev1 w :
  Inv I H s -> do_expried s r = (s1, ev1, w) -> Inv I (H ++ rinfos ev1) s1.
Proof.
  intros W E. apply do_expried_sum in E.
  destruct E as [[K R]|(l & Hl & Ht & C & R)]; rewrite R.
  - rewrite app_nil_r. eapply inv_keep; eauto.
  - eapply inv_expire; eauto. intros v ->. cbn. repeat split; auto.
Qed.

Lemma fire_all_inv (f : db -> ref -> db * list event * option wake) :
  (forall I H s r s1 ev1 w, Inv I H s -> f s r = (s1, ev1, w) -> Inv I (H ++ rinfos ev1) s1) ->
  forall due I H s s' ev, Inv I H s -> fire_all f s due = (s', ev) -> Inv I (H ++ rinfos ev) s'.
Proof.
  intros Hf. induction due as [|r rest IH]; cbn; intros I H s s' ev W E.
  - inv E. cbn. rewrite app_nil_r. auto.
  - destruct (f s r) as [[s1 ev1] w] eqn:E1.
    destruct (finish (s1, ev1, w)) as [s2 e1] eqn:E2. destruct (fire_all f s2 rest) as [s3 e3] eqn:E3. inv E.
    destruct (finish_inv I (H ++ rinfos ev1) _ _ _ _ _ E2) as (ev2 & -> & F).
    rewrite !rinfos_app, !app_assoc. eapply IH; [|exact E3]. apply F. eapply Hf; eauto.
Qed.

Lemma sweep_t_secs_inv n : forall I H s t nowv s' ev,
  Inv I H s -> sweep_t_secs n s t nowv = (s', ev) -> Inv I (H ++ rinfos ev) s'.
Proof.
  induction n as [|n IH]; cbn; intros I H s t nowv s' ev W E.
  - inv E. cbn. rewrite app_nil_r. auto.
  - destruct (collect_timeouts s t nowv) as [s1 due] eqn:E1.
    destruct (fire_all do_timeout s1 due) as [s2 e2] eqn:E2.
    destruct (sweep_t_secs n s2 (t + 1)%Z nowv) as [s3 e3] eqn:E3. inv E.
    rewrite rinfos_app, app_assoc. eapply IH; eauto.
    eapply fire_all_inv; [apply do_timeout_inv| |exact E2].
    eapply inv_keep; [exact W|]. eapply collect_timeouts_keep; eauto.
Qed.

Lemma sweep_e_secs_inv n : forall I H s t nowv s' ev,
  Inv I H s -> sweep_e_secs n s t nowv = (s', ev) -> Inv I (H ++ rinfos ev) s'.
Proof.
  induction n as [|n IH]; cbn; intros I H s t nowv s' ev W E.
  - inv E. cbn. rewrite app_nil_r. auto.
  - destruct (collect_expiries s t nowv) as [[s1 due] e1] eqn:E1.
    destruct (fire_all do_expried s1 due) as [s2 e2] eqn:E2.
    destruct (sweep_e_secs n s2 (t + 1)%Z nowv) as [s3 e3] eqn:E3. inv E.
    apply collect_expiries_keep in E1. destruct E1 as [K1 R1].
    rewrite !rinfos_app, R1. cbn [app]. rewrite app_assoc. eapply IH; eauto.
    eapply fire_all_inv; [apply do_expried_inv| |exact E2].
    eapply inv_keep; eauto.
Qed.

(* ------------------------------------------------------------------ steps and runs *)
Definition core_action (a : action) : Prop :=
  match a with
  | AReq _ c => core_cmd c
  | AAdvance k => (0 <= k)%Z
  | ASweepT | ASweepE | ARole _ => True
  | AAck _ _ => False
  end.

Definition step_issue (I : N -> N -> Prop) (a : action) : N -> N -> Prop :=
  match a with AReq conn c => issue I conn (c_req c) | _ => I end.
Definition step_fresh (I : N -> N -> Prop) (a : action) : Prop :=
  match a with AReq _ c => fresh I (c_req c) | _ => True end.

Lemma step_inv I H s a s' ev :
  Inv I H s -> core_action a -> step_fresh I a -> step s a = (s', ev) -> Inv (step_issue I a) (H ++ rinfos ev) s'.
Proof.
  intros W CA FR E. destruct a as [conn c|k| | |r ok|b]; cbn in *.
  - destruct (if c_lock c then lock_step s conn c else unlock_step s conn c) as [[s1 ev1] w] eqn:E1.
    destruct (finish_inv (issue I conn (c_req c)) (H ++ rinfos ev1) _ _ _ _ _ E) as (ev2 & -> & F).
    rewrite rinfos_app, app_assoc. apply F.
    destruct (c_lock c); [eapply lock_step_inv|eapply unlock_step_inv]; eauto.
  - inv E. cbn. rewrite app_nil_r. eapply inv_keep; [exact W|keep_x].
  - unfold sweep_timeouts in E. eapply sweep_t_secs_inv; [|exact E]. eapply inv_keep; [exact W|keep_x].
  - unfold sweep_expiries in E. eapply sweep_e_secs_inv; [|exact E]. eapply inv_keep; [exact W|keep_x].
  - contradiction.
  - inv E. cbn. rewrite app_nil_r. eapply inv_keep; [exact W|keep_x].
Qed.

Definition reqs (acts : list action) : list N :=
  flat_map (fun a => match a with AReq _ c => [c_req c] | _ => [] end) acts.

(* RequestIds are unique over the whole history (the property's "connection-unique RequestIds", taken globally) *)
Definition unique_reqids (acts : list action) : Prop := NoDup (reqs acts).

Definition issued (acts : list action) : N -> N -> Prop :=
  fun conn q => exists c, In (AReq conn c) acts /\ c_req c = q.

Lemma reqs_app a b : reqs (a ++ b) = reqs a ++ reqs b.
Proof. unfold reqs. apply flat_map_app. Qed.

Lemma issued_in_reqs acts conn q : issued acts conn q -> In q (reqs acts).
Proof.
  intros (c & Hc & <-). unfold reqs. apply in_flat_map. exists (AReq conn c). split; auto. left; auto.
Qed.

Lemma unique_issuer acts conn conn' c c' :
  unique_reqids acts -> In (AReq conn c) acts -> In (AReq conn' c') acts -> c_req c = c_req c' -> conn = conn' /\ c = c'.
Proof.
  unfold unique_reqids. induction acts as [|a rest IH]; cbn; [contradiction|].
  intros ND [H1|H1] [H2|H2] E.
  - subst a. inv H2. auto.
  - subst a. cbn in ND. inv ND. exfalso. match goal with HN : ~ In _ _ |- _ => apply HN end. rewrite E. apply (issued_in_reqs rest conn'). exists c'. auto.
  - subst a. cbn in ND. inv ND. exfalso. match goal with HN : ~ In _ _ |- _ => apply HN end. rewrite <- E. apply (issued_in_reqs rest conn). exists c. auto.
  - apply IH; auto. destruct a; cbn in ND; auto. inv ND. auto.
Qed.

Lemma run_inv : forall acts pre H s s' evs,
  Inv (issued pre) H s -> Forall core_action acts -> unique_reqids (pre ++ acts) ->
  run s acts = (s', evs) -> Inv (issued (pre ++ acts)) (H ++ rinfos (concat evs)) s'.
Proof.
  induction acts as [|a rest IH]; cbn; intros pre H s s' evs W CA U E.
  - inv E. cbn. rewrite !app_nil_r. auto.
  - destruct (step s a) as [s1 e1] eqn:E1. destruct (run s1 rest) as [s2 es] eqn:E2. inv E.
    inv CA. cbn [concat]. rewrite rinfos_app, app_assoc.
    replace (pre ++ a :: rest) with ((pre ++ [a]) ++ rest) in * by (rewrite <- app_assoc; reflexivity).
    eapply IH; eauto.
    eapply inv_mono; [|eapply step_inv; eauto].
    + destruct a; cbn; try (intros x y (c0 & Hc & Hq); exists c0; split; auto; apply in_app_iff; auto).
      intros x y [(c0 & Hc & Hq)|[-> ->]].
      * exists c0. split; auto. apply in_app_iff; auto.
      * exists c. split; auto. apply in_app_iff. right. left. auto.
    + destruct a; cbn; auto. intros x Hx. apply issued_in_reqs in Hx.
      unfold unique_reqids in U. rewrite !reqs_app in U. cbn in U. rewrite <- app_assoc in U. cbn in U.
      apply NoDup_remove_2 in U. apply U. apply in_app_iff. left. exact Hx.
Qed.

(* ------------------------------------------------------------------ global theorems *)
Theorem run_reply_invariant t0 a acts s evs :
  Forall core_action acts -> unique_reqids acts -> run (init_db t0 a) acts = (s, evs) ->
  Inv (issued acts) (rinfos (concat evs)) s.
Proof.
  intros CA U E. apply (run_inv acts [] [] _ _ _ (inv_init _ t0 a) CA U E).
Qed.

(* T3: a reply is addressed to the connection that issued its RequestId -- in the prefix of the history run so far *)
Theorem reply_right_client t0 a acts s evs conn q res :
  Forall core_action acts -> unique_reqids acts -> run (init_db t0 a) acts = (s, evs) ->
  In (conn, q, res) (rinfos (concat evs)) ->
  (exists c, In (AReq conn c) acts /\ c_req c = q)
  /\ (forall conn' c', In (AReq conn' c') acts -> c_req c' = q -> conn' = conn).
Proof.
  intros CA U E Hi. assert (W := run_reply_invariant _ _ _ _ _ CA U E).
  assert (X := inv_hist _ _ _ W _ Hi). cbn in X. split; auto.
  intros conn' c' Hc' Hq'. destruct X as (c & Hc & Hq).
  destruct (unique_issuer _ _ _ _ _ U Hc' Hc ltac:(congruence)). auto.
Qed.

(* T2: at most one terminal reply and at most one EXPRIED notice per RequestId; EXPRIED comes after the grant *)
Theorem reply_history_ok t0 a acts s evs :
  Forall core_action acts -> unique_reqids acts -> run (init_db t0 a) acts = (s, evs) ->
  hist_ok (rinfos (concat evs)).
Proof. intros CA U E. exact (inv_ok _ _ _ (run_reply_invariant _ _ _ _ _ CA U E)). Qed.

Definition is_term (q : N) (i : rinfo) : bool := (i_req i =? q) && negb (i_res i =? R_EXPRIED).
Definition is_exp (q : N) (i : rinfo) : bool := (i_req i =? q) && (i_res i =? R_EXPRIED).

Lemma hist_ok_prefix H i : hist_ok (H ++ [i]) -> hist_ok H.
Proof.
  intros Hok H1 j H2 E. apply (Hok H1 j (H2 ++ [i])). rewrite E, <- app_assoc. reflexivity.
Qed.

Lemma noterm_filter q H : noterm q H -> filter (is_term q) H = [].
Proof.
  induction H as [|i H IH]; cbn; auto. intros N.
  assert (N' : noterm q H) by (intros j Hj; apply N; right; auto).
  unfold is_term at 1. destruct (i_req i =? q) eqn:E; cbn; auto.
  apply N.eqb_eq in E. rewrite (N i (or_introl eq_refl) E). cbn. auto.
Qed.

Lemma noexp_filter q H : noexp q H -> filter (is_exp q) H = [].
Proof.
  induction H as [|i H IH]; cbn; auto. intros N.
  assert (N' : noexp q H) by (intros j Hj; apply N; right; auto).
  unfold is_exp at 1. destruct (i_req i =? q) eqn:E; cbn; auto.
  apply N.eqb_eq in E. assert (X := N i (or_introl eq_refl) E). apply N.eqb_neq in X. rewrite X. auto.
Qed.

Lemma hist_ok_counts H q : hist_ok H ->
  (length (filter (is_term q) H) <= 1)%nat /\ (length (filter (is_exp q) H) <= 1)%nat.
Proof.
  induction H as [|i H IH] using rev_ind; cbn; auto.
  intros Hok. destruct (IH (hist_ok_prefix _ _ Hok)) as [A B].
  destruct (Hok H i [] eq_refl) as [T X]. rewrite !filter_app, !app_length. cbn.
  split.
  - unfold is_term at 2. destruct (i_req i =? q) eqn:E; cbn; [|lia].
    destruct (i_res i =? R_EXPRIED) eqn:E2; cbn; [lia|]. apply N.eqb_eq in E. apply N.eqb_neq in E2.
    rewrite <- E, (noterm_filter _ _ (T E2)). cbn. lia.
  - unfold is_exp at 2. destruct (i_req i =? q) eqn:E; cbn; [|lia].
    destruct (i_res i =? R_EXPRIED) eqn:E2; cbn; [|lia]. apply N.eqb_eq in E. apply N.eqb_eq in E2.
    destruct (X E2) as [X1 _]. rewrite <- E, (noexp_filter _ _ X1). cbn. lia.
Qed.

Theorem reply_at_most_one t0 a acts s evs q :
  Forall core_action acts -> unique_reqids acts -> run (init_db t0 a) acts = (s, evs) ->
  (length (filter (is_term q) (rinfos (concat evs))) <= 1)%nat
  /\ (length (filter (is_exp q) (rinfos (concat evs))) <= 1)%nat.
Proof. intros CA U E. apply hist_ok_counts. eapply reply_history_ok; eauto. Qed.

(* the EXPRIED notice of a hold comes after the reply (SUCCED for a grant / re-lock, LOCKED_ERROR for an update) that
   answered the request whose RequestId it carries *)
Theorem expried_after_grant t0 a acts s evs H1 conn q H2 :
  Forall core_action acts -> unique_reqids acts -> run (init_db t0 a) acts = (s, evs) ->
  rinfos (concat evs) = H1 ++ (conn, q, R_EXPRIED) :: H2 ->
  exists conn' res, In (conn', q, res) H1 /\ (res = R_SUCCED \/ res = R_LOCKED_ERROR).
Proof.
  intros CA U E Hs. assert (Hok := reply_history_ok _ _ _ _ _ CA U E).
  destruct (Hok _ _ _ Hs) as [_ X]. destruct (X eq_refl) as [_ (j & Hj & Hq & G)].
  destruct j as [[cj qj] rj]. cbn in *. subst qj. exists cj, rj. auto.
Qed.
