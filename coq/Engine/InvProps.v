(* Consequences of the reachability invariant, in the vocabulary of properties C01, C02, C17. *)
From Coq Require Import String ZifyN ZifyBool ZifyNat Permutation.
From Slock Require Import Engine.Types Engine.Queues Engine.Timers Engine.Engine Engine.Engine2 Engine.InvDef Engine.InvBase
  Engine.InvPrims Engine.InvRec Engine.InvWheel Engine.InvQueue Engine.InvQueue2 Engine.InvSteps Engine.InvLockDefs Engine.InvLock
  Engine.InvUnlock Engine.InvSweep Engine.InvMain.
Open Scope N_scope.

(* reachable states of the core subset *)
Definition core_run (s0 : db) (acts : list action) : Prop :=
  Forall (fun a => core_action a = true) acts /\ bounded_run s0 acts.

Theorem inv_reachable t0 a acts : core_run (init_db t0 a) acts -> Inv (fst (run (init_db t0 a) acts)).
Proof. intros [H1 H2]. apply inv_run_bounded; auto. apply inv_init. Qed.

(* ---------------------------------------------------------------- C01: `locked` is the sum of the outstanding depths *)
Lemma dlk_g0 k : dlk g0 k = 0%Z.  Proof. unfold dlk, g0. cbn. destruct (k =? 0); reflexivity. Qed.
Lemma phk_g0 k : phk g0 k = [].  Proof. unfold phk, g0. cbn. destruct (k =? 0); reflexivity. Qed.
Lemma lkk_g0 k : lkk g0 k = false.  Proof. unfold lkk, g0. cbn. apply andb_false_r. Qed.

Theorem inv_locked_is_sum s : Inv s -> forall k, m_locked (getm s k) = sumdepth s (holders (getm s k)).
Proof.
  intros G k. unfold getm. destruct (aget (mgrs s) k) as [m|] eqn:Hm; [|reflexivity].
  pose proof (mo_sum _ _ _ _ (gi_mgr _ _ G k m Hm)) as S. rewrite dlk_g0 in S. lia.
Qed.

Theorem inv_holders_wf s : Inv s -> forall k m, aget (mgrs s) k = Some m ->
  (forall r, In r (holders m) -> exists l, aget (store s) r = Some l /\ l_key l = k /\ r < next s)
  /\ NoDup (holders m)
  /\ (forall c, m_cur m = Some c -> 0 < l_locked (getl s c))
  /\ (m_cur m = None -> m_locked m = 0 /\ holders m = [])
  /\ m_locked m < 4294967296.
Proof.
  intros G k m Hm. destruct (gi_mgr _ _ G k m Hm) as [B1 B2 B3 B4 B5 B6 B7 B8 B9 Bb B10 Bc].
  rewrite phk_g0 in B1. rewrite dlk_g0 in B6. rewrite lkk_g0 in *.
  split; [|split; [exact B4|split; [apply B7; auto|split; [|apply Bb]]]].
  - intros r Hi. assert (Hi' : In r (holders m ++ m_wq m)) by (apply in_or_app; auto).
    destruct (aget (store s) r) as [l|] eqn:Hr.
    + exists l. repeat split; eauto.
    + exfalso. apply (B1 r); auto. simpl. apply occ_In in Hi'. lia.
  - intros Hc. specialize (B8 eq_refl Hc). assert (Hh : holders m = []) by (unfold holders, cur_list; rewrite Hc, B8; reflexivity).
    split; auto. rewrite Hh in B6. simpl in B6. lia.
Qed.

Theorem inv_no_hold_lost s : Inv s -> forall r l, aget (store s) r = Some l -> 0 < l_locked l ->
  In r (holders (getm s (l_key l))) /\ l_locked l <= 255 /\ l_timeouted l = true.
Proof.
  intros G r l Hr Hd. destruct (gi_rec _ _ G r l Hr) as [A1 A2 A3 A4 A5 A6 A7 A8 A9 A10 A11].
  split; [apply occ_In; rewrite A7; auto|split; auto].
  destruct (l_timeouted l) eqn:E; auto. destruct (A6 eq_refl) as [_ [_ [Q _]]]. lia.
Qed.

(* ---------------------------------------------------------------- C17: counters, reference counts, reachability *)
Theorem inv_counters s : Inv s ->
  n_locked (cnt s) = Z.of_N (sum_locked (mgrs s))
  /\ n_wait (cnt s) = Z.of_nat (live_cnt (store s))
  /\ n_key (cnt s) = Z.of_nat (length (mgrs s))
  /\ NoDup (map fst (mgrs s)) /\ NoDup (map fst (store s)).
Proof.
  intros G. pose proof (gi_nlocked _ _ G). pose proof (gi_nwait _ _ G). pose proof (gi_nkey _ _ G).
  unfold g0 in *. cbn in *. repeat split; try lia; [apply (gi_wf_m _ _ G)|apply (gi_wf_s _ _ G)].
Qed.

(* a live waiter (not yet answered) is exactly a stored record with l_timeouted = false; it sits in its key's wait
   queue once, holds nothing, and is not in the expiry structures *)
Theorem inv_live_waiter s : Inv s -> forall r l, aget (store s) r = Some l -> l_timeouted l = false ->
  occ r (m_wq (getm s (l_key l))) = 1%nat /\ dead_waiter l = false /\ l_locked l = 0
  /\ occ r (holders (getm s (l_key l))) = O.
Proof.
  intros G r l Hr Ht. destruct (gi_rec _ _ G r l Hr) as [A1 A2 A3 A4 A5 A6 A7 A8 A9 A10 A11].
  destruct (A6 Ht) as [Q1 [Q2 [Q3 Q4]]]. repeat split; auto. unfold dead_waiter. rewrite Ht, A10. reflexivity.
Qed.

Definition refs_to (s : db) (r : ref) (k : N) : nat :=
  (occ r (holders (getm s k)) + occ r (m_wq (getm s k))
   + occ r (wrefs (twheel s)) + occ r (wrefs (tlong s)) + occ r (wrefs (ewheel s)) + occ r (wrefs (elong s)))%nat.

Theorem inv_refcount s : Inv s -> forall r l, aget (store s) r = Some l ->
  N.to_nat (l_refc l) = refs_to s r (l_key l) /\ aget (mgrs s) (l_key l) <> None /\ r < next s.
Proof.
  intros G r l Hr. destruct (gi_rec _ _ G r l Hr) as [A1 A2 A3 A4 A5 A6 A7 A8 A9 A10 A11].
  unfold tcount, ecount, g0 in A3. cbn in A3. unfold refs_to. repeat split; auto. lia.
Qed.

(* nothing that a live structure references has been freed *)
Theorem inv_no_dangling s : Inv s ->
  (forall r, In r (wrefs (twheel s) ++ wrefs (tlong s) ++ wrefs (ewheel s) ++ wrefs (elong s)) -> aget (store s) r <> None)
  /\ (forall k m r, aget (mgrs s) k = Some m -> In r (holders m ++ m_wq m) ->
        exists l, aget (store s) r = Some l /\ l_key l = k).
Proof.
  intros G. split.
  - intros r Hi Hn. pose proof (gi_str _ _ G r Hn) as S. unfold tcount, ecount, g0 in S. cbn in S.
    apply occ_In in Hi. rewrite !occ_app in Hi. lia.
  - intros k m r Hm Hi. destruct (gi_mgr _ _ G k m Hm) as [B1 B2 B3 B4 B5 B6 B7 B8 B9 Bb B10 Bc].
    rewrite phk_g0 in B1. destruct (aget (store s) r) as [l|] eqn:Hr; [exists l; split; eauto|].
    exfalso. apply (B1 r); auto. simpl. apply occ_In in Hi. lia.
Qed.

Theorem inv_mgr_refcount s : Inv s -> forall k,
  match aget (mgrs s) k with
  | Some m => N.to_nat (m_ref m) = key_cnt k (store s)
  | None => key_cnt k (store s) = O
  end.
Proof.
  intros G k. destruct (aget (mgrs s) k) as [m|] eqn:Hm; [apply (mo_ref _ _ _ _ (gi_mgr _ _ G k m Hm))|].
  apply asum_zero; [|apply (gi_wf_s _ _ G)]. intros r l Hr.
  destruct (l_key l =? k) eqn:E; auto. apply N.eqb_eq in E. exfalso.
  apply (ro_mgr _ _ _ _ (gi_rec _ _ G r l Hr)). rewrite E. exact Hm.
Qed.

(* ---------------------------------------------------------------- C02: who may release *)
(* the lookup UnLock / re-entrant Lock perform only ever returns an outstanding hold of that key with that LockId *)
Theorem inv_lookup_sound s : Inv s -> forall k m id r, aget (mgrs s) k = Some m -> get_locked_lock s m id = Some r ->
  exists l, aget (store s) r = Some l /\ l_key l = k /\ 0 < l_locked l /\ c_lockid (l_cmd l) = id /\ In r (holders m).
Proof.
  intros G k m id r Hm Hg.
  destruct (get_locked_lock_spec s [] [] k m id r (inv_gk s k G) Hm Hg) as [l [H1 [H2 [H3 [H4 [H5 H6]]]]]].
  exists l. repeat split; auto. apply occ_In. lia.
Qed.

(* an UnLock whose LockId the lookup does not find, without unlock-first / cancel-wait, is refused and changes nothing
   but UnlockErrorCount (this part is definitional) *)
Theorem unlock_refused s conn c m :
  aget (mgrs s) (c_key c) = Some m ->
  negb (leader s) && negb (has (c_flag c) UNLOCK_FLAG_FROM_AOF) = false ->
  has (c_flag c) UNLOCK_FLAG_FIRST = false -> has (c_flag c) UNLOCK_FLAG_CANCEL_WAIT = false ->
  get_locked_lock s m (c_lockid c) = None ->
  unlock_step s conn c =
    (bump (fun n => n <| n_unlockerr := (n_unlockerr n + 1)%Z |>) s,
     [reply conn c (if m_locked m =? 0 then R_UNLOCK_ERROR else R_UNOWN_ERROR) (m_locked m) 0 (data_of s (c_key c))], None).
Proof.
  intros Hm Hl Hf Hcw Hg. rewrite unlock_step_eq. cbv zeta. rewrite Hm, Hl.
  destruct (m_locked m =? 0); [rewrite Hcw; reflexivity|].
  unfold ul_target. cbv zeta. rewrite Hg, Hf, Hcw. reflexivity.
Qed.

(* ---------------------------------------------------------------- the same, for every reachable state *)
Section Reach.
  Variables (t0 : Z) (a : N) (acts : list action).
  Hypothesis Hcore : core_run (init_db t0 a) acts.
  Let s := fst (run (init_db t0 a) acts).
  Let G : Inv s := inv_reachable t0 a acts Hcore.

  Lemma reach_locked_is_sum : forall k, m_locked (getm s k) = sumdepth s (holders (getm s k)).
  Proof. exact (inv_locked_is_sum s G). Qed.
  Lemma reach_holders_wf : forall k m, aget (mgrs s) k = Some m ->
    (forall r, In r (holders m) -> exists l, aget (store s) r = Some l /\ l_key l = k /\ r < next s)
    /\ NoDup (holders m)
    /\ (forall c, m_cur m = Some c -> 0 < l_locked (getl s c))
    /\ (m_cur m = None -> m_locked m = 0 /\ holders m = [])
    /\ m_locked m < 4294967296.
  Proof. exact (inv_holders_wf s G). Qed.
  Lemma reach_no_hold_lost : forall r l, aget (store s) r = Some l -> 0 < l_locked l ->
    In r (holders (getm s (l_key l))) /\ l_locked l <= 255 /\ l_timeouted l = true.
  Proof. exact (inv_no_hold_lost s G). Qed.
  Lemma reach_counters :
    n_locked (cnt s) = Z.of_N (sum_locked (mgrs s))
    /\ n_wait (cnt s) = Z.of_nat (live_cnt (store s))
    /\ n_key (cnt s) = Z.of_nat (length (mgrs s))
    /\ NoDup (map fst (mgrs s)) /\ NoDup (map fst (store s)).
  Proof. exact (inv_counters s G). Qed.
  Lemma reach_live_waiter : forall r l, aget (store s) r = Some l -> l_timeouted l = false ->
    occ r (m_wq (getm s (l_key l))) = 1%nat /\ dead_waiter l = false /\ l_locked l = 0
    /\ occ r (holders (getm s (l_key l))) = O.
  Proof. exact (inv_live_waiter s G). Qed.
  Lemma reach_refcount : forall r l, aget (store s) r = Some l ->
    N.to_nat (l_refc l) = refs_to s r (l_key l) /\ aget (mgrs s) (l_key l) <> None /\ r < next s.
  Proof. exact (inv_refcount s G). Qed.
  Lemma reach_no_dangling :
    (forall r, In r (wrefs (twheel s) ++ wrefs (tlong s) ++ wrefs (ewheel s) ++ wrefs (elong s)) -> aget (store s) r <> None)
    /\ (forall k m r, aget (mgrs s) k = Some m -> In r (holders m ++ m_wq m) ->
          exists l, aget (store s) r = Some l /\ l_key l = k).
  Proof. exact (inv_no_dangling s G). Qed.
  Lemma reach_mgr_refcount : forall k,
    match aget (mgrs s) k with
    | Some m => N.to_nat (m_ref m) = key_cnt k (store s)
    | None => key_cnt k (store s) = O
    end.
  Proof. exact (inv_mgr_refcount s G). Qed.
  Lemma reach_lookup_sound : forall k m id r, aget (mgrs s) k = Some m -> get_locked_lock s m id = Some r ->
    exists l, aget (store s) r = Some l /\ l_key l = k /\ 0 < l_locked l /\ c_lockid (l_cmd l) = id /\ In r (holders m).
  Proof. exact (inv_lookup_sound s G). Qed.
End Reach.
