(* Consequences of the reachability invariant, in the vocabulary of properties C01, C02, C17. *)
From Coq Require Import String ZifyN ZifyBool ZifyNat Permutation.
From Slock Require Import Engine.Types Engine.Queues Engine.Timers Engine.Engine Engine.Engine2 Engine.InvDef Engine.InvBase
  Engine.InvPrims Engine.InvRec Engine.InvWheel Engine.InvQueue Engine.InvQueue2 Engine.InvSteps Engine.InvLockDefs Engine.InvLock
  Engine.InvUnlock Engine.InvSweep Engine.InvMain Engine.InvNext.
Open Scope N_scope.

(* reachable states of the core subset *)
Definition core_run (s0 : db) (acts : list action) : Prop :=
  Forall (fun a => core_action a = true) acts /\ bounded_run s0 acts.

Theorem inv_reachable t0 a acts : core_run (init_db t0 a) acts -> Inv (fst (run (init_db t0 a) acts)).
Proof. intros [H1 H2]. apply inv_run_bounded; auto. apply inv_init. Qed.

(* fewer than 2^24 - 2 actions cannot allocate 2^24 lock records *)
Lemma bounded_of_length acts : forall s, Forall (fun a => core_action a = true) acts ->
  next s + N.of_nat (length acts) < MAXREC -> bounded_run s acts.
Proof.
  induction acts as [|x rest IH]; intros s Hc Hb; simpl; [exact I|].
  inversion Hc; subst. split; [simpl in Hb; lia|]. apply IH; auto.
  pose proof (nx_step_le s x H1). simpl length in Hb. lia.
Qed.
Lemma core_core_run t0 a acts : core acts -> core_run (init_db t0 a) acts.
Proof. intros [H1 H2]. split; auto. apply bounded_of_length; auto. change (next (init_db t0 a)) with 1. lia. Qed.

(* THE REACHABILITY INVARIANT: every state reached by core actions from the initial state satisfies Inv *)
Theorem inv_core t0 a acts : core acts -> Inv (fst (run (init_db t0 a) acts)).
Proof. intros H. apply inv_reachable. apply core_core_run; auto. Qed.

(* ---------------------------------------------------------------- C01: `locked` is the sum of the outstanding depths *)
Lemma dlk_g0 k : dlk g0 k = 0%Z.  Proof. unfold dlk, g0. cbn. destruct (k =? 0); reflexivity. Qed.
Lemma phk_g0 k : phk g0 k = [].  Proof. unfold phk, g0. cbn. destruct (k =? 0); reflexivity. Qed.
Lemma lkk_g0 k : lkk g0 k = false.  Proof. unfold lkk, g0. cbn. apply andb_false_r. Qed.

Theorem inv_locked_is_sum s : Inv s -> forall k, m_locked (getm s k) = sumdepth s (holders (getm s k)).
Proof.
  intros G k. unfold getm. destruct (aget (mgrs s) k) as [m|] eqn:Hm; [|reflexivity].
  pose proof (mo_sum _ _ _ _ (gi_mgr _ _ G k m Hm)) as S. rewrite dlk_g0 in S. lia.
Qed.

Theorem inv_holders_wf s : Inv s -> forall k m, aget (mgrs s) k = Some m ->
  (forall r, In r (holders m) -> exists l, aget (store s) r = Some l /\ l_key l = k /\ r < next s)
  /\ NoDup (holders m)
  /\ (forall c, m_cur m = Some c -> 0 < l_locked (getl s c))
  /\ (m_cur m = None -> m_locked m = 0 /\ holders m = [])
  /\ m_locked m < 4294967296.
Proof.
  intros G k m Hm. destruct (gi_mgr _ _ G k m Hm) as [B1 B2 B3 B4 B5 B6 B7 B8 B9 Bb B10 Bc].
  rewrite phk_g0 in B1. rewrite dlk_g0 in B6. rewrite lkk_g0 in *.
  split; [|split; [exact B4|split; [apply B7; auto|split; [|apply Bb]]]].
  - intros r Hi. assert (Hi' : In r (holders m ++ m_wq m)) by (apply in_or_app; auto).
    destruct (aget (store s) r) as [l|] eqn:Hr.
    + exists l. repeat split; eauto.
    + exfalso. apply (B1 r); auto. simpl. apply occ_In in Hi'. lia.
  - intros Hc. specialize (B8 eq_refl Hc). assert (Hh : holders m = []) by (unfold holders, cur_list; rewrite Hc, B8; reflexivity).
    split; auto. rewrite Hh in B6. simpl in B6. lia.
Qed.

Theorem inv_no_hold_lost s : Inv s -> forall r l, aget (store s) r = Some l -> 0 < l_locked l ->
  In r (holders (getm s (l_key l))) /\ l_locked l <= 255 /\ l_timeouted l = true.
Proof.
  intros G r l Hr Hd. destruct (gi_rec _ _ G r l Hr) as [A1 A2 A3 A4 A5 A6 A7 A8 A9 A10 A11].
  split; [apply occ_In; rewrite A7; auto|split; auto].
  destruct (l_timeouted l) eqn:E; auto. destruct (A6 eq_refl) as [_ [_ [Q _]]]. lia.
Qed.

(* ---------------------------------------------------------------- C17: counters, reference counts, reachability *)
Theorem inv_counters s : Inv s ->
  n_locked (cnt s) = Z.of_N (sum_locked (mgrs s))
  /\ n_wait (cnt s) = Z.of_nat (live_cnt (store s))
  /\ n_key (cnt s) = Z.of_nat (length (mgrs s))
  /\ NoDup (map fst (mgrs s)) /\ NoDup (map fst (store s)).
Proof.
  intros G. pose proof (gi_nlocked _ _ G). pose proof (gi_nwait _ _ G). pose proof (gi_nkey _ _ G).
  unfold g0 in *. cbn in *. repeat split; try lia; [apply (gi_wf_m _ _ G)|apply (gi_wf_s _ _ G)].
Qed.

(* a live waiter (not yet answered) is exactly a stored record with l_timeouted = false; it sits in its key's wait
   queue once, holds nothing, and is not in the expiry structures *)
Theorem inv_live_waiter s : Inv s -> forall r l, aget (store s) r = Some l -> l_timeouted l = false ->
  occ r (m_wq (getm s (l_key l))) = 1%nat /\ dead_waiter l = false /\ l_locked l = 0
  /\ occ r (holders (getm s (l_key l))) = O.
Proof.
  intros G r l Hr Ht. destruct (gi_rec _ _ G r l Hr) as [A1 A2 A3 A4 A5 A6 A7 A8 A9 A10 A11].
  destruct (A6 Ht) as [Q1 [Q2 [Q3 Q4]]]. repeat split; auto. unfold dead_waiter. rewrite Ht, A10. reflexivity.
Qed.

Definition refs_to (s : db) (r : ref) (k : N) : nat :=
  (occ r (holders (getm s k)) + occ r (m_wq (getm s k))
   + occ r (wrefs (twheel s)) + occ r (wrefs (tlong s)) + occ r (wrefs (ewheel s)) + occ r (wrefs (elong s)))%nat.

Theorem inv_refcount s : Inv s -> forall r l, aget (store s) r = Some l ->
  N.to_nat (l_refc l) = refs_to s r (l_key l) /\ aget (mgrs s) (l_key l) <> None /\ r < next s.
Proof.
  intros G r l Hr. destruct (gi_rec _ _ G r l Hr) as [A1 A2 A3 A4 A5 A6 A7 A8 A9 A10 A11].
  unfold tcount, ecount, g0 in A3. cbn in A3. unfold refs_to. repeat split; auto. lia.
Qed.

(* nothing that a live structure references has been freed *)
Theorem inv_no_dangling s : Inv s ->
  (forall r, In r (wrefs (twheel s) ++ wrefs (tlong s) ++ wrefs (ewheel s) ++ wrefs (elong s)) -> aget (store s) r <> None)
  /\ (forall k m r, aget (mgrs s) k = Some m -> In r (holders m ++ m_wq m) ->
        exists l, aget (store s) r = Some l /\ l_key l = k).
Proof.
  intros G. split.
  - intros r Hi Hn. pose proof (gi_str _ _ G r Hn) as S. unfold tcount, ecount, g0 in S. cbn in S.
    apply occ_In in Hi. rewrite !occ_app in Hi. lia.
  - intros k m r Hm Hi. destruct (gi_mgr _ _ G k m Hm) as [B1 B2 B3 B4 B5 B6 B7 B8 B9 Bb B10 Bc].
    rewrite phk_g0 in B1. destruct (aget (store s) r) as [l|] eqn:Hr; [exists l; split; eauto|].
    exfalso. apply (B1 r); auto. simpl. apply occ_In in Hi. lia.
Qed.

Theorem inv_mgr_refcount s : Inv s -> forall k,
  match aget (mgrs s) k with
  | Some m => N.to_nat (m_ref m) = key_cnt k (store s)
  | None => key_cnt k (store s) = O
  end.
Proof.
  intros G k. destruct (aget (mgrs s) k) as [m|] eqn:Hm; [apply (mo_ref _ _ _ _ (gi_mgr _ _ G k m Hm))|].
  apply asum_zero; [|apply (gi_wf_s _ _ G)]. intros r l Hr.
  destruct (l_key l =? k) eqn:E; auto. apply N.eqb_eq in E. exfalso.
  apply (ro_mgr _ _ _ _ (gi_rec _ _ G r l Hr)). rewrite E. exact Hm.
Qed.

(* ---------------------------------------------------------------- C02: who may release *)
(* the lookup UnLock / re-entrant Lock perform only ever returns an outstanding hold of that key with that LockId *)
Theorem inv_lookup_sound s : Inv s -> forall k m id r, aget (mgrs s) k = Some m -> get_locked_lock s m id = Some r ->
  exists l, aget (store s) r = Some l /\ l_key l = k /\ 0 < l_locked l /\ c_lockid (l_cmd l) = id /\ In r (holders m).
Proof.
  intros G k m id r Hm Hg.
  destruct (get_locked_lock_spec s [] [] k m id r (inv_gk s k G) Hm Hg) as [l [H1 [H2 [H3 [H4 [H5 H6]]]]]].
  exists l. repeat split; auto. apply occ_In. lia.
Qed.

(* an UnLock whose LockId the lookup does not find, without unlock-first / cancel-wait, is refused and changes nothing
   but UnlockErrorCount (this part is definitional) *)
Theorem unlock_refused s conn c m :
  aget (mgrs s) (c_key c) = Some m ->
  negb (leader s) && negb (has (c_flag c) UNLOCK_FLAG_FROM_AOF) = false ->
  has (c_flag c) UNLOCK_FLAG_FIRST = false -> has (c_flag c) UNLOCK_FLAG_CANCEL_WAIT = false ->
  get_locked_lock s m (c_lockid c) = None ->
  unlock_step s conn c =
    (bump (fun n => n <| n_unlockerr := (n_unlockerr n + 1)%Z |>) s,
     [reply conn c (if m_locked m =? 0 then R_UNLOCK_ERROR else R_UNOWN_ERROR) (m_locked m) 0 (data_of s (c_key c))], None).
Proof.
  intros Hm Hl Hf Hcw Hg. rewrite unlock_step_eq. cbv zeta. rewrite Hm, Hl.
  destruct (m_locked m =? 0); [rewrite Hcw; reflexivity|].
  unfold ul_target. cbv zeta. rewrite Hg, Hf, Hcw. reflexivity.
Qed.

(* ---------------------------------------------------------------- the same, for every reachable state *)
Section Reach.
  Variables (t0 : Z) (a : N) (acts : list action).
  Hypothesis Hcore : core acts.
  Let s := fst (run (init_db t0 a) acts).
  Let G : Inv s := inv_core t0 a acts Hcore.

  Lemma reach_locked_is_sum : forall k, m_locked (getm s k) = sumdepth s (holders (getm s k)).
  Proof. exact (inv_locked_is_sum s G). Qed.
  Lemma reach_holders_wf : forall k m, aget (mgrs s) k = Some m ->
    (forall r, In r (holders m) -> exists l, aget (store s) r = Some l /\ l_key l = k /\ r < next s)
    /\ NoDup (holders m)
    /\ (forall c, m_cur m = Some c -> 0 < l_locked (getl s c))
    /\ (m_cur m = None -> m_locked m = 0 /\ holders m = [])
    /\ m_locked m < 4294967296.
  Proof. exact (inv_holders_wf s G). Qed.
  Lemma reach_no_hold_lost : forall r l, aget (store s) r = Some l -> 0 < l_locked l ->
    In r (holders (getm s (l_key l))) /\ l_locked l <= 255 /\ l_timeouted l = true.
  Proof. exact (inv_no_hold_lost s G). Qed.
  Lemma reach_counters :
    n_locked (cnt s) = Z.of_N (sum_locked (mgrs s))
    /\ n_wait (cnt s) = Z.of_nat (live_cnt (store s))
    /\ n_key (cnt s) = Z.of_nat (length (mgrs s))
    /\ NoDup (map fst (mgrs s)) /\ NoDup (map fst (store s)).
  Proof. exact (inv_counters s G). Qed.
  Lemma reach_live_waiter : forall r l, aget (store s) r = Some l -> l_timeouted l = false ->
    occ r (m_wq (getm s (l_key l))) = 1%nat /\ dead_waiter l = false /\ l_locked l = 0
    /\ occ r (holders (getm s (l_key l))) = O.
  Proof. exact (inv_live_waiter s G). Qed.
  Lemma reach_refcount : forall r l, aget (store s) r = Some l ->
    N.to_nat (l_refc l) = refs_to s r (l_key l) /\ aget (mgrs s) (l_key l) <> None /\ r < next s.
  Proof. exact (inv_refcount s G). Qed.
  Lemma reach_no_dangling :
    (forall r, In r (wrefs (twheel s) ++ wrefs (tlong s) ++ wrefs (ewheel s) ++ wrefs (elong s)) -> aget (store s) r <> None)
    /\ (forall k m r, aget (mgrs s) k = Some m -> In r (holders m ++ m_wq m) ->
          exists l, aget (store s) r = Some l /\ l_key l = k).
  Proof. exact (inv_no_dangling s G). Qed.
  Lemma reach_mgr_refcount : forall k,
    match aget (mgrs s) k with
    | Some m => N.to_nat (m_ref m) = key_cnt k (store s)
    | None => key_cnt k (store s) = O
    end.
  Proof. exact (inv_mgr_refcount s G). Qed.
  Lemma reach_lookup_sound : forall k m id r, aget (mgrs s) k = Some m -> get_locked_lock s m id = Some r ->
    exists l, aget (store s) r = Some l /\ l_key l = k /\ 0 < l_locked l /\ c_lockid (l_cmd l) = id /\ In r (holders m).
  Proof. exact (inv_lookup_sound s G). Qed.
End Reach.

(* ---------------------------------------------------------------- beyond the core subset: the re-entrant ack defect *)
(* A re-entrant re-lock carrying the require-ack flag on a persisted hold pushes an AOF record that asks for an
   acknowledgement (db.go re-entrant branch -> PushLockAof) without taking a reference for it; DoAckLock on a hold that
   is not ack-pending drops a reference (A0 branch).  Two such re-locks, both acknowledged, free the live hold and its
   key manager while the expiry wheel still points at the record; the expiry sweep then uses it after free. *)
Definition is_uaf (e : event) : bool := match e with EPanic site => String.prefix "uaf:" site | _ => false end.
Definition ack_uaf_history : list action :=
  [AReq 1 (make_cmd true 1 0 101 7 0 5 0 10 0 2 None);          (* LockId 101 takes key 7 (persisted at once: aof time 0) *)
   AReq 1 (make_cmd true 2 0 101 7 4096 5 0 10 0 2 None);       (* re-entrant, require-ack *)
   AReq 1 (make_cmd true 3 0 101 7 4096 5 0 10 0 2 None);       (* re-entrant, require-ack *)
   AAck 1 true; AAck 1 true;                                     (* both records acknowledged *)
   AAdvance 20; ASweepE].
Lemma C11_refuted_reentrant_ack :
  let '(s, evs) := run (init_db 1000000 0) ack_uaf_history in
  existsb is_uaf (last evs []) = true                              (* doExpried runs on a freed Lock *)
  /\ (let s5 := fst (run (init_db 1000000 0) (firstn 5 ack_uaf_history)) in
      aget (store s5) 1 = None /\ aget (mgrs s5) 7 = None          (* the hold (depth 3) and its key are gone ... *)
      /\ wrefs (ewheel s5) = [1])                                   (* ... but the expiry wheel still references it *)
  /\ (let s3 := fst (run (init_db 1000000 0) (firstn 3 ack_uaf_history)) in
      m_locked (getm s3 7) = 3 /\ m_cur (getm s3 7) = Some 1).
Proof. vm_compute. repeat split; reflexivity. Qed.

(* ---------------------------------------------------------------- drained states (partial: see the report) *)
Lemma asumN_zero {V} (f : V -> N) (m : amap V) : (forall k v, aget m k = Some v -> f v = 0) -> awf m -> asumN f m = 0.
Proof.
  intros H W. induction m as [|[k0 v0] t IH]; simpl; auto.
  rewrite (H k0 v0) by (simpl; rewrite N.eqb_refl; auto). simpl. apply IH.
  - intros k v Hg. apply (H k v). apply in_aget; auto. right. apply aget_in; auto.
  - inversion W; auto.
Qed.

(* once every lock record has been freed: LockedCount = WaitCount = 0, no structure holds a reference, every remaining
   key manager is idle (locked 0, no holder, no waiter, refCount 0) *)
Theorem inv_drained s : Inv s -> store s = [] ->
  n_locked (cnt s) = 0%Z /\ n_wait (cnt s) = 0%Z
  /\ wrefs (twheel s) = [] /\ wrefs (tlong s) = [] /\ wrefs (ewheel s) = [] /\ wrefs (elong s) = []
  /\ forall k m, aget (mgrs s) k = Some m -> m_locked m = 0 /\ holders m = [] /\ m_wq m = [] /\ m_ref m = 0.
Proof.
  intros G Hs.
  assert (Hm : forall k m, aget (mgrs s) k = Some m -> m_locked m = 0 /\ holders m = [] /\ m_wq m = [] /\ m_ref m = 0).
  { intros k m Hk. destruct (gi_mgr _ _ G k m Hk) as [B1 B2 B3 B4 B5 B6 B7 B8 B9 Bb B10 Bc].
    rewrite phk_g0 in B1. rewrite dlk_g0 in B6.
    assert (Hl : holders m ++ m_wq m = []).
    { apply occ_all_zero_nil. intros r0. destruct (occ r0 (holders m ++ m_wq m)) eqn:E; auto. exfalso.
      apply (B1 r0); [simpl; lia|rewrite Hs; reflexivity]. }
    apply app_eq_nil in Hl. destruct Hl as [H1 H2]. rewrite H1 in B6. simpl in B6.
    rewrite Hs in B9. simpl in B9. repeat split; auto; lia. }
  assert (Hw : forall r, (tcount s g0 r + ecount s g0 r)%nat = O) by (intros r; apply (gi_str _ _ G); rewrite Hs; reflexivity).
  unfold tcount, ecount, g0 in Hw. cbn in Hw.
  pose proof (gi_nlocked _ _ G) as N1. pose proof (gi_nwait _ _ G) as N2. unfold g0 in N1, N2. cbn in N1, N2.
  rewrite Hs in N2. simpl in N2.
  assert (Hsum : sum_locked (mgrs s) = 0).
  { unfold sum_locked. apply asumN_zero; [|apply (gi_wf_m _ _ G)]. intros k m Hk. apply (Hm k m Hk). }
  rewrite Hsum in N1.
  split; [lia|]. split; [lia|].
  split; [|split; [|split; [|split; [|exact Hm]]]]; apply occ_all_zero_nil; intros r; specialize (Hw r); lia.
Qed.

Lemma reach_drained t0 a acts : core acts -> store (fst (run (init_db t0 a) acts)) = [] ->
  n_locked (cnt (fst (run (init_db t0 a) acts))) = 0%Z /\ n_wait (cnt (fst (run (init_db t0 a) acts))) = 0%Z
  /\ wrefs (twheel (fst (run (init_db t0 a) acts))) = [] /\ wrefs (tlong (fst (run (init_db t0 a) acts))) = []
  /\ wrefs (ewheel (fst (run (init_db t0 a) acts))) = [] /\ wrefs (elong (fst (run (init_db t0 a) acts))) = []
  /\ forall k m, aget (mgrs (fst (run (init_db t0 a) acts))) k = Some m ->
       m_locked m = 0 /\ holders m = [] /\ m_wq m = [] /\ m_ref m = 0.
Proof. intros H. apply inv_drained. apply inv_core; auto. Qed.
