(* Depth arithmetic of re-entrant holds (property C02), part 6: holds are not lost -- statements for states satisfying
   the reachability invariant and for reachable states.  A Lock or UnLock request leaves every hold (of any key) stored
   with its depth, key, command and ack counter, except the hold the request itself addresses: the one the lookup
   finds, and the current lock under UNLOCK_FLAG_FIRST. *)
From Coq Require Import String ZifyN ZifyBool ZifyNat.
From Slock Require Import Engine.Types Engine.Queues Engine.Timers Engine.Engine Engine.Engine2 Engine.LocalBase
  Engine.InvDef Engine.InvBase Engine.InvPrims Engine.InvSteps Engine.InvMain Engine.InvProps
  Engine.RunDepth Engine.RunDepth3 Engine.RunDepth4 Engine.RunDepth5.
Open Scope N_scope.

(* the written-out forms used in Properties/C02_depth.v *)
Theorem lock_keeps_holds s conn c s' ev w r l :
  lock_step s conn c = (s', ev, w) ->
  aget (store s) r = Some l -> 0 < l_locked l -> r <> next s ->
  (forall m, aget (mgrs s) (c_key c) = Some m -> get_locked_lock s m (c_lockid (lock_target s c m)) <> Some r) ->
  NoDup (m_wq (getm s (c_key c))) ->
  (In r (m_wq (getm s (c_key c))) -> 2 <= l_refc l /\ l_refc l < 256) ->
  exists l', aget (store s') r = Some l' /\ l_locked l' = l_locked l /\ l_key l' = l_key l /\ l_cmd l' = l_cmd l
             /\ l_ack l' = l_ack l.
Proof.
  intros H Hr Hd Hne HX Hnd Hrc.
  assert (K : kpl r s s').
  { eapply lock_step_kpl; [exact H|congruence|exact HX|]. unfold wq_safe. rewrite (getl_some _ _ _ Hr). split; auto. }
  destruct (K l Hr Hd) as (l' & Hr' & E1 & E2 & E3 & E4). exists l'. repeat split; auto.
Qed.

Theorem unlock_keeps_holds s conn c s' ev w r l :
  unlock_step s conn c = (s', ev, w) ->
  aget (store s) r = Some l -> 0 < l_locked l ->
  (forall m, aget (mgrs s) (c_key c) = Some m -> get_locked_lock s m (c_lockid c) <> Some r) ->
  (forall m, aget (mgrs s) (c_key c) = Some m -> get_locked_lock s m (c_lockid c) = None ->
               has (c_flag c) UNLOCK_FLAG_FIRST = true -> m_cur m <> Some r) ->
  (has (c_flag c) UNLOCK_FLAG_CANCEL_WAIT = true ->
     l_timeouted l = true /\ NoDup (m_wq (getm s (c_key c)))
     /\ (In r (m_wq (getm s (c_key c))) -> 2 <= l_refc l /\ l_refc l < 256)) ->
  exists l', aget (store s') r = Some l' /\ l_locked l' = l_locked l /\ l_key l' = l_key l /\ l_cmd l' = l_cmd l
             /\ l_ack l' = l_ack l.
Proof.
  intros H Hr Hd H1 H2 H3.
  assert (K : kpl r s s').
  { eapply unlock_step_kpl; [exact H|exact H1|exact H2|]. intros Hc. destruct (H3 Hc) as (A & B & C).
    unfold wq_safe. rewrite (getl_some _ _ _ Hr). split; auto. }
  destruct (K l Hr Hd) as (l' & Hr' & E1 & E2 & E3 & E4). exists l'. repeat split; auto.
Qed.

(* ------------------------------------------------------------------ what the invariant gives for a hold *)
Lemma inv_hold_wq s r l k : Inv s -> aget (store s) r = Some l -> 0 < l_locked l ->
  NoDup (m_wq (getm s k)) /\ (In r (m_wq (getm s k)) -> 2 <= l_refc l /\ l_refc l < 256).
Proof.
  intros G Hr Hd. unfold getm. destruct (aget (mgrs s) k) as [m|] eqn:Hm.
  2:{ split; [constructor|intros []]. }
  destruct (gi_mgr _ _ G k m Hm) as [B1 B2 B3 B4 B5 B6 B7 B8 B9 Bb B10 Bc].
  split; [exact B5|]. intros Hi.
  assert (Hk : l_key l = k) by (apply (B2 r l); auto; apply in_or_app; auto).
  destruct (gi_rec _ _ G r l Hr) as [A1 A2 A3 A4 A5 A6 A7 A8 A9 A10 A11].
  rewrite Hk, (getm_some _ _ _ Hm) in A3, A7. specialize (A7 Hd eq_refl).
  unfold tcount, ecount, g0 in *. cbn in A3, A4, A5.
  pose proof (proj1 (occ_nodup _) B5 r) as W1. apply occ_In in Hi. lia.
Qed.

Theorem inv_lock_keeps_holds s conn c s' ev w r l :
  Inv s -> lock_step s conn c = (s', ev, w) ->
  aget (store s) r = Some l -> 0 < l_locked l ->
  (forall m, aget (mgrs s) (c_key c) = Some m -> get_locked_lock s m (c_lockid (lock_target s c m)) <> Some r) ->
  exists l', aget (store s') r = Some l' /\ l_locked l' = l_locked l /\ l_key l' = l_key l /\ l_cmd l' = l_cmd l
             /\ l_ack l' = l_ack l.
Proof.
  intros G H Hr Hd HX. destruct (inv_hold_wq s r l (c_key c) G Hr Hd) as (A & B).
  apply (lock_keeps_holds s conn c s' ev w r l); auto.
  pose proof (ro_lt _ _ _ _ (gi_rec _ _ G r l Hr)). lia.
Qed.

Theorem inv_unlock_keeps_holds s conn c s' ev w r l :
  Inv s -> unlock_step s conn c = (s', ev, w) ->
  aget (store s) r = Some l -> 0 < l_locked l ->
  (forall m, aget (mgrs s) (c_key c) = Some m -> get_locked_lock s m (c_lockid c) <> Some r) ->
  (forall m, aget (mgrs s) (c_key c) = Some m -> get_locked_lock s m (c_lockid c) = None ->
               has (c_flag c) UNLOCK_FLAG_FIRST = true -> m_cur m <> Some r) ->
  exists l', aget (store s') r = Some l' /\ l_locked l' = l_locked l /\ l_key l' = l_key l /\ l_cmd l' = l_cmd l
             /\ l_ack l' = l_ack l.
Proof.
  intros G H Hr Hd H1 H2. destruct (inv_hold_wq s r l (c_key c) G Hr Hd) as (A & B).
  apply (unlock_keeps_holds s conn c s' ev w r l); auto.
  intros _. split; auto. apply (inv_no_hold_lost s G r l Hr Hd).
Qed.

(* (iv) in full for a LockId that holds nothing: every hold of every key is still there, unchanged *)
Theorem inv_lock_unfound_holds s conn c s' ev w :
  Inv s -> lock_step s conn c = (s', ev, w) ->
  has (c_flag c) LOCK_FLAG_SHOW = false ->
  (forall m, aget (mgrs s) (c_key c) = Some m -> get_locked_lock s m (c_lockid c) = None) ->
  forall r l, aget (store s) r = Some l -> 0 < l_locked l ->
  exists l', aget (store s') r = Some l' /\ l_locked l' = l_locked l /\ l_key l' = l_key l /\ l_cmd l' = l_cmd l
             /\ l_ack l' = l_ack l.
Proof.
  intros G H Hs Hn r l Hr Hd. apply (inv_lock_keeps_holds s conn c s' ev w r l); auto.
  intros m Hm. unfold lock_target. rewrite Hs, (Hn m Hm). discriminate.
Qed.

Theorem inv_unlock_unfound_holds s conn c s' ev w :
  Inv s -> unlock_step s conn c = (s', ev, w) ->
  (forall m, aget (mgrs s) (c_key c) = Some m -> get_locked_lock s m (c_lockid c) = None) ->
  forall r l, aget (store s) r = Some l -> 0 < l_locked l ->
  (forall m, aget (mgrs s) (c_key c) = Some m -> has (c_flag c) UNLOCK_FLAG_FIRST = true -> m_cur m <> Some r) ->
  exists l', aget (store s') r = Some l' /\ l_locked l' = l_locked l /\ l_key l' = l_key l /\ l_cmd l' = l_cmd l
             /\ l_ack l' = l_ack l.
Proof.
  intros G H Hn r l Hr Hd Hf. apply (inv_unlock_keeps_holds s conn c s' ev w r l); auto.
  intros m Hm. rewrite (Hn m Hm). discriminate.
Qed.

(* ------------------------------------------------------------------ (ii) completed: the reply's lcount, the other holds *)
Lemma sumdepth_single s r L : NoDup L -> In r L ->
  (forall x, In x L -> x <> r -> l_locked (getl s x) = 0) -> sumdepth s L = l_locked (getl s r).
Proof.
  induction L as [|y t IH]; simpl; intros Hnd Hi Hz; [tauto|]. inversion Hnd; subst.
  destruct Hi as [->|Hi].
  - rewrite (sumdepth_zero s t); [lia|]. intros x Hx. apply Hz; auto. intros ->. contradiction.
  - rewrite (Hz y (or_introl eq_refl)) by (intros ->; contradiction). rewrite IH; auto.
Qed.

(* when the released hold was the last record of its key the manager is removed: then `locked` was exactly its depth *)
Lemma inv_full_release_count s conn c m r l s' ev w :
  Inv s -> unlock_step s conn c = (s', ev, w) ->
  aget (mgrs s) (c_key c) = Some m ->
  negb (leader s) && negb (has (c_flag c) UNLOCK_FLAG_FROM_AOF) = false ->
  get_locked_lock s m (c_lockid c) = Some r -> aget (store s) r = Some l ->
  (l_locked l = 1 \/ c_rcount c = 0 \/ has (c_tflag c) TF_PRIORITY = true) -> c_data c = None ->
  m_locked (getm s' (c_key c)) = m_locked m - l_locked l.
Proof.
  intros G H Hm Hl Hg Hr Hc Hdat.
  destruct (inv_unlock_full_release s conn c m r l s' ev w G H Hm Hl Hg Hr Hc Hdat) as (G' & _ & _ & _ & C & _).
  unfold getm. destruct (aget (mgrs s') (c_key c)) as [m'|] eqn:Hm'; [apply (C m' eq_refl)|].
  destruct (inv_found s _ m _ r G Hm Hg) as (l0 & Hr0 & Hk & Hd0 & Hid & Hin & Hack & Hd255 & Hle & Hb & Ht).
  rewrite Hr in Hr0. inv Hr0.
  assert (Hz : forall x, In x (holders m) -> x <> r -> l_locked (getl s x) = 0).
  { intros x Hx Hne. destruct (N.eq_dec (l_locked (getl s x)) 0) as [E|E]; auto. exfalso.
    destruct (inv_holders_wf s G _ m Hm) as (W & _). destruct (W x Hx) as (lx & Hlx & Hkx & _).
    rewrite (getl_some _ _ _ Hlx) in E.
    destruct (inv_unlock_keeps_holds s conn c s' ev w x lx G H Hlx) as (lx' & Hlx' & _ & Ek & _); [lia| | |].
    - intros m0 Hm0. rewrite Hm in Hm0. inv Hm0. rewrite Hg. congruence.
    - intros m0 Hm0 Hn. rewrite Hm in Hm0. inv Hm0. congruence.
    - apply (ro_mgr _ _ _ _ (gi_rec _ _ G' x lx' Hlx')). rewrite Ek, Hkx. exact Hm'. }
  pose proof (inv_locked_is_sum s G (c_key c)) as S. rewrite (getm_some _ _ _ Hm) in S.
  destruct (inv_holders_wf s G _ m Hm) as (_ & Hnd & _).
  rewrite (sumdepth_single s r (holders m) Hnd Hin Hz), (getl_some _ _ _ Hr) in S. cbn. lia.
Qed.

(* ------------------------------------------------------------------ reachable states *)
Section Reach.
  Variables (t0 : Z) (a : N) (acts : list action).
  Hypothesis Hcore : core acts.
  Let s := fst (run (init_db t0 a) acts).
  Let G : Inv s := inv_core t0 a acts Hcore.

  Lemma reach_lock_keeps_holds : forall conn c s' ev w r l,
    lock_step s conn c = (s', ev, w) ->
    aget (store s) r = Some l -> 0 < l_locked l ->
    (forall m, aget (mgrs s) (c_key c) = Some m -> get_locked_lock s m (c_lockid (lock_target s c m)) <> Some r) ->
    exists l', aget (store s') r = Some l' /\ l_locked l' = l_locked l /\ l_key l' = l_key l /\ l_cmd l' = l_cmd l
               /\ l_ack l' = l_ack l.
  Proof. intros conn c s' ev w r l. exact (inv_lock_keeps_holds s conn c s' ev w r l G). Qed.

  Lemma reach_unlock_keeps_holds : forall conn c s' ev w r l,
    unlock_step s conn c = (s', ev, w) ->
    aget (store s) r = Some l -> 0 < l_locked l ->
    (forall m, aget (mgrs s) (c_key c) = Some m -> get_locked_lock s m (c_lockid c) <> Some r) ->
    (forall m, aget (mgrs s) (c_key c) = Some m -> get_locked_lock s m (c_lockid c) = None ->
               has (c_flag c) UNLOCK_FLAG_FIRST = true -> m_cur m <> Some r) ->
    exists l', aget (store s') r = Some l' /\ l_locked l' = l_locked l /\ l_key l' = l_key l /\ l_cmd l' = l_cmd l
               /\ l_ack l' = l_ack l.
  Proof. intros conn c s' ev w r l. exact (inv_unlock_keeps_holds s conn c s' ev w r l G). Qed.

  Lemma reach_lock_unfound_holds : forall conn c s' ev w,
    lock_step s conn c = (s', ev, w) ->
    has (c_flag c) LOCK_FLAG_SHOW = false ->
    (forall m, aget (mgrs s) (c_key c) = Some m -> get_locked_lock s m (c_lockid c) = None) ->
    forall r l, aget (store s) r = Some l -> 0 < l_locked l ->
    exists l', aget (store s') r = Some l' /\ l_locked l' = l_locked l /\ l_key l' = l_key l /\ l_cmd l' = l_cmd l
               /\ l_ack l' = l_ack l.
  Proof. intros conn c s' ev w. exact (inv_lock_unfound_holds s conn c s' ev w G). Qed.

  Lemma reach_unlock_unfound_holds : forall conn c s' ev w,
    unlock_step s conn c = (s', ev, w) ->
    (forall m, aget (mgrs s) (c_key c) = Some m -> get_locked_lock s m (c_lockid c) = None) ->
    forall r l, aget (store s) r = Some l -> 0 < l_locked l ->
    (forall m, aget (mgrs s) (c_key c) = Some m -> has (c_flag c) UNLOCK_FLAG_FIRST = true -> m_cur m <> Some r) ->
    exists l', aget (store s') r = Some l' /\ l_locked l' = l_locked l /\ l_key l' = l_key l /\ l_cmd l' = l_cmd l
               /\ l_ack l' = l_ack l.
  Proof. intros conn c s' ev w. exact (inv_unlock_unfound_holds s conn c s' ev w G). Qed.

  Lemma reach_full_release_count : forall conn c m r l s' ev w,
    unlock_step s conn c = (s', ev, w) ->
    aget (mgrs s) (c_key c) = Some m ->
    negb (leader s) && negb (has (c_flag c) UNLOCK_FLAG_FROM_AOF) = false ->
    get_locked_lock s m (c_lockid c) = Some r -> aget (store s) r = Some l ->
    (l_locked l = 1 \/ c_rcount c = 0 \/ has (c_tflag c) TF_PRIORITY = true) -> c_data c = None ->
    m_locked (getm s' (c_key c)) = m_locked m - l_locked l.
  Proof. intros conn c m r l s' ev w. exact (inv_full_release_count s conn c m r l s' ev w G). Qed.
End Reach.
