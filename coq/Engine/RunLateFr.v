(* Run-level expiry theorems (property C06), UPPER BOUND, part 1: the expiry frame `wfr`.
   wfr s s' : server time, checkExpriedTime and the role are unchanged; the 16-slot expiry wheel and the long expiry
              table only LOSE entries; every record stored in s' either was stored in s with the same expiry-side terms
              (l_expried, l_eT, l_start, l_cmd), or is dead on the expiry side (l_expried = true) and carries a command
              without the un-renew flag or the command it had in s.
   All lemmas are in right-extension form `wfr s x -> wfr s (op x)` (same scripts as the kfr lemmas of RunExpK.v).
   Unlike kfr, wfr does not constrain the timeout side at all, so AddTimeOut / RemoveLongTimeOut / the timeout sweep are
   frames as well.  Nothing here needs the heap invariant. *)
From Coq Require Import String ZifyN ZifyBool ZifyNat.
From Slock Require Import Engine.Types Engine.Queues Engine.Timers Engine.Engine Engine.Engine2.
From Slock Require Import Engine.TimeBase Engine.LocalBase Engine.TimeExp Engine.RunExpK.
Open Scope N_scope.

Definition nu (c : cmd) : Prop := has (c_tflag c) TF_UNRENEW = false.

Definition wsame (l l' : lockrec) : Prop :=
  l_expried l' = l_expried l /\ l_eT l' = l_eT l /\ l_start l' = l_start l /\ l_cmd l' = l_cmd l.

Lemma wsame_refl l : wsame l l.
Proof. unfold wsame; intuition. Qed.
Lemma wsame_trans a b c : wsame a b -> wsame b c -> wsame a c.
Proof. unfold wsame; intuition congruence. Qed.

Definition wrec (s : db) (r : ref) (l' : lockrec) : Prop :=
  (exists l, aget (store s) r = Some l /\ wsame l l')
  \/ (l_expried l' = true /\ (nu (l_cmd l') \/ exists l, aget (store s) r = Some l /\ l_cmd l' = l_cmd l)).

Definition wfr (s s' : db) : Prop :=
  now s' = now s /\ checkE s' = checkE s /\ leader s' = leader s
  /\ (forall k r, In r (wheel_get (ewheel s') k) -> In r (wheel_get (ewheel s) k))
  /\ (forall k r, In r (wheel_get (elong s') k) -> In r (wheel_get (elong s) k))
  /\ forall r l', aget (store s') r = Some l' -> wrec s r l'.

Lemma wfr_refl s : wfr s s.
Proof. repeat split; auto. intros r l' H. left. exists l'. split; auto. apply wsame_refl. Qed.

Lemma wfr_trans a b c : wfr a b -> wfr b c -> wfr a c.
Proof.
  intros (A1 & A2 & A3 & A4 & A5 & A6) (B1 & B2 & B3 & B4 & B5 & B6).
  split; [congruence|]. split; [congruence|]. split; [congruence|]. split; [auto|]. split; [auto|].
  intros r l' H. destruct (B6 r l' H) as [(l1 & G1 & S1)|(D & Cc)].
  - destruct (A6 r l1 G1) as [(l0 & G0 & S0)|(D0 & C0)].
    + left. exists l0. split; auto. eapply wsame_trans; eauto.
    + right. destruct S1 as (E1 & _ & _ & E4). split; [congruence|]. rewrite E4. exact C0.
  - right. split; auto. destruct Cc as [Cc|(l1 & G1 & E1)]; [left; auto|].
    destruct (A6 r l1 G1) as [(l0 & G0 & (_ & _ & _ & S4))|(D0 & C0)].
    + right. exists l0. split; auto. congruence.
    + rewrite E1. exact C0.
Qed.

Lemma wfr_view s x x' :
  store x' = store x -> now x' = now x -> checkE x' = checkE x -> leader x' = leader x ->
  ewheel x' = ewheel x -> elong x' = elong x -> wfr s x -> wfr s x'.
Proof.
  intros E1 E2 E3 E4 E5 E6 (A1 & A2 & A3 & A4 & A5 & A6).
  split; [congruence|]. split; [congruence|]. split; [congruence|]. rewrite E1, E5, E6. auto.
Qed.

Lemma wfr_tview s x x' : tview x' = tview x -> wfr s x -> wfr s x'.
Proof. unfold tview. intros E. injection E as E1 E2 E3 E4 E5 E6 E7 E8 E9 E10. apply wfr_view; auto. Qed.

Lemma wfr_updm s x k f : wfr s x -> wfr s (updm x k f).
Proof. apply wfr_tview, updm_tview. Qed.
Lemma wfr_setm s x k m : wfr s x -> wfr s (setm x k m).
Proof. apply wfr_tview, setm_tview. Qed.
Lemma wfr_updc s x f : wfr s x -> wfr s (updc x f).
Proof. apply wfr_tview, updc_tview. Qed.
Lemma wfr_bump s x f : wfr s x -> wfr s (bump f x).
Proof. apply wfr_tview, bump_tview. Qed.
Lemma wfr_remove_mgr s x k : wfr s x -> wfr s (remove_mgr_if_unref x k).
Proof. apply wfr_tview, remove_mgr_tview. Qed.
Lemma wfr_twheel s x w : wfr s x -> wfr s (x <| twheel := w |>).
Proof. apply wfr_view; reflexivity. Qed.
Lemma wfr_tlong s x w : wfr s x -> wfr s (x <| tlong := w |>).
Proof. apply wfr_view; reflexivity. Qed.

(* the tables may lose entries *)
Lemma wfr_ewheel_sub s x w :
  (forall k r, In r (wheel_get w k) -> In r (wheel_get (ewheel x) k)) -> wfr s x -> wfr s (x <| ewheel := w |>).
Proof.
  intros Hs (A1 & A2 & A3 & A4 & A5 & A6).
  split; [exact A1|]. split; [exact A2|]. split; [exact A3|]. split; [|split; [exact A5|exact A6]].
  intros k r I. apply A4. apply Hs. exact I.
Qed.
Lemma wfr_elong_sub s x w :
  (forall k r, In r (wheel_get w k) -> In r (wheel_get (elong x) k)) -> wfr s x -> wfr s (x <| elong := w |>).
Proof.
  intros Hs (A1 & A2 & A3 & A4 & A5 & A6).
  split; [exact A1|]. split; [exact A2|]. split; [exact A3|]. split; [exact A4|]. split; [|exact A6].
  intros k r I. apply A5. apply Hs. exact I.
Qed.

Lemma wfr_setl_gen s x r l' :
  (forall l, aget (store x) r = Some l -> wsame l l' \/ (l_expried l' = true /\ (nu (l_cmd l') \/ l_cmd l' = l_cmd l))) ->
  (aget (store x) r = None -> l_expried l' = true /\ nu (l_cmd l')) ->
  wfr s x -> wfr s (setl x r l').
Proof.
  intros H1 H2 (A1 & A2 & A3 & A4 & A5 & A6).
  split; [exact A1|]. split; [exact A2|]. split; [exact A3|]. split; [exact A4|]. split; [exact A5|].
  intros r' l1 H. rewrite aget_setl in H. destruct (r =? r') eqn:E; [|auto].
  apply N.eqb_eq in E. subst r'. injection H as <-.
  destruct (aget (store x) r) as [l|] eqn:G.
  - destruct (H1 l eq_refl) as [S|(D & Cc)].
    + destruct (A6 r l G) as [(l0 & G0 & S0)|(D0 & C0)].
      * left. exists l0. split; auto. eapply wsame_trans; eauto.
      * right. destruct S as (E1 & _ & _ & E4). split; [congruence|]. rewrite E4. exact C0.
    + right. split; auto. destruct Cc as [Cc|Cc]; [left; exact Cc|].
      destruct (A6 r l G) as [(l0 & G0 & (_ & _ & _ & S4))|(D0 & C0)].
      * right. exists l0. split; auto. congruence.
      * rewrite Cc. exact C0.
  - destruct (H2 eq_refl). right. auto.
Qed.

Lemma wfr_updl s x r f : (forall l, wsame l (f l) \/ (l_expried (f l) = true /\ l_cmd (f l) = l_cmd l)) -> wfr s x -> wfr s (updl x r f).
Proof.
  intros Hf H. unfold updl. destruct (aget (store x) r) as [l|] eqn:G; [|exact H].
  apply wfr_setl_gen; auto; [|congruence]. intros l0 G0. rewrite G in G0. injection G0 as <-.
  destruct (Hf l) as [A|[A B]]; [left; exact A|right; auto].
Qed.

Lemma wfr_setl s x r l l' : aget (store x) r = Some l -> wsame l l' -> wfr s x -> wfr s (setl x r l').
Proof. intros G S. apply wfr_setl_gen; [|congruence]. intros l0 G0. rewrite G in G0. injection G0 as <-. auto. Qed.

Lemma wfr_del s x r : wfr s x -> wfr s (x <| store := adel (store x) r |>).
Proof.
  intros (A1 & A2 & A3 & A4 & A5 & A6).
  split; [exact A1|]. split; [exact A2|]. split; [exact A3|]. split; [exact A4|]. split; [exact A5|].
  intros r' l1 H. change (aget (adel (store x) r) r' = Some l1) in H. rewrite TimeBase.aget_adel in H.
  destruct (r =? r'); [discriminate|auto].
Qed.

Lemma wfr_free_lock s x r : wfr s x -> wfr s (free_lock x r).
Proof. intros H. unfold free_lock. destruct (aget (store x) r); auto. apply wfr_updm, wfr_del, H. Qed.

Lemma wfr_unref s x r : wfr s x -> wfr s (unref x r).
Proof.
  intros H. unfold unref. destruct (aget (store x) r) as [l|] eqn:G; auto.
  assert (H1 : wfr s (setl x r (l <| l_refc := dec8 (l_refc l) |>))).
  { eapply wfr_setl; eauto. unfold wsame; cbn; intuition. }
  destruct (dec8 (l_refc l) =? 0); auto. apply wfr_free_lock; auto.
Qed.

Lemma wfr_unref_rm s x r k : wfr s x ->
  wfr s (if match aget (store (unref x r)) r with None => true | Some _ => false end
         then remove_mgr_if_unref (unref x r) k else unref x r).
Proof.
  intros H. destruct (match aget (store (unref x r)) r with None => true | Some _ => false end);
    [apply wfr_remove_mgr|]; apply wfr_unref; auto.
Qed.

Create HintDb wdb.
#[export] Hint Resolve wfr_refl wfr_updm wfr_setm wfr_updc wfr_bump wfr_remove_mgr wfr_free_lock wfr_unref wfr_twheel wfr_tlong : wdb.
#[export] Hint Extern 2 (wfr _ (updl _ _ _)) =>
  (apply wfr_updl; [intros ?; first [left; unfold wsame; cbn; solve [intuition] | right; cbn; solve [intuition]]|]) : wdb.
#[export] Hint Extern 1 (wfr _ (if ?c then _ else _)) => destruct c : wdb.
#[export] Hint Extern 1 (wfr _ (match ?c with _ => _ end)) => destruct c : wdb.
Ltac wf := eauto 60 with wdb.

(* ---------------------------------------------------------------- queues *)
Lemma wfr_hq_compact items : forall s x, wfr s x -> wfr s (fst (hq_compact x items)).
Proof.
  induction items as [|r t IH]; intros s x H; simpl; [exact H|].
  destruct (0 <? l_locked (getl x r)).
  - specialize (IH s x H). destruct (hq_compact x t). exact IH.
  - apply IH. wf.
Qed.
Lemma wfr_wq_compact items : forall s x, wfr s x -> wfr s (fst (wq_compact x items)).
Proof.
  induction items as [|r t IH]; intros s x H; simpl; [exact H|].
  destruct (dead_waiter (getl x r)).
  - apply IH. wf.
  - specialize (IH s x H). destruct (wq_compact x t). exact IH.
Qed.
Lemma wfr_hq_push s x q r : wfr s x -> wfr s (fst (hq_push x q r)).
Proof.
  intros H. unfold hq_push. destruct (hq_scale q) as [[it mp]|]; [exact H|].
  destruct (hq_cap q =? 0); [exact H|]. destruct (hq_len q <? hq_cap q); [exact H|].
  destruct (hq_fast q) eqn:FQ; [exact H|]. rewrite <- FQ.
  pose proof (wfr_hq_compact (hq_fast q) s x H) as A. destruct (hq_compact x (hq_fast q)) as [s' kept]. cbn [fst] in A.
  destruct (N.of_nat (length kept) <? hq_len q); [|destruct (hq_cap q <=? 128)]; exact A.
Qed.
Lemma wfr_wq_push s x q r : wfr s x -> wfr s (fst (wq_push x q r)).
Proof.
  intros H. unfold wq_push. destruct (wq_mode q); try exact H.
  destruct (wq_cap q =? 0); [exact H|]. destruct (wq_len q <? wq_cap q); [exact H|].
  destruct (wq_fast q) eqn:FQ; [exact H|]. rewrite <- FQ.
  pose proof (wfr_wq_compact (wq_fast q) s x H) as A. destruct (wq_compact x (wq_fast q)) as [s' kept]. cbn [fst] in A.
  destruct (N.of_nat (length kept) <? wq_len q); [|destruct (wq_cap q <=? 128)]; exact A.
Qed.
Lemma wfr_promote fuel : forall s x q, wfr s x -> wfr s (fst (fst (promote fuel x q))).
Proof.
  induction fuel as [|f IH]; intros s x q H; simpl; [exact H|].
  destruct (hq_pop q) as [[r|] q']; [|exact H].
  destruct (0 <? l_locked (getl x r)); [exact H|]. apply IH. wf.
Qed.
Lemma wfr_drop_dead fuel : forall s x q, wfr s x -> wfr s (fst (drop_dead_heads fuel x q)).
Proof.
  induction fuel as [|f IH]; intros s x q H; simpl; [exact H|].
  destruct (hq_head q) as [r|]; [|exact H].
  destruct (0 <? l_locked (getl x r)); [exact H|]. destruct (hq_pop q) as [o q']. apply IH. wf.
Qed.
Lemma wfr_remove_lock s x k r : wfr s x -> wfr s (remove_lock x k r).
Proof.
  intros H. unfold remove_lock. cbv zeta.
  set (x1 := updl x r (fun l => l <| l_locked := 0 |> <| l_ack := 255 |>)).
  assert (H1 : wfr s x1) by (unfold x1; wf).
  destruct (match m_cur (getm x1 k) with Some c => c =? r | None => false end).
  - destruct (m_locks (getm x1 k)) as [q|]; [|wf].
    match goal with |- context [promote ?f ?a ?b] =>
      pose proof (wfr_promote f s a b) as A; destruct (promote f a b) as [[s' q'] nc] end.
    cbn [fst] in A. apply wfr_updm. apply A. wf.
  - destruct (m_locks (getm x1 k)) as [q|]; [|exact H1].
    match goal with |- context [drop_dead_heads ?f ?a ?b] =>
      pose proof (wfr_drop_dead f s a b H1) as A; destruct (drop_dead_heads f a b) as [s' q'] end.
    cbn [fst] in A. apply wfr_updm. exact A.
Qed.
Lemma wfr_add_wait_lock s x k r : wfr s x -> wfr s (add_wait_lock x k r).
Proof.
  intros H. unfold add_wait_lock. cbv zeta.
  match goal with |- context [wq_push x ?q r] => pose proof (wfr_wq_push s x q r H) as A; destruct (wq_push x q r) as [s' q'] end.
  cbn [fst] in A. wf.
Qed.
Lemma wfr_get_wait_loop fuel : forall s x q, wfr s x -> wfr s (fst (fst (get_wait_loop fuel x q))).
Proof.
  induction fuel as [|f IH]; intros s x q H; simpl; [exact H|].
  destruct (wq_head q) as [r|]; [|exact H].
  destruct (dead_waiter (getl x r)); [|exact H]. apply IH. wf.
Qed.
Lemma wfr_get_wait_lock s x k : wfr s x -> wfr s (fst (get_wait_lock x k)).
Proof.
  intros H. unfold get_wait_lock. destruct (m_wait (getm x k)) as [q|]; [|exact H].
  match goal with |- context [get_wait_loop ?f x q] =>
    pose proof (wfr_get_wait_loop f s x q H) as A; destruct (get_wait_loop f x q) as [[s' q'] w] end.
  cbn [fst] in *. wf.
Qed.
#[export] Hint Resolve wfr_remove_lock wfr_add_wait_lock : wdb.

(* ---------------------------------------------------------------- AOF emission, value layer *)
Lemma wfr_push_lock_aof s x k r fl : wfr s x -> wfr s (fst (push_lock_aof x k r fl)).
Proof.
  intros H. unfold push_lock_aof. destruct (negb (leader x)); [exact H|].
  destruct (has _ _); cbn [fst]; [wf|].
  destruct (aof_lock_data _ _ _) as [[d cur'] ld']. cbn [fst]. wf.
Qed.
Lemma wfr_push_unlock_aof s x k r lc uc b fl : wfr s x -> wfr s (fst (push_unlock_aof x k r lc uc b fl)).
Proof.
  intros H. unfold push_unlock_aof. destruct (negb (leader x)); [exact H|].
  destruct (match uc with Some u => has (c_flag u) UNLOCK_FLAG_FROM_AOF | None => false end); cbn [fst]; [wf|].
  destruct (aof_lock_data _ _ _) as [[d cur'] ld']. cbn [fst]. wf.
Qed.
Lemma wfr_repeat_push n : forall s x k r, wfr s x -> wfr s (fst (repeat_push_lock_aof n x k r)).
Proof.
  induction n as [|n IH]; intros s x k r H; simpl; [exact H|].
  pose proof (wfr_push_lock_aof s x k r 0 H) as A. destruct (push_lock_aof x k r 0) as [x1 e1]. cbn [fst] in A.
  specialize (IH s x1 k r A). destruct (repeat_push_lock_aof n x1 k r) as [x2 e2]. exact IH.
Qed.
Lemma wfr_process_data s x k r c b : wfr s x -> wfr s (fst (process_data x k r c b)).
Proof.
  intros H. unfold process_data. destruct (c_data c); [|exact H].
  destruct (process_lock_data _ _ _ _) as [[cur' ld']| | |]; cbn [fst]; wf.
Qed.

Lemma wfr_push_lock_aof_eq s x k r fl x' ev : push_lock_aof x k r fl = (x', ev) -> wfr s x -> wfr s x'.
Proof. intros E H. pose proof (wfr_push_lock_aof s x k r fl H) as A. rewrite E in A. exact A. Qed.
Lemma wfr_push_unlock_aof_eq s x k r lc uc b fl x' ev : push_unlock_aof x k r lc uc b fl = (x', ev) -> wfr s x -> wfr s x'.
Proof. intros E H. pose proof (wfr_push_unlock_aof s x k r lc uc b fl H) as A. rewrite E in A. exact A. Qed.
Lemma wfr_process_data_eq s x k r c b x' ev : process_data x k r c b = (x', ev) -> wfr s x -> wfr s x'.
Proof. intros E H. pose proof (wfr_process_data s x k r c b H) as A. rewrite E in A. exact A. Qed.
Lemma wfr_get_wait_lock_eq s x k x' w : get_wait_lock x k = (x', w) -> wfr s x -> wfr s x'.
Proof. intros E H. pose proof (wfr_get_wait_lock s x k H) as A. rewrite E in A. exact A. Qed.
Ltac wf_eq :=
  match goal with
  | E : push_lock_aof _ _ _ _ = (?y, _) |- wfr _ ?y => eapply wfr_push_lock_aof_eq; [exact E|]
  | E : push_unlock_aof _ _ _ _ _ _ _ = (?y, _) |- wfr _ ?y => eapply wfr_push_unlock_aof_eq; [exact E|]
  | E : process_data _ _ _ _ _ = (?y, _) |- wfr _ ?y => eapply wfr_process_data_eq; [exact E|]
  | E : get_wait_lock _ _ = (?y, _) |- wfr _ ?y => eapply wfr_get_wait_lock_eq; [exact E|]
  end.
#[export] Hint Extern 1 (wfr _ ?y) => is_var y; wf_eq : wdb.

(* ---------------------------------------------------------------- the timeout side is invisible *)
Lemma wfr_add_timeout s x r : wfr s x -> wfr s (add_timeout x r).
Proof. intros H. unfold add_timeout. cbv zeta. wf. Qed.
Lemma wfr_remove_long_timeout s x r : wfr s x -> wfr s (remove_long_timeout x r).
Proof. intros H. unfold remove_long_timeout. cbv zeta. wf. Qed.
#[export] Hint Resolve wfr_add_timeout wfr_remove_long_timeout : wdb.
Lemma wfr_kill s x r : wfr s x -> wfr s (kill x r).
Proof. intros H. unfold kill. cbv zeta. wf. Qed.
#[export] Hint Resolve wfr_kill : wdb.

(* RemoveLongExpried only removes an entry of the long expiry table *)
Lemma wfr_remove_long_expried s x r eT : wfr s x -> wfr s (remove_long_expried x r eT).
Proof.
  intros H. unfold remove_long_expried. destruct (aget (elong x) (lkey eT)) as [q|] eqn:GQ; [|wf].
  apply wfr_updl; [intros ?; left; unfold wsame; cbn; intuition|].
  apply wfr_elong_sub; auto. intros k y I. apply (in_long_remove (elong x) _ q r k y GQ) in I. tauto.
Qed.
#[export] Hint Resolve wfr_remove_long_expried : wdb.

(* a fresh record is born dead on the expiry side *)
Lemma wfr_new_lock s x k conn c : nu c -> wfr s x -> wfr s (fst (new_lock x k conn c)).
Proof.
  intros Hc H. unfold new_lock. cbn [fst]. apply wfr_updm.
  match goal with |- wfr _ (?x0 <| store := aset _ _ ?l |> <| next := ?n |>) =>
    apply (wfr_view s (setl x0 (next x0) l)); try reflexivity end.
  apply wfr_setl_gen; [| |exact H].
  - intros l0 _. right. split; [reflexivity|left; exact Hc].
  - intros _. split; [reflexivity|exact Hc].
Qed.

(* ---------------------------------------------------------------- scalars across a frame *)
Lemma wfr_now s s' : wfr s s' -> now s' = now s.  Proof. intros H; apply H. Qed.
Lemma wfr_checkE s s' : wfr s s' -> checkE s' = checkE s.  Proof. intros H; apply H. Qed.
Lemma wfr_leader s s' : wfr s s' -> leader s' = leader s.  Proof. intros H; apply H. Qed.
