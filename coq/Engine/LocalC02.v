(* Local facts, part 7 (property C02, refusals): a request that is answered with a refusal code leaves the state
   unchanged (UnLock: only UnlockErrorCount + 1).  Every state. *)
From Coq Require Import String ZifyN ZifyBool.
From Slock Require Import Engine.Types Engine.Queues Engine.Timers Engine.Engine Engine.Engine2 Engine.LocalBase
  Engine.LocalC01.
Open Scope N_scope.

Definition reply_result (e : event) : option N :=
  match e with EReply _ _ res _ _ _ _ _ _ => Some res | _ => None end.

(* ------------------------------------------------------------------ UnLock *)
Definition unlock_refusal_code (res : N) : Prop :=
  res = R_UNLOCK_ERROR \/ res = R_UNOWN_ERROR \/ res = R_ACK_WAITING \/ res = R_STATE_ERROR.

(* events of a successful unlock: no refusal code *)
Definition not_unlock_refusal (e : event) : Prop :=
  match e with EReply _ _ res _ _ _ _ _ _ => ~ unlock_refusal_code res | _ => True end.
Lemma quiet_ok_nur : quiet_ok not_unlock_refusal.
Proof. intros [] H; simpl in *; auto; contradiction. Qed.

Ltac nur_solve :=
  ev_solve quiet_ok_nur;
  try solve [ unfold not_unlock_refusal, reply, unlock_refusal_code; intros [H|[H|[H|H]]]; discriminate H ].

Definition bump_unlockerr (s : db) : db := bump (fun n => n <| n_unlockerr := (n_unlockerr n + 1)%Z |>) s.

Lemma cancel_wait_lock_shape s conn c s' ev w :
  cancel_wait_lock s conn c = (s', ev, w) ->
  (s' = bump_unlockerr s /\ w = None /\ exists lc d, ev = [reply conn c R_UNLOCK_ERROR lc 0 d])
  \/ (exists ev1 lc lrc d wconn wcmd,
        Forall not_unlock_refusal ev1 /\
        ev = ev1 ++ [reply conn c R_LOCKED_ERROR lc lrc d; reply wconn wcmd R_UNLOCK_ERROR lc lrc d]).
Proof.
  unfold cancel_wait_lock. intros H. repeat (split_hyp H); inv_tuple H.
  all: first [ left; split; [reflexivity|]; split; [reflexivity|]; eauto
             | right; do 6 eexists; split; [|reflexivity]; nur_solve ].
Qed.

Lemma release_hold_nur s k conn c r d s' ev : release_hold s k conn c r d = (s', ev) -> Forall not_unlock_refusal ev.
Proof. unfold release_hold. intros H. repeat (split_hyp H); inv_tuple H; nur_solve. Qed.

(* three outcomes: refusal (single reply, only UnlockErrorCount changes, no pass) / cancel-wait success / events
   without any refusal code *)
Lemma unlock_step_outcomes s conn c s' ev w :
  unlock_step s conn c = (s', ev, w) ->
  (s' = bump_unlockerr s /\ w = None
   /\ exists res lc lrc d, ev = [reply conn c res lc lrc d] /\ unlock_refusal_code res)
  \/ (exists ev1 lc lrc d wconn wcmd,
        Forall not_unlock_refusal ev1 /\
        ev = ev1 ++ [reply conn c R_LOCKED_ERROR lc lrc d; reply wconn wcmd R_UNLOCK_ERROR lc lrc d])
  \/ Forall not_unlock_refusal ev.
Proof.
  unfold unlock_step. intros H. repeat (split_hyp H); inv_tuple H.
  all: try match goal with E : cancel_wait_lock _ _ _ = _ |- _ =>
         apply cancel_wait_lock_shape in E; destruct E as [(E1 & E2 & lc & d & E3)|E];
         [ left; split; [exact E1|]; split; [exact E2|]; exists R_UNLOCK_ERROR, lc, 0, d; split; [exact E3|left; reflexivity]
         | right; left; exact E ] end.
  all: try solve [ left; split; [reflexivity|]; split; [reflexivity|]; do 4 eexists; split; [reflexivity|];
                   unfold unlock_refusal_code; auto ].
  all: right; right; nur_solve.
  all: eapply release_hold_nur; eassumption.
Qed.

Lemma unlock_refusal_single s conn c s' ev w e res :
  unlock_step s conn c = (s', ev, w) -> ev = [e] -> reply_result e = Some res -> unlock_refusal_code res ->
  s' = bump_unlockerr s /\ w = None
  /\ exists lc lrc d, e = reply conn c res lc lrc d.
Proof.
  intros H Hev Hres Hcode. apply unlock_step_outcomes in H. destruct H as [H|[H|H]].
  - destruct H as (H1 & H2 & res' & lc & lrc & d & H3 & H4). split; auto. split; auto.
    rewrite Hev in H3. inv H3. simpl in Hres. inv Hres. eauto.
  - destruct H as (ev1 & lc & lrc & d & wconn & wcmd & _ & H). rewrite Hev in H.
    destruct ev1 as [|a [|b ev1]]; simpl in H; discriminate.
  - rewrite Hev in H. inv H. destruct e; simpl in *; try discriminate. inv Hres. contradiction.
Qed.

(* ------------------------------------------------------------------ Lock *)
Definition lock_refusal_code (c : cmd) (res : N) : Prop :=
  res = R_ACK_WAITING \/ res = R_UNOWN_ERROR \/ (res = R_LOCKED_ERROR /\ has (c_flag c) LOCK_FLAG_UPDATE = false).

Definition not_lock_refusal (c : cmd) (e : event) : Prop :=
  match e with EReply _ _ res _ _ _ _ _ _ => ~ lock_refusal_code c res | _ => True end.
Lemma quiet_ok_nlr c : quiet_ok (not_lock_refusal c).
Proof. intros [] H; simpl in *; auto; contradiction. Qed.

Lemma held_mgr_exists s k : (0 <? m_locked (getm (get_or_new_mgr s k) k)) = true -> get_or_new_mgr s k = s.
Proof.
  unfold get_or_new_mgr. destruct (aget (mgrs s) k) eqn:E; auto.
  unfold getm. change (mgrs (bump (fun n => n <| n_key := (n_key n + 1)%Z |>) (setm s k new_mgr))) with (aset (mgrs s) k new_mgr).
  rewrite aget_aset_same. discriminate.
Qed.

Lemma waited_mgr_exists s k A : m_waited (getm (get_or_new_mgr s k) k) && A = true -> get_or_new_mgr s k = s.
Proof.
  unfold get_or_new_mgr. destruct (aget (mgrs s) k) eqn:E; auto.
  unfold getm. change (mgrs (bump (fun n => n <| n_key := (n_key n + 1)%Z |>) (setm s k new_mgr))) with (aset (mgrs s) k new_mgr).
  rewrite aget_aset_same. discriminate.
Qed.

Lemma c_flag_retarget (b : bool) c x : c_flag (if b then c <| c_lockid := x |> else c) = c_flag c.
Proof. destruct b; reflexivity. Qed.

Lemma lock_step_outcomes s conn c s' ev w :
  lock_step s conn c = (s', ev, w) ->
  (s' = s /\ w = None) \/ Forall (not_lock_refusal c) ev.
Proof.
  unfold lock_step. intros H. cbv zeta in H.
  change (match aget (mgrs s) (c_key c) with
          | Some _ => s
          | None => bump (fun n => n <| n_key := (n_key n + 1)%Z |>) (setm s (c_key c) new_mgr)
          end) with (get_or_new_mgr s (c_key c)) in H.
  repeat (split_hyp H); inv_tuple H.
  all: try solve [left; split; reflexivity].
  all: try solve [left; split; [|reflexivity];
                  first [ eapply held_mgr_exists; eassumption | eapply waited_mgr_exists; eassumption ] ].
  all: right; ev_solve (quiet_ok_nlr c).
  all: try solve [ unfold not_lock_refusal, reply, lock_refusal_code; intros [Hx|[Hx|[Hx _]]]; discriminate Hx ].
  all: unfold not_lock_refusal, reply, lock_refusal_code; intros [Hx|[Hx|[_ Hx]]]; try discriminate Hx.
  all: repeat match goal with Hy : context [c_flag (if _ then _ else _)] |- _ => rewrite c_flag_retarget in Hy end;
       congruence.
Qed.

Lemma lock_refusal_unchanged s conn c s' ev w e res :
  lock_step s conn c = (s', ev, w) -> In e ev -> reply_result e = Some res -> lock_refusal_code c res ->
  s' = s /\ w = None.
Proof.
  intros H Hin Hres Hcode. apply lock_step_outcomes in H. destruct H as [H|H]; auto.
  rewrite Forall_forall in H. specialize (H e Hin). destruct e; simpl in *; try discriminate.
  inv Hres. contradiction.
Qed.
