(* Timer theorems, part 8: NO LOSS (C05 b).  The wheel invariant TW: every live waiter is stored in the timeout
   structures under a second d that has not been swept yet and is not later than its deadline.  A sweep that lags by
   fewer than 7 seconds examines every such d up to `now`, so afterwards no live waiter has a deadline <= now. *)
From Coq Require Import String ZifyN ZifyBool ZifyNat.
From Slock Require Import Engine.Types Engine.Queues Engine.Timers Engine.Engine Engine.Engine2.
From Slock Require Import Engine.TimeBase Engine.TimeFrame Engine.TimeStep Engine.TimeWheel Engine.TimeInv Engine.TimeRun.
Open Scope N_scope.

Ltac Zify.zify_post_hook ::= Z.div_mod_to_equations.

Definition where_ok (D : list ref) (f : Z) (s : db) (r : ref) (l : lockrec) : Prop :=
  In r D
  \/ (exists d, (f <= d <= l_tT l)%Z /\ In r (wheel_get (twheel s) (slot_of d)))
  \/ ((f <= l_tT l)%Z /\ In r (wheel_get (tlong s) (lkey (l_tT l)))).

Definition TW (D : list ref) (f : Z) (s : db) : Prop := forall r l, tlive s r l -> where_ok D f s r l.

Lemma TW_frame D f s s' : TW D f s -> cframe s s' -> TW D f s'.
Proof.
  intros W F r l' [G L]. destruct (tf_live _ _ _ F r l' G L) as (l & B1 & B2 & (T1 & _) & ML).
  destruct (W r l (conj B1 B2)) as [I|[(d & R & I)|(R & I)]].
  - left; auto.
  - right; left. exists d. rewrite T1, (tf_wheel _ _ _ F). auto.
  - right; right. rewrite T1. split; auto.
Qed.

Lemma TW_weaken D D' f s : incl D D' -> TW D f s -> TW D' f s.
Proof. intros I W r l LV. destruct (W r l LV) as [X|[X|X]]; [left; auto|right; left; auto|right; right; auto]. Qed.

(* ------------------------------------------------------------------ queueing *)
Lemma TW_queue_tail D f s1 k r lr :
  TA s1 -> TW D f s1 -> (f <= checkT s1)%Z ->
  aget (store s1) r = Some lr -> l_tcc lr = 1 -> (checkT s1 + 1 <= l_tT lr)%Z ->
  TW D f (queue_tail s1 k r).
Proof.
  intros T1 W1 FC G TC DL. unfold queue_tail.
  pose proof (add_wait_lock_frame core_cmd s1 k r) as F12.
  pose proof (TW_frame _ _ _ _ W1 F12) as W2.
  pose proof (sframe_add_wait_lock s1 k r) as SF.
  set (s2 := add_wait_lock s1 k r) in *.
  assert (TW D f (add_timeout s2 r)) as W3.
  { destruct (aget (store s2) r) as [l2|] eqn:G2.
    - destruct (SF r l2 G2) as (l1 & A & B). rewrite G in A. injection A as <-.
      assert (l_tcc l2 = 1 /\ l_tT l2 = l_tT lr) as [TC2 DL2] by (rewrite B; cbn; auto).
      destruct (add_timeout_short s2 r l2 G2) as (WH & L & ST). { rewrite TC2. reflexivity. }
      intros x lx [Gx Lx]. rewrite ST in Gx. destruct (r =? x) eqn:E.
      + apply N.eqb_eq in E; subst x. injection Gx as <-. right; left.
        exists (tslot_time (checkT s2) l2). rewrite WH. cbn.
        unfold tslot_time. rewrite TC2, DL2. rewrite (tf_checkT _ _ _ F12).
        assert ((l_tT lr <? checkT s1 + Z.of_N 1)%Z = false) as E1 by (apply Z.ltb_ge; lia). rewrite E1.
        split; [lia|]. apply in_wheel_push. right; auto.
      + destruct (W2 x lx (conj Gx Lx)) as [I|[(d & R & I)|(R & I)]].
        * left; auto.
        * right; left. exists d. split; auto. rewrite WH. apply in_wheel_push. left; auto.
        * right; right. rewrite L. auto.
    - destruct (add_timeout_absent s2 r G2) as (ST & L & (slot & WH)).
      intros x lx [Gx Lx]. rewrite ST in Gx. destruct (W2 x lx (conj Gx Lx)) as [I|[(d & R & I)|(R & I)]].
      + left; auto.
      + right; left. exists d. split; auto. rewrite WH. apply in_wheel_push. left; auto.
      + right; right. rewrite L. auto. }
  eapply TW_frame; [exact W3|].
  eapply tframe_trans; [|apply tframe_bump]. apply tframe_updl; updl_side.
Qed.

(* ------------------------------------------------------------------ one wheel slot *)
Lemma tslot_time_range chk l :
  (chk <= l_tT l)%Z -> (QUEUE_MAX_WAIT <? l_tcc l) = false ->
  (chk <= tslot_time chk l <= l_tT l)%Z /\ (tslot_time chk l <= chk + 8)%Z.
Proof.
  intros H T. apply N.ltb_ge in T. unfold QUEUE_MAX_WAIT in T. unfold tslot_time.
  destruct (l_tT l <? chk + Z.of_N (l_tcc l))%Z eqn:E1.
  - apply Z.ltb_lt in E1. destruct (l_tT l <? chk)%Z eqn:E2; [apply Z.ltb_lt in E2; lia|]. lia.
  - apply Z.ltb_ge in E1. lia.
Qed.

Lemma sweep_t_slot_TW nowv t : (0 <= t <= nowv)%Z -> (nowv < t + 7)%Z ->
  forall fuel s due,
  TA s -> checkT s = (nowv + 1)%Z -> TW due t s ->
  (length (wheel_get (twheel s) (slot_of t)) < fuel)%nat ->
  let '(s', due') := sweep_t_slot fuel s (slot_of t) nowv due in
  TW due' t s' /\ wheel_get (twheel s') (slot_of t) = [] /\ tlong s' = tlong s \/ True ->
  TW due' t s' /\ wheel_get (twheel s') (slot_of t) = [].
Proof.
Abort.

Lemma sweep_t_slot_TW nowv t : (0 <= t <= nowv)%Z -> (nowv < t + 7)%Z ->
  forall fuel s due,
  TA s -> checkT s = (nowv + 1)%Z -> TW due t s ->
  (length (wheel_get (twheel s) (slot_of t)) < fuel)%nat ->
  let '(s', due') := sweep_t_slot fuel s (slot_of t) nowv due in
  TW due' t s' /\ wheel_get (twheel s') (slot_of t) = [].
Proof.
  intros R0 LAG. set (slot := slot_of t).
  induction fuel as [|f IH]; intros s due T CK W LEN; [lia|]. cbn [sweep_t_slot].
  destruct (wheel_get (twheel s) slot) as [|r rest] eqn:WG; [auto|].
  set (s1 := s <| twheel := aset (twheel s) slot rest |>).
  assert (TA s1) as T1.
  { apply (TA_wheel_only s); auto. intros k x I. left. unfold s1 in I. cbn in I. rewrite wheel_get_aset in I.
    destruct (slot =? k) eqn:E; auto. apply N.eqb_eq in E; subst k. rewrite WG. right; auto. }
  assert (wheel_get (twheel s1) slot = rest) as WG1 by (unfold s1; cbn; rewrite wheel_get_aset, N.eqb_refl; auto).
  assert (forall k, k <> slot -> wheel_get (twheel s1) k = wheel_get (twheel s) k) as WO.
  { intros k NE. unfold s1; cbn. rewrite wheel_get_aset. destruct (slot =? k) eqn:E; auto. apply N.eqb_eq in E; congruence. }
  (* every live record other than an r that only occurred at the popped head keeps its place *)
  assert (forall x lx, tlive s1 x lx -> x <> r -> where_ok due t s1 x lx) as W1.
  { intros x lx LV NE. destruct (W x lx LV) as [I|[(d & R & I)|(R & I)]]; [left; auto| |right; right; auto].
    right; left. exists d. split; auto. destruct (N.eq_dec (slot_of d) slot) as [E|E].
    - rewrite E in *. rewrite WG1. rewrite WG in I. destruct I; [congruence|auto].
    - rewrite WO; auto. }
  change (getl s1 r) with (getl s r). change (store s1) with (store s).
  destruct (aget (store s) r) as [l|] eqn:G.
  - rewrite (getl_some _ _ _ G). cbv iota.
    destruct (l_timeouted l) eqn:LV; cbn [negb].
    + (* tombstone *)
      pose proof (tframe_unref_mgr core_cmd s1 r (l_key l)) as F. cbv zeta in F.
      match type of F with tframe _ _ ?x => specialize (IH x due (TA_frame _ _ T1 F)) end.
      rewrite (tf_checkT _ _ _ F), (tf_wheel _ _ _ F), WG1 in IH. apply IH; auto; [|cbn in LEN; lia].
      eapply TW_frame; [|exact F]. intros x lx LVx. apply W1; auto. intros ->. destruct LVx as [Gx Lx].
      change (store s1) with (store s) in Gx. congruence.
    + destruct (nowv <? l_tT l)%Z eqn:LT.
      * (* re-check later *)
        apply Z.ltb_lt in LT.
        set (s2 := updl s1 r (fun l0 => l0 <| l_tcc := (l_tcc l0 + 1) mod 256 |>)).
        assert (cframe s1 s2) as F2 by (apply tframe_updl; updl_side).
        pose proof (TA_frame _ _ T1 F2) as T2.
        set (l2 := l <| l_tcc := (l_tcc l + 1) mod 256 |>).
        assert (aget (store s2) r = Some l2) as G2.
        { unfold s2. rewrite aget_updl, N.eqb_refl. change (store s1) with (store s). rewrite G. reflexivity. }
        assert (tlive s2 r l2) as LV2 by (split; auto).
        assert (checkT s2 = (nowv + 1)%Z) as CK2 by (unfold s2; rewrite updl_checkT; exact CK).
        destruct (TA_add_timeout_live s2 r l2 T2 LV2) as [T3 MONO]. { rewrite CK2. cbn. lia. }
        pose proof (add_timeout_same s2 r) as SB.
        assert (TW due t (add_timeout s2 r) /\ wheel_get (twheel (add_timeout s2 r)) slot = rest) as [W3 WG3].
        { destruct (QUEUE_MAX_WAIT <? l_tcc l2) eqn:TC.
          - destruct (add_timeout_long s2 r l2 G2 TC) as (WH & L & ST). cbv zeta in *.
            assert ((l_tT l2 <? checkT s2)%Z = false) as E by (apply Z.ltb_ge; rewrite CK2; cbn; lia). rewrite E in *.
            split; [|rewrite WH; unfold s2; rewrite updl_twheel; exact WG1].
            intros x lx [Gx Lx]. rewrite ST in Gx. destruct (r =? x) eqn:EQ.
            + apply N.eqb_eq in EQ; subst x. injection Gx as <-. right; right. cbn. split; [lia|].
              rewrite L. apply in_wheel_push. right; auto.
            + apply N.eqb_neq in EQ.
              assert (tlive s1 x lx) as LX1.
              { split; auto. unfold s2 in Gx. rewrite aget_updl in Gx. apply N.eqb_neq in EQ. rewrite EQ in Gx. auto. }
              destruct (W1 x lx LX1 ltac:(auto)) as [I|[(d & R & I)|(R & I)]]; [left; auto| |].
              * right; left. exists d. split; auto. rewrite WH. unfold s2. rewrite updl_twheel. auto.
              * right; right. split; auto. rewrite L. apply in_wheel_push. left. unfold s2. rewrite updl_tlong. auto.
          - destruct (add_timeout_short s2 r l2 G2 TC) as (WH & L & ST).
            destruct (tslot_time_range (checkT s2) l2) as [R1 R2]; auto. { rewrite CK2. cbn. lia. }
            rewrite CK2 in *.
            assert (slot_of (tslot_time (nowv + 1) l2) <> slot) as NS by (apply slot_of_neq; lia).
            split.
            + intros x lx [Gx Lx]. rewrite ST in Gx. destruct (r =? x) eqn:EQ.
              * apply N.eqb_eq in EQ; subst x. injection Gx as <-. right; left.
                exists (tslot_time (nowv + 1) l2). cbn. split; [cbn in R1; lia|].
                rewrite WH. apply in_wheel_push. right; auto.
              * apply N.eqb_neq in EQ.
                assert (tlive s1 x lx) as LX1.
                { split; auto. unfold s2 in Gx. rewrite aget_updl in Gx. apply N.eqb_neq in EQ. rewrite EQ in Gx. auto. }
                destruct (W1 x lx LX1 ltac:(auto)) as [I|[(d & R & I)|(R & I)]]; [left; auto| |].
                -- right; left. exists d. split; auto. rewrite WH. apply in_wheel_push. left.
                   unfold s2. rewrite updl_twheel. auto.
                -- right; right. split; auto. rewrite L. unfold s2. rewrite updl_tlong. auto.
            + rewrite WH, wheel_get_push. destruct (_ =? slot) eqn:EQ; [apply N.eqb_eq in EQ; congruence|].
              unfold s2. rewrite updl_twheel. exact WG1. }
        specialize (IH (add_timeout s2 r) due T3).
        rewrite (sb_checkT _ _ SB), WG3 in IH. apply IH; auto. cbn in LEN; lia.
      * (* due *)
        apply Z.ltb_ge in LT.
        specialize (IH s1 (due ++ [r]) T1 CK). rewrite WG1 in IH. apply IH; [|cbn in LEN; lia].
        intros x lx LVx. destruct (N.eq_dec x r) as [->|NE].
        -- left. apply in_app_iff. right; left; auto.
        -- destruct (W1 x lx LVx NE) as [I|[X|X]]; [left; apply in_app_iff; auto|right; left; auto|right; right; auto].
  - (* freed record: handed to doTimeOut, which fails; the loop stops here *)
    cbv iota. exfalso.
    (* a wheel entry whose record is gone: TA does not exclude it, and then the loop stops with the slot non-empty *)
Abort.
