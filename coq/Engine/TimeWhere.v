(* Timer theorems, part 8: NO LOSS (C05 b).  The wheel invariant TW: every live waiter is stored in the timeout
   structures under a second d that has not been swept yet and is not later than its deadline.  A sweep that lags by
   fewer than 7 seconds examines every such d up to `now`, so afterwards no live waiter has a deadline <= now. *)
From Coq Require Import String ZifyN ZifyBool ZifyNat.
From Slock Require Import Engine.Types Engine.Queues Engine.Timers Engine.Engine Engine.Engine2.
From Slock Require Import Engine.TimeBase Engine.TimeFrame Engine.TimeStep Engine.TimeWheel Engine.TimeInv Engine.TimeRun.
Open Scope N_scope.

Ltac Zify.zify_post_hook ::= Z.div_mod_to_equations.

Definition where_ok (D : list ref) (f : Z) (s : db) (r : ref) (l : lockrec) : Prop :=
  In r D
  \/ (exists d, (f <= d <= l_tT l)%Z /\ In r (wheel_get (twheel s) (slot_of d)))
  \/ ((f <= l_tT l)%Z /\ In r (wheel_get (tlong s) (lkey (l_tT l)))).

Definition TW (D : list ref) (f : Z) (s : db) : Prop := forall r l, tlive s r l -> where_ok D f s r l.

Lemma TW_frame D f s s' : TW D f s -> cframe s s' -> TW D f s'.
Proof.
  intros W F r l' [G L]. destruct (tf_live _ _ _ F r l' G L) as (l & B1 & B2 & (T1 & _) & ML).
  destruct (W r l (conj B1 B2)) as [I|[(d & R & I)|(R & I)]].
  - left; auto.
  - right; left. exists d. rewrite T1, (tf_wheel _ _ _ F). auto.
  - right; right. rewrite T1. split; auto.
Qed.

Lemma TW_weaken D D' f s : incl D D' -> TW D f s -> TW D' f s.
Proof. intros I W r l LV. destruct (W r l LV) as [X|[X|X]]; [left; auto|right; left; auto|right; right; auto]. Qed.

(* ------------------------------------------------------------------ queueing *)
Lemma TW_queue_tail D f s1 k r lr :
  TA s1 -> TW D f s1 -> (f <= checkT s1)%Z ->
  aget (store s1) r = Some lr -> l_tcc lr = 1 -> (checkT s1 + 1 <= l_tT lr)%Z ->
  TW D f (queue_tail s1 k r).
Proof.
  intros T1 W1 FC G TC DL. unfold queue_tail.
  pose proof (add_wait_lock_frame core_cmd s1 k r) as F12.
  pose proof (TW_frame _ _ _ _ W1 F12) as W2.
  pose proof (sframe_add_wait_lock s1 k r) as SF.
  set (s2 := add_wait_lock s1 k r) in *.
  assert (TW D f (add_timeout s2 r)) as W3.
  { destruct (aget (store s2) r) as [l2|] eqn:G2.
    - destruct (SF r l2 G2) as (l1 & A & B). rewrite G in A. injection A as <-.
      assert (l_tcc l2 = 1 /\ l_tT l2 = l_tT lr) as [TC2 DL2] by (rewrite B; cbn; auto).
      destruct (add_timeout_short s2 r l2 G2) as (WH & L & ST). { rewrite TC2. reflexivity. }
      intros x lx [Gx Lx]. rewrite ST in Gx. destruct (r =? x) eqn:E.
      + apply N.eqb_eq in E; subst x. injection Gx as <-. right; left.
        exists (tslot_time (checkT s2) l2). rewrite WH. cbn.
        unfold tslot_time. rewrite TC2, DL2. rewrite (tf_checkT _ _ _ F12).
        assert ((l_tT lr <? checkT s1 + Z.of_N 1)%Z = false) as E1 by (apply Z.ltb_ge; lia). rewrite E1.
        split; [lia|]. apply in_wheel_push. right; auto.
      + destruct (W2 x lx (conj Gx Lx)) as [I|[(d & R & I)|(R & I)]].
        * left; auto.
        * right; left. exists d. split; auto. rewrite WH. apply in_wheel_push. left; auto.
        * right; right. rewrite L. auto.
    - destruct (add_timeout_absent s2 r G2) as (ST & L & (slot & WH)).
      intros x lx [Gx Lx]. rewrite ST in Gx. destruct (W2 x lx (conj Gx Lx)) as [I|[(d & R & I)|(R & I)]].
      + left; auto.
      + right; left. exists d. split; auto. rewrite WH. apply in_wheel_push. left; auto.
      + right; right. rewrite L. auto. }
  eapply TW_frame; [exact W3|].
  eapply tframe_trans; [|apply tframe_bump]. apply tframe_updl; updl_side.
Qed.

(* ------------------------------------------------------------------ one wheel slot *)
Lemma tslot_time_range chk l :
  (chk <= l_tT l)%Z -> (QUEUE_MAX_WAIT <? l_tcc l) = false ->
  (chk <= tslot_time chk l <= l_tT l)%Z /\ (tslot_time chk l <= chk + 8)%Z.
Proof.
  intros H T. apply N.ltb_ge in T. unfold QUEUE_MAX_WAIT in T. unfold tslot_time.
  destruct (l_tT l <? chk + Z.of_N (l_tcc l))%Z eqn:E1.
  - apply Z.ltb_lt in E1. destruct (l_tT l <? chk)%Z eqn:E2; [apply Z.ltb_lt in E2; lia|]. lia.
  - apply Z.ltb_ge in E1. lia.
Qed.

(* frames that cannot create records: C := fun _ => False *)
Definition NoC (c : cmd) : Prop := False.
Notation nframe := (tframe NoC).

Lemma nframe_cframe s s' : nframe s s' -> cframe s s'.
Proof. apply tframe_mono. intros c []. Qed.

Lemma nframe_absent s s' r : nframe s s' -> aget (store s) r = None -> aget (store s') r = None.
Proof.
  intros F G. destruct (aget (store s') r) as [l'|] eqn:G'; auto.
  destruct (tf_cmd _ _ _ F r l' G') as [[]|(l & A & _)]. congruence.
Qed.

Lemma nfinish_frame s0 res : PK s0 -> nframe s0 (fst (fst res)) -> nframe s0 (fst (finish res)).
Proof. intros [P K]. apply finish_frame_p; auto. intros c []. Qed.

(* a due list containing a freed record: doTimeOut will fail on it (use after free) *)
Definition Bad (due : list ref) (s : db) : Prop := exists r, In r due /\ aget (store s) r = None.

Lemma Bad_frame due s s' : Bad due s -> nframe s s' -> Bad due s'.
Proof. intros (r & I & G) F. exists r. split; auto. eapply nframe_absent; eauto. Qed.

Lemma Bad_incl due due' s : incl due due' -> Bad due s -> Bad due' s.
Proof. intros I (r & A & G). exists r. split; auto. Qed.

Lemma sweep_t_slot_TW nowv t : (0 <= t <= nowv)%Z -> (nowv < t + 7)%Z ->
  forall fuel s due,
  TA s -> checkT s = (nowv + 1)%Z -> TW due t s ->
  (length (wheel_get (twheel s) (slot_of t)) < fuel)%nat ->
  let '(s', due') := sweep_t_slot fuel s (slot_of t) nowv due in
  (TW due' t s' /\ wheel_get (twheel s') (slot_of t) = []) \/ Bad due' s'.
Proof.
  intros R0 LAG. set (slot := slot_of t).
  induction fuel as [|f IH]; intros s due T CK W LEN; [lia|]. cbn [sweep_t_slot].
  destruct (wheel_get (twheel s) slot) as [|r rest] eqn:WG; [auto|].
  set (s1 := s <| twheel := aset (twheel s) slot rest |>).
  assert (TA s1) as T1.
  { apply (TA_wheel_only s); auto. intros k x I. left. unfold s1 in I. cbn in I. rewrite wheel_get_aset in I.
    destruct (slot =? k) eqn:E; auto. apply N.eqb_eq in E; subst k. rewrite WG. right; auto. }
  assert (wheel_get (twheel s1) slot = rest) as WG1 by (unfold s1; cbn; rewrite wheel_get_aset, N.eqb_refl; auto).
  assert (forall k, k <> slot -> wheel_get (twheel s1) k = wheel_get (twheel s) k) as WO.
  { intros k NE. unfold s1; cbn. rewrite wheel_get_aset. destruct (slot =? k) eqn:E; auto. apply N.eqb_eq in E; congruence. }
  assert (forall x lx, tlive s1 x lx -> x <> r -> where_ok due t s1 x lx) as W1.
  { intros x lx LV NE. destruct (W x lx LV) as [I|[(d & R & I)|(R & I)]]; [left; auto| |right; right; auto].
    right; left. exists d. split; auto. destruct (N.eq_dec (slot_of d) slot) as [E|E].
    - rewrite E in *. rewrite WG1. rewrite WG in I. destruct I; [congruence|auto].
    - rewrite WO; auto. }
  change (getl s1 r) with (getl s r). change (store s1) with (store s).
  destruct (aget (store s) r) as [l|] eqn:G.
  - rewrite (getl_some _ _ _ G). cbv iota.
    destruct (l_timeouted l) eqn:LV; cbn [negb].
    + pose proof (tframe_unref_mgr core_cmd s1 r (l_key l)) as F. cbv zeta in F.
      match type of F with tframe _ _ ?x => specialize (IH x due (TA_frame _ _ T1 F)) end.
      rewrite (tf_checkT _ _ _ F), (tf_wheel _ _ _ F), WG1 in IH. apply IH; auto; [|cbn in LEN; lia].
      eapply TW_frame; [|exact F]. intros x lx LVx. apply W1; auto. intros ->. destruct LVx as [Gx Lx].
      change (store s1) with (store s) in Gx. congruence.
    + destruct (nowv <? l_tT l)%Z eqn:LT.
      * apply Z.ltb_lt in LT.
        set (s2 := updl s1 r (fun l0 => l0 <| l_tcc := (l_tcc l0 + 1) mod 256 |>)).
        assert (cframe s1 s2) as F2 by (apply tframe_updl; updl_side).
        pose proof (TA_frame _ _ T1 F2) as T2.
        set (l2 := l <| l_tcc := (l_tcc l + 1) mod 256 |>).
        assert (aget (store s2) r = Some l2) as G2.
        { unfold s2. rewrite aget_updl, N.eqb_refl. change (store s1) with (store s). rewrite G. reflexivity. }
        assert (tlive s2 r l2) as LV2 by (split; auto).
        assert (checkT s2 = (nowv + 1)%Z) as CK2 by (unfold s2; rewrite updl_checkT; exact CK).
        destruct (TA_add_timeout_live s2 r l2 T2 LV2) as [T3 MONO]. { rewrite CK2. cbn. lia. }
        pose proof (add_timeout_same s2 r) as SB.
        assert (forall x lx, aget (store s2) x = Some lx -> x <> r -> aget (store s1) x = Some lx) as OTH.
        { intros x lx Gx NE. unfold s2 in Gx. rewrite aget_updl in Gx.
          destruct (r =? x) eqn:EQ; auto. apply N.eqb_eq in EQ. congruence. }
        assert (TW due t (add_timeout s2 r) /\ wheel_get (twheel (add_timeout s2 r)) slot = rest) as [W3 WG3].
        { destruct (QUEUE_MAX_WAIT <? l_tcc l2) eqn:TC.
          - destruct (add_timeout_long s2 r l2 G2 TC) as (WH & L & ST). cbv zeta in *.
            assert ((l_tT l2 <? checkT s2)%Z = false) as E by (apply Z.ltb_ge; rewrite CK2; cbn; lia). rewrite E in *.
            split; [|rewrite WH; unfold s2; rewrite updl_twheel; exact WG1].
            intros x lx [Gx Lx]. rewrite ST in Gx. destruct (r =? x) eqn:EQ.
            + apply N.eqb_eq in EQ; subst x. injection Gx as <-. right; right. cbn. split; [lia|].
              rewrite L. apply in_wheel_push. right; auto.
            + apply N.eqb_neq in EQ.
              assert (tlive s1 x lx) as LX1 by (split; auto).
              destruct (W1 x lx LX1 ltac:(auto)) as [I|[(d & R & I)|(R & I)]]; [left; auto| |].
              * right; left. exists d. split; auto. rewrite WH. unfold s2. rewrite updl_twheel. auto.
              * right; right. split; auto. rewrite L. apply in_wheel_push. left. unfold s2. rewrite updl_tlong. auto.
          - destruct (add_timeout_short s2 r l2 G2 TC) as (WH & L & ST).
            destruct (tslot_time_range (checkT s2) l2) as [R1 R2]; auto. { rewrite CK2. cbn. lia. }
            rewrite CK2 in *.
            assert (slot_of (tslot_time (nowv + 1) l2) <> slot) as NS by (apply slot_of_neq; lia).
            split.
            + intros x lx [Gx Lx]. rewrite ST in Gx. destruct (r =? x) eqn:EQ.
              * apply N.eqb_eq in EQ; subst x. injection Gx as <-. right; left.
                exists (tslot_time (nowv + 1) l2). cbn. split; [cbn in R1; lia|].
                rewrite WH. apply in_wheel_push. right; auto.
              * apply N.eqb_neq in EQ.
                assert (tlive s1 x lx) as LX1 by (split; auto).
                destruct (W1 x lx LX1 ltac:(auto)) as [I|[(d & R & I)|(R & I)]]; [left; auto| |].
                -- right; left. exists d. split; auto. rewrite WH. apply in_wheel_push. left.
                   unfold s2. rewrite updl_twheel. auto.
                -- right; right. split; auto. rewrite L. unfold s2. rewrite updl_tlong. auto.
            + rewrite WH, wheel_get_push. destruct (_ =? slot) eqn:EQ; [apply N.eqb_eq in EQ; congruence|].
              unfold s2. rewrite updl_twheel. exact WG1. }
        specialize (IH (add_timeout s2 r) due T3).
        rewrite (sb_checkT _ _ SB), WG3 in IH. apply IH; auto. cbn in LEN; lia.
      * apply Z.ltb_ge in LT.
        specialize (IH s1 (due ++ [r]) T1 CK). rewrite WG1 in IH. apply IH; [|cbn in LEN; lia].
        intros x lx LVx. destruct (N.eq_dec x r) as [->|NE].
        -- left. apply in_app_iff. right; left; auto.
        -- destruct (W1 x lx LVx NE) as [I|[X|X]]; [left; apply in_app_iff; auto|right; left; auto|right; right; auto].
  - cbv iota. right. exists r. split; [apply in_app_iff; right; left; auto|exact G].
Qed.

(* the due list only grows *)
Lemma sweep_t_slot_due nowv slot : forall fuel s due,
  incl due (snd (sweep_t_slot fuel s slot nowv due)).
Proof.
  induction fuel as [|f IH]; intros s due; cbn [sweep_t_slot]; [apply incl_refl|].
  destruct (wheel_get (twheel s) slot) as [|r rest]; [apply incl_refl|].
  repeat match goal with |- context [if ?b then _ else _] => destruct b end; cbn [snd];
    try apply IH; try (eapply incl_tran; [|apply IH]; apply incl_appl, incl_refl).
  apply incl_appl, incl_refl.
Qed.

Lemma sweep_long_nframe : forall items s due,
  nframe s (fst (sweep_long s items true due)) /\ incl due (snd (sweep_long s items true due)).
Proof.
  induction items as [|r rest IH]; intros s due; cbn [sweep_long]; [split; [apply tframe_refl|apply incl_refl]|].
  set (s1 := updl s r (fun l => l <| l_long := false |>)).
  assert (nframe s s1) as F1 by (apply tframe_updl; updl_side).
  destruct (negb (l_timeouted (getl s1 r))).
  - destruct (IH s1 (due ++ [r])) as [A B]. split; [eapply tframe_trans; eauto|].
    eapply incl_tran; [|exact B]. apply incl_appl, incl_refl.
  - pose proof (tframe_unref_mgr NoC s1 r (l_key (getl s1 r))) as F. cbv zeta in F.
    match type of F with tframe _ _ ?x => destruct (IH x due) as [A B] end.
    split; auto. eapply tframe_trans; [|exact A]. eapply tframe_trans; eauto.
Qed.

Lemma sweep_long_TW f : forall items s due,
  TW (due ++ items) f s ->
  let '(s', due') := sweep_long s items true due in TW due' f s'.
Proof.
  induction items as [|r rest IH]; intros s due W; cbn [sweep_long].
  - rewrite app_nil_r in W. exact W.
  - set (s1 := updl s r (fun l => l <| l_long := false |>)).
    assert (cframe s s1) as F1 by (apply tframe_updl; updl_side).
    pose proof (TW_frame _ _ _ _ W F1) as W1.
    destruct (l_timeouted (getl s1 r)) eqn:LV; cbn [negb].
    + pose proof (tframe_unref_mgr core_cmd s1 r (l_key (getl s1 r))) as F. cbv zeta in F.
      match type of F with tframe _ _ ?x => specialize (IH x due) end. apply IH.
      eapply TW_frame; [|exact F]. intros x lx LVx.
      destruct (W1 x lx LVx) as [I|X]; [|right; auto]. left.
      apply in_app_iff in I. apply in_app_iff. destruct I as [I|[<-|I]]; auto.
      exfalso. destruct LVx as [Gx Lx]. rewrite (getl_some _ _ _ Gx) in LV. congruence.
    + apply (IH s1 (due ++ [r])). eapply TW_weaken; [|exact W1].
      intros x I. rewrite <- app_assoc. exact I.
Qed.

Lemma lkey_inj a b : (0 <= a)%Z -> (0 <= b)%Z -> lkey a = lkey b -> a = b.
Proof. unfold lkey. intros. lia. Qed.

Lemma collect_timeouts_TW s t nowv :
  (0 <= t <= nowv)%Z -> (nowv < t + 7)%Z -> TA s -> checkT s = (nowv + 1)%Z -> TW [] t s ->
  let '(s', due) := collect_timeouts s t nowv in TW due (t + 1) s' \/ Bad due s'.
Proof.
  intros R LAG T CK W. unfold collect_timeouts.
  pose proof (sweep_t_slot_TA nowv (slot_of t) (10 * length (wheel_get (twheel s) (slot_of t)) + 10) s [] T CK) as A.
  pose proof (sweep_t_slot_TW nowv t R LAG (10 * length (wheel_get (twheel s) (slot_of t)) + 10) s [] T CK W ltac:(lia)) as B.
  destruct (sweep_t_slot _ s (slot_of t) nowv []) as [s1 due1].
  destruct A as (T1 & CK1 & N1 & D1). { intros r l []. }
  destruct (aget (tlong s1) (lkey t)) as [items|] eqn:G.
  - set (s2 := s1 <| tlong := adel (tlong s1) (lkey t) |>).
    destruct (sweep_long_nframe items s2 due1) as [NF INC].
    pose proof (sweep_long_TW (t + 1) items s2 due1) as X.
    destruct (sweep_long s2 items true due1) as [s3 due3]. cbn [fst snd] in *.
    destruct B as [[W1 EMP]|BD].
    + left. apply X.
      intros x lx LVx. destruct (W1 x lx LVx) as [I|[(d & RR & I)|(RR & I)]].
      * left. apply in_app_iff; auto.
      * right; left. exists d. split; auto. assert (d <> t); [|lia]. intros ->. rewrite EMP in I. destruct I.
      * destruct (Z.eq_dec (l_tT lx) t) as [E|NE].
        -- left. apply in_app_iff. right. rewrite E in I. unfold wheel_get in I. rewrite G in I. exact I.
        -- right; right. split; [lia|]. unfold s2. cbn. rewrite wheel_get_adel.
           destruct (lkey t =? lkey (l_tT lx)) eqn:EQ; auto. apply N.eqb_eq in EQ.
           apply lkey_inj in EQ; lia.
    + right. eapply Bad_incl; [exact INC|]. eapply Bad_frame; [|exact NF]. exact BD.
  - destruct B as [[W1 EMP]|BD]; [left|right; auto].
    intros x lx LVx. destruct (W1 x lx LVx) as [I|[(d & RR & I)|(RR & I)]].
    + left; auto.
    + right; left. exists d. split; auto. assert (d <> t); [|lia]. intros ->. rewrite EMP in I. destruct I.
    + right; right. split; auto. assert (l_tT lx <> t); [|lia]. intros E. rewrite E in I. unfold wheel_get in I.
      rewrite G in I. destruct I.
Qed.

(* firing the due list *)
Lemma finish_do_timeout_dead s r : PK s -> tdead (fst (finish (do_timeout s r))) r.
Proof.
  intros P.
  pose proof (do_timeout_kills core_cmd s r) as D.
  pose proof (do_timeout_frame core_cmd s r) as F0.
  pose proof (core_finish_frame (fst (fst (do_timeout s r))) (do_timeout s r)) as F.
  destruct (PK_frame _ _ P F0) as [P1 K1]. specialize (F P1 K1 (tframe_refl _ _)).
  eapply tframe_dead; eauto.
Qed.

Lemma fire_all_TW f : forall due s, PK s -> TW due f s -> TW [] f (fst (fire_all do_timeout s due)).
Proof.
  induction due as [|r rest IH]; intros s P W; cbn [fire_all]; [exact W|].
  pose proof (finish_do_timeout_dead s r P) as D.
  pose proof (core_finish_frame s (do_timeout s r) (proj1 P) (proj2 P) (do_timeout_frame core_cmd s r)) as F.
  destruct (finish (do_timeout s r)) as [s1 e1]. cbn [fst] in *.
  specialize (IH s1 (PK_frame _ _ P F)). destruct (fire_all do_timeout s1 rest) as [s2 e2]. cbn [fst] in *.
  apply IH. intros x lx LVx. destruct (TW_frame _ _ _ _ W F x lx LVx) as [[<-|I]|X]; [|left; auto|right; auto].
  exfalso. destruct LVx as [Gx Lx]. rewrite (D _ Gx) in Lx. discriminate.
Qed.

Definition has_panic (ev : list event) : Prop := exists site, In (EPanic site) ev.

Lemma fire_all_bad : forall due s, PK s -> Bad due s -> has_panic (snd (fire_all do_timeout s due)).
Proof.
  induction due as [|r rest IH]; intros s P (x & I & G); [destruct I|]. cbn [fire_all].
  destruct (N.eq_dec r x) as [->|NE].
  - assert (finish (do_timeout s x) = (s, [EPanic "uaf:doTimeOut"%string])) as E.
    { unfold do_timeout. rewrite G. reflexivity. }
    rewrite E. destruct (fire_all do_timeout s rest) as [s2 e2]. cbn [snd]. eexists. left. reflexivity.
  - destruct I as [->|I]; [congruence|].
    pose proof (nfinish_frame s (do_timeout s r) P (do_timeout_frame NoC s r)) as F.
    destruct (finish (do_timeout s r)) as [s1 e1]. cbn [fst] in F.
    specialize (IH s1 (PK_frame _ _ P (nframe_cframe _ _ F))).
    destruct (fire_all do_timeout s1 rest) as [s2 e2]. cbn [snd] in *.
    destruct IH as (site & J). { exists x. split; auto. eapply nframe_absent; eauto. }
    exists site. apply in_app_iff. right; auto.
Qed.

(* the loop over the elapsed seconds *)
Lemma sweep_t_secs_TW nowv : forall n s t,
  TA s -> checkT s = (nowv + 1)%Z -> (0 <= t)%Z -> (t + Z.of_nat n = nowv + 1)%Z -> (nowv < t + 7)%Z ->
  TW [] t s ->
  TW [] (nowv + 1) (fst (sweep_t_secs n s t nowv)) \/ has_panic (snd (sweep_t_secs n s t nowv)).
Proof.
  induction n as [|n IH]; intros s t T CK T0 TN LAG W; cbn [sweep_t_secs].
  - left. cbn. replace (nowv + 1)%Z with t by lia. exact W.
  - pose proof (collect_timeouts_TA s t nowv T CK ltac:(lia)) as A.
    pose proof (collect_timeouts_TW s t nowv ltac:(lia) LAG T CK W) as B.
    destruct (collect_timeouts s t nowv) as [s1 due]. destruct A as (T1 & CK1 & N1 & D1).
    pose proof (fire_all_TA due s1 T1) as X. cbv zeta in X. destruct X as (T2 & CK2 & N2).
    pose proof (fire_all_TW (t + 1) due s1 (TA_PK _ T1)) as Y.
    pose proof (fire_all_bad due s1 (TA_PK _ T1)) as Z.
    destruct (fire_all do_timeout s1 due) as [s2 e2]. cbn [fst snd] in *.
    destruct B as [W1|BD].
    + specialize (IH s2 (t + 1)%Z T2 ltac:(congruence) ltac:(lia) ltac:(lia) ltac:(lia) (Y W1)).
      destruct (sweep_t_secs n s2 (t + 1) nowv) as [s3 e3]. cbn [fst snd] in *.
      destruct IH as [|(site & J)]; auto. right. exists site. apply in_app_iff; auto.
    + destruct (Z BD) as (site & J). destruct (sweep_t_secs n s2 (t + 1) nowv) as [s3 e3]. cbn [snd].
      right. exists site. apply in_app_iff; auto.
Qed.

(* C05 (b): after a timeout sweep that lags by fewer than 7 seconds and does not crash on a freed record, every live
   waiter is stored for a second > now; in particular no live waiter has a deadline that has been reached. *)
Theorem sweep_timeouts_no_loss s :
  TA s -> TW [] (checkT s) s -> (now s < checkT s + 7)%Z -> ~ has_panic (snd (sweep_timeouts s)) ->
  TW [] (now s + 1) (fst (sweep_timeouts s))
  /\ forall r l, tlive (fst (sweep_timeouts s)) r l -> (now s < l_tT l)%Z.
Proof.
  intros T W LAG NP. unfold sweep_timeouts in *.
  pose proof (ta_chk _ T) as CH. pose proof (ta_chk0 _ T) as C0.
  destruct (sweep_t_secs_TW (now s) (Z.to_nat (now s + 1 - checkT s)) (s <| checkT := (now s + 1)%Z |>) (checkT s)) as [X|X];
    auto; try lia.
  - apply TA_set_checkT; auto.
  - split; auto. intros r l LV. destruct (X r l LV) as [[]|[(d & R & _)|(R & _)]]; lia.
  - exfalso. apply NP. exact X.
Qed.
