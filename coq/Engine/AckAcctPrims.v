(* FORK of Engine/InvPrims.v replayed on the definitions of AckAcctDef.v (require-ack locks, run class ack_core); changes are marked ACK or concern dead_waiter / the acknowledgement reference in g_xe. *)
(* Invariant proof, part 2: elementary state updates and the primitives of Queues.v / Timers.v. *)
From Coq Require Import String ZifyN ZifyBool ZifyNat Permutation.
From Slock Require Import Engine.Types Engine.Queues Engine.Timers Engine.Engine Engine.Engine2 Engine.InvDef Engine.InvBase Engine.AckAcctDef.
Open Scope N_scope.

Ltac gs := cbn [g_xt g_xe g_pend g_owe g_ph g_pre g_dk g_lk g_pw g_dl g_cl g_cw set eta_ghost] in *.

Definition liveb (l : lockrec) : Z := if dead_waiter l then 0%Z else 1%Z.  (* ACK *)

Lemma key_cnt_aset k st r l l' : awf st -> aget st r = Some l -> l_key l' = l_key l ->
  key_cnt k (aset st r l') = key_cnt k st.
Proof.
  intros W H E.
  pose proof (asum_aset (fun l => if l_key l =? k then 1%nat else O) st r l' W) as A. unfold key_cnt.
  rewrite H in A. unfold oget in A. cbv beta in A. rewrite E in A. lia.
Qed.
Lemma live_cnt_aset st r l l' : awf st -> aget st r = Some l ->
  (Z.of_nat (live_cnt (aset st r l')) = Z.of_nat (live_cnt st) + liveb l' - liveb l)%Z.
Proof.
  intros W H.
  pose proof (asum_aset (fun l => if dead_waiter l then O else 1%nat) st r l' W) as A. unfold live_cnt.
  rewrite H in A. unfold oget in A. cbv beta in A. unfold liveb. destruct (dead_waiter l), (dead_waiter l'); cbv beta iota in A |- *; lia.
Qed.

(* holders / wait lists of a key only contain records of that key *)
Lemma holders_key s g k m r l : GInv s g -> aget (mgrs s) k = Some m -> aget (store s) r = Some l ->
  l_key l <> k -> occ r (holders m ++ m_wq m) = O.
Proof.
  intros G Hm Hr Hk. apply occ_notin. intros Hi. apply Hk.
  eapply (mo_key _ _ _ _ (gi_mgr _ _ G _ _ Hm)); eauto.
Qed.

Lemma holders_key_h s g k m r l : GInv s g -> aget (mgrs s) k = Some m -> aget (store s) r = Some l ->
  l_key l <> k -> occ r (holders m) = O /\ occ r (m_wq m) = O.
Proof.
  intros G Hm Hr Hk. pose proof (holders_key s g k m r l G Hm Hr Hk) as H. rewrite occ_app in H. lia.
Qed.

Lemma phk_eq g g' k : g_ph g' = g_ph g -> g_dk g' = g_dk g -> phk g' k = phk g k.
Proof. unfold phk. intros -> ->. reflexivity. Qed.
Lemma lkk_eq g g' k : g_lk g' = g_lk g -> g_dk g' = g_dk g -> lkk g' k = lkk g k.
Proof. unfold lkk. intros -> ->. reflexivity. Qed.

(* ---------------------------------------------------------------- master lemma: one record is rewritten *)
Lemma setl_ginv s g g' r l l' :
  GInv s g -> aget (store s) r = Some l -> l_key l' = l_key l ->
  g_dk g' = g_dk g -> g_lk g' = g_lk g -> g_pw g' = g_pw g -> g_cl g' = g_cl g ->
  (forall r0, r0 <> r -> occ r0 (g_xt g') = occ r0 (g_xt g) /\ occ r0 (g_xe g') = occ r0 (g_xe g)
                         /\ occ r0 (g_ph g') = occ r0 (g_ph g)
                         /\ occ r0 (g_owe g') = occ r0 (g_owe g) /\ occ r0 (g_pre g') = occ r0 (g_pre g)
                         /\ (occ r0 (g_pend g') = O -> occ r0 (g_pend g) = O)) ->
  rec_ok (setl s r l') g' r l' ->
  (g_dl g' = g_dl g + (if N.eqb (l_key l) (g_dk g)
                       then Z.of_nat (occ r (holders (getm s (l_key l)))) * (Z.of_N (l_locked l') - Z.of_N (l_locked l))
                       else 0))%Z ->
  ((l_key l =? g_dk g) = false -> occ r (holders (getm s (l_key l))) = O \/ l_locked l' = l_locked l) ->
  (lkk g (l_key l) = false -> 0 < l_locked l -> 0 < l_locked l' /\ c_lockid (l_cmd l') = c_lockid (l_cmd l)) ->
  (In r (g_ph g') -> (g_pw g = false -> l_locked l' = 0) /\ dead_waiter l' = true) ->
  (occ r (g_ph g') <= occ r (phl s g))%nat ->
  (g_cw g' = g_cw g + liveb l' - liveb l)%Z ->
  GInv (setl s r l') g'.
Proof.
  intros G Hr Hk Hdk Hlk Hpw Hcl Hoth Hrec Hdl Hdl2 Hcur Hphz Hphle Hcw.
  assert (Hgl : forall x, x <> r -> getl (setl s r l') x = getl s x).
  { intros x Hx. rewrite getl_setl. destruct (r =? x) eqn:E; auto. apply N.eqb_eq in E. congruence. }
  assert (Hglr : getl (setl s r l') r = l') by (rewrite getl_setl, N.eqb_refl; auto).
  pose proof (getl_some _ _ _ Hr) as Hglo.
  assert (Hphk : forall k r0, r0 <> r -> occ r0 (phk g' k) = occ r0 (phk g k)).
  { intros k r0 H0. unfold phk. rewrite Hdk. destruct (k =? g_dk g); auto. apply (Hoth r0 H0). }
  constructor.
  - apply (gi_wf_m _ _ G).
  - rewrite store_setl. apply awf_aset, (gi_wf_s _ _ G).
  - apply (gi_wf_tw _ _ G).
  - apply (gi_wf_tl _ _ G).
  - apply (gi_wf_ew _ _ G).
  - apply (gi_wf_el _ _ G).
  - rewrite store_setl. erewrite length_aset_in; eauto; [apply (gi_len _ _ G)|apply (gi_wf_s _ _ G)].
  - intros r0 l0 H0. rewrite store_setl, aget_aset in H0. destruct (r =? r0) eqn:E.
    + apply N.eqb_eq in E; subst r0. inversion H0; subst l0. exact Hrec.
    + apply N.eqb_neq in E. assert (E' : r0 <> r) by congruence.
      destruct (gi_rec _ _ G r0 l0 H0) as [A1 A2 A3 A4 A5 A6 A7 A8 A9 A10 A11].
      destruct (Hoth r0 E') as [O1 [O2 [O3 [O4 [O5 O6]]]]].
      unfold tcount, ecount in *. rewrite <- O1, <- O2, <- O3, <- O4, <- O5 in *.
      constructor; auto.
  - intros k m Hm. change (mgrs (setl s r l')) with (mgrs s) in Hm.
    destruct (gi_mgr _ _ G k m Hm) as [B1 B2 B3 B4 B5 B6 B7 B8 B9 Bb B10 Bc].
    constructor; auto.
    + intros r0 H0. rewrite store_setl, aget_aset. destruct (r =? r0) eqn:E; [discriminate|].
      apply N.eqb_neq in E. apply B1. rewrite <- Hphk by congruence. auto.
    + intros r0 l0 Hi H0. rewrite store_setl, aget_aset in H0. destruct (r =? r0) eqn:E.
      * apply N.eqb_eq in E; subst r0. inversion H0; subst l0. rewrite Hk. eapply B2; eauto.
      * eapply B2; eauto.
    + (* sum *)
      pose proof (sumdepth_upd s (setl s r l') r (holders m) (fun x Hx => f_equal l_locked (Hgl x Hx))) as SU. rewrite Hglr, Hglo in SU.
      unfold dlk in *. rewrite Hdk.
      destruct (N.eq_dec (l_key l) k) as [Ek|Ek].
      * subst k. rewrite (getm_some _ _ _ Hm) in *. destruct (l_key l =? g_dk g) eqn:Ed.
        -- lia.
        -- destruct (Hdl2 eq_refl) as [Z0|Z0]; [rewrite Z0 in SU|rewrite Z0 in SU]; lia.
      * destruct (holders_key_h s g k m r l G Hm Hr Ek) as [Z0 _]. rewrite Z0 in SU.
        destruct (k =? g_dk g) eqn:Ed.
        -- apply N.eqb_eq in Ed. destruct (l_key l =? g_dk g) eqn:Ed2; [apply N.eqb_eq in Ed2; congruence|lia].
        -- lia.
    + intros Hl c Hc. rewrite (lkk_eq g g') in Hl by auto. specialize (B7 Hl c Hc).
      destruct (N.eq_dec c r) as [Ec|Ec]; [|rewrite Hgl; auto].
      subst c. rewrite Hglr. rewrite Hglo in B7.
      assert (Ek : l_key l = k).
      { eapply B2; eauto. apply in_or_app. left. unfold holders, cur_list. rewrite Hc. simpl. auto. }
      rewrite Ek in Hcur. apply Hcur; auto.
    + intros Hl. rewrite (lkk_eq g g') in Hl by auto. auto.
    + rewrite store_setl. rewrite (key_cnt_aset k (store s) r l l'); auto. apply (gi_wf_s _ _ G).
    + intros Hl q Hq. rewrite (lkk_eq g g') in Hl by auto. specialize (B10 Hl q Hq).
      intros items mp Hs id r1 H1. destruct (B10 items mp Hs id r1 H1) as [C1 [C2 C3]].
      split; auto. destruct (N.eq_dec r1 r) as [Ec|Ec]; [|rewrite Hgl; auto].
      subst r1. rewrite Hglr. rewrite Hglo in C2, C3.
      assert (Ek : l_key l = k).
      { eapply B2; eauto. apply in_or_app. left. unfold holders, m_hq. rewrite Hq. unfold hq_items. rewrite Hs.
        apply in_or_app. right. apply in_or_app. right. auto. }
      rewrite Ek in Hcur. destruct (Hcur Hl C2) as [D1 D2]. split; auto. congruence.
  - intros r0 H0. rewrite store_setl, aget_aset in H0. destruct (r =? r0) eqn:E; [discriminate|]. apply N.eqb_neq in E.
    pose proof (gi_str _ _ G r0 H0) as S0. unfold tcount, ecount in *.
    destruct (Hoth r0 (not_eq_sym E)) as [O1 [O2 _]]. rewrite O1, O2. exact S0.
  - intros r0 H0. rewrite Hpw. destruct (N.eq_dec r0 r) as [Ec|Ec].
    + subst r0. rewrite Hglr. auto.
    + rewrite Hgl; auto. apply (gi_ph _ _ G). apply occ_In. apply occ_In in H0.
      destruct (Hoth r0 Ec) as [_ [_ [O3 _]]]. lia.
  - intros r0. assert (Hpl : phl (setl s r l') g' = phl s g) by (unfold phl; rewrite Hpw, Hdk; reflexivity). rewrite Hpl.
    destruct (N.eq_dec r0 r) as [Ec|Ec]; [subst; auto|].
    destruct (Hoth r0 Ec) as [_ [_ [O3 _]]]. rewrite O3. apply (gi_phle _ _ G).
  - change (cnt (setl s r l')) with (cnt s). change (mgrs (setl s r l')) with (mgrs s). rewrite Hcl. apply (gi_nlocked _ _ G).
  - change (cnt (setl s r l')) with (cnt s). rewrite store_setl.
    rewrite (live_cnt_aset (store s) r l l'); auto; [|apply (gi_wf_s _ _ G)].
    pose proof (gi_nwait _ _ G). lia.
  - apply (gi_nkey _ _ G).
Qed.

(* ---------------------------------------------------------------- master lemma: one manager is rewritten *)
Lemma getm_setm_same s k m : getm (setm s k m) k = m.
Proof. rewrite getm_setm, N.eqb_refl. reflexivity. Qed.
Lemma getm_setm_other s k m k' : k <> k' -> getm (setm s k m) k' = getm s k'.
Proof. intros H. rewrite getm_setm. destruct (k =? k') eqn:E; auto. apply N.eqb_eq in E. congruence. Qed.

Lemma asumN_aset_in {V} (f : V -> N) m k v v' : awf m -> aget m k = Some v ->
  (Z.of_N (asumN f (aset m k v')) = Z.of_N (asumN f m) + Z.of_N (f v') - Z.of_N (f v))%Z.
Proof. intros W H. pose proof (asumN_aset f m k v' W) as A. rewrite H in A. unfold ogetN in A. lia. Qed.

Lemma setm_ginv s g g' k m m' :
  GInv s g -> aget (mgrs s) k = Some m ->
  g_xt g' = g_xt g -> g_xe g' = g_xe g -> g_pend g' = g_pend g -> g_owe g' = g_owe g -> g_dk g' = g_dk g ->
  g_cw g' = g_cw g ->
  (k <> g_dk g -> g_ph g' = g_ph g /\ g_pre g' = g_pre g /\ g_lk g' = g_lk g /\ g_dl g' = g_dl g /\ g_pw g' = g_pw g) ->
  mgr_ok (setm s k m') g' k m' ->
  (forall r0 l0, aget (store s) r0 = Some l0 -> l_key l0 = k ->
     (occ r0 (holders m') + occ r0 (m_wq m') + occ r0 (g_pre g') + occ r0 (g_ph g)
      = occ r0 (holders m) + occ r0 (m_wq m) + occ r0 (g_pre g) + occ r0 (g_ph g'))%nat
     /\ (dead_waiter l0 = false -> occ r0 (holders m') = O /\ occ r0 (m_wq m') = 1%nat)
     /\ (0 < l_locked l0 -> occ r0 (g_pre g') = O -> occ r0 (holders m') = 1%nat)) ->
  (forall r0 l0, aget (store s) r0 = Some l0 -> l_key l0 <> k ->
     (occ r0 (g_pre g') + occ r0 (g_ph g) = occ r0 (g_pre g) + occ r0 (g_ph g'))%nat
     /\ (occ r0 (g_pre g') = O -> occ r0 (g_pre g) = O)) ->
  (g_cl g' = g_cl g + Z.of_N (m_locked m') - Z.of_N (m_locked m))%Z ->
  (forall r0, In r0 (g_ph g') -> (g_pw g' = false -> l_locked (getl s r0) = 0) /\ dead_waiter (getl s r0) = true) ->
  (k = g_dk g -> forall r0, (occ r0 (g_ph g') <= occ r0 (if g_pw g' then m_wq m' else holders m'))%nat) ->
  GInv (setm s k m') g'.
Proof.
  intros G Hm Hxt Hxe Hpend Howe Hdk Hcw Hne Hmo Hsame Hoth Hcl Hphz Hphle.
  constructor.
  - rewrite mgrs_setm. apply awf_aset, (gi_wf_m _ _ G).
  - apply (gi_wf_s _ _ G).
  - apply (gi_wf_tw _ _ G).
  - apply (gi_wf_tl _ _ G).
  - apply (gi_wf_ew _ _ G).
  - apply (gi_wf_el _ _ G).
  - apply (gi_len _ _ G).
  - intros r0 l0 H0. change (store (setm s k m')) with (store s) in H0.
    destruct (gi_rec _ _ G r0 l0 H0) as [A1 A2 A3 A4 A5 A6 A7 A8 A9 A10 A11].
    unfold tcount, ecount in *.
    destruct (N.eq_dec (l_key l0) k) as [Ek|Ek].
    + destruct (Hsame r0 l0 H0 Ek) as [S1 [S2 S3]]. rewrite Ek in *.
      rewrite (getm_some _ _ _ Hm) in *.
      constructor; unfold tcount, ecount; rewrite ?Ek, ?getm_setm_same, ?Hxt, ?Hxe, ?Hpend, ?Howe; auto.
      * rewrite mgrs_setm, aget_aset_same. discriminate.
      * change (twheel (setm s k m')) with (twheel s). change (tlong (setm s k m')) with (tlong s).
        change (ewheel (setm s k m')) with (ewheel s). change (elong (setm s k m')) with (elong s). lia.
      * intros Ht. destruct (A6 Ht) as [_ [Q2 [Q3 _]]]. destruct (S2 Ht). auto.
    + destruct (Hoth r0 l0 H0 Ek) as [S1 S2].
      assert (Ek' : k <> l_key l0) by congruence.
      constructor; unfold tcount, ecount; rewrite ?getm_setm_other, ?Hxt, ?Hxe, ?Hpend, ?Howe by auto; auto.
      * rewrite mgrs_setm, aget_aset_other; auto.
      * change (twheel (setm s k m')) with (twheel s). change (tlong (setm s k m')) with (tlong s).
        change (ewheel (setm s k m')) with (ewheel s). change (elong (setm s k m')) with (elong s). lia.
  - intros k0 m0 H0. rewrite mgrs_setm, aget_aset in H0. destruct (k =? k0) eqn:E.
    + apply N.eqb_eq in E; subst k0. inversion H0; subst m0. exact Hmo.
    + apply N.eqb_neq in E.
      destruct (gi_mgr _ _ G k0 m0 H0) as [B1 B2 B3 B4 B5 B6 B7 B8 B9 Bb B10 Bc].
      assert (P1 : phk g' k0 = phk g k0).
      { unfold phk. rewrite Hdk. destruct (k0 =? g_dk g) eqn:E2; auto. apply N.eqb_eq in E2.
        destruct Hne as [-> _]; congruence. }
      assert (P2 : dlk g' k0 = dlk g k0).
      { unfold dlk. rewrite Hdk. destruct (k0 =? g_dk g) eqn:E2; auto. apply N.eqb_eq in E2.
        destruct Hne as [_ [_ [_ [-> _]]]]; congruence. }
      assert (P3 : lkk g' k0 = lkk g k0).
      { unfold lkk. rewrite Hdk. destruct (k0 =? g_dk g) eqn:E2; auto. apply N.eqb_eq in E2.
        destruct Hne as [_ [_ [-> _]]]; congruence. }
      constructor; rewrite ?P1, ?P2, ?P3; auto.
  - intros r0 H0. change (store (setm s k m')) with (store s) in H0.
    pose proof (gi_str _ _ G r0 H0) as S0. unfold tcount, ecount in *. rewrite Hxt, Hxe. exact S0.
  - intros r0 H0. change (getl (setm s k m') r0) with (getl s r0). auto.
  - intros r0. unfold phl. rewrite Hdk. destruct (N.eq_dec k (g_dk g)) as [E|E].
    + rewrite <- E, getm_setm_same. auto.
    + rewrite getm_setm_other by auto. destruct (Hne E) as [-> [_ [_ [_ ->]]]]. apply (gi_phle _ _ G).
  - change (cnt (setm s k m')) with (cnt s). rewrite mgrs_setm. unfold sum_locked.
    rewrite (asumN_aset_in m_locked (mgrs s) k m m'); auto; [|apply (gi_wf_m _ _ G)].
    pose proof (gi_nlocked _ _ G) as P. unfold sum_locked in P. lia.
  - change (cnt (setm s k m')) with (cnt s). change (store (setm s k m')) with (store s). rewrite Hcw. apply (gi_nwait _ _ G).
  - change (cnt (setm s k m')) with (cnt s). rewrite mgrs_setm.
    erewrite length_aset_in; eauto; [apply (gi_nkey _ _ G)|apply (gi_wf_m _ _ G)].
Qed.

(* ---------------------------------------------------------------- the invariant only reads these components *)
Lemma ginv_obs s s' g g' :
  GInv s g -> mgrs s' = mgrs s -> store s' = store s -> next s' = next s ->
  twheel s' = twheel s -> tlong s' = tlong s -> ewheel s' = ewheel s -> elong s' = elong s ->
  g_xt g' = g_xt g -> g_xe g' = g_xe g -> g_pend g' = g_pend g -> g_owe g' = g_owe g -> g_ph g' = g_ph g ->
  g_pre g' = g_pre g -> g_dk g' = g_dk g -> g_lk g' = g_lk g -> g_pw g' = g_pw g -> g_dl g' = g_dl g ->
  (n_locked (cnt s') + g_cl g' = n_locked (cnt s) + g_cl g)%Z ->
  (n_wait (cnt s') + g_cw g' = n_wait (cnt s) + g_cw g)%Z ->
  n_key (cnt s') = n_key (cnt s) ->
  GInv s' g'.
Proof.
  intros G E1 E2 E3 E4 E5 E6 E7 F1 F2 F3 F4 F5 F6 F7 F8 Fpw F9 C1 C2 C3.
  assert (Hgm : forall k, getm s' k = getm s k) by (intros; unfold getm; rewrite E1; auto).
  assert (Hgl : forall r, getl s' r = getl s r) by (intros; unfold getl; rewrite E2; auto).
  assert (Htc : forall r, tcount s' g' r = tcount s g r) by (intros; unfold tcount; rewrite E4, E5, F1; auto).
  assert (Hec : forall r, ecount s' g' r = ecount s g r) by (intros; unfold ecount; rewrite E6, E7, F2; auto).
  assert (Hsd : forall l, sumdepth s' l = sumdepth s l) by (intros; apply sumdepth_ext; intros; rewrite Hgl; auto).
  destruct G as [W1 W2 W3 W4 W5 W6 L R M S P PL N1 N2 N3].
  constructor; rewrite ?E1, ?E2, ?E3, ?E4, ?E5, ?E6, ?E7; auto.
  - intros r l H. destruct (R r l H) as [A1 A2 A3 A4 A5 A6 A7 A8 A9 A10 A11].
    constructor; rewrite ?Hgm, ?Htc, ?Hec, ?E1, ?E3, ?E5, ?E7, ?F2, ?F3, ?F4, ?F5, ?F6; auto.
  - intros k m H. destruct (M k m H) as [B1 B2 B3 B4 B5 B6 B7 B8 B9 Bb B10 Bc].
    assert (P1 : phk g' k = phk g k) by (apply phk_eq; auto).
    assert (P3 : lkk g' k = lkk g k) by (apply lkk_eq; auto).
    assert (P2 : dlk g' k = dlk g k) by (unfold dlk; rewrite F7, F9; auto).
    constructor; rewrite ?P1, ?P2, ?P3, ?Hsd, ?E2, ?E3; auto.
    + intros Hl c Hc. rewrite Hgl. auto.
    + intros Hl q Hq items mp Hs id r H1. rewrite Hgl. eapply B10; eauto.
  - intros r H. rewrite Htc, Hec. auto.
  - intros r H. rewrite Hgl, Fpw. apply P. rewrite <- F5. auto.
  - intros r. unfold phl. rewrite F5, F7, Fpw, Hgm. apply PL.
  - lia.
  - lia.
  - lia.
Qed.

Lemma updc_ginv s g f cl' cw' :
  GInv s g ->
  (n_locked (f (cnt s)) + cl' = n_locked (cnt s) + g_cl g)%Z ->
  (n_wait (f (cnt s)) + cw' = n_wait (cnt s) + g_cw g)%Z ->
  n_key (f (cnt s)) = n_key (cnt s) ->
  GInv (updc s f) (g <| g_cl := cl' |> <| g_cw := cw' |>).
Proof. intros G H1 H2 H3. eapply ginv_obs; eauto. Qed.

(* ---------------------------------------------------------------- master lemma: wheels / long tables are rewritten *)
Lemma wheels_ginv s s' g g' :
  GInv s g -> mgrs s' = mgrs s -> store s' = store s -> next s' = next s -> cnt s' = cnt s ->
  awf (twheel s') -> awf (tlong s') -> awf (ewheel s') -> awf (elong s') ->
  g_ph g' = g_ph g -> g_dk g' = g_dk g -> g_lk g' = g_lk g -> g_pw g' = g_pw g -> g_dl g' = g_dl g -> g_cl g' = g_cl g -> g_cw g' = g_cw g ->
  (forall r0 l0, aget (store s) r0 = Some l0 -> l_ack l0 <> 255 -> occ r0 (g_xe g') = occ r0 (g_xe g)) ->  (* ACK *)
  (forall r0 l0, aget (store s) r0 = Some l0 ->
     (tcount s' g' r0 + ecount s' g' r0 + occ r0 (g_pre g') + occ r0 (g_owe g)
      = tcount s g r0 + ecount s g r0 + occ r0 (g_pre g) + occ r0 (g_owe g'))%nat
     /\ (tcount s' g' r0 <= 1)%nat /\ (ecount s' g' r0 <= 1)%nat
     /\ (dead_waiter l0 = false -> ecount s' g' r0 = O)
     /\ (0 < l_locked l0 -> occ r0 (g_pre g') = O -> occ r0 (g_pre g) = O)
     /\ (l_long l0 = true -> occ r0 (g_pend g') = O ->
          (l_timeouted l0 = false -> occ r0 (wheel_get (tlong s') (lkey (l_tT l0))) = 1%nat)
          /\ (l_timeouted l0 = true -> occ r0 (wheel_get (elong s') (lkey (l_eT l0))) = 1%nat))) ->
  (forall r0, aget (store s) r0 = None -> (tcount s' g' r0 + ecount s' g' r0)%nat = O) ->
  GInv s' g'.
Proof.
  intros G E1 E2 E3 E4 W3' W4' W5' W6' F5 F7 F8 Fpw F9 F10 F11 Hxep Hrec Hstr.
  assert (Hgm : forall k, getm s' k = getm s k) by (intros; unfold getm; rewrite E1; auto).
  assert (Hgl : forall r, getl s' r = getl s r) by (intros; unfold getl; rewrite E2; auto).
  assert (Hsd : forall l, sumdepth s' l = sumdepth s l) by (intros; apply sumdepth_ext; intros; rewrite Hgl; auto).
  destruct G as [W1 W2 W3 W4 W5 W6 L R M S P PL N1 N2 N3].
  constructor; rewrite ?E1, ?E2, ?E3, ?E4; auto.
  - intros r l H. destruct (R r l H) as [A1 A2 A3 A4 A5 A6 A7 A8 A9 A10 A11].
    destruct (Hrec r l H) as [H1 [H2 [H3 [H4 [H5 H6]]]]].
    constructor; rewrite ?Hgm, ?E1, ?E3, ?F5; auto.
    + lia.
    + intros Ht. destruct (A6 Ht) as [Q1 [Q2 [Q3 Q4]]]. auto.
    + intros Ha. rewrite (Hxep r l H Ha). auto.
  - intros k m H. destruct (M k m H) as [B1 B2 B3 B4 B5 B6 B7 B8 B9 Bb B10 Bc].
    assert (P1 : phk g' k = phk g k) by (apply phk_eq; auto).
    assert (P3 : lkk g' k = lkk g k) by (apply lkk_eq; auto).
    assert (P2 : dlk g' k = dlk g k) by (unfold dlk; rewrite F7, F9; auto).
    constructor; rewrite ?P1, ?P2, ?P3, ?Hsd, ?E2, ?E3; auto.
    + intros Hl c Hc. rewrite Hgl. auto.
    + intros Hl q Hq items mp Hs id r H1. rewrite Hgl. eapply B10; eauto.
  - intros r H. rewrite Hgl, Fpw. apply P. rewrite <- F5. auto.
  - intros r. unfold phl. rewrite F5, F7, Fpw, Hgm. apply PL.
  - lia.
  - lia.
Qed.

(* ---------------------------------------------------------------- FreeLock *)
Lemma dec32_pred x : 0 < x -> x < 4294967296 -> dec32 x = x - 1.
Proof. intros. unfold dec32, sub32. change (1 mod 4294967296) with 1. rewrite <- (N.mod_small (x - 1) 4294967296) by lia.
  replace (x + 4294967296 - 1) with (x - 1 + 1 * 4294967296) by lia. rewrite N.mod_add by lia. reflexivity. Qed.
Lemma dec32_lt x : dec32 x < 4294967296.
Proof. unfold dec32, sub32. apply N.mod_lt. lia. Qed.

Lemma key_cnt_adel k st r l : awf st -> aget st r = Some l ->
  (key_cnt k (adel st r) + (if N.eqb (l_key l) k then 1 else 0) = key_cnt k st)%nat.
Proof. intros W H. unfold key_cnt. pose proof (asum_adel (fun l => if l_key l =? k then 1%nat else O) st r W) as A.
  rewrite H in A. exact A. Qed.
Lemma live_cnt_adel st r l : awf st -> aget st r = Some l ->
  (Z.of_nat (live_cnt (adel st r)) = Z.of_nat (live_cnt st) - liveb l)%Z.
Proof. intros W H. unfold live_cnt. pose proof (asum_adel (fun l => if dead_waiter l then O else 1%nat) st r W) as A.
  rewrite H in A. unfold oget in A. unfold liveb. destruct (dead_waiter l); lia. Qed.

Lemma free_facts s g r l : GInv s g -> aget (store s) r = Some l -> l_refc l = 0 -> occ r (g_owe g) = O ->
  tcount s g r = O /\ ecount s g r = O /\ occ r (g_pre g) = O /\ l_locked l = 0
  /\ occ r (g_ph g) = (occ r (holders (getm s (l_key l))) + occ r (m_wq (getm s (l_key l))))%nat
  /\ (l_key l <> g_dk g -> occ r (g_ph g) = O).
Proof.
  intros G Hr H0 Ho. destruct (gi_rec _ _ G r l Hr) as [A1 A2 A3 A4 A5 A6 A7 A8 A9 A10 A11].
  rewrite H0, Ho in A3. pose proof (gi_phle _ _ G r) as PL. unfold phl in PL.
  assert (Hne : l_key l <> g_dk g -> occ r (g_ph g) = O).
  { intros Hk. destruct (aget (mgrs s) (g_dk g)) as [md|] eqn:Em.
    - destruct (holders_key_h s g _ md r l G Em Hr Hk) as [Z1 Z2]. rewrite (getm_some _ _ _ Em) in PL.
      destruct (g_pw g); lia.
    - unfold getm in PL. rewrite Em in PL. simpl in PL. destruct (g_pw g); simpl in PL; lia. }
  assert (Hph : (if g_pw g then occ r (g_ph g) <= occ r (m_wq (getm s (l_key l))) else occ r (g_ph g) <= occ r (holders (getm s (l_key l))))%nat).
  { destruct (N.eq_dec (l_key l) (g_dk g)) as [E|E]; [rewrite E; destruct (g_pw g); lia|rewrite (Hne E); destruct (g_pw g); lia]. }
  assert (Hp0 : occ r (g_pre g) = O) by (destruct (g_pw g); lia).
  assert (Hl0 : l_locked l = 0).
  { destruct (N.eq_dec (l_locked l) 0) as [|Hn]; auto. exfalso.
    assert (Hh : occ r (holders (getm s (l_key l))) = 1%nat) by (apply A7; auto; lia).
    destruct (g_pw g) eqn:Epw; [lia|].
    assert (Hi : In r (g_ph g)) by (apply occ_In; lia).
    destruct (gi_ph _ _ G r Hi) as [Z _]. specialize (Z Epw). rewrite (getl_some _ _ _ Hr) in Z. lia. }
  repeat split; auto; destruct (g_pw g); lia.
Qed.

Lemma holders_mref m x : holders (m <| m_ref := x |>) = holders m.  Proof. destruct m; reflexivity. Qed.
Lemma m_wq_mref m x : m_wq (m <| m_ref := x |>) = m_wq m.  Proof. destruct m; reflexivity. Qed.

Lemma free_lock_ginv s g r l : GInv s g -> aget (store s) r = Some l -> l_refc l = 0 -> occ r (g_owe g) = O ->
  GInv (free_lock s r) (g <| g_cw := (g_cw g - liveb l)%Z |>).
Proof.
  intros G Hr H0 Ho.
  destruct (free_facts s g r l G Hr H0 Ho) as [Ft [Fe [Fp [Fl [Fph Fne]]]]].
  pose proof (gi_rec _ _ G r l Hr) as Rr.
  destruct (aget (mgrs s) (l_key l)) as [m|] eqn:Hm; [|exfalso; apply (ro_mgr _ _ _ _ Rr); auto].
  set (k := l_key l) in *.
  set (m' := m <| m_ref := dec32 (m_ref m) |>).
  assert (Hs' : free_lock s r = setm (s <| store := adel (store s) r |>) k m').
  { unfold free_lock. rewrite Hr. fold k. unfold updm. cbn [mgrs]. change (mgrs (s <| store := adel (store s) r |>)) with (mgrs s).
    rewrite Hm. reflexivity. }
  rewrite Hs'. clear Hs'.
  set (s1 := s <| store := adel (store s) r |>).
  assert (Hst : store (setm s1 k m') = adel (store s) r) by reflexivity.
  assert (Hmg : mgrs (setm s1 k m') = aset (mgrs s) k m') by reflexivity.
  assert (Hgl : forall x, l_locked (getl (setm s1 k m') x) = l_locked (getl s x)).
  { intros x. unfold getl. rewrite Hst, aget_adel. destruct (r =? x) eqn:E; auto.
    apply N.eqb_eq in E; subst x. rewrite Hr. rewrite Fl. reflexivity. }
  assert (Hgl2 : forall x, x <> r -> getl (setm s1 k m') x = getl s x).
  { intros x Hx. unfold getl. rewrite Hst, aget_adel. destruct (r =? x) eqn:E; auto. apply N.eqb_eq in E; congruence. }
  assert (Hsd : forall L, sumdepth (setm s1 k m') L = sumdepth s L) by (intros; apply sumdepth_ext; intros; apply Hgl).
  assert (Hlists : forall k0, holders (getm (setm s1 k m') k0) = holders (getm s k0) /\ m_wq (getm (setm s1 k m') k0) = m_wq (getm s k0)).
  { intros k0. rewrite getm_setm. destruct (k =? k0) eqn:E.
    - apply N.eqb_eq in E; subst k0. change (getm s1 k) with (getm s k). rewrite (getm_some _ _ _ Hm). unfold m'.
      rewrite holders_mref, m_wq_mref. auto.
    - auto. }
  pose proof (gi_mgr _ _ G k m Hm) as Mk.
  assert (Hkc : (0 < key_cnt k (store s))%nat).
  { pose proof (key_cnt_adel k (store s) r l (gi_wf_s _ _ G) Hr) as A. fold k in A. rewrite N.eqb_refl in A. lia. }
  destruct (mo_bnd _ _ _ _ Mk) as [Bb1 Bb2].
  assert (Hmr : 0 < m_ref m) by (pose proof (mo_ref _ _ _ _ Mk); lia).
  constructor.
  - rewrite Hmg. apply awf_aset, (gi_wf_m _ _ G).
  - rewrite Hst. apply awf_adel, (gi_wf_s _ _ G).
  - apply (gi_wf_tw _ _ G).
  - apply (gi_wf_tl _ _ G).
  - apply (gi_wf_ew _ _ G).
  - apply (gi_wf_el _ _ G).
  - rewrite Hst. pose proof (length_adel _ _ _ (gi_wf_s _ _ G) Hr). pose proof (gi_len _ _ G).
    change (next (setm s1 k m')) with (next s). lia.
  - intros r0 l0 H1. rewrite Hst, aget_adel in H1. destruct (r =? r0) eqn:E; [discriminate|]. apply N.eqb_neq in E.
    destruct (gi_rec _ _ G r0 l0 H1) as [A1 A2 A3 A4 A5 A6 A7 A8 A9 A10 A11].
    destruct (Hlists (l_key l0)) as [L1 L2].
    constructor; unfold tcount, ecount in *; rewrite ?L1, ?L2; auto.
    rewrite Hmg, aget_aset. destruct (k =? l_key l0); auto. discriminate.
  - intros k0 m0 H1. rewrite Hmg, aget_aset in H1.
    assert (Hold : exists mo, aget (mgrs s) k0 = Some mo /\ holders m0 = holders mo /\ m_wq m0 = m_wq mo
              /\ m_locked m0 = m_locked mo /\ m_cur m0 = m_cur mo /\ m_hq m0 = m_hq mo /\ m_locks m0 = m_locks mo
              /\ m_ref m0 = (if k =? k0 then dec32 (m_ref mo) else m_ref mo) /\ m_wait m0 = m_wait mo).
    { destruct (k =? k0) eqn:E.
      - apply N.eqb_eq in E; subst k0. inversion H1; subst m0. exists m. unfold m'. rewrite holders_mref, m_wq_mref.
        destruct m; repeat split; auto.
      - exists m0. repeat split; auto. }
    destruct Hold as [mo [Ho1 [Ho2 [Ho3 [Ho4 [Ho5 [Ho6 [Ho7 [Ho8 Ho9]]]]]]]]].
    destruct (gi_mgr _ _ G k0 mo Ho1) as [B1 B2 B3 B4 B5 B6 B7 B8 B9 Bb B10 Bc].
    change (phk (g <| g_cw := (g_cw g - liveb l)%Z |>) k0) with (phk g k0).
    change (dlk (g <| g_cw := (g_cw g - liveb l)%Z |>) k0) with (dlk g k0).
    change (lkk (g <| g_cw := (g_cw g - liveb l)%Z |>) k0) with (lkk g k0).
    constructor; rewrite ?Ho2, ?Ho3, ?Ho4, ?Hsd; auto.
    + intros r0 Hlt. rewrite Hst, aget_adel. destruct (r =? r0) eqn:E; [|auto].
      apply N.eqb_eq in E; subst r0. exfalso. rewrite occ_app in Hlt.
      change (phk (g <| g_cw := (g_cw g - liveb l)%Z |>) k0) with (phk g k0) in Hlt.
      destruct (N.eq_dec k k0) as [Ek|Ek].
      * subst k0. rewrite Hm in Ho1. inversion Ho1; subst mo. rewrite (getm_some _ _ _ Hm) in Fph.
        unfold phk in Hlt. destruct (k =? g_dk g) eqn:Ed; [lia|]. apply N.eqb_neq in Ed. rewrite (Fne Ed) in Fph. lia.
      * assert (Ek' : l_key l <> k0) by (fold k; auto).
        destruct (holders_key_h s g k0 mo r l G Ho1 Hr Ek'). lia.
    + intros r0 l0 Hi H2. rewrite Hst, aget_adel in H2. destruct (r =? r0); [discriminate|]. eapply B2; eauto.
    + intros Hl c Hc. rewrite Ho5 in Hc. rewrite Hgl. auto.
    + intros Hl Hc. rewrite Ho5 in Hc. rewrite Ho6. auto.
    + rewrite Ho8, Hst. pose proof (key_cnt_adel k0 (store s) r l (gi_wf_s _ _ G) Hr) as A. fold k in A.
      destruct (k =? k0) eqn:E.
      * apply N.eqb_eq in E; subst k0. rewrite Hm in Ho1. inversion Ho1; subst mo.
        rewrite dec32_pred; auto. lia.
      * lia.
    + rewrite Ho8. destruct (k =? k0); [split; [apply dec32_lt|tauto]|tauto].
    + intros Hl q Hq. rewrite Ho7 in Hq. intros items mp Hs id r1 H2.
      destruct (B10 Hl q Hq items mp Hs id r1 H2) as [C1 [C2 C3]]. split; auto.
      assert (r1 <> r). { intros ->. rewrite (getl_some _ _ _ Hr) in C2. lia. }
      rewrite Hgl2; auto.
    + rewrite Ho7, Ho9. auto.
  - intros r0 H1. rewrite Hst, aget_adel in H1. destruct (r =? r0) eqn:E.
    + apply N.eqb_eq in E; subst r0. change (tcount s g r + ecount s g r = 0)%nat. lia.
    + apply (gi_str _ _ G r0 H1).
  - intros r0 H1. destruct (gi_ph _ _ G r0 H1) as [P1 P2]. rewrite Hgl. split; auto.
    destruct (N.eq_dec r0 r) as [->|Hne]; [|rewrite Hgl2; auto].
    unfold getl. rewrite Hst, aget_adel_same. reflexivity.
  - intros r0. unfold phl. gs. destruct (Hlists (g_dk g)) as [L1 L2]. rewrite L1, L2. apply (gi_phle _ _ G).
  - change (cnt (setm s1 k m')) with (cnt s). rewrite Hmg. unfold sum_locked.
    rewrite (asumN_aset_in m_locked (mgrs s) k m m'); auto; [|apply (gi_wf_m _ _ G)].
    pose proof (gi_nlocked _ _ G) as P. unfold sum_locked in P.
    change (g_cl (g <| g_cw := (g_cw g - liveb l)%Z |>)) with (g_cl g).
    assert (m_locked m' = m_locked m) by (destruct m; reflexivity). lia.
  - change (cnt (setm s1 k m')) with (cnt s). rewrite Hst. rewrite (live_cnt_adel _ _ _ (gi_wf_s _ _ G) Hr).
    pose proof (gi_nwait _ _ G). change (g_cw (g <| g_cw := (g_cw g - liveb l)%Z |>)) with (g_cw g - liveb l)%Z. lia.
  - change (cnt (setm s1 k m')) with (cnt s). rewrite Hmg.
    erewrite length_aset_in; eauto; [apply (gi_nkey _ _ G)|apply (gi_wf_m _ _ G)].
Qed.

Lemma mgr_ok_obs s s' g k m : store s' = store s -> next s' = next s -> mgr_ok s g k m -> mgr_ok s' g k m.
Proof.
  intros E2 E3 [B1 B2 B3 B4 B5 B6 B7 B8 B9 Bb B10 Bc].
  assert (Hgl : forall r, getl s' r = getl s r) by (intros; unfold getl; rewrite E2; auto).
  assert (Hsd : forall l, sumdepth s' l = sumdepth s l) by (intros; apply sumdepth_ext; intros; rewrite Hgl; auto).
  constructor; rewrite ?Hsd, ?E2, ?E3; auto.
  - intros Hl c Hc. rewrite Hgl. auto.
  - intros Hl q Hq items mp Hs id r H1. rewrite Hgl. eapply B10; eauto.
Qed.

(* ---------------------------------------------------------------- RemoveLockManager *)
Lemma key_cnt_zero k st r l : key_cnt k st = O -> aget st r = Some l -> l_key l <> k.
Proof.
  intros Z H E. pose proof (asum_ge (fun l => if l_key l =? k then 1%nat else O) st r l H) as A.
  fold (key_cnt k st) in A. cbv beta in A. rewrite E, N.eqb_refl in A. lia.
Qed.

Lemma remove_mgr_ginv s g k : GInv s g -> (k = g_dk g -> g_ph g = [] /\ g_dl g = 0%Z) ->
  GInv (remove_mgr_if_unref s k) g.
Proof.
  intros G Hdk. unfold remove_mgr_if_unref. destruct (aget (mgrs s) k) as [m|] eqn:Hm; auto.
  destruct (m_ref m =? 0) eqn:Hz; auto. apply N.eqb_eq in Hz.
  pose proof (gi_mgr _ _ G k m Hm) as Mk.
  assert (Hkc : key_cnt k (store s) = O) by (rewrite <- (mo_ref _ _ _ _ Mk); lia).
  assert (Hnk : forall r l, aget (store s) r = Some l -> l_key l <> k) by (intros; eapply key_cnt_zero; eauto).
  assert (Hml : m_locked m = 0).
  { pose proof (mo_sum _ _ _ _ Mk) as S. rewrite sumdepth_zero in S.
    - unfold dlk in S. destruct (k =? g_dk g) eqn:E; [apply N.eqb_eq in E; destruct (Hdk E) as [_ D]; lia|lia].
    - intros r Hi. destruct (aget (store s) r) as [l|] eqn:Hr.
      + exfalso. apply (Hnk r l Hr). eapply (mo_key _ _ _ _ Mk); eauto. apply in_or_app; auto.
      + rewrite (getl_none _ _ Hr). reflexivity. }
  set (s' := updc (s <| mgrs := adel (mgrs s) k |>) (fun c => c <| n_key := (n_key c - 1)%Z |>)).
  assert (Hmg : mgrs s' = adel (mgrs s) k) by reflexivity.
  assert (Hgm : forall k0, k0 <> k -> getm s' k0 = getm s k0).
  { intros k0 H0. unfold getm. rewrite Hmg, aget_adel. destruct (k =? k0) eqn:E; auto. apply N.eqb_eq in E. congruence. }
  destruct G as [W1 W2 W3 W4 W5 W6 L R M S P PL N1 N2 N3].
  constructor; auto.
  - rewrite Hmg. apply awf_adel; auto.
  - intros r l H. destruct (R r l H) as [A1 A2 A3 A4 A5 A6 A7 A8 A9 A10 A11].
    pose proof (Hnk r l H) as Hk.
    constructor; rewrite ?Hgm by auto; auto.
    rewrite Hmg, aget_adel. destruct (k =? l_key l) eqn:E; auto. apply N.eqb_eq in E. congruence.
  - intros k0 m0 H. rewrite Hmg, aget_adel in H. destruct (k =? k0) eqn:E; [discriminate|]. apply (mgr_ok_obs s); auto.
  - intros r. destruct (N.eq_dec (g_dk g) k) as [E|E].
    + destruct (Hdk (eq_sym E)) as [-> _]. simpl. lia.
    + unfold phl. rewrite Hgm by auto. apply PL.
  - change (cnt s') with (cnt s <| n_key := (n_key (cnt s) - 1)%Z |>). cbn [n_locked].
    rewrite Hmg. unfold sum_locked in *. pose proof (asumN_adel m_locked (mgrs s) k W1) as A. rewrite Hm in A.
    unfold ogetN in A. change (n_locked (cnt s <| n_key := (n_key (cnt s) - 1)%Z |>)) with (n_locked (cnt s)). lia.
  - change (n_key (cnt s')) with (n_key (cnt s) - 1)%Z. rewrite Hmg.
    pose proof (length_adel _ _ _ W1 Hm). lia.
Qed.

(* ---------------------------------------------------------------- GetOrNewLockManager / GetOrNewLock *)
Lemma key_cnt_le k st : (key_cnt k st <= length st)%nat.
Proof. unfold key_cnt, asum. induction st as [|[a b] t IH]; simpl; [lia|]. destruct (l_key b =? k); lia. Qed.

Lemma new_mgr_ginv s g k f : GInv s g -> aget (mgrs s) k = None -> (k = g_dk g -> g_dl g = 0%Z) ->
  n_locked (f (cnt s)) = n_locked (cnt s) -> n_wait (f (cnt s)) = n_wait (cnt s) -> n_key (f (cnt s)) = (n_key (cnt s) + 1)%Z ->
  GInv (bump f (setm s k new_mgr)) g.
Proof.
  intros G Hm Hdk F1 F2 F3.
  set (s' := bump f (setm s k new_mgr)).
  assert (Hmg : mgrs s' = aset (mgrs s) k new_mgr) by reflexivity.
  assert (Hnk : forall r l, aget (store s) r = Some l -> l_key l <> k).
  { intros r l H E. apply (ro_mgr _ _ _ _ (gi_rec _ _ G r l H)). rewrite E. auto. }
  assert (Hgm : forall k0, k0 <> k -> getm s' k0 = getm s k0).
  { intros k0 H0. unfold getm. rewrite Hmg, aget_aset. destruct (k =? k0) eqn:E; auto. apply N.eqb_eq in E. congruence. }
  assert (Hgk : holders (getm s' k) = holders (getm s k) /\ m_wq (getm s' k) = m_wq (getm s k)).
  { unfold getm. rewrite Hmg, aget_aset_same, Hm. auto. }
  destruct G as [W1 W2 W3 W4 W5 W6 L R M S P PL N1 N2 N3].
  constructor; auto.
  - rewrite Hmg. apply awf_aset; auto.
  - intros r l H. destruct (R r l H) as [A1 A2 A3 A4 A5 A6 A7 A8 A9 A10 A11].
    pose proof (Hnk r l H) as Hk.
    constructor; rewrite ?Hgm by auto; auto.
    rewrite Hmg, aget_aset. destruct (k =? l_key l) eqn:E; auto. discriminate.
  - intros k0 m0 H. rewrite Hmg, aget_aset in H. destruct (k =? k0) eqn:E.
    + apply N.eqb_eq in E; subst k0. inversion H; subst m0.
      constructor; simpl; try (intros; contradiction); try constructor; auto; try discriminate; try lia.
      * unfold dlk. destruct (k =? g_dk g) eqn:Ed; [apply N.eqb_eq in Ed; rewrite (Hdk Ed)|]; reflexivity.
      * symmetry. apply asum_zero; auto.
        intros r l Hr. pose proof (Hnk r l Hr) as Hk. apply N.eqb_neq in Hk. rewrite Hk. reflexivity.
    + apply (mgr_ok_obs s); auto.
  - intros r. destruct (N.eq_dec (g_dk g) k) as [E|E].
    + unfold phl. rewrite E. destruct Hgk as [-> ->]. rewrite <- E. apply PL.
    + unfold phl. rewrite Hgm by auto. apply PL.
  - change (n_locked (cnt s')) with (n_locked (f (cnt s))). rewrite F1, Hmg. unfold sum_locked in *.
    pose proof (asumN_aset m_locked (mgrs s) k new_mgr W1) as A. rewrite Hm in A. unfold ogetN in A. change (m_locked new_mgr) with 0 in A. lia.
  - change (n_wait (cnt s')) with (n_wait (f (cnt s))). rewrite F2. auto.
  - change (n_key (cnt s')) with (n_key (f (cnt s))). rewrite F3, Hmg, length_aset_new; auto. lia.
Qed.

Definition fresh_rec (s : db) (k conn : N) (c : cmd) : lockrec :=
  let unrenew := has (c_tflag c) TF_UNRENEW in
  let eT := if unrenew then expiry_deadline c (now s) else 0%Z in
  let ecc := if unrenew then initial_ecc c eT (now s) else 1 in
  mkLock k c conn None (now s) eT (timeout_deadline c (now s)) false 1 ecc 0 0 255 true true 0 false.

Lemma fresh_zero s g r : GInv s g -> next s <= r ->
  aget (store s) r = None /\ (tcount s g r + ecount s g r)%nat = O /\ occ r (g_ph g) = O
  /\ forall k, occ r (holders (getm s k) ++ m_wq (getm s k)) = O.
Proof.
  intros G Hr.
  assert (Hn : aget (store s) r = None).
  { destruct (aget (store s) r) as [l|] eqn:E; auto. pose proof (ro_lt _ _ _ _ (gi_rec _ _ G r l E)). lia. }
  assert (Hl : forall k, occ r (holders (getm s k) ++ m_wq (getm s k)) = O).
  { intros k. apply occ_notin. intros Hi. unfold getm in Hi. destruct (aget (mgrs s) k) as [m|] eqn:Em; [|simpl in Hi; auto].
    pose proof (mo_lt _ _ _ _ (gi_mgr _ _ G k m Em) r Hi). lia. }
  repeat split; auto. apply (gi_str _ _ G r Hn).
  pose proof (gi_phle _ _ G r) as P. specialize (Hl (g_dk g)). rewrite occ_app in Hl. unfold phl in P. destruct (g_pw g); lia.
Qed.

Lemma add32_succ x : x + 1 < 4294967296 -> add32 x 1 = x + 1.
Proof. intros. unfold add32. apply N.mod_small. auto. Qed.

Lemma new_lock_ginv s g k conn c m :
  GInv s g -> aget (mgrs s) k = Some m -> g_owe g = [] -> g_pre g = [] -> next s < MAXREC -> cmd_core c ->
  let r := next s in
  new_lock s k conn c = (updm (s <| store := aset (store s) r (fresh_rec s k conn c) |> <| next := r + 1 |>) k
                              (fun m => m <| m_ref := add32 (m_ref m) 1 |>), r)
  /\ GInv (fst (new_lock s k conn c)) g.
Proof.
  intros G Hm Ho Hp Hb Hc r. split; [reflexivity|].
  unfold new_lock. fold r. fold (fresh_rec s k conn c). set (l0 := fresh_rec s k conn c). cbn [fst].
  set (s1 := s <| store := aset (store s) r l0 |> <| next := r + 1 |>).
  set (m' := m <| m_ref := add32 (m_ref m) 1 |>).
  assert (Hs' : updm s1 k (fun m => m <| m_ref := add32 (m_ref m) 1 |>) = setm s1 k m').
  { unfold updm. change (mgrs s1) with (mgrs s). rewrite Hm. reflexivity. }
  rewrite Hs'. clear Hs'.
  destruct (fresh_zero s g r G (N.le_refl _)) as [Fn [Fte [Fph Fl]]].
  assert (Hst : store (setm s1 k m') = aset (store s) r l0) by reflexivity.
  assert (Hmg : mgrs (setm s1 k m') = aset (mgrs s) k m') by reflexivity.
  assert (Hnx : next (setm s1 k m') = next s + 1) by reflexivity.
  assert (Hgl : forall x, l_locked (getl (setm s1 k m') x) = l_locked (getl s x)).
  { intros x. unfold getl. rewrite Hst, aget_aset. destruct (r =? x) eqn:E; auto.
    apply N.eqb_eq in E; subst x. rewrite Fn. reflexivity. }
  assert (Hgl2 : forall x, x <> r -> getl (setm s1 k m') x = getl s x).
  { intros x Hx. unfold getl. rewrite Hst, aget_aset. destruct (r =? x) eqn:E; auto. apply N.eqb_eq in E; congruence. }
  assert (Hsd : forall L, sumdepth (setm s1 k m') L = sumdepth s L) by (intros; apply sumdepth_ext; intros; apply Hgl).
  assert (Hlists : forall k0, holders (getm (setm s1 k m') k0) = holders (getm s k0) /\ m_wq (getm (setm s1 k m') k0) = m_wq (getm s k0)).
  { intros k0. rewrite getm_setm. destruct (k =? k0) eqn:E.
    - apply N.eqb_eq in E; subst k0. rewrite (getm_some _ _ _ Hm). unfold m'. rewrite holders_mref, m_wq_mref. auto.
    - auto. }
  pose proof (gi_mgr _ _ G k m Hm) as Mk.
  destruct (mo_bnd _ _ _ _ Mk) as [Bb1 Bb2].
  assert (Hmr : m_ref m + 1 < 4294967296).
  { pose proof (mo_ref _ _ _ _ Mk). pose proof (key_cnt_le k (store s)). pose proof (gi_len _ _ G). unfold MAXREC in Hb. lia. }
  assert (Htc : forall x, tcount (setm s1 k m') g x = tcount s g x) by reflexivity.
  assert (Hec : forall x, ecount (setm s1 k m') g x = ecount s g x) by reflexivity.
  constructor.
  - rewrite Hmg. apply awf_aset, (gi_wf_m _ _ G).
  - rewrite Hst. apply awf_aset, (gi_wf_s _ _ G).
  - apply (gi_wf_tw _ _ G).
  - apply (gi_wf_tl _ _ G).
  - apply (gi_wf_ew _ _ G).
  - apply (gi_wf_el _ _ G).
  - rewrite Hst, Hnx, length_aset_new by auto. pose proof (gi_len _ _ G). lia.
  - intros r0 l1 H1. rewrite Hst, aget_aset in H1. destruct (r =? r0) eqn:E.
    + apply N.eqb_eq in E; subst r0. inversion H1; subst l1. clear H1.
      destruct (Hlists k) as [L1 L2]. specialize (Fl k). rewrite occ_app in Fl.
      constructor; rewrite ?Htc, ?Hec; change (l_key l0) with k; rewrite ?L1, ?L2, ?Ho, ?Hp; simpl occ; try (simpl; lia); auto;
        try (intros Hx; exfalso; apply Hx; reflexivity); try (unfold dead_waiter; simpl; discriminate).  (* ACK *)
      rewrite Hmg, aget_aset_same. discriminate.
    + apply N.eqb_neq in E.
      destruct (gi_rec _ _ G r0 l1 H1) as [A1 A2 A3 A4 A5 A6 A7 A8 A9 A10 A11].
      destruct (Hlists (l_key l1)) as [L1 L2].
      constructor; rewrite ?Htc, ?Hec, ?L1, ?L2; auto.
      * rewrite Hmg, aget_aset. destruct (k =? l_key l1); auto. discriminate.
      * rewrite Hnx. lia.
  - intros k0 m0 H1. rewrite Hmg, aget_aset in H1.
    assert (Hold : exists mo, aget (mgrs s) k0 = Some mo /\ holders m0 = holders mo /\ m_wq m0 = m_wq mo
              /\ m_locked m0 = m_locked mo /\ m_cur m0 = m_cur mo /\ m_hq m0 = m_hq mo /\ m_locks m0 = m_locks mo
              /\ m_ref m0 = (if k =? k0 then add32 (m_ref mo) 1 else m_ref mo) /\ m_wait m0 = m_wait mo).
    { destruct (k =? k0) eqn:E.
      - apply N.eqb_eq in E; subst k0. inversion H1; subst m0. exists m. unfold m'. rewrite holders_mref, m_wq_mref.
        destruct m; repeat split; auto.
      - exists m0. repeat split; auto. }
    destruct Hold as [mo [Ho1 [Ho2 [Ho3 [Ho4 [Ho5 [Ho6 [Ho7 [Ho8 Ho9]]]]]]]]].
    destruct (gi_mgr _ _ G k0 mo Ho1) as [B1 B2 B3 B4 B5 B6 B7 B8 B9 Bb B10 Bc].
    assert (Hni : ~ In r (holders mo ++ m_wq mo)).
    { intros Hi. pose proof (B3 r Hi). unfold r in *. lia. }
    constructor; rewrite ?Ho2, ?Ho3, ?Ho4, ?Hsd; auto.
    + intros r0 Hlt. rewrite Hst, aget_aset. destruct (r =? r0); [discriminate|auto].
    + intros r0 l1 Hi H2. rewrite Hst, aget_aset in H2. destruct (r =? r0) eqn:E.
      * apply N.eqb_eq in E; subst r0. contradiction.
      * eapply B2; eauto.
    + intros r0 Hi. rewrite Hnx. pose proof (B3 r0 Hi). lia.
    + intros Hl c0 Hc0. rewrite Ho5 in Hc0. rewrite Hgl. auto.
    + intros Hl Hc0. rewrite Ho5 in Hc0. rewrite Ho6. auto.
    + rewrite Ho8, Hst. unfold key_cnt in *.
      pose proof (asum_aset (fun l => if l_key l =? k0 then 1%nat else O) (store s) r l0 (gi_wf_s _ _ G)) as A.
      rewrite Fn in A. unfold oget in A. cbv beta in A. change (l_key l0) with k in A.
      destruct (k =? k0) eqn:E.
      * apply N.eqb_eq in E; subst k0. rewrite Hm in Ho1. inversion Ho1; subst mo. rewrite add32_succ by auto. lia.
      * lia.
    + rewrite Ho8. destruct (k =? k0); [split; [apply N.mod_lt; lia|tauto]|tauto].
    + intros Hl q Hq. rewrite Ho7 in Hq. intros items mp Hs id r1 H2.
      destruct (B10 Hl q Hq items mp Hs id r1 H2) as [C1 [C2 C3]]. split; auto.
      assert (r1 <> r). { intros ->. unfold getl in C2. rewrite Fn in C2. simpl in C2. lia. }
      rewrite Hgl2; auto.
    + rewrite Ho7, Ho9. auto.
  - intros r0 H1. rewrite Hst, aget_aset in H1. destruct (r =? r0) eqn:E; [discriminate|]. rewrite Htc, Hec. apply (gi_str _ _ G r0 H1).
  - intros r0 H1. destruct (gi_ph _ _ G r0 H1) as [P1 P2]. rewrite Hgl. split; auto.
    destruct (N.eq_dec r0 r) as [->|Hne]; [|rewrite Hgl2; auto].
    unfold getl. rewrite Hst, aget_aset_same. reflexivity.
  - intros r0. unfold phl. destruct (Hlists (g_dk g)) as [L1 L2]. rewrite L1, L2. apply (gi_phle _ _ G).
  - change (cnt (setm s1 k m')) with (cnt s). rewrite Hmg. unfold sum_locked.
    rewrite (asumN_aset_in m_locked (mgrs s) k m m'); auto; [|apply (gi_wf_m _ _ G)].
    pose proof (gi_nlocked _ _ G) as P. unfold sum_locked in P.
    assert (m_locked m' = m_locked m) by (destruct m; reflexivity). lia.
  - change (cnt (setm s1 k m')) with (cnt s). rewrite Hst. unfold live_cnt.
    pose proof (asum_aset (fun l => if dead_waiter l then O else 1%nat) (store s) r l0 (gi_wf_s _ _ G)) as A.
    rewrite Fn in A. unfold oget in A. cbv beta in A. change (dead_waiter l0) with true in A. cbv iota in A.
    pose proof (gi_nwait _ _ G) as P. unfold live_cnt in P. lia.
  - change (cnt (setm s1 k m')) with (cnt s). rewrite Hmg.
    erewrite length_aset_in; eauto; [apply (gi_nkey _ _ G)|apply (gi_wf_m _ _ G)].
Qed.

(* ---------------------------------------------------------------- record updates that the invariant does not read *)
Definition same_rel (l l' : lockrec) : Prop :=
  l_key l' = l_key l /\ l_refc l' = l_refc l /\ l_locked l' = l_locked l /\ l_timeouted l' = l_timeouted l
  /\ l_long l' = l_long l /\ l_ack l' = l_ack l /\ c_lockid (l_cmd l') = c_lockid (l_cmd l)
  /\ (cmd_core (l_cmd l) -> cmd_core (l_cmd l')) /\ (l_ack l <> 255 -> l_expried l' = l_expried l).  (* ACK: last conjunct *)

Lemma setl_irrel s g r l l' : GInv s g -> aget (store s) r = Some l -> same_rel l l' ->
  (l_long l = true -> occ r (g_pend g) = O -> l_tT l' = l_tT l /\ l_eT l' = l_eT l) ->
  GInv (setl s r l') g.
Proof.
  intros G Hr [S1 [S2 [S3 [S4 [S5 [S6 [S7 [S8 S9]]]]]]]] Ht.
  destruct (gi_rec _ _ G r l Hr) as [A1 A2 A3 A4 A5 A6 A7 A8 A9 A10 A11].
  assert (DW : dead_waiter l' = dead_waiter l) by (unfold dead_waiter; rewrite S4, S6; reflexivity).
  eapply setl_ginv; eauto.
  - intros. repeat split; auto.
  - constructor; change (getm (setl s r l') (l_key l')) with (getm s (l_key l'));
      change (tcount (setl s r l') g r) with (tcount s g r); change (ecount (setl s r l') g r) with (ecount s g r);
      rewrite ?DW, ?S1, ?S2, ?S3, ?S4, ?S5, ?S6; auto.
    + intros Hl Hp. destruct (Ht Hl Hp) as [-> ->]. apply A8; auto.
    + intros Ha. rewrite (S9 Ha). auto.
  - rewrite S3. destruct (l_key l =? g_dk g); lia.
  - rewrite S3, S7. auto.
  - rewrite S3, DW. intros Hi. pose proof (gi_ph _ _ G r Hi) as Z. rewrite (getl_some _ _ _ Hr) in Z. auto.
  - apply (gi_phle _ _ G).
  - unfold liveb. rewrite DW. lia.
Qed.

Lemma updl_irrel s g r f : GInv s g ->
  (forall l, aget (store s) r = Some l ->
     same_rel l (f l) /\ (l_long l = true -> occ r (g_pend g) = O -> l_tT (f l) = l_tT l /\ l_eT (f l) = l_eT l)) ->
  GInv (updl s r f) g.
Proof.
  intros G H. unfold updl. destruct (aget (store s) r) as [l|] eqn:Hr; auto.
  destruct (H l eq_refl). eapply setl_irrel; eauto.
Qed.

Lemma same_rel_refl l : same_rel l l.
Proof. unfold same_rel. intuition. Qed.

(* ---------------------------------------------------------------- manager updates that keep the lists *)
Lemma holders_eq m m' : m_cur m' = m_cur m -> m_locks m' = m_locks m -> holders m' = holders m /\ m_hq m' = m_hq m.
Proof. unfold holders, cur_list, m_hq. intros -> ->. auto. Qed.
Lemma m_wq_eq m m' : m_wait m' = m_wait m -> m_wq m' = m_wq m.
Proof. unfold m_wq. intros ->. auto. Qed.

Lemma setm_scalar s g k m m' :
  GInv s g -> aget (mgrs s) k = Some m ->
  m_ref m' = m_ref m -> m_cur m' = m_cur m -> m_locks m' = m_locks m -> m_wait m' = m_wait m ->
  m_locked m' < 4294967296 -> (m_locked m' = m_locked m \/ k = g_dk g) ->
  GInv (setm s k m') (g <| g_dl := (g_dl g + (Z.of_N (m_locked m) - Z.of_N (m_locked m')))%Z |>
                        <| g_cl := (g_cl g + Z.of_N (m_locked m') - Z.of_N (m_locked m))%Z |>).
Proof.
  intros G Hm E1 E2 E3 E4 Hb Hk.
  destruct (holders_eq m m' E2 E3) as [Hh Hq]. pose proof (m_wq_eq m m' E4) as Hw.
  destruct (gi_mgr _ _ G k m Hm) as [B1 B2 B3 B4 B5 B6 B7 B8 B9 Bb B10 Bc].
  eapply setm_ginv; eauto; gs.
  - intros Hne. destruct Hk as [Hk|Hk]; [|congruence]. repeat split; auto. lia.
  - constructor; rewrite ?Hh, ?Hw, ?Hq, ?E1, ?E2, ?E3; auto.
    + unfold dlk in *. gs. change (sumdepth (setm s k m') (holders m)) with (sumdepth s (holders m)).
      destruct (k =? g_dk g) eqn:E; [lia|]. apply N.eqb_neq in E. destruct Hk as [Hk|Hk]; [|congruence]. lia.
    + split; [tauto|auto].
    + rewrite E4. auto.
  - intros r0 l0 H0 Hk0. rewrite Hh, Hw. split; [lia|].
    destruct (gi_rec _ _ G r0 l0 H0) as [A1 A2 A3 A4 A5 A6 A7 A8 A9 A10 A11].
    rewrite Hk0, (getm_some _ _ _ Hm) in *. split.
    + intros Ht. destruct (A6 Ht) as [Q1 [Q2 [Q3 Q4]]]. auto.
    + auto.
  - apply (gi_ph _ _ G).
  - intros ->. rewrite Hh, Hw. intros r0. pose proof (gi_phle _ _ G r0) as P. unfold phl in P. rewrite (getm_some _ _ _ Hm) in P. auto.
Qed.

Lemma updm_scalar s g k f :
  GInv s g ->
  (forall m, m_ref (f m) = m_ref m /\ m_cur (f m) = m_cur m /\ m_locks (f m) = m_locks m /\ m_wait (f m) = m_wait m
             /\ m_locked (f m) = m_locked m) ->
  GInv (updm s k f) g.
Proof.
  intros G H. unfold updm. destruct (aget (mgrs s) k) as [m|] eqn:Hm; auto.
  destruct (H m) as [E1 [E2 [E3 [E4 E5]]]].
  pose proof (mo_bnd _ _ _ _ (gi_mgr _ _ G k m Hm)) as [_ Bb].
  pose proof (setm_scalar s g k m (f m) G Hm E1 E2 E3 E4) as P. rewrite E5 in P. specialize (P Bb (or_introl eq_refl)).
  eapply ginv_obs; eauto; gs; lia.
Qed.

Lemma mgr_ok_geq s g g' k m : g_ph g' = g_ph g -> g_dk g' = g_dk g -> g_lk g' = g_lk g -> g_dl g' = g_dl g ->
  mgr_ok s g k m -> mgr_ok s g' k m.
Proof.
  intros F5 F7 F8 F9 [B1 B2 B3 B4 B5 B6 B7 B8 B9 Bb B10 Bc].
  assert (P1 : phk g' k = phk g k) by (apply phk_eq; auto).
  assert (P3 : lkk g' k = lkk g k) by (apply lkk_eq; auto).
  assert (P2 : dlk g' k = dlk g k) by (unfold dlk; rewrite F7, F9; auto).
  constructor; rewrite ?P1, ?P2, ?P3; auto.
Qed.

(* ---------------------------------------------------------------- ghost bookkeeping *)
Lemma ginv_geq s g g' : GInv s g -> g' = g -> GInv s g'.
Proof. intros G ->. auto. Qed.

Lemma ginv_set_dk s g k : GInv s g -> g_ph g = [] -> g_dl g = 0%Z -> g_lk g = false ->
  GInv s (g <| g_dk := k |>).
Proof.
  intros G Hp Hd Hl.
  destruct G as [W1 W2 W3 W4 W5 W6 L R M S P PL N1 N2 N3].
  constructor; auto.
  - intros r0 l0 H. destruct (R r0 l0 H) as [A1 A2 A3 A4 A5 A6 A7 A8 A9 A10 A11]. constructor; auto.
  - intros k0 m0 H. destruct (M k0 m0 H) as [B1 B2 B3 B4 B5 B6 B7 B8 B9 Bb B10 Bc].
    assert (P1 : phk (g <| g_dk := k |>) k0 = []) by (unfold phk; gs; rewrite Hp; destruct (k0 =? k); auto).
    assert (P1' : phk g k0 = []) by (unfold phk; rewrite Hp; destruct (k0 =? g_dk g); auto).
    assert (P2 : dlk (g <| g_dk := k |>) k0 = 0%Z) by (unfold dlk; gs; rewrite Hd; destruct (k0 =? k); auto).
    assert (P2' : dlk g k0 = 0%Z) by (unfold dlk; rewrite Hd; destruct (k0 =? g_dk g); auto).
    assert (P3 : lkk (g <| g_dk := k |>) k0 = false) by (unfold lkk; gs; rewrite Hl; destruct (k0 =? k); auto).
    assert (P3' : lkk g k0 = false) by (unfold lkk; rewrite Hl; destruct (k0 =? g_dk g); auto).
    rewrite P1' in B1. rewrite P2' in B6.
    constructor; rewrite ?P1, ?P2; auto.
  - intros r. gs. rewrite Hp. simpl. lia.
Qed.

(* pending-bucket exemption can always be widened *)
Lemma ginv_pend_add s g r : GInv s g -> GInv s (g <| g_pend := r :: g_pend g |>).
Proof.
  intros G. destruct G as [W1 W2 W3 W4 W5 W6 L R M S P PL N1 N2 N3].
  constructor; auto.
  - intros r0 l0 H. destruct (R r0 l0 H) as [A1 A2 A3 A4 A5 A6 A7 A8 A9 A10 A11].
  constructor; auto. gs. intros Hl Hp. apply A8; auto. simpl in Hp. lia.
  - intros k0 m0 H. apply (mgr_ok_geq s g); auto.
Qed.

(* ... and narrowed for a record that is not long-queued, or whose bucket entry is in place *)
Lemma ginv_pend_drop s g r rest : GInv s g -> g_pend g = r :: rest ->
  (forall l, aget (store s) r = Some l -> l_long l = true -> occ r rest = O ->
     (l_timeouted l = false -> occ r (wheel_get (tlong s) (lkey (l_tT l))) = 1%nat)
     /\ (l_timeouted l = true -> occ r (wheel_get (elong s) (lkey (l_eT l))) = 1%nat)) ->
  GInv s (g <| g_pend := rest |>).
Proof.
  intros G Hp Hr. destruct G as [W1 W2 W3 W4 W5 W6 L R M S P PL N1 N2 N3].
  constructor; auto.
  - intros r0 l0 H. destruct (R r0 l0 H) as [A1 A2 A3 A4 A5 A6 A7 A8 A9 A10 A11].
    constructor; auto. gs. intros Hl Hp0. destruct (N.eq_dec r0 r) as [->|Hne].
    + apply Hr; auto.
    + apply A8; auto. rewrite Hp. rewrite occ_cons_ne; auto.
  - intros k0 m0 H. apply (mgr_ok_geq s g); auto.
Qed.

(* ---------------------------------------------------------------- states equal up to value data / persisted flags *)
Definition lsame (l l' : lockrec) : Prop := l' = l <| l_data := l_data l' |> <| l_isaof := l_isaof l' |>.
Definition msame (m m' : mgr) : Prop := m' = m <| m_data := m_data m' |>.
Definition orel {A} (R : A -> A -> Prop) (a b : option A) : Prop :=
  match a, b with Some x, Some y => R x y | None, None => True | _, _ => False end.

Record sim (s s' : db) : Prop := mkSim {
  sim_l : forall r, orel lsame (aget (store s) r) (aget (store s') r);
  sim_m : forall k, orel msame (aget (mgrs s) k) (aget (mgrs s') k);
  sim_tw : twheel s' = twheel s; sim_tl : tlong s' = tlong s; sim_ew : ewheel s' = ewheel s; sim_el : elong s' = elong s;
  sim_next : next s' = next s; sim_cnt : cnt s' = cnt s; sim_now : now s' = now s; sim_leader : leader s' = leader s;
  sim_ct : checkT s' = checkT s; sim_ce : checkE s' = checkE s; sim_cfg : cfg_aoftime s' = cfg_aoftime s
}.

Lemma lsame_refl l : lsame l l.  Proof. destruct l; reflexivity. Qed.
Lemma msame_refl m : msame m m.  Proof. destruct m; reflexivity. Qed.
Lemma lsame_trans a b c : lsame a b -> lsame b c -> lsame a c.
Proof. unfold lsame. intros H1 H2. rewrite H2. rewrite H1 at 1. destruct a; reflexivity. Qed.
Lemma msame_trans a b c : msame a b -> msame b c -> msame a c.
Proof. unfold msame. intros H1 H2. rewrite H2. rewrite H1 at 1. destruct a; reflexivity. Qed.

Lemma sim_refl s : sim s s.
Proof.
  constructor; auto.
  - intros r. unfold orel. destruct (aget (store s) r); auto. apply lsame_refl.
  - intros k. unfold orel. destruct (aget (mgrs s) k); auto. apply msame_refl.
Qed.
Lemma sim_trans a b c : sim a b -> sim b c -> sim a c.
Proof.
  intros [L1 M1 A1 A2 A3 A4 A5 A6 A7 A8 A9 A10 A11] [L2 M2 B1 B2 B3 B4 B5 B6 B7 B8 B9 B10 B11].
  constructor; try congruence.
  - intros r. specialize (L1 r). specialize (L2 r). unfold orel in *.
    destruct (aget (store a) r), (aget (store b) r), (aget (store c) r); try tauto. eapply lsame_trans; eauto.
  - intros k. specialize (M1 k). specialize (M2 k). unfold orel in *.
    destruct (aget (mgrs a) k), (aget (mgrs b) k), (aget (mgrs c) k); try tauto. eapply msame_trans; eauto.
Qed.

Lemma sim_updl s r f : (forall l, lsame l (f l)) -> sim s (updl s r f).
Proof.
  intros H. unfold updl. destruct (aget (store s) r) as [l|] eqn:E; [|apply sim_refl].
  constructor; auto.
  - intros r0. rewrite store_setl, aget_aset. destruct (r =? r0) eqn:E2.
    + apply N.eqb_eq in E2; subst. rewrite E. simpl. auto.
    + unfold orel. destruct (aget (store s) r0); auto. apply lsame_refl.
  - intros k. unfold orel. change (mgrs (setl s r (f l))) with (mgrs s). destruct (aget (mgrs s) k); auto. apply msame_refl.
Qed.
Lemma sim_updm s k f : (forall m, msame m (f m)) -> sim s (updm s k f).
Proof.
  intros H. unfold updm. destruct (aget (mgrs s) k) as [m|] eqn:E; [|apply sim_refl].
  constructor; auto.
  - intros r0. unfold orel. change (store (setm s k (f m))) with (store s). destruct (aget (store s) r0); auto. apply lsame_refl.
  - intros k0. rewrite mgrs_setm, aget_aset. destruct (k =? k0) eqn:E2.
    + apply N.eqb_eq in E2; subst. rewrite E. simpl. auto.
    + unfold orel. destruct (aget (mgrs s) k0); auto. apply msame_refl.
Qed.

Lemma sim_getl s s' r : sim s s' -> lsame (getl s r) (getl s' r).
Proof. intros H. pose proof (sim_l _ _ H r) as P. unfold getl, orel in *.
  destruct (aget (store s) r), (aget (store s') r); try tauto. apply lsame_refl. Qed.
Lemma sim_getm s s' k : sim s s' -> msame (getm s k) (getm s' k).
Proof. intros H. pose proof (sim_m _ _ H k) as P. unfold getm, orel in *.
  destruct (aget (mgrs s) k), (aget (mgrs s') k); try tauto. apply msame_refl. Qed.
Lemma sim_stored s s' r l : sim s s' -> aget (store s) r = Some l -> exists l', aget (store s') r = Some l' /\ lsame l l'.
Proof. intros H E. pose proof (sim_l _ _ H r) as P. rewrite E in P. unfold orel in P.
  destruct (aget (store s') r) as [l'|]; [eauto|tauto]. Qed.
Lemma sim_mgr s s' k m : sim s s' -> aget (mgrs s) k = Some m -> exists m', aget (mgrs s') k = Some m' /\ msame m m'.
Proof. intros H E. pose proof (sim_m _ _ H k) as P. rewrite E in P. unfold orel in P.
  destruct (aget (mgrs s') k) as [m'|]; [eauto|tauto]. Qed.

(* irrelevant record / manager updates, as used by the AOF pushes *)
Lemma lsame_same_rel l l' : lsame l l' -> same_rel l l' /\ l_tT l' = l_tT l /\ l_eT l' = l_eT l.
Proof. unfold lsame, same_rel. intros ->. destruct l; cbn. intuition. Qed.

Lemma updl_lsame_ginv s g r f : GInv s g -> (forall l, lsame l (f l)) -> GInv (updl s r f) g.
Proof. intros G H. apply updl_irrel; auto. intros l _. destruct (lsame_same_rel _ _ (H l)) as [A [B C]]. auto. Qed.
Lemma updm_msame_ginv s g k f : GInv s g -> (forall m, msame m (f m)) -> GInv (updm s k f) g.
Proof. intros G H. apply updm_scalar; auto. intros m. rewrite (H m). destruct m; cbn. auto. Qed.

Lemma push_lock_aof_ok s g k r fl : GInv s g ->
  GInv (fst (push_lock_aof s k r fl)) g /\ sim s (fst (push_lock_aof s k r fl)).
Proof.
  intros G. unfold push_lock_aof. destruct (negb (leader s)); [split; [auto|apply sim_refl]|].
  destruct (has (c_flag (l_cmd (getl s r))) LOCK_FLAG_FROM_AOF).
  - cbn [fst]. split; [apply updl_lsame_ginv; auto|apply sim_updl]; intros l; destruct l; reflexivity.
  - destruct (aof_lock_data true (m_data (getm s k)) (l_data (getl s r))) as [[data cur'] ld']. cbn [fst].
    split.
    + apply updl_lsame_ginv; [apply updl_lsame_ginv; [apply updm_msame_ginv; auto|]|]; intros l; destruct l; reflexivity.
    + eapply sim_trans; [eapply sim_trans; [apply sim_updm|apply sim_updl]|apply sim_updl]; intros l; destruct l; reflexivity.
Qed.

Lemma push_unlock_aof_ok s g k r lc uc isaof fl : GInv s g ->
  GInv (fst (push_unlock_aof s k r lc uc isaof fl)) g /\ sim s (fst (push_unlock_aof s k r lc uc isaof fl)).
Proof.
  intros G. unfold push_unlock_aof. destruct (negb (leader s)); [split; [auto|apply sim_refl]|].
  destruct (match uc with Some u => has (c_flag u) UNLOCK_FLAG_FROM_AOF | None => false end).
  - cbn [fst]. split; [apply updl_lsame_ginv; auto|apply sim_updl]; intros l; destruct l; reflexivity.
  - destruct (aof_lock_data false (m_data (getm s k)) (l_data (getl s r))) as [[data cur'] ld']. cbn [fst].
    split.
    + apply updl_lsame_ginv; [apply updl_lsame_ginv; [apply updm_msame_ginv; auto|]|]; intros l; destruct l; reflexivity.
    + eapply sim_trans; [eapply sim_trans; [apply sim_updm|apply sim_updl]|apply sim_updl]; intros l; destruct l; reflexivity.
Qed.

Lemma repeat_push_lock_aof_ok n s g k r : GInv s g ->
  GInv (fst (repeat_push_lock_aof n s k r)) g /\ sim s (fst (repeat_push_lock_aof n s k r)).
Proof.
  revert s. induction n as [|n IH]; intros s G; simpl; [split; [auto|apply sim_refl]|].
  destruct (push_lock_aof_ok s g k r 0 G) as [G1 S1].
  destruct (push_lock_aof s k r 0) as [s1 e1]. cbn [fst] in *.
  destruct (IH s1 G1) as [G2 S2]. destruct (repeat_push_lock_aof n s1 k r) as [s2 e2]. cbn [fst] in *.
  split; auto. eapply sim_trans; eauto.
Qed.

Lemma process_data_core s k r c recov : c_data c = None -> process_data s k r c recov = (s, []).
Proof. intros H. unfold process_data. rewrite H. reflexivity. Qed.
