(* Timer theorems, part 15: C05 (c).  Whenever Lock answers TIMEOUT itself (Timeout = 0 and not accepted, the
   concurrent-check pre-checks, or the timeout-when-data flag), nothing of the request is retained: the record that
   was allocated for it is freed again, all other records, every wait queue and both timeout structures are as before. *)
From Coq Require Import String ZifyN ZifyBool ZifyNat.
From Slock Require Import Engine.Types Engine.Queues Engine.Timers Engine.Engine Engine.Engine2 Engine.TimeBase.
From Slock Require Import Engine.TimeEvents Engine.TimeEvLock.
Open Scope N_scope.

Definition retained_nothing (s s' : db) : Prop :=
  twheel s' = twheel s /\ tlong s' = tlong s /\ ewheel s' = ewheel s /\ elong s' = elong s
  /\ aget (store s') (next s) = None
  /\ (forall r, r <> next s -> aget (store s') r = aget (store s) r)
  /\ (forall k', aget (mgrs s') k' = None \/ m_wait (getm s' k') = m_wait (getm s k')).

Lemma tview_wheels s s' : tview s' = tview s ->
  twheel s' = twheel s /\ tlong s' = tlong s /\ ewheel s' = ewheel s /\ elong s' = elong s.
Proof. unfold tview. intros H. injection H as _ _ _ _ _ _ A B C D. auto. Qed.

Lemma retained_refl s : aget (store s) (next s) = None -> retained_nothing s s.
Proof. intros H. repeat split; auto. Qed.

(* the L7 exit: new record, freed at once, manager dropped if nothing refers to it *)
Lemma retained_L7 s s0 k conn c :
  aget (store s) (next s) = None ->
  store s0 = store s -> next s0 = next s -> twheel s0 = twheel s -> tlong s0 = tlong s -> ewheel s0 = ewheel s ->
  elong s0 = elong s -> (forall k', m_wait (getm s0 k') = m_wait (getm s k')) ->
  retained_nothing s (remove_mgr_if_unref (free_lock (fst (new_lock s0 k conn c)) (next s)) k).
Proof.
  intros FR E1 E2 E3 E4 E5 E6 E7.
  set (s1 := fst (new_lock s0 k conn c)).
  assert (exists l, forall x, aget (store s1) x = if next s =? x then Some l else aget (store s) x) as (lnew & ST1).
  { unfold s1, new_lock. cbn [fst]. eexists. intros x. rewrite (tview_store _ _ (updm_tview _ _ _)).
    match goal with |- aget (store (?y <| store := ?m |> <| next := ?n |>)) x = _ =>
      change (store (y <| store := m |> <| next := n |>)) with m end.
    rewrite aget_aset, E2, E1. reflexivity. }
  assert (twheel s1 = twheel s /\ tlong s1 = tlong s /\ ewheel s1 = ewheel s /\ elong s1 = elong s) as (W1 & W2 & W3 & W4).
  { unfold s1, new_lock. cbn [fst]. destruct (tview_wheels _ _ (updm_tview (s0 <| store := aset (store s0) (next s0) lnew |> <| next := next s0 + 1 |>) k (fun m => m <| m_ref := add32 (m_ref m) 1 |>))) as (A & B & C & D).
    unfold updm. destruct (aget (mgrs _) k); cbn; repeat split; auto. }
  assert (forall k', m_wait (getm s1 k') = m_wait (getm s k')) as M1.
  { intros k'. rewrite <- E7. unfold s1, new_lock. cbn [fst]. unfold getm, updm.
    match goal with |- context [aget (mgrs ?y) k] => change (mgrs y) with (mgrs s0) end.
    destruct (aget (mgrs s0) k) eqn:G; auto. unfold setm.
    match goal with |- context [mgrs (?y <| mgrs := ?m |>)] => change (mgrs (y <| mgrs := m |>)) with m end.
    rewrite aget_aset. destruct (k =? k') eqn:E; auto. apply N.eqb_eq in E; subst k'. rewrite G. reflexivity. }
  set (s2 := free_lock s1 (next s)).
  assert (forall x, aget (store s2) x = if next s =? x then None else aget (store s) x) as ST2.
  { intros x. unfold s2, free_lock. destruct (aget (store s1) (next s)) as [l|] eqn:G.
    - rewrite (tview_store _ _ (updm_tview _ _ _)).
      match goal with |- context [store (?y <| store := ?m |>)] => change (store (y <| store := m |>)) with m end.
      rewrite aget_adel. destruct (next s =? x) eqn:E; auto. rewrite ST1, E. reflexivity.
    - rewrite ST1 in G. rewrite N.eqb_refl in G. discriminate. }
  assert (twheel s2 = twheel s /\ tlong s2 = tlong s /\ ewheel s2 = ewheel s /\ elong s2 = elong s) as (V1 & V2 & V3 & V4).
  { unfold s2, free_lock. destruct (aget (store s1) (next s)) as [lf|]; [|repeat split; auto]. unfold updm. destruct (aget (mgrs _) (l_key lf)); cbn; repeat split; auto. }
  assert (forall k', m_wait (getm s2 k') = m_wait (getm s k')) as M2.
  { intros k'. rewrite <- M1. unfold s2, free_lock. destruct (aget (store s1) (next s)) as [l|]; auto.
    unfold getm, updm.
    match goal with |- context [aget (mgrs (?y <| store := ?m |>)) ?kk] => change (mgrs (y <| store := m |>)) with (mgrs s1) end.
    destruct (aget (mgrs s1) (l_key l)) eqn:G; auto. unfold setm.
    match goal with |- context [mgrs (?y <| mgrs := ?m |>)] => change (mgrs (y <| mgrs := m |>)) with m end.
    rewrite aget_aset. destruct (l_key l =? k') eqn:E; auto. apply N.eqb_eq in E; subst k'. rewrite G. reflexivity. }
  pose proof (remove_mgr_tview s2 k) as TV. unfold tview in TV. injection TV as T1 T2 T3 T4 T5 T6 T7 T8 T9 T10.
  unfold retained_nothing. rewrite T6, T7, T8, T9, T10. lsplit; auto.
  - rewrite ST2, N.eqb_refl. reflexivity.
  - intros x NE. rewrite ST2. destruct (next s =? x) eqn:E; auto. apply N.eqb_eq in E. congruence.
  - intros k'. unfold remove_mgr_if_unref. destruct (aget (mgrs s2) k) eqn:G; auto. destruct (m_ref m =? 0); auto.
    destruct (N.eq_dec k k') as [<-|NE].
    + left. cbn. apply aget_adel_same.
    + right. rewrite <- M2. unfold getm. cbn. rewrite aget_adel_other; auto.
Qed.

Lemma getm_fresh_wait s k f k' : aget (mgrs s) k = None ->
  m_wait (getm (bump f (setm s k new_mgr)) k') = m_wait (getm s k').
Proof.
  intros G. unfold getm, bump, updc, setm. cbn. destruct (k =? k') eqn:E.
  - apply N.eqb_eq in E; subst k'. rewrite G. reflexivity.
  - fold (aget (adel (mgrs s) k) k'). rewrite aget_adel_other; auto. apply N.eqb_neq; auto.
Qed.

Theorem lock_timeout_retains_nothing s conn c :
  aget (store s) (next s) = None ->
  forall e, In e (snd (fst (lock_step s conn c))) -> is_tr e = true ->
  retained_nothing s (fst (fst (lock_step s conn c))).
Proof.
  intros FR. unfold lock_step. cbv zeta.
  repeat break_inner_e; cbn [fst snd];
  repeat match goal with
  | E : update_and_rearm ?s0 ?k ?r ?c0 = (_, ?ev) |- _ =>
      lazymatch goal with Q : quiet ev |- _ => fail | _ =>
        let Q := fresh "Q" in pose proof (quiet_update_and_rearm s0 k r c0) as Q; rewrite E in Q; cbn [snd] in Q end
  end; quiet_hyps;
  intros e I TR; repeat (apply in_app_iff in I; destruct I as [I|I]);
  try (match goal with Q : quiet ?ev, I : In e ?ev |- _ => destruct (Q e I); congruence end);
  cbn [In] in I;
  repeat (destruct I as [<-|I]; [try (cbn in TR; discriminate TR)|]); try (destruct I).
  all: try (apply retained_refl; exact FR).
  all: repeat match goal with E : new_lock _ _ _ _ = (_, _) |- _ =>
         let E1 := fresh in let E2 := fresh in
         pose proof (f_equal fst E) as E1; pose proof (f_equal snd E) as E2; cbn [fst snd] in E1, E2;
         rewrite <- E1, <- E2; clear E end.
  all: first [ apply retained_L7; auto; intros k'; reflexivity
             | apply retained_L7; auto; intros k'; apply getm_fresh_wait; assumption ].
Qed.
