(* The reference-count floor, part 2: the invariant JR (J1 /\ J3 /\ J4 per stored record), how it is transported by
   the frames of RunDrainFloor.v, and what the reachability invariant says about the target record of a section. *)
From Coq Require Import String ZifyN ZifyBool ZifyNat Permutation.
From Slock Require Import Engine.Types Engine.Queues Engine.Timers Engine.Engine Engine.Engine2 Engine.InvDef Engine.InvBase
  Engine.InvPrims Engine.InvRec Engine.InvWheel Engine.InvQueue Engine.InvQueue2 Engine.InvSteps Engine.InvLockDefs Engine.InvLock
  Engine.InvUnlock Engine.LocalBase Engine.LocalFrames Engine.LocalC04 Engine.LocalWake Engine.RunDrain Engine.RunDrainQ Engine.RunDrainSteps
  Engine.RunDrainFloor.
Open Scope N_scope.

Definition JRr (s : db) (xe : list ref) (r : ref) (l : lockrec) : Prop :=
  l_refc l <> 0 /\ (0 < l_locked l -> Ein s xe r) /\ (l_expried l = true -> l_locked l = 0).
Definition JR (s : db) (xe : list ref) : Prop := forall r l, aget (store s) r = Some l -> JRr s xe r l.

(* records other than the target carry their clauses along *)
Lemma JRr_transfer T s s' xe xe' r l' :
  JR s xe -> NF T T s s' -> (forall y, T <> Some y -> In y xe -> In y xe') ->
  T <> Some r -> aget (store s') r = Some l' -> JRr s' xe' r l'.
Proof.
  intros HJ [HR HW] Hx HT Hl. destruct (HR r l' HT Hl) as (l & E & (_ & N1 & N2 & N3)).
  destruct (HJ r l E) as (A & B & C). split; [auto|]. split.
  - rewrite N1. intros Hd. destruct (B Hd) as [[key P]|[[key P]|P]].
    + left. exists key. apply (HW key r HT). exact P.
    + right. left. exists key. apply (HW key r HT). exact P.
    + right. right. auto.
  - rewrite N1, N2. exact C.
Qed.
Lemma JR_transfer T s s' xe xe' :
  JR s xe -> NF T T s s' -> (forall y, T <> Some y -> In y xe -> In y xe') ->
  (forall t l', T = Some t -> aget (store s') t = Some l' -> JRr s' xe' t l') -> JR s' xe'.
Proof.
  intros HJ HN Hx Ht r l' Hl. destruct T as [t|].
  - destruct (N.eq_dec r t) as [->|Hne]; [apply (Ht t l' eq_refl Hl)|].
    apply (JRr_transfer (Some t) s s' xe xe' r l' HJ HN Hx); [congruence|exact Hl].
  - apply (JRr_transfer None s s' xe xe' r l' HJ HN Hx); [discriminate|exact Hl].
Qed.
Lemma JR_transfer_all s s' xe : JR s xe -> NF None None s s' -> JR s' xe.
Proof. intros HJ HN. apply (JR_transfer None s s' xe xe HJ HN); [auto|discriminate]. Qed.

(* ---------------------------------------------------------------- the target record, from the invariant of the end state *)
Lemma Ein_ecount s xt xe k r : Ein s xe r -> (1 <= ecount s (gk xt xe k) r)%nat.
Proof.
  intros [[key P]|[[key P]|P]]; unfold ecount, gk; gs.
  - apply in_wheel_get_wrefs in P. apply occ_In in P. lia.
  - apply in_wheel_get_wrefs in P. apply occ_In in P. lia.
  - apply occ_In in P. lia.
Qed.

Lemma ginv_refc s xt xe k r l : GInv s (gk xt xe k) -> aget (store s) r = Some l ->
  N.to_nat (l_refc l) = (occ r (holders (getm s (l_key l))) + occ r (m_wq (getm s (l_key l))) + tcount s (gk xt xe k) r + ecount s (gk xt xe k) r)%nat.
Proof. intros G Hr. pose proof (ro_refc _ _ _ _ (gi_rec _ _ G r l Hr)) as R. unfold gk in R at 1 2 5. gs. simpl in R. lia. Qed.

Lemma JRr_held s xt xe k r l : GInv s (gk xt xe k) -> aget (store s) r = Some l ->
  0 < l_locked l -> l_expried l = false -> Ein s xe r -> JRr s xe r l.
Proof.
  intros G Hr Hd He Hi. pose proof (ginv_refc s xt xe k r l G Hr) as R.
  pose proof (ro_held _ _ _ _ (gi_rec _ _ G r l Hr) Hd eq_refl) as H1.
  split; [lia|]. split; [auto|]. congruence.
Qed.
Lemma JRr_live s xt xe k r l : GInv s (gk xt xe k) -> aget (store s) r = Some l -> l_timeouted l = false -> JRr s xe r l.
Proof.
  intros G Hr Ht. pose proof (ginv_refc s xt xe k r l G Hr) as R.
  destruct (ro_live _ _ _ _ (gi_rec _ _ G r l Hr) Ht) as [_ [_ [Q3 Q4]]].
  split; [lia|]. split; [lia|auto].
Qed.
Lemma JRr_refc s xe r l : l_refc l <> 0 -> l_locked l = 0 -> JRr s xe r l.
Proof. intros H1 H2. split; [auto|]. split; [lia|auto]. Qed.
Lemma JRr_ref_wq s xt xe k r l : GInv s (gk xt xe k) -> aget (store s) r = Some l -> l_locked l = 0 ->
  In r (m_wq (getm s (l_key l))) -> JRr s xe r l.
Proof.
  intros G Hr Hd Hi. pose proof (ginv_refc s xt xe k r l G Hr) as R. apply occ_In in Hi.
  apply JRr_refc; [lia|exact Hd].
Qed.
Lemma JRr_ref_e s xt xe k r l : GInv s (gk xt xe k) -> aget (store s) r = Some l -> l_locked l = 0 -> Ein s xe r -> JRr s xe r l.
Proof.
  intros G Hr Hd Hi. pose proof (ginv_refc s xt xe k r l G Hr) as R. pose proof (Ein_ecount s xt xe k r Hi).
  apply JRr_refc; [lia|exact Hd].
Qed.
Lemma JRr_ref_xt s xt xe k r l : GInv s (gk xt xe k) -> aget (store s) r = Some l -> l_locked l = 0 -> In r xt -> JRr s xe r l.
Proof.
  intros G Hr Hd Hi. pose proof (ginv_refc s xt xe k r l G Hr) as R. apply occ_In in Hi.
  assert (1 <= tcount s (gk xt xe k) r)%nat by (unfold tcount, gk; gs; lia).
  apply JRr_refc; [lia|exact Hd].
Qed.

(* ---------------------------------------------------------------- granting a hold: what the granted record looks like *)
Lemma al_rec_locked x k l : l_locked (al_rec x k l) = 1 /\ l_key (al_rec x k l) = l_key l.
Proof.
  unfold al_rec. cbv zeta. destruct (has (c_tflag (l_cmd l)) TF_UNRENEW); destruct (has (c_flag (l_cmd l)) LOCK_FLAG_FROM_AOF);
    destruct (has (c_tflag (l_cmd l)) TF_REQUIRE_ACKED); split; reflexivity.
Qed.

Lemma NF_add_lock_after x k r : NF None None (setl x r (al_rec x k (getl x r))) (add_lock x k r).
Proof.
  rewrite add_lock_eq. cbv zeta. destruct (m_cur (getm x k)); [|nf].
  destruct (hq_push _ _ r) as [x1 q1] eqn:E. apply NF_updm. eapply NF_hq_push; [exact E|apply NF_refl].
Qed.

Lemma grant_core_target x k r xe l' : aget (store (grant_core x k r)) r = Some l' ->
  l_locked l' = 1 /\ l_expried l' = false /\ Ein (grant_core x k r) xe r.
Proof.
  unfold grant_core. cbv zeta. intros H.
  set (x2 := updm (add_lock x k r) k (fun m => m <| m_locked := add32 (m_locked m) 1 |>)) in *.
  rewrite aget_store_updl, N.eqb_refl in H.
  destruct (aget (store (fst (add_expried x2 k r))) r) as [l3|] eqn:E3; [|discriminate]. simpl in H. inv H.
  destruct (add_expried_rec x2 k r l3 E3) as (l2 & E2 & L2 & X2 & _).
  unfold x2 in E2. rewrite store_updm in E2.
  destruct (NF_add_lock_after x k r) as [A _]. destruct (A r l2) as (l1 & E1 & (_ & N1 & _)); [discriminate|exact E2|].
  rewrite store_setl, aget_aset_same in E1. inv E1.
  split; [cbn; rewrite L2, N1; apply al_rec_locked|]. split; [exact X2|].
  pose proof (add_expried_in x2 k r xe) as P. unfold Ein in *. rewrite ew_updl, el_updl. exact P.
Qed.

Lemma NF_grant_core s x k r : NF (Some r) (Some r) s x -> NF (Some r) (Some r) s (grant_core x k r).
Proof. intros H. unfold grant_core. cbv zeta. apply NF_updl_T. apply NF_fst_add_expried. apply NF_updm. apply NF_add_lock. exact H. Qed.

Lemma NF_wg_pre s x r : NF (Some r) (Some r) s x -> NF (Some r) (Some r) s (wg_pre x r).
Proof. intros H. unfold wg_pre. cbv zeta. nf. Qed.

(* ---------------------------------------------------------------- wakeUpWaitLocks *)
Lemma wake_iter_JR s xt xe k w : GInv s (gk xt xe k) -> w_key w = k -> JR s xe -> JR (fst (fst (wake_iter s w))) xe.
Proof.
  intros G Hw HJ. pose proof (wake_iter_ginv s xt xe k w G Hw) as GE.
  unfold wake_iter in *. rewrite Hw in *. destruct (aget (mgrs s) k) as [m|] eqn:Hm; [|exact HJ].
  destruct (negb (m_waited m)); [exact HJ|].
  pose proof (get_wait_lock_ginv s (gk xt xe k) k G) as P.
  destruct (get_wait_lock s k) as [s1 wl] eqn:Egw. destruct P as [G1 [LF [_ [_ [_ P4]]]]]; auto.
  assert (N1 : NF None None s s1) by (eapply NF_get_wait_lock; [exact Egw|apply NF_refl]).
  pose proof (JR_transfer_all s s1 xe HJ N1) as J1.
  destruct wl as [r|].
  - destruct P4 as [Hin [l [Hr Ht]]].
    assert (Hkey : l_key l = k) by (apply (ginv_KH_wq s1 _ k G1 r Hin l Hr)).
    destruct (negb (do_lock s1 k r)) eqn:Ed; [exact J1|].
    destruct (wake_grant s1 k r (w_conn w)) as [s2 ev] eqn:Eg. cbn [fst] in *.
    assert (Es2 : s2 = fst (wake_grant s1 k r (w_conn w))) by (rewrite Eg; reflexivity).
    assert (Hcore : cmd_core (l_cmd (getl s1 r))) by (rewrite (getl_some _ _ _ Hr); apply (ro_cmd _ _ _ _ (gi_rec _ _ G1 r l Hr))).
    assert (Hlive : dead_waiter (getl s1 r) = false).
    { rewrite (getl_some _ _ _ Hr). rewrite (dead_waiter_timeouted s1 _ r l G1 Hr). exact Ht. }
    destruct (wake_grant_spec _ _ _ _ _ _ Eg Hlive) as [Hms _].
    destruct (wg_pre_ginv s1 xt xe k r l G1 Hr Ht) as [Gp [l2 [Hr2 [K2 [_ [D2 _]]]]]].
    pose proof (NF_wg_pre s1 s1 r (NF_refl _ _ _)) as Np.
    rewrite (wake_grant_state s1 k r (w_conn w) Hcore) in Es2. cbv zeta in Es2.
    destruct (0 <? c_expried (l_cmd (getl s1 r))).
    + (* a hold *)
      pose proof (NF_grant_core s1 (wg_pre s1 r) k r Np) as Ng.
      pose proof (grant_core_target (wg_pre s1 r) k r xe) as Tg.
      remember (grant_core (wg_pre s1 r) k r) as y eqn:Ey.
      assert (Est : store s2 = store y) by (rewrite Es2; reflexivity).
      assert (Eew : ewheel s2 = ewheel y) by (rewrite Es2; reflexivity).
      assert (Eel : elong s2 = elong y) by (rewrite Es2; reflexivity).
      apply (JR_transfer (Some r) s1 s2 xe xe J1); [rewrite Es2; apply NF_bump; exact Ng|auto|].
      intros t l' Et Hl'. assert (t = r) by congruence. subst t. assert (Hl2 := Hl'). rewrite Est in Hl2.
      destruct (Tg l' Hl2) as (A & B & C).
      apply (JRr_held s2 xt xe k r l' GE Hl'); [lia|exact B|]. unfold Ein in *. rewrite Eew, Eel. exact C.
    + (* no hold: the record stays in the wait queue as a tombstone *)
      assert (N2 : NF None None (wg_pre s1 r) s2).
      { rewrite Es2. apply NF_bump. unfold wg_nohold. destruct (has_data_flag (l_cmd (getl s1 r))); [|apply NF_refl]. cbv zeta.
        destruct (_ && _); [|apply NF_refl]. apply NF_fst_push_lock_aof. apply NF_refl. }
      apply (JR_transfer (Some r) s1 s2 xe xe J1); [eapply NF_trans; [exact Np|apply NF_weaken; exact N2]|auto|].
      intros t l' Et Hl'. assert (t = r) by congruence. subst t.
      destruct N2 as [N2 _]. destruct (N2 r l') as (l0 & E0 & (Nk & Nd & _)); [discriminate|exact Hl'|].
      rewrite Hr2 in E0. assert (l0 = l2) by congruence. subst l0.
      assert (Hk' : l_key l' = k) by congruence.
      apply (JRr_ref_wq s2 xt xe k r l' GE Hl'); [congruence|]. rewrite Hk'.
      destruct (aget (mgrs s2) k) as [m2|] eqn:Hm2.
      * destruct (Hms k m2) as (m1 & Hm1 & Hle); [discriminate|exact Hm2|]. unfold Lrel, eq_wait in Hle.
        rewrite (getm_some _ _ _ Hm2). rewrite (getm_some _ _ _ Hm1) in Hin. unfold m_wq in *. rewrite Hle. exact Hin.
      * exfalso. apply (ro_mgr _ _ _ _ (gi_rec _ _ GE r l' Hl')). rewrite Hk'. exact Hm2.
  - cbn [fst] in *. eapply JR_transfer_all; [exact J1|]. apply NF_remove_mgr. apply NF_updm. apply NF_refl.
Qed.

Lemma run_wake_JR fuel : forall s xt xe k w, GInv s (gk xt xe k) -> w_key w = k -> JR s xe -> JR (fst (run_wake fuel s w)) xe.
Proof.
  induction fuel as [|f IH]; intros s xt xe k w G Hw HJ; simpl; [exact HJ|].
  pose proof (wake_iter_ginv s xt xe k w G Hw) as G1. pose proof (wake_iter_JR s xt xe k w G Hw HJ) as J1.
  destruct (wake_iter s w) as [[s' ev] [|]]; cbn [fst] in *; [exact J1|].
  specialize (IH s' xt xe k w G1 Hw J1). destruct (run_wake f s' w) as [s'' ev']. exact IH.
Qed.

Lemma finish_JR s ev w xt xe k : GInv s (gk xt xe k) -> (forall w0, w = Some w0 -> w_key w0 = k) -> JR s xe ->
  JR (fst (finish (s, ev, w))) xe.
Proof.
  intros G Hw HJ. unfold finish. destruct w as [w0|]; [|exact HJ].
  pose proof (run_wake_JR (wake_fuel s (w_key w0)) s xt xe k w0 G (Hw w0 eq_refl) HJ) as P.
  destruct (run_wake (wake_fuel s (w_key w0)) s w0) as [s' ev']. exact P.
Qed.

(* ---------------------------------------------------------------- the same target facts for a general rest ghost
   (no owed / popped / pre-counted references; counters may be pending) *)
Definition rest_ghost (g : ghost) : Prop := g_owe g = [] /\ g_ph g = [] /\ g_pre g = [].

Lemma ginv_refc_g s g r l : GInv s g -> rest_ghost g -> aget (store s) r = Some l ->
  N.to_nat (l_refc l) = (occ r (holders (getm s (l_key l))) + occ r (m_wq (getm s (l_key l))) + tcount s g r + ecount s g r)%nat.
Proof.
  intros G (H1 & H2 & H3) Hr. pose proof (ro_refc _ _ _ _ (gi_rec _ _ G r l Hr)) as R. rewrite H1, H2, H3 in R. simpl in R. lia.
Qed.
Lemma Ein_ecount_g s g r : Ein s (g_xe g) r -> (1 <= ecount s g r)%nat.
Proof.
  intros [[key P]|[[key P]|P]]; unfold ecount.
  - apply in_wheel_get_wrefs in P. apply occ_In in P. lia.
  - apply in_wheel_get_wrefs in P. apply occ_In in P. lia.
  - apply occ_In in P. lia.
Qed.
Lemma JRr_ref_wq_g s g xe r l : GInv s g -> rest_ghost g -> aget (store s) r = Some l -> l_locked l = 0 ->
  In r (m_wq (getm s (l_key l))) -> JRr s xe r l.
Proof.
  intros G Hg Hr Hd Hi. pose proof (ginv_refc_g s g r l G Hg Hr) as R. apply occ_In in Hi.
  apply JRr_refc; [lia|exact Hd].
Qed.
Lemma JRr_ref_e_g s g r l : GInv s g -> rest_ghost g -> aget (store s) r = Some l -> l_locked l = 0 ->
  Ein s (g_xe g) r -> JRr s (g_xe g) r l.
Proof.
  intros G Hg Hr Hd Hi. pose proof (ginv_refc_g s g r l G Hg Hr) as R. pose proof (Ein_ecount_g s g r Hi).
  apply JRr_refc; [lia|exact Hd].
Qed.
