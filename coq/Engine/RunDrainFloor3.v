(* The reference-count floor, part 3: LockDB.Lock. *)
From Coq Require Import String ZifyN ZifyBool ZifyNat Permutation.
From Slock Require Import Engine.Types Engine.Queues Engine.Timers Engine.Engine Engine.Engine2 Engine.InvDef Engine.InvBase
  Engine.InvPrims Engine.InvRec Engine.InvWheel Engine.InvQueue Engine.InvQueue2 Engine.InvSteps Engine.InvLockDefs Engine.InvLock
  Engine.InvUnlock Engine.LocalBase Engine.RunDrain Engine.RunDrainQ Engine.RunDrainSteps
  Engine.RunDrainFloor Engine.RunDrainFloor2.
Open Scope N_scope.

(* a held target record at the end of a section *)
Lemma JR_held_finish s s' xt xe k r : GInv s' (gk xt xe k) -> JR s xe -> NF (Some r) (Some r) s s' -> TG s' xe r -> JR s' xe.
Proof.
  intros GE HJ HN [(l & E & A & B) C]. apply (JR_transfer (Some r) s s' xe xe HJ HN); [auto|].
  intros t l' Et Hl'. assert (t = r) by congruence. subst t. rewrite E in Hl'. inv Hl'.
  apply (JRr_held s' xt xe k r l' GE E A B C).
Qed.

Lemma TG_of_JR s xe r l : JR s xe -> aget (store s) r = Some l -> 0 < l_locked l -> TG s xe r.
Proof.
  intros HJ Hr Hd. destruct (HJ r l Hr) as (A & B & C). split; [|auto].
  exists l. split; [exact Hr|]. split; [exact Hd|]. destruct (l_expried l); auto. specialize (C eq_refl). lia.
Qed.

Lemma ls_update_JR s xt xe conn c1 k m r l ldata :
  GInv s (gk xt xe k) -> aget (mgrs s) k = Some m -> cmd_core c1 ->
  aget (store s) r = Some l -> l_key l = k -> 0 < l_locked l -> c_lockid (l_cmd l) = c_lockid c1 ->
  l_timeouted l = true -> occ r (holders m) = 1%nat -> JR s xe ->
  exists res, ls_update s conn c1 k m r l ldata = (Some res, c1, m_waited m) /\ JR (fst (fst res)) xe.
Proof.
  intros G Hm Hc1 Hr Hkey Hd Hid Ht Hh HJ.
  destruct (ls_update_ok s xt xe conn c1 k m r l ldata G Hm Hc1 Hr Hkey Hd Hid Ht Hh) as [res [E [GE _]]].
  exists res. split; [exact E|].
  pose proof (TG_of_JR s xe r l HJ Hr Hd) as T0. pose proof (NF_refl (Some r) (Some r) s) as N0.
  unfold ls_update in E. cbv zeta in E. repeat (split_hyp E); inv_tuple E; some_subst; cbn [fst] in *.
  all: first [exact HJ | (apply (JR_held_finish s _ xt xe k r GE HJ); [nf|tg]) | idtac].
Qed.

Lemma ls_relock_JR s xt xe conn c1 k m r l ldata :
  GInv s (gk xt xe k) -> aget (mgrs s) k = Some m -> cmd_core c1 -> next s < MAXREC ->
  aget (store s) r = Some l -> l_key l = k -> 0 < l_locked l -> c_lockid (l_cmd l) = c_lockid c1 ->
  l_timeouted l = true -> occ r (holders m) = 1%nat -> l_locked l < 255 -> JR s xe ->
  exists res, ls_relock s conn c1 k m r l ldata = (Some res, c1, m_waited m) /\ JR (fst (fst res)) xe.
Proof.
  intros G Hm Hc1 Hb Hr Hkey Hd Hid Ht Hh Hlt HJ.
  destruct (ls_relock_ok s xt xe conn c1 k m r l ldata G Hm Hc1 Hb Hr Hkey Hd Hid Ht Hh Hlt) as [res [E [GE _]]].
  exists res. split; [exact E|].
  pose proof (TG_of_JR s xe r l HJ Hr Hd) as T0. pose proof (NF_refl (Some r) (Some r) s) as N0.
  unfold ls_relock in E. destruct (c_expried c1 =? 0).
  { inv_tuple E; some_subst. exact HJ. }
  cbv zeta in E.
  set (x1 := updl (updm s k (fun m0 => m0 <| m_locked := add32 (m_locked m0) 1 |>)) r (fun l0 => l0 <| l_locked := add8 (l_locked l0) 1 |>)) in *.
  assert (T1 : TG x1 xe r).
  { destruct T0 as [_ C]. split.
    - assert (E1 : aget (store (updm s k (fun m0 => m0 <| m_locked := add32 (m_locked m0) 1 |>))) r = Some l) by (rewrite store_updm; exact Hr).
      exists (l <| l_locked := add8 (l_locked l) 1 |>). split; [unfold x1; rewrite aget_store_updl, N.eqb_refl, E1; reflexivity|].
      destruct (HJ r l Hr) as (_ & _ & J4). cbn. split; [rewrite add8_succ; lia|].
      destruct (l_expried l); auto. specialize (J4 eq_refl). lia.
    - unfold Ein in *. unfold x1. rewrite ew_updl, el_updl, ew_updm, el_updm. exact C. }
  assert (N1 : NF (Some r) (Some r) s x1) by (unfold x1; nf).
  clearbody x1.
  repeat (split_hyp E); inv_tuple E; some_subst; cbn [fst] in *.
  all: apply (JR_held_finish s _ xt xe k r GE HJ); [nf|tg].
Qed.

Lemma ls_held_JR s xt xe conn c k m :
  GInv s (gk xt xe k) -> aget (mgrs s) k = Some m -> cmd_core c -> next s < MAXREC -> JR s xe ->
  match ls_held s conn c k m with
  | (Some res, _, _) => JR (fst (fst res)) xe
  | (None, _, _) => True
  end.
Proof.
  intros G Hm Hc Hb HJ. rewrite ls_held_eq.
  destruct (0 <? m_locked m).
  - cbv zeta.
    set (curl := getl s match m_cur m with Some cr => cr | None => 0 end).
    set (c1 := if has (c_flag c) LOCK_FLAG_SHOW then c <| c_lockid := c_lockid (l_cmd curl) |> else c).
    assert (Hc1 : cmd_core c1) by (unfold c1; destruct (has (c_flag c) LOCK_FLAG_SHOW); [apply cmd_core_lockid|]; auto).
    destruct (has (c_flag c) LOCK_FLAG_SHOW && negb (has (c_flag c) LOCK_FLAG_UPDATE)); [exact HJ|].
    destruct (get_locked_lock s m (c_lockid c1)) as [r|] eqn:Eg; [|exact I].
    destruct (get_locked_lock_spec s xt xe k m _ r G Hm Eg) as [l [Hr [Hkey [Hd [Hid [Ht Hh]]]]]].
    rewrite (getl_some _ _ _ Hr).
    destruct (negb (l_ack l =? 255)); [exact HJ|].
    destruct (has (c_flag c1) LOCK_FLAG_UPDATE).
    + destruct (ls_update_JR s xt xe conn c1 k m r l (data_of s k) G Hm Hc1 Hr Hkey Hd Hid Ht Hh HJ) as [res [E R]]. rewrite E. exact R.
    + destruct ((l_locked l <? 255) && (l_locked l <=? c_rcount c1) && negb (has (c_tflag c1) TF_PRIORITY)) eqn:Erl; [|exact HJ].
      apply andb_true_iff in Erl. destruct Erl as [Erl _]. apply andb_true_iff in Erl. destruct Erl as [Erl _]. apply N.ltb_lt in Erl.
      destruct (ls_relock_JR s xt xe conn c1 k m r l (data_of s k) G Hm Hc1 Hb Hr Hkey Hd Hid Ht Hh Erl HJ) as [res [E R]]. rewrite E. exact R.
  - destruct (has (c_tflag c) TF_WAIT_WHEN_UNLOCK); [destruct (m_waited m && (c_count c =? 0))|]; auto.
Qed.

(* ---------------------------------------------------------------- the new lock record *)
Lemma NF_new_lock Tw s k conn c : NF (Some (next s)) Tw s (fst (new_lock s k conn c)).
Proof.
  unfold new_lock. cbn [fst]. apply NF_updm. split.
  - intros r0 l' HT Hl.
    match type of Hl with aget (store ?X) r0 = _ => change (store X) with (aset (store s) (next s) (mkLock k c conn None (now s)
      (if has (c_tflag c) TF_UNRENEW then expiry_deadline c (now s) else 0%Z) (timeout_deadline c (now s)) false 1
      (if has (c_tflag c) TF_UNRENEW then initial_ecc c (if has (c_tflag c) TF_UNRENEW then expiry_deadline c (now s) else 0%Z) (now s) else 1)
      0 0 255 true true 0 false)) in Hl end.
    rewrite aget_aset in Hl. destruct (next s =? r0) eqn:E; [apply N.eqb_eq in E; exfalso; apply HT; rewrite E; reflexivity|].
    exists l'. split; [exact Hl|apply ntr_refl].
  - intros key r0 _. auto.
Qed.

Lemma add_timeout_live x r l' : aget (store (add_timeout x r)) r = Some l' -> l_timeouted l' = false.
Proof.
  unfold add_timeout. cbv zeta. set (x1 := updl x r (fun l => l <| l_timeouted := false |>)).
  assert (H1 : forall l1, aget (store x1) r = Some l1 -> l_timeouted l1 = false).
  { intros l1 H. unfold x1 in H. rewrite aget_store_updl, N.eqb_refl in H. destruct (aget (store x) r); [|discriminate]. simpl in H. inv H. reflexivity. }
  destruct (QUEUE_MAX_WAIT <? l_tcc (getl x1 r)).
  - match goal with |- aget (store (?X <| tlong := _ |>)) r = _ -> _ => change (store (X <| tlong := _ |>)) with (store X) end.
    rewrite aget_store_updl, N.eqb_refl. destruct (aget (store x1) r) as [l1|] eqn:E1; [|discriminate]. simpl. intros H. inv H. cbn. apply (H1 l1 eq_refl).
  - rewrite aget_store_updl, N.eqb_refl.
    match goal with |- option_map _ (aget (store (?X <| twheel := _ |>)) r) = _ -> _ => change (store (X <| twheel := _ |>)) with (store X) end.
    destruct (aget (store x1) r) as [l1|] eqn:E1; [|discriminate]. simpl. intros H. inv H. cbn. apply (H1 l1 eq_refl).
Qed.

(* the four outcomes of the new-record phase for a core command, as equations on the end state *)
Definition tail_hold (s1 : db) (k : N) (r : ref) : db :=
  bump (fun n => n <| n_lock := (n_lock n + 1)%Z |> <| n_locked := (n_locked n + 1)%Z |>) (grant_core s1 k r).
Definition tail_free (s2 : db) (k : N) (r : ref) : db :=
  bump (fun n => n <| n_lock := (n_lock n + 1)%Z |>) (remove_mgr_if_unref (free_lock s2 r) k).
Definition tail_wait (s1 : db) (k : N) (r : ref) : db :=
  bump (fun n => n <| n_wait := (n_wait n + 1)%Z |>)
       (updl (add_timeout (add_wait_lock s1 k r) r) r (fun l => l <| l_refc := add8 (l_refc l) 1 |>)).

Lemma ls_tail_cases s conn c k waited : cmd_core c ->
  let s1 := fst (new_lock s k conn c) in
  let r := next s in
  fst (fst (ls_tail s conn c k waited)) = tail_hold s1 k r
  \/ fst (fst (ls_tail s conn c k waited)) = tail_free s1 k r
  \/ fst (fst (ls_tail s conn c k waited)) = tail_free (fst (push_lock_aof s1 k r 0)) k r
  \/ fst (fst (ls_tail s conn c k waited)) = tail_wait s1 k r
  \/ fst (fst (ls_tail s conn c k waited)) = remove_mgr_if_unref (free_lock s1 r) k.
Proof.
  intros [C1 [C2 [C3 C4]]]. cbv zeta.
  remember (fst (fst (ls_tail s conn c k waited))) as s' eqn:E.
  unfold ls_tail in E.
  assert (Enl : new_lock s k conn c = (fst (new_lock s k conn c), next s)) by reflexivity.
  rewrite Enl in E. set (s1 := fst (new_lock s k conn c)) in *. set (r := next s) in *. cbv zeta in E. clearbody s1 r.
  destruct ((negb waited || has (c_tflag c) TF_PRIORITY && check_wait_priority s1 k c) && do_lock s1 k r).
  - destruct (0 <? c_expried c).
    + left. rewrite C1 in E. cbn [andb] in E. unfold tail_hold, grant_core. cbv zeta.
      destruct (has_data_flag c); rewrite ?(process_data_core _ _ _ _ _ C4) in E; cbv iota beta in E; rewrite C3 in E;
        destruct (add_expried _ k r) as [s4 aev]; exact E.
    + destruct (has_data_flag c).
      * rewrite (process_data_core _ _ _ _ _ C4) in E. cbv iota beta in E.
        destruct (_ && _).
        -- right. right. left. destruct (push_lock_aof s1 k r 0) as [s2 aev]. exact E.
        -- right. left. exact E.
      * right. left. exact E.
  - destruct ((0 <? c_timeout c) && (negb (has (c_tflag c) TF_TIMEOUT_WHEN_DATA) || match data_of s1 k with None => true | Some _ => false end)).
    + right. right. right. left. rewrite C2 in E. exact E.
    + right. right. right. right. exact E.
Qed.

Lemma free_end_JR s s2 s' xe r : JR s xe -> NF (Some r) (Some r) s s2 -> store s' = store (free_lock s2 r) ->
  NF (Some r) (Some r) s s' -> JR s' xe.
Proof.
  intros HJ N2 Es N'. apply (JR_transfer (Some r) s s' xe xe HJ N'); [auto|].
  intros t l' Et Hl'. assert (t = r) by congruence. subst t. exfalso. rewrite Es, free_lock_gone in Hl'. discriminate.
Qed.

Lemma store_remove_mgr x k : store (remove_mgr_if_unref x k) = store x.
Proof. unfold remove_mgr_if_unref. destruct (aget (mgrs x) k) as [m0|]; [destruct (m_ref m0 =? 0)|]; reflexivity. Qed.

Lemma ls_tail_JR s xt xe conn c k waited m :
  GInv s (gk xt xe k) -> cmd_core c -> aget (mgrs s) k = Some m -> next s < MAXREC -> JR s xe ->
  JR (fst (fst (ls_tail s conn c k waited))) xe.
Proof.
  intros G Hc Hm Hb HJ.
  destruct (ls_tail_ginv s xt xe conn c k waited m G Hc Hm Hb) as [GE _].
  pose proof (NF_new_lock (Some (next s)) s k conn c) as N1.
  pose proof (ls_tail_cases s conn c k waited Hc) as Hcases. cbv zeta in Hcases.
  remember (fst (new_lock s k conn c)) as s1 eqn:Es1. remember (next s) as r eqn:Er.
  remember (fst (fst (ls_tail s conn c k waited))) as s' eqn:Es'. clear Es'.
  destruct Hcases as [E|[E|[E|[E|E]]]].
  - (* a hold *)
    pose proof (NF_grant_core s s1 k r N1) as Ng. pose proof (grant_core_target s1 k r xe) as Tg.
    unfold tail_hold in E. remember (grant_core s1 k r) as y eqn:Ey.
    assert (Est : store s' = store y) by (rewrite E; reflexivity).
    assert (Eew : ewheel s' = ewheel y) by (rewrite E; reflexivity).
    assert (Eel : elong s' = elong y) by (rewrite E; reflexivity).
    apply (JR_transfer (Some r) s s' xe xe HJ); [rewrite E; apply NF_bump; exact Ng|auto|].
    intros t l' Et Hl'. assert (t = r) by congruence. subst t. assert (Hl2 := Hl'). rewrite Est in Hl2.
    destruct (Tg l' Hl2) as (A & B & C).
    apply (JRr_held s' xt xe k r l' GE Hl'); [lia|exact B|]. unfold Ein in *. rewrite Eew, Eel. exact C.
  - apply (free_end_JR s s1 s' xe r HJ N1); [rewrite E; unfold tail_free, bump, updc; cbn [store]; apply store_remove_mgr|rewrite E; unfold tail_free; nf].
  - assert (N2 : NF (Some r) (Some r) s (fst (push_lock_aof s1 k r 0))) by (apply NF_fst_push_lock_aof; exact N1).
    apply (free_end_JR s _ s' xe r HJ N2); [rewrite E; unfold tail_free, bump, updc; cbn [store]; apply store_remove_mgr|rewrite E; unfold tail_free; nf].
  - (* queued: a live waiter *)
    unfold tail_wait in E.
    apply (JR_transfer (Some r) s s' xe xe HJ); [rewrite E; nf|auto|].
    intros t l' Et Hl'. assert (t = r) by congruence. subst t.
    apply (JRr_live s' xt xe k r l' GE Hl').
    match type of E with _ = bump _ ?Y => assert (Est : store s' = store Y) by (rewrite E; reflexivity) end.
    rewrite Est in Hl'. rewrite aget_store_updl, N.eqb_refl in Hl'.
    destruct (aget (store (add_timeout (add_wait_lock s1 k r) r)) r) as [l1|] eqn:E1; [|discriminate]. simpl in Hl'. inv Hl'.
    cbn. apply (add_timeout_live _ _ _ E1).
  - apply (free_end_JR s s1 s' xe r HJ N1); [rewrite E; apply store_remove_mgr|rewrite E; nf].
Qed.

Lemma lock_step_JR s xt xe conn c :
  GInv s (gk xt xe (c_key c)) -> cmd_core c -> next s < MAXREC -> JR s xe -> JR (fst (fst (lock_step s conn c))) xe.
Proof.
  intros G Hc Hb HJ. rewrite lock_step_eq. cbv zeta. set (k := c_key c) in *.
  destruct (ls_pre s conn c k); [exact HJ|].
  assert (Hmgr : GInv (ls_mgr s k) (gk xt xe k) /\ next (ls_mgr s k) = next s /\ NF None None s (ls_mgr s k)
                 /\ exists m, aget (mgrs (ls_mgr s k)) k = Some m).
  { unfold ls_mgr. destruct (aget (mgrs s) k) as [m|] eqn:Hm.
    - split; [auto|]. split; [auto|]. split; [apply NF_refl|]. eauto.
    - split; [apply new_mgr_ginv; auto|]. split; [reflexivity|]. split; [apply NF_bump, NF_setm, NF_refl|].
      exists new_mgr. change (mgrs (bump _ (setm s k new_mgr))) with (aset (mgrs s) k new_mgr). apply aget_aset_same. }
  destruct Hmgr as [G1 [N1 [F1 [m Hm]]]]. set (s1 := ls_mgr s k) in *.
  pose proof (JR_transfer_all s s1 xe HJ F1) as J1.
  destruct (negb (leader s1) && negb (has (c_flag c) LOCK_FLAG_FROM_AOF)).
  - cbn [fst]. eapply JR_transfer_all; [exact J1|]. apply NF_remove_mgr, NF_refl.
  - rewrite (getm_some _ _ _ Hm).
    assert (Hb1 : next s1 < MAXREC) by (rewrite N1; auto).
    pose proof (ls_held_ginv s1 xt xe conn c k m G1 Hm Hc Hb1) as P.
    pose proof (ls_held_JR s1 xt xe conn c k m G1 Hm Hc Hb1 J1) as Q.
    destruct (ls_held s1 conn c k m) as [[[res|] c'] w] eqn:Eh; [exact Q|].
    apply (ls_tail_JR s1 xt xe conn c' k w m G1 P Hm Hb1 J1).
Qed.
