(* Lock-engine model, part 3: LockDB.Lock / UnLock / wakeUpWaitLocks / cancelWaitLock / doTimeOut / doExpried /
   DoAckLock / sweeps (server/db.go:733-829, 994-1090, 1677-1781, 1858-1956, 1978-2894; server/lock.go:564-916).
   Each function below is one critical section of the shard mutex plus the straight-line code after it
   (DESIGN.md section 3); a pending wake-up pass is returned as a value. *)
From Coq Require Import String.
From Slock Require Import Engine.Types Engine.Queues Engine.Timers.
Open Scope N_scope.

Definition u16 (x : N) : N := x mod 65536.

Definition reply (conn : N) (c : cmd) (result lcount lrcount : N) (data : option bytes) : event :=
  EReply conn (c_req c) result (u16 lcount) lrcount (c_lockid c) (c_count c) (c_rcount c) data.

(* ---------------------------------------------------------------- doLock (decision rule; tied to GenDecision.doLock) *)
Definition do_lock_rule (locked cur_count req_count : N) : bool :=
  if locked =? 0 then true
  else if req_count =? 0 then false
  else if 65535 <=? locked then
    if 2147483647 <=? locked then false
    else (cur_count =? 65535) && (req_count =? 65535)
  else (locked <=? cur_count) && (locked <=? req_count).

Definition cur_count (s : db) (k : N) : N :=
  match m_cur (getm s k) with Some c => c_count (l_cmd (getl s c)) | None => 0 end.

Definition do_lock (s : db) (k : N) (r : ref) : bool :=
  do_lock_rule (m_locked (getm s k)) (cur_count s k) (c_count (l_cmd (getl s r))).

Definition check_wait_priority (s : db) (k : N) (c : cmd) : bool :=
  match m_wait (getm s k) with
  | None => true
  | Some q => wq_maxprio s q <? c_rcount c
  end.

(* ---------------------------------------------------------------- deadlines *)
Definition expiry_deadline (c : cmd) (start : Z) : Z :=
  if has (c_eflag c) EF_UNLIMITED then MAXT
  else if has (c_eflag c) EF_MILLISECOND then (start + Z.of_N (c_expried c / 1000) + 1)%Z
  else if has (c_eflag c) EF_MINUTE then (start + Z.of_N (c_expried c) * 60 + 1)%Z
  else (start + Z.of_N (c_expried c) + 1)%Z.

Definition timeout_deadline (c : cmd) (start : Z) : Z :=
  if has (c_tflag c) TF_MILLISECOND then (start + Z.of_N (c_timeout c / 1000) + 1)%Z
  else if has (c_tflag c) TF_MINUTE then (start + Z.of_N (c_timeout c) * 60 + 1)%Z
  else (start + Z.of_N (c_timeout c) + 1)%Z.

Definition initial_ecc (c : cmd) (eT start : Z) : N :=
  if has (c_eflag c) EF_ZERO_AOF && (5 <? eT - start)%Z then QUEUE_MAX_WAIT + 1 else 1.

Definition aoftime_of (s : db) (c : cmd) : N :=
  let f := N.land (c_eflag c) 4864 (* 0x1300 *) in
  if f =? EF_ZERO_AOF then 0
  else if f =? EF_UNLIMITED_AOF then 255
  else if f =? EF_AOF_PERCENT then (c_expried c * 3 / 10) mod 256   (* uint8(float64(Expried) * 0.3), default config *)
  else cfg_aoftime s.

(* LockManager.GetOrNewLock *)
Definition new_lock (s : db) (k conn : N) (c : cmd) : db * ref :=
  let r := next s in
  let unrenew := has (c_tflag c) TF_UNRENEW in
  let eT := if unrenew then expiry_deadline c (now s) else 0%Z in
  let ecc := if unrenew then initial_ecc c eT (now s) else 1 in
  let l := mkLock k c conn None (now s) eT (timeout_deadline c (now s)) false 1 ecc 0 0 255 true true 0 false in
  let s := s <| store := aset (store s) r l |> <| next := r + 1 |> in
  (updm s k (fun m => m <| m_ref := add32 (m_ref m) 1 |>), r).

(* LockManager.AddLock *)
Definition add_lock (s : db) (k : N) (r : ref) : db :=
  let l := getl s r in
  let c := l_cmd l in
  let l := if has (c_tflag c) TF_UNRENEW then l
           else let eT := expiry_deadline c (now s) in
                l <| l_start := now s |> <| l_eT := eT |> <| l_ecc := initial_ecc c eT (now s) |> in
  let m := getm s k in
  let aoft := match m_cur m with None => aoftime_of s c | Some cr => l_aoftime (getl s cr) end in
  let l := l <| l_aoftime := aoft |> <| l_locked := 1 |> <| l_refc := add8 (l_refc l) 1 |> in
  let l := if has (c_flag c) LOCK_FLAG_FROM_AOF then l <| l_isaof := true |>
           else if has (c_tflag c) TF_REQUIRE_ACKED then l <| l_ack := 0 |> else l in
  let s := setl s r l in
  match m_cur m with
  | None => updm s k (fun m => m <| m_cur := Some r |>)
  | Some _ =>
      let q := match m_locks m with Some q => q | None => hq_empty end in
      let '(s', q') := hq_push s q r in
      updm s' k (fun m => m <| m_locks := Some q' |>)
  end.

(* LockManager.UpdateLockedLock *)
Definition update_locked_lock (s : db) (k : N) (r : ref) (c : cmd) : db :=
  let l := getl s r in
  let l := l <| l_cmd := c |> in
  let l :=
    if negb (has (c_eflag c) EF_UNLIMITED) || (c_expried c <? 65535) then
      let st := now s in
      let eT := expiry_deadline c st in
      let l := l <| l_start := st |> <| l_tT := timeout_deadline c st |> <| l_eT := eT |> in
      let l := if has (c_tflag c) TF_NO_RESET_TCC then l else l <| l_tcc := 1 |> in
      if has (c_eflag c) EF_NO_RESET_ECC then l else l <| l_ecc := initial_ecc c eT st |>
    else l in
  let m := getm s k in
  let only_holder := match m_cur m with Some cr => cr =? r | None => false end
                     && match m_locks m with None => true | Some q => match hq_head q with None => true | Some _ => false end end in
  let l := if negb (l_isaof l) && only_holder then l <| l_aoftime := aoftime_of s c |> else l in
  setl s r l.

(* LockManager.CheckLockedEqual / checkLockedCountEqual *)
Definition count_equal (l : lockrec) (c : cmd) : bool :=
  (c_count c =? c_count (l_cmd l)) && (c_rcount c =? c_rcount (l_cmd l))
  && Bool.eqb (has (c_tflag c) TF_PRIORITY) (has (c_tflag (l_cmd l)) TF_PRIORITY).

Definition check_locked_equal (s : db) (l : lockrec) (c : cmd) : bool :=
  if has (c_eflag c) EF_UNLIMITED then
    if c_expried c =? 65535 then count_equal l c else (l_eT l =? MAXT)%Z && count_equal l c
  else if has (c_eflag c) EF_MILLISECOND then count_equal l c
  else
    let unit := if has (c_eflag c) EF_MINUTE then 60%Z else 1%Z in
    let eT := (now s + Z.of_N (c_expried c) * unit + 1)%Z in
    (Z.abs (eT - l_eT l) <=? unit)%Z && count_equal l c.

(* ---------------------------------------------------------------- value operations *)
Definition pd_env_of (s : db) (k : N) (c : cmd) (recov : bool) : pd_env :=
  let m := getm s k in
  Build_pd_env (c_lock c) (c_flag c) (c_eflag c) (c_expried c) (m_locked m) (m_waited m) recov.

(* lockManager.ProcessLockData(command, lock, requireRecover) when command.Data != nil *)
Definition process_data (s : db) (k : N) (r : ref) (c : cmd) (recov : bool) : db * list event :=
  match c_data c with
  | None => (s, [])
  | Some frame =>
      let m := getm s k in
      match process_lock_data (pd_env_of s k c recov) frame (m_data m) (l_data (getl s r)) with
      | Ok (cur', ld') =>
          (updl (updm s k (fun m => m <| m_data := cur' |>)) r (fun l => l <| l_data := ld' |>), [])
      | Panic site => (s, [EPanic site])
      | Unsupported => (s, [EPanic "unsupported-data"%string])
      | OutOfFuel => (s, [EPanic "data-out-of-fuel"%string])
      end
  end.

Definition data_of (s : db) (k : N) : option bytes := get_lock_data (m_data (getm s k)).
Definition has_data_flag (c : cmd) : bool := has (c_flag c) LOCK_FLAG_CONTAINS_DATA.

(* move the expiry entry when an update / re-lock changed the terms (db.go:2076-2092, 2128-2144) *)
Definition update_and_rearm (s : db) (k : N) (r : ref) (c : cmd) : db * list event :=
  let l := getl s r in
  if l_long l then
    let old := l_eT l in
    let s := update_locked_lock s k r c in
    if negb (has (c_eflag c) EF_MILLISECOND) then
      if negb (old =? l_eT (getl s r))%Z then
        let s := remove_long_expried s r old in
        let '(s, ev) := add_expried s k r in
        (updl s r (fun l => l <| l_refc := add8 (l_refc l) 1 |>), ev)
      else (s, [])
    else (s, [EPanic "millisecond-expiry-not-modelled"%string])
  else (update_locked_lock s k r c, []).

(* ---------------------------------------------------------------- Lock *)
Definition bump (f : counters -> counters) (s : db) : db := updc s f.

Definition lock_step (s : db) (conn : N) (c : cmd) : db * list event * option wake :=
  let k := c_key c in
  (* concurrent-check pre-checks (no mutex, no manager creation) *)
  let pre :=
    if has (c_flag c) LOCK_FLAG_CONCURRENT_CHECK && (c_timeout c =? 0) then
      match aget (mgrs s) k with
      | Some m =>
          if (c_count c <? 65535) && (c_count c <? m_locked m)
          then Some [reply conn c R_TIMEOUT (m_locked m) 0 (data_of s k)]
          else if (m_locked m =? 0) && has (c_tflag c) TF_WAIT_WHEN_UNLOCK
               then Some [reply conn c R_TIMEOUT 0 0 None] else None
      | None => if has (c_tflag c) TF_WAIT_WHEN_UNLOCK then Some [reply conn c R_TIMEOUT 0 0 None] else None
      end
    else None in
  match pre with
  | Some ev => (s, ev, None)
  | None =>
  (* GetOrNewLockManager *)
  let s := match aget (mgrs s) k with
           | Some _ => s
           | None => bump (fun n => n <| n_key := (n_key n + 1)%Z |>) (setm s k new_mgr)
           end in
  let m := getm s k in
  if negb (leader s) && negb (has (c_flag c) LOCK_FLAG_FROM_AOF) then
    let s := remove_mgr_if_unref s k in
    (s, [reply conn c R_STATE_ERROR (m_locked m) 0 (data_of s k)], None)
  else
  (* --- key is held --- *)
  let held_branch : option (db * list event * option wake) * cmd * bool :=
    if 0 <? m_locked m then
      let cur := match m_cur m with Some cr => cr | None => 0 end in
      let curl := getl s cur in
      let show := has (c_flag c) LOCK_FLAG_SHOW in
      let c1 := if show then c <| c_lockid := c_lockid (l_cmd curl) |> else c in
      if show && negb (has (c_flag c) LOCK_FLAG_UPDATE) then
        let cc := l_cmd curl in
        let c2 := c1 <| c_timeout := c_timeout cc |> <| c_tflag := c_tflag cc |> <| c_expried := c_expried cc |>
                     <| c_eflag := c_eflag cc |> <| c_count := c_count cc |> <| c_rcount := c_rcount cc |> in
        (Some (s, [reply conn c2 R_UNOWN_ERROR (m_locked m) (l_locked curl) (data_of s k)], None), c1, m_waited m)
      else
      match get_locked_lock s m (c_lockid c1) with
      | Some r =>
          let l := getl s r in
          if negb (l_ack l =? 255) then
            (Some (s, [reply conn c1 R_ACK_WAITING (m_locked m) (l_locked l) (data_of s k)], None), c1, m_waited m)
          else
          let ldata := data_of s k in
          if has (c_flag c1) LOCK_FLAG_UPDATE then
            (* update branch *)
            let '(s1, pev, equal_exit) :=
              if has_data_flag c1 then
                let '(s1, pev) := process_data s k r c1 false in
                let m1 := getm s1 k in
                let aofd := match m_data m1 with Some d => d_isaof d | None => false end in
                let noaof := match l_data (getl s1 r) with None => true | Some ld => match ld_aof ld with None => true | Some _ => false end end in
                (s1, pev, aofd && noaof && check_locked_equal s1 (getl s1 r) c1)
              else (s, [], check_locked_equal s l c1) in
            if equal_exit then
              (Some (s1, pev ++ [reply conn c1 R_LOCKED_ERROR (m_locked (getm s1 k)) (l_locked (getl s1 r)) ldata], None), c1, m_waited m)
            else
              let '(s2, aev) := update_and_rearm s1 k r c1 in
              let s2 := updl s2 r (fun l => l <| l_conn := conn |>) in
              let from_aof := has (c_flag c1) LOCK_FLAG_FROM_AOF in
              if negb from_aof && has (c_tflag c1) TF_REQUIRE_ACKED && negb (l_aoftime (getl s2 r) =? 255) then
                let '(s3, e3) := push_lock_aof s2 k r AOF_FLAG_UPDATED in
                let s3 := updl s3 r (fun l => l <| l_refc := add8 (l_refc l) 1 |>) in
                (Some (s3, pev ++ aev ++ e3, None), c1, m_waited m)
              else
                let '(s3, e3) := if negb from_aof && l_isaof (getl s2 r) then push_lock_aof s2 k r AOF_FLAG_UPDATED else (s2, []) in
                (Some (s3, pev ++ aev ++ e3 ++ [reply conn c1 R_LOCKED_ERROR (m_locked (getm s3 k)) (l_locked (getl s3 r)) ldata],
                       Some (mkWake k (Some conn))), c1, m_waited m)
          else if (l_locked l <? 255) && (l_locked l <=? c_rcount c1) && negb (has (c_tflag c1) TF_PRIORITY) then
            if c_expried c1 =? 0 then
              (Some (s, [reply conn c1 R_SUCCED (m_locked m) (l_locked l) ldata], None), c1, m_waited m)
            else
              let s1 := updm s k (fun m => m <| m_locked := add32 (m_locked m) 1 |>) in
              let s1 := updl s1 r (fun l => l <| l_locked := add8 (l_locked l) 1 |>) in
              let '(s1, pev) := if has_data_flag c1 then process_data s1 k r c1 false else (s1, []) in
              let '(s2, aev) := update_and_rearm s1 k r c1 in
              let s2 := updl s2 r (fun l => l <| l_conn := conn |>) in
              let '(s3, e3) := if l_isaof (getl s2 r) then push_lock_aof s2 k r AOF_FLAG_UPDATED else (s2, []) in
              let s3 := bump (fun n => n <| n_lock := (n_lock n + 1)%Z |> <| n_locked := (n_locked n + 1)%Z |>) s3 in
              (Some (s3, [EGrant k r false (m_locked m) (cur_count s k) (c_count c1)] ++ pev ++ aev ++ e3
                         ++ [reply conn c1 R_SUCCED (m_locked (getm s3 k)) (l_locked (getl s3 r)) ldata], Some (mkWake k (Some conn))), c1, m_waited m)
          else
            (Some (s, [reply conn c1 R_LOCKED_ERROR (m_locked m) (l_locked l) ldata], None), c1, m_waited m)
      | None => (None, c1, m_waited m)
      end
    else
      if has (c_tflag c) TF_WAIT_WHEN_UNLOCK then
        if m_waited m && (c_count c =? 0)
        then (Some (s, [reply conn c R_UNOWN_ERROR (m_locked m) 0 (data_of s k)], None), c, true)
        else (None, c, true)
      else (None, c, false) in
  match held_branch with
  | (Some res, _, _) => res
  | (None, c, waited) =>
  (* --- new lock record --- *)
  let '(s, r) := new_lock s k conn c in
  let m := getm s k in
  if (negb waited || (has (c_tflag c) TF_PRIORITY && check_wait_priority s k c)) && do_lock s k r then
    let require_wakeup := m_waited m in
    let wk := if require_wakeup then Some (mkWake k (Some conn)) else None in
    if 0 <? c_expried c then
      let before := m_locked m in
      let cc := cur_count s k in
      let s := add_lock s k r in
      let s := updm s k (fun m => m <| m_locked := add32 (m_locked m) 1 |>) in
      let l := getl s r in
      if has (c_tflag c) TF_REQUIRE_ACKED && negb (l_isaof l) && negb (l_aoftime l =? 255) then
        let '(s, pev) := if has_data_flag c then process_data s k r c true else (s, []) in
        if has (c_tflag c) TF_MILLISECOND then (s, [EPanic "millisecond-timeout-not-modelled"%string], None) else
        let s := add_timeout s r in
        let s := updl s r (fun l => l <| l_refc := add8 (l_refc l) 2 |>) in
        let '(s, aev) := push_lock_aof s k r 0 in
        let s := bump (fun n => n <| n_lock := (n_lock n + 1)%Z |> <| n_locked := (n_locked n + 1)%Z |>) s in
        (s, [EGrant k r true before cc (c_count c)] ++ pev ++ aev, None)
      else
        let ldata := data_of s k in
        let '(s, pev) := if has_data_flag c then process_data s k r c false else (s, []) in
        if has (c_eflag c) EF_MILLISECOND then (s, [EPanic "millisecond-expiry-not-modelled"%string], None) else
        let '(s, aev) := add_expried s k r in
        let s := updl s r (fun l => l <| l_refc := add8 (l_refc l) 1 |>) in
        let s := bump (fun n => n <| n_lock := (n_lock n + 1)%Z |> <| n_locked := (n_locked n + 1)%Z |>) s in
        (s, [EGrant k r true before cc (c_count c)] ++ pev ++ aev ++ [reply conn c R_SUCCED (m_locked (getm s k)) (l_locked (getl s r)) ldata], wk)
    else
      (* Expried = 0: value write / probe without a hold *)
      let ldata := data_of s k in
      let '(s, pev, aev) :=
        if has_data_flag c then
          let req_aof := match m_cur m with Some cr => l_isaof (getl s cr) | None => false end
                         || match m_data m with Some d => d_isaof d | None => false end in
          let '(s, pev) := process_data s k r c false in
          let nowaof := match m_data (getm s k) with Some d => negb (d_isaof d) | None => false end in
          if req_aof && nowaof then let '(s, aev) := push_lock_aof s k r 0 in (s, pev, aev) else (s, pev, [])
        else (s, [], []) in
      let lrc := l_locked (getl s r) in
      let s := free_lock s r in
      let lcount := m_locked (getm s k) in
      let s := remove_mgr_if_unref s k in
      let s := bump (fun n => n <| n_lock := (n_lock n + 1)%Z |>) s in
      (s, pev ++ aev ++ [reply conn c R_SUCCED lcount lrc ldata], wk)
  else
  if (0 <? c_timeout c) && (negb (has (c_tflag c) TF_TIMEOUT_WHEN_DATA) || match data_of s k with None => true | Some _ => false end) then
    if has (c_tflag c) TF_MILLISECOND then (s, [EPanic "millisecond-timeout-not-modelled"%string], None) else
    let s := add_wait_lock s k r in
    let s := add_timeout s r in
    let s := updl s r (fun l => l <| l_refc := add8 (l_refc l) 1 |>) in
    let s := bump (fun n => n <| n_wait := (n_wait n + 1)%Z |>) s in
    (s, [], None)
  else
    let lrc := l_locked (getl s r) in
    let s := free_lock s r in
    let lcount := m_locked (getm s k) in
    let s := remove_mgr_if_unref s k in
    (s, [reply conn c R_TIMEOUT lcount lrc (data_of s k)], None)
  end
  end.
