(* Value operations attached to Lock / UnLock (property C15), part 7: the definitions used by the statements of
   Properties/C15.v written out, and the facts about the isAof bit in one place. *)
From Coq Require Import String ZifyN ZifyBool.
From Slock Require Import Engine.Types Engine.Queues Engine.Timers Engine.Engine Engine.Engine2 Engine.LocalBase
  Engine.InvLockDefs Engine.RunData Engine.RunData2 Engine.RunData3.
Open Scope N_scope.

Lemma value_effect_meaning c flag env ld s k s' ev :
  value_effect c flag env ld s k s' ev <->
  (forall k0 m', k0 <> k -> aget (mgrs s') k0 = Some m' -> m_data m' = m_data (getm s k0))
  /\ (forall m', aget (mgrs s') k = Some m' ->
        match c_data c, flag with
        | Some frame, true =>
            match process_lock_data env frame (m_data (getm s k)) ld with
            | Ok (cur', _) =>
                m_data m' = cur' \/ m_data m' = option_map (fun d => set_isaof d true) cur'
            | _ =>
                (m_data m' = m_data (getm s k)
                 \/ m_data m' = option_map (fun d => set_isaof d true) (m_data (getm s k)))
                /\ exists site, In (EPanic site) ev
            end
        | _, _ =>
            m_data m' = m_data (getm s k) \/ m_data m' = option_map (fun d => set_isaof d true) (m_data (getm s k))
        end)
  /\ (forall frame, c_data c = Some frame -> flag = true ->
        match process_lock_data env frame (m_data (getm s k)) ld with Ok _ => False | _ => True end ->
        exists site, In (EPanic site) ev).
Proof. reflexivity. Qed.

(* the value as clients see it (GetLockData) ignores the isAof bit; the log helper AofLockData changes nothing else *)
Lemma aof_bit_invisible :
  (forall a b : option mdata,
     option_map (fun m => set_isaof m false) a = option_map (fun m => set_isaof m false) b ->
     get_lock_data a = get_lock_data b)
  /\ (forall islock cur ld,
        snd (fst (aof_lock_data islock cur ld)) = cur
        \/ snd (fst (aof_lock_data islock cur ld)) = option_map (fun m => set_isaof m true) cur)
  /\ (forall s k, data_of s k = get_lock_data (m_data (getm s k))).
Proof.
  split; [exact same_value_data|]. split; [exact aof_lock_data_aofle|]. reflexivity.
Qed.

(* push_lock_aof / push_unlock_aof: every value is kept, the one of their key modulo the bit *)
Lemma push_aof_values s k r fl lc uc b s' ev :
  (push_lock_aof s k r fl = (s', ev) \/ push_unlock_aof s k r lc uc b fl = (s', ev)) -> vals_marked k s s'.
Proof.
  intros H.
  assert (Hs : mrel (le_mark k) true s s) by (apply mrel_refl; rd).
  split.
  - intros k0 m' Hk Hm'.
    assert (Hr : mrel (le_mark k) true s s') by (destruct H as [H|H]; rd).
    destruct (mrel_back _ _ _ _ _ _ Hr Hm') as (m & Hm & Hle).
    unfold le_mark in Hle. apply N.eqb_neq in Hk. rewrite Hk in Hle.
    unfold gd. rewrite (getm_some _ _ _ Hm). exact Hle.
  - intros m' Hm'.
    assert (Hr : mrel (le_mark k) true s s') by (destruct H as [H|H]; rd).
    destruct (mrel_back _ _ _ _ _ _ Hr Hm') as (m & Hm & Hle).
    unfold le_mark in Hle. rewrite N.eqb_refl in Hle.
    unfold gd. rewrite (getm_some _ _ _ Hm). exact Hle.
Qed.
