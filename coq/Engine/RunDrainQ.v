(* "Every key manager has a lock record" (J2), part 2: the per-key queue operations (local facts, every db value).
   For each operation that may free records (compaction on push, pop loops):
   - J2x (Some k) is kept when the queue entries belong to key k (KH)
   - keys of stored records do not change (keyst)
   - records outside the queue stay stored; the pushed record is in the resulting queue. *)
From Coq Require Import String ZifyN ZifyBool ZifyNat.
From Slock Require Import Engine.Types Engine.Queues Engine.Timers Engine.Engine Engine.Engine2 Engine.InvDef Engine.InvBase
  Engine.InvPrims Engine.InvRec Engine.InvWheel Engine.InvQueue Engine.InvQueue2 Engine.LocalBase Engine.RunDrain.
Open Scope N_scope.

Definition skeep (P : ref -> Prop) (x x' : db) : Prop := forall c, ~ P c -> aget (store x') c = aget (store x) c.

Lemma skeep_refl P x : skeep P x x.
Proof. intros c _. reflexivity. Qed.
Lemma skeep_unref (P : ref -> Prop) x r : P r -> skeep P x (unref x r).
Proof. intros H c Hc. apply unref_other. intros ->. auto. Qed.
Lemma skeep_trans (P : ref -> Prop) a b c : skeep P a b -> skeep P b c -> skeep P a c.
Proof. intros H1 H2 y Hy. rewrite (H2 y Hy). apply H1; auto. Qed.
Lemma skeep_weaken (P Q : ref -> Prop) a b : (forall y, P y -> Q y) -> skeep P a b -> skeep Q a b.
Proof. intros H S y Hy. apply S. intros Hp. apply Hy. auto. Qed.

(* the key table keeps its domain *)
Definition mdom (x x' : db) : Prop := forall k0, aget (mgrs x') k0 = None <-> aget (mgrs x) k0 = None.
Lemma mdom_refl x : mdom x x.
Proof. intros k0. tauto. Qed.
Lemma mdom_trans a b c : mdom a b -> mdom b c -> mdom a c.
Proof. intros H1 H2 k0. rewrite (H2 k0). apply H1. Qed.
Lemma mdom_unref x r : mdom x (unref x r).
Proof.
  intros k0. pose proof (qf_m _ _ (unref_qframe x r) k0) as P. destruct (aget (mgrs x) k0) as [m|].
  - destruct P as [n ->]. split; discriminate.
  - rewrite P. tauto.
Qed.

(* ---------------------------------------------------------------- holder queue *)
Lemma J2x_hq_compact k items : forall x x' kept, hq_compact x items = (x', kept) -> KH k x items -> J2x (Some k) x ->
  J2x (Some k) x' /\ keyst x x' /\ (forall y, In y kept -> In y items) /\ skeep (fun c => In c items) x x' /\ mdom x x'.
Proof.
  induction items as [|r rest IH]; intros x x' kept H Hk Hj; simpl in H.
  - inv_tuple H. split; [auto|]. split; [apply keyst_refl|]. split; [tauto|]. split; [apply skeep_refl|apply mdom_refl].
  - destruct (KH_cons _ _ _ _ Hk) as [Hr Hrest].
    destruct (0 <? l_locked (getl x r)).
    + destruct (hq_compact x rest) as [x1 k1] eqn:E. inv_tuple H.
      destruct (IH _ _ _ E Hrest Hj) as (A & B & C & D & M). split; [auto|]. split; [auto|]. split; [|split; [|exact M]].
      * intros y [->|Hy]; simpl; auto.
      * eapply skeep_weaken; [|exact D]. simpl. auto.
    + assert (S1 : keyst x (unref x r)) by apply keyst_unref.
      destruct (IH _ _ _ H (KH_keyst _ _ _ _ S1 Hrest) (J2x_unref _ _ _ Hr Hj)) as (A & B & C & D & M).
      split; [auto|]. split; [eapply keyst_trans; eauto|]. split; [intros y Hy; simpl; auto|].
      split; [|eapply mdom_trans; [apply mdom_unref|exact M]].
      eapply skeep_trans; [apply skeep_unref; simpl; auto|]. eapply skeep_weaken; [|exact D]. simpl. auto.
Qed.

Lemma hq_items_fast q y : In y (hq_fast q) -> In y (hq_items q).
Proof. intros H. unfold hq_items. apply in_or_app. auto. Qed.

Lemma J2x_hq_push k x q r x' q' : hq_push x q r = (x', q') -> KH k x (hq_items q) -> J2x (Some k) x ->
  J2x (Some k) x' /\ keyst x x' /\ (forall y, In y (hq_items q') -> In y (hq_items q) \/ y = r) /\ In r (hq_items q')
  /\ skeep (fun c => In c (hq_items q)) x x' /\ mdom x x'.
Proof.
  intros H Hk Hj.
  assert (Triv : forall q1, (forall y, In y (hq_items q1) -> In y (hq_items q) \/ y = r) -> In r (hq_items q1) ->
            J2x (Some k) x /\ keyst x x /\ (forall y, In y (hq_items q1) -> In y (hq_items q) \/ y = r) /\ In r (hq_items q1)
            /\ skeep (fun c => In c (hq_items q)) x x /\ mdom x x).
  { intros q1 A B. split; [auto|]. split; [apply keyst_refl|]. split; [auto|]. split; [auto|]. split; [apply skeep_refl|apply mdom_refl]. }
  unfold hq_push in H.
  destruct (hq_scale q) as [[items mp]|] eqn:Es.
  - inv_tuple H. apply Triv; unfold hq_items; cbn; rewrite ?Es.
    + intros y Hy. apply in_app_or in Hy. destruct Hy as [Hy|Hy]; [left; apply in_or_app; auto|].
      apply in_app_or in Hy. destruct Hy as [Hy|[->|[]]]; auto. left. apply in_or_app. auto.
    + apply in_or_app. right. apply in_or_app. right. simpl. auto.
  - destruct (hq_cap q =? 0).
    { inv_tuple H. apply Triv; unfold hq_items; cbn; rewrite ?Es; simpl; intuition. }
    destruct (hq_len q <? hq_cap q).
    { inv_tuple H. apply Triv; unfold hq_items; cbn; rewrite ?Es, ?app_nil_r.
      - intros y Hy. apply in_app_or in Hy. destruct Hy as [Hy|[->|[]]]; auto.
      - apply in_or_app. right. simpl. auto. }
    destruct (hq_fast q) as [|a t] eqn:Ef.
    { inv_tuple H. apply Triv; unfold hq_items; cbn; rewrite ?Es; simpl; intuition. }
    destruct (hq_compact x (a :: t)) as [x1 kept] eqn:Ec.
    assert (Hk1 : KH k x (a :: t)).
    { eapply KH_incl; [|exact Hk]. intros y Hy. apply hq_items_fast. rewrite Ef. exact Hy. }
    destruct (J2x_hq_compact k _ _ _ _ Ec Hk1 Hj) as (A & B & C & D & M).
    assert (Hsk : skeep (fun c => In c (hq_items q)) x x1).
    { eapply skeep_weaken; [|exact D]. intros y Hy. apply hq_items_fast. rewrite Ef. exact Hy. }
    assert (Fin : forall q1, (forall y, In y (hq_items q1) -> In y (a :: t) \/ In y kept \/ y = r) -> In r (hq_items q1) ->
              J2x (Some k) x1 /\ keyst x x1 /\ (forall y, In y (hq_items q1) -> In y (hq_items q) \/ y = r) /\ In r (hq_items q1)
              /\ skeep (fun c => In c (hq_items q)) x x1 /\ mdom x x1).
    { intros q1 F1 F2. split; [auto|]. split; [auto|]. split; [|split; [auto|split; [exact Hsk|exact M]]].
      intros y Hy. destruct (F1 y Hy) as [Hy1|[Hy1|Hy1]]; auto; left; apply hq_items_fast; rewrite Ef; auto. }
    repeat (split_hyp H); inv_tuple H.
    all: apply Fin; unfold hq_items; cbn; rewrite ?Es, ?Ef, ?app_nil_r.
    all: try (intros y Hy; apply in_app_or in Hy; destruct Hy as [Hy|[->|[]]]; auto).
    all: apply in_or_app; right; simpl; auto.
Qed.

Lemma J2x_promote k fuel : forall x q x' q' nc, promote fuel x q = (x', q', nc) -> KH k x (hq_items q) -> J2x (Some k) x ->
  J2x (Some k) x' /\ keyst x x' /\ skeep (fun c => In c (hq_items q)) x x'.
Proof.
  induction fuel as [|f IH]; intros x q x' q' nc H Hk Hj; simpl in H.
  - inv_tuple H. split; [auto|]. split; [apply keyst_refl|apply skeep_refl].
  - destruct (hq_pop q) as [[r|] q1] eqn:Ep.
    + destruct (hq_pop_some q r q1 Ep) as [Hit _]. rewrite Hit in *.
      destruct (KH_cons _ _ _ _ Hk) as [Hr Hrest].
      destruct (0 <? l_locked (getl x r)).
      * inv_tuple H. split; [auto|]. split; [apply keyst_refl|apply skeep_refl].
      * assert (S1 : keyst x (unref x r)) by apply keyst_unref.
        destruct (IH _ _ _ _ _ H (KH_keyst _ _ _ _ S1 Hrest) (J2x_unref _ _ _ Hr Hj)) as (A & B & C).
        split; [auto|]. split; [eapply keyst_trans; eauto|].
        eapply skeep_trans; [apply skeep_unref; simpl; auto|]. eapply skeep_weaken; [|exact C]. simpl. auto.
    + inv_tuple H. split; [auto|]. split; [apply keyst_refl|apply skeep_refl].
Qed.

Lemma J2x_drop_dead_heads k fuel : forall x q x' q', drop_dead_heads fuel x q = (x', q') -> KH k x (hq_items q) -> J2x (Some k) x ->
  J2x (Some k) x' /\ keyst x x' /\ skeep (fun c => In c (hq_items q)) x x'.
Proof.
  induction fuel as [|f IH]; intros x q x' q' H Hk Hj; simpl in H.
  - inv_tuple H. split; [auto|]. split; [apply keyst_refl|apply skeep_refl].
  - destruct (hq_head q) as [r|] eqn:Eh.
    + destruct (0 <? l_locked (getl x r)).
      * inv_tuple H. split; [auto|]. split; [apply keyst_refl|apply skeep_refl].
      * destruct (hq_pop q) as [o q1] eqn:Ep. rewrite hq_head_pop, Ep in Eh. cbn [fst] in Eh. subst o.
        destruct (hq_pop_some q r q1 Ep) as [Hit _]. rewrite Hit in *.
        destruct (KH_cons _ _ _ _ Hk) as [Hr Hrest].
        assert (S1 : keyst x (unref x r)) by apply keyst_unref.
        destruct (IH _ _ _ _ H (KH_keyst _ _ _ _ S1 Hrest) (J2x_unref _ _ _ Hr Hj)) as (A & B & C).
        split; [auto|]. split; [eapply keyst_trans; eauto|].
        eapply skeep_trans; [apply skeep_unref; simpl; auto|]. eapply skeep_weaken; [|exact C]. simpl. auto.
    + inv_tuple H. split; [auto|]. split; [apply keyst_refl|apply skeep_refl].
Qed.

Lemma getm_updl_eq x r f k : getm (updl x r f) k = getm x k.
Proof. apply getm_mgrs, mgrs_updl. Qed.

Lemma m_hq_holders m y : In y (m_hq m) -> In y (holders m).
Proof. intros H. unfold holders. apply in_or_app. auto. Qed.

(* LockManager.RemoveLock *)
Lemma J2x_remove_lock k x r : KH k x (m_hq (getm x k)) -> J2x (Some k) x ->
  J2x (Some k) (remove_lock x k r) /\ keyst x (remove_lock x k r)
  /\ (forall c, ~ In c (m_hq (getm x k)) -> aget (store x) c <> None -> aget (store (remove_lock x k r)) c <> None).
Proof.
  intros Hk Hj. unfold remove_lock. cbv zeta.
  set (x0 := updl x r (fun l => l <| l_locked := 0 |> <| l_ack := 255 |>)).
  assert (S0 : keyst x x0) by (apply keyst_updl; intros l; reflexivity).
  assert (J0 : J2x (Some k) x0) by (apply J2x_updl; auto).
  assert (M0 : getm x0 k = getm x k) by apply getm_updl_eq.
  assert (D0 : forall c, aget (store x) c <> None -> aget (store x0) c <> None).
  { intros c Hc Hn. apply Hc. unfold x0 in Hn. apply updl_stored in Hn. exact Hn. }
  rewrite M0.
  assert (Hk0 : KH k x0 (m_hq (getm x k))) by (eapply KH_keyst; eauto).
  match goal with |- context [if ?c then _ else _] => destruct c end.
  - set (x1 := updl x0 r (fun l => l <| l_refc := dec8 (l_refc l) |>)).
    assert (S1 : keyst x x1) by (eapply keyst_trans; [exact S0|apply keyst_updl; intros l; reflexivity]).
    assert (J1 : J2x (Some k) x1) by (apply J2x_updl; auto).
    assert (D1 : forall c, aget (store x) c <> None -> aget (store x1) c <> None).
    { intros c Hc Hn. apply (D0 c Hc). unfold x1 in Hn. apply updl_stored in Hn. exact Hn. }
    destruct (m_locks (getm x k)) as [q|] eqn:El.
    + destruct (promote (S (hq_size q)) x1 q) as [[x2 q2] nc] eqn:Ep.
      assert (Hk1 : KH k x1 (hq_items q)).
      { eapply KH_keyst; [apply keyst_updl; intros l; reflexivity|]. unfold m_hq in Hk0. rewrite El in Hk0. exact Hk0. }
      destruct (J2x_promote k _ _ _ _ _ _ Ep Hk1 J1) as (A & B & C).
      split; [apply J2x_updm_K; auto|]. split; [eapply keyst_trans; [eapply keyst_trans; [exact S1|exact B]|apply keyst_updm]|].
      intros c Hc Hs. rewrite store_updm. rewrite (C c); [apply D1; auto|]. unfold m_hq in Hc. rewrite El in Hc. exact Hc.
    + split; [apply J2x_updm_K; auto|]. split; [eapply keyst_trans; [exact S1|apply keyst_updm]|].
      intros c _ Hs. rewrite store_updm. apply D1; auto.
  - destruct (m_locks (getm x k)) as [q|] eqn:El.
    + set (q0 := hq_removelock q (c_lockid (l_cmd (getl x0 r)))).
      destruct (drop_dead_heads (S (hq_size q0)) x0 q0) as [x2 q2] eqn:Ep.
      assert (Hit : hq_items q0 = hq_items q) by apply hq_items_removelock.
      assert (Hk1 : KH k x0 (hq_items q0)) by (rewrite Hit; unfold m_hq in Hk0; rewrite El in Hk0; exact Hk0).
      destruct (J2x_drop_dead_heads k _ _ _ _ _ Ep Hk1 J0) as (A & B & C).
      split; [apply J2x_updm_K; auto|]. split; [eapply keyst_trans; [eapply keyst_trans; [exact S0|exact B]|apply keyst_updm]|].
      intros c Hc Hs. rewrite store_updm. rewrite (C c); [apply D0; auto|]. rewrite Hit. unfold m_hq in Hc. rewrite El in Hc. exact Hc.
    + split; [auto|]. split; [auto|]. intros c _ Hs. apply D0; auto.
Qed.

(* LockManager.AddLock of a stored record *)
Lemma J2x_add_lock k x r : aget (store x) r <> None -> KH k x (m_hq (getm x k)) -> J2x (Some k) x ->
  J2x (Some k) (add_lock x k r) /\ keyst x (add_lock x k r)
  /\ (aget (mgrs x) k <> None -> In r (holders (getm (add_lock x k r) k))).
Proof.
  intros Hs Hk Hj. rewrite add_lock_eq. cbv zeta.
  destruct (aget (store x) r) as [l|] eqn:Hr; [|congruence]. rewrite (getl_some _ _ _ Hr).
  set (x1 := setl x r (al_rec x k l)).
  assert (Kal : l_key (al_rec x k l) = l_key l).
  { unfold al_rec. cbv zeta. destruct (has (c_tflag (l_cmd l)) TF_UNRENEW); destruct (has (c_flag (l_cmd l)) LOCK_FLAG_FROM_AOF);
      destruct (has (c_tflag (l_cmd l)) TF_REQUIRE_ACKED); reflexivity. }
  assert (S1 : keyst x x1).
  { intros r0 l' H. unfold x1 in H. rewrite store_setl, aget_aset in H. destruct (r =? r0) eqn:E0; [|eauto].
    apply N.eqb_eq in E0. subst r0. inv H. exists l. auto. }
  assert (J1 : J2x (Some k) x1) by (apply J2x_setl; auto).
  assert (Hin : forall m f, (forall m0, In r (holders (f m0))) -> aget (mgrs x1) k = Some m ->
                 In r (holders (getm (updm x1 k f) k))).
  { intros m f Hf Hm. rewrite (updm_some _ _ _ _ Hm), getm_setm_same. apply Hf. }
  destruct (m_cur (getm x k)) as [c|] eqn:Ec.
  - set (q := match m_locks (getm x k) with Some q => q | None => hq_empty end).
    destruct (hq_push x1 q r) as [x2 q2] eqn:Ep.
    assert (Hk1 : KH k x1 (hq_items q)).
    { eapply KH_keyst; [exact S1|]. unfold m_hq in Hk. unfold q. destruct (m_locks (getm x k)); [exact Hk|intros y []]. }
    destruct (J2x_hq_push k _ _ _ _ _ Ep Hk1 J1) as (A & B & C & D & _ & M).
    split; [apply J2x_updm_K; auto|]. split; [eapply keyst_trans; [eapply keyst_trans; [exact S1|exact B]|apply keyst_updm]|].
    intros Hm. destruct (aget (mgrs x) k) as [m|] eqn:Em; [|congruence].
    assert (Em2 : exists m2, aget (mgrs x2) k = Some m2).
    { destruct (aget (mgrs x2) k) as [m2|] eqn:E2; [eauto|]. exfalso.
      apply (M k) in E2. unfold x1 in E2. rewrite mgrs_setl in E2. congruence. }
    destruct Em2 as [m2 Em2]. rewrite (updm_some _ _ _ _ Em2), getm_setm_same.
    unfold holders, m_hq. cbn. apply in_or_app. right. exact D.
  - split; [apply J2x_updm_K; auto|]. split; [eapply keyst_trans; [exact S1|apply keyst_updm]|].
    intros Hm. destruct (aget (mgrs x) k) as [m|] eqn:Em; [|congruence].
    apply (Hin m); [|exact Em]. intros m0. unfold holders, cur_list. cbn. auto.
Qed.

(* ---------------------------------------------------------------- wait queue *)
Lemma J2x_wq_compact k items : forall x x' kept, wq_compact x items = (x', kept) -> KH k x items -> J2x (Some k) x ->
  J2x (Some k) x' /\ keyst x x' /\ (forall y, In y kept -> In y items) /\ mdom x x'.
Proof.
  induction items as [|r rest IH]; intros x x' kept H Hk Hj; simpl in H.
  - inv_tuple H. split; [auto|]. split; [apply keyst_refl|]. split; [tauto|apply mdom_refl].
  - destruct (KH_cons _ _ _ _ Hk) as [Hr Hrest].
    destruct (dead_waiter (getl x r)).
    + assert (S1 : keyst x (unref x r)) by apply keyst_unref.
      destruct (IH _ _ _ H (KH_keyst _ _ _ _ S1 Hrest) (J2x_unref _ _ _ Hr Hj)) as (A & B & C & M).
      split; [auto|]. split; [eapply keyst_trans; eauto|]. split; [intros y Hy; simpl; auto|].
      eapply mdom_trans; [apply mdom_unref|exact M].
    + destruct (wq_compact x rest) as [x1 k1] eqn:E. inv_tuple H.
      destruct (IH _ _ _ E Hrest Hj) as (A & B & C & M). split; [auto|]. split; [auto|]. split; [|exact M].
      intros y [->|Hy]; simpl; auto.
Qed.

Lemma in_prio_insert s items r p y : In y (prio_insert s items r p) <-> In y items \/ y = r.
Proof.
  rewrite !occ_In, occ_prio_insert. simpl. destruct (r =? y) eqn:E.
  - apply N.eqb_eq in E. subst. split; [auto|lia].
  - apply N.eqb_neq in E. split; [intros H; left; lia|intros [H|H]; [lia|congruence]].
Qed.

Lemma wq_items_fast q y : In y (wq_fast q) -> In y (wq_items q).
Proof. intros H. unfold wq_items. apply in_or_app. auto. Qed.

Lemma J2x_wq_push k x q r x' q' : wq_push x q r = (x', q') -> KH k x (wq_items q) -> J2x (Some k) x ->
  J2x (Some k) x' /\ keyst x x' /\ (forall y, In y (wq_items q') -> In y (wq_items q) \/ y = r) /\ In r (wq_items q')
  /\ mdom x x'.
Proof.
  intros H Hk Hj.
  assert (Triv : forall q1, (forall y, In y (wq_items q1) -> In y (wq_items q) \/ y = r) -> In r (wq_items q1) ->
            J2x (Some k) x /\ keyst x x /\ (forall y, In y (wq_items q1) -> In y (wq_items q) \/ y = r) /\ In r (wq_items q1)
            /\ mdom x x).
  { intros q1 A B. split; [auto|]. split; [apply keyst_refl|]. split; [auto|]. split; [auto|apply mdom_refl]. }
  unfold wq_push in H.
  destruct (wq_mode q) eqn:Em.
  - destruct (wq_cap q =? 0).
    { inv_tuple H. apply Triv; unfold wq_items; cbn.
      - intros y Hy. simpl in Hy. destruct Hy as [->|Hy]; auto. left. apply in_or_app. auto.
      - simpl. auto. }
    destruct (wq_len q <? wq_cap q).
    { inv_tuple H. apply Triv; unfold wq_items; cbn.
      - intros y Hy. apply in_app_or in Hy. destruct Hy as [Hy|Hy]; [|left; apply in_or_app; auto].
        apply in_app_or in Hy. destruct Hy as [Hy|[->|[]]]; auto. left. apply in_or_app. auto.
      - apply in_or_app. left. apply in_or_app. right. simpl. auto. }
    destruct (wq_fast q) as [|a t] eqn:Ef.
    { inv_tuple H. apply Triv; unfold wq_items; cbn.
      - intros y Hy. simpl in Hy. destruct Hy as [->|Hy]; auto. left. rewrite Ef. simpl. auto.
      - simpl. auto. }
    destruct (wq_compact x (a :: t)) as [x1 kept] eqn:Ec.
    assert (Hk1 : KH k x (a :: t)).
    { eapply KH_incl; [|exact Hk]. intros y Hy. apply wq_items_fast. rewrite Ef. exact Hy. }
    destruct (J2x_wq_compact k _ _ _ _ Ec Hk1 Hj) as (A & B & C & M).
    assert (Fin : forall q1, (forall y, In y (wq_items q1) -> In y (a :: t) \/ In y kept \/ In y (wq_ring q) \/ y = r) -> In r (wq_items q1) ->
              J2x (Some k) x1 /\ keyst x x1 /\ (forall y, In y (wq_items q1) -> In y (wq_items q) \/ y = r) /\ In r (wq_items q1)
              /\ mdom x x1).
    { intros q1 F1 F2. split; [auto|]. split; [auto|]. split; [|split; [auto|exact M]].
      intros y Hy. destruct (F1 y Hy) as [Hy1|[Hy1|[Hy1|Hy1]]]; auto; left.
      - apply wq_items_fast. rewrite Ef. auto.
      - apply wq_items_fast. rewrite Ef. auto.
      - unfold wq_items. apply in_or_app. auto. }
    repeat (split_hyp H); inv_tuple H.
    all: apply Fin; unfold wq_items; cbn; rewrite ?Ef.
    all: try (intros y Hy; apply in_app_or in Hy; destruct Hy as [Hy|Hy]; auto;
              try (apply in_app_or in Hy; destruct Hy as [Hy|[->|[]]]; auto); try (destruct Hy as [->|[]]; auto)).
    all: try (apply in_or_app; left; apply in_or_app; right; simpl; auto; fail).
    all: apply in_or_app; right; simpl; auto.
  - inv_tuple H. apply Triv; unfold wq_items; cbn.
    + intros y Hy. apply in_app_or in Hy. destruct Hy as [Hy|Hy]; [left; apply in_or_app; auto|].
      apply in_app_or in Hy. destruct Hy as [Hy|[->|[]]]; auto. left. apply in_or_app. auto.
    + apply in_or_app. right. apply in_or_app. right. simpl. auto.
  - inv_tuple H. apply Triv; unfold wq_items; cbn.
    + intros y Hy. apply in_app_or in Hy. destruct Hy as [Hy|Hy]; [left; apply in_or_app; auto|].
      apply in_prio_insert in Hy. destruct Hy as [Hy| ->]; auto. left. apply in_or_app. auto.
    + apply in_or_app. right. apply in_prio_insert. auto.
Qed.

Lemma in_wq_repush s q y : In y (wq_items (wq_repush s q)) <-> In y (wq_items q).
Proof. rewrite !occ_In, wq_repush_items. tauto. Qed.

Lemma aw_choose_items x k r y : In y (wq_items (aw_choose x k r)) -> In y (m_wq (getm x k)).
Proof.
  unfold aw_choose, m_wq. cbv zeta. destruct (m_wait (getm x k)) as [q|]; [|intros []].
  destruct (m_waited (getm x k) && _); auto. destruct (wq_head q); auto.
  destruct (_ =? _); auto. apply in_wq_repush.
Qed.

(* LockManager.AddWaitLock *)
Lemma J2x_add_wait_lock k x r : KH k x (m_wq (getm x k)) -> J2x (Some k) x ->
  J2x (Some k) (add_wait_lock x k r) /\ keyst x (add_wait_lock x k r)
  /\ (aget (mgrs x) k <> None -> In r (m_wq (getm (add_wait_lock x k r) k))).
Proof.
  intros Hk Hj. rewrite add_wait_lock_eq.
  destruct (wq_push x (aw_choose x k r) r) as [x1 q1] eqn:Ep.
  assert (Hk1 : KH k x (wq_items (aw_choose x k r))).
  { eapply KH_incl; [|exact Hk]. apply aw_choose_items. }
  destruct (J2x_wq_push k _ _ _ _ _ Ep Hk1 Hj) as (A & B & C & D & M).
  cbv zeta.
  set (x2 := updl x1 r (fun l => l <| l_refc := add8 (l_refc l) 1 |>)).
  assert (S2 : keyst x1 x2) by (apply keyst_updl; intros l; reflexivity).
  split; [apply J2x_updm_K; apply J2x_updl; auto|].
  split; [apply (keyst_trans _ x2); [apply (keyst_trans _ x1); auto|apply keyst_updm]|].
  intros Hm.
  destruct (aget (mgrs x2) k) as [m2|] eqn:E2.
  - rewrite (updm_some _ _ _ _ E2), getm_setm_same. unfold m_wq. cbn. exact D.
  - exfalso. unfold x2 in E2. rewrite mgrs_updl in E2. apply (M k) in E2. congruence.
Qed.

Lemma J2x_get_wait_loop k fuel : forall x q x' q' res, get_wait_loop fuel x q = (x', q', res) -> KH k x (wq_items q) -> J2x (Some k) x ->
  J2x (Some k) x' /\ keyst x x'.
Proof.
  induction fuel as [|f IH]; intros x q x' q' res H Hk Hj; simpl in H.
  - inv_tuple H. split; [auto|apply keyst_refl].
  - destruct (wq_head q) as [r|] eqn:Eh.
    + destruct (dead_waiter (getl x r)).
      * rewrite (wq_pop_items q r Eh) in Hk. destruct (KH_cons _ _ _ _ Hk) as [Hr Hrest].
        assert (S1 : keyst x (unref x r)) by apply keyst_unref.
        destruct (IH _ _ _ _ _ H (KH_keyst _ _ _ _ S1 Hrest) (J2x_unref _ _ _ Hr Hj)) as (A & B).
        split; [auto|eapply keyst_trans; eauto].
      * inv_tuple H. split; [auto|apply keyst_refl].
    + inv_tuple H. split; [auto|apply keyst_refl].
Qed.

(* LockManager.GetWaitLock *)
Lemma J2x_get_wait_lock k x x' res : get_wait_lock x k = (x', res) -> KH k x (m_wq (getm x k)) -> J2x (Some k) x ->
  J2x (Some k) x' /\ keyst x x'.
Proof.
  intros H Hk Hj. unfold get_wait_lock in H. unfold m_wq in Hk.
  destruct (m_wait (getm x k)) as [q|]; [|inv_tuple H; split; [auto|apply keyst_refl]].
  destruct (get_wait_loop _ x q) as [[x1 q1] r1] eqn:E. inv_tuple H.
  destruct (J2x_get_wait_loop k _ _ _ _ _ _ E Hk Hj) as (A & B).
  split; [apply J2x_updm_K; auto|eapply keyst_trans; [exact B|apply keyst_updm]].
Qed.
