(* Lock-engine model: types.  Mirrors server/lock.go (Lock, LockManager) and server/db.go (LockDB),
   single shard (DBConcurrent = 1), one database.  See DESIGN.md Appendix A. *)
From Coq Require Import String.
From Slock Require Export Base.Util.
From Slock Require Export Engine.DataIface.
From RecordUpdate Require Export RecordUpdate.
Open Scope N_scope.

(* ------------------------------------------------------------------ constants (hand copy; proved equal to the
   translator output GenConsts in Engine/ConstsTie.v) *)
Definition LOCK_FLAG_SHOW := 1.        Definition LOCK_FLAG_UPDATE := 2.
Definition LOCK_FLAG_FROM_AOF := 4.    Definition LOCK_FLAG_CONCURRENT_CHECK := 8.
Definition LOCK_FLAG_CONTAINS_DATA := 32.
Definition UNLOCK_FLAG_FIRST := 1.     Definition UNLOCK_FLAG_CANCEL_WAIT := 2.
Definition UNLOCK_FLAG_FROM_AOF := 4.  Definition UNLOCK_FLAG_CONTAINS_DATA := 32.
Definition TF_PRIORITY := 16 (*0x10*). Definition TF_MINUTE := 64.
Definition TF_UNRENEW := 256.          Definition TF_WAIT_WHEN_UNLOCK := 512.
Definition TF_MILLISECOND := 1024.     Definition TF_REQUIRE_ACKED := 4096.
Definition TF_NO_RESET_TCC := 8192.    Definition TF_TIMEOUT_WHEN_DATA := 8.
Definition EF_MINUTE := 64.            Definition EF_ZERO_AOF := 256.
Definition EF_UNLIMITED_AOF := 512.    Definition EF_MILLISECOND := 1024.
Definition EF_AOF_PERCENT := 4096.     Definition EF_NO_RESET_ECC := 8192.
Definition EF_UNLIMITED := 16384.
Definition AOF_FLAG_TIMEOUTED := 2.    Definition AOF_FLAG_EXPRIED := 4.
Definition AOF_FLAG_UPDATED := 8.      Definition AOF_FLAG_RCOUNT_IS_PRIORITY := 16.
Definition AOF_FLAG_REQUIRE_ACKED := 4096. Definition AOF_FLAG_CONTAINS_DATA := 8192.
Definition QUEUE_MAX_WAIT := 8.        (* TIMEOUT_QUEUE_MAX_WAIT = EXPRIED_QUEUE_MAX_WAIT *)
Definition WHEEL_MASK := 15.
Definition MAXT : Z := 9223372036854775807%Z.  (* 0x7fffffffffffffff *)
Definition EXPRIED_WAIT_LEADER_MAX_TIME : Z := 300%Z.

Definition R_SUCCED := 0.       Definition R_LOCKED_ERROR := 5.  Definition R_UNLOCK_ERROR := 6.
Definition R_UNOWN_ERROR := 7.  Definition R_TIMEOUT := 8.       Definition R_EXPRIED := 9.
Definition R_STATE_ERROR := 10. Definition R_ERROR := 11.        Definition R_ACK_WAITING := 12.

(* ------------------------------------------------------------------ commands *)
Definition ref := N.
Definition bytes := list N.

Record cmd := mkCmd {
  c_lock : bool;          (* CommandType = COMMAND_LOCK (else COMMAND_UNLOCK) *)
  c_req : N;              (* RequestId *)
  c_flag : N;
  c_lockid : N;
  c_key : N;
  c_tflag : N; c_timeout : N;
  c_eflag : N; c_expried : N;
  c_count : N; c_rcount : N;
  c_data : option bytes   (* command.Data.Data: whole value frame *)
}.
#[export] Instance eta_cmd : Settable _ := settable! mkCmd
  <c_lock; c_req; c_flag; c_lockid; c_key; c_tflag; c_timeout; c_eflag; c_expried; c_count; c_rcount; c_data>.

(* ------------------------------------------------------------------ lock records (server/lock.go Lock) *)
Record lockrec := mkLock {
  l_key : N;               (* manager *)
  l_cmd : cmd;
  l_conn : N;              (* protocol proxy: the connection id the asynchronous replies go to *)
  l_data : option lockdata;
  l_start : Z; l_eT : Z; l_tT : Z;
  l_long : bool;           (* longWaitIndex > 0 *)
  l_tcc : N; l_ecc : N;    (* timeoutCheckedCount / expriedCheckedCount *)
  l_refc : N;
  l_locked : N;            (* re-entrant depth *)
  l_ack : N;               (* ackCount; 0xff = none pending *)
  l_timeouted : bool; l_expried : bool;
  l_aoftime : N; l_isaof : bool
}.
#[export] Instance eta_lock : Settable _ := settable! mkLock
  <l_key; l_cmd; l_conn; l_data; l_start; l_eT; l_tT; l_long; l_tcc; l_ecc; l_refc; l_locked; l_ack;
   l_timeouted; l_expried; l_aoftime; l_isaof>.

Definition dummy_cmd : cmd := mkCmd true 0 0 0 0 0 0 0 0 0 0 None.
Definition dummy_lock : lockrec :=
  mkLock 0 dummy_cmd 0 None 0 0 0 false 1 1 0 0 255 true true 0 false.

(* ------------------------------------------------------------------ per-key queues (server/lock.go:198-534), abstracted
   to their logical content in pop order + the representation state that decides when tombstones are compacted
   (the concrete structures are refined to this in Queue/KeyQueues*.v, property C20). *)
Record hqueue := mkHq {          (* LockManagerLockQueue *)
  hq_fast : list ref;            (* fastQueue[fastIndex:] *)
  hq_fidx : N;                   (* fastIndex *)
  hq_cap : N;                    (* cap(fastQueue); 0 = nil *)
  hq_scale : option (list ref * amap ref)   (* scaleQueue content, maps[LockId] *)
}.
#[export] Instance eta_hq : Settable _ := settable! mkHq <hq_fast; hq_fidx; hq_cap; hq_scale>.
Definition hq_empty : hqueue := mkHq [] 0 0 None.

Inductive wmode := WFast | WRing | WPrio.
Record wqueue := mkWq {          (* LockManagerWaitQueue *)
  wq_fast : list ref; wq_fidx : N; wq_cap : N;
  wq_ring : list ref;            (* ring queue content in pop order (priority ring: stable priority order) *)
  wq_mode : wmode
}.
#[export] Instance eta_wq : Settable _ := settable! mkWq <wq_fast; wq_fidx; wq_cap; wq_ring; wq_mode>.
Definition wq_empty : wqueue := mkWq [] 0 0 [] WFast.

(* ------------------------------------------------------------------ key managers (LockManager) *)
Record mgr := mkMgr {
  m_ref : N;                 (* refCount: lock records not yet freed *)
  m_locked : N;
  m_cur : option ref;        (* currentLock *)
  m_data : option mdata;     (* currentData *)
  m_locks : option hqueue;   (* locks (nil until the second holder) *)
  m_wait : option wqueue;    (* waitLocks *)
  m_waited : bool
}.
#[export] Instance eta_mgr : Settable _ := settable! mkMgr <m_ref; m_locked; m_cur; m_data; m_locks; m_wait; m_waited>.
Definition new_mgr : mgr := mkMgr 0 0 None None None None false.

Record counters := mkCnt {
  n_lock : Z; n_unlock : Z; n_locked : Z; n_wait : Z; n_key : Z; n_timeouted : Z; n_expried : Z; n_unlockerr : Z
}.
#[export] Instance eta_cnt : Settable _ := settable! mkCnt
  <n_lock; n_unlock; n_locked; n_wait; n_key; n_timeouted; n_expried; n_unlockerr>.

(* ------------------------------------------------------------------ database state (LockDB, one shard) *)
Record db := mkDb {
  now : Z; checkT : Z; checkE : Z;     (* currentTime, checkTimeoutTime, checkExpriedTime *)
  leader : bool;                        (* status = STATE_LEADER *)
  cfg_aoftime : N;                      (* Config.DBLockAofTime as uint8 *)
  mgrs : amap mgr;
  store : amap lockrec; next : N;
  twheel : amap (list ref); tlong : amap (list ref);
  ewheel : amap (list ref); elong : amap (list ref);
  cnt : counters
}.
#[export] Instance eta_db : Settable _ := settable! mkDb
  <now; checkT; checkE; leader; cfg_aoftime; mgrs; store; next; twheel; tlong; ewheel; elong; cnt>.

Definition init_db (t0 : Z) (aoft : N) : db :=
  mkDb t0 t0 t0 true aoft [] [] 1 [] [] [] [] (mkCnt 0 0 0 0 0 0 0 0).

(* ------------------------------------------------------------------ events *)
Record aofrec := mkAof {
  a_lock : bool; a_flag : N; a_lockid : N; a_key : N; a_aofflag : N; a_ctime : Z; a_start : N;
  a_eflag : N; a_etime : N; a_count : N; a_rcount : N; a_data : option bytes; a_ref : option ref
}.

Inductive event :=
| EReply (conn req result lcount lrcount lockid count rcount : N) (data : option bytes)
| EAof (r : aofrec)
| EGrant (key : N) (r : ref) (newholder : bool) (locked_before cur_count req_count : N)
    (* ghost: a hold was granted; counters as doLock saw them: lockManager.locked, Count of the oldest holder, request Count *)
| ERelease (key : N) (r : ref) (depth : N)                            (* ghost: depth levels of a hold ended *)
| EPanic (site : string).

(* a pending wake-up pass: wakeUpWaitLocks(lockManager, serverProtocol) still to run *)
Record wake := mkWake { w_key : N; w_conn : option N }.
