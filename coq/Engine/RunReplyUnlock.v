(* Reply exactness, part 2: LockDB.UnLock (unlock_step) with cancelWaitLock and the full release of a hold.
   Every db value, every request; no reachability invariant. *)
From Coq Require Import String ZifyN ZifyBool.
From Slock Require Import Engine.Types Engine.Queues Engine.Timers Engine.Engine Engine.Engine2 Engine.LocalBase
  Engine.InvLockDefs Engine.RunReplyBase.
Open Scope N_scope.

(* the hold an UnLock request addresses: the holder with the request's LockId; with the unlock-first flag the current
   (oldest) holder when no holder has that LockId *)
Definition unlock_addr (s : db) (c : cmd) : option ref :=
  let m := getm s (c_key c) in
  match get_locked_lock s m (c_lockid c) with
  | Some r => Some r
  | None => if has (c_flag c) UNLOCK_FLAG_FIRST then m_cur m else None
  end.

(* the waiter a cancel-wait request addresses (the same function as ReplyLocal.cancel_target) *)
Definition cancel_tgt (s : db) (c : cmd) : option ref :=
  match m_wait (getm s (c_key c)) with Some q => find_last_waiter s (wq_items q) (c_lockid c) None | None => None end.

(* ------------------------------------------------------------------ cancelWaitLock *)
Definition rc2 (a b : N) (e : event) : Prop :=
  match e with
  | EReply _ _ res lc lrc _ _ _ _ => (res = R_LOCKED_ERROR \/ res = R_UNLOCK_ERROR) /\ lc = u16 a /\ lrc = b
  | _ => True
  end.
Lemma rc2_norep a b e : norep e -> rc2 a b e.
Proof. destruct e; simpl; auto; contradiction. Qed.

Lemma cancel_wait_lock_counts s conn c s' ev w :
  cancel_wait_lock s conn c = (s', ev, w) ->
  match cancel_tgt s c with
  | None => Forall (rcr R_UNLOCK_ERROR (mlk s' (c_key c)) 0) ev /\ mfr s s' /\ deq s s'
  | Some r => Forall (rc2 (cancel_val s (c_key c) r) 0) ev
              /\ (mlk s' (c_key c) = cancel_val s (c_key c) r \/ aget (mgrs s') (c_key c) = None)
              /\ dep s' r = 0
  end.
Proof.
  unfold cancel_wait_lock, cancel_tgt. cbv zeta. set (k := c_key c).
  destruct (match m_wait (getm s k) with Some q => find_last_waiter s (wq_items q) (c_lockid c) None | None => None end)
    as [r|] eqn:Ew.
  2:{ intros H. inv_tuple H. split; [|split; [mf|dq]]. constructor; [|constructor]. apply rcr_reply. }
  assert (Hk : aget (mgrs s) k <> None).
  { intros E. rewrite (getm_none _ _ E) in Ew. discriminate Ew. }
  intros H. unfold cancel_val. fold (dep s r) in H.
  destruct (0 <? dep s r) eqn:Hd; cbv beta iota zeta in H.
  - repeat (split_hyp H); inv_tuple H.
    all: match goal with |- Forall _ (_ ++ [reply _ _ _ (m_locked (getm ?S _)) _ _; _]) /\ _ =>
           assert (V : mlk S k = sub32 (mlk s k) (dep s r)) by (eapply mlk_chain_sub; [mf|mf|exact Hk]);
           assert (D : dep S r = 0) by (rewrite dep_remove_lock, N.eqb_refl; reflexivity) end.
    all: split; [|split].
    all: try (assert (HN : forall e, norep e -> rc2 (sub32 (mlk s k) (dep s r)) 0 e) by (intros e; apply rc2_norep);
              nr_solve HN; fold_counts; rewrite V, D; cbn; auto).
    all: try (strip_bump; match goal with |- mlk (remove_mgr_if_unref ?S _) _ = _ \/ _ =>
                destruct (mlk_remove_mgr S k) as [E|E]; [left; rewrite E; exact V|right; exact E] end).
    all: strip_bump; rewrite (dep_store _ _ r (store_remove_mgr _ k)); exact D.
  - apply ltb0_false in Hd.
    repeat (split_hyp H); inv_tuple H.
    all: match goal with |- Forall _ (_ ++ [reply _ _ _ (m_locked (getm ?S _)) _ _; _]) /\ _ =>
           assert (V : mlk S k = mlk s k) by (apply mfr_mlk; mf);
           assert (D : dep S r = 0) by (eapply dfr_zero; [|exact Hd]; df) end.
    all: split; [|split].
    all: try (assert (HN : forall e, norep e -> rc2 (mlk s k) 0 e) by (intros e; apply rc2_norep);
              nr_solve HN; fold_counts; rewrite V, D; cbn; auto).
    all: try (strip_bump; match goal with |- mlk (remove_mgr_if_unref ?S _) _ = _ \/ _ =>
                destruct (mlk_remove_mgr S k) as [E|E]; [left; rewrite E; exact V|right; exact E] end).
    all: strip_bump; rewrite (dep_store _ _ r (store_remove_mgr _ k)); exact D.
Qed.

(* ------------------------------------------------------------------ full release of a hold *)
(* LCount is read at the very end: it is `locked` of the state returned (0 if the manager was removed on the way) *)
Lemma release_hold_counts s k conn c r d s' ev :
  release_hold s k conn c r d = (s', ev) ->
  Forall (rcr R_SUCCED (mlk s' k) 0) ev
  /\ (mlk s' k = mlk s k \/ aget (mgrs s') k = None)
  /\ dep s' r = 0.
Proof.
  intros H. unfold release_hold in H. cbv beta iota zeta in H.
  repeat (split_hyp H); inv_tuple H.
  all: try match goal with |- context [if (l_refc ?x =? 0) then _ else _] => destruct (l_refc x =? 0) end.
  all: split; [|split].
  all: try match goal with |- Forall (rcr ?a ?b ?c) _ =>
         assert (HN : forall e, norep e -> rcr a b c e) by (intros e; apply rcr_norep);
         nr_solve HN; fold_counts; strip_bump; apply rcr_reply end.
  all: strip_bump.
  all: try solve [left; apply mfr_mlk; mf].
  all: try match goal with |- mlk (remove_mgr_if_unref ?S ?kk) _ = _ \/ _ =>
         destruct (mlk_remove_mgr S kk) as [E|E]; [left; rewrite E; apply mfr_mlk; mf|right; exact E] end.
  all: match goal with
       | |- dep (remove_mgr_if_unref (free_lock ?S ?rr) _) _ = 0 => apply dep_freed
       | |- dep (remove_lock _ _ _) _ = 0 => rewrite dep_remove_lock, N.eqb_refl; reflexivity
       end.
Qed.

(* ------------------------------------------------------------------ UnLock *)
(* the statement about one reply of UnLock: s = state before, s' = state returned by the critical section *)
Definition uro (s : db) (c : cmd) (s' : db) (e : event) : Prop :=
  match e with
  | EReply _ _ res lc lrc _ _ _ _ =>
      let k := c_key c in
      if res =? R_SUCCED then
        (* a hold was released: LCount and LRCount are those of the state returned *)
        exists r, unlock_addr s c = Some r
          /\ lc = u16 (mlk s' k) /\ lrc = dep s' r
          /\ ((lrc = 0 /\ (aget (mgrs s') k = None \/ mlk s' k = sub32 (mlk s k) (if 1 <? dep s r then dep s r else 1)))
              \/ (1 < dep s r /\ lrc = dec8 (dep s r) /\ mlk s' k = sub32 (mlk s k) 1))
      else if res =? R_ACK_WAITING then
        exists r, unlock_addr s c = Some r
          /\ lc = u16 (mlk s' k) /\ mlk s' k = mlk s k /\ lrc = dep s' r /\ dep s' r = dep s r
      else
        lrc = 0 /\
        ((lc = u16 (mlk s' k) /\ mlk s' k = mlk s k /\ res <> R_LOCKED_ERROR)
         \/ (exists r, cancel_tgt s c = Some r /\ lc = u16 (cancel_val s k r)
                       /\ (mlk s' k = cancel_val s k r \/ aget (mgrs s') k = None)
                       /\ (res = R_LOCKED_ERROR \/ res = R_UNLOCK_ERROR)))
  | _ => True
  end.

Lemma uro_norep s c s' e : norep e -> uro s c s' e.
Proof. destruct e; simpl; auto; contradiction. Qed.

Ltac neq_res := let X := fresh in intro X; vm_compute in X; discriminate X.

(* plain error reply: the state only has its error counter bumped *)
Lemma uro_err s c s' conn c' res X d :
  (res =? R_SUCCED) = false -> (res =? R_ACK_WAITING) = false -> res <> R_LOCKED_ERROR ->
  X = mlk s' (c_key c) -> mlk s' (c_key c) = mlk s (c_key c) ->
  uro s c s' (reply conn c' res X 0 d).
Proof.
  intros H1 H2 H3 H4 H5. unfold uro, reply. rewrite H1, H2. split; [reflexivity|]. left.
  rewrite H4. auto.
Qed.

Lemma uro_ack s c s' conn c' r X Y d :
  unlock_addr s c = Some r -> X = mlk s' (c_key c) -> mlk s' (c_key c) = mlk s (c_key c) ->
  Y = dep s' r -> dep s' r = dep s r ->
  uro s c s' (reply conn c' R_ACK_WAITING X Y d).
Proof.
  intros H1 H2 H3 H4 H5. unfold uro, reply. cbn [N.eqb R_ACK_WAITING R_SUCCED Pos.eqb].
  exists r. rewrite H2. auto.
Qed.

Lemma cancel_uro s conn c s' ev w : cancel_wait_lock s conn c = (s', ev, w) -> Forall (uro s c s') ev.
Proof.
  intros H. apply cancel_wait_lock_counts in H. destruct (cancel_tgt s c) as [r|] eqn:Et.
  - destruct H as (HF & Hm & _). eapply Forall_impl; [|exact HF].
    intros [] He; simpl in *; auto. destruct He as (Hres & -> & ->).
    assert (E1 : (result =? R_SUCCED) = false) by (destruct Hres as [-> | ->]; reflexivity).
    assert (E2 : (result =? R_ACK_WAITING) = false) by (destruct Hres as [-> | ->]; reflexivity).
    rewrite E1, E2. split; [reflexivity|]. right. exists r. auto.
  - destruct H as (HF & Hm & _). eapply Forall_impl; [|exact HF].
    intros [] He; simpl in *; auto. destruct He as (-> & -> & ->).
    cbn. split; [reflexivity|]. left. split; [reflexivity|]. split; [apply mfr_mlk; exact Hm|neq_res].
Qed.

Lemma pres_of_dep s r : 0 < dep s r -> pres s r = true.
Proof.
  unfold dep, pres, getl. destruct (aget (store s) r); auto. cbn. lia.
Qed.

Lemma dep_updl_dec x r :
  dep (updl x r (fun l => l <| l_locked := dec8 (l_locked l) |>)) r = if pres x r then dec8 (dep x r) else 0.
Proof.
  unfold dep, pres. rewrite getl_updl, N.eqb_refl. unfold getl.
  destruct (aget (store x) r); reflexivity.
Qed.

Lemma ul_body_counts s conn c0 c k r s' ev w :
  ul_body s conn c k r = (s', ev, w) -> k = c_key c0 -> aget (mgrs s) k <> None -> unlock_addr s c0 = Some r ->
  Forall (uro s c0 s') ev.
Proof.
  intros H Hkk Hk Ha. unfold ul_body in H. cbv beta iota zeta in H.
  destruct (1 <? l_locked (getl s r)) eqn:H1.
  - destruct ((0 <? c_rcount c) && negb (has (c_tflag c) TF_PRIORITY)).
    + (* one level *)
      repeat (split_hyp H); inv_tuple H.
      all: match goal with |- Forall (uro ?a ?b ?cc) _ =>
             assert (HN : forall e, norep e -> uro a b cc e) by (intros e; apply uro_norep) end.
      all: nr_solve HN; fold_counts; unfold uro, reply; cbn [N.eqb R_SUCCED]; exists r.
      all: split; [exact Ha|]; rewrite <- Hkk; strip_bump; split; [reflexivity|]; split; [reflexivity|]; right.
      all: fold (dep s r) in H1; apply N.ltb_lt in H1; split; [exact H1|].
      all: split; [|eapply mlk_chain_sub; [mf|mf|exact Hk]].
      all: match goal with |- dep ?S ?rr = _ =>
             transitivity (dep (updm (updl s rr (fun l => l <| l_locked := dec8 (l_locked l) |>)) k
                                (fun m => m <| m_locked := sub32 (m_locked m) 1 |>)) rr); [apply deq_at; dq|];
             rewrite dep_updm, dep_updl_dec, pres_of_dep by lia; reflexivity end.
    + destruct (release_hold _ k conn c r _) as [s1 e1] eqn:E. inv_tuple H.
      apply release_hold_counts in E. destruct E as (HF & Hm & Hd).
      eapply Forall_impl; [|exact HF]. intros [] He; simpl in *; auto. destruct He as (-> & -> & ->).
      cbn [N.eqb R_SUCCED]. exists r. rewrite <- Hkk. split; [exact Ha|]. split; [reflexivity|]. split; [symmetry; exact Hd|].
      left. split; [reflexivity|]. destruct Hm as [Hm|Hm]; [right|left; exact Hm].
      rewrite Hm. fold (dep s r) in H1. rewrite H1. fold (dep s r). apply mlk_updm_locked with (g := fun x => sub32 x (dep s r)). exact Hk.
  - destruct (release_hold _ k conn c r _) as [s1 e1] eqn:E. inv_tuple H.
    apply release_hold_counts in E. destruct E as (HF & Hm & Hd).
    eapply Forall_impl; [|exact HF]. intros [] He; simpl in *; auto. destruct He as (-> & -> & ->).
    cbn [N.eqb R_SUCCED]. exists r. rewrite <- Hkk. split; [exact Ha|]. split; [reflexivity|]. split; [symmetry; exact Hd|].
    left. split; [reflexivity|]. destruct Hm as [Hm|Hm]; [right|left; exact Hm].
    rewrite Hm. fold (dep s r) in H1. rewrite H1. apply mlk_updm_locked with (g := fun x => sub32 x 1). exact Hk.
Qed.

Theorem unlock_step_counts s conn c s' ev w :
  unlock_step s conn c = (s', ev, w) -> Forall (uro s c s') ev.
Proof.
  rewrite unlock_step_eq. cbv zeta.
  destruct (aget (mgrs s) (c_key c)) as [m|] eqn:Em.
  2:{ intros H. inv_tuple H. constructor; [|constructor].
      apply uro_err; try reflexivity; try neq_res; strip_bump; symmetry; apply mlk_none; exact Em. }
  assert (Hk : aget (mgrs s) (c_key c) <> None) by congruence.
  assert (Hm : getm s (c_key c) = m) by (apply getm_some; exact Em).
  assert (Hlk : m_locked m = mlk s (c_key c)) by (unfold mlk; rewrite Hm; reflexivity).
  assert (ERR : forall c' res s1 e1 w1, ul_err conn (c_key c) m s c' res 0 = (s1, e1, w1) ->
                  (res =? R_SUCCED) = false -> (res =? R_ACK_WAITING) = false -> res <> R_LOCKED_ERROR ->
                  Forall (uro s c s1) e1).
  { intros c' res s1 e1 w1 H H1 H2 H3. unfold ul_err in H. inv_tuple H. constructor; [|constructor].
    apply uro_err; auto. }
  assert (ACK : forall c' r s1 e1 w1, ul_err conn (c_key c) m s c' R_ACK_WAITING (l_locked (getl s r)) = (s1, e1, w1) ->
                  unlock_addr s c = Some r -> Forall (uro s c s1) e1).
  { intros c' r s1 e1 w1 H Ha. unfold ul_err in H. inv_tuple H. constructor; [|constructor].
    eapply uro_ack; eauto. }
  destruct (negb (leader s) && negb (has (c_flag c) UNLOCK_FLAG_FROM_AOF)).
  { intros H. eapply ERR; [exact H| | |]; try reflexivity. neq_res. }
  destruct (m_locked m =? 0).
  { destruct (has (c_flag c) UNLOCK_FLAG_CANCEL_WAIT).
    - apply cancel_uro.
    - intros H. eapply ERR; [exact H| | |]; try reflexivity. neq_res. }
  unfold ul_target. cbv zeta.
  destruct (get_locked_lock s m (c_lockid c)) as [r|] eqn:Eg.
  - assert (Ha : unlock_addr s c = Some r) by (unfold unlock_addr; cbv zeta; rewrite Hm, Eg; reflexivity).
    destruct (negb (l_ack (getl s r) =? 255)).
    + intros H. eapply ACK; eauto.
    + intros H. eapply ul_body_counts; eauto.
  - destruct (has (c_flag c) UNLOCK_FLAG_FIRST) eqn:Ef.
    + destruct (m_cur m) as [cr|] eqn:Ec.
      * assert (Ha : unlock_addr s c = Some cr) by (unfold unlock_addr; cbv zeta; rewrite Hm, Eg, Ef; exact Ec).
        destruct (negb (l_ack (getl s cr) =? 255)).
        -- intros H. eapply ACK; eauto.
        -- intros H. eapply ul_body_counts; eauto.
      * intros H. eapply ERR; [exact H| | |]; try reflexivity. neq_res.
    + destruct (has (c_flag c) UNLOCK_FLAG_CANCEL_WAIT).
      * apply cancel_uro.
      * intros H. eapply ERR; [exact H| | |]; try reflexivity. neq_res.
Qed.

(* the uniform statement: LCount is `locked` of the key in the state returned by the critical section, except when a
   cancel-wait removed the key's manager (then it is the value just before the removal) *)
Corollary unlock_step_lcount_post s conn c s' ev w :
  unlock_step s conn c = (s', ev, w) ->
  Forall (fun e => match e with
                   | EReply _ _ res lc _ _ _ _ _ =>
                       lc = u16 (mlk s' (c_key c))
                       \/ (aget (mgrs s') (c_key c) = None /\ (res = R_LOCKED_ERROR \/ res = R_UNLOCK_ERROR)
                           /\ exists r, cancel_tgt s c = Some r /\ lc = u16 (cancel_val s (c_key c) r))
                   | _ => True end) ev.
Proof.
  intros H. apply unlock_step_counts in H. eapply Forall_impl; [|exact H].
  intros [] He; simpl in *; auto.
  destruct (result =? R_SUCCED).
  - destruct He as (r & _ & -> & _). auto.
  - destruct (result =? R_ACK_WAITING).
    + destruct He as (r & _ & -> & _). auto.
    + destruct He as (_ & [(-> & _)|(r & Ht & -> & [E|E] & Hres)]); auto.
      * left. rewrite E. reflexivity.
      * right. split; auto. split; auto. exists r. auto.
Qed.
