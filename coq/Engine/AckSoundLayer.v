(* C11 soundness, part 2: the layer invariant through ProcessLeaderPushLock (`register`), ProcessLeaderPushUnLock
   (`unregister`), the record queue (`post_go` / `with_post`), ProcessLeaderAofed / Acked (`ack_event`) and whole runs,
   for every engine invariant E that satisfies the contract of AckSoundDefs.v.  Result: every `ack_core` run passes the
   monitor `arun_ok2` (fresh registrations, issued indices, `reg_sound` before every action) and ends in `AInv`. *)
From Coq Require Import String ZifyN ZifyBool ZifyNat.
From Slock Require Import Engine.Types Engine.Queues Engine.Timers Engine.Engine Engine.Engine2 Engine.Ack.
From Slock Require Import Engine.AckProofsBase Engine.AckProofsAck Engine.AckProofsGrant Engine.AckProofsRel
  Engine.AckProofsGlobal Engine.AckProofsUnreg Engine.AckSoundDefs.
Open Scope N_scope.

(* ================================================================== lists of record pointers *)
Lemma refs_skip e rest :
  rec_ref true e = [] -> rec_ref false e = [] ->
  lock_refs (e :: rest) = lock_refs rest /\ unlock_refs (e :: rest) = unlock_refs rest.
Proof. intros H1 H2. unfold lock_refs, unlock_refs. cbn [flat_map]. rewrite H1, H2. split; reflexivity. Qed.

Lemma refs_lock a x rest : a_ref a = Some x -> a_lock a = true ->
  lock_refs (EAof a :: rest) = x :: lock_refs rest /\ unlock_refs (EAof a :: rest) = unlock_refs rest.
Proof. intros H1 H2. unfold lock_refs, unlock_refs. cbn [flat_map rec_ref]. rewrite H1, H2. split; reflexivity. Qed.

Lemma refs_unlock a x rest : a_ref a = Some x -> a_lock a = false ->
  lock_refs (EAof a :: rest) = lock_refs rest /\ unlock_refs (EAof a :: rest) = x :: unlock_refs rest.
Proof. intros H1 H2. unfold lock_refs, unlock_refs. cbn [flat_map rec_ref]. rewrite H1, H2. split; reflexivity. Qed.

Lemma reg_has_req_false reg q : (forall e, In e reg -> fst (snd e) <> q) -> reg_has_req reg q = false.
Proof.
  induction reg as [|[j [q' r']] rest IH]; simpl; intros H; [reflexivity|].
  rewrite IH by (intros e He; apply H; right; exact He).
  assert (q' <> q) by (apply (H (j, (q', r'))); left; reflexivity).
  apply N.eqb_neq in H0. rewrite H0. reflexivity.
Qed.

Lemma reg_find_req_none_in reg q : reg_find_req reg q = None -> forall e, In e reg -> fst (snd e) <> q.
Proof.
  induction reg as [|[j [q' r']] rest IH]; simpl; [intros _ e []|].
  destruct (q' =? q) eqn:Eq; [discriminate|]. intros H e [<-|He]; [apply N.eqb_neq in Eq; exact Eq|auto].
Qed.

Lemma registered_not_in reg x : ~ In x (map (fun e => snd (snd e)) reg) -> registered reg x = false.
Proof.
  intros H. unfold registered. destruct (existsb (fun e => snd (snd e) =? x) reg) eqn:Ex; [|reflexivity].
  apply existsb_exists in Ex. destruct Ex as (e & He & Eq). apply N.eqb_eq in Eq. exfalso. apply H.
  apply in_map_iff. exists e. auto.
Qed.

Lemma NoDup_filter_app {A B} (f : A -> B) p (l : list A) (L : list B) :
  NoDup (map f l ++ L) -> NoDup (map f (filter p l) ++ L).
Proof.
  induction l as [|x l IH]; simpl; auto. intros N. inversion N; subst. destruct (p x); simpl; auto.
  constructor; auto. intros Hin. apply H1. apply in_app_or in Hin. apply in_or_app. destruct Hin as [Hin|Hin]; auto.
  left. apply in_map_iff in Hin. destruct Hin as (y & E & Hy). apply filter_In in Hy. rewrite <- E. apply in_map. tauto.
Qed.

Lemma NoDup_app_left {A} (l1 l2 : list A) : NoDup (l1 ++ l2) -> NoDup l1.
Proof.
  induction l1 as [|y l1 IH]; simpl; intros N; [constructor|]. inversion N; subst. constructor; auto.
  intros H. apply H1. apply in_or_app. auto.
Qed.

Lemma NoDup_app_right {A} (l1 l2 : list A) : NoDup (l1 ++ l2) -> NoDup l2.
Proof. induction l1 as [|y l1 IH]; simpl; intros N; [exact N|]. inversion N; subst. auto. Qed.

Lemma NoDup_app_disj {A} (l1 l2 : list A) : NoDup (l1 ++ l2) -> forall x, In x l1 -> In x l2 -> False.
Proof.
  induction l1 as [|y l1 IH]; simpl; intros N x H1 H2; [contradiction|]. inversion N; subst.
  destruct H1 as [->|H1]; [apply H3; apply in_or_app; auto|eauto].
Qed.

(* ================================================================== DoAckLock on a record with nothing pending *)
Lemma store_remove_mgr s k : store (remove_mgr_if_unref s k) = store s.
Proof. unfold remove_mgr_if_unref. destruct (aget (mgrs s) k); [|reflexivity]. destruct (m_ref m =? 0); reflexivity. Qed.

Lemma store_remove_long_timeout_other s x y : x <> y ->
  aget (store (remove_long_timeout s x)) y = aget (store s) y.
Proof.
  intros Hn. apply N.eqb_neq in Hn. unfold remove_long_timeout. cbv zeta.
  destruct (aget (tlong s) (lkey (l_tT (getl s x)))); rewrite aget_store_updl, Hn; reflexivity.
Qed.

Lemma do_ack_nothing_pending s x l s1 ev1 :
  aget (store s) x = Some l -> l_ack l = 255 -> finish (do_ack s x false) = (s1, ev1) ->
  ev1 = [] /\ forall y, y <> x -> getl s1 y = getl s y.
Proof.
  intros H A F. rewrite (do_ack_none_pending _ _ false _ H A) in F. cbn [finish] in F. inv F. split; [reflexivity|].
  intros y Hy. unfold getl.
  assert (Hxy : x <> y) by congruence. pose proof Hxy as Hb. apply N.eqb_neq in Hb.
  assert (S1 : aget (store (stop_timeout s x l)) y = aget (store s) y).
  { unfold stop_timeout. destruct (negb (l_timeouted l)); [|reflexivity].
    destruct (l_long l).
    - rewrite store_remove_long_timeout_other by exact Hxy. rewrite aget_store_updl, Hb. reflexivity.
    - rewrite aget_store_updl, Hb. reflexivity. }
  assert (S2 : aget (store (freed_then_mgr x (l_key l) (unref (stop_timeout s x l) x))) y = aget (store s) y).
  { unfold freed_then_mgr.
    match goal with |- context [if ?c then _ else _] => destruct c end;
      [rewrite store_remove_mgr|]; rewrite (unref_other _ x y Hxy); exact S1. }
  rewrite S2. reflexivity.
Qed.

(* ================================================================== the layer, for any engine invariant *)
Section Layer.
Variable E : list N -> db -> list ref -> Prop.
Hypothesis EC : eng_contract E.
Variable cfg : N.
Hypothesis Hcfg : 1 <= cfg /\ cfg < 255.

Lemma minv_regs_alloc Q st todo x : MInv E cfg Q st todo -> In x (regs st) -> exists l, aget (store (a_db st)) x = Some l.
Proof.
  intros M Hx. pose proof (ec_alloc E EC _ _ _ x (m_E _ _ _ _ _ M)) as A.
  destruct (aget (store (a_db st)) x) as [l|]; [eauto|]. exfalso. apply A; [apply in_or_app; auto|reflexivity].
Qed.

Lemma in_regs st i q r : In (i, (q, r)) (a_reg st) -> In r (regs st).
Proof. intros H. unfold regs. apply in_map_iff. exists (i, (q, r)). auto. Qed.

(* a registration under the RequestId of an allocated record is the registration of that record *)
Lemma minv_req_owner Q st todo x lx i r0 :
  MInv E cfg Q st todo -> aget (store (a_db st)) x = Some lx ->
  In (i, (c_req (l_cmd lx), r0)) (a_reg st) -> r0 = x.
Proof.
  intros M Hx Hin. destruct (m_ent _ _ _ _ _ M _ _ _ Hin) as [Cq _].
  destruct (minv_regs_alloc _ _ _ _ M (in_regs _ _ _ _ Hin)) as (l0 & H0).
  unfold creq_of in Cq. rewrite (getl_of _ _ _ H0) in Cq.
  eapply (ec_inj E EC _ _ _ r0 x l0 lx (m_E _ _ _ _ _ M)); eauto.
Qed.

(* ------------------------------------------------------------------ skipping an event that carries no lock *)
Lemma minv_skip Q st e rest :
  rec_ref true e = [] -> rec_ref false e = [] -> MInv E cfg Q st (e :: rest) -> MInv E cfg Q st rest.
Proof.
  intros H1 H2 M. destruct (refs_skip e rest H1 H2) as [L U]. destruct M as [M1 M2 M3 M4 M5 M6 M7].
  rewrite L in *. rewrite U in *. constructor; auto.
Qed.

(* ------------------------------------------------------------------ ProcessLeaderPushLock *)
Lemma register_minv Q st a x rest :
  a_ref a = Some x -> a_lock a = true -> MInv E cfg Q st (EAof a :: rest) ->
  reg_fresh st x = true
  /\ exists st1, register st x = (st1, []) /\ MInv E cfg Q st1 rest.
Proof.
  intros Ar Al M. destruct (refs_lock a x rest Ar Al) as [L U].
  pose proof M as [M1 M2 M3 M4 M5 M6 M7]. rewrite L in M2, M4. rewrite U in M3, M4, M5.
  set (s := a_db st) in *. set (Ls := lock_refs rest) in *.
  assert (Px : In x (regs st ++ x :: Ls)) by (apply in_or_app; right; left; reflexivity).
  pose proof (ec_nodup E EC _ _ _ M2) as ND.
  assert (Nx : ~ In x (regs st ++ Ls)) by (apply NoDup_remove_2; exact ND).
  assert (Nr : ~ In x (regs st)) by (intros Hx; apply Nx; apply in_or_app; auto).
  assert (Nl : ~ In x Ls) by (intros Hx; apply Nx; apply in_or_app; auto).
  destruct (M4 x (or_introl eq_refl)) as [A0 Nu].
  destruct (aget (store s) x) as [lx|] eqn:Hx; [|exfalso; eapply (ec_alloc E EC); eauto].
  assert (Gx : getl s x = lx) by (apply getl_of; exact Hx).
  assert (Ld : leader s = true) by (eapply (ec_leader E EC); eauto).
  assert (Fq : reg_has_req (a_reg st) (c_req (l_cmd lx)) = false).
  { apply reg_has_req_false. intros [j [q' r']] He Eq. cbn [fst snd] in Eq. subst q'.
    apply Nr. rewrite <- (minv_req_owner _ _ _ _ _ _ _ M Hx He). eapply in_regs; eauto. }
  split.
  { unfold reg_fresh. fold s. rewrite A0. rewrite (registered_not_in _ _ Nr). reflexivity. }
  eexists. split.
  { unfold register. cbv zeta. cbn [a_db a_cfg a_reg a_next]. fold s. rewrite Hx, Ld, Gx, Fq. cbn [negb orb]. reflexivity. }
  assert (Oth : forall y, y <> x -> getl (updl s x (fun l => l <| l_ack := a_cfg st |>)) y = getl s y).
  { intros y Hy. rewrite getl_updl. destruct (x =? y) eqn:Eq; [apply N.eqb_eq in Eq; congruence|reflexivity]. }
  assert (Slf : getl (updl s x (fun l => l <| l_ack := a_cfg st |>)) x = lx <| l_ack := a_cfg st |>).
  { rewrite getl_updl, N.eqb_refl, Hx. reflexivity. }
  constructor; cbn [a_db a_cfg a_reg a_next]; auto.
  - unfold regs. cbn [a_reg]. rewrite map_app. cbn [map snd]. rewrite <- app_assoc. cbn [app].
    apply (ec_setack E EC); auto.
    + unfold pend. fold s. rewrite A0. discriminate.
    + rewrite M1. lia.
  - intros i q r Hin. apply in_app_or in Hin. destruct Hin as [Hin|[Hin|[]]].
    + assert (r <> x) by (intros ->; apply Nr; eapply in_regs; eauto).
      destruct (M3 _ _ _ Hin) as [C1 C2]. unfold creq_of in *. rewrite (Oth r H). auto.
    + injection Hin as E1 E2 E3. subst i q r. unfold creq_of. rewrite Slf. cbn. split; [reflexivity|]. left. rewrite M1. lia.
  - intros y Hy. assert (y <> x) by (intros ->; auto). rewrite (Oth y H). apply M4. right. exact Hy.
  - intros y Hy Hr. unfold regs in Hr. cbn [a_reg] in Hr. rewrite map_app in Hr. apply in_app_or in Hr.
    destruct Hr as [Hr|[Hr|[]]].
    + assert (y <> x) by (intros ->; auto). rewrite (Oth y H). auto.
    + cbn in Hr. subst y. contradiction.
  - intros e He. cbn [a_reg a_next] in *. apply in_app_or in He. destruct He as [He|[<-|[]]]; [specialize (M6 e He); lia|cbn; lia].
  - rewrite map_app. cbn [map fst]. apply NoDup_app_one; auto. intros Hin. apply in_map_iff in Hin.
    destruct Hin as (e & E1 & E2). specialize (M6 e E2). lia.
Qed.

(* ------------------------------------------------------------------ ProcessLeaderPushUnLock *)
Lemma minv_drop_todo Q st a x rest :
  a_ref a = Some x -> a_lock a = false -> MInv E cfg Q st (EAof a :: rest) ->
  ~ In x (regs st) -> MInv E cfg Q st rest.
Proof.
  intros Ar Al M Nx. destruct (refs_unlock a x rest Ar Al) as [L U].
  destruct M as [M1 M2 M3 M4 M5 M6 M7]. rewrite L in M2, M4. rewrite U in M3, M4, M5.
  constructor; auto.
  - intros i q r Hin. destruct (M3 _ _ _ Hin) as [C1 [C2|[C2|C2]]]; auto.
    subst r. exfalso. apply Nx. eapply in_regs; eauto.
  - intros y Hy. destruct (M4 y Hy) as [C1 C2]. split; auto. intros Hu. apply C2. right. exact Hu.
  - intros y Hy Hr. apply M5; auto. right. exact Hy.
Qed.

Lemma unregister_minv Q st a x rest :
  a_ref a = Some x -> a_lock a = false -> MInv E cfg Q st (EAof a :: rest) ->
  exists st1, unregister st x = (st1, []) /\ MInv E cfg Q st1 rest.
Proof.
  intros Ar Al M. destruct (refs_unlock a x rest Ar Al) as [L U].
  pose proof M as [M1 M2 M3 M4 M5 M6 M7]. rewrite L in M2, M4. rewrite U in M3, M4, M5.
  set (s := a_db st) in *. set (Ls := lock_refs rest) in *.
  unfold unregister. cbv zeta. fold s.
  destruct (aget (store s) x) as [lx|] eqn:Hx.
  2:{ exists st. split; [reflexivity|]. eapply minv_drop_todo; eauto. intros Hr.
      destruct (minv_regs_alloc _ _ _ _ M Hr) as (l & Hl). fold s in Hl. congruence. }
  destruct (reg_find_req (a_reg st) (c_req (l_cmd lx))) as [[i r0]|] eqn:Fr.
  2:{ exists st. split; [reflexivity|]. eapply minv_drop_todo; eauto. intros Hr.
      unfold regs in Hr. apply in_map_iff in Hr. destruct Hr as ([j [q r]] & Er & He). cbn in Er. subst r.
      destruct (M3 _ _ _ He) as [Cq _]. unfold creq_of in Cq. fold s in Cq. rewrite (getl_of _ _ _ Hx) in Cq.
      apply (reg_find_req_none_in _ _ Fr _ He). cbn. auto. }
  pose proof (reg_find_req_in _ _ _ _ Fr) as Hin.
  assert (r0 = x) by (eapply minv_req_owner; eauto). subst r0.
  assert (Rx : In x (regs st)) by (eapply in_regs; eauto).
  assert (A255 : l_ack (getl s x) = 255) by (apply M5; [left; reflexivity|exact Rx]).
  destruct (finish (do_ack s x false)) as [s1 e1] eqn:Fd.
  assert (Al255 : l_ack lx = 255) by (rewrite <- (getl_of _ _ _ Hx); exact A255).
  destruct (do_ack_nothing_pending _ _ _ _ _ Hx Al255 Fd) as [-> Oth].
  eexists. split; [reflexivity|].
  pose proof (ec_nodup E EC _ _ _ M2) as ND.
  assert (NDr : NoDup (map (fun e => snd (snd e)) (a_reg st))).
  { apply NoDup_app_left in ND. exact ND. }
  assert (Mem : forall y, In y (regs (mkA s1 (a_cfg st) (reg_del (a_reg st) i) (a_next st))) <-> In y (regs st) /\ y <> x).
  { intros y. unfold regs. cbn [a_reg]. split.
    - intros Hy. apply in_map_iff in Hy. destruct Hy as (e & Ey & He). apply reg_del_in in He. destruct He as [He Hi].
      split; [apply in_map_iff; exists e; auto|]. intros ->. apply Hi.
      assert (e = (i, (c_req (l_cmd lx), x))) by (eapply NoDup_ref_unique; eauto). subst e. reflexivity.
    - intros [Hy Hn]. apply in_map_iff in Hy. destruct Hy as (e & Ey & He). apply in_map_iff. exists e. split; auto.
      unfold reg_del. apply filter_In. split; auto. apply negb_true_iff, N.eqb_neq. intros Hi.
      assert (e = (i, (c_req (l_cmd lx), x))) by (eapply NoDup_fst_unique; eauto). subst e. cbn in Ey. congruence. }
  assert (NxL : ~ In x Ls).
  { intros HxL. apply (NoDup_app_disj _ _ ND x); auto. }
  constructor; cbn [a_db a_cfg a_reg a_next]; auto.
  - eapply (ec_drop E EC _ s (regs st ++ Ls) x s1 []); eauto.
    + apply in_or_app. auto.
    + intros y. rewrite !in_app_iff, Mem. split.
      * intros [[H1 H2]|H1]; [tauto|]. split; [tauto|]. intros ->. contradiction.
      * intros [[H1|H1] H2]; tauto.
    + unfold regs. cbn [a_reg]. unfold reg_del. apply NoDup_filter_app. exact ND.
  - intros j q r He. apply reg_del_in in He. destruct He as [He Hi].
    assert (Hr : r <> x).
    { intros ->. apply Hi. assert ((j, (q, x)) = (i, (c_req (l_cmd lx), x))) by (eapply NoDup_ref_unique; eauto).
      inv H. reflexivity. }
    destruct (M3 _ _ _ He) as [C1 C2]. unfold creq_of in *. rewrite (Oth r Hr). split; auto.
    destruct C2 as [C2|[C2|C2]]; auto. congruence.
  - intros y Hy. assert (y <> x) by (intros ->; contradiction). rewrite (Oth y H).
    destruct (M4 y Hy) as [C1 C2]. split; auto. intros Hu. apply C2. right. exact Hu.
  - intros y Hy Hr. apply Mem in Hr. destruct Hr as [Hr Hn]. rewrite (Oth y Hn). apply M5; auto. right. exact Hy.
  - intros e He. cbn [a_reg a_next] in *. apply reg_del_in in He. apply M6. tauto.
  - apply NoDup_map_filter. exact M7.
Qed.

(* ------------------------------------------------------------------ the record queue *)
Lemma post_go_minv fuel : forall Q st todo acc,
  MInv E cfg Q st todo -> (length todo < fuel)%nat ->
  exists st', post_go fuel st todo acc = (st', acc) /\ AInv E cfg Q st' /\ post_ok fuel st todo = true.
Proof.
  induction fuel as [|f IH]; intros Q st todo acc M Hl; [lia|].
  destruct todo as [|e rest]; [exists st; split; [reflexivity|split; [exact M|reflexivity]]|].
  cbn [length] in Hl. assert (Hl' : (length rest < f)%nat) by lia.
  assert (SK : rec_ref true e = [] -> rec_ref false e = [] ->
               exists st', post_go f st rest acc = (st', acc) /\ AInv E cfg Q st' /\ post_ok f st rest = true).
  { intros H1 H2. apply IH; auto. eapply minv_skip; eauto. }
  destruct e as [| a | | |]; cbn [post_go post_ok]; try (apply SK; reflexivity).
  destruct (a_ref a) as [x|] eqn:Ar; [|apply SK; cbn [rec_ref]; rewrite Ar; reflexivity].
  assert (Ld : leader (a_db st) = true) by (eapply (ec_leader E EC); apply (m_E _ _ _ _ _ M)).
  rewrite Ld. destruct (a_lock a) eqn:Al.
  - destruct (register_minv _ _ _ _ _ Ar Al M) as (Fr & st1 & R & M1). rewrite R, Fr. rewrite !app_nil_r. cbn [andb].
    apply IH; auto.
  - destruct (unregister_minv _ _ _ _ _ Ar Al M) as (st1 & R & M1). rewrite R. rewrite !app_nil_r.
    apply IH; auto.
Qed.

Lemma with_post_minv Q st s ev :
  MInv E cfg Q (mkA s (a_cfg st) (a_reg st) (a_next st)) ev ->
  exists st', with_post st (s, ev) = (st', ev) /\ AInv E cfg Q st' /\ with_post_ok st (s, ev) = true.
Proof. intros M. unfold with_post, with_post_ok. apply post_go_minv; auto. lia. Qed.

(* what an engine entry point leaves behind is the state the record queue starts from *)
Lemma spec_minv Q' s cfgv reg' nxt s' ev :
  cfgv = cfg -> (forall e, In e reg' -> fst e < nxt) -> NoDup (map fst reg') ->
  step_spec E Q' s (map (fun e => snd (snd e)) reg') s' ev ->
  (forall i q r, In (i, (q, r)) reg' -> creq_of s r = q /\ 0 < l_ack (getl s r) /\ l_ack (getl s r) < 255) ->
  MInv E cfg Q' (mkA s' cfgv reg' nxt) ev.
Proof.
  intros Hc Ix ND [S1 S2 S3 S4] Pn.
  constructor; cbn [a_db a_cfg a_reg a_next]; auto.
  intros i q r Hin. assert (Hr : In r (map (fun e => snd (snd e)) reg')).
  { apply in_map_iff. exists (i, (q, r)). auto. }
  destruct (S3 r Hr) as [C1 C2]. destruct (Pn _ _ _ Hin) as [D1 D2]. unfold creq_of in *. rewrite C1. split; auto.
  destruct C2 as [C2|[C2 C3]]; [|right; exact C3]. rewrite C2. left. exact D2.
Qed.

(* ------------------------------------------------------------------ ProcessLeaderAofed / ProcessLeaderAcked *)
Lemma reg_del_regs_mem (reg : list (N * (N * ref))) i q r :
  NoDup (map fst reg) -> NoDup (map (fun e => snd (snd e)) reg) -> In (i, (q, r)) reg ->
  forall y, In y (map (fun e => snd (snd e)) (reg_del reg i)) <-> In y (map (fun e => snd (snd e)) reg) /\ y <> r.
Proof.
  intros N1 N2 Hin y. split.
  - intros Hy. apply in_map_iff in Hy. destruct Hy as (e & Ey & He). apply reg_del_in in He. destruct He as [He Hi].
    split; [apply in_map_iff; exists e; auto|]. intros ->. apply Hi.
    assert (e = (i, (q, r))) by (eapply NoDup_ref_unique; eauto). subst e. reflexivity.
  - intros [Hy Hn]. apply in_map_iff in Hy. destruct Hy as (e & Ey & He). apply in_map_iff. exists e. split; auto.
    unfold reg_del. apply filter_In. split; auto. apply negb_true_iff, N.eqb_neq. intros Hi.
    assert (e = (i, (q, r))) by (eapply NoDup_fst_unique; eauto). subst e. cbn in Ey. congruence.
Qed.

Lemma ainv_pend Q st x : AInv E cfg Q st -> In x (regs st) -> pend (a_db st) x.
Proof.
  intros A Hx. unfold regs in Hx. apply in_map_iff in Hx. destruct Hx as ([i [q r]] & Er & He). cbn in Er. subst r.
  destruct (m_ent _ _ _ _ _ A _ _ _ He) as [_ [C|[]]]. unfold pend. lia.
Qed.

Lemma ack_event_ainv Q st i ok :
  AInv E cfg Q st -> i < a_next st ->
  exists st' ev, ack_event st i ok = (st', ev) /\ AInv E cfg Q st' /\ ack_event_ok st i ok = true.
Proof.
  intros A Hi. unfold ack_event, ack_event_ok. apply N.ltb_lt in Hi. rewrite Hi. cbn [andb].
  destruct (reg_find (a_reg st) i) as [[q r]|] eqn:F; [|exists st, []; auto].
  pose proof (reg_find_in _ _ _ F) as Hin. cbv zeta.
  pose proof A as [M1 M2 M3 M4 M5 M6 M7]. cbn [lock_refs flat_map] in M2. rewrite app_nil_r in M2.
  pose proof (ec_nodup E EC _ _ _ M2) as NDr. unfold regs in NDr.
  assert (Rr : In r (regs st)) by (eapply in_regs; eauto).
  destruct (M3 _ _ _ Hin) as [Cq [Ca|[]]].
  set (s := a_db st) in *.
  assert (Mem := reg_del_regs_mem _ _ _ _ M7 NDr Hin).
  assert (NDd : NoDup (map (fun e => snd (snd e)) (reg_del (a_reg st) i))) by (apply NoDup_map_filter; exact NDr).
  assert (NDi : NoDup (map fst (reg_del (a_reg st) i))) by (apply NoDup_map_filter; exact M7).
  assert (Sub : forall e, In e (reg_del (a_reg st) i) -> In e (a_reg st)) by (intros e He; apply reg_del_in in He; tauto).
  assert (Ixd : forall e, In e (reg_del (a_reg st) i) -> fst e < a_next st) by (intros e He; apply M6; auto).
  assert (AllP : forall x, In x (regs st) -> pend s x) by (intros x Hx; eapply ainv_pend; eauto).
  assert (Pd : forall j q0 r0, In (j, (q0, r0)) (reg_del (a_reg st) i) ->
               creq_of s r0 = q0 /\ 0 < l_ack (getl s r0) /\ l_ack (getl s r0) < 255).
  { intros j q0 r0 He. destruct (M3 _ _ _ (Sub _ He)) as [D1 [D2|[]]]. auto. }
  assert (Nr : forall j q0 r0, In (j, (q0, r0)) (reg_del (a_reg st) i) -> r0 <> r).
  { intros j q0 r0 He. assert (Hm : In r0 (map (fun e => snd (snd e)) (reg_del (a_reg st) i))).
    { apply in_map_iff. exists (j, (q0, r0)). auto. }
    apply Mem in Hm. tauto. }
  assert (A255 : (l_ack (getl s r) =? 255) = false) by (apply N.eqb_neq; lia). rewrite A255.
  destruct ok; cbn [negb orb].
  - set (c := dec8 (l_ack (getl s r))).
    assert (Hc : c = l_ack (getl s r) - 1).
    { unfold c, dec8. replace (l_ack (getl s r) + 255) with ((l_ack (getl s r) - 1) + 1 * 256) by lia.
      rewrite N.mod_add by lia. apply N.mod_small. lia. }
    set (s1 := updl s r (fun l => l <| l_ack := c |>)).
    assert (E1 : E Q s1 (regs st)).
    { apply (ec_setack E EC); auto. lia. }
    destruct (minv_regs_alloc _ _ _ _ A Rr) as (lr & Hr). fold s in Hr.
    assert (Oth : forall y, y <> r -> getl s1 y = getl s y).
    { intros y Hy. unfold s1. rewrite getl_updl. destruct (r =? y) eqn:Eq; [apply N.eqb_eq in Eq; congruence|reflexivity]. }
    assert (Slf : getl s1 r = lr <| l_ack := c |>) by (unfold s1; rewrite getl_updl, N.eqb_refl, Hr; reflexivity).
    destruct (0 <? c) eqn:C0.
    + apply N.ltb_lt in C0.
      exists (mkA s1 (a_cfg st) (a_reg st) (a_next st)), []. split; [reflexivity|]. split; [|reflexivity].
      constructor; cbn [a_db a_cfg a_reg a_next lock_refs unlock_refs flat_map]; auto.
      * rewrite app_nil_r. exact E1.
      * intros j q0 r0 He. destruct (N.eq_dec r0 r) as [->|Hn].
        -- unfold creq_of. rewrite Slf. cbn.
           assert (H : (j, (q0, r)) = (i, (q, r))) by (apply (NoDup_ref_unique (a_reg st)); auto).
           injection H as H1 H2. subst j q0.
           split; [unfold creq_of in Cq; rewrite (getl_of _ _ _ Hr) in Cq; exact Cq|]. left. lia.
        -- destruct (M3 _ _ _ He) as [D1 D2]. unfold creq_of in *. rewrite (Oth r0 Hn). auto.
      * intros x [].
      * intros x [].
    + (* the last event: DoAckLock(true) *)
      apply N.ltb_ge in C0.
      destruct (finish (do_ack s1 r true)) as [s2 e2] eqn:Fd.
      assert (AllP1 : forall x, In x (regs st) -> pend s1 x).
      { intros x Hx. unfold pend. destruct (N.eq_dec x r) as [->|Hn]; [rewrite Slf; cbn; lia|rewrite (Oth x Hn); apply AllP; auto]. }
      pose proof (ec_ack E EC Q s1 (regs st) r true s2 e2 _ E1 AllP1 Rr Fd Mem NDd) as Sp.
      assert (M' : MInv E cfg Q (mkA s2 (a_cfg st) (reg_del (a_reg st) i) (a_next st)) e2).
      { apply (spec_minv Q s1); auto.
        intros j q0 r0 He. unfold creq_of. rewrite (Oth r0 (Nr _ _ _ He)). eapply Pd; eauto. }
      destruct (with_post_minv Q (mkA s1 (a_cfg st) (reg_del (a_reg st) i) (a_next st)) s2 e2 M') as (st' & W & A' & Wk).
      exists st', e2. split; [exact W|split; [exact A'|exact Wk]].
  - destruct (finish (do_ack s r false)) as [s2 e2] eqn:Fd.
    pose proof (ec_ack E EC Q s (regs st) r false s2 e2 _ M2 AllP Rr Fd Mem NDd) as Sp.
    assert (M' : MInv E cfg Q (mkA s2 (a_cfg st) (reg_del (a_reg st) i) (a_next st)) e2).
    { apply (spec_minv Q s); auto. }
    destruct (with_post_minv Q (mkA s (a_cfg st) (reg_del (a_reg st) i) (a_next st)) s2 e2 M') as (st' & W & A' & Wk).
    exists st', e2. split; [exact W|split; [exact A'|exact Wk]].
Qed.

(* ------------------------------------------------------------------ one action *)
Lemma reg_sound_ainv Q st : AInv E cfg Q st -> reg_sound st = true.
Proof.
  intros A. unfold reg_sound. apply forallb_forall. intros [i [q r]] He. unfold entry_sound. cbn [fst snd].
  destruct (minv_regs_alloc _ _ _ _ A (in_regs _ _ _ _ He)) as (l & Hl). rewrite Hl.
  destruct (m_ent _ _ _ _ _ A _ _ _ He) as [Cq _]. unfold creq_of in Cq. rewrite (getl_of _ _ _ Hl) in Cq.
  apply N.eqb_eq. exact Cq.
Qed.

Lemma astep_ainv Q st a :
  AInv E cfg Q st -> aact_ok a = true -> step_cond st a ->
  (forall q, In q (act_reqs a) -> ~ In q Q) ->
  AInv E cfg (act_reqs a ++ Q) (fst (astep st a)) /\ astep_ok st a = true.
Proof.
  intros A Ok Sc Fq. destruct a as [a|i ok].
  - cbn [astep aact_ok] in *.
    assert (OK' : astep_ok st (AAct a) = with_post_ok st (step (a_db st) a)) by (destruct a; try reflexivity; discriminate).
    rewrite OK'. destruct (step (a_db st) a) as [s1 e1] eqn:St.
    pose proof A as [M1 M2 M3 M4 M5 M6 M7]. cbn [lock_refs flat_map] in M2. rewrite app_nil_r in M2.
    assert (AllP : forall x, In x (regs st) -> pend (a_db st) x) by (intros x Hx; eapply ainv_pend; eauto).
    assert (Sp : step_spec E (act_reqs (AAct a) ++ Q) (a_db st) (regs st) s1 e1).
    { apply (ec_step E EC Q (a_db st) (regs st) a s1 e1); auto.
      - intros conn c ->. apply Fq. cbn. auto.
      - intros ->. exact Sc. }
    assert (M' : MInv E cfg (act_reqs (AAct a) ++ Q) (mkA s1 (a_cfg st) (a_reg st) (a_next st)) e1).
    { apply (spec_minv _ (a_db st)); auto. intros j q0 r0 He. destruct (M3 _ _ _ He) as [D1 [D2|[]]]. auto. }
    destruct (with_post_minv _ st s1 e1 M') as (st' & W & A' & Wk). rewrite W. cbn [fst]. split; auto.
  - cbn [astep astep_ok act_reqs app step_cond] in *.
    destruct (ack_event_ainv Q st i ok A Sc) as (st' & ev & Ev & A' & Okk). rewrite Ev. cbn [fst]. split; auto.
Qed.

(* ------------------------------------------------------------------ runs *)
Lemma arun_ainv acts : forall Q st,
  AInv E cfg Q st -> Forall (fun a => aact_ok a = true) acts -> run_conds st acts ->
  NoDup (reqids acts) -> (forall q, In q Q -> ~ In q (reqids acts)) ->
  arun_ok2 st acts = true /\ exists Q', AInv E cfg Q' (fst (arun st acts)).
Proof.
  induction acts as [|a rest IH]; intros Q st A Fa Rc ND Dj.
  - split; [reflexivity|]. exists Q. exact A.
  - inversion Fa; subst. destruct Rc as [Sc Rc]. cbn [reqids flat_map] in ND, Dj. fold (reqids rest) in ND, Dj.
    assert (Fq : forall q, In q (act_reqs a) -> ~ In q Q).
    { intros q Hq HQ. apply (Dj q HQ). apply in_or_app. auto. }
    destruct (astep_ainv Q st a A H1 Sc Fq) as [A1 Ok1].
    cbn [arun_ok2 arun]. rewrite (reg_sound_ainv _ _ A), Ok1. cbn [andb].
    destruct (astep st a) as [st1 e1] eqn:St. cbn [fst] in *.
    destruct (IH (act_reqs a ++ Q) st1 A1 H2 Rc) as [Ok2 (Q' & A2)].
    + apply NoDup_app_right in ND. exact ND.
    + intros q Hq Hr. apply in_app_or in Hq. destruct Hq as [Hq|Hq].
      * eapply NoDup_app_disj; eauto.
      * apply (Dj q Hq). apply in_or_app. auto.
    + split; [exact Ok2|]. destruct (arun st1 rest) as [st2 es]. exists Q'. exact A2.
Qed.
End Layer.

(* ================================================================== the run theorem, for any engine invariant *)
Theorem ack_core_run_ok : forall E, eng_contract E -> forall t0 aoft cfg acts,
  ack_core t0 aoft cfg acts ->
  arun_ok2 (init_astate t0 aoft cfg) acts = true
  /\ exists Q, AInv E cfg Q (fst (arun (init_astate t0 aoft cfg) acts)).
Proof.
  intros E EC t0 aoft cfg acts [C1 C2 C3 C4 C5].
  apply (arun_ainv E EC cfg C2 acts [] (init_astate t0 aoft cfg)); auto.
  constructor; cbn [init_astate a_db a_cfg a_reg a_next regs map lock_refs unlock_refs flat_map app]; auto.
  all: try (apply (ec_init E EC); exact C1).
  all: try (intros; match goal with H : In _ [] |- _ => destruct H end).
  all: try (intros e []).
  all: try constructor.
Qed.
