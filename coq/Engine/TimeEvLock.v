(* Timer theorems, part 12: TIMEOUT replies outside the timeout sweep are immediate answers to the requesting Lock
   command itself (timeout 0, or the timeout-when-data flag); no other critical section emits one. *)
From Coq Require Import String ZifyN ZifyBool ZifyNat.
From Slock Require Import Engine.Types Engine.Queues Engine.Timers Engine.Engine Engine.Engine2 Engine.TimeBase.
From Slock Require Import Engine.TimeEvents.
Open Scope N_scope.

Lemma quiet_update_and_rearm s k r c : quiet (snd (update_and_rearm s k r c)).
Proof.
  unfold update_and_rearm. cbv zeta. repeat break_inner_e; cbn [snd]; quiet_hyps; quiet_tac.
Qed.

Lemma timeout_lockid c x : c_timeout (c <| c_lockid := x |>) = c_timeout c. Proof. reflexivity. Qed.
Lemma tflag_lockid' c x : c_tflag (c <| c_lockid := x |>) = c_tflag c. Proof. reflexivity. Qed.

Definition immediate_timeout (conn : N) (c : cmd) (e : event) : Prop :=
  exists c1 lc lrc d, e = reply conn c1 R_TIMEOUT lc lrc d /\ (c1 = c \/ exists x, c1 = c <| c_lockid := x |>)
                      /\ ((0 <? c_timeout c) = false \/ has (c_tflag c) TF_TIMEOUT_WHEN_DATA = true).

Ltac imm_witness :=
  eexists _, _, _, _; split; [reflexivity|split; [first [left; reflexivity|right; eexists; reflexivity]|]].

Lemma lock_step_timeout_replies s conn c :
  forall e, In e (snd (fst (lock_step s conn c))) -> is_tr e = true -> immediate_timeout conn c e.
Proof.
  unfold lock_step. cbv zeta.
  repeat break_inner_e; cbn [fst snd];
  repeat match goal with
  | E : update_and_rearm ?s0 ?k ?r ?c0 = (_, ?ev) |- _ =>
      lazymatch goal with Q : quiet ev |- _ => fail | _ =>
        let Q := fresh "Q" in pose proof (quiet_update_and_rearm s0 k r c0) as Q; rewrite E in Q; cbn [snd] in Q end
  end; quiet_hyps;
  intros e I TR; repeat (apply in_app_iff in I; destruct I as [I|I]);
  try (match goal with Q : quiet ?ev, I : In e ?ev |- _ => destruct (Q e I); congruence end);
  cbn [In] in I;
  repeat (destruct I as [<-|I]; [try (cbn in TR; discriminate TR)|]); try (destruct I).
  all: imm_witness.
  all: try (left; match goal with H : _ && (c_timeout _ =? 0) = true |- _ =>
              apply andb_prop in H; destruct H as [_ H]; apply N.eqb_eq in H; rewrite H; reflexivity end).
  all: match goal with H : (0 <? c_timeout ?c1) && _ = false |- _ =>
         rewrite ?timeout_lockid, ?tflag_lockid' in H;
         destruct (0 <? c_timeout c) eqn:TO; [right|left; reflexivity];
         cbn [andb] in H; apply orb_false_iff in H; destruct H as [H _]; apply negb_false_iff in H; exact H end.
Qed.

Lemma quiet_cancel_wait_lock s conn c : quiet (snd (fst (cancel_wait_lock s conn c))).
Proof.
  unfold cancel_wait_lock. cbv zeta. repeat break_inner_e; cbn [fst snd]; quiet_hyps; quiet_tac.
Qed.

Lemma quiet_release_hold s k conn c r d : quiet (snd (release_hold s k conn c r d)).
Proof.
  unfold release_hold. cbv zeta. repeat break_inner_e; cbn [fst snd]; quiet_hyps; quiet_tac.
Qed.

Lemma quiet_unlock_step s conn c : quiet (snd (fst (unlock_step s conn c))).
Proof.
  unfold unlock_step. cbv beta zeta. repeat break_inner_e; cbn [fst snd];
  repeat match goal with
  | E : release_hold ?s0 ?k ?cn ?c0 ?r ?d = (_, ?ev) |- _ =>
      lazymatch goal with Q : quiet ev |- _ => fail | _ =>
        let Q := fresh "Q" in pose proof (quiet_release_hold s0 k cn c0 r d) as Q; rewrite E in Q; cbn [snd] in Q end
  end; quiet_hyps; try apply quiet_cancel_wait_lock; quiet_tac.
Qed.
