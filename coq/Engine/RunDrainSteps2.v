(* "Every key manager has a lock record" (J2), part 4: cancelWaitLock, LockDB.UnLock, doTimeOut, doExpried. *)
From Coq Require Import String ZifyN ZifyBool ZifyNat Permutation.
From Slock Require Import Engine.Types Engine.Queues Engine.Timers Engine.Engine Engine.Engine2 Engine.InvDef Engine.InvBase
  Engine.InvPrims Engine.InvRec Engine.InvWheel Engine.InvQueue Engine.InvQueue2 Engine.InvSteps Engine.InvLockDefs Engine.InvLock
  Engine.InvUnlock Engine.LocalBase Engine.RunDrain Engine.RunDrainQ Engine.RunDrainSteps.
Open Scope N_scope.

(* ---------------------------------------------------------------- cancelWaitLock *)
Lemma cancel_wait_lock_J2 s xt xe conn c :
  GInv s (gk xt xe (c_key c)) -> J2 s -> J2 (fst (fst (cancel_wait_lock s conn c))).
Proof.
  intros G HJ. unfold cancel_wait_lock. cbv zeta. set (k := c_key c) in *.
  destruct (match m_wait (getm s k) with Some q => find_last_waiter s (wq_items q) (c_lockid c) None | None => None end) as [r|] eqn:Ew.
  - assert (Hlive : l_timeouted (getl s r) = false).
    { destruct (m_wait (getm s k)) as [q|]; [|discriminate]. destruct (find_last_waiter_spec _ _ _ _ _ Ew) as [H|[_ H]]; [discriminate|auto]. }
    destruct (aget (store s) r) as [l|] eqn:Hr; [|rewrite (getl_none _ _ Hr) in Hlive; discriminate].
    rewrite (getl_some _ _ _ Hr) in *.
    destruct (ro_live _ _ _ _ (gi_rec _ _ G r l Hr) Hlive) as [_ [_ [Hd _]]].
    rewrite Hd. change (0 <? 0) with false. cbv iota.
    assert (Ewg : wg_pre s r = if l_long l then remove_long_timeout (updl s r (fun l0 => l0 <| l_timeouted := true |>)) r
                               else updl s r (fun l0 => l0 <| l_timeouted := true |>)).
    { unfold wg_pre. rewrite (getl_some _ _ _ Hr). reflexivity. }
    rewrite <- Ewg.
    destruct (wg_pre_ginv s xt xe k r l G Hr Hlive) as [G1 _].
    destruct (get_wait_lock (wg_pre s r) k) as [s1 w] eqn:Egw.
    destruct (J2x_get_wait_lock k _ _ _ Egw (ginv_KH_wq _ _ k G1) (J2x_wg_pre _ _ _ (J2x_weaken _ _ HJ))) as [J1 _].
    cbn [fst]. apply J2x_bump. apply J2x_remove_mgr_close. apply J2x_bump.
    destruct w; [exact J1|]. apply J2x_updm; [intros [? ? ? ? ? ? ?]; reflexivity|exact J1].
  - cbn [fst]. apply J2x_bump. exact HJ.
Qed.

(* ---------------------------------------------------------------- LockManager.RemoveLock of a holder: the current lock of
   the key (the removed record itself, or another holder) stays stored *)
Lemma remove_lock_wit x g k r m : GInv x g -> g_ph g = [] -> g_lk g = false -> aget (mgrs x) k = Some m -> In r (holders m) ->
  J2x (Some k) x ->
  J2x (Some k) (remove_lock x k r) /\ keyst x (remove_lock x k r)
  /\ exists c lc, aget (store (remove_lock x k r)) c = Some lc /\ l_key lc = k.
Proof.
  intros G Hp Hlk Hm Hi HJ.
  destruct (J2x_remove_lock k x r (ginv_KH_hq x g k G) HJ) as (A & B & C).
  split; [exact A|]. split; [exact B|].
  destruct (gi_mgr _ _ G k m Hm) as [B1 B2 B3 B4 B5 B6 B7 B8 B9 Bb B10 Bc].
  assert (Hlkk : lkk g k = false) by (unfold lkk; rewrite Hlk; apply andb_false_r).
  destruct (m_cur m) as [c|] eqn:Ec.
  - assert (Hc : In c (holders m)) by (unfold holders, cur_list; rewrite Ec; simpl; auto).
    assert (Hs : aget (store x) c <> None).
    { apply B1. unfold phk. rewrite Hp. destruct (k =? g_dk g); simpl; rewrite occ_app; apply occ_In in Hc; lia. }
    assert (Hn : ~ In c (m_hq m)).
    { unfold holders, cur_list in B4. rewrite Ec in B4. simpl in B4. inversion B4; auto. }
    rewrite (getm_some _ _ _ Hm) in C. specialize (C c Hn Hs).
    destruct (aget (store (remove_lock x k r)) c) as [lc|] eqn:E; [|congruence].
    exists c, lc. split; auto. destruct (B c lc E) as (l0 & E0 & K0). rewrite <- K0. apply (B2 c l0); auto. apply in_or_app; auto.
  - exfalso. specialize (B8 Hlkk eq_refl). unfold holders, cur_list in Hi. rewrite Ec, B8 in Hi. destruct Hi.
Qed.

Lemma msame_holders m m' : msame m m' -> holders m' = holders m.
Proof. unfold msame. intros ->. destruct m; reflexivity. Qed.
Lemma lsame_key l l' : lsame l l' -> l_key l' = l_key l.
Proof. unfold lsame. intros ->. destruct l; reflexivity. Qed.

(* the tail of release_hold once the expiry entry is dealt with (mirrors InvUnlock.release_tail2) *)
Lemma release_tail_J2 s xt xe k r l d lc uc m :
  GInv s (gkd xt xe k (Z.of_N d) (- Z.of_N d) 0) -> aget (store s) r = Some l -> l_key l = k -> l_locked l = d -> 0 < d ->
  aget (mgrs s) k = Some m -> In r (holders m) -> J2x (Some k) s ->
  J2 (fst (let '(s0, aev) := if l_isaof (getl s r) then push_unlock_aof s k r lc uc false 0 else (s, []) in (remove_lock s0 k r, aev)))
  /\ J2 (fst (let '(s0, aev) := if l_isaof (getl s r) then push_unlock_aof s k r lc uc false 0 else (s, []) in
              let s0 := remove_lock s0 k r in
              let s0 := if l_refc (getl s0 r) =? 0 then remove_mgr_if_unref (free_lock s0 r) k else s0 in (s0, aev))).
Proof.
  intros G Hr Hkey Hd Hpos Hm Hi HJ.
  destruct (release_tail2 s xt xe k r l d lc uc G Hr Hkey Hd Hpos) as [GT1 GT2].
  assert (P : exists s1 l1 m1, s1 = (if l_isaof (getl s r) then fst (push_unlock_aof s k r lc uc false 0) else s)
              /\ GInv s1 (gkd xt xe k (Z.of_N d) (- Z.of_N d) 0) /\ aget (store s1) r = Some l1 /\ l_key l1 = k
              /\ aget (mgrs s1) k = Some m1 /\ holders m1 = holders m /\ J2x (Some k) s1).
  { destruct (l_isaof (getl s r)).
    - destruct (push_unlock_aof_ok s _ k r lc uc false 0 G) as [G1 S1].
      destruct (sim_stored _ _ r l S1 Hr) as [l1 [H1 H2]]. destruct (sim_mgr _ _ k m S1 Hm) as [m1 [H3 H4]].
      exists (fst (push_unlock_aof s k r lc uc false 0)), l1, m1. split; [reflexivity|]. split; [exact G1|]. split; [exact H1|].
      split; [rewrite (lsame_key _ _ H2); exact Hkey|]. split; [exact H3|]. split; [apply msame_holders; exact H4|].
      apply J2x_fst_push_unlock_aof. exact HJ.
    - exists s, l, m. split; [reflexivity|]. split; [exact G|]. split; [exact Hr|]. split; [exact Hkey|]. split; [exact Hm|].
      split; [reflexivity|exact HJ]. }
  destruct P as [s1 [l1 [m1 [E [G1 [Hr1 [K1 [Hm1 [Hh1 J1]]]]]]]]].
  assert (Hi1 : In r (holders m1)) by (rewrite Hh1; exact Hi).
  destruct (remove_lock_wit s1 _ k r m1 G1 eq_refl eq_refl Hm1 Hi1 J1) as (A & B & [c [lcc [Hc Kc]]]).
  assert (Kr : KHr k (remove_lock s1 k r) r).
  { intros l4 H4. destruct (B r l4 H4) as (l1' & E1 & K1'). rewrite Hr1 in E1. inv E1. congruence. }
  destruct (l_isaof (getl s r)); [destruct (push_unlock_aof s k r lc uc false 0) as [s2 aev]|]; cbn [fst] in *; subst s1.
  all: match type of GT1 with GInv ?S _ => assert (X : J2 S) by (apply (J2_close_wit S _ k c lcc GT1 A Hc Kc)) end.
  all: split; [exact X|].
  all: match goal with |- context [if ?b then _ else _] => destruct b end; [|exact X].
  all: apply J2x_remove_mgr_close; apply J2x_free_lock; auto.
Qed.

Lemma release_hold_J2 s xt xe k conn c r l d m :
  GInv s (gkd xt xe k (Z.of_N d) (- Z.of_N d) 0) -> aget (store s) r = Some l -> l_key l = k -> l_locked l = d -> 0 < d ->
  l_timeouted l = true -> aget (mgrs s) k = Some m -> occ r (holders m) = 1%nat -> c_data c = None ->
  J2x (Some k) s -> J2 (fst (release_hold s k conn c r d)).
Proof.
  intros G Hr Hkey Hd Hpos Ht Hm Hh Hc HJ. set (g := gkd xt xe k (Z.of_N d) (- Z.of_N d) 0) in *.
  destruct (gi_rec _ _ G r l Hr) as [A1 A2 A3 A4 A5 A6 A7 A8 A9 A10 A11].
  assert (Hi : In r (holders m)) by (apply occ_In; lia).
  unfold release_hold. cbv zeta. rewrite (updl_some _ _ _ _ Hr), (getl_some _ _ _ Hr).
  set (l1 := l <| l_expried := true |>).
  assert (G1 : GInv (setl s r l1) g).
  { apply (setl_irrel s g r l l1 G Hr); [unfold same_rel; intuition|intuition]. }
  set (s1 := setl s r l1) in *.
  assert (Hr1 : aget (store s1) r = Some l1) by (unfold s1; rewrite store_setl, aget_aset_same; auto).
  assert (J1 : J2x (Some k) s1) by (apply J2x_setl; exact HJ).
  assert (Hm1 : aget (mgrs s1) k = Some m) by exact Hm.
  assert (Hmain : J2 (fst (let '(s0, aev) :=
             if l_long l1 then
               let s0 := remove_long_expried s1 r (l_eT l1) in
               let '(s0, aev) := if l_isaof (getl s0 r) then push_unlock_aof s0 k r (l_cmd l) (Some c) false 0 else (s0, []) in
               let s0 := remove_lock s0 k r in
               let s0 := if l_refc (getl s0 r) =? 0 then remove_mgr_if_unref (free_lock s0 r) k else s0 in (s0, aev)
             else
               let '(s0, aev) := if l_isaof (getl s1 r) then push_unlock_aof s1 k r (l_cmd l) (Some c) false 0 else (s1, []) in
               (remove_lock s0 k r, aev) in
            (bump (fun n => n <| n_unlock := (n_unlock n + Z.of_N d)%Z |> <| n_locked := (n_locked n - Z.of_N d)%Z |>) s0, aev)))).
  { change (l_long l1) with (l_long l). change (l_eT l1) with (l_eT l). destruct (l_long l) eqn:Elong.
    - assert (Hbk : occ r (wheel_get (elong s1) (lkey (l_eT l))) = 1%nat) by (change (elong s1) with (elong s); apply A8; auto).
      pose proof (ginv_pend_add s1 g r G1) as Ga.
      assert (Gb : GInv (remove_long_expried s1 r (l_eT l)) (g <| g_pend := [r] |>)).
      { apply (remove_long_expried_ginv s1 _ r l1 (l_eT l) Ga Hr1); unfold g, gkd; gs; auto;
          try (rewrite occ_cons_eq; lia);
          try (intros _; change (l_key l1) with (l_key l); rewrite Hkey; change (getm s1 k) with (getm s k); rewrite (getm_some _ _ _ Hm); exact Hh). }
      destruct (remove_long_expried_frame s1 r (l_eT l) l1 Hr1) as [Fr [Fm _]].
      destruct (wheel_get_some (elong s1) (lkey (l_eT l)) r) as [q [Hq1 Hq2]]; [lia|]. rewrite Hq1 in Fr.
      set (s2 := remove_long_expried s1 r (l_eT l)) in *.
      set (l2 := l1 <| l_long := false |> <| l_refc := dec8 (l_refc l1) |>) in *.
      assert (Gc : GInv s2 g).
      { eapply ginv_geq; [apply (ginv_pend_drop _ _ r [] Gb); gs; auto|reflexivity].
        intros l0 H0 Hl0. rewrite Fr in H0. inversion H0; subst l0. discriminate. }
      assert (Hm2 : aget (mgrs s2) k = Some m) by (rewrite Fm; exact Hm1).
      assert (J2' : J2x (Some k) s2) by (apply J2x_remove_long_expried; exact J1).
      destruct (release_tail_J2 s2 xt xe k r l2 d (l_cmd l) (Some c) m Gc Fr Hkey Hd Hpos Hm2 Hi J2') as [_ GT].
      cbv zeta in GT. cbv zeta.
      destruct (if l_isaof (getl s2 r) then push_unlock_aof s2 k r (l_cmd l) (Some c) false 0 else (s2, [])) as [s3 aev].
      cbn [fst] in *. apply J2x_bump. exact GT.
    - destruct (release_tail_J2 s1 xt xe k r l1 d (l_cmd l) (Some c) m G1 Hr1 Hkey Hd Hpos Hm1 Hi J1) as [GT _].
      destruct (if l_isaof (getl s1 r) then push_unlock_aof s1 k r (l_cmd l) (Some c) false 0 else (s1, [])) as [s3 aev].
      cbn [fst] in *. apply J2x_bump. exact GT. }
  cbv zeta in Hmain. rewrite (getl_some _ _ _ Hr1) in Hmain.
  destruct (has_udata_flag c); rewrite ?(process_data_core _ _ _ _ _ Hc); cbv iota beta; rewrite (getl_some _ _ _ Hr1);
    destruct (if l_long l1 then _ else _) as [s4 aev4]; exact Hmain.
Qed.

(* ---------------------------------------------------------------- LockDB.UnLock *)
Lemma ul_err_J2 conn k m s c code lrc : J2 s -> J2 (fst (fst (ul_err conn k m s c code lrc))).
Proof. intros H. unfold ul_err. cbn [fst]. apply J2x_bump. exact H. Qed.

Lemma ul_body_J2 s xt xe conn c k r l m :
  GInv s (gk xt xe k) -> aget (mgrs s) k = Some m -> aget (store s) r = Some l -> l_key l = k -> 0 < l_locked l ->
  l_timeouted l = true -> occ r (holders m) = 1%nat -> c_data c = None -> J2 s ->
  J2 (fst (fst (ul_body s conn c k r))).
Proof.
  intros G Hm Hr Hkey Hd Ht Hh Hc HJ. set (g := gk xt xe k) in *.
  destruct (gi_rec _ _ G r l Hr) as [A1 A2 A3 A4 A5 A6 A7 A8 A9 A10 A11].
  destruct (gi_mgr _ _ G k m Hm) as [B1 B2 B3 B4 B5 B6 B7 B8 B9 Bb B10 Bc].
  assert (Hin : In r (holders m)) by (apply occ_In; lia).
  assert (Hsum : l_locked l <= m_locked m).
  { pose proof (sumdepth_ge s r (holders m) Hin) as S. rewrite (getl_some _ _ _ Hr) in S.
    unfold dlk, g, gk in B6. gs. destruct (k =? k) in B6; lia. }
  destruct Bb as [_ Bl].
  assert (Hfull : forall d, d = l_locked l ->
     J2 (fst (fst (let s0 := updm s k (fun m => m <| m_locked := sub32 (m_locked m) d |>) in
                   let '(s1, ev) := release_hold s0 k conn c r d in (s1, ev, Some (mkWake k (Some conn))))))).
  { intros d Ed. cbv zeta. rewrite (updm_some _ _ _ _ Hm).
    set (m1 := m <| m_locked := sub32 (m_locked m) d |>).
    assert (Hl1 : m_locked m1 = m_locked m - d) by (unfold m1; cbn; apply sub32_sub; lia).
    assert (G1 : GInv (setm s k m1) (gkd xt xe k (Z.of_N d) (- Z.of_N d) 0)).
    { eapply ginv_geq; [apply (setm_scalar s g k m m1 G Hm); try (destruct m; reflexivity); [lia|right; reflexivity]|].
      rewrite Hl1. unfold g, gk, gkd. gs.
      match goal with |- _ = ?g0 <| g_dl := ?e1 |> <| g_cl := ?e2 |> =>
        replace e1 with (Z.of_N d) by lia; replace e2 with (- Z.of_N d)%Z by lia end. reflexivity. }
    assert (Hm1 : aget (mgrs (setm s k m1)) k = Some m1) by (rewrite mgrs_setm, aget_aset_same; auto).
    assert (Hh1 : occ r (holders m1) = 1%nat) by (destruct m; exact Hh).
    assert (J1 : J2x (Some k) (setm s k m1)) by (apply J2x_setm_K, J2x_weaken; exact HJ).
    pose proof (release_hold_J2 (setm s k m1) xt xe k conn c r l d m1 G1 Hr Hkey (eq_sym Ed)) as GR.
    destruct (release_hold (setm s k m1) k conn c r d) as [s2 ev]. cbn [fst] in *. apply GR; auto. lia. }
  unfold ul_body. cbv zeta. rewrite (getl_some _ _ _ Hr).
  destruct (1 <? l_locked l) eqn:E1.
  - destruct ((0 <? c_rcount c) && negb (has (c_tflag c) TF_PRIORITY)).
    + (* one level: nothing is freed *)
      destruct (has_udata_flag c); rewrite ?(process_data_core _ _ _ _ _ Hc); cbv iota beta;
        match goal with |- context [if ?b then _ else _] => destruct b end;
        try match goal with |- context [push_unlock_aof ?a1 ?a2 ?a3 ?a4 ?a5 ?a6 ?a7] =>
              pose proof (J2x_fst_push_unlock_aof None a1 a2 a3 a4 a5 a6 a7) as JP;
              destruct (push_unlock_aof a1 a2 a3 a4 a5 a6 a7) as [s3 aev] end;
        cbn [fst] in *; apply J2x_bump; try apply JP;
        (apply J2x_updm; [intros [? ? ? ? ? ? ?]; reflexivity|]); apply J2x_updl; exact HJ.
    + apply (Hfull (l_locked l) eq_refl).
  - apply N.ltb_ge in E1. assert (E : 1 = l_locked l) by lia. apply (Hfull 1 E).
Qed.

Lemma unlock_step_J2 s xt xe conn c :
  GInv s (gk xt xe (c_key c)) -> c_data c = None -> J2 s -> J2 (fst (fst (unlock_step s conn c))).
Proof.
  intros G Hc HJ. rewrite unlock_step_eq. cbv zeta. set (k := c_key c) in *.
  destruct (aget (mgrs s) k) as [m|] eqn:Hm.
  2:{ cbn [fst]. apply J2x_bump. exact HJ. }
  destruct (negb (leader s) && negb (has (c_flag c) UNLOCK_FLAG_FROM_AOF)); [apply ul_err_J2; auto|].
  destruct (m_locked m =? 0).
  { destruct (has (c_flag c) UNLOCK_FLAG_CANCEL_WAIT); [apply (cancel_wait_lock_J2 s xt xe); auto|apply ul_err_J2; auto]. }
  unfold ul_target. cbv zeta.
  destruct (get_locked_lock s m (c_lockid c)) as [r|] eqn:Eg.
  - destruct (get_locked_lock_spec s xt xe k m _ r G Hm Eg) as [l [Hr [Hkey [Hd [Hid [Ht Hh]]]]]].
    destruct (negb (l_ack (getl s r) =? 255)); [apply ul_err_J2; auto|].
    apply (ul_body_J2 s xt xe conn c k r l m); auto.
  - destruct (has (c_flag c) UNLOCK_FLAG_FIRST).
    + destruct (m_cur m) as [cr|] eqn:Ec; [|apply ul_err_J2; auto].
      destruct (negb (l_ack (getl s cr) =? 255)); [apply ul_err_J2; auto|].
      assert (Hlkk : lkk (gk xt xe k) k = false) by (unfold lkk, gk; gs; apply andb_false_r).
      pose proof (mo_cur _ _ _ _ (gi_mgr _ _ G k m Hm) Hlkk cr Ec) as Hl.
      assert (Hin : In cr (holders m)) by (unfold holders, cur_list; rewrite Ec; simpl; auto).
      destruct (holder_facts s _ k m cr G eq_refl eq_refl eq_refl Hm Hin Hl) as [l [Hr [Hkey [Ht Hh]]]].
      rewrite (getl_some _ _ _ Hr) in Hl.
      apply (ul_body_J2 s xt xe conn _ k cr l m); auto.
    + destruct (has (c_flag c) UNLOCK_FLAG_CANCEL_WAIT); [apply (cancel_wait_lock_J2 s xt xe); auto|apply ul_err_J2; auto].
Qed.

(* ---------------------------------------------------------------- doTimeOut / doExpried *)
(* the common ending: drop the sweeper's reference; when that freed the record remove the key manager if unreferenced,
   otherwise the record itself is the witness *)
Lemma unref_end_J2 s4 g' k r f :
  J2x (Some k) s4 -> KHr k s4 r ->
  GInv (bump f (let s5 := unref s4 r in
                if match aget (store s5) r with None => true | Some _ => false end then remove_mgr_if_unref s5 k else s5)) g' ->
  J2 (bump f (let s5 := unref s4 r in
              if match aget (store s5) r with None => true | Some _ => false end then remove_mgr_if_unref s5 k else s5)).
Proof.
  intros J4 K4 GE. cbv zeta in *.
  pose proof (J2x_unref s4 k r K4 J4) as J5.
  destruct (aget (store (unref s4 r)) r) as [l5|] eqn:E5.
  - apply (J2_close_wit _ _ k r l5 GE); [apply J2x_bump; exact J5|exact E5|].
    apply (KHr_keyst k s4 (unref s4 r) r (keyst_unref s4 r) K4 l5 E5).
  - apply J2x_bump. apply J2x_remove_mgr_close. exact J5.
Qed.

Lemma do_timeout_J2 s xe k0 r rest :
  GInv s (gk (r :: rest) xe k0) -> J2 s -> J2 (fst (fst (do_timeout s r))).
Proof.
  intros G0 HJ. destruct (do_timeout_ginv s xe k0 r rest G0) as [k' [GE _]].
  destruct (stored_of_xt s _ r rest G0 eq_refl) as [l Hr].
  unfold do_timeout in *. rewrite Hr in *. set (k := l_key l) in *.
  pose proof (gk_rekey s (r :: rest) xe k0 k G0) as G.
  destruct (l_timeouted l) eqn:Et.
  - cbn [fst]. apply (J2x_unref_rm None s r l Hr HJ).
  - destruct (gi_rec _ _ G r l Hr) as [A1 A2 A3 A4 A5 A6 A7 A8 A9 A10 A11].
    destruct (A6 Et) as [Q1 [Q2 [Q3 Q4]]].
    cbv zeta in *. rewrite Q3 in *. change (0 <? 0) with false in *. cbv iota in *.
    assert (Hlong : l_long l = false).
    { destruct (l_long l) eqn:El; auto. exfalso. destruct (A8 eq_refl eq_refl) as [Q _]. specialize (Q Et).
      pose proof (occ_wheel_get_le r (tlong s) (lkey (l_tT l))). unfold tcount, gk in A4. gs. rewrite occ_cons_eq in A4. lia. }
    rewrite (updl_some _ _ _ _ Hr) in *.
    set (l1 := l <| l_timeouted := true |>) in *.
    assert (G1 : GInv (setl s r l1) (gk (r :: rest) xe k <| g_cw := (-1)%Z |>)).
    { eapply ginv_geq; [apply (setl_flags s _ r l l1 G Hr); auto; unfold gk; gs|].
      - change (l_long l1) with (l_long l). rewrite Hlong. discriminate.
      - unfold gk. gs. unfold liveb. change (l_timeouted l1) with true. rewrite Et. reflexivity. }
    assert (Hr1 : aget (store (setl s r l1)) r = Some l1) by (rewrite store_setl, aget_aset_same; auto).
    assert (J1 : J2x (Some k) (setl s r l1)) by (apply J2x_setl, J2x_weaken; exact HJ).
    destruct (get_wait_lock (setl s r l1) k) as [s2 w] eqn:Egw.
    destruct (J2x_get_wait_lock k _ _ _ Egw (ginv_KH_wq _ _ k G1) J1) as [J2' S2].
    set (s3 := bump (fun n => n <| n_wait := (n_wait n - 1)%Z |>) (match w with None => updm s2 k (fun m => m <| m_waited := false |>) | Some _ => s2 end)) in *.
    assert (Es3 : store s3 = store s2) by (unfold s3; destruct w; [reflexivity|unfold bump, updc; cbn [store]; apply store_updm]).
    assert (J3 : J2x (Some k) s3).
    { unfold s3. apply J2x_bump. destruct w; [exact J2'|]. apply J2x_updm; [intros [? ? ? ? ? ? ?]; reflexivity|exact J2']. }
    assert (K3 : KHr k s3 r).
    { intros l3 H3. rewrite Es3 in H3. destruct (S2 r l3 H3) as (l1' & E1 & K1). rewrite Hr1 in E1. inv E1. symmetry. exact K1. }
    cbn [fst] in *. eapply unref_end_J2; eauto.
Qed.

Lemma do_expried_J2 s xt k0 r rest :
  GInv s (gk xt (r :: rest) k0) -> J2 s -> J2 (fst (fst (do_expried s r))).
Proof.
  intros G0 HJ. destruct (do_expried_ginv s xt k0 r rest G0) as [k' [GE _]].
  destruct (stored_of_xe s _ r rest G0 eq_refl) as [l Hr].
  unfold do_expried in *. rewrite Hr in *. set (k := l_key l) in *.
  pose proof (gk_rekey s xt (r :: rest) k0 k G0) as G. set (g := gk xt (r :: rest) k) in *.
  destruct (l_expried l) eqn:Ee.
  - cbn [fst]. apply (J2x_unref_rm None s r l Hr HJ).
  - destruct (gi_rec _ _ G r l Hr) as [A1 A2 A3 A4 A5 A6 A7 A8 A9 A10 A11].
    destruct (rec_counts s g r l G Hr) as [[C1 [C2 [C3 C4]]] [m [Hm Hgm]]]. fold k in Hm, Hgm.
    destruct (negb (leader s) && l_isaof l && ((l_eT l <=? 0)%Z || (now s - l_eT l <? EXPRIED_WAIT_LEADER_MAX_TIME)%Z)).
    + (* not the leader: re-arm; nothing is freed *)
      cbv zeta in *.
      match goal with |- context [add_expried ?X ?kk ?rr] =>
        pose proof (J2x_fst_add_expried None X kk rr) as JA; destruct (add_expried X kk rr) as [s2 aev] end.
      cbn [fst] in *. apply JA. apply J2x_updl. exact HJ.
    + (* the hold expires *)
      cbv zeta in *. rewrite (updl_some _ _ _ _ Hr) in *.
      set (l1 := l <| l_expried := true |>) in *.
      assert (G1 : GInv (setl s r l1) g).
      { apply (setl_irrel s g r l l1 G Hr); [unfold same_rel; intuition|intuition]. }
      set (s1 := setl s r l1) in *.
      assert (Hr1 : aget (store s1) r = Some l1) by (unfold s1; rewrite store_setl, aget_aset_same; auto).
      assert (Hm1 : aget (mgrs s1) k = Some m) by exact Hm.
      destruct (gi_mgr _ _ G k m Hm) as [B1 B2 B3 B4 B5 B6 B7 B8 B9 Bb B10 Bc].
      set (d := l_locked l) in *.
      assert (Hsum : d <= m_locked m).
      { destruct (N.eq_dec d 0) as [E|E]; [lia|].
        assert (Hh : occ r (holders m) = 1%nat) by (rewrite <- Hgm; apply A7; [lia|reflexivity]).
        assert (Hin : In r (holders m)) by (apply occ_In; lia).
        pose proof (sumdepth_ge s r (holders m) Hin) as S. rewrite (getl_some _ _ _ Hr) in S.
        unfold dlk, g, gk in B6. gs. destruct (k =? k) in B6; fold d in S; lia. }
      destruct Bb as [_ Bl].
      rewrite (updm_some _ _ _ _ Hm1) in *.
      set (m1 := m <| m_locked := sub32 (m_locked m) d |>) in *.
      assert (Hl1 : m_locked m1 = m_locked m - d) by (unfold m1; cbn; apply sub32_sub; lia).
      assert (G2 : GInv (setm s1 k m1) (gkd xt (r :: rest) k (Z.of_N d) (- Z.of_N d) 0)).
      { eapply ginv_geq; [apply (setm_scalar s1 g k m m1 G1 Hm1); try (destruct m; reflexivity); [lia|right; reflexivity]|].
        rewrite Hl1. unfold g, gk, gkd. gs.
        match goal with |- _ = ?g0 <| g_dl := ?e1 |> <| g_cl := ?e2 |> =>
          replace e1 with (Z.of_N d) by lia; replace e2 with (- Z.of_N d)%Z by lia end. reflexivity. }
      set (s2 := setm s1 k m1) in *.
      assert (Hr2 : aget (store s2) r = Some l1) by exact Hr1.
      assert (J2' : J2x (Some k) s2) by (unfold s2, s1; apply J2x_setm_K, J2x_setl, J2x_weaken; exact HJ).
      assert (P : exists s3 l3, s3 = (if l_isaof (getl s2 r) then fst (push_unlock_aof s2 k r (l_cmd l) None false AOF_FLAG_EXPRIED) else s2)
              /\ GInv s3 (gkd xt (r :: rest) k (Z.of_N d) (- Z.of_N d) 0) /\ aget (store s3) r = Some l3 /\ l_key l3 = k
              /\ J2x (Some k) s3).
      { destruct (l_isaof (getl s2 r)).
        - destruct (push_unlock_aof_ok s2 _ k r (l_cmd l) None false AOF_FLAG_EXPRIED G2) as [Ga Sa].
          destruct (sim_stored _ _ r l1 Sa Hr2) as [l3 [H1 H2]].
          eexists _, l3. split; [reflexivity|]. split; [exact Ga|]. split; [exact H1|]. split; [rewrite (lsame_key _ _ H2); reflexivity|].
          apply J2x_fst_push_unlock_aof. exact J2'.
        - exists s2, l1. split; [reflexivity|]. split; [exact G2|]. split; [exact Hr2|]. split; [reflexivity|exact J2']. }
      destruct P as [s3 [l3 [E3 [G3 [Hr3 [K3 J3]]]]]].
      destruct (J2x_remove_lock k s3 r (ginv_KH_hq s3 _ k G3) J3) as (A & B & _).
      assert (K4 : KHr k (remove_lock s3 k r) r).
      { intros l4 H4. destruct (B r l4 H4) as (l3' & E & K). rewrite Hr3 in E. inv E. congruence. }
      destruct (l_isaof (getl s2 r)); [destruct (push_unlock_aof s2 k r (l_cmd l) None false AOF_FLAG_EXPRIED) as [s3' aev]|];
        cbn [fst] in *; subst s3; eapply unref_end_J2; eauto.
Qed.
