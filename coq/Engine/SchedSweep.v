(* A sweep thread of Sched.v (SStartSweep + SResume until the thread is gone) that is never interleaved with
   anything computes exactly the sequential sweep of Engine2.v (sweep_timeouts / sweep_expiries). *)
From Coq Require Import String List ZArith NArith Lia.
From Slock Require Import Engine.Types Engine.Queues Engine.Timers Engine.Engine Engine.Engine2 Engine.Sched.
Import ListNotations.
Open Scope N_scope.

Definition fuel_panic : event := EPanic "wake-out-of-fuel"%string.

(* resume the first parked thread until no thread is left (at most fuel steps) *)
Fixpoint resume_alone (fuel : nat) (st : sstate) : sstate * list event :=
  match fuel with
  | O => (st, [])
  | S f => match s_threads st with
           | [] => (st, [])
           | _ :: _ => let '(st1, e1) := sstep st (SResume 0) in
                       let '(st2, e2) := resume_alone f st1 in (st2, e1 ++ e2)
           end
  end.

Definition sweep_alone (fuel : nat) (is_t : bool) (st : sstate) : sstate * list event :=
  let '(st1, e1) := sstep st (SStartSweep is_t) in
  let '(st2, e2) := resume_alone fuel st1 in (st2, e1 ++ e2).

Definition seq_sweep (is_t : bool) (s : db) : db * list event := step s (if is_t then ASweepT else ASweepE).

(* ---------------------------------------------------------------- small facts needing the bodies *)
Lemma wake_iter_none s wk : aget (mgrs s) (w_key wk) = None -> wake_iter s wk = (s, [], WDone).
Proof. intros H. unfold wake_iter. rewrite H. reflexivity. Qed.

Lemma run_wake_O s w : run_wake 0 s w = (s, [fuel_panic]).
Proof. reflexivity. Qed.

Lemma run_wake_S f s w :
  run_wake (S f) s w =
  match wake_iter s w with
  | (s', ev, WDone) => (s', ev)
  | (s', ev, WMore) => let '(s'', ev') := run_wake f s' w in (s'', ev ++ ev')
  end.
Proof. reflexivity. Qed.

Lemma fire_all_cons f s r rest :
  fire_all f s (r :: rest) =
  let '(s1, e1) := finish (f s r) in let '(s2, e2) := fire_all f s1 rest in (s2, e1 ++ e2).
Proof. reflexivity. Qed.

Lemma finish_some s ev wk :
  finish (s, ev, Some wk) = let '(s', ev') := run_wake (wake_fuel s (w_key wk)) s wk in (s', ev ++ ev').
Proof. reflexivity. Qed.

Lemma finish_none s ev : finish (s, ev, None) = (s, ev).
Proof. reflexivity. Qed.

Opaque wake_iter run_wake wake_fuel do_timeout do_expried collect_timeouts collect_expiries finish.

(* ---------------------------------------------------------------- event prefixes *)
Definition pre (e : list event) (x : db * list event) : db * list event := (fst x, e ++ snd x).

Lemma pre_nil x : pre [] x = x.
Proof. destruct x; reflexivity. Qed.

Lemma pre_pre a b x : pre a (pre b x) = pre (a ++ b) x.
Proof. unfold pre; cbn. rewrite app_assoc. reflexivity. Qed.

Lemma let_pre e (x : db * list event) : (let '(a, b) := x in (a, e ++ b)) = pre e x.
Proof. destruct x; reflexivity. Qed.

Lemma nin_app {A} (x : A) a b : ~ In x (a ++ b) -> ~ In x a /\ ~ In x b.
Proof. intros H; split; intros K; apply H; apply in_or_app; auto. Qed.

Lemma nin_pre x e y : ~ In x (snd (pre e y)) -> ~ In x (snd y).
Proof. cbn. intros H. apply nin_app in H. tauto. Qed.

(* ---------------------------------------------------------------- 1. generic sequential seconds loop *)
Fixpoint sweep_secs_gen (n : nat) (is_t : bool) (s : db) (t nowv : Z) : db * list event :=
  match n with
  | O => (s, [])
  | S n' =>
      let '(s1, due, e1) := collect_gen is_t s t nowv in
      let '(s2, e2) := fire_all (fire_gen is_t) s1 due in
      let '(s3, e3) := sweep_secs_gen n' is_t s2 (t + 1)%Z nowv in (s3, e1 ++ e2 ++ e3)
  end.

Lemma secs_gen_t n : forall s t nowv, sweep_secs_gen n true s t nowv = sweep_t_secs n s t nowv.
Proof.
  induction n as [|n IH]; intros s t nowv; cbn [sweep_secs_gen sweep_t_secs]; auto.
  unfold collect_gen, fire_gen.
  destruct (collect_timeouts s t nowv) as [s1 due].
  destruct (fire_all do_timeout s1 due) as [s2 e2].
  rewrite IH. destruct (sweep_t_secs n s2 (t + 1)%Z nowv) as [s3 e3]. reflexivity.
Qed.

Lemma secs_gen_e n : forall s t nowv, sweep_secs_gen n false s t nowv = sweep_e_secs n s t nowv.
Proof.
  induction n as [|n IH]; intros s t nowv; cbn [sweep_secs_gen sweep_e_secs]; auto.
  unfold collect_gen, fire_gen.
  destruct (collect_expiries s t nowv) as [[s1 due] e1].
  destruct (fire_all do_expried s1 due) as [s2 e2].
  rewrite IH. destruct (sweep_e_secs n s2 (t + 1)%Z nowv) as [s3 e3]. reflexivity.
Qed.

(* what is left of a sweep in front of the collected locks [todo]: fire them, then the seconds t .. *)
Definition rest (is_t : bool) (s : db) (todo : list ref) (t : Z) (n : nat) (nowv : Z) : db * list event :=
  let '(s2, e2) := fire_all (fire_gen is_t) s todo in pre e2 (sweep_secs_gen n is_t s2 t nowv).

Lemma rest_nil is_t s t n nowv : rest is_t s [] t n nowv = sweep_secs_gen n is_t s t nowv.
Proof. unfold rest. cbn [fire_all]. apply pre_nil. Qed.

Lemma rest_cons is_t s r todo t n nowv :
  rest is_t s (r :: todo) t n nowv =
  let '(sa, ea) := finish (fire_gen is_t s r) in pre ea (rest is_t sa todo t n nowv).
Proof.
  unfold rest. rewrite fire_all_cons.
  destruct (finish (fire_gen is_t s r)) as [sa ea].
  destruct (fire_all (fire_gen is_t) sa todo) as [s2 e2].
  rewrite pre_pre. reflexivity.
Qed.

Lemma secs_S n is_t s t nowv :
  sweep_secs_gen (S n) is_t s t nowv =
  let '(s1, due, e1) := collect_gen is_t s t nowv in pre e1 (rest is_t s1 due (t + 1)%Z n nowv).
Proof.
  cbn [sweep_secs_gen]. unfold rest.
  destruct (collect_gen is_t s t nowv) as [[s1 due] e1].
  destruct (fire_all (fire_gen is_t) s1 due) as [s2 e2].
  destruct (sweep_secs_gen n is_t s2 (t + 1)%Z nowv) as [s3 e3]. reflexivity.
Qed.

(* ---------------------------------------------------------------- 2. sweep_advance *)
Lemma adv_none is_t nowv n : forall s t s' ev,
  sweep_advance n is_t s t nowv = (s', ev, None) -> sweep_secs_gen n is_t s t nowv = (s', ev).
Proof.
  induction n as [|n IH]; intros s t s' ev H.
  - cbn in H. injection H; intros; subst. reflexivity.
  - rewrite secs_S. cbn [sweep_advance] in H.
    destruct (collect_gen is_t s t nowv) as [[s1 due] e1].
    destruct due as [|r l]; [|discriminate H].
    destruct (sweep_advance n is_t s1 (t + 1)%Z nowv) as [[s2 e2] r] eqn:E.
    injection H; intros; subst.
    rewrite rest_nil, (IH _ _ _ _ E). reflexivity.
Qed.

Lemma adv_some is_t nowv n : forall s t s' ev due t' n',
  sweep_advance n is_t s t nowv = (s', ev, Some (due, t', n')) ->
  due <> [] /\ sweep_secs_gen n is_t s t nowv = pre ev (rest is_t s' due t' n' nowv).
Proof.
  induction n as [|n IH]; intros s t s' ev due t' n' H.
  - cbn in H. discriminate H.
  - rewrite secs_S. cbn [sweep_advance] in H.
    destruct (collect_gen is_t s t nowv) as [[s1 due0] e1].
    destruct due0 as [|r l].
    + destruct (sweep_advance n is_t s1 (t + 1)%Z nowv) as [[s2 e2] r] eqn:E.
      injection H; intros; subst.
      destruct (IH _ _ _ _ _ _ _ E) as [Hne HE]. split; auto.
      rewrite rest_nil, HE, pre_pre. reflexivity.
    + injection H; intros; subst. split; [discriminate|reflexivity].
Qed.

Lemma next_seq is_t s todo t n nowv s' ev r :
  sweep_next is_t s todo t n nowv = (s', ev, r) ->
  (r = None /\ rest is_t s todo t n nowv = (s', ev)) \/
  (exists todo' t' n', r = Some (TSweep is_t todo' None t' n' nowv) /\ todo' <> [] /\
                       rest is_t s todo t n nowv = pre ev (rest is_t s' todo' t' n' nowv)).
Proof.
  intros H. unfold sweep_next in H. destruct todo as [|r0 todo].
  - destruct (sweep_advance n is_t s t nowv) as [[s1 e1] [[[due t'] n']|]] eqn:E;
      injection H; intros; subst.
    + right. exists due, t', n'. destruct (adv_some _ _ _ _ _ _ _ _ _ _ E) as [Hne HE].
      rewrite rest_nil. auto.
    + left. rewrite rest_nil. split; auto. eapply adv_none; eauto.
  - injection H; intros; subst. right. exists (r0 :: todo), t, n.
    rewrite pre_nil. split; [reflexivity|split; [discriminate|reflexivity]].
Qed.

(* ---------------------------------------------------------------- 3. sequential remainder of a parked sweep *)
Definition seq_rest (f : nat) (s : db) (is_t : bool) (todo : list ref) (w : option (wake * N))
           (t : Z) (n : nat) (nowv : Z) : db * list event :=
  match w with
  | Some (wk, _) => let '(s1, e1) := run_wake f s wk in pre e1 (rest is_t s1 todo t n nowv)
  | None => rest is_t s todo t n nowv
  end.

Lemma rest_cons_some is_t s r todo t n nowv s' ev0 wk e0 :
  fire_gen is_t s r = (s', ev0, Some wk) ->
  rest is_t s (r :: todo) t n nowv =
  pre ev0 (seq_rest (wake_fuel s' (w_key wk)) s' is_t todo (Some (wk, e0)) t n nowv).
Proof.
  intros H. rewrite rest_cons, H, finish_some. unfold seq_rest.
  destruct (run_wake (wake_fuel s' (w_key wk)) s' wk) as [sa ea].
  rewrite pre_pre. reflexivity.
Qed.

Lemma rest_cons_none is_t s r todo t n nowv s' ev0 :
  fire_gen is_t s r = (s', ev0, None) ->
  rest is_t s (r :: todo) t n nowv = pre ev0 (rest is_t s' todo t n nowv).
Proof. intros H. rewrite rest_cons, H, finish_none. reflexivity. Qed.

(* ---------------------------------------------------------------- 4. epochs *)
Lemma epoch_bump old s' : forall e k,
  epoch_of (bump_epochs old s' e) k = epoch_of e k \/ aget (mgrs s') k = None.
Proof.
  induction old as [|[k0 m0] old IH]; intros e k; cbn [bump_epochs]; auto.
  destruct (aget (mgrs s') k0) eqn:E; auto.
  destruct (N.eq_dec k0 k) as [->|Hne]; auto.
  unfold epoch_of at 1. rewrite aget_aset_other by auto. apply IH.
Qed.

Definition winv (ep : amap N) (s : db) (w : option (wake * N)) : Prop :=
  match w with
  | Some (wk, e0) => epoch_of ep (w_key wk) = e0 \/ aget (mgrs s) (w_key wk) = None
  | None => True
  end.

(* ---------------------------------------------------------------- 5. one thread, resumed alone *)
Lemma resume_alone_nil fuel st : s_threads st = [] -> resume_alone fuel st = (st, []).
Proof. intros H. destruct fuel; cbn [resume_alone]; [|rewrite H]; reflexivity. Qed.

Lemma sstep_resume_one s ep is_t todo w t n nowv s' ev r :
  sweep_resume s ep is_t todo w t n nowv = (s', ev, r) ->
  sstep (mkS s [TSweep is_t todo w t n nowv] ep) (SResume 0) =
  (mkS s' (match r with Some x => [x] | None => [] end) (bump_epochs (mgrs s) s' ep), ev).
Proof.
  intros H. unfold sstep, sstep_raw. cbn -[sweep_resume bump_epochs]. rewrite H.
  destruct r; reflexivity.
Qed.

Definition IHP (fuel : nat) : Prop :=
  forall f s ep is_t todo w t n nowv st' ev,
    winv ep s w -> (w = None -> todo <> []) ->
    resume_alone fuel (mkS s [TSweep is_t todo w t n nowv] ep) = (st', ev) ->
    s_threads st' = [] ->
    ~ In fuel_panic (snd (seq_rest f s is_t todo w t n nowv)) ->
    (s_db st', ev) = seq_rest f s is_t todo w t n nowv.

Lemma after_next fuel : IHP fuel -> forall is_t s todo t n nowv s1 e1 r ep st2 e2,
  sweep_next is_t s todo t n nowv = (s1, e1, r) ->
  resume_alone fuel (mkS s1 (match r with Some x => [x] | None => [] end) ep) = (st2, e2) ->
  s_threads st2 = [] ->
  ~ In fuel_panic (snd (rest is_t s todo t n nowv)) ->
  (s_db st2, e1 ++ e2) = rest is_t s todo t n nowv.
Proof.
  intros IH is_t s todo t n nowv s1 e1 r ep st2 e2 HN HR HT HP.
  destruct (next_seq _ _ _ _ _ _ _ _ _ HN) as [[-> E] | (todo' & t' & n' & -> & Hne & E)].
  - rewrite resume_alone_nil in HR by reflexivity. injection HR; intros; subst.
    rewrite app_nil_r. cbn. symmetry; exact E.
  - rewrite E in HP |- *. apply nin_pre in HP.
    specialize (IH 0%nat s1 ep is_t todo' None t' n' nowv st2 e2 I (fun _ => Hne) HR HT HP).
    cbn [seq_rest] in IH. rewrite <- IH. reflexivity.
Qed.

Lemma resume_alone_sweep : forall fuel, IHP fuel.
Proof.
  induction fuel as [|fuel IH]; intros f s ep is_t todo w t n nowv st' ev HI HW HR HT HP.
  - cbn in HR. injection HR; intros; subst. discriminate HT.
  - cbn [resume_alone s_threads] in HR.
    destruct (sweep_resume s ep is_t todo w t n nowv) as [[s1 e1] r] eqn:ER.
    rewrite (sstep_resume_one _ _ _ _ _ _ _ _ _ _ _ ER) in HR.
    destruct (resume_alone fuel (mkS s1 (match r with Some x => [x] | None => [] end)
                                     (bump_epochs (mgrs s) s1 ep))) as [st2 e2] eqn:ERA.
    injection HR; intros; subst st' ev.
    unfold sweep_resume in ER.
    destruct w as [[wk e0]|].
    + unfold seq_rest in HP |- *.
      destruct f as [|f].
      { exfalso. apply HP. rewrite run_wake_O. cbn. left; reflexivity. }
      rewrite run_wake_S in HP |- *.
      destruct (negb (epoch_of ep (w_key wk) =? e0)) eqn:EE.
      * (* the manager object is dead *)
        cbn in HI. destruct HI as [HI|HI].
        { rewrite <- HI, N.eqb_refl in EE. discriminate EE. }
        rewrite (wake_iter_none _ _ HI) in HP |- *. rewrite pre_nil in HP |- *.
        eapply after_next; eauto.
      * apply Bool.negb_false_iff, N.eqb_eq in EE.
        destruct (wake_iter s wk) as [[s' ev0] r0] eqn:EW.
        destruct r0.
        -- (* WDone *)
           destruct (sweep_next is_t s' todo t n nowv) as [[s'' ev'] th] eqn:EN.
           injection ER; intros; subst s1 e1 r.
           apply nin_pre in HP.
           rewrite <- (after_next fuel IH _ _ _ _ _ _ _ _ _ _ _ _ EN ERA HT HP).
           unfold pre; cbn [fst snd]. rewrite app_assoc. reflexivity.
        -- (* WMore *)
           injection ER; intros; subst s1 e1 r.
           destruct (run_wake f s' wk) as [sa ea] eqn:ERW.
           rewrite <- pre_pre in HP |- *. apply nin_pre in HP.
           assert (HI' : winv (bump_epochs (mgrs s) s' ep) s' (Some (wk, e0))).
           { cbn. destruct (epoch_bump (mgrs s) s' ep (w_key wk)) as [K|K]; [left; congruence|right; exact K]. }
           specialize (IH f s' _ is_t todo (Some (wk, e0)) t n nowv st2 e2 HI'
                          (fun K => ltac:(discriminate K)) ERA HT).
           unfold seq_rest in IH. rewrite ERW in IH. rewrite <- (IH HP). reflexivity.
    + destruct todo as [|r0 todo]. { destruct (HW eq_refl eq_refl). }
      unfold seq_rest in HP |- *.
      destruct (fire_gen is_t s r0) as [[s' ev0] wo] eqn:EF.
      destruct wo as [wk|].
      * injection ER; intros; subst s1 e1 r.
        rewrite (rest_cons_some _ _ _ _ _ _ _ _ _ _ (epoch_of ep (w_key wk)) EF) in HP |- *.
        apply nin_pre in HP.
        assert (HI' : winv (bump_epochs (mgrs s) s' ep) s' (Some (wk, epoch_of ep (w_key wk)))).
        { cbn. apply epoch_bump. }
        rewrite <- (IH _ s' _ is_t todo _ t n nowv st2 e2 HI' (fun K => ltac:(discriminate K)) ERA HT HP).
        reflexivity.
      * destruct (sweep_next is_t s' todo t n nowv) as [[s'' ev'] th] eqn:EN.
        injection ER; intros; subst s1 e1 r.
        rewrite (rest_cons_none _ _ _ _ _ _ _ _ _ EF) in HP |- *.
        apply nin_pre in HP.
        rewrite <- (after_next fuel IH _ _ _ _ _ _ _ _ _ _ _ _ EN ERA HT HP).
        unfold pre; cbn [fst snd]. rewrite app_assoc. reflexivity.
Qed.

(* ---------------------------------------------------------------- 6. the whole sweep *)
Lemma seq_sweep_gen is_t s :
  seq_sweep is_t s =
  sweep_secs_gen (Z.to_nat (now s + 1 - (if is_t then checkT s else checkE s))) is_t
                 (if is_t then s <| checkT := (now s + 1)%Z |> else s <| checkE := (now s + 1)%Z |>)
                 (if is_t then checkT s else checkE s) (now s).
Proof.
  unfold seq_sweep. destruct is_t; cbn [step].
  - unfold sweep_timeouts. rewrite secs_gen_t. reflexivity.
  - unfold sweep_expiries. rewrite secs_gen_e. reflexivity.
Qed.

Theorem sweep_thread_alone :
  forall is_t fuel st st' ev,
    s_threads st = [] ->
    sweep_alone fuel is_t st = (st', ev) ->
    s_threads st' = [] ->                          (* the thread reached its end within fuel steps *)
    ~ In fuel_panic (snd (seq_sweep is_t (s_db st))) ->   (* the sequential reference did not run out of wake fuel *)
    s_db st' = fst (seq_sweep is_t (s_db st)) /\ ev = snd (seq_sweep is_t (s_db st)).
Proof.
  intros is_t fuel [s th ep] st' ev Hth HA HT HP. cbn in Hth. subst th. cbn [s_db] in *.
  unfold sweep_alone in HA.
  destruct (sweep_start is_t s) as [[s1 e1] r] eqn:ES.
  assert (HS : sstep (mkS s [] ep) (SStartSweep is_t) =
               (mkS s1 (match r with Some x => [x] | None => [] end) (bump_epochs (mgrs s) s1 ep), e1)).
  { unfold sstep, sstep_raw. cbn [s_db s_threads s_epochs]. rewrite ES. destruct r; reflexivity. }
  rewrite HS in HA.
  destruct (resume_alone fuel (mkS s1 (match r with Some x => [x] | None => [] end)
                                   (bump_epochs (mgrs s) s1 ep))) as [st2 e2] eqn:ERA.
  injection HA; intros; subst st' ev.
  unfold sweep_start in ES.
  rewrite seq_sweep_gen in HP |- *. rewrite <- rest_nil in HP |- *.
  rewrite <- (after_next fuel (resume_alone_sweep fuel) _ _ _ _ _ _ _ _ _ _ _ _ ES ERA HT HP).
  split; reflexivity.
Qed.

Corollary sweep_thread_alone_timeouts :
  forall fuel st st' ev,
    s_threads st = [] ->
    sweep_alone fuel true st = (st', ev) ->
    s_threads st' = [] ->
    ~ In fuel_panic (snd (sweep_timeouts (s_db st))) ->
    s_db st' = fst (sweep_timeouts (s_db st)) /\ ev = snd (sweep_timeouts (s_db st)).
Proof. intros fuel st st' ev. exact (sweep_thread_alone true fuel st st' ev). Qed.

Corollary sweep_thread_alone_expiries :
  forall fuel st st' ev,
    s_threads st = [] ->
    sweep_alone fuel false st = (st', ev) ->
    s_threads st' = [] ->
    ~ In fuel_panic (snd (sweep_expiries (s_db st))) ->
    s_db st' = fst (sweep_expiries (s_db st)) /\ ev = snd (sweep_expiries (s_db st)).
Proof. intros fuel st st' ev. exact (sweep_thread_alone false fuel st st' ev). Qed.
