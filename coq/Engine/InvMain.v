(* Invariant proof, part 11: initial state, steps, runs. *)
From Coq Require Import String ZifyN ZifyBool ZifyNat Permutation.
From Slock Require Import Engine.Types Engine.Queues Engine.Timers Engine.Engine Engine.Engine2 Engine.InvDef Engine.InvBase
  Engine.InvPrims Engine.InvRec Engine.InvWheel Engine.InvQueue Engine.InvQueue2 Engine.InvSteps Engine.InvLockDefs Engine.InvLock
  Engine.InvUnlock Engine.InvSweep.
Open Scope N_scope.

Lemma inv_init t0 a : Inv (init_db t0 a).
Proof.
  constructor; cbn; try constructor; try (intros; discriminate); try (intros; contradiction); try lia; auto.
Qed.

Lemma cmd_core_b_iff c : cmd_core_b c = true <-> cmd_core c.
Proof.
  unfold cmd_core_b, cmd_core. rewrite !andb_true_iff, !negb_true_iff. destruct (c_data c); intuition; discriminate.
Qed.

(* one action; the allocation counter must stay below MAXREC (see InvNext.v: it grows by at most one per action) *)
Theorem inv_step s a : Inv s -> core_action a = true -> next s < MAXREC -> Inv (fst (step s a)).
Proof.
  intros G Ha Hb. destruct a as [conn c|k| | |r ok|b]; cbn [step core_action] in *.
  - apply cmd_core_b_iff in Ha. pose proof (inv_gk s (c_key c) G) as G1.
    assert (R : res_ok [] [] (c_key c) (if c_lock c then lock_step s conn c else unlock_step s conn c)).
    { destruct (c_lock c); [apply lock_step_ginv; auto|apply unlock_step_ginv; auto; apply Ha]. }
    destruct (if c_lock c then lock_step s conn c else unlock_step s conn c) as [[s1 ev] w]. destruct R as [R1 R2]. cbn [fst snd] in *.
    apply (gk_inv _ (c_key c)). apply finish_ginv; auto.
  - apply (inv_scalar s); auto.
  - apply sweep_timeouts_inv; auto.
  - apply sweep_expiries_inv; auto.
  - discriminate.
  - apply (inv_scalar s); auto.
Qed.

(* runs whose allocation counter stays below MAXREC *)
Fixpoint bounded_run (s : db) (acts : list action) : Prop :=
  match acts with
  | [] => True
  | a :: rest => next s < MAXREC /\ bounded_run (fst (step s a)) rest
  end.

Lemma run_fst_cons s a rest : fst (run s (a :: rest)) = fst (run (fst (step s a)) rest).
Proof. simpl. destruct (step s a) as [s1 e1]. cbn [fst]. destruct (run s1 rest) as [s2 es]. reflexivity. Qed.

Theorem inv_run_bounded acts : forall s, Inv s -> Forall (fun a => core_action a = true) acts -> bounded_run s acts ->
  Inv (fst (run s acts)).
Proof.
  induction acts as [|a rest IH]; intros s G Hc Hb; [exact G|].
  rewrite run_fst_cons. inversion Hc; subst. destruct Hb as [Hb1 Hb2].
  apply IH; auto. apply inv_step; auto.
Qed.
