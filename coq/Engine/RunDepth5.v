(* Depth arithmetic of re-entrant holds (property C02), part 5: holds are not lost.
   kpl r s s' : if r is a hold in s (stored, depth > 0) then it is still stored in s' with the same depth, key,
                command and ack counter.
   A record leaves the store only through FreeLock: called on the request's own new record, on the hold being released,
   or by `unref` when the reference count reaches zero -- on queue tombstones (depth 0, so not a hold) and on dead
   wait-queue entries.  Only the last case can hit a hold (a granted waiter stays in the wait queue as a dead entry
   until it is popped); there the wait queue's reference is dropped, so the hold survives when its reference count
   was at least 2 (holder reference + wait-queue reference), which the reachability invariant provides.
   Every state; the corollaries for `Inv` states are at the end. *)
From Coq Require Import String ZifyN ZifyBool ZifyNat.
From Slock Require Import Engine.Types Engine.Queues Engine.Timers Engine.Engine Engine.Engine2 Engine.LocalBase
  Engine.InvDef Engine.InvBase Engine.InvLockDefs Engine.InvUnlock Engine.RunDepth Engine.RunDepth3.
Open Scope N_scope.

Definition kpl (r : ref) (s s' : db) : Prop :=
  forall l, aget (store s) r = Some l -> 0 < l_locked l -> exists l', aget (store s') r = Some l' /\ deq l l'.

Lemma kpl_refl r s : kpl r s s.
Proof. intros l H _. exists l. split; auto. apply deq_refl. Qed.
Lemma kpl_trans r a b c : kpl r a b -> kpl r b c -> kpl r a c.
Proof.
  intros A B l H Hd. destruct (A l H Hd) as (l2 & H2 & E2).
  assert (Hd2 : 0 < l_locked l2) by (destruct E2 as (E & _); rewrite E; exact Hd).
  destruct (B l2 H2 Hd2) as (l3 & H3 & E3). exists l3. split; auto. eapply deq_trans; eauto.
Qed.

Lemma kpl_same r s s' : store s' = store s -> kpl r s s'.
Proof. intros E l H _. rewrite E. exists l. split; auto. apply deq_refl. Qed.
Lemma kpl_updl r s x f : (forall l, deq l (f l)) -> kpl r s (updl s x f).
Proof.
  intros Hf l H _. rewrite aget_store_updl. destruct (x =? r) eqn:E.
  - apply N.eqb_eq in E. subst x. rewrite H. simpl. eauto.
  - exists l. split; auto. apply deq_refl.
Qed.
Lemma kpl_updl_ne r s x f : x <> r -> kpl r s (updl s x f).
Proof.
  intros Hne l H _. rewrite aget_store_updl. destruct (x =? r) eqn:E; [apply N.eqb_eq in E; congruence|].
  exists l. split; auto. apply deq_refl.
Qed.
Lemma kpl_setl_ne r s x lx : x <> r -> kpl r s (setl s x lx).
Proof.
  intros Hne l H _. change (store (setl s x lx)) with (aset (store s) x lx). rewrite aget_aset_other by auto.
  exists l. split; auto. apply deq_refl.
Qed.
Lemma kpl_setl r s x l0 lx : aget (store s) x = Some l0 -> deq l0 lx -> kpl r s (setl s x lx).
Proof.
  intros H0 Hd l H _. change (store (setl s x lx)) with (aset (store s) x lx). rewrite aget_aset.
  destruct (x =? r) eqn:E.
  - apply N.eqb_eq in E. subst x. rewrite H in H0. inv H0. eauto.
  - exists l. split; auto. apply deq_refl.
Qed.
Lemma kpl_del_ne r s x : x <> r -> kpl r s (s <| store := adel (store s) x |>).
Proof.
  intros Hne l H _. cbn. rewrite aget_adel_other by auto. exists l. split; auto. apply deq_refl.
Qed.

Lemma kplr r s0 s s' : kpl r s s' -> kpl r s0 s -> kpl r s0 s'.
Proof. intros; eapply kpl_trans; eauto. Qed.
Lemma kplr_same r s0 s s' : store s' = store s -> kpl r s0 s -> kpl r s0 s'.
Proof. intros. eapply kpl_trans; [eassumption|apply kpl_same; auto]. Qed.
Lemma kplr_updl r s0 s x f : (forall l, deq l (f l)) -> kpl r s0 s -> kpl r s0 (updl s x f).
Proof. intros. eapply kpl_trans; [eassumption|apply kpl_updl; auto]. Qed.
Lemma kplr_updl_ne r s0 s x f : x <> r -> kpl r s0 s -> kpl r s0 (updl s x f).
Proof. intros. eapply kpl_trans; [eassumption|apply kpl_updl_ne; auto]. Qed.
Lemma kplr_setl_ne r s0 s x lx : x <> r -> kpl r s0 s -> kpl r s0 (setl s x lx).
Proof. intros. eapply kpl_trans; [eassumption|apply kpl_setl_ne; auto]. Qed.
Lemma kplr_updm r s0 s k f : kpl r s0 s -> kpl r s0 (updm s k f).
Proof. apply kplr_same, store_updm. Qed.
Lemma kplr_setm r s0 s k m : kpl r s0 s -> kpl r s0 (setm s k m).
Proof. apply kplr_same. reflexivity. Qed.
Lemma kplr_updc r s0 s f : kpl r s0 s -> kpl r s0 (updc s f).
Proof. apply kplr_same. reflexivity. Qed.
Lemma kplr_bump r s0 s f : kpl r s0 s -> kpl r s0 (bump f s).
Proof. apply kplr_same. reflexivity. Qed.

Create HintDb kpdb.
#[export] Hint Resolve kpl_refl kplr_updm kplr_setm kplr_updc kplr_bump : kpdb.
#[export] Hint Resolve kplr_updl | 2 : kpdb.
#[export] Hint Resolve kplr_updl_ne | 3 : kpdb.
#[export] Hint Extern 1 (forall l : lockrec, deq _ _) => deq_side : kpdb.
#[export] Hint Extern 1 (kpl _ _ (set _ _ ?x)) => (eapply (kplr_same _ _ x); [reflexivity|]) : kpdb.
#[export] Hint Extern 1 (kpl _ _ (if ?c then _ else _)) => destruct c : kpdb.
#[export] Hint Extern 1 (kpl _ _ (match ?c with _ => _ end)) => destruct c : kpdb.
Ltac kps := eauto 60 with kpdb.

(* the hold r is not the record x when x has depth 0 in a state that still has r *)
Lemma live_ne r s0 s x l0 :
  kpl r s0 s -> aget (store s0) r = Some l0 -> 0 < l_locked l0 -> l_locked (getl s x) = 0 -> x <> r.
Proof.
  intros K H0 Hd Hx ->. destruct (K l0 H0 Hd) as (l & H & E & _). rewrite (getl_some _ _ _ H) in Hx. lia.
Qed.

Section KP.
  Variable r : ref.

  Lemma free_lock_kpl s0 s x : x <> r -> kpl r s0 s -> kpl r s0 (free_lock s x).
  Proof.
    intros Hne H. unfold free_lock. destruct (aget (store s) x); auto.
    apply kplr_updm. eapply kplr; [apply kpl_del_ne; auto|auto].
  Qed.

  Lemma unref_kpl_ne s0 s x : x <> r -> kpl r s0 s -> kpl r s0 (unref s x).
  Proof.
    intros Hne H. unfold unref. destruct (aget (store s) x) as [l|] eqn:E; auto.
    assert (kpl r s0 (setl s x (l <| l_refc := dec8 (l_refc l) |>))) by (apply kplr_setl_ne; auto).
    destruct (_ =? 0); auto. apply free_lock_kpl; auto.
  Qed.

  (* unref of a record that has depth 0 *)
  Lemma unref_kpl_dead s0 s x : l_locked (getl s x) = 0 -> kpl r s0 s -> kpl r s0 (unref s x).
  Proof.
    intros Hx K l0 H0 Hd. apply (unref_kpl_ne s0 s x); auto. eapply live_ne; eauto.
  Qed.

  Lemma remove_mgr_kpl s0 s k : kpl r s0 s -> kpl r s0 (remove_mgr_if_unref s k).
  Proof.
    intros H. unfold remove_mgr_if_unref. destruct (aget (mgrs s) k) as [m|]; auto.
    destruct (m_ref m =? 0); auto.
  Qed.

  Lemma ltb_false_zero x : (0 <? x) = false -> x = 0.
  Proof. intros H. apply N.ltb_ge in H. lia. Qed.

  Lemma hq_compact_kpl items : forall s0 s s' kept, hq_compact s items = (s', kept) -> kpl r s0 s -> kpl r s0 s'.
  Proof.
    induction items as [|x rest IH]; simpl; intros s0 s s' kept H F.
    - inv_tuple H. auto.
    - destruct (0 <? l_locked (getl s x)) eqn:E.
      + destruct (hq_compact s rest) as [s1 k1] eqn:E1. inv_tuple H. eauto.
      + eapply IH; [exact H|]. apply unref_kpl_dead; auto. apply ltb_false_zero; auto.
  Qed.

  Lemma hq_push_kpl s0 s q x s' q' : hq_push s q x = (s', q') -> kpl r s0 s -> kpl r s0 s'.
  Proof.
    unfold hq_push. intros H F. repeat (split_hyp H); inv_tuple H; auto.
    all: eapply hq_compact_kpl; eauto.
  Qed.

  Lemma promote_kpl fuel : forall s0 s q s' q' nc, promote fuel s q = (s', q', nc) -> kpl r s0 s -> kpl r s0 s'.
  Proof.
    induction fuel as [|f IH]; simpl; intros s0 s q s' q' nc H F.
    - inv_tuple H. auto.
    - destruct (hq_pop q) as [[x|] q1]; [|inv_tuple H; auto].
      destruct (0 <? l_locked (getl s x)) eqn:E; [inv_tuple H; auto|]. eapply IH; [exact H|].
      apply unref_kpl_dead; auto. apply ltb_false_zero; auto.
  Qed.

  Lemma drop_dead_heads_kpl fuel : forall s0 s q s' q', drop_dead_heads fuel s q = (s', q') -> kpl r s0 s -> kpl r s0 s'.
  Proof.
    induction fuel as [|f IH]; simpl; intros s0 s q s' q' H F.
    - inv_tuple H. auto.
    - destruct (hq_head q) as [x|]; [|inv_tuple H; auto].
      destruct (0 <? l_locked (getl s x)) eqn:E; [inv_tuple H; auto|].
      destruct (hq_pop q) as [o q1]. eapply IH; [exact H|].
      apply unref_kpl_dead; auto. apply ltb_false_zero; auto.
  Qed.

  (* RemoveLock of another record *)
  Lemma remove_lock_kpl s0 s k x : x <> r -> kpl r s0 s -> kpl r s0 (remove_lock s k x).
  Proof.
    intros Hne F. unfold remove_lock. cbv zeta.
    match goal with |- kpl _ _ (if ?c then _ else _) => destruct c end.
    - destruct (m_locks (getm _ k)) as [q|]; [|kps].
      destruct (promote _ _ q) as [[x1 q1] nc] eqn:E.
      apply kplr_updm. eapply promote_kpl; [exact E|]. kps.
    - destruct (m_locks (getm _ k)) as [q|]; [|kps].
      destruct (drop_dead_heads _ _ _) as [x1 q1] eqn:E.
      apply kplr_updm. eapply drop_dead_heads_kpl; [exact E|]. kps.
  Qed.

  Lemma push_lock_aof_kpl s0 s k x f s' ev : push_lock_aof s k x f = (s', ev) -> kpl r s0 s -> kpl r s0 s'.
  Proof. intros H F. unfold push_lock_aof in H. repeat (split_hyp H); inv_tuple H; kps. Qed.

  Lemma push_unlock_aof_kpl s0 s k x lc uc b f s' ev : push_unlock_aof s k x lc uc b f = (s', ev) -> kpl r s0 s -> kpl r s0 s'.
  Proof. intros H F. unfold push_unlock_aof in H. repeat (split_hyp H); inv_tuple H; kps. Qed.

  Lemma repeat_push_lock_aof_kpl n : forall s0 s k x s' ev, repeat_push_lock_aof n s k x = (s', ev) -> kpl r s0 s -> kpl r s0 s'.
  Proof.
    induction n as [|n IH]; simpl; intros s0 s k x s' ev H F.
    - inv_tuple H. auto.
    - destruct (push_lock_aof s k x 0) as [s1 e1] eqn:E1.
      destruct (repeat_push_lock_aof n s1 k x) as [s2 e2] eqn:E2. inv_tuple H.
      eapply IH; [exact E2|]. eapply push_lock_aof_kpl; eauto.
  Qed.

  Lemma add_timeout_kpl s0 s x : kpl r s0 s -> kpl r s0 (add_timeout s x).
  Proof. intros F. unfold add_timeout. cbv zeta. kps. Qed.

  Lemma remove_long_timeout_kpl s0 s x : kpl r s0 s -> kpl r s0 (remove_long_timeout s x).
  Proof. intros F. unfold remove_long_timeout. cbv zeta. kps. Qed.

  Lemma remove_long_expried_kpl s0 s x t : kpl r s0 s -> kpl r s0 (remove_long_expried s x t).
  Proof. intros F. unfold remove_long_expried. kps. Qed.

  Lemma add_expried_kpl s0 s k x s' ev : add_expried s k x = (s', ev) -> kpl r s0 s -> kpl r s0 s'.
  Proof.
    unfold add_expried. cbv zeta. intros H F.
    match type of H with (if ?c then _ else _) = _ => destruct c end.
    - eapply repeat_push_lock_aof_kpl; [exact H|]. kps.
    - inv_tuple H. kps.
  Qed.

  Lemma process_data_kpl s0 s k x c b s' ev : process_data s k x c b = (s', ev) -> kpl r s0 s -> kpl r s0 s'.
  Proof. intros H F. unfold process_data in H. repeat (split_hyp H); inv_tuple H; kps. Qed.

  Lemma update_locked_lock_kpl s0 s k x c : x <> r -> kpl r s0 s -> kpl r s0 (update_locked_lock s k x c).
  Proof. intros Hne F. unfold update_locked_lock. cbv zeta. apply kplr_setl_ne; auto. Qed.

  Lemma update_and_rearm_kpl s0 s k x c s' ev : x <> r -> update_and_rearm s k x c = (s', ev) -> kpl r s0 s -> kpl r s0 s'.
  Proof.
    intros Hne H F. unfold update_and_rearm in H. cbv zeta in H.
    pose proof (update_locked_lock_kpl s0 s k x c Hne F) as U.
    destruct (l_long (getl s x)); [|inv_tuple H; auto].
    destruct (negb (has (c_eflag c) EF_MILLISECOND)); [|inv_tuple H; auto].
    match type of H with (if ?c then _ else _) = _ => destruct c end; [|inv_tuple H; auto].
    destruct (add_expried _ k x) as [x1 e1] eqn:E. inv_tuple H.
    apply kplr_updl; [deq_side|]. eapply add_expried_kpl; [exact E|].
    apply remove_long_expried_kpl; auto.
  Qed.

  Lemma new_lock_kpl s0 s k conn c s' x : next s <> r -> new_lock s k conn c = (s', x) -> kpl r s0 s -> x = next s /\ kpl r s0 s'.
  Proof.
    intros Hne H F. unfold new_lock in H. cbv zeta in H. inv_tuple H. split; [reflexivity|].
    apply kplr_updm. eapply kplr; [|exact F]. intros l Hl _.
    match goal with |- exists l', aget (store ?x) _ = _ /\ _ =>
      match x with context [aset (store s) (next s) ?L] => change (store x) with (aset (store s) (next s) L) end end.
    rewrite aget_aset_other by auto. exists l. split; auto. apply deq_refl.
  Qed.

  Lemma add_lock_kpl s0 s k x : x <> r -> kpl r s0 s -> kpl r s0 (add_lock s k x).
  Proof.
    intros Hne F. unfold add_lock. cbv zeta.
    destruct (m_cur (getm s k)); [|apply kplr_updm, kplr_setl_ne; auto].
    match goal with |- context [hq_push ?a ?q x] => destruct (hq_push a q x) as [x1 q1] eqn:E end.
    apply kplr_updm. eapply hq_push_kpl; [exact E|]. apply kplr_setl_ne; auto.
  Qed.
End KP.

#[export] Hint Resolve free_lock_kpl unref_kpl_ne remove_mgr_kpl remove_lock_kpl add_timeout_kpl
  remove_long_timeout_kpl remove_long_expried_kpl update_locked_lock_kpl add_lock_kpl : kpdb.
#[export] Hint Extern 1 (kpl _ _ ?y) =>
  is_var y;
  match goal with
  | E : push_lock_aof _ _ _ _ = (y, _) |- _ => eapply push_lock_aof_kpl; [exact E|]
  | E : push_unlock_aof _ _ _ _ _ _ _ = (y, _) |- _ => eapply push_unlock_aof_kpl; [exact E|]
  | E : add_expried _ _ _ = (y, _) |- _ => eapply add_expried_kpl; [exact E|]
  | E : process_data _ _ _ _ _ = (y, _) |- _ => eapply process_data_kpl; [exact E|]
  | E : update_and_rearm _ _ _ _ = (y, _) |- _ => eapply update_and_rearm_kpl; [|exact E|]
  end : kpdb.

(* ------------------------------------------------------------------ UnLock releasing another hold *)
Lemma release_hold_kpl r s0 s k conn c x d s' ev :
  x <> r -> release_hold s k conn c x d = (s', ev) -> kpl r s0 s -> kpl r s0 s'.
Proof.
  intros Hne H F. unfold release_hold in H. cbv zeta in H.
  repeat (split_hyp H); inv_tuple H.
  all: kps.
Qed.

Lemma ul_body_kpl r s conn c k x s' ev w : x <> r -> ul_body s conn c k x = (s', ev, w) -> kpl r s s'.
Proof.
  intros Hne H. unfold ul_body in H. cbv zeta in H.
  repeat (split_hyp H); inv_tuple H.
  all: try (eapply release_hold_kpl; [exact Hne|eassumption|]).
  all: kps.
Qed.

(* ------------------------------------------------------------------ dead wait-queue entries *)
(* what is needed of the hold r when wait-queue entries are unreferenced: if it is in the list, its count is >= 2 *)
Definition wq_safe (r : ref) (s : db) (items : list ref) : Prop :=
  NoDup items /\ (In r items -> 2 <= l_refc (getl s r) /\ l_refc (getl s r) < 256).

Lemma unref_keep_self r s l : aget (store s) r = Some l -> 2 <= l_refc l -> l_refc l < 256 ->
  aget (store (unref s r)) r = Some (l <| l_refc := dec8 (l_refc l) |>).
Proof.
  intros H H1 H2. unfold unref. rewrite H.
  assert (E : dec8 (l_refc l) = l_refc l - 1).
  { unfold dec8. replace (l_refc l + 255) with (l_refc l - 1 + 1 * 256) by lia. rewrite N.mod_add by lia. apply N.mod_small. lia. }
  rewrite E. destruct (l_refc l - 1 =? 0) eqn:E0; [apply N.eqb_eq in E0; lia|].
  change (store (setl s r (l <| l_refc := l_refc l - 1 |>))) with (aset (store s) r (l <| l_refc := l_refc l - 1 |>)).
  apply aget_aset_same.
Qed.

Lemma getl_unref_other s x r : x <> r -> getl (unref s x) r = getl s r.
Proof.
  intros Hne. unfold unref. destruct (aget (store s) x) as [l|] eqn:E; auto.
  assert (A : getl (setl s x (l <| l_refc := dec8 (l_refc l) |>)) r = getl s r).
  { unfold getl. change (store (setl s x (l <| l_refc := dec8 (l_refc l) |>))) with (aset (store s) x (l <| l_refc := dec8 (l_refc l) |>)).
    rewrite aget_aset_other by auto. reflexivity. }
  destruct (_ =? 0); auto.
  unfold free_lock. destruct (aget (store (setl s x (l <| l_refc := dec8 (l_refc l) |>))) x) as [l1|]; auto.
  rewrite getl_updm. unfold getl in *. cbn [store set eta_db]. rewrite aget_adel_other by auto. exact A.
Qed.

(* one unref of an entry x of a safe list keeps the hold (x may be r itself) *)
Lemma unref_kpl_safe r s0 s x rest :
  wq_safe r s (x :: rest) -> kpl r s0 s -> kpl r s0 (unref s x) /\ wq_safe r (unref s x) rest.
Proof.
  intros [Hnd Hin] K. inversion Hnd as [|? ? Hni Hnd']; subst.
  destruct (N.eq_dec x r) as [->|Hne].
  - split.
    + intros l0 H0 Hd. destruct (K l0 H0 Hd) as (l & H & E).
      destruct (Hin (or_introl eq_refl)) as (A1 & A2). rewrite (getl_some _ _ _ H) in A1, A2.
      rewrite (unref_keep_self r s l H A1 A2). eexists. split; [reflexivity|].
      eapply deq_trans; [exact E|]. deq_side.
    + split; auto. intros Hi. contradiction.
  - split; [apply unref_kpl_ne; auto|].
    split; auto. intros Hi. rewrite getl_unref_other by auto. apply Hin. right. auto.
Qed.

Lemma wq_compact_kpl r items : forall s0 s s' kept,
  wq_compact s items = (s', kept) -> wq_safe r s items -> kpl r s0 s -> kpl r s0 s'.
Proof.
  induction items as [|x rest IH]; simpl; intros s0 s s' kept H S F.
  - inv_tuple H. auto.
  - destruct (dead_waiter (getl s x)).
    + destruct (unref_kpl_safe r s0 s x rest S F) as (F1 & S1). eapply IH; eauto.
    + destruct (wq_compact s rest) as [s1 k1] eqn:E. inv_tuple H.
      eapply IH; [exact E| |exact F]. destruct S as [Hnd Hin]. inversion Hnd; subst. split; auto.
      intros Hi. apply Hin. right. exact Hi.
Qed.

Lemma wq_push_kpl r s0 s q x s' q' :
  wq_push s q x = (s', q') -> wq_safe r s (wq_fast q) -> kpl r s0 s -> kpl r s0 s'.
Proof.
  unfold wq_push. intros H S F. repeat (split_hyp H); inv_tuple H; auto.
  all: eapply wq_compact_kpl; eauto.
Qed.

Lemma nodup_app_l {A} (a b : list A) : NoDup (a ++ b) -> NoDup a.
Proof.
  induction a as [|x t IH]; simpl; intros H; [constructor|]. inversion H; subst. constructor; auto.
  intros Hi. apply H2. apply in_or_app. auto.
Qed.
Lemma wq_safe_sub r s a b : wq_safe r s (a ++ b) -> wq_safe r s a.
Proof. intros [Hnd Hin]. split; [eapply nodup_app_l; eauto|]. intros Hi. apply Hin. apply in_or_app. auto. Qed.

Lemma add_wait_lock_kpl r s0 s k x :
  x <> r -> wq_safe r s (m_wq (getm s k)) -> kpl r s0 s -> kpl r s0 (add_wait_lock s k x).
Proof.
  intros Hne S F. unfold add_wait_lock. cbv zeta.
  match goal with |- context [wq_push s ?q x] => set (qq := q); destruct (wq_push s qq x) as [s1 q1] eqn:E end.
  apply kplr_updm. apply kplr_updl; [deq_side|]. eapply wq_push_kpl; [exact E| |exact F].
  assert (S0 : wq_safe r s []) by (split; [constructor|intros []]).
  unfold m_wq in S. subst qq. destruct (m_wait (getm s k)) as [q|]; [|exact S0].
  assert (Sq : wq_safe r s (wq_fast q)) by (unfold wq_items in S; eapply wq_safe_sub; eauto).
  destruct (m_waited (getm s k) && negb match wq_mode q with WPrio => true | _ => false end); auto.
  destruct (wq_head q); auto. destruct (_ =? _); auto.
  unfold wq_repush. destruct (wq_mode q); auto.
Qed.

Lemma wq_head_pop q x : wq_head q = Some x -> wq_items q = x :: wq_items (wq_pop q).
Proof.
  unfold wq_head, wq_pop, wq_items. destruct (wq_fast q) as [|y t] eqn:E1.
  - destruct (wq_ring q) as [|y t] eqn:E2; [discriminate|]. intros H. inv H. cbn. rewrite E1. reflexivity.
  - intros H. inv H. cbn. reflexivity.
Qed.

Lemma get_wait_loop_kpl r fuel : forall s0 s q s' q' o,
  get_wait_loop fuel s q = (s', q', o) -> wq_safe r s (wq_items q) -> kpl r s0 s -> kpl r s0 s'.
Proof.
  induction fuel as [|f IH]; simpl; intros s0 s q s' q' o H S F.
  - inv_tuple H. auto.
  - destruct (wq_head q) as [x|] eqn:Eh; [|inv_tuple H; auto].
    destruct (dead_waiter (getl s x)); [|inv_tuple H; auto].
    rewrite (wq_head_pop q x Eh) in S. destruct (unref_kpl_safe r s0 s x _ S F) as (F1 & S1).
    eapply IH; eauto.
Qed.

Lemma get_wait_lock_kpl r s0 s k s' o :
  get_wait_lock s k = (s', o) -> wq_safe r s (m_wq (getm s k)) -> kpl r s0 s -> kpl r s0 s'.
Proof.
  unfold get_wait_lock, m_wq. intros H S F. destruct (m_wait (getm s k)) as [q|]; [|inv_tuple H; auto].
  destruct (get_wait_loop _ s q) as [[s1 q1] o1] eqn:E. inv_tuple H.
  apply kplr_updm. eapply get_wait_loop_kpl; eauto.
Qed.

(* wq_safe only looks at the wait queue of k and the reference count of r *)
Lemma wq_safe_ext r s s' k :
  m_wait (getm s' k) = m_wait (getm s k) -> l_refc (getl s' r) = l_refc (getl s r) ->
  wq_safe r s (m_wq (getm s k)) -> wq_safe r s' (m_wq (getm s' k)).
Proof. unfold wq_safe, m_wq. intros -> ->. auto. Qed.

(* ------------------------------------------------------------------ cancelWaitLock *)
Lemma getm_rlt s x k : getm (remove_long_timeout s x) k = getm s k.
Proof. unfold remove_long_timeout. destruct (aget (tlong s) _); rewrite getm_updl; reflexivity. Qed.
Lemma getl_rlt s x r : x <> r -> getl (remove_long_timeout s x) r = getl s r.
Proof.
  intros Hne. unfold remove_long_timeout. destruct (aget (tlong s) _); rewrite getl_updl;
    (destruct (x =? r) eqn:E; [apply N.eqb_eq in E; congruence|reflexivity]).
Qed.

Lemma cancel_wait_lock_kpl r s conn c s' ev w :
  l_timeouted (getl s r) = true -> wq_safe r s (m_wq (getm s (c_key c))) ->
  cancel_wait_lock s conn c = (s', ev, w) -> kpl r s s'.
Proof.
  intros Ht S H. unfold cancel_wait_lock in H. cbv zeta in H.
  destruct (match m_wait (getm s (c_key c)) with
            | Some q => find_last_waiter s (wq_items q) (c_lockid c) None
            | None => None end) as [x|] eqn:Ew.
  2:{ inv_tuple H. kps. }
  assert (Hne : x <> r).
  { intros ->. destruct (m_wait (getm s (c_key c))) as [q|]; [|discriminate].
    destruct (find_last_waiter_spec _ _ _ _ _ Ew) as [A|[_ A]]; [discriminate|congruence]. }
  set (k := c_key c) in *.
  set (s1 := updl s x (fun l => l <| l_timeouted := true |>)) in *.
  set (s2 := if l_long (getl s x) then remove_long_timeout s1 x else s1) in *.
  assert (K2 : kpl r s s2) by (unfold s2, s1; destruct (l_long (getl s x)); kps).
  assert (S2 : wq_safe r s2 (m_wq (getm s2 k))).
  { assert (E1 : getl s1 r = getl s r).
    { unfold s1. rewrite getl_updl. destruct (x =? r) eqn:E; [apply N.eqb_eq in E; congruence|reflexivity]. }
    assert (M1 : getm s1 k = getm s k) by (unfold s1; apply getm_updl).
    apply (wq_safe_ext r s s2 k); auto; unfold s2; destruct (l_long (getl s x)).
    - rewrite getm_rlt, M1. reflexivity.
    - rewrite M1. reflexivity.
    - rewrite getl_rlt by auto. rewrite E1. reflexivity.
    - rewrite E1. reflexivity. }
  destruct (0 <? l_locked (getl s x)).
  - (* the cancelled record held something (not in a reachable state): it is released like any other hold *)
    repeat (split_hyp H); inv_tuple H. all: kps.
  - destruct (get_wait_lock s2 k) as [s3 wl] eqn:Eg.
    pose proof (get_wait_lock_kpl r s s2 k s3 wl Eg S2 K2) as K3.
    repeat (split_hyp H); inv_tuple H. all: kps.
Qed.

(* ------------------------------------------------------------------ UnLock *)
Theorem unlock_step_kpl r s conn c s' ev w :
  unlock_step s conn c = (s', ev, w) ->
  (forall m, aget (mgrs s) (c_key c) = Some m -> get_locked_lock s m (c_lockid c) <> Some r) ->
  (forall m, aget (mgrs s) (c_key c) = Some m -> get_locked_lock s m (c_lockid c) = None ->
             has (c_flag c) UNLOCK_FLAG_FIRST = true -> m_cur m <> Some r) ->
  (has (c_flag c) UNLOCK_FLAG_CANCEL_WAIT = true ->
     l_timeouted (getl s r) = true /\ wq_safe r s (m_wq (getm s (c_key c)))) ->
  kpl r s s'.
Proof.
  intros H H1 H2 H3. rewrite unlock_step_eq in H. cbv zeta in H.
  destruct (aget (mgrs s) (c_key c)) as [m|] eqn:Hm; [|inv_tuple H; kps].
  destruct (negb (leader s) && negb (has (c_flag c) UNLOCK_FLAG_FROM_AOF)); [unfold ul_err in H; inv_tuple H; kps|].
  destruct (m_locked m =? 0).
  { destruct (has (c_flag c) UNLOCK_FLAG_CANCEL_WAIT) eqn:Ec; [|unfold ul_err in H; inv_tuple H; kps].
    destruct (H3 eq_refl) as (A & B). eapply cancel_wait_lock_kpl; eauto. }
  unfold ul_target, ul_err in H. cbv zeta in H.
  destruct (get_locked_lock s m (c_lockid c)) as [x|] eqn:Eg.
  - destruct (negb (l_ack (getl s x) =? 255)); [inv_tuple H; kps|].
    eapply ul_body_kpl; [|exact H]. intros ->. apply (H1 m); auto.
  - destruct (has (c_flag c) UNLOCK_FLAG_FIRST) eqn:Ef.
    + destruct (m_cur m) as [cr|] eqn:Ecr; [|inv_tuple H; kps].
      destruct (negb (l_ack (getl s cr) =? 255)); [inv_tuple H; kps|].
      eapply ul_body_kpl; [|exact H]. intros ->. apply (H2 m); auto.
    + destruct (has (c_flag c) UNLOCK_FLAG_CANCEL_WAIT) eqn:Ec; [|inv_tuple H; kps].
      destruct (H3 eq_refl) as (A & B). eapply cancel_wait_lock_kpl; eauto.
Qed.

(* ------------------------------------------------------------------ Lock *)
Lemma ls_held_kpl r s conn c k m s' ev w c' wt :
  get_locked_lock s m (c_lockid (lock_target s c m)) <> Some r ->
  ls_held s conn c k m = (Some (s', ev, w), c', wt) -> kpl r s s'.
Proof.
  intros HX H. unfold ls_held in H. cbv zeta in H. unfold lock_target in HX.
  repeat (split_hyp H); inv_tuple H; try discriminate.
  all: try match goal with HX' : Some ?x <> Some ?y |- kpl ?y _ _ => assert (x <> y) by (intros ->; apply HX'; reflexivity) end.
  all: match goal with H0 : Some _ = Some _ |- _ => inversion H0; subst; clear H0 end.
  all: kps.
Qed.

Lemma ls_tail_kpl r s conn c k waited s' ev w :
  next s <> r -> wq_safe r s (m_wq (getm s k)) ->
  ls_tail s conn c k waited = (s', ev, w) -> kpl r s s'.
Proof.
  intros Hne S H. unfold ls_tail in H. cbv zeta in H.
  destruct (new_lock s k conn c) as [s1 x] eqn:En.
  destruct (new_lock_kpl r s s k conn c s1 x Hne En (kpl_refl _ _)) as [-> D0].
  assert (Hx : next s <> r) by exact Hne.
  assert (S1 : wq_safe r s1 (m_wq (getm s1 k))).
  { unfold new_lock in En. cbv zeta in En. inv_tuple En. apply (wq_safe_ext r s _ k); auto.
    - unfold getm. rewrite aget_mgrs_updm, N.eqb_refl. cbn [mgrs set eta_db].
      destruct (aget (mgrs s) k); reflexivity.
    - rewrite getl_updm. unfold getl. cbn [store set eta_db]. rewrite aget_aset_other by auto. reflexivity. }
  pose proof (add_wait_lock_kpl r s s1 k (next s) Hx S1 D0) as KW.
  repeat (split_hyp H); inv_tuple H.
  all: kps.
Qed.

Theorem lock_step_kpl r s conn c s' ev w :
  lock_step s conn c = (s', ev, w) ->
  next s <> r ->
  (forall m, aget (mgrs s) (c_key c) = Some m -> get_locked_lock s m (c_lockid (lock_target s c m)) <> Some r) ->
  wq_safe r s (m_wq (getm s (c_key c))) ->
  kpl r s s'.
Proof.
  intros H Hne HX S. rewrite lock_step_eq in H. cbv zeta in H. set (k := c_key c) in *.
  destruct (ls_pre s conn c k); [inv_tuple H; kps|].
  assert (D1 : kpl r s (ls_mgr s k)) by (unfold ls_mgr; destruct (aget (mgrs s) k); kps).
  assert (N1 : next (ls_mgr s k) = next s) by (unfold ls_mgr; destruct (aget (mgrs s) k); reflexivity).
  assert (S1 : wq_safe r (ls_mgr s k) (m_wq (getm (ls_mgr s k) k))).
  { unfold ls_mgr. destruct (aget (mgrs s) k) eqn:Hm; auto.
    unfold getm. change (mgrs (bump (fun n => n <| n_key := (n_key n + 1)%Z |>) (setm s k new_mgr))) with (aset (mgrs s) k new_mgr).
    rewrite aget_aset_same. split; [constructor|intros []]. }
  assert (HX1 : get_locked_lock (ls_mgr s k) (getm (ls_mgr s k) k) (c_lockid (lock_target (ls_mgr s k) c (getm (ls_mgr s k) k))) <> Some r).
  { unfold ls_mgr. destruct (aget (mgrs s) k) as [m|] eqn:Hm.
    - rewrite (getm_some _ _ _ Hm). apply HX; auto.
    - unfold getm. change (mgrs (bump (fun n => n <| n_key := (n_key n + 1)%Z |>) (setm s k new_mgr))) with (aset (mgrs s) k new_mgr).
      rewrite aget_aset_same. discriminate. }
  set (s1 := ls_mgr s k) in *.
  destruct (negb (leader s1) && negb (has (c_flag c) LOCK_FLAG_FROM_AOF)); [inv_tuple H; kps|].
  destruct (ls_held s1 conn c k (getm s1 k)) as [[[res|] c'] wt] eqn:Eh.
  - destruct res as [[s2 ev2] w2]. inv_tuple H. eapply kpl_trans; [exact D1|].
    eapply ls_held_kpl; [exact HX1|exact Eh].
  - eapply kpl_trans; [exact D1|]. eapply ls_tail_kpl; [rewrite N1; exact Hne|exact S1|exact H].
Qed.
